(* C19, Metric-FF half: the position scanner on a rendered log yields exactly the plan's steps. *)
From Coq Require Import List Ascii String Bool Arith Lia.
From Verif Require Import Base.Result Base.Str Model.PlannerLogs Spec.PlannerLogs.
Import ListNotations.
Open Scope list_scope.

(* ---------- facts about characters, by enumeration of the 256 characters ---------- *)
Lemma ascii_impl (P Q : ascii -> bool) :
  forallb (fun c => implb (P c) (Q c)) all_ascii = true -> forall c, P c = true -> Q c = true.
Proof.
  intros H c Hc. pose proof (forall_ascii _ H c) as F. cbv beta in F. rewrite Hc in F. exact F.
Qed.

Lemma digit_not_blank c : is_digit c = true -> is_blank c = false.
Proof. intros H. apply negb_true_iff. revert c H. apply ascii_impl. vm_compute. reflexivity. Qed.

Lemma blank_in_class c : is_blank c = true -> in_class c = true.
Proof. revert c. apply ascii_impl. vm_compute. reflexivity. Qed.

Lemma name_in_class c : name_char c = true -> in_class c = true.
Proof. revert c. apply ascii_impl. vm_compute. reflexivity. Qed.

Lemma name_lower c : name_char c = true -> name_char (lower_ascii c) = true.
Proof. revert c. apply ascii_impl. vm_compute. reflexivity. Qed.

Lemma name_not_ws c : name_char c = true -> is_ws c = false.
Proof. intros H. apply negb_true_iff. revert c H. apply ascii_impl. vm_compute. reflexivity. Qed.

Lemma blank_ws c : is_blank c = true -> is_ws c = true.
Proof. revert c. apply ascii_impl. vm_compute. reflexivity. Qed.

Lemma blank_lower c : is_blank c = true -> lower_ascii c = c.
Proof.
  intros H. apply Ascii.eqb_eq. revert c H.
  apply (ascii_impl is_blank (fun c => Ascii.eqb (lower_ascii c) c)). vm_compute. reflexivity.
Qed.

Lemma blank_not_s c : is_blank c = true -> Ascii.eqb "s" c = false.
Proof. intros H. apply negb_true_iff. revert c H. apply ascii_impl. vm_compute. reflexivity. Qed.

Lemma digit_not_s c : is_digit c = true -> Ascii.eqb "s" c = false.
Proof. intros H. apply negb_true_iff. revert c H. apply ascii_impl. vm_compute. reflexivity. Qed.

Lemma name_not_crlf c : name_char c = true -> c <> CR /\ c <> LF.
Proof.
  intros H.
  assert (F : negb (Ascii.eqb c CR) && negb (Ascii.eqb c LF) = true).
  { revert c H. apply ascii_impl. vm_compute. reflexivity. }
  apply andb_true_iff in F. destruct F as [F1 F2].
  apply negb_true_iff in F1, F2. apply Ascii.eqb_neq in F1, F2. tauto.
Qed.

Lemma neq_lf_eqb c : c <> LF -> Ascii.eqb LF c = false.
Proof. intros H. apply Ascii.eqb_neq. congruence. Qed.

Lemma neq_lf_eqb' c : c <> LF -> Ascii.eqb c LF = false.
Proof. intros H. apply Ascii.eqb_neq. congruence. Qed.

(* ---------- take_while / drop_while / strip_prefix ---------- *)
Lemma tw_app_all p a b :
  Forall (fun c => p c = true) a -> take_while p (a ++ b) = a ++ take_while p b.
Proof. induction 1 as [|c a Hc _ IH]; simpl; [reflexivity|]. rewrite Hc, IH. reflexivity. Qed.

Lemma dw_app_all p a b :
  Forall (fun c => p c = true) a -> drop_while p (a ++ b) = drop_while p b.
Proof. induction 1 as [|c a Hc _ IH]; simpl; [reflexivity|]. rewrite Hc, IH. reflexivity. Qed.

Lemma tw_stop p l x r : p x = false -> take_while p (l ++ x :: r) = take_while p l.
Proof.
  intros Hx. induction l as [|c l IH]; simpl; [rewrite Hx; reflexivity|].
  destruct (p c); [rewrite IH|]; reflexivity.
Qed.

Lemma dw_stop p l x r : p x = false -> drop_while p (l ++ x :: r) = drop_while p l ++ x :: r.
Proof.
  intros Hx. induction l as [|c l IH]; simpl; [rewrite Hx; reflexivity|].
  destruct (p c); [rewrite IH|]; reflexivity.
Qed.

Lemma sp_app p r : strip_prefix p (p ++ r) = Some r.
Proof. induction p as [|a p IH]; simpl; [reflexivity|]. rewrite Ascii.eqb_refl. exact IH. Qed.

Lemma sp_stop p l x r :
  ~ In x p -> strip_prefix p (l ++ x :: r) = option_map (fun y => y ++ x :: r) (strip_prefix p l).
Proof.
  revert l. induction p as [|a p IH]; intros l Hx; simpl; [reflexivity|].
  destruct l as [|c l]; simpl.
  - assert (E : Ascii.eqb a x = false) by (apply Ascii.eqb_neq; intros ->; apply Hx; left; reflexivity).
    rewrite E. reflexivity.
  - destruct (Ascii.eqb a c); [|reflexivity]. apply IH. intros Hin. apply Hx. right. exact Hin.
Qed.

Lemma dw_forall (P : ascii -> Prop) p t : Forall P t -> Forall P (drop_while p t).
Proof.
  induction 1 as [|c t Hc Ht IH]; simpl; [constructor|]. destruct (p c); [exact IH|]. constructor; assumption.
Qed.

Lemma sp_forall (P : ascii -> Prop) p t r : strip_prefix p t = Some r -> Forall P t -> Forall P r.
Proof.
  revert t. induction p as [|a p IH]; intros t H Ht; simpl in H; [inversion H; subst; exact Ht|].
  destruct t as [|c t]; [discriminate|]. destruct (Ascii.eqb a c); [|discriminate].
  inversion Ht; subst. eapply IH; eassumption.
Qed.

(* ---------- unfolding equations of the scanner ---------- *)
Lemma scan_cons_skip c r b k : scan (c :: r) b (S k) = scan r (Ascii.eqb c LF) k.
Proof. reflexivity. Qed.

Lemma scan_cons_nobol c r : scan (c :: r) false 0 = scan r (Ascii.eqb c LF) 0.
Proof. reflexivity. Qed.

Lemma scan_cons_bol c r :
  scan (c :: r) true 0 =
  match match_here (c :: r) with
  | Some (g, rest) => g :: scan r (Ascii.eqb c LF) (List.length (c :: r) - List.length rest - 1)
  | None => scan r (Ascii.eqb c LF) 0
  end.
Proof. reflexivity. Qed.

(* inside a line, away from its beginning, nothing matches *)
Lemma scan_rest_of_line l rest : no_lf l -> scan (l ++ LF :: rest) false 0 = scan rest true 0.
Proof.
  induction 1 as [|c l Hc _ IH].
  - cbn [app]. rewrite scan_cons_nobol, Ascii.eqb_refl. reflexivity.
  - cbn [app]. rewrite scan_cons_nobol, (neq_lf_eqb' c Hc). exact IH.
Qed.

Lemma scan_nolf_nobol l : no_lf l -> scan l false 0 = [].
Proof.
  induction 1 as [|c l Hc _ IH]; [reflexivity|]. rewrite scan_cons_nobol, (neq_lf_eqb' c Hc). exact IH.
Qed.

(* a line on which the pattern does not match contributes nothing *)
Lemma scan_line_nomatch l rest :
  no_lf l -> match_here (l ++ LF :: rest) = None -> scan (l ++ LF :: rest) true 0 = scan rest true 0.
Proof.
  intros Hl Hm. destruct l as [|c l].
  - cbn [app] in *. rewrite scan_cons_bol, Hm, Ascii.eqb_refl. reflexivity.
  - cbn [app] in *. rewrite scan_cons_bol, Hm. inversion Hl as [|? ? Hc Hl']; subst.
    rewrite (neq_lf_eqb' c Hc). apply scan_rest_of_line. exact Hl'.
Qed.

(* the characters of a match are skipped; the scan resumes after its final LF, at a line beginning *)
Lemma scan_skip m rest b : scan (m ++ LF :: rest) b (S (List.length m)) = scan rest true 0.
Proof.
  revert b. induction m as [|c m IH]; intros b.
  - cbn [app List.length]. rewrite scan_cons_skip, Ascii.eqb_refl.
    destruct rest; reflexivity.
  - cbn [app List.length]. rewrite scan_cons_skip. apply IH.
Qed.

Lemma scan_match_line m g rest :
  match_here ((m ++ [LF]) ++ rest) = Some (g, rest) ->
  scan ((m ++ [LF]) ++ rest) true 0 = g :: scan rest true 0.
Proof.
  intros H. rewrite <- app_assoc in *. cbn [app] in *. destruct m as [|c m].
  - cbn [app] in *. rewrite scan_cons_bol, H, Ascii.eqb_refl. cbn [List.length].
    replace (S (List.length rest) - List.length rest - 1) with 0 by lia. reflexivity.
  - cbn [app] in *. rewrite scan_cons_bol, H. f_equal.
    cbn [List.length]. rewrite app_length. cbn [List.length].
    replace (S (List.length m + S (List.length rest)) - List.length rest - 1) with (S (List.length m)) by lia.
    apply scan_skip.
Qed.

(* ---------- lines without a step label ---------- *)
Lemma lf_not_in_label : ~ In LF [":"%char; SP].
Proof. simpl. intros [H|[H|[]]]; discriminate. Qed.

Lemma lf_not_in_step : ~ In LF (s2t "step").
Proof. simpl. intros [H|[H|[H|[H|[]]]]]; discriminate. Qed.

Lemma after_label_line x rest :
  after_label (x ++ LF :: rest) = option_map (fun y => y ++ LF :: rest) (after_label x).
Proof.
  unfold after_label. rewrite dw_stop by reflexivity. rewrite tw_stop by reflexivity.
  destruct (take_while is_digit (drop_while is_blank x)); [reflexivity|].
  rewrite dw_stop by reflexivity. apply sp_stop. exact lf_not_in_label.
Qed.

Lemma label_at_false x : label_at x = false -> after_label x = None.
Proof.
  unfold label_at, after_label.
  destruct (take_while is_digit (drop_while is_blank x)); [reflexivity|].
  destruct (strip_prefix _ _); [discriminate|reflexivity].
Qed.

Lemma try_line_nolabel x rest : label_at x = false -> try_line (x ++ LF :: rest) = None.
Proof.
  intros H. unfold try_line. rewrite after_label_line, (label_at_false x H). reflexivity.
Qed.

Lemma match_here_nolabel l rest : has_step_label l = false -> match_here (l ++ LF :: rest) = None.
Proof.
  unfold has_step_label. intros H. apply orb_false_iff in H. destruct H as [H1 H2].
  unfold match_here. rewrite (sp_stop _ _ _ _ lf_not_in_step).
  destruct (strip_prefix (s2t "step") l) as [r|]; cbn [option_map].
  - rewrite (try_line_nolabel r rest H2). apply try_line_nolabel. exact H1.
  - apply try_line_nolabel. exact H1.
Qed.

Lemma scan_log_line l rest : log_line l -> scan (l ++ LF :: rest) true 0 = scan rest true 0.
Proof.
  intros [Hl Hn]. apply scan_line_nomatch; [exact Hl|]. apply match_here_nolabel. exact Hn.
Qed.

Lemma scan_log_lines ls rest : Forall log_line ls -> scan (render_lines ls ++ rest) true 0 = scan rest true 0.
Proof.
  induction 1 as [|l ls Hl _ IH]; [reflexivity|].
  unfold render_lines in *. cbn [flat_map]. rewrite <- !app_assoc. cbn [app].
  rewrite scan_log_line by exact Hl. exact IH.
Qed.

(* ---------- text without any LF: the pattern cannot match ---------- *)
Lemma eol_here_nolf x : no_lf x -> eol_here x = None.
Proof.
  intros H. unfold eol_here. destruct x as [|c1 x]; [reflexivity|].
  inversion H as [|? ? H1 Hx]; subst. cbn [strip_prefix]. rewrite (neq_lf_eqb c1 H1).
  destruct (Ascii.eqb CR c1); [|reflexivity].
  destruct x as [|c2 x]; [reflexivity|]. inversion Hx as [|? ? H2 _]; subst.
  rewrite (neq_lf_eqb c2 H2). reflexivity.
Qed.

Lemma body_here_nolf t : no_lf t -> body_here t = None.
Proof.
  intros H. unfold body_here. destruct (take_while in_class t); [reflexivity|].
  rewrite eol_here_nolf; [reflexivity|]. apply dw_forall. exact H.
Qed.

Lemma try_line_nolf t : no_lf t -> try_line t = None.
Proof.
  intros H. unfold try_line. destruct (after_label t) as [r|] eqn:E; [|reflexivity].
  apply body_here_nolf. unfold after_label in E.
  destruct (take_while is_digit (drop_while is_blank t)); [discriminate|].
  eapply sp_forall; [exact E|]. apply dw_forall, dw_forall. exact H.
Qed.

Lemma match_here_nolf t : no_lf t -> match_here t = None.
Proof.
  intros H. unfold match_here. destruct (strip_prefix (s2t "step") t) as [r|] eqn:E.
  - rewrite (try_line_nolf r) by (eapply sp_forall; eassumption). apply try_line_nolf. exact H.
  - apply try_line_nolf. exact H.
Qed.

Lemma scan_nolf l : no_lf l -> scan l true 0 = [].
Proof.
  intros H. destruct l as [|c l]; [reflexivity|].
  rewrite scan_cons_bol, (match_here_nolf _ H). inversion H as [|? ? Hc Hl]; subst.
  rewrite (neq_lf_eqb' c Hc). apply scan_nolf_nobol. exact Hl.
Qed.

(* ---------- step lines ---------- *)
Lemma join_sp_forall (P : ascii -> Prop) s :
  P SP -> Forall (Forall P) s -> Forall P (join_sp s).
Proof.
  intros Hsp. induction 1 as [|w s Hw Hs IH]; [constructor|].
  cbn [join_sp]. destruct s as [|w2 s]; [exact Hw|].
  apply Forall_app. split; [exact Hw|]. constructor; [exact Hsp | exact IH].
Qed.

Lemma step_words_forall (P : ascii -> Prop) s :
  (forall c, name_char c = true -> P c) -> step_ok s -> Forall (Forall P) s.
Proof.
  intros HP [_ Hs]. induction Hs as [|w s [_ Hw] _ IH]; [constructor|]. constructor; [|exact IH].
  eapply Forall_impl; [|exact Hw]. exact HP.
Qed.

Lemma join_sp_head s : step_ok s -> exists x b, join_sp s = x :: b /\ name_char x = true.
Proof.
  intros [Hne Hs]. destruct s as [|w s]; [congruence|].
  inversion Hs as [|? ? [Hwne Hw] _]; subst. destruct w as [|x w]; [congruence|].
  inversion Hw; subst. cbn [join_sp]. destruct s; cbn [app]; eauto.
Qed.

Lemma join_sp_last s : step_ok s -> exists b y, join_sp s = b ++ [y] /\ name_char y = true.
Proof.
  intros [Hne Hs]. induction Hs as [|w s [Hwne Hw] Hs IH]; [congruence|].
  destruct s as [|w2 s].
  - cbn [join_sp]. destruct (exists_last Hwne) as (b & y & ->).
    apply Forall_app in Hw. destruct Hw as [_ Hy]. inversion Hy; subst. eauto.
  - destruct IH as (b & y & E & Hy); [discriminate|].
    change (join_sp (w :: w2 :: s)) with (w ++ SP :: join_sp (w2 :: s)). rewrite E.
    exists (w ++ SP :: b), y. split; [|exact Hy]. rewrite <- app_assoc. reflexivity.
Qed.

Lemma lower_join s : lower_text (join_sp s) = join_sp (map lower_text s).
Proof.
  induction s as [|w s IH]; [reflexivity|]. destruct s as [|w2 s]; [reflexivity|].
  change (join_sp (w :: w2 :: s)) with (w ++ SP :: join_sp (w2 :: s)).
  change (join_sp (map lower_text (w :: w2 :: s)))
    with (lower_text w ++ SP :: join_sp (map lower_text (w2 :: s))).
  unfold lower_text at 1. rewrite map_app. cbn [map]. fold (lower_text w).
  fold (lower_text (join_sp (w2 :: s))). rewrite IH. reflexivity.
Qed.

Lemma step_ok_lower s : step_ok s -> step_ok (map lower_text s).
Proof.
  intros [Hne Hs]. split; [destruct s; [congruence|discriminate]|].
  clear Hne. induction Hs as [|w s [Hwne Hw] _ IH]; [constructor|]. cbn [map]. constructor; [|exact IH].
  split; [destruct w; [congruence|discriminate]|].
  unfold lower_text. apply Forall_map. eapply Forall_impl; [|exact Hw]. exact name_lower.
Qed.

Lemma lower_blanks t : blanks t -> lower_text t = t.
Proof.
  induction 1 as [|c t Hc _ IH]; [reflexivity|]. cbn [lower_text map]. rewrite (blank_lower c Hc).
  f_equal. exact IH.
Qed.

Lemma blanks_ws t : blanks t -> Forall (fun c => is_ws c = true) t.
Proof. intros H. eapply Forall_impl; [|exact H]. exact blank_ws. Qed.

Lemma strip_padded a b body x b1 b2 y :
  Forall (fun c => is_ws c = true) a -> Forall (fun c => is_ws c = true) b ->
  body = x :: b1 -> is_ws x = false -> body = b2 ++ [y] -> is_ws y = false ->
  strip (a ++ body ++ b) = body.
Proof.
  intros Ha Hb E1 Hx E2 Hy. unfold strip.
  rewrite dw_app_all by exact Ha.
  assert (D1 : drop_while is_ws (body ++ b) = body ++ b).
  { rewrite E1. cbn [app drop_while]. rewrite Hx. reflexivity. }
  rewrite D1, rev_app_distr. rewrite dw_app_all by (apply Forall_rev; exact Hb).
  assert (D2 : drop_while is_ws (rev body) = rev body).
  { rewrite E2, rev_app_distr. cbn [rev app drop_while]. rewrite Hy. reflexivity. }
  rewrite D2. apply rev_involutive.
Qed.

Definition group_of (ls : layout * step) : text := l_pre (fst ls) ++ join_sp (snd ls) ++ l_post (fst ls).

Lemma action_of_group_step l s :
  layout_ok l -> step_ok s -> action_of_group (group_of (l, s)) = expected_action s.
Proof.
  intros (_ & _ & _ & Hpre & Hpost) Hs. unfold action_of_group, expected_action, group_of. cbn [fst snd].
  f_equal. f_equal. unfold lower_text at 1. rewrite !map_app.
  fold (lower_text (l_pre l)). fold (lower_text (join_sp s)). fold (lower_text (l_post l)).
  rewrite (lower_blanks _ Hpre), (lower_blanks _ Hpost), lower_join.
  pose proof (step_ok_lower s Hs) as Hs'.
  destruct (join_sp_head _ Hs') as (x & b1 & E1 & Hx).
  destruct (join_sp_last _ Hs') as (b2 & y & E2 & Hy).
  eapply strip_padded; try eassumption.
  - apply blanks_ws. exact Hpre.
  - apply blanks_ws. exact Hpost.
  - apply name_not_ws. exact Hx.
  - apply name_not_ws. exact Hy.
Qed.

Lemma try_line_step l s rest :
  layout_ok l -> step_ok s ->
  try_line (l_indent l ++ l_num l ++ [":"%char; SP] ++ l_pre l ++ join_sp s ++ l_post l ++ eol (l_cr l) ++ rest)
  = Some (group_of (l, s), rest).
Proof.
  intros (Hind & Hnum & Hdig & Hpre & Hpost) Hs.
  unfold try_line, after_label.
  rewrite (dw_app_all is_blank) by exact Hind.
  destruct (l_num l) as [|d n] eqn:En; [congruence|].
  inversion Hdig as [|? ? Hd Hn]; subst.
  cbn [app drop_while]. rewrite (digit_not_blank d Hd).
  change (d :: n ++ ":"%char :: SP :: ?r) with ((d :: n) ++ ":"%char :: SP :: r).
  rewrite (tw_app_all is_digit) by exact Hdig. rewrite (dw_app_all is_digit) by exact Hdig.
  cbn [app take_while drop_while strip_prefix].
  change (is_digit ":"%char) with false. cbn iota.
  change (Ascii.eqb ":"%char ":"%char) with true. change (Ascii.eqb SP SP) with true. cbn iota.
  (* the body *)
  assert (Hbody : Forall (fun c => in_class c = true) (join_sp s)).
  { apply join_sp_forall; [reflexivity|]. apply step_words_forall; [exact name_in_class | exact Hs]. }
  assert (Hg : Forall (fun c => in_class c = true) (group_of (l, s))).
  { unfold group_of. cbn [fst snd]. rewrite !Forall_app. repeat split.
    - eapply Forall_impl; [|exact Hpre]. exact blank_in_class.
    - exact Hbody.
    - eapply Forall_impl; [|exact Hpost]. exact blank_in_class. }
  assert (Hassoc : l_pre l ++ join_sp s ++ l_post l ++ eol (l_cr l) ++ rest = group_of (l, s) ++ eol (l_cr l) ++ rest).
  { unfold group_of. cbn [fst snd]. rewrite <- !app_assoc. reflexivity. }
  rewrite Hassoc. unfold body_here.
  rewrite (tw_app_all in_class) by exact Hg. rewrite (dw_app_all in_class) by exact Hg.
  assert (Heol : take_while in_class (eol (l_cr l) ++ rest) = [] /\
                 eol_here (drop_while in_class (eol (l_cr l) ++ rest)) = Some rest).
  { destruct (l_cr l); split; reflexivity. }
  destruct Heol as [-> ->]. rewrite app_nil_r.
  destruct (group_of (l, s)) as [|g0 g] eqn:Eg; [|reflexivity].
  exfalso. unfold group_of in Eg. cbn [fst snd] in Eg.
  destruct (join_sp_head s Hs) as (x & b & E & _). rewrite E in Eg.
  destruct (l_pre l); discriminate.
Qed.

Lemma match_here_step l s rest :
  layout_ok l -> step_ok s -> match_here (render_step (l, s) ++ rest) = Some (group_of (l, s), rest).
Proof.
  intros Hl Hs. unfold render_step. cbn [fst snd]. rewrite <- !app_assoc.
  pose proof (try_line_step l s rest Hl Hs) as Ht. cbn [app] in Ht.
  unfold match_here. destruct (l_step l).
  - rewrite sp_app. cbn [app]. cbn [app] in Ht. rewrite Ht. reflexivity.
  - cbn [app].
    assert (Hnone : strip_prefix (s2t "step")
              (l_indent l ++ l_num l ++ ":"%char :: SP :: l_pre l ++ join_sp s ++ l_post l ++ eol (l_cr l) ++ rest) = None).
    { destruct Hl as (Hind & Hnum & Hdig & _).
      destruct (l_indent l) as [|c i].
      - destruct (l_num l) as [|d n]; [congruence|]. inversion Hdig; subst.
        cbn [app s2t list_ascii_of_string strip_prefix]. rewrite digit_not_s by assumption. reflexivity.
      - inversion Hind; subst.
        cbn [app s2t list_ascii_of_string strip_prefix]. rewrite blank_not_s by assumption. reflexivity. }
    rewrite Hnone. exact Ht.
Qed.

Lemma ends_lf_app a b : (exists m, b = m ++ [LF]) -> exists m, a ++ b = m ++ [LF].
Proof. intros (m & ->). exists (a ++ m). rewrite app_assoc. reflexivity. Qed.

Lemma render_step_ends ls : exists m, render_step ls = m ++ [LF].
Proof.
  unfold render_step. repeat apply ends_lf_app.
  unfold eol. destruct (l_cr (fst ls)); [exists [CR] | exists []]; reflexivity.
Qed.

Definition steps_ok (steps : list (layout * step)) : Prop :=
  Forall (fun ls => layout_ok (fst ls) /\ step_ok (snd ls)) steps.

Lemma scan_steps steps rest :
  steps_ok steps ->
  scan (flat_map render_step steps ++ rest) true 0 = map group_of steps ++ scan rest true 0.
Proof.
  induction 1 as [|[l s] steps [Hl Hs] _ IH]; [reflexivity|].
  cbn [flat_map map fst snd] in *. rewrite <- app_assoc.
  destruct (render_step_ends (l, s)) as (m & Em).
  pose proof (match_here_step l s (flat_map render_step steps ++ rest) Hl Hs) as Hm.
  rewrite Em in *. rewrite (scan_match_line _ _ _ Hm). rewrite IH. reflexivity.
Qed.

Lemma map_action_group steps :
  steps_ok steps -> map action_of_group (map group_of steps) = map expected_action (map snd steps).
Proof.
  induction 1 as [|[l s] steps [Hl Hs] _ IH]; [reflexivity|].
  cbn [map snd]. rewrite IH. f_equal. apply action_of_group_step; assumption.
Qed.

(* ---------- the marker ---------- *)
Lemma no_lf_b t : forallb (fun c => negb (Ascii.eqb c LF)) t = true -> no_lf t.
Proof.
  intros H. apply Forall_forall. intros c Hc. rewrite forallb_forall in H.
  specialize (H c Hc). apply negb_true_iff in H. apply Ascii.eqb_neq in H. exact H.
Qed.

Lemma marker_log_line cr : log_line (marker ++ (if cr : bool then [CR] else [])).
Proof. destruct cr; (split; [apply no_lf_b; vm_compute; reflexivity | vm_compute; reflexivity]). Qed.

Lemma marker_eol cr r : marker ++ eol cr ++ r = (marker ++ (if cr then [CR] else [])) ++ LF :: r.
Proof. destruct cr; rewrite <- app_assoc; reflexivity. Qed.

Theorem finditer_render_ff header mcr steps trailer last :
  Forall log_line header -> steps_ok steps -> Forall log_line trailer -> no_lf last ->
  finditer_groups (render_ff header mcr steps trailer last) = map group_of steps.
Proof.
  intros Hh Hs Ht Hl. unfold finditer_groups, render_ff.
  rewrite scan_log_lines by exact Hh.
  rewrite marker_eol. rewrite scan_log_line by apply marker_log_line.
  rewrite scan_steps by exact Hs.
  rewrite scan_log_lines by exact Ht.
  rewrite scan_nolf by exact Hl. apply app_nil_r.
Qed.

(* ---------- status markers ---------- *)
Lemma search_pat_unfold p t :
  search_pat p t = match_pat p t || match t with [] => false | _ :: r => search_pat p r end.
Proof. destruct t; reflexivity. Qed.

Lemma match_lit m post : match_pat (map PLit m) (m ++ post) = true.
Proof. induction m as [|c m IH]; [reflexivity|]. cbn. rewrite Ascii.eqb_refl. exact IH. Qed.

Lemma search_app p pre x : match_pat p x = true -> search_pat p (pre ++ x) = true.
Proof.
  intros H. induction pre as [|c pre IH].
  - cbn [app]. rewrite search_pat_unfold, H. reflexivity.
  - cbn [app]. rewrite search_pat_unfold, IH. apply orb_true_r.
Qed.

Lemma match_lit_inv m t : match_pat (map PLit m) t = true -> exists post, t = m ++ post.
Proof.
  revert t. induction m as [|a m IH]; intros t H; [exists t; reflexivity|].
  cbn [map match_pat] in H. destruct t as [|c t]; [discriminate|].
  apply andb_true_iff in H. destruct H as [H1 H2]. cbn [pelem_match] in H1.
  apply Ascii.eqb_eq in H1. subst c. destruct (IH t H2) as (post & ->). exists post. reflexivity.
Qed.

Lemma search_lit_inv m t : search_pat (map PLit m) t = true -> contains m t.
Proof.
  induction t as [|c t IH]; intros H; rewrite search_pat_unfold in H; apply orb_true_iff in H.
  - destruct H as [H|H]; [|discriminate]. destruct (match_lit_inv _ _ H) as (post & E).
    exists [], post. exact E.
  - destruct H as [H|H].
    + destruct (match_lit_inv _ _ H) as (post & E). exists [], post. exact E.
    + destruct (IH H) as (pre & post & ->). exists (c :: pre), post. reflexivity.
Qed.

Lemma valid_plan_compiled : compile_simple (s2t valid_plan_src) = map PLit marker.
Proof. vm_compute. reflexivity. Qed.

Lemma re_search_marker pre post : re_search valid_plan_src (pre ++ marker ++ post) = true.
Proof. unfold re_search. rewrite valid_plan_compiled. apply search_app, match_lit. Qed.

Lemma re_search_marker_inv t : re_search valid_plan_src t = true -> contains marker t.
Proof. unfold re_search. rewrite valid_plan_compiled. apply search_lit_inv. Qed.

(* ---------- the theorems ---------- *)
Theorem C19_ff_lemma : forall header mcr steps trailer last,
  Forall log_line header -> steps_ok steps -> Forall log_line trailer -> no_lf last ->
  get_solving_status (render_ff header mcr steps trailer last) = (StOk, map expected_action (map snd steps)) /\
  parse_plan_file (render_ff header mcr steps trailer last) =
    match steps with [] => None | _ => Some (List.concat (map expected_action (map snd steps))) end.
Proof.
  intros header mcr steps trailer last Hh Hs Ht Hl.
  assert (Hp : parse_plan_content (render_ff header mcr steps trailer last) = map expected_action (map snd steps)).
  { unfold parse_plan_content. rewrite finditer_render_ff by assumption. apply map_action_group. exact Hs. }
  split.
  - unfold get_solving_status.
    assert (Hm : re_search valid_plan_src (render_ff header mcr steps trailer last) = true).
    { unfold render_ff. apply re_search_marker. }
    rewrite Hm, Hp. reflexivity.
  - unfold parse_plan_file. rewrite Hp. destruct steps; reflexivity.
Qed.

Theorem C19_ff_noplan_lemma : forall t,
  ~ contains marker t ->
  (fst (get_solving_status t) = StNoSolution \/ fst (get_solving_status t) = StTimeout) /\
  snd (get_solving_status t) = [].
Proof.
  intros t H. unfold get_solving_status.
  destruct (re_search valid_plan_src t) eqn:E; [exfalso; apply H, re_search_marker_inv, E|].
  destruct (existsb _ no_solution_srcs); cbn [fst snd]; auto.
Qed.

(* ---------- the hypotheses are satisfiable by non-trivial values ---------- *)
Definition ex_header : list text :=
  map s2t ["ff: parsing domain file"; "depth 3: foo"; "Cueing down from goal distance:   18 into depth [1][2]";
           "A1: MOVE A B"; ""; "step"]%string.
Definition ex_trailer : list text := map s2t ["plan cost 54"; "time spent:    0.00 seconds"; "123"]%string.
Definition ex_steps : list (layout * step) :=
  [ ({| l_step := true; l_indent := s2t "    "; l_num := s2t "0"; l_pre := []; l_post := []; l_cr := false |},
     map s2t ["DRIVE"; "TRUCK0"; "DEPOT0"]%string);
    ({| l_step := false; l_indent := TAB :: s2t "  "; l_num := s2t "107"; l_pre := [SP]; l_post := [SP; TAB]; l_cr := true |},
     map s2t ["pick-up"; "b_1"]%string) ].
Definition ex_last : text := s2t "  5: FOO BAR".

Lemma log_line_b l :
  forallb (fun c => negb (Ascii.eqb c LF)) l && negb (has_step_label l) = true -> log_line l.
Proof.
  intros H. apply andb_true_iff in H. destruct H as [H1 H2]. split; [apply no_lf_b; exact H1|].
  apply negb_true_iff. exact H2.
Qed.

Lemma log_lines_b ls :
  forallb (fun l => forallb (fun c => negb (Ascii.eqb c LF)) l && negb (has_step_label l)) ls = true ->
  Forall log_line ls.
Proof.
  intros H. apply Forall_forall. intros l Hl. rewrite forallb_forall in H. apply log_line_b, H, Hl.
Qed.

Example C19_ff_hypotheses_satisfiable :
  Forall log_line ex_header /\ steps_ok ex_steps /\ Forall log_line ex_trailer /\ no_lf ex_last /\
  ~ contains marker (render_lines ex_header).
Proof.
  split; [apply log_lines_b; vm_compute; reflexivity|].
  split; [unfold steps_ok, ex_steps, layout_ok, step_ok, word_ok, blanks; cbn;
          repeat (split || constructor || discriminate)|].
  split; [apply log_lines_b; vm_compute; reflexivity|].
  split; [apply no_lf_b; vm_compute; reflexivity|].
  intros Hc.
  assert (E : re_search valid_plan_src (render_lines ex_header) = false) by (vm_compute; reflexivity).
  destruct Hc as (pre & post & Hc). rewrite Hc, re_search_marker in E. discriminate.
Qed.

(* the instance, computed: what the model extracts from the example log *)
Example C19_ff_example :
  map t2s (snd (get_solving_status (render_ff ex_header true ex_steps ex_trailer ex_last)))
  = ["(drive truck0 depot0)" ++ String LF EmptyString; "(pick-up b_1)" ++ String LF EmptyString]%string.
Proof. vm_compute. reflexivity. Qed.
