(* C08: reading back a printed condition (Precondition._print_self / PreconditionsParser.parse). *)
From Coq Require Import List Ascii String Bool Arith Lia PrimFloat.
From Verif Require Import Base.Result Base.Str Base.Sexp Base.PyDict Base.Float
  Model.Types Model.NumExpr Model.Domain Model.DomainExporter Proofs.C08_Defs Proofs.C08_Trees.
Import ListNotations.
Open Scope string_scope.
Open Scope list_scope.

(* ---------- induction over the nested object model ---------- *)
Section MpreInd.
  Variable P : mpre -> Prop.
  Variable Q : mcond -> Prop.
  Hypothesis HPre : forall op os eqs neqs, Forall Q os -> P (MPre op os eqs neqs).
  Hypothesis HLit : forall pos p args, Q (MLit pos p args).
  Hypothesis HNum : forall t, Q (MNum t).
  Hypothesis HNested : forall q, P q -> Q (MNested q).
  Hypothesis HUniv : forall v ty q, P q -> Q (MUniv v ty q).
  Fixpoint mpre_ind' (p : mpre) : P p :=
    match p with
    | MPre op os eqs neqs =>
        HPre op os eqs neqs
          ((fix go (l : list mcond) : Forall Q l :=
              match l with
              | [] => Forall_nil _
              | c :: r => Forall_cons _ (mcond_ind' c) (go r)
              end) os)
    end
  with mcond_ind' (c : mcond) : Q c :=
    match c with
    | MLit pos p args => HLit pos p args
    | MNum t => HNum t
    | MNested q => HNested q (mpre_ind' q)
    | MUniv v ty q => HUniv v ty q (mpre_ind' q)
    end.
End MpreInd.

Definition pre_items (d : nat) (os : list mcond) (eqs neqs : list (string * string)) : list sexp :=
  flat_map (export_cond d) os ++ map export_eq eqs ++ map export_neq neqs.

Lemma export_pre_items d op os eqs neqs :
  export_pre d (MPre op os eqs neqs) = SList (Atom op :: pre_items d os eqs neqs).
Proof.
  reflexivity.
Qed.

Definition sum_sizes (l : list sexp) : nat := list_sum (map size l).

Lemma sum_sizes_app a b : sum_sizes (a ++ b) = sum_sizes a + sum_sizes b.
Proof. unfold sum_sizes. rewrite map_app. induction (map size a); simpl; lia. Qed.

Lemma size_slist_cons h l : size (SList (Atom h :: l)) = 3 + sum_sizes l.
Proof. reflexivity. Qed.

Section Pre.
  Variable num : numparser.
  Variable tt : typetable.
  Variable consts : pydict string.
  Variable preds funcs : pydict signature.
  Variable d : nat.
  Variable tyk ck : string -> bool.
  Hypothesis Htyk : forall t, type_known tt t = tyk t.
  Hypothesis Hck : forall a, dmem consts a = ck a.
  Hypothesis Hres : forall k, str_in k reserved_names = true -> dmem preds k = false.

  Notation wfp := (wf_pre num tyk ck preds funcs d).
  Notation wfc := (wf_cond num tyk ck preds funcs d).
  Notation pp := (parse_pre num tt consts preds funcs).

  Lemma lit_pos_step fu sg root rest p args :
    is_connective p = false -> dmem preds p = true -> wf_args ck sg args = true ->
    pp (S fu) sg root (export_lit true p args :: rest) = pp fu sg (add_operand (MLit true p args) root) rest.
  Proof.
    intros Hc Hp Ha. unfold export_lit. cbn [parse_pre head_of bind].
    unfold is_connective in Hc. rewrite Hc, Hp.
    rewrite (parse_untyped_roundtrip consts ck Hck sg true p args Ha). cbn [bind l_name l_args]. reflexivity.
  Qed.

  Ltac str_compute := cbn [String.eqb Ascii.eqb Bool.eqb orb andb negb str_in comparison_ops].

  Lemma res_not : dmem preds "not" = false. Proof. apply Hres. reflexivity. Qed.
  Lemma res_eq : dmem preds "=" = false. Proof. apply Hres. reflexivity. Qed.
  Lemma res_forall : dmem preds "forall" = false. Proof. apply Hres. reflexivity. Qed.
  Lemma res_cmp op : str_in op comparison_ops = true -> dmem preds op = false.
  Proof.
    intros H. apply Hres. cbn [str_in comparison_ops] in H. cbn [str_in reserved_names].
    repeat (apply orb_true_iff in H; destruct H as [H|H]); try discriminate; rewrite H; repeat rewrite orb_true_r; reflexivity.
  Qed.

  Lemma lit_neg_step fu sg root rest p args :
    String.eqb p "=" = false -> wf_args ck sg args = true ->
    pp (S fu) sg root (export_lit false p args :: rest) = pp fu sg (add_operand (MLit false p args) root) rest.
  Proof.
    intros Hp Ha. unfold export_lit. cbn [parse_pre head_of bind]. str_compute. rewrite res_not.
    cbn [head_of bind]. rewrite Hp.
    rewrite (parse_untyped_roundtrip consts ck Hck sg false p args Ha). cbn [bind l_name l_args]. reflexivity.
  Qed.

  Lemma eq_step fu sg root rest ab :
    pp (S fu) sg root (export_eq ab :: rest) = pp fu sg (add_eq ab root) rest.
  Proof.
    destruct ab as [a b]. unfold export_eq. cbn [parse_pre head_of bind fst snd]. str_compute. rewrite res_eq.
    cbn [bind]. reflexivity.
  Qed.

  Lemma neq_step fu sg root rest ab :
    pp (S fu) sg root (export_neq ab :: rest) = pp fu sg (add_neq ab root) rest.
  Proof.
    destruct ab as [a b]. unfold export_neq, export_eq. cbn [parse_pre head_of bind fst snd]. str_compute.
    rewrite res_not. cbn [head_of bind]. str_compute. cbn [bind]. reflexivity.
  Qed.

  Lemma cmp_not_connective op :
    str_in op comparison_ops = true \/ String.eqb op "=" = true ->
    (String.eqb op "and" || String.eqb op "or") = false /\ String.eqb op "not" = false.
  Proof.
    intros [H|H].
    - cbn [str_in comparison_ops] in H.
      repeat (apply orb_true_iff in H; destruct H as [H|H]); try discriminate;
        apply String.eqb_eq in H; subst; split; reflexivity.
    - apply String.eqb_eq in H. subst. split; reflexivity.
  Qed.

  Lemma num_step fu sg root rest t :
    wf_numcond num funcs d t = true ->
    pp (S fu) sg root (export_tree d t :: rest) = pp fu sg (add_operand (MNum (rr_tree num d t)) root) rest.
  Proof.
    intros Hwf. destruct t as [x|f a|op l r]; try discriminate.
    cbn [wf_numcond] in Hwf. apply andb_true_iff in Hwf. destruct Hwf as [Hwt Hop].
    pose proof (construct_tree_fuel num funcs d (TNode op l r) Hwt) as Hc.
    cbn [export_tree] in Hc |- *. cbn [parse_pre head_of bind].
    apply orb_true_iff in Hop. destruct Hop as [Hcmp|Heq].
    - destruct (cmp_not_connective op (or_introl Hcmp)) as [H1 H2]. rewrite H1, (res_cmp op Hcmp), H2.
      assert (He : String.eqb op "=" = false).
      { cbn [str_in comparison_ops] in Hcmp.
        repeat (apply orb_true_iff in Hcmp; destruct Hcmp as [Hcmp|Hcmp]); try discriminate;
          apply String.eqb_eq in Hcmp; subst; reflexivity. }
      rewrite He, Hcmp, Hc. cbn [bind]. reflexivity.
    - apply andb_true_iff in Heq. destruct Heq as [Heq Hl].
      destruct (cmp_not_connective op (or_intror Heq)) as [H1 H2]. rewrite H1, H2, Heq.
      apply String.eqb_eq in Heq. subst op. rewrite res_eq.
      destruct l as [x|f a|lop ll lr]; [discriminate| |]; cbn [export_tree] in Hc |- *; rewrite Hc; reflexivity.
  Qed.

  (* ---------- a list of nodes, each with a known effect on the root ---------- *)
  Definition node_does (sg : signature) (node : sexp) (act : mpre -> mpre) : Prop :=
    forall fu root rest, size node <= fu -> pp (S fu) sg root (node :: rest) = pp fu sg (act root) rest.

  Lemma size_pos e : 1 <= size e.
  Proof. destruct e; simpl; lia. Qed.

  Lemma pp_chain sg nodes acts :
    Forall2 (node_does sg) nodes acts ->
    forall fu root, sum_sizes nodes < fu -> pp fu sg root nodes = Ok (fold_left (fun r a => a r) acts root).
  Proof.
    induction 1 as [|node act nodes acts Hn _ IH]; intros fu root Hfu.
    - destruct fu; [unfold sum_sizes in Hfu; simpl in Hfu; lia|]. reflexivity.
    - change (sum_sizes (node :: nodes)) with (size node + sum_sizes nodes) in Hfu.
      destruct fu as [|fu]; [lia|]. pose proof (size_pos node).
      rewrite Hn by lia. cbn [fold_left]. apply IH. lia.
  Qed.

  Lemma fold_acts rop os eqs neqs : forall ros reqs rneqs,
    fold_left (fun r a => a r)
      (map (fun c => add_operand c) os ++ map add_eq eqs ++ map add_neq neqs) (MPre rop ros reqs rneqs)
    = MPre rop (ros ++ os) (reqs ++ eqs) (rneqs ++ neqs).
  Proof.
    induction os as [|c r IH]; intros ros reqs rneqs.
    - cbn [map app]. rewrite app_nil_r. revert reqs rneqs.
      induction eqs as [|e er IHe]; intros reqs rneqs.
      + cbn [map app]. rewrite app_nil_r. revert rneqs.
        induction neqs as [|n nr IHn]; intros rneqs; [rewrite app_nil_r; reflexivity|].
        cbn [map fold_left add_neq]. rewrite IHn, <- app_assoc. reflexivity.
      + cbn [map app fold_left add_eq]. rewrite IHe, <- app_assoc. reflexivity.
    - cbn [map app fold_left add_operand]. rewrite IH, <- app_assoc. reflexivity.
  Qed.

  (* ---------- the condition ---------- *)
  Definition P_pre (p : mpre) : Prop :=
    forall sg fu rop ros reqs rneqs,
      wfp sg p = true ->
      match p with
      | MPre op os eqs neqs =>
          sum_sizes (pre_items d os eqs neqs) < fu ->
          pp fu sg (MPre rop ros reqs rneqs) (pre_items d os eqs neqs) =
          Ok (MPre rop (ros ++ map (rr_cond num d) os) (reqs ++ eqs) (rneqs ++ neqs))
      end.

  Definition Q_cond (c : mcond) : Prop :=
    forall sg, wfc sg c = true ->
      exists node, export_cond d c = [node] /\ node_does sg node (add_operand (rr_cond num d c)).

  Lemma rr_pre_unfold op os eqs neqs :
    rr_pre num d (MPre op os eqs neqs) = MPre op (map (rr_cond num d) os) eqs neqs.
  Proof. reflexivity. Qed.

  Lemma pre_roundtrip_mutual : forall p, P_pre p.
  Proof.
    apply (mpre_ind' P_pre Q_cond).
    - (* a condition from its operands *)
      intros op os eqs neqs HQ sg fu rop ros reqs rneqs Hwf Hfu.
      cbn [wf_pre] in Hwf.
      assert (Hops : Forall2 (node_does sg) (flat_map (export_cond d) os)
                             (map (fun c => add_operand (rr_cond num d c)) os)).
      { clear Hfu. induction HQ as [|c r Hc _ IH]; [constructor|].
        cbn [forallb] in Hwf. apply andb_true_iff in Hwf. destruct Hwf as [Hwc Hwr].
        destruct (Hc sg Hwc) as (node & Hnode & Hdoes).
        cbn [flat_map map]. rewrite Hnode. cbn [app]. constructor; [exact Hdoes|apply IH; exact Hwr]. }
      assert (Heqs : Forall2 (node_does sg) (map export_eq eqs) (map add_eq eqs)).
      { clear Hfu Hops. induction eqs as [|e r IH]; [constructor|]. cbn [map]. constructor; [|exact IH].
        intros fu' root rest _. apply eq_step. }
      assert (Hneqs : Forall2 (node_does sg) (map export_neq neqs) (map add_neq neqs)).
      { clear Hfu Hops Heqs. induction neqs as [|e r IH]; [constructor|]. cbn [map]. constructor; [|exact IH].
        intros fu' root rest _. apply neq_step. }
      unfold pre_items in *.
      rewrite (pp_chain sg _ _ (Forall2_app Hops (Forall2_app Heqs Hneqs)) fu _ Hfu).
      rewrite <- (map_map (rr_cond num d) (fun c => add_operand c)).
      rewrite fold_acts. reflexivity.
    - (* literal *)
      intros pos p args sg Hwf. exists (export_lit pos p args). split; [reflexivity|].
      intros fu root rest _. destruct pos; cbn [wf_cond] in Hwf.
      + apply andb_true_iff in Hwf. destruct Hwf as [Hwf Ha]. apply andb_true_iff in Hwf. destruct Hwf as [Hc Hp].
        apply negb_true_iff in Hc. apply lit_pos_step; assumption.
      + apply andb_true_iff in Hwf. destruct Hwf as [Hp Ha]. apply negb_true_iff in Hp.
        apply lit_neg_step; assumption.
    - (* numeric condition *)
      intros t sg Hwf. exists (export_tree d t). split; [reflexivity|].
      intros fu root rest _. cbn [wf_cond] in Hwf. apply num_step. exact Hwf.
    - (* nested *)
      intros q HP sg Hwf. cbn [wf_cond] in Hwf. apply andb_true_iff in Hwf. destruct Hwf as [Hop Hwq].
      destruct q as [op os eqs neqs]. cbn [pre_op] in Hop.
      exists (export_pre d (MPre op os eqs neqs)). split; [reflexivity|].
      intros fu root rest Hfu. rewrite export_pre_items in *. rewrite size_slist_cons in Hfu.
      cbn [parse_pre head_of bind]. unfold is_connective in Hop. rewrite Hop.
      assert (Hsz : sum_sizes (pre_items d os eqs neqs) < fu). { lia. }
      rewrite (HP sg fu op [] [] [] Hwq Hsz). cbn [bind app]. reflexivity.
    - (* forall *)
      intros v ty q HP sg Hwf. cbn [wf_cond] in Hwf.
      apply andb_true_iff in Hwf. destruct Hwf as [Hwf Hwq].
      apply andb_true_iff in Hwf. destruct Hwf as [Hwf Hty].
      apply andb_true_iff in Hwf. destruct Hwf as [Hvac Hop].
      apply negb_true_iff in Hvac.
      destruct q as [op os eqs neqs]. cbn [pre_op] in Hop.
      exists (SList [Atom "forall"; SList [Atom v; Atom "-"; Atom ty]; export_pre d (MPre op os eqs neqs)]).
      split; [cbn [export_cond]; rewrite Hvac; reflexivity|].
      intros fu root rest Hfu. rewrite export_pre_items in *.
      cbn [parse_pre head_of bind]. str_compute. rewrite res_forall. str_compute.
      cbn [head_of bind]. unfold is_connective in Hop. rewrite Hop. cbn [negb]. rewrite Htyk, Hty. cbn [negb].
      assert (Hsz : sum_sizes (pre_items d os eqs neqs) < fu).
      { change (size (SList [Atom "forall"; SList [Atom v; Atom "-"; Atom ty]; SList (Atom op :: pre_items d os eqs neqs)]))
          with (2 + (1 + (size (SList [Atom v; Atom "-"; Atom ty]) + (size (SList (Atom op :: pre_items d os eqs neqs)) + 0)))) in Hfu.
        rewrite !size_slist_cons in Hfu. lia. }
      rewrite (HP (dset sg v ty) fu op [] [] [] Hwq Hsz). cbn [bind app]. reflexivity.
  Qed.

  (* reading back a whole printed condition into a fresh root *)
  Theorem pre_items_roundtrip sg fu op os eqs neqs rop :
    wfp sg (MPre op os eqs neqs) = true -> sum_sizes (pre_items d os eqs neqs) < fu ->
    pp fu sg (MPre rop [] [] []) (pre_items d os eqs neqs) = Ok (MPre rop (map (rr_cond num d) os) eqs neqs).
  Proof. intros Hwf Hfu. exact (pre_roundtrip_mutual (MPre op os eqs neqs) sg fu rop [] [] [] Hwf Hfu). Qed.
End Pre.
