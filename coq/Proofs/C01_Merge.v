(* C01 - sets of operands.  The library keeps the operands of a condition in a Python SET (Precondition.operands) and
   add_condition skips a compound operand that it takes for one already present; the model keeps them in a LIST and
   appends.  This file shows when the difference cannot matter, and that the side condition is needed:

     merge_sound        adding an operand only when no earlier operand is `same` as it denotes the same formula as
                        appending it - for ANY test `same` that relates only conditions with the same meaning
                        (set.add with a structural __eq__, the duplicate test of add_condition, ...);
     structural_same    the structural test (same connective, operands / equality pairs / inequality pairs equal as
                        sets, recursively; literals equal; numeric operands never equal - the library compares them
                        by identity) is such a test, hence merge_structural;
     printed_merge_unsound   a test that relates conditions whose texts agree once the constants are printed with two
                        decimals is NOT: '(or (sealed ?t) (<= (leak ?t) 0.004))' and '... 0.001)' print alike, and
                        dropping the second next to the first changes the meaning of the parent (the class of inputs
                        the correspondence check plants as "twins ... far"). *)
From Coq Require Import List Ascii String Bool Arith PrimFloat.
From Verif Require Import Base.Result Base.Str Base.Sexp Base.PyDict Base.Float Model.Types Model.Domain Model.Exec
  Spec.Pddl Spec.Grammar Spec.Faithful Proofs.C01_Defs Proofs.C01_Pre.
Import ListNotations.
Open Scope string_scope.
Open Scope list_scope.

Definition operands_of (p : mpre) : list mcond := match p with MPre _ os _ _ => os end.

(* two denotations say the same: both undefined, or equivalent formulas *)
Definition same_meaning (a b : option form) : Prop :=
  match a, b with
  | Some f, Some g => form_equiv f g
  | None, None => True
  | _, _ => False
  end.

(* add_condition with a duplicate test: the operand is added unless an earlier operand is `same` *)
Definition add_operand_unique (same : mcond -> mcond -> bool) (c : mcond) (p : mpre) : mpre :=
  if existsb (same c) (operands_of p) then p else add_operand c p.

Definition sound_test (same : mcond -> mcond -> bool) : Prop :=
  forall a b, same a b = true -> same_meaning (denote_cond a) (denote_cond b).

Lemma form_equiv_refl f : form_equiv f f.
Proof. intros eps tt objs e s. reflexivity. Qed.

Lemma same_meaning_refl o : same_meaning o o.
Proof. destruct o as [f|]; simpl; [apply form_equiv_refl|exact I]. Qed.

Lemma all_some_in_none {A} (l : list (option A)) : In None l -> all_some l = None.
Proof.
  induction l as [|[x|] r IH]; simpl; intros Hin.
  - contradiction.
  - destruct Hin as [Hx|Hin]; [discriminate|]. rewrite (IH Hin). reflexivity.
  - reflexivity.
Qed.

Lemma all_some_in_some {A} (l : list (option A)) xs x : all_some l = Some xs -> In (Some x) l -> In x xs.
Proof.
  revert xs. induction l as [|[y|] r IH]; simpl; intros xs Hs Hin.
  - contradiction.
  - destruct (all_some r) as [ys|] eqn:Er; [|discriminate]. injection Hs as <-.
    destruct Hin as [Hy|Hin]; [injection Hy as ->; left; reflexivity|right; apply (IH ys eq_refl Hin)].
  - discriminate.
Qed.

Lemma parts_of_add os eqs neqs c :
  parts_of (os ++ [c]) eqs neqs = parts_of os eqs neqs ++ [denote_cond c].
Proof. unfold parts_of. rewrite map_app. simpl. rewrite !app_assoc. reflexivity. Qed.

(* a formula that is equivalent to a member adds nothing to a conjunction / disjunction *)
Lemma connective_absorb op fs f g :
  In g fs -> form_equiv f g -> form_equiv (connective op fs) (connective op (fs ++ [f])).
Proof.
  intros Hin Heq eps tt objs e s. unfold connective.
  destruct (String.eqb op "or"); cbn [holds].
  - rewrite existsb_app. cbn [existsb]. rewrite orb_false_r.
    destruct (holds eps tt objs e s f) eqn:Hf; [|rewrite orb_false_r; reflexivity].
    rewrite orb_true_r. apply existsb_exists. exists g. split; [exact Hin|].
    rewrite <- (Heq eps tt objs e s). exact Hf.
  - rewrite forallb_app. cbn [forallb]. rewrite andb_true_r.
    destruct (forallb (holds eps tt objs e s) fs) eqn:Hall; [|reflexivity].
    rewrite forallb_forall in Hall. rewrite (Heq eps tt objs e s), (Hall g Hin). reflexivity.
Qed.

Theorem merge_sound : forall same, sound_test same ->
  forall c p, same_meaning (denote_pre (add_operand_unique same c p)) (denote_pre (add_operand c p)).
Proof.
  intros same Hsound c p. unfold add_operand_unique.
  destruct (existsb (same c) (operands_of p)) eqn:Hex; [|apply same_meaning_refl].
  apply existsb_exists in Hex. destruct Hex as [c' [Hin Hsame]].
  specialize (Hsound c c' Hsame).
  destruct p as [op os eqs neqs]. cbn [operands_of] in Hin.
  rewrite !denote_pre_unfold. unfold add_operand. cbn [denote_list pre_op].
  rewrite parts_of_add, all_some_app.
  assert (Hpart : In (denote_cond c') (parts_of os eqs neqs)).
  { unfold parts_of. apply in_or_app. right. apply in_or_app. right. apply in_map. exact Hin. }
  destruct (denote_cond c) as [f|] eqn:Ec; destruct (denote_cond c') as [g|] eqn:Ec'; simpl in Hsound; try contradiction.
  - destruct (all_some (parts_of os eqs neqs)) as [fs|] eqn:Efs; simpl; [|exact I].
    apply connective_absorb with (g := g); [|exact Hsound].
    apply (all_some_in_some _ _ _ Efs Hpart).
  - rewrite (all_some_in_none _ Hpart). simpl. exact I.
Qed.

(* ---------- the structural test ---------- *)
Definition pair_eqb (a b : string * string) : bool := String.eqb (fst a) (fst b) && String.eqb (snd a) (snd b).
Fixpoint strs_eqb (a b : list string) : bool :=
  match a, b with
  | [], [] => true
  | x :: r, y :: r' => String.eqb x y && strs_eqb r r'
  | _, _ => false
  end.
Definition subset_by {A} (eq : A -> A -> bool) (l l' : list A) : bool := forallb (fun x => existsb (eq x) l') l.

(* Precondition.__eq__ / UniversalPrecondition.__eq__ / Predicate.__eq__ inside one scope; two numeric operands are never
   equal (NumericalExpressionTree defines no __eq__: identity) *)
Fixpoint structural_same (a b : mcond) : bool :=
  match a, b with
  | MLit pos p args, MLit pos' p' args' => Bool.eqb pos pos' && String.eqb p p' && strs_eqb args args'
  | MNested p, MNested q => structural_same_pre p q
  | MUniv v ty p, MUniv v' ty' q => String.eqb v v' && String.eqb ty ty' && structural_same_pre p q
  | _, _ => false
  end
with structural_same_pre (p q : mpre) : bool :=
  match p, q with
  | MPre op os eqs neqs, MPre op' os' eqs' neqs' =>
      String.eqb op op' &&
      (fix sub (l : list mcond) : bool :=
         match l with [] => true | x :: r => (fix mem (l' : list mcond) : bool :=
                                                 match l' with [] => false | y :: r' => structural_same x y || mem r' end) os' && sub r end) os &&
      (fix sub' (l' : list mcond) : bool :=
         match l' with [] => true | y :: r' => (fix mem' (l : list mcond) : bool :=
                                                  match l with [] => false | x :: r => structural_same x y || mem' r end) os && sub' r' end) os' &&
      subset_by pair_eqb eqs eqs' && subset_by pair_eqb eqs' eqs &&
      subset_by pair_eqb neqs neqs' && subset_by pair_eqb neqs' neqs
  end.

Lemma strs_eqb_eq a b : strs_eqb a b = true -> a = b.
Proof.
  revert b. induction a as [|x r IH]; destruct b as [|y r']; simpl; intros H; try discriminate; [reflexivity|].
  apply andb_true_iff in H. destruct H as [Hx Hr]. apply String.eqb_eq in Hx. subst. rewrite (IH _ Hr). reflexivity.
Qed.

Lemma pair_eqb_eq a b : pair_eqb a b = true -> a = b.
Proof.
  destruct a, b. unfold pair_eqb. simpl. intros H. apply andb_true_iff in H. destruct H as [H1 H2].
  apply String.eqb_eq in H1, H2. subst. reflexivity.
Qed.

(* the two local fixpoints are the obvious list functions *)
Lemma sub_unfold (os os' : list mcond) :
  (fix sub (l : list mcond) : bool :=
     match l with [] => true | x :: r => (fix mem (l' : list mcond) : bool :=
                                             match l' with [] => false | y :: r' => structural_same x y || mem r' end) os' && sub r end) os
  = forallb (fun x => existsb (structural_same x) os') os.
Proof. reflexivity. Qed.

Lemma sub'_unfold (os os' : list mcond) :
  (fix sub' (l' : list mcond) : bool :=
     match l' with [] => true | y :: r' => (fix mem' (l : list mcond) : bool :=
                                              match l with [] => false | x :: r => structural_same x y || mem' r end) os && sub' r' end) os'
  = forallb (fun y => existsb (fun x => structural_same x y) os) os'.
Proof. reflexivity. Qed.

(* lists of formulas that cover one another up to equivalence make equivalent conjunctions / disjunctions *)
Definition covers (fs gs : list form) : Prop := forall f, In f fs -> exists g, In g gs /\ form_equiv f g.

Lemma connective_covers op fs gs : covers fs gs -> covers gs fs -> form_equiv (connective op fs) (connective op gs).
Proof.
  intros H1 H2 eps tt objs e s. unfold connective. destruct (String.eqb op "or"); cbn [holds].
  - apply eq_true_iff_eq. rewrite !existsb_exists. split; intros [x [Hin Hx]].
    + destruct (H1 x Hin) as [g [Hg He]]. exists g. split; [exact Hg|]. rewrite <- (He eps tt objs e s). exact Hx.
    + destruct (H2 x Hin) as [g [Hg He]]. exists g. split; [exact Hg|]. rewrite <- (He eps tt objs e s). exact Hx.
  - apply eq_true_iff_eq. rewrite !forallb_forall. split; intros Hall x Hin.
    + destruct (H2 x Hin) as [g [Hg He]]. rewrite (He eps tt objs e s). apply Hall. exact Hg.
    + destruct (H1 x Hin) as [g [Hg He]]. rewrite (He eps tt objs e s). apply Hall. exact Hg.
Qed.

(* hand-made induction principle for the nested inductive mpre / mcond *)
Section Ind.
  Variable P : mpre -> Prop.
  Variable Q : mcond -> Prop.
  Hypothesis HPre : forall op os eqs neqs, Forall Q os -> P (MPre op os eqs neqs).
  Hypothesis HLit : forall pos p args, Q (MLit pos p args).
  Hypothesis HNum : forall t, Q (MNum t).
  Hypothesis HNested : forall p, P p -> Q (MNested p).
  Hypothesis HUniv : forall v ty p, P p -> Q (MUniv v ty p).

  Fixpoint mpre_rect' (p : mpre) : P p :=
    match p with
    | MPre op os eqs neqs =>
        HPre op os eqs neqs
             ((fix go (l : list mcond) : Forall Q l :=
                 match l with [] => Forall_nil _ | c :: r => Forall_cons _ (mcond_rect' c) (go r) end) os)
    end
  with mcond_rect' (c : mcond) : Q c :=
    match c with
    | MLit pos p args => HLit pos p args
    | MNum t => HNum t
    | MNested p => HNested p (mpre_rect' p)
    | MUniv v ty p => HUniv v ty p (mpre_rect' p)
    end.
End Ind.

Definition pre_sound (p : mpre) : Prop :=
  forall q, structural_same_pre p q = true -> same_meaning (denote_pre p) (denote_pre q).
Definition cond_sound (a : mcond) : Prop :=
  forall b, structural_same a b = true -> same_meaning (denote_cond a) (denote_cond b).

Lemma same_meaning_sym a b : same_meaning a b -> same_meaning b a.
Proof.
  destruct a as [f|], b as [g|]; simpl; try tauto. intros H eps tt objs e s. symmetry. apply H.
Qed.

Lemma somes_in {A} (l : list (option A)) x : In x (somes l) <-> In (Some x) l.
Proof.
  induction l as [|[y|] r IH]; simpl.
  - tauto.
  - rewrite IH. split; intros [H|H]; auto; [left; congruence|left; congruence].
  - rewrite IH. split; [auto|intros [H|H]; [discriminate|exact H]].
Qed.

Lemma parts_defined os eqs neqs : forallb is_some (parts_of os eqs neqs) = forallb is_some (map denote_cond os).
Proof.
  unfold parts_of. rewrite !forallb_app. unfold name.
  assert (H1 : forallb is_some (map (fun ab : string * string => Some (FEq (fst ab) (snd ab))) eqs) = true).
  { induction eqs; simpl; auto. }
  assert (H2 : forallb is_some (map (fun ab : string * string => Some (FNeq (fst ab) (snd ab))) neqs) = true).
  { induction neqs; simpl; auto. }
  rewrite H1, H2. reflexivity.
Qed.

Lemma pre_sound_step op os eqs neqs : Forall cond_sound os -> pre_sound (MPre op os eqs neqs).
Proof.
  intros Hos [op' os' eqs' neqs'] Hsame. cbn [structural_same_pre] in Hsame.
  rewrite sub_unfold, sub'_unfold in Hsame.
  repeat (apply andb_true_iff in Hsame; destruct Hsame as [Hsame ?]).
  apply String.eqb_eq in Hsame. subst op'.
  rename H into Hn2, H0 into Hn1, H1 into He2, H2 into He1, H3 into Hs2, H4 into Hs1.
  rewrite forallb_forall in Hs1, Hs2. rewrite Forall_forall in Hos.
  (* every operand of one side has a partner with the same meaning on the other *)
  assert (Hfwd : forall x, In x os -> exists y, In y os' /\ same_meaning (denote_cond x) (denote_cond y)).
  { intros x Hx. specialize (Hs1 x Hx). apply existsb_exists in Hs1. destruct Hs1 as [y [Hy Hxy]].
    exists y. split; [exact Hy|apply (Hos x Hx y Hxy)]. }
  assert (Hbwd : forall y, In y os' -> exists x, In x os /\ same_meaning (denote_cond x) (denote_cond y)).
  { intros y Hy. specialize (Hs2 y Hy). apply existsb_exists in Hs2. destruct Hs2 as [x [Hx Hxy]].
    exists x. split; [exact Hx|apply (Hos x Hx y Hxy)]. }
  unfold subset_by in He1, He2, Hn1, Hn2. rewrite forallb_forall in He1, He2, Hn1, Hn2.
  assert (Hpairs : forall (l l' : list (string * string)),
             (forall x, In x l -> existsb (pair_eqb x) l' = true) -> forall x, In x l -> In x l').
  { intros l l' H x Hx. specialize (H x Hx). apply existsb_exists in H. destruct H as [y [Hy Hxy]].
    apply pair_eqb_eq in Hxy. subst. exact Hy. }
  rewrite !denote_pre_unfold. cbn [denote_list pre_op]. rewrite !all_some_forallb.
  (* definedness agrees *)
  assert (Hdef : forallb is_some (parts_of os eqs neqs) = forallb is_some (parts_of os' eqs' neqs')).
  { rewrite !parts_defined.
    apply eq_true_iff_eq. rewrite !forallb_forall. split; intros Hall o Ho.
    - apply in_map_iff in Ho. destruct Ho as [y [<- Hy]]. destruct (Hbwd y Hy) as [x [Hx Hm]].
      specialize (Hall (denote_cond x) (in_map _ _ _ Hx)).
      destruct (denote_cond x), (denote_cond y); simpl in *; try reflexivity; try discriminate; contradiction.
    - apply in_map_iff in Ho. destruct Ho as [x [<- Hx]]. destruct (Hfwd x Hx) as [y [Hy Hm]].
      specialize (Hall (denote_cond y) (in_map _ _ _ Hy)).
      destruct (denote_cond x), (denote_cond y); simpl in *; try reflexivity; try discriminate; contradiction. }
  rewrite <- Hdef. destruct (forallb is_some (parts_of os eqs neqs)); simpl; [|exact I].
  apply connective_covers.
  - intros f Hf. apply somes_in in Hf. unfold parts_of in Hf.
    apply in_app_or in Hf. destruct Hf as [Hf|Hf].
    { apply in_map_iff in Hf. destruct Hf as [ab [Hab Hin]]. injection Hab as <-.
      exists (FEq (fst ab) (snd ab)). split; [|apply form_equiv_refl].
      apply somes_in. unfold parts_of. apply in_or_app. left.
      apply (in_map (fun ab => Some (FEq (fst ab) (snd ab)))). apply (Hpairs eqs eqs' He1 ab Hin). }
    apply in_app_or in Hf. destruct Hf as [Hf|Hf].
    { apply in_map_iff in Hf. destruct Hf as [ab [Hab Hin]]. injection Hab as <-.
      exists (FNeq (fst ab) (snd ab)). split; [|apply form_equiv_refl].
      apply somes_in. unfold parts_of. apply in_or_app. right. apply in_or_app. left.
      apply (in_map (fun ab => Some (FNeq (fst ab) (snd ab)))). apply (Hpairs neqs neqs' Hn1 ab Hin). }
    apply in_map_iff in Hf. destruct Hf as [x [Hdx Hx]]. destruct (Hfwd x Hx) as [y [Hy Hm]].
    rewrite Hdx in Hm. destruct (denote_cond y) as [g|] eqn:Edy; simpl in Hm; [|contradiction].
    exists g. split; [|exact Hm]. apply somes_in. unfold parts_of. apply in_or_app. right. apply in_or_app. right.
    rewrite <- Edy. apply in_map. exact Hy.
  - intros g Hg. apply somes_in in Hg. unfold parts_of in Hg.
    apply in_app_or in Hg. destruct Hg as [Hg|Hg].
    { apply in_map_iff in Hg. destruct Hg as [ab [Hab Hin]]. injection Hab as <-.
      exists (FEq (fst ab) (snd ab)). split; [|apply form_equiv_refl].
      apply somes_in. unfold parts_of. apply in_or_app. left.
      apply (in_map (fun ab => Some (FEq (fst ab) (snd ab)))). apply (Hpairs eqs' eqs He2 ab Hin). }
    apply in_app_or in Hg. destruct Hg as [Hg|Hg].
    { apply in_map_iff in Hg. destruct Hg as [ab [Hab Hin]]. injection Hab as <-.
      exists (FNeq (fst ab) (snd ab)). split; [|apply form_equiv_refl].
      apply somes_in. unfold parts_of. apply in_or_app. right. apply in_or_app. left.
      apply (in_map (fun ab => Some (FNeq (fst ab) (snd ab)))). apply (Hpairs neqs' neqs Hn2 ab Hin). }
    apply in_map_iff in Hg. destruct Hg as [y [Hdy Hy]]. destruct (Hbwd y Hy) as [x [Hx Hm]].
    rewrite Hdy in Hm. destruct (denote_cond x) as [f|] eqn:Edx; simpl in Hm; [|contradiction].
    exists f. split.
    + apply somes_in. unfold parts_of. apply in_or_app. right. apply in_or_app. right.
      rewrite <- Edx. apply in_map. exact Hx.
    + intros eps tt objs e s. symmetry. apply Hm.
Qed.

Theorem structural_same_sound : sound_test structural_same.
Proof.
  intros a. apply (mcond_rect' pre_sound cond_sound); clear a.
  - exact pre_sound_step.
  - intros pos p args [pos' p' args'| | |] H; cbn [structural_same] in H; try discriminate.
    apply andb_true_iff in H. destruct H as [H Ha]. apply andb_true_iff in H. destruct H as [Hp Hn].
    apply Bool.eqb_prop in Hp. apply String.eqb_eq in Hn. apply strs_eqb_eq in Ha. subst.
    apply same_meaning_refl.
  - intros t b H. destruct b; discriminate.
  - intros p IH [| |q|] H; cbn [structural_same] in H; try discriminate.
    change (denote_cond (MNested p)) with (denote_pre p). change (denote_cond (MNested q)) with (denote_pre q).
    apply IH. exact H.
  - intros v ty p IH [| | |v' ty' q] H; cbn [structural_same] in H; try discriminate.
    apply andb_true_iff in H. destruct H as [H Hq]. apply andb_true_iff in H. destruct H as [Hv Ht].
    apply String.eqb_eq in Hv, Ht. subst. specialize (IH q Hq).
    cbn [denote_cond]. destruct (denote_pre p) as [f|], (denote_pre q) as [g|]; simpl in *; try contradiction; [|exact I].
    apply form_equiv_forall. exact IH.
Qed.

(* the set of operands of the library and the list of the model denote the same formula *)
Theorem merge_structural : forall c p,
  same_meaning (denote_pre (add_operand_unique structural_same c p)) (denote_pre (add_operand c p)).
Proof. exact (merge_sound structural_same structural_same_sound). Qed.

(* ---------- a test on printed text with rounded constants is not sound ---------- *)
(* the text of a condition with every constant printed with [d] decimals (the shape of Precondition.print) *)
Local Infix "+++" := String.append (at level 60, right associativity).
Fixpoint tree_text (d : nat) (t : mtree) : string :=
  match t with
  | TNum x => format_fixed d x
  | TFn f args => "(" +++ join " " (f :: args) +++ ")"
  | TNode op l r => "(" +++ op +++ " " +++ tree_text d l +++ " " +++ tree_text d r +++ ")"
  end.

Fixpoint cond_text (d : nat) (c : mcond) : string :=
  match c with
  | MLit true p args => "(" +++ join " " (p :: args) +++ ")"
  | MLit false p args => "(not (" +++ join " " (p :: args) +++ "))"
  | MNum t => tree_text d t
  | MNested p => pre_text d p
  | MUniv v ty p => "(forall (" +++ v +++ " - " +++ ty +++ ") " +++ pre_text d p +++ ")"
  end
with pre_text (d : nat) (p : mpre) : string :=
  match p with
  | MPre op os eqs neqs =>
      "(" +++ op +++ " " +++
      join " " ((fix go (l : list mcond) : list string := match l with [] => [] | c :: r => cond_text d c :: go r end) os ++
                map (fun ab => "(= " +++ fst ab +++ " " +++ snd ab +++ ")") eqs ++
                map (fun ab => "(not (= " +++ fst ab +++ " " +++ snd ab +++ "))") neqs) +++ ")"
  end.

Definition printed_same (d : nat) (a b : mcond) : bool := String.eqb (cond_text d a) (cond_text d b).

(* (or (sealed ?t) (<= (leak ?t) c)) *)
Definition leak_cond (c : float) : mcond :=
  MNested (MPre "or" [MLit true "sealed" ["?t"]; MNum (TNode "<=" (TFn "leak" ["?t"]) (TNum c))] [] []).
Definition c_loose : float := 0x1.0624dd2f1a9fcp-8.      (* 0.004 *)
Definition c_tight : float := 0x1.0624dd2f1a9fcp-10.     (* 0.001 *)

Lemma twins_print_alike : printed_same 2 (leak_cond c_tight) (leak_cond c_loose) = true.
Proof. vm_compute. reflexivity. Qed.

Lemma twins_print_apart_exactly : printed_same 3 (leak_cond c_tight) (leak_cond c_loose) = false.
Proof. vm_compute. reflexivity. Qed.

(* any duplicate test that takes the tight condition for the loose one already present changes what the parent means *)
Theorem merge_unsound_witness : forall same,
  same (leak_cond c_tight) (leak_cond c_loose) = true ->
  let root := MPre "and" [leak_cond c_loose] [] [] in
  ~ same_meaning (denote_pre (add_operand_unique same (leak_cond c_tight) root))
                 (denote_pre (add_operand (leak_cond c_tight) root)).
Proof.
  intros same Hs root. unfold add_operand_unique, root. cbn [operands_of existsb]. rewrite Hs. cbn [orb].
  intros H.
  assert (Hl : exists f, denote_pre (MPre "and" [leak_cond c_loose] [] []) = Some f /\
                         holds 0x1.a36e2eb1c432dp-14 [] [("t1", "tank")] [("?t", "t1")]
                               {| facts := []; fluents := [(("leak", ["t1"]), 0x1.89374bc6a7efap-9%float)] |} f = true).
  { eexists. split; [vm_compute; reflexivity|vm_compute; reflexivity]. }
  assert (Hr : exists g, denote_pre (add_operand (leak_cond c_tight) (MPre "and" [leak_cond c_loose] [] [])) = Some g /\
                         holds 0x1.a36e2eb1c432dp-14 [] [("t1", "tank")] [("?t", "t1")]
                               {| facts := []; fluents := [(("leak", ["t1"]), 0x1.89374bc6a7efap-9%float)] |} g = false).
  { eexists. split; [vm_compute; reflexivity|vm_compute; reflexivity]. }
  destruct Hl as [f [Ef Hf]]. destruct Hr as [g [Eg Hg]].
  rewrite Ef, Eg in H. simpl in H. rewrite (H _ _ _ _ _) in Hf. rewrite Hf in Hg. discriminate.
Qed.

Theorem printed_merge_unsound : ~ sound_test (printed_same 2).
Proof.
  intros Hsound.
  apply (merge_unsound_witness (printed_same 2) twins_print_alike).
  apply merge_sound. exact Hsound.
Qed.

(* the hypotheses of merge_sound are satisfiable by a non-trivial value: the structural test does merge something *)
Example merge_structural_fires :
  let c := MNested (MPre "or" [MLit true "q" ["?x"]; MLit false "p" ["?x"]] [("?x", "?y")] []) in
  let c' := MNested (MPre "or" [MLit false "p" ["?x"]; MLit true "q" ["?x"]] [("?x", "?y")] []) in
  add_operand_unique structural_same c (MPre "and" [c'] [] []) = MPre "and" [c'] [] [].
Proof. vm_compute. reflexivity. Qed.
