(* C17: combining per-agent domains = union of the sections; independent of the discovery order. *)
From Coq Require Import List String Bool Permutation.
From Verif Require Import Base.Result Base.Str Model.Combine Spec.Combine Proofs.C17_Dict.
Import ListNotations.
Open Scope string_scope.
Open Scope list_scope.

(* ---------------------------------------------------------------- projections of the fold *)
Lemma cd_types defaults files :
  d_types (combine_domains defaults files) = fold_left update (map d_types files) defaults.
Proof. unfold combine_domains. now rewrite (fold_proj merge_domain d_types d_types update). Qed.
Lemma cd_consts defaults files :
  d_consts (combine_domains defaults files) = fold_left update (map d_consts files) [].
Proof. unfold combine_domains. now rewrite (fold_proj merge_domain d_consts d_consts update). Qed.
Lemma cd_preds defaults files :
  d_preds (combine_domains defaults files) = fold_left update (map d_preds files) [].
Proof. unfold combine_domains. now rewrite (fold_proj merge_domain d_preds d_preds update). Qed.
Lemma cd_funcs defaults files :
  d_funcs (combine_domains defaults files) = fold_left update (map d_funcs files) [].
Proof. unfold combine_domains. now rewrite (fold_proj merge_domain d_funcs d_funcs update). Qed.
Lemma cd_acts defaults files :
  d_acts (combine_domains defaults files) = fold_left update (map d_acts files) [].
Proof. unfold combine_domains. now rewrite (fold_proj merge_domain d_acts d_acts update). Qed.

Lemma last_default_irrelevant {A} (l : list A) (d d' : A) : l <> [] -> last l d = last l d'.
Proof.
  induction l as [|x l IH]; [congruence|]. intros _. destruct l as [|y l]; [reflexivity|].
  change (last (y :: l) d = last (y :: l) d'). apply IH. discriminate.
Qed.

Lemma fold_merge_name files : forall c,
  d_name (fold_left merge_domain files c) = last (map d_name files) (d_name c).
Proof.
  induction files as [|f files IH]; simpl; intros c; [reflexivity|].
  rewrite IH. simpl. destruct (map d_name files) as [|o l]; [reflexivity|].
  apply last_default_irrelevant. discriminate.
Qed.

Lemma cd_name defaults files :
  d_name (combine_domains defaults files) = last (map d_name files) None.
Proof. unfold combine_domains. now rewrite fold_merge_name. Qed.

Lemma fold_merge_reqs files : forall c,
  d_reqs (fold_left merge_domain files c) = last (map d_reqs files) (d_reqs c).
Proof.
  induction files as [|f files IH]; simpl; intros c; [reflexivity|].
  rewrite IH. simpl. destruct (map d_reqs files) as [|o l]; [reflexivity|].
  apply last_default_irrelevant. discriminate.
Qed.

Lemma cd_reqs defaults files :
  d_reqs (combine_domains defaults files) = last (map d_reqs files) [].
Proof. unfold combine_domains. now rewrite fold_merge_reqs. Qed.

(* ---------------------------------------------------------------- the statements *)
Definition sections_agree (defaults : alist) (files : list domainv) : Prop :=
  agree (defaults :: map d_types files) /\ agree (map d_consts files) /\ agree (map d_preds files) /\
  agree (map d_funcs files) /\ agree (map d_acts files).

Definition domain_is_union (defaults : alist) (files : list domainv) (c : domainv) : Prop :=
  union_of (defaults :: map d_types files) (d_types c) /\
  union_of (map d_consts files) (d_consts c) /\
  union_of (map d_preds files) (d_preds c) /\
  union_of (map d_funcs files) (d_funcs c) /\
  union_of (map d_acts files) (d_acts c).

Definition domain_is_weak_union (defaults : alist) (files : list domainv) (c : domainv) : Prop :=
  weak_union_of (defaults :: map d_types files) (d_types c) /\
  weak_union_of ([] :: map d_consts files) (d_consts c) /\
  weak_union_of ([] :: map d_preds files) (d_preds c) /\
  weak_union_of ([] :: map d_funcs files) (d_funcs c) /\
  weak_union_of ([] :: map d_acts files) (d_acts c).

Lemma C17_union_domains_lemma : forall defaults files,
  NoDup (keys defaults) -> sections_agree defaults files ->
  domain_is_union defaults files (combine_domains defaults files).
Proof.
  intros defaults files Hnd (At & Ac & Ap & Af & Aa). unfold domain_is_union.
  rewrite cd_types, cd_consts, cd_preds, cd_funcs, cd_acts.
  split; [exact (union_of_intro defaults (map d_types files) Hnd At)|].
  split; [now apply union_of_intro_nil|]. split; [now apply union_of_intro_nil|].
  split; [now apply union_of_intro_nil|]. now apply union_of_intro_nil.
Qed.

Lemma C17_union_domains_weak_lemma : forall defaults files,
  NoDup (keys defaults) ->
  domain_is_weak_union defaults files (combine_domains defaults files).
Proof.
  intros defaults files Hnd. unfold domain_is_weak_union.
  rewrite cd_types, cd_consts, cd_preds, cd_funcs, cd_acts.
  assert (H0 : NoDup (keys (@nil (string * string)))) by constructor.
  split; [exact (weak_union_of_intro defaults _ Hnd)|].
  split; [exact (weak_union_of_intro [] _ H0)|]. split; [exact (weak_union_of_intro [] _ H0)|].
  split; [exact (weak_union_of_intro [] _ H0)|]. exact (weak_union_of_intro [] _ H0).
Qed.

(* dummy actions: exactly three more entries, everything else as without them *)
Definition with_dummy (c c' : domainv) : Prop :=
  d_name c' = d_name c /\ d_reqs c' = d_reqs c /\ d_types c' = d_types c /\ d_consts c' = d_consts c /\
  d_funcs c' = d_funcs c /\
  NoDup (keys (d_preds c')) /\ NoDup (keys (d_acts c')) /\
  (forall k v, In (k, v) (d_preds c') <->
     (k = DUMMY_PRED /\ v = DUMMY_PRED_TEXT) \/ (k <> DUMMY_PRED /\ In (k, v) (d_preds c))) /\
  (forall k v, In (k, v) (d_acts c') <->
     (k = DUMMY_ADD /\ v = DUMMY_ADD_TEXT) \/ (k = DUMMY_DEL /\ v = DUMMY_DEL_TEXT) \/
     (k <> DUMMY_ADD /\ k <> DUMMY_DEL /\ In (k, v) (d_acts c))).

Lemma C17_dummy_lemma : forall defaults files c',
  locate_domains defaults true files = Ok c' ->
  with_dummy (combine_domains defaults files) c'.
Proof.
  intros defaults files c'. unfold locate_domains, add_dummy.
  destruct (lookup "object" (d_types (combine_domains defaults files))); [|discriminate].
  intros H. inversion H; subst c'; clear H. unfold with_dummy. simpl.
  assert (Np : NoDup (keys (d_preds (combine_domains defaults files)))).
  { rewrite cd_preds. apply NoDup_fold_update. constructor. }
  assert (Na : NoDup (keys (d_acts (combine_domains defaults files)))).
  { rewrite cd_acts. apply NoDup_fold_update. constructor. }
  repeat split; try reflexivity.
  - now apply NoDup_set_item.
  - now apply NoDup_set_item, NoDup_set_item.
  - now apply In_set_item.
  - now apply In_set_item.
  - rewrite (In_set_item _ _ _ _ _ (NoDup_set_item DUMMY_ADD DUMMY_ADD_TEXT _ Na)), (In_set_item _ _ _ _ _ Na).
    intros [[H1 H2]|[H1 [[H2 H3]|[H2 H3]]]]; [right; left; now split|left; now split|right; right; now repeat split].
  - rewrite (In_set_item _ _ _ _ _ (NoDup_set_item DUMMY_ADD DUMMY_ADD_TEXT _ Na)), (In_set_item _ _ _ _ _ Na).
    intros [[H1 H2]|[[H1 H2]|[H1 [H2 H3]]]].
    + right. split; [subst k; discriminate|]. left. now split.
    + left. now split.
    + right. split; [assumption|]. right. now split.
Qed.

Lemma C17_dummy_total_lemma : forall defaults files,
  NoDup (keys defaults) -> In "object" (keys defaults) ->
  exists c', locate_domains defaults true files = Ok c'.
Proof.
  intros defaults files Hnd Hin. unfold locate_domains, add_dummy.
  destruct (lookup "object" (d_types (combine_domains defaults files))) eqn:E; [eexists; reflexivity|].
  exfalso. apply lookup_None_keys in E. apply E. rewrite cd_types.
  destruct (In_fold_update_weak (map d_types files) defaults Hnd) as [_ W].
  apply W. unfold keys. rewrite map_app, in_app_iff. now left.
Qed.

(* ---------------------------------------------------------------- order independence *)
(* equal in the sections the property speaks about, each as a map (the order of the entries is not part of it) *)
Definition domain_equiv (a b : domainv) : Prop :=
  map_equiv (d_types a) (d_types b) /\ map_equiv (d_consts a) (d_consts b) /\
  map_equiv (d_preds a) (d_preds b) /\ map_equiv (d_funcs a) (d_funcs b) /\
  map_equiv (d_acts a) (d_acts b).

Lemma last_In {A} (l : list A) (d : A) : l <> [] -> In (last l d) l.
Proof.
  induction l as [|x l IH]; [congruence|]. intros _. destruct l as [|y l]; [now left|].
  right. apply IH. discriminate.
Qed.

Lemma sections_agree_perm defaults files files' :
  Permutation files files' -> sections_agree defaults files -> sections_agree defaults files'.
Proof.
  intros P (At & Ac & Ap & Af & Aa). repeat split.
  - apply (agree_incl (defaults :: map d_types files)); [|assumption].
    intros d [H|H]; [now left|right]. now apply (perm_map_In d_types _ _ P).
  - apply (agree_incl (map d_consts files)); [|assumption]. intros d. now apply (perm_map_In d_consts _ _ P).
  - apply (agree_incl (map d_preds files)); [|assumption]. intros d. now apply (perm_map_In d_preds _ _ P).
  - apply (agree_incl (map d_funcs files)); [|assumption]. intros d. now apply (perm_map_In d_funcs _ _ P).
  - apply (agree_incl (map d_acts files)); [|assumption]. intros d. now apply (perm_map_In d_acts _ _ P).
Qed.

Lemma C17_order_domains_lemma : forall defaults files files',
  NoDup (keys defaults) -> sections_agree defaults files ->
  Permutation files files' ->
  domain_equiv (combine_domains defaults files) (combine_domains defaults files').
Proof.
  intros defaults files files' Hnd Hag P.
  pose proof (C17_union_domains_lemma defaults files Hnd Hag) as (Ut & Uc & Up & Uf & Ua).
  pose proof (C17_union_domains_lemma defaults files' Hnd (sections_agree_perm _ _ _ P Hag))
    as (Ut' & Uc' & Up' & Uf' & Ua').
  unfold domain_equiv. split; [|split; [|split; [|split]]].
  - refine (union_of_equiv _ _ _ _ _ Ut Ut'). intros d. simpl.
    rewrite (perm_map_In d_types _ _ P d). tauto.
  - apply (union_of_equiv _ _ _ _ (perm_map_In d_consts _ _ P) Uc Uc').
  - apply (union_of_equiv _ _ _ _ (perm_map_In d_preds _ _ P) Up Up').
  - apply (union_of_equiv _ _ _ _ (perm_map_In d_funcs _ _ P) Uf Uf').
  - apply (union_of_equiv _ _ _ _ (perm_map_In d_acts _ _ P) Ua Ua').
Qed.

(* without agreement the order matters: last file wins *)
Lemma C17_order_needs_agreement_lemma :
  exists defaults f g,
    NoDup (keys defaults) /\
    ~ domain_equiv (combine_domains defaults [f; g]) (combine_domains defaults [g; f]).
Proof.
  exists [("object", "")],
    {| d_name := Some "d"; d_reqs := []; d_types := []; d_consts := []; d_preds := [("p", "(p ?x - a)")];
       d_funcs := []; d_acts := [] |},
    {| d_name := Some "d"; d_reqs := []; d_types := []; d_consts := []; d_preds := [("p", "(p ?x - b)")];
       d_funcs := []; d_acts := [] |}.
  split; [repeat constructor; intros []|].
  intros (_ & _ & (_ & _ & H) & _). cbn in H.
  destruct (H "p" "(p ?x - b)") as [H1 _]. destruct H1 as [H1|[]]; [now left|]. discriminate.
Qed.

(* name and requirements are outside the union: they are those of the file found last, so they follow
   the discovery order even when the files agree on every shared name *)
Lemma C17_name_reqs_last_lemma : forall defaults files,
  d_name (combine_domains defaults files) = last (map d_name files) None /\
  d_reqs (combine_domains defaults files) = last (map d_reqs files) [].
Proof. intros. split; [apply cd_name|apply cd_reqs]. Qed.

(* ---------------------------------------------------------------- non-vacuity *)
Definition ex_defaults : alist := [("object", "")].
Definition ex_a : domainv :=
  {| d_name := Some "dd"; d_reqs := [":typing"; ":numeric-fluents"];
     d_types := [("loc", "object"); ("agent", "object"); ("truck", "agent object"); ("object", "")];
     d_consts := [("hq", "loc")];
     d_preds := [("at", "(at ?a - agent ?l - loc)"); ("free", "(free ?l - loc)")];
     d_funcs := [("fuel", "(fuel ?a - agent)")];
     d_acts := [("move", "(move ?a - truck ?x - loc ?y - loc) :pre (and (at ?a ?x)) :eff (at ?a ?y)")] |}.
Definition ex_b : domainv :=
  {| d_name := Some "dd"; d_reqs := [":typing"];
     d_types := [("loc", "object"); ("agent", "object"); ("plane", "agent object"); ("object", "")];
     d_consts := [("hq", "loc"); ("base", "loc")];
     d_preds := [("at", "(at ?a - agent ?l - loc)"); ("sky", "(sky ?l - loc)")];
     d_funcs := [("fuel", "(fuel ?a - agent)")];
     d_acts := [("fly", "(fly ?a - plane ?x - loc ?y - loc) :pre (and (at ?a ?x)) :eff (at ?a ?y)")] |}.

Lemma agree_of_b (ds : list alist) : agree_b ds = true -> agree ds.
Proof.
  unfold agree_b. intros H. apply agree_functional. intros k v w H1 H2.
  rewrite forallb_forall in H. specialize (H _ H1). rewrite forallb_forall in H. specialize (H _ H2).
  simpl in H. apply orb_true_iff in H. destruct H as [H|H].
  - rewrite String.eqb_refl in H. discriminate.
  - now apply String.eqb_eq.
Qed.

Lemma ex_agree : sections_agree ex_defaults [ex_a; ex_b].
Proof. repeat split; apply agree_of_b; vm_compute; reflexivity. Qed.

Lemma C17_reqs_follow_order_lemma :
  sections_agree ex_defaults [ex_a; ex_b] /\
  d_reqs (combine_domains ex_defaults [ex_a; ex_b]) = [":typing"] /\
  d_reqs (combine_domains ex_defaults [ex_b; ex_a]) = [":typing"; ":numeric-fluents"].
Proof. split; [exact ex_agree|]. split; reflexivity. Qed.

Lemma ex_nodup : NoDup (keys ex_defaults).
Proof. repeat constructor. intros []. Qed.

Lemma ex_overlap_and_private :
  In ("at", "(at ?a - agent ?l - loc)") (d_preds ex_a) /\ In ("at", "(at ?a - agent ?l - loc)") (d_preds ex_b) /\
  In ("sky", "(sky ?l - loc)") (d_preds (combine_domains ex_defaults [ex_a; ex_b])) /\
  ~ In "sky" (keys (d_preds ex_a)) /\
  List.length (d_types (combine_domains ex_defaults [ex_a; ex_b])) = 5.
Proof.
  repeat split; try (vm_compute; tauto).
  vm_compute. intros [H|[H|[]]]; discriminate.
Qed.
