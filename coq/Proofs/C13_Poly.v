(* C13 — soundness of the polynomial / rational-function arithmetic and of the checker of Spec/Poly.v *)
From Coq Require Import List String Ascii Bool ZArith QArith Qabs Lqa Lia.
From Verif Require Import Base.Str Base.Sexp Spec.Poly.
Import ListNotations.
Open Scope list_scope.
Open Scope Q_scope.
Arguments Qred : simpl never.
Arguments Qplus : simpl never.
Arguments Qmult : simpl never.
Arguments Qminus : simpl never.
Arguments Qopp : simpl never.
Arguments Qdiv : simpl never.
Arguments Qinv : simpl never.

Section Arith.
  Variable rho : valuation.

  (* ---------------------------------------------------------------- monomials *)
  Lemma meval_minsert v m : meval rho (minsert v m) == rho v * meval rho m.
  Proof.
    induction m as [|w r IH]; simpl; [reflexivity|].
    destruct (String.leb v w); simpl; [reflexivity|]. rewrite IH. ring.
  Qed.

  Lemma meval_mmul a b : meval rho (mmul a b) == meval rho a * meval rho b.
  Proof.
    induction a as [|v r IH]; simpl; [ring|].
    rewrite meval_minsert. unfold mmul in IH. rewrite IH. ring.
  Qed.

  Lemma mono_eqb_eq a : forall b, mono_eqb a b = true -> a = b.
  Proof.
    induction a as [|x xs IH]; intros [|y ys]; simpl; intros H; try discriminate; [reflexivity|].
    apply andb_true_iff in H. destruct H as [H1 H2]. apply String.eqb_eq in H1. apply IH in H2. congruence.
  Qed.

  Lemma mono_eqb_refl a : mono_eqb a a = true.
  Proof. induction a as [|x xs IH]; simpl; [reflexivity|]. rewrite String.eqb_refl. exact IH. Qed.

  (* ---------------------------------------------------------------- polynomials *)
  Lemma peval_pinsert c m p : peval rho (pinsert c m p) == c * meval rho m + peval rho p.
  Proof.
    induction p as [|[c' m'] r IH]; simpl; [ring|].
    destruct (mono_eqb m m') eqn:E.
    - apply mono_eqb_eq in E. subst m'. simpl. rewrite Qred_correct. ring.
    - destruct (mono_ltb m m'); simpl; [ring|]. rewrite IH. ring.
  Qed.

  Lemma peval_padd p q : peval rho (padd p q) == peval rho p + peval rho q.
  Proof.
    induction p as [|[c m] r IH]; simpl; [ring|].
    rewrite peval_pinsert. simpl. unfold padd in IH. rewrite IH. ring.
  Qed.

  Lemma peval_pscale k p : peval rho (pscale k p) == k * peval rho p.
  Proof.
    induction p as [|[c m] r IH]; simpl; [ring|]. rewrite Qred_correct.
    unfold pscale in IH. rewrite IH. ring.
  Qed.

  Lemma peval_pneg p : peval rho (pneg p) == - peval rho p.
  Proof. unfold pneg. rewrite peval_pscale. ring. Qed.

  Lemma peval_psub p q : peval rho (psub p q) == peval rho p - peval rho q.
  Proof. unfold psub. rewrite peval_padd, peval_pneg. ring. Qed.

  Lemma peval_pmul1 c m q : peval rho (pmul1 c m q) == c * meval rho m * peval rho q.
  Proof.
    induction q as [|[c' m'] r IH]; simpl; [ring|]. rewrite Qred_correct, meval_mmul.
    unfold pmul1 in IH. rewrite IH. ring.
  Qed.

  Lemma peval_pmul p q : peval rho (pmul p q) == peval rho p * peval rho q.
  Proof.
    induction p as [|[c m] r IH]; simpl; [ring|].
    rewrite peval_padd, peval_pmul1. unfold pmul in IH. rewrite IH. ring.
  Qed.

  Lemma peval_pclean p : peval rho (pclean p) == peval rho p.
  Proof.
    induction p as [|[c m] r IH]; simpl; [reflexivity|].
    destruct (Qeq_bool c 0) eqn:E; simpl.
    - apply Qeq_bool_iff in E. rewrite IH, E. ring.
    - rewrite IH. reflexivity.
  Qed.

  Lemma is_zero_sound p : is_zero p = true -> peval rho p == 0.
  Proof.
    induction p as [|[c m] r IH]; simpl; intros H; [reflexivity|].
    apply andb_true_iff in H. destruct H as [H1 H2]. apply Qeq_bool_iff in H1.
    rewrite (IH H2), H1. ring.
  Qed.

  Lemma peval_pconst k : peval rho (pconst k) == k.
  Proof. simpl. ring. Qed.

  Lemma as_const_sound p k : as_const p = Some k -> peval rho p == k.
  Proof.
    unfold as_const. intros H. rewrite <- peval_pclean.
    destruct (pclean p) as [|[c m] r]; [injection H as <-; reflexivity|].
    destruct m; [|discriminate]. destruct r; [|discriminate]. injection H as <-. simpl. ring.
  Qed.

  Lemma filter_split (f : Q * mono -> bool) p :
    peval rho (filter f p) + peval rho (filter (fun t => negb (f t)) p) == peval rho p.
  Proof.
    induction p as [|[c m] r IH]; simpl; [ring|].
    destruct (f (c, m)); simpl; rewrite <- IH; ring.
  Qed.

  (* ---------------------------------------------------------------- normalisers *)
  Theorem pnorm_sound e : forall p, pnorm e = Some p -> eval rho e == peval rho p.
  Proof.
    induction e as [q|v|o a IHa b IHb]; simpl; intros p H.
    - injection H as <-. simpl. ring.
    - injection H as <-. simpl. ring.
    - destruct (pnorm a) as [pa|]; [|discriminate]. destruct (pnorm b) as [pb|]; [|discriminate].
      specialize (IHa _ eq_refl). specialize (IHb _ eq_refl).
      destruct o; simpl.
      + injection H as <-. rewrite peval_padd, IHa, IHb. reflexivity.
      + injection H as <-. rewrite peval_psub, IHa, IHb. reflexivity.
      + injection H as <-. rewrite peval_pmul, IHa, IHb. reflexivity.
      + destruct (as_const pb) as [k|] eqn:Ek; [|discriminate].
        destruct (Qeq_bool k 0) eqn:Ez; [discriminate|]. injection H as <-.
        apply as_const_sound in Ek. rewrite peval_pscale, IHa, IHb, Ek.
        assert (Hk : ~ k == 0) by (intros Hk; apply Qeq_bool_iff in Hk; congruence).
        field. exact Hk.
  Qed.

  Theorem rnorm_sound e :
    defined rho e ->
    ~ peval rho (snd (rnorm e)) == 0 /\ eval rho e == peval rho (fst (rnorm e)) / peval rho (snd (rnorm e)).
  Proof.
    induction e as [q|v|o a IHa b IHb]; simpl; intros D.
    - split; [lra|]. field.
    - split; [lra|]. field.
    - destruct (rnorm a) as [n1 d1]. destruct (rnorm b) as [n2 d2]. simpl in IHa, IHb.
      assert (Da : defined rho a) by (destruct o; tauto).
      assert (Db : defined rho b) by (destruct o; tauto).
      destruct (IHa Da) as [Ha1 Ha2]. destruct (IHb Db) as [Hb1 Hb2].
      destruct o; simpl.
      + rewrite peval_padd, !peval_pmul. split.
        * intros H. apply Qmult_integral in H. tauto.
        * rewrite Ha2, Hb2. field. tauto.
      + rewrite peval_psub, !peval_pmul. split.
        * intros H. apply Qmult_integral in H. tauto.
        * rewrite Ha2, Hb2. field. tauto.
      + rewrite !peval_pmul. split.
        * intros H. apply Qmult_integral in H. tauto.
        * rewrite Ha2, Hb2. field. tauto.
      + rewrite !peval_pmul.
        assert (Hn2 : ~ peval rho n2 == 0).
        { intros H. destruct D as (_ & _ & D). apply D. rewrite Hb2, H. field. exact Hb1. }
        split.
        * intros H. apply Qmult_integral in H. tauto.
        * rewrite Ha2, Hb2. field. tauto.
  Qed.

  (* ---------------------------------------------------------------- substitution *)
  Lemma bin_sem_comp o x x' y y' : x == x' -> y == y' -> bin_sem o x y == bin_sem o x' y'.
  Proof. intros Hx Hy. destruct o; simpl; rewrite Hx, Hy; reflexivity. Qed.

  Lemma eval_esubst v r e : rho v == eval rho r -> eval rho (esubst v r e) == eval rho e.
  Proof.
    intros H. induction e as [q|w|o a IHa b IHb]; simpl; [reflexivity| |].
    - destruct (String.eqb v w) eqn:E; [|reflexivity]. apply String.eqb_eq in E. subst w. symmetry. exact H.
    - apply bin_sem_comp; assumption.
  Qed.

  Lemma defined_esubst v r e :
    rho v == eval rho r -> defined rho r -> defined rho e -> defined rho (esubst v r e).
  Proof.
    intros H Dr. induction e as [q|w|o a IHa b IHb]; simpl; intros D; [exact I| |].
    - destruct (String.eqb v w); [exact Dr | exact I].
    - destruct o; simpl in *; try tauto.
      destruct D as (D1 & D2 & D3). repeat split; [tauto | tauto |].
      rewrite (eval_esubst v r b H). exact D3.
  Qed.

  Lemma eval_expr_of_mono m : eval rho (expr_of_mono m) == meval rho m.
  Proof. induction m as [|v r IH]; simpl; [reflexivity|]. rewrite IH. reflexivity. Qed.

  Lemma eval_expr_of_poly p : eval rho (expr_of_poly p) == peval rho p.
  Proof.
    induction p as [|[c m] r IH]; simpl; [reflexivity|]. rewrite IH, eval_expr_of_mono. reflexivity.
  Qed.

  Lemma defined_expr_of_mono m : defined rho (expr_of_mono m).
  Proof. induction m; simpl; tauto. Qed.

  Lemma defined_expr_of_poly p : defined rho (expr_of_poly p).
  Proof.
    induction p as [|[c m] r IH]; simpl; [exact I|]. pose proof (defined_expr_of_mono m). tauto.
  Qed.

  Lemma coef_split_gen m0 d :
    peval rho d == coef m0 d * meval rho m0 + peval rho (filter (fun t => negb (mono_eqb m0 (snd t))) d).
  Proof.
    induction d as [|[c m] r IH]; simpl; [ring|].
    destruct (mono_eqb m0 m) eqn:E; simpl.
    - apply mono_eqb_eq in E. subst m. rewrite IH. ring.
    - rewrite IH. ring.
  Qed.

  Lemma coef_split v d :
    peval rho d == coef [v] d * rho v + peval rho (filter (fun t => negb (mono_eqb [v] (snd t))) d).
  Proof.
    rewrite (coef_split_gen [v] d) at 1.
    change (meval rho [v]) with (rho v * 1). ring.
  Qed.

  Definition valid_subst (s : string * expr) : Prop := rho (fst s) == eval rho (snd s) /\ defined rho (snd s).

  Lemma solve_for_sound d v s : solve_for d v = Some s -> peval rho d == 0 -> valid_subst s.
  Proof.
    unfold solve_for. destruct (Qeq_bool (coef [v] d) 0) eqn:E; [discriminate|].
    intros H Hd. injection H as <-. split; simpl; [|apply defined_expr_of_poly].
    rewrite eval_expr_of_poly, peval_pscale.
    assert (Ha : ~ coef [v] d == 0) by (intros Ha; apply Qeq_bool_iff in Ha; congruence).
    pose proof (coef_split v d) as Hs. rewrite Hd in Hs.
    set (a := coef [v] d) in *. set (rest := peval rho (filter _ d)) in *.
    assert (Hr : rest == - (a * rho v)).
    { set (t := a * rho v) in *. lra. }
    rewrite Hr. field. exact Ha.
  Qed.

  Lemma in_somes {A} (l : list (option A)) a : In a (somes l) -> In (Some a) l.
  Proof.
    unfold somes. intros H. apply in_flat_map in H. destruct H as ([x|] & H1 & H2); simpl in H2; [|tauto].
    destruct H2 as [->|[]]. exact H1.
  Qed.

  Lemma substs_of_eq_sound c s : In s (substs_of_eq c) -> sat rho c -> valid_subst s.
  Proof.
    unfold substs_of_eq. destruct (c_op c) eqn:Eo; try (intros []).
    destruct (pnorm (c_l c)) as [l|] eqn:El; [|intros []].
    destruct (pnorm (c_r c)) as [r|] eqn:Er; [|intros []].
    intros H Hs. apply in_somes in H. apply in_map_iff in H. destruct H as (v & H & _).
    apply (solve_for_sound _ _ _ H).
    rewrite peval_pclean, peval_psub. unfold sat in Hs. rewrite Eo in Hs. simpl in Hs.
    rewrite <- (pnorm_sound _ _ El), <- (pnorm_sound _ _ Er). lra.
  Qed.

  Lemma substs1_sound eqs s : In s (substs1 eqs) -> sat_all rho eqs -> valid_subst s.
  Proof.
    unfold substs1. intros H Hs. apply in_flat_map in H. destruct H as (c & Hc & H).
    apply (substs_of_eq_sound c s H). unfold sat_all in Hs. rewrite Forall_forall in Hs. auto.
  Qed.

  Lemma cmp_holds_comp o x x' y y' : x == x' -> y == y' -> (cmp_holds o x y <-> cmp_holds o x' y').
  Proof. intros Hx Hy. destruct o; simpl; rewrite Hx, Hy; reflexivity. Qed.

  Lemma csubst_sound s c : valid_subst s -> (sat rho (csubst s c) <-> sat rho c) /\ (cdefined rho c -> cdefined rho (csubst s c)).
  Proof.
    intros [H1 H2]. unfold sat, cdefined, csubst. simpl. split.
    - apply cmp_holds_comp; apply eval_esubst; exact H1.
    - intros [Dl Dr]. split; apply defined_esubst; assumption.
  Qed.

  (* an equality rewritten by a valid substitution still holds, so what it is solved for is valid too *)
  Lemma derived_substs_sound eqs s t :
    valid_subst s -> In t (derived_substs eqs s) -> sat_all rho eqs -> valid_subst t.
  Proof.
    unfold derived_substs. intros Vs H Hs. apply in_flat_map in H. destruct H as (e & He & H).
    apply (substs_of_eq_sound (csubst s e) t H). apply (proj1 (csubst_sound s e Vs)).
    unfold sat_all in Hs. rewrite Forall_forall in Hs. auto.
  Qed.

  Lemma subst_seqs_sound eqs sq : In sq (subst_seqs eqs) -> sat_all rho eqs -> Forall valid_subst sq.
  Proof.
    unfold subst_seqs. intros H Hs. destruct H as [<-|H]; [constructor|].
    apply in_app_or in H. destruct H as [H|H].
    - apply in_map_iff in H. destruct H as (s & <- & H). constructor; [|constructor].
      eapply substs1_sound; eauto.
    - apply in_flat_map in H. destruct H as (s & H1 & H). apply in_map_iff in H. destruct H as (t & <- & H2).
      assert (Vs : valid_subst s) by (eapply substs1_sound; eauto).
      constructor; [exact Vs|]. constructor; [|constructor].
      apply in_app_or in H2. destruct H2 as [H2|H2]; [eapply substs1_sound; eauto|].
      eapply derived_substs_sound; eauto.
  Qed.

  Lemma apply_seq_sound sq : forall c, Forall valid_subst sq ->
    (sat rho (apply_seq sq c) <-> sat rho c) /\ (cdefined rho c -> cdefined rho (apply_seq sq c)).
  Proof.
    induction sq as [|s r IH]; intros c H; simpl; [tauto|].
    inversion H as [|? ? Hs Hr]; subst.
    destruct (csubst_sound s c Hs) as [A1 A2]. destruct (IH (csubst s c) Hr) as [B1 B2].
    unfold apply_seq in *. simpl. split; [rewrite B1; exact A1 | auto].
  Qed.

  (* ---------------------------------------------------------------- closeness *)
  Lemma coef_notin m p : (forall t, In t p -> mono_eqb m (snd t) = false) -> coef m p == 0.
  Proof.
    induction p as [|[c m'] r IH]; simpl; intros H; [reflexivity|].
    pose proof (H (c, m') (or_introl eq_refl)) as H0. simpl in H0. rewrite H0. apply IH. intros t Ht. apply H. right. exact Ht.
  Qed.

  Lemma mono_occurs_dec m (l : list mono) : In m l \/ (forall m', In m' l -> mono_eqb m m' = false).
  Proof.
    induction l as [|x r IH]; [right; intros ? []|].
    destruct (mono_eqb m x) eqn:E.
    - left. left. symmetry. apply mono_eqb_eq. exact E.
    - destruct IH as [IH|IH]; [left; right; exact IH|]. right. intros m' [<-|H]; auto.
  Qed.
End Arith.

Lemma close_b_sound tol p q : close_b tol p q = true -> poly_close tol p q.
Proof.
  unfold close_b, poly_close. intros H m. apply andb_true_iff in H. destruct H as [H0 H].
  apply Qle_bool_iff in H0. rewrite forallb_forall in H.
  destruct (mono_occurs_dec m (map snd p ++ map snd q)) as [Hin|Hout].
  - apply Qle_bool_iff. apply H. exact Hin.
  - assert (Hp : coef m p == 0).
    { apply coef_notin. intros t Ht. apply Hout. apply in_or_app. left. apply in_map. exact Ht. }
    assert (Hq : coef m q == 0).
    { apply coef_notin. intros t Ht. apply Hout. apply in_or_app. right. apply in_map. exact Ht. }
    rewrite Hp, Hq. setoid_replace (0 - 0) with 0 by ring. simpl. exact H0.
Qed.

(* ------------------------------------------------------------------ comparison under scaling *)
Lemma scale_ok_sound op k : scale_ok op k = true -> (op = CEq /\ ~ k == 0) \/ 0 < k.
Proof.
  destruct op; simpl; intros H;
    try (right; apply negb_true_iff in H; destruct (Qlt_le_dec 0 k) as [L|L]; [exact L|];
         apply Qle_bool_iff in L; congruence).
  left. split; [reflexivity|]. intros Hk. apply Qeq_bool_iff in Hk. rewrite Hk in H. discriminate.
Qed.

Lemma cmp_scale op k a b c d :
  scale_ok op k = true -> a - b == k * (c - d) -> (cmp_holds op a b <-> cmp_holds op c d).
Proof.
  intros Hk H. apply scale_ok_sound in Hk. destruct Hk as [[-> Hk]|Hk].
  - simpl. split; intros E.
    + assert (E' : k * (c - d) == 0) by (rewrite <- H; lra).
      apply Qmult_integral in E'. destruct E' as [E'|E']; [contradiction|lra].
    + assert (E' : a - b == 0) by (rewrite H; rewrite E; ring). lra.
  - destruct op; simpl; split; intros E; nra.
Qed.

Lemma cmp_eqb_eq a b : cmp_eqb a b = true -> a = b.
Proof. destruct a, b; simpl; intros H; try discriminate; reflexivity. Qed.

Lemma first_some_sound {A B} (f : A -> option B) l b : first_some f l = Some b -> exists a, In a l /\ f a = Some b.
Proof.
  induction l as [|a r IH]; simpl; intros H; [discriminate|].
  destruct (f a) as [b'|] eqn:E.
  - injection H as <-. exists a. auto.
  - destruct (IH H) as (a' & H1 & H2). exists a'. auto.
Qed.

(* ------------------------------------------------------------------ matching *)
Lemma match_poly_sound d c o m :
  match_poly d c o = Some m ->
  rounded d m o /\ forall rho, (msat rho m <-> sat rho c).
Proof.
  unfold match_poly. destruct (cmp_eqb (c_op c) (c_op o)) eqn:Eop; cbn [negb]; [|discriminate].
  apply cmp_eqb_eq in Eop.
  destruct (pnorm (c_l c)) as [lc|] eqn:E1; [|discriminate].
  destruct (pnorm (c_r c)) as [rc|] eqn:E2; [|discriminate].
  destruct (pnorm (c_l o)) as [lo|] eqn:E3; [|discriminate].
  destruct (pnorm (c_r o)) as [ro|] eqn:E4; [|discriminate].
  destruct (close_b (tol_of d) lc lo && close_b (tol_of d) rc ro) eqn:Ec.
  - intros H. injection H as <-. apply andb_true_iff in Ec. destruct Ec as [C1 C2]. split.
    + simpl. split; [exact Eop|]. exists lo, ro. repeat split; auto using close_b_sound.
    + intros rho. unfold sat. simpl. apply cmp_holds_comp; symmetry; apply pnorm_sound; assumption.
  - intros H. apply first_some_sound in H. destruct H as (k & _ & H).
    destruct (scale_ok (c_op c) k) eqn:Ek; [|discriminate].
    match type of H with (if ?b then _ else _) = _ => destruct b eqn:Ec2; [|discriminate] end.
    injection H as <-. apply andb_true_iff in Ec2. destruct Ec2 as [C1 C2]. split.
    + simpl. split; [exact Eop|]. exists lo, ro. repeat split; auto using close_b_sound.
    + intros rho. unfold sat. simpl.
      apply cmp_scale with (k := k); [exact Ek|].
      rewrite (pnorm_sound rho _ _ E1), (pnorm_sound rho _ _ E2).
      rewrite peval_psub, peval_pscale, peval_pclean, peval_psub.
      set (x := peval rho (map _ lo)). lra.
Qed.

Lemma if_true_iff (a b c : bool) : (if a then b else c) = true -> (a = true /\ b = true) \/ (a = false /\ c = true).
Proof. destruct a; auto. Qed.

Lemma existsb_sound {A} (f : A -> bool) l : existsb f l = true -> exists a, f a = true.
Proof. intros H. apply existsb_exists in H. destruct H as (a & _ & H). eauto. Qed.

Lemma match_exact_sound c o rho :
  match_exact c o = true -> cdefined rho c -> cdefined rho o -> (sat rho c <-> sat rho o).
Proof.
  unfold match_exact. intros H Dc Do. destruct (cmp_eqb (c_op c) (c_op o)) eqn:Eop; [|discriminate].
  apply cmp_eqb_eq in Eop.
  assert (Ddc : defined rho (diff c)) by (unfold diff, cdefined in *; simpl; tauto).
  assert (Ddo : defined rho (diff o)) by (unfold diff, cdefined in *; simpl; tauto).
  pose proof (rnorm_sound rho _ Ddc) as [Hc1 Hc2]. pose proof (rnorm_sound rho _ Ddo) as [Ho1 Ho2].
  destruct (rnorm (diff c)) as [nc dc]. destruct (rnorm (diff o)) as [no dn]. cbn [fst snd diff eval bin_sem] in *.
  unfold sat. rewrite <- Eop.
  set (a := eval rho (c_l c)) in *. set (b := eval rho (c_r c)) in *.
  set (a' := eval rho (c_l o)) in *. set (b' := eval rho (c_r o)) in *.
  apply if_true_iff in H. destruct H as [[H _]|[_ H]].
  - apply existsb_sound in H. destruct H as (k & H). destruct (scale_ok (c_op c) k) eqn:Hk; [|discriminate].
    rename H into Hz.
    apply (is_zero_sound rho) in Hz. rewrite peval_pclean, peval_psub, peval_pscale, !peval_pmul in Hz.
    symmetry. apply cmp_scale with (k := k); [exact Hk|].
    rewrite Ho2, Hc2. field_simplify_eq; [|tauto].
    assert (Hz' : peval rho no * peval rho dc == k * (peval rho nc * peval rho dn)) by lra.
    rewrite Hz'. ring.
  - destruct (c_op c) eqn:Eo; try discriminate.
    apply existsb_sound in H. destruct H as (k & H). destruct (Qeq_bool k 0) eqn:Hk; [discriminate|].
    rename H into Hz.
    apply (is_zero_sound rho) in Hz. rewrite peval_pclean, peval_psub, peval_pscale in Hz.
    assert (Hk' : ~ k == 0).
    { intros E. apply Qeq_bool_iff in E. rewrite E in Hk. discriminate. }
    simpl.
    assert (Hno : peval rho no == k * peval rho nc) by lra.
    split; intros E.
    + assert (E0 : peval rho nc / peval rho dc == 0) by (rewrite <- Hc2; lra).
      assert (E1 : peval rho nc == 0).
      { rewrite <- (Qmult_div_r (peval rho nc) (peval rho dc)) by exact Hc1. rewrite E0. ring. }
      assert (E2 : a' - b' == 0). { rewrite Ho2, Hno, E1. field. exact Ho1. }
      lra.
    + assert (E0 : peval rho no / peval rho dn == 0) by (rewrite <- Ho2; lra).
      assert (E1 : peval rho no == 0).
      { rewrite <- (Qmult_div_r (peval rho no) (peval rho dn)) by exact Ho1. rewrite E0. ring. }
      assert (E2 : peval rho nc == 0).
      { rewrite Hno in E1. apply Qmult_integral in E1. tauto. }
      assert (E3 : a - b == 0). { rewrite Hc2, E2. field. exact Hc1. }
      lra.
Qed.

(* ------------------------------------------------------------------ structural rounding *)
Lemma binop_eqb_eq a b : binop_eqb a b = true -> a = b.
Proof. destruct a, b; simpl; intros H; try discriminate; reflexivity. Qed.

Lemma eround_b_sound tol h : forall o, eround_b tol h o = true -> eround tol h o.
Proof.
  induction h as [p|v|op a IHa b IHb]; intros o H; cbn [eround_b] in H.
  - apply if_true_iff in H. destruct H as [[H _]|[_ H]].
    + destruct o as [q| |]; try discriminate. apply Qle_bool_iff in H. constructor. exact H.
    + cbn [vanishing] in H. destruct (Qle_bool (Qabs p) tol) eqn:Hv; [|discriminate].
      destruct o as [q| |]; try discriminate. apply Qeq_bool_iff in H. apply ER_zero; assumption.
  - apply if_true_iff in H. destruct H as [[H _]|[_ H]].
    + destruct o as [|w|]; try discriminate. apply String.eqb_eq in H. subst w. constructor.
    + cbn [vanishing] in H. discriminate.
  - apply if_true_iff in H. destruct H as [[H _]|[_ H]].
    + destruct o as [| |op' a' b']; try discriminate.
      destruct (binop_eqb op op') eqn:Hop; [|discriminate]. apply binop_eqb_eq in Hop. subst op'.
      destruct (eround_b tol a a') eqn:Ha; [|discriminate]. constructor; auto.
    + apply if_true_iff in H. destruct H as [[H _]|[_ H]].
      * destruct op; try discriminate. apply if_true_iff in H. destruct H as [[H _]|[_ H]].
        -- destruct (vanishing tol a) eqn:Hv; [|discriminate]. apply ER_dropl; auto.
        -- destruct (vanishing tol b) eqn:Hv; [|discriminate]. apply ER_dropr; auto.
      * destruct (vanishing tol (EBin op a b)) eqn:Hv; [|discriminate].
        destruct o as [q| |]; try discriminate. apply Qeq_bool_iff in H. apply ER_zero; assumption.
Qed.

Lemma cround_b_sound tol h o : cround_b tol h o = true -> cround tol h o.
Proof.
  unfold cround_b, cround. intros H.
  destruct (cmp_eqb (c_op h) (c_op o)) eqn:Hop; [|discriminate]. apply cmp_eqb_eq in Hop.
  destruct (eround_b tol (c_l h) (c_l o)) eqn:Hl; [|discriminate].
  repeat split; auto using eround_b_sound.
Qed.

(* sanity of the relation: with tolerance zero a structural rounding has the same value *)
Lemma vanishing_zero rho z : vanishing 0 z = true -> eval rho z == 0.
Proof.
  induction z as [c|v|op a IHa b IHb]; simpl; intros H; try discriminate.
  - apply Qle_bool_iff in H. revert H. apply (Qabs_case c (fun y => y <= 0 -> c == 0)); intros; lra.
  - destruct op; try discriminate.
    + apply andb_true_iff in H. destruct H as [H1 H2]. simpl. rewrite (IHa H1), (IHb H2). ring.
    + apply orb_true_iff in H. simpl. destruct H as [H|H]; [rewrite (IHa H)|rewrite (IHb H)]; ring.
Qed.

Lemma eround_zero_same rho h o : eround 0 h o -> eval rho h == eval rho o.
Proof.
  induction 1 as [p q H|v|op a b a' b' _ IHa _ IHb|z a o Hz _ IH|z a o Hz _ IH|z q Hz Hq]; simpl.
  - apply (Qabs_case (p - q) (fun x => x <= 0 -> p == q)); intros; lra.
  - reflexivity.
  - apply bin_sem_comp; assumption.
  - rewrite (vanishing_zero rho z Hz), IH. ring.
  - rewrite (vanishing_zero rho z Hz), IH. ring.
  - rewrite (vanishing_zero rho z Hz), Hq. reflexivity.
Qed.

(* ------------------------------------------------------------------ omission of implied conditions *)
Lemma cmp_b_sound o x y : cmp_b o x y = true -> cmp_holds o x y.
Proof.
  destruct o; simpl; intros H.
  - apply Qle_bool_iff. exact H.
  - apply Qle_bool_iff. exact H.
  - apply negb_true_iff in H. destruct (Qlt_le_dec x y) as [L|L]; [exact L|]. apply Qle_bool_iff in L. congruence.
  - apply negb_true_iff in H. destruct (Qlt_le_dec y x) as [L|L]; [exact L|]. apply Qle_bool_iff in L. congruence.
  - apply Qeq_bool_iff. exact H.
Qed.

Lemma const_holds_sound c rho : const_holds c = true -> cdefined rho c -> sat rho c.
Proof.
  unfold const_holds. intros H D.
  assert (Dd : defined rho (diff c)) by (unfold diff, cdefined in *; simpl; tauto).
  pose proof (rnorm_sound rho _ Dd) as [H1 H2].
  destruct (rnorm (diff c)) as [n dn]. cbn [fst snd] in *.
  set (k := match lead n, lead dn with Some x, Some y => Qred (x / y) | _, _ => 0 end) in *.
  destruct (is_zero (pclean (psub n (pscale k dn)))) eqn:Z; [|discriminate].
  apply (is_zero_sound rho) in Z. rewrite peval_pclean, peval_psub, peval_pscale in Z.
  apply cmp_b_sound in H. unfold sat.
  assert (E : eval rho (c_l c) - eval rho (c_r c) == k).
  { change (eval rho (diff c) == k). rewrite H2.
    assert (Z' : peval rho n == k * peval rho dn) by lra. rewrite Z'. field. exact H1. }
  destruct (c_op c); simpl in *; lra.
Qed.

Lemma implied_sound eqs c rho : implied eqs c = true -> sat_all rho eqs -> cdefined rho c -> sat rho c.
Proof.
  unfold implied. intros H Hs D. apply existsb_exists in H. destruct H as (sq & Hin & H).
  destruct (apply_seq_sound rho sq c (subst_seqs_sound rho eqs sq Hin Hs)) as [A B].
  apply A. apply const_holds_sound; auto.
Qed.

(* ------------------------------------------------------------------ matching one condition *)
Lemma match_cond_sound d eqs hs c o m :
  match_cond d eqs hs c o = Some m ->
  rounded d m o /\
  forall rho, sat_all rho eqs -> cdefined rho c -> mdefined rho m -> (sat rho c <-> msat rho m).
Proof.
  unfold match_cond. intros H. destruct (negb (cmp_eqb (c_op c) (c_op o))); [discriminate|].
  apply first_some_sound in H. destruct H as (sq & Hin & H).
  destruct (match_poly d (apply_seq sq c) o) as [m'|] eqn:Ep.
  - injection H as <-. apply match_poly_sound in Ep. destruct Ep as [R E]. split; [exact R|].
    intros rho Hs Dc Do. rewrite E.
    destruct (apply_seq_sound rho sq c (subst_seqs_sound rho eqs sq Hin Hs)) as [A _]. symmetry. exact A.
  - apply first_some_sound in H. destruct H as (h & _ & H).
    destruct (cround_b (tol_of d) h o) eqn:Er; [|discriminate].
    destruct (match_exact (apply_seq sq c) (apply_seq sq h)) eqn:Ee; [|discriminate].
    injection H as <-. split; [apply cround_b_sound; exact Er|].
    intros rho Hs Dc Dh. simpl in *.
    pose proof (subst_seqs_sound rho eqs sq Hin Hs) as V.
    destruct (apply_seq_sound rho sq c V) as [A1 A2]. destruct (apply_seq_sound rho sq h V) as [B1 B2].
    rewrite <- A1, <- B1. apply match_exact_sound; auto.
Qed.

Lemma trivial_sound c rho : trivial c = true -> cdefined rho c -> sat rho c.
Proof.
  unfold trivial. destruct (c_op c) eqn:Eo; try discriminate. intros H D.
  assert (Dd : defined rho (diff c)) by (unfold diff, cdefined in *; simpl; tauto).
  pose proof (rnorm_sound rho _ Dd) as [H1 H2].
  apply (is_zero_sound rho) in H. rewrite peval_pclean in H.
  unfold sat. rewrite Eo. simpl. simpl in H2. rewrite H in H2.
  assert (E : eval rho (c_l c) - eval rho (c_r c) == 0). { rewrite H2. field. exact H1. }
  lra.
Qed.

Lemma in_somes' {A} (l : list (option A)) a : In a (somes l) -> In (Some a) l.
Proof.
  unfold somes. intros H. apply in_flat_map in H. destruct H as ([x|] & H1 & H2); simpl in H2; [|tauto].
  destruct H2 as [->|[]]. exact H1.
Qed.

Lemma cover_by_sound d eqs hs out c m :
  In m (cover d eqs hs out c) ->
  exists o, In o out /\ rounded d m o /\
    forall rho, sat_all rho eqs -> cdefined rho c -> mdefined rho m -> (sat rho c <-> msat rho m).
Proof.
  unfold cover. intros H. apply in_somes' in H. apply in_map_iff in H. destruct H as (o & E & Hin).
  exists o. split; [exact Hin|]. eapply match_cond_sound. exact E.
Qed.

Lemma expr_eqb_eq a : forall b, expr_eqb a b = true -> a = b.
Proof.
  induction a as [p|v|o x IHx y IHy]; intros [q|w|o' x' y']; simpl; intros H; try discriminate.
  - apply andb_true_iff in H. destruct H as [H1 H2]. apply Z.eqb_eq in H1. apply Pos.eqb_eq in H2.
    destruct p, q. simpl in *. congruence.
  - apply String.eqb_eq in H. congruence.
  - apply andb_true_iff in H. destruct H as [H H3]. apply andb_true_iff in H. destruct H as [H1 H2].
    apply IHx in H2. apply IHy in H3. destruct o, o'; try discriminate; congruence.
Qed.

Lemma rounds_to_sound d m o : rounds_to d m o = true -> rounded d m o.
Proof.
  destruct m as [c|op l r]; simpl; intros H.
  - apply cround_b_sound. exact H.
  - apply andb_true_iff in H. destruct H as [H1 H]. apply cmp_eqb_eq in H1. split; [exact H1|].
    destruct (pnorm (c_l o)) as [lo|]; [|discriminate]. destruct (pnorm (c_r o)) as [ro|]; [|discriminate].
    apply andb_true_iff in H. destruct H as [C1 C2]. exists lo, ro. repeat split; auto using close_b_sound.
Qed.

Lemma flat_map_snd_map {A B} (f : A -> list B) l : flat_map snd (map (fun c => (c, f c)) l) = flat_map f l.
Proof. induction l as [|c cs IH]; simpl; [reflexivity|]. f_equal. exact IH. Qed.

(* ------------------------------------------------------------------ the checker is sound *)
Theorem check_pre_sound d hs conds out :
  check_pre d hs conds out = true ->
  exists mid : list mcond,
    (forall rho, defined_all rho conds -> Forall (mdefined rho) mid ->
                 (sat_all rho conds <-> Forall (msat rho) mid)) /\
    (forall m, In m mid -> exists o, In o out /\ rounded d m o) /\
    (forall o, In o out -> exists m, In m mid /\ rounded d m o).
Proof.
  unfold check_pre. set (eqs := filter is_eq conds).
  set (use := fun c : cond => if is_eq c then [] else eqs).
  set (f := fun c => cover d (use c) hs out c).
  intros H.
  change (forallb (fun cc : cond * list mcond =>
                     match snd cc with [] => trivial (fst cc) || implied (use (fst cc)) (fst cc) | _ :: _ => true end)
                  (map (fun c => (c, f c)) conds) &&
          forallb (fun o => existsb (fun m => rounds_to d m o) (flat_map snd (map (fun c => (c, f c)) conds))) out = true) in H.
  rewrite (flat_map_snd_map f conds) in H. apply andb_true_iff in H. destruct H as [H1' H2].
  rewrite forallb_forall in H1', H2.
  assert (H1 : forall c, In c conds -> match f c with [] => trivial c || implied (use c) c | _ :: _ => true end = true).
  { intros c Hc. apply (H1' (c, f c)). apply in_map_iff. exists c. auto. }
  clear H1'.
  exists (flat_map f conds). split; [|split].
  - intros rho Dc Dm. unfold defined_all, sat_all in *. rewrite Forall_forall in Dc, Dm.
    split.
    + intros Hs. rewrite Forall_forall in Hs. apply Forall_forall. intros m Hm.
      pose proof (Dm m Hm) as Dmm.
      apply in_flat_map in Hm. destruct Hm as (c & Hin & Hc).
      unfold f in Hc. apply cover_by_sound in Hc. destruct Hc as (o & Ho & _ & E).
      apply E; auto.
      unfold use. destruct (is_eq c); [constructor|]. unfold sat_all. apply Forall_forall. intros e He.
      apply filter_In in He. apply Hs. tauto.
    + intros Hm. rewrite Forall_forall in Hm.
      assert (Hone : forall c, In c conds -> sat_all rho (use c) -> sat rho c).
      { intros c Hc Hes. specialize (H1 c Hc).
        destruct (f c) as [|m ms] eqn:Efc.
        - apply orb_true_iff in H1. destruct H1 as [H1|H1].
          + apply trivial_sound; auto.
          + eapply implied_sound; eauto.
        - assert (Hin : In m (flat_map f conds)).
          { apply in_flat_map. exists c. split; [exact Hc|]. rewrite Efc. left. reflexivity. }
          assert (Hc' : In m (cover d (use c) hs out c)) by (fold (f c); rewrite Efc; left; reflexivity).
          apply cover_by_sound in Hc'. destruct Hc' as (o & Ho & _ & E). apply E; auto. }
      assert (Heqs : sat_all rho eqs).
      { unfold sat_all. apply Forall_forall. intros e He. apply filter_In in He. destruct He as [He1 He2].
        apply (Hone e He1). unfold use. rewrite He2. constructor. }
      apply Forall_forall. intros c Hc. apply (Hone c Hc).
      unfold use. destruct (is_eq c); [constructor|exact Heqs].
  - intros m Hm. apply in_flat_map in Hm. destruct Hm as (c & _ & Hc).
    unfold f in Hc. apply cover_by_sound in Hc. destruct Hc as (o & Ho & R & _). eauto.
  - intros o Ho. specialize (H2 o Ho). apply existsb_exists in H2. destruct H2 as (m & Hm & R).
    exists m. split; [exact Hm|]. apply rounds_to_sound. exact R.
Qed.

(* "A condition is omitted only if it is implied by the ones kept": a condition that no output condition covers holds
   whenever the equalities of the input hold (for an equality: whenever it is defined - it is an identity); and every
   equality is either covered (kept) or such an identity. *)
Theorem check_pre_omitted d hs conds out :
  check_pre d hs conds out = true ->
  forall c, In c conds ->
    cover d (if is_eq c then [] else filter is_eq conds) hs out c = [] ->
    forall rho, cdefined rho c -> sat_all rho (if is_eq c then [] else filter is_eq conds) -> sat rho c.
Proof.
  unfold check_pre. set (eqs := filter is_eq conds).
  set (use := fun c : cond => if is_eq c then [] else eqs).
  set (f := fun c => cover d (use c) hs out c).
  intros H.
  change (forallb (fun cc : cond * list mcond =>
                     match snd cc with [] => trivial (fst cc) || implied (use (fst cc)) (fst cc) | _ :: _ => true end)
                  (map (fun c => (c, f c)) conds) &&
          forallb (fun o => existsb (fun m => rounds_to d m o) (flat_map snd (map (fun c => (c, f c)) conds))) out = true) in H.
  apply andb_true_iff in H. destruct H as [H1 _]. rewrite forallb_forall in H1.
  intros c Hc Hcov rho D Hs.
  specialize (H1 (c, f c)). cbn [fst snd] in H1.
  assert (Hin : In (c, f c) (map (fun c => (c, f c)) conds)) by (apply in_map_iff; exists c; auto).
  specialize (H1 Hin). change (f c) with (cover d (use c) hs out c) in H1. unfold use in H1 at 1.
  rewrite Hcov in H1. apply orb_true_iff in H1. destruct H1 as [T|I].
  - apply trivial_sound; assumption.
  - eapply implied_sound; eauto.
Qed.

Theorem check_under_sound d assumptions hs c o m :
  check_under d assumptions hs c o = Some m ->
  rounded d m o /\
  forall rho, sat_all rho assumptions -> cdefined rho c -> mdefined rho m -> (sat rho c <-> msat rho m).
Proof.
  unfold check_under. intros H. apply match_cond_sound in H. destruct H as [R E]. split; [exact R|].
  intros rho Hs. apply E. unfold sat_all in *. rewrite Forall_forall in *. intros e He.
  apply filter_In in He. apply Hs. tauto.
Qed.

(* an inequality that simplify_inequality omits under its assumptions *)
Theorem implied_under_sound assumptions c :
  implied (filter is_eq assumptions) c = true ->
  forall rho, sat_all rho assumptions -> cdefined rho c -> sat rho c.
Proof.
  intros H rho Hs D. eapply implied_sound; [exact H| |exact D].
  unfold sat_all in *. rewrite Forall_forall in *. intros e He. apply filter_In in He. apply Hs. tauto.
Qed.

Lemma equiv_b_sound e h rho : equiv_b e h = true -> defined rho e -> defined rho h -> eval rho h == eval rho e.
Proof.
  unfold equiv_b. intros H De Dh.
  pose proof (rnorm_sound rho _ De) as [He1 He2]. pose proof (rnorm_sound rho _ Dh) as [Ho1 Ho2].
  destruct (rnorm e) as [ne de]. destruct (rnorm h) as [no dn]. simpl in *.
  apply (is_zero_sound rho) in H. rewrite peval_pclean, peval_psub, !peval_pmul in H.
  rewrite He2, Ho2. field_simplify_eq; [|tauto]. lra.
Qed.

Theorem check_expr_sound d hs e o :
  check_expr d hs e o = true ->
  (exists p q, (forall rho, eval rho e == peval rho p) /\ (forall rho, eval rho o == peval rho q) /\
               poly_close (tol_of d) p q)
  \/ (exists h, eround (tol_of d) h o /\ forall rho, defined rho e -> defined rho h -> eval rho h == eval rho e).
Proof.
  unfold check_expr. intros H. apply orb_true_iff in H. destruct H as [H|H].
  - left. destruct (pnorm e) as [p|] eqn:E1; [|discriminate]. destruct (pnorm o) as [q|] eqn:E2; [|discriminate].
    exists p, q. repeat split.
    + intros rho. apply pnorm_sound. exact E1.
    + intros rho. apply pnorm_sound. exact E2.
    + apply close_b_sound. exact H.
  - right. apply existsb_exists in H. destruct H as (h & _ & H).
    destruct (eround_b (tol_of d) h o) eqn:Hr; [|discriminate]. rename H into He.
    exists h. split; [apply eround_b_sound; exact Hr|]. intros rho. apply equiv_b_sound. exact He.
Qed.

(* the hypotheses are satisfiable by non-trivial values *)
Open Scope string_scope.
Example check_pre_nontrivial :
  let x := EVar "( x ?a )" in let y := EVar "( y ?a )" in
  check_pre 2 []
    [ {| c_op := CEq; c_l := EBin OAdd x y; c_r := ENum 3 |};
      {| c_op := CLe; c_l := EBin OAdd (EBin OMul x (ENum (1234 # 1000))) y; c_r := ENum 10 |};
      {| c_op := CEq; c_l := x; c_r := x |} ]
    [ {| c_op := CEq; c_l := EBin OAdd x y; c_r := ENum 3 |};
      {| c_op := CLe; c_l := EBin OAdd (EBin OMul y (ENum (-23 # 100))) (ENum (370 # 100)); c_r := ENum 10 |} ] = true.
Proof. vm_compute. reflexivity. Qed.

Example check_pre_rejects_truncation :
  let x := EVar "( x ?a )" in
  check_pre 4 [] [ {| c_op := CLe; c_l := EBin OMul (ENum (299999 # 100000)) x; c_r := ENum 4 |} ]
                 [ {| c_op := CLe; c_l := EBin OMul x (ENum 2); c_r := ENum 4 |} ] = false.
Proof. vm_compute. reflexivity. Qed.

(* an inequality whose only fluent is fixed by a kept equality may be omitted when it then holds ... *)
Example check_pre_omits_implied :
  let w := EVar "( w )" in
  check_pre 2 [] [ {| c_op := CEq; c_l := EBin OAdd w w; c_r := ENum 4 |}; {| c_op := CLe; c_l := w; c_r := ENum 25 |} ]
                 [ {| c_op := CEq; c_l := w; c_r := ENum 2 |} ] = true.
Proof. vm_compute. reflexivity. Qed.

(* ... but not when it does not hold *)
Example check_pre_keeps_contradicted :
  let w := EVar "( w )" in
  check_pre 2 [] [ {| c_op := CEq; c_l := EBin OAdd w w; c_r := ENum 4 |}; {| c_op := CLe; c_l := w; c_r := ENum 1 |} ]
                 [ {| c_op := CEq; c_l := w; c_r := ENum 2 |} ] = false.
Proof. vm_compute. reflexivity. Qed.

(* a product of sums printed with 2 decimals is a structural rounding of the hint, which equals the input exactly;
   without the hint (or with 3 instead of 2.995 rounded to 2 decimals) the expression is rejected *)
Example check_expr_factored :
  let x := EVar "( x ?a )" in let y := EVar "( y ?a )" in
  let e := EBin OMul (EBin OSub x (ENum (2995 # 1000))) (EBin OAdd y (ENum (4 # 1000))) in
  let o := EBin OMul (EBin OAdd x (ENum (-3))) y in
  let h := EBin OMul (EBin OAdd x (ENum (-2995 # 1000))) (EBin OAdd y (ENum (4 # 1000))) in
  check_expr 2 [h] e o = true /\ check_expr 2 [] e o = false /\ check_expr 3 [h] e o = false.
Proof. vm_compute. repeat split; reflexivity. Qed.

(* ------------------------------------------------------------------ the traced checkers decide the same *)
Lemma check_pre_tr_same d hs conds out : fst (check_pre_tr d hs conds out) = check_pre d hs conds out.
Proof. reflexivity. Qed.

Lemma check_expr_path_same d hs e o :
  check_expr d hs e o = match check_expr_path d hs e o with Some _ => true | None => false end.
Proof.
  unfold check_expr, check_expr_path. cbn [existsb].
  destruct (match pnorm e, pnorm o with Some p, Some q => close_b (tol_of d) p q | _, _ => false end); [reflexivity|].
  cbn [orb].
  destruct (if eround_b (tol_of d) o o then equiv_b e o else false); [reflexivity|]. cbn [orb].
  destruct (existsb (fun h => if eround_b (tol_of d) h o then equiv_b e h else false) hs); reflexivity.
Qed.

(* every path reported for an output condition names a mid condition that it is a rounding of *)
Lemma out_paths_sound d mids out :
  Forall2 (fun o p => match p with
                      | Some _ => exists m, In m mids /\ rounds_to d m o = true
                      | None => True
                      end) out (out_paths d mids out).
Proof.
  unfold out_paths. induction out as [|o out IH]; simpl; constructor; [|exact IH].
  destruct (find (fun m => rounds_to d m o) mids) as [m|] eqn:F; [|exact I].
  apply find_some in F. exists m. exact F.
Qed.

(* ------------------------------------------------------------------ disjunctions *)
Lemma somes_in {A} (l : list (option A)) a : In (Some a) l -> In a (somes l).
Proof.
  unfold somes. intros H. apply in_flat_map. exists (Some a). split; [exact H|left; reflexivity].
Qed.

Theorem check_or_sound d hs conds out :
  check_or d hs conds out = true ->
  exists mid : list mcond,
    (forall rho, defined_all rho conds -> Forall (mdefined rho) mid ->
                 (Exists (sat rho) conds <-> Exists (msat rho) mid)) /\
    (forall m, In m mid -> exists o, In o out /\ rounded d m o) /\
    (forall o, In o out -> exists m, In m mid /\ rounded d m o).
Proof.
  unfold check_or. intros H. apply andb_true_iff in H. destruct H as [H1 H2].
  rewrite forallb_forall in H1, H2.
  exists (or_mids d hs conds out).
  assert (Mid : forall m, In m (or_mids d hs conds out) <->
                          exists c o, In c conds /\ In o out /\ check_under d [] hs c o = Some m).
  { intros m. unfold or_mids. rewrite in_flat_map. split.
    - intros (c & Hc & Hm). apply in_somes' in Hm. apply in_map_iff in Hm. destruct Hm as (o & E & Ho). eauto.
    - intros (c & o & Hc & Ho & E). exists c. split; [exact Hc|]. apply somes_in. apply in_map_iff. eauto. }
  split; [|split].
  - intros rho Dc Dm. unfold defined_all in Dc. rewrite Forall_forall in Dc, Dm. rewrite !Exists_exists. split.
    + intros (c & Hc & Sc). specialize (H1 c Hc). apply existsb_exists in H1. destruct H1 as (o & Ho & Cv).
      unfold covered_by in Cv. destruct (check_under d [] hs c o) as [m|] eqn:E; [|discriminate].
      assert (Hm : In m (or_mids d hs conds out)) by (apply Mid; eauto).
      exists m. split; [exact Hm|]. destruct (check_under_sound _ _ _ _ _ _ E) as [_ Eq].
      apply (Eq rho); [constructor|apply Dc; exact Hc|apply Dm; exact Hm|exact Sc].
    + intros (m & Hm & Sm). pose proof Hm as Hm'. apply Mid in Hm'. destruct Hm' as (c & o & Hc & Ho & E).
      exists c. split; [exact Hc|]. destruct (check_under_sound _ _ _ _ _ _ E) as [_ Eq].
      apply (Eq rho); [constructor|apply Dc; exact Hc|apply Dm; exact Hm|exact Sm].
  - intros m Hm. apply Mid in Hm. destruct Hm as (c & o & Hc & Ho & E). exists o. split; [exact Ho|].
    exact (proj1 (check_under_sound _ _ _ _ _ _ E)).
  - intros o Ho. specialize (H2 o Ho). apply existsb_exists in H2. destruct H2 as (c & Hc & Cv).
    unfold covered_by in Cv. destruct (check_under d [] hs c o) as [m|] eqn:E; [|discriminate].
    exists m. split; [apply Mid; eauto|]. exact (proj1 (check_under_sound _ _ _ _ _ _ E)).
Qed.

(* the elimination that is right for a conjunction is wrong for a disjunction, and the checker sees it: x + y = 1 or
   x + y <= 1.5 printed as "x + y = 1" alone (the library before D21p) is rejected, the full disjunction accepted *)
Example check_or_rejects_dropped_disjunct :
  let x := EVar "( x ?a )" in let y := EVar "( y ?a )" in
  let c1 := {| c_op := CEq; c_l := EBin OAdd x y; c_r := ENum 1 |} in
  let c2 := {| c_op := CLe; c_l := EBin OAdd x y; c_r := ENum (3 # 2) |} in
  check_or 2 [] [c1; c2] [c1] = false /\ check_or 2 [] [c1; c2] [c2; c1] = true /\ check_pre 2 [] [c1; c2] [c1] = true.
Proof. vm_compute. repeat split; reflexivity. Qed.

(* two equalities that fix the same function determine a second one: 10 f = 9 g and f = - g give g = 0 (a substitution
   solved from the first equality after the second was applied to it); f w + g < 1 is then implied *)
Example implied_by_two_equalities :
  let f := EVar "( f )" in let g := EVar "( g )" in let w := EVar "( w )" in
  let a1 := {| c_op := CEq; c_l := EBin OMul (ENum 10) f; c_r := EBin OMul (ENum 9) g |} in
  let a2 := {| c_op := CEq; c_l := f; c_r := EBin OSub (ENum 0) g |} in
  let c := {| c_op := CLt; c_l := EBin OAdd (EBin OMul f w) g; c_r := ENum 1 |} in
  implied [a1; a2] c = true /\ implied [a1] c = false /\ implied [a2] c = false.
Proof. vm_compute. repeat split; reflexivity. Qed.
