(* C12_cmp_fixed without universally quantified IEEE hypotheses.

   C12_cmp_fixed (Proofs/C12_Cmp.v) assumes three statements of Coq's FloatAxioms (mul_spec, abs_spec, leb_spec) for
   ALL floats.  They cannot be proved inside Coq 8.16.1 without importing axioms: theories/Floats/FloatAxioms.v
   DECLARES them with [Axiom] (lines 39, 43, 59 of the installed file), the type [float] is a kernel primitive without
   an eliminator, and PrimFloat.mul / abs / leb reduce only on closed values - so no universally quantified fact about
   them is derivable, and [Require Import FloatAxioms] would make them appear under Print Assumptions.

   What the kernel CAN do is compute: at any three CLOSED values eps, x, y the instances of the three facts that the
   proof uses (0*y, 0*x; |0*y|, |0*x|; five comparisons) are equations between closed terms which [vm_compute] decides.
   [ieee_ok_at eps x y] is that finite check as a boolean, and C12_cmp_fixed_at needs nothing else: for every triple
   on which the kernel's primitives agree with SpecFloat's functions at the operands that occur, the repaired
   comparison operators are the spec's.  The correspondence check evaluates [ieee_ok_at] on the operands of every
   comparison case of every run (Corr/C12.v), the examples below on one value of each class (subnormal, smallest
   normal, 1e308, the largest finite value, -0.0, values one ulp apart). *)
From Coq Require Import ZArith List Bool String Ascii Lia PrimFloat FloatOps SpecFloat.
From Verif Require Import Base.Result Base.Str Base.Sexp Base.Float Model.NumExpr Spec.Arith Proofs.C12_Eval Proofs.C12_Cmp.
Import ListNotations.
Open Scope string_scope.
Open Scope list_scope.

Definition sf_eqb (a b : spec_float) : bool :=
  match a, b with
  | S754_zero s, S754_zero s' => Bool.eqb s s'
  | S754_infinity s, S754_infinity s' => Bool.eqb s s'
  | S754_nan, S754_nan => true
  | S754_finite s m e, S754_finite s' m' e' => Bool.eqb s s' && Pos.eqb m m' && Z.eqb e e'
  | _, _ => false
  end.

Lemma sf_eqb_eq a b : sf_eqb a b = true -> a = b.
Proof.
  destruct a as [s|s| |s m e]; destruct b as [s'|s'| |s' m' e']; cbn [sf_eqb]; try discriminate; try reflexivity.
  - intros H. apply Bool.eqb_prop in H. now subst.
  - intros H. apply Bool.eqb_prop in H. now subst.
  - intros H. apply andb_true_iff in H as [H He]. apply andb_true_iff in H as [Hs Hm].
    apply Bool.eqb_prop in Hs. apply Pos.eqb_eq in Hm. apply Z.eqb_eq in He. now subst.
Qed.

(* the instances of mul_spec / abs_spec / leb_spec at given operands, as computations *)
Definition mul_ok_at (a b : float) : bool := sf_eqb (Prim2SF (a * b)%float) (SFmul prec emax (Prim2SF a) (Prim2SF b)).
Definition abs_ok_at (a : float) : bool := sf_eqb (Prim2SF (abs a)) (SFabs (Prim2SF a)).
Definition leb_ok_at (a b : float) : bool := Bool.eqb (PrimFloat.leb a b) (SFleb (Prim2SF a) (Prim2SF b)).

(* everything the comparison of x and y under the tolerance eps (rel_tol = 0) touches *)
Definition ieee_ok_at (eps x y : float) : bool :=
  let d := abs (y - x)%float in
  mul_ok_at 0%float y && mul_ok_at 0%float x && abs_ok_at (0 * y)%float && abs_ok_at (0 * x)%float &&
  leb_ok_at 0%float eps && leb_ok_at d eps && leb_ok_at d (abs (0 * y)%float) && leb_ok_at d (abs (0 * x)%float).

Lemma abs_zero_mul_at y :
  mul_ok_at 0%float y = true -> abs_ok_at (0 * y)%float = true ->
  is_nan y = false -> is_infinity y = false -> Prim2SF (abs (0 * y)%float) = S754_zero false.
Proof.
  intros Hm Ha Hn Hi. apply sf_eqb_eq in Hm. apply sf_eqb_eq in Ha. rewrite Ha, Hm.
  change (Prim2SF 0%float) with (S754_zero false).
  destruct (Prim2SF_finite_cases y Hn Hi) as [[s ->]|(s & m & e & ->)]; reflexivity.
Qed.

Lemma rel_zero_within_at eps x y :
  ieee_ok_at eps x y = true ->
  is_nan x = false -> is_infinity x = false -> is_nan y = false -> is_infinity y = false ->
  PrimFloat.leb 0%float eps = true ->
  rel_term 0%float x y = true -> PrimFloat.leb (abs (y - x)%float) eps = true.
Proof.
  unfold ieee_ok_at. intros Hok Hnx Hix Hny Hiy Heps Hrel.
  repeat (apply andb_true_iff in Hok as [Hok ?]).
  match goal with H : leb_ok_at 0 eps = true |- _ => apply Bool.eqb_prop in H; rename H into L0 end.
  match goal with H : leb_ok_at (abs (y - x)) eps = true |- _ => apply Bool.eqb_prop in H; rename H into Ld end.
  match goal with H : leb_ok_at (abs (y - x)) (abs (0 * y)) = true |- _ => apply Bool.eqb_prop in H; rename H into Ly end.
  match goal with H : leb_ok_at (abs (y - x)) (abs (0 * x)) = true |- _ => apply Bool.eqb_prop in H; rename H into Lx end.
  rewrite L0 in Heps. change (Prim2SF 0%float) with (S754_zero false) in Heps.
  rewrite Ld. unfold rel_term in Hrel. apply orb_true_iff in Hrel as [H'|H'].
  - rewrite Ly in H'. rewrite (abs_zero_mul_at y) in H' by assumption. exact (SFleb_through_zero _ _ H' Heps).
  - rewrite Lx in H'. rewrite (abs_zero_mul_at x) in H' by assumption. exact (SFleb_through_zero _ _ H' Heps).
Qed.

Theorem C12_cmp_fixed_at_lemma eps digits c x y :
  ieee_ok_at eps x y = true ->
  f_is_finite x = true -> f_is_finite y = true -> PrimFloat.leb 0%float eps = true ->
  PrimFloat.ltb eps 0%float = false ->
  compare_op (cfg_fixed eps digits) (cmp_name c) x y = Ok (spec_cmp eps c x y).
Proof.
  unfold f_is_finite. intros Hok Hx Hy Heps Hlt.
  apply andb_true_iff in Hx as [Hnx Hix]. apply andb_true_iff in Hy as [Hny Hiy].
  apply negb_true_iff in Hnx, Hix, Hny, Hiy.
  assert (Ht : tol_ok (cfg_rel (cfg_fixed eps digits)) (cfg_eps (cfg_fixed eps digits))).
  { split; [reflexivity | exact Hlt]. }
  rewrite (C12_cmp_lemma _ c x y Ht Hix Hiy). cbn [cfg_fixed cfg_eps cfg_rel].
  unfold spec_cmp. f_equal. f_equal.
  destruct (rel_term 0 x y) eqn:Hrel; [|apply orb_false_r].
  rewrite orb_true_r. symmetry. unfold close, dist.
  rewrite (rel_zero_within_at eps x y Hok Hnx Hix Hny Hiy Heps Hrel). apply orb_true_r.
Qed.

(* the universally quantified hypotheses of C12_cmp_fixed give the pointwise check everywhere (so C12_cmp_fixed is
   the special case; nothing is lost) *)
Lemma sf_eqb_refl a : sf_eqb a a = true.
Proof.
  destruct a as [s|s| |s m e]; cbn [sf_eqb]; try reflexivity; try (destruct s; reflexivity).
  rewrite Pos.eqb_refl, Z.eqb_refl. destruct s; reflexivity.
Qed.

Lemma ieee_specs_give_ok_at : ieee_mul_spec -> ieee_abs_spec -> ieee_leb_spec -> forall eps x y, ieee_ok_at eps x y = true.
Proof.
  intros Hmul Habs Hleb eps x y.
  assert (M : forall a b, mul_ok_at a b = true) by (intros; unfold mul_ok_at; rewrite Hmul; apply sf_eqb_refl).
  assert (A : forall a, abs_ok_at a = true) by (intros; unfold abs_ok_at; rewrite Habs; apply sf_eqb_refl).
  assert (L : forall a b, leb_ok_at a b = true) by (intros; unfold leb_ok_at; rewrite Hleb; apply Bool.eqb_reflx).
  unfold ieee_ok_at. rewrite !M, !A, !L. reflexivity.
Qed.

(* value classes, decided by the kernel: a subnormal against 0 and against its neighbour, the smallest normal, 1e308
   against -1e308 (the difference overflows), the largest finite value, -0.0 against +0.0, one ulp apart at 1 and at
   1e15, tolerances 0, 1e-4, 0.5 and a subnormal tolerance *)
Definition at_samples : list (float * float * float) :=
  [ (0x1.a36e2eb1c432dp-14, 0x0.0000000000001p-1022, 0);
    (0x1.a36e2eb1c432dp-14, 0x0.0000000000001p-1022, 0x0.0000000000002p-1022);
    (0, 0x0.0000000000001p-1022, 0x0.0000000000001p-1022);
    (0x0.0000000000001p-1022, 0x0.0000000000001p-1022, 0x0.0000000000003p-1022);
    (0x1.a36e2eb1c432dp-14, 0x1p-1022, -0x1p-1022);
    (0x1.a36e2eb1c432dp-14, 0x1.1ccf385ebc8ap+1023, -0x1.1ccf385ebc8ap+1023);
    (0x1p-1, 0x1.fffffffffffffp+1023, 0x1.ffffffffffffep+1023);
    (0x1p-1, 0x1.fffffffffffffp+1023, -0x1.fffffffffffffp+1023);
    (0x1.a36e2eb1c432dp-14, -0, 0);
    (0, -0, 0);
    (0, 1, 0x1.0000000000001p+0);
    (0x1.a36e2eb1c432dp-14, 1, 0x1.0000000000001p+0);
    (0x1.a36e2eb1c432dp-14, 0x1.c6bf52634p+49, 0x1.c6bf526340001p+49);
    (0x1.a36e2eb1c432dp-14, 1, 0x1.00068db8bac71p+0) ]%float.

Example ieee_ok_at_samples :
  forallb (fun t => let '(eps, x, y) := t in
                    ieee_ok_at eps x y && f_is_finite x && f_is_finite y && PrimFloat.leb 0%float eps &&
                    negb (PrimFloat.ltb eps 0%float)) at_samples = true.
Proof. vm_compute. reflexivity. Qed.

(* ... so C12_cmp_fixed_at applies to each of them, e.g. 1e308 vs -1e308 is not "=" and is ">=" *)
Example cmp_at_extremes :
  compare_op (cfg_fixed 0x1.a36e2eb1c432dp-14%float 4) "=" 0x1.1ccf385ebc8ap+1023%float (-0x1.1ccf385ebc8ap+1023)%float
    = Ok (spec_cmp 0x1.a36e2eb1c432dp-14%float CEq 0x1.1ccf385ebc8ap+1023%float (-0x1.1ccf385ebc8ap+1023)%float)
  /\ spec_cmp 0x1.a36e2eb1c432dp-14%float CEq 0x1.1ccf385ebc8ap+1023%float (-0x1.1ccf385ebc8ap+1023)%float = false
  /\ spec_cmp 0x1.a36e2eb1c432dp-14%float CGe 0x1.1ccf385ebc8ap+1023%float (-0x1.1ccf385ebc8ap+1023)%float = true
  /\ spec_cmp 0x1.a36e2eb1c432dp-14%float CEq (-0)%float 0%float = true
  /\ spec_cmp 0%float CEq 0x0.0000000000001p-1022%float 0%float = false
  /\ spec_cmp 0x1.a36e2eb1c432dp-14%float CEq 0x0.0000000000001p-1022%float 0%float = true.
Proof.
  split; [apply (C12_cmp_fixed_at_lemma _ 4%nat CEq); vm_compute; reflexivity|]. vm_compute. repeat split; reflexivity.
Qed.
