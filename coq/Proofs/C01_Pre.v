(* C01, preconditions: PreconditionsParser.parse / construct_expression_tree of the model against the independent
   reading read_form / read_nexp.  Whenever both read a condition, the object model denotes an equivalent formula. *)
From Coq Require Import List Ascii String Bool Arith Lia PrimFloat Permutation.
From Verif Require Import Base.Result Base.Str Base.Sexp Base.PyDict Model.Types Model.Domain Model.Exec
  Spec.Pddl Spec.Grammar Spec.Faithful Proofs.C01_Defs Proofs.C01_Typed Proofs.C01_Vocab.
Import ListNotations.
Open Scope string_scope.
Open Scope list_scope.

(* ---------- equivalence of formulas ---------- *)
Lemma form_equiv_refl f : form_equiv f f.
Proof. intros eps tt objs e s. reflexivity. Qed.
Lemma form_equiv_sym f g : form_equiv f g -> form_equiv g f.
Proof. intros H eps tt objs e s. symmetry. apply H. Qed.
Lemma form_equiv_trans f g h : form_equiv f g -> form_equiv g h -> form_equiv f h.
Proof. intros H1 H2 eps tt objs e s. rewrite H1. apply H2. Qed.

(* the same conjuncts / disjuncts up to order and equivalence *)
Definition equiv_list (l target : list form) : Prop :=
  exists mid, Permutation l mid /\ Forall2 form_equiv mid target.

Lemma forallb_perm {A} (f : A -> bool) l l' : Permutation l l' -> forallb f l = forallb f l'.
Proof.
  induction 1 as [|x l l' _ IH|x y l|l l' l'' _ IH1 _ IH2]; simpl.
  - reflexivity.
  - rewrite IH. reflexivity.
  - rewrite !andb_assoc, (andb_comm (f y)). reflexivity.
  - rewrite IH1. exact IH2.
Qed.
Lemma existsb_perm {A} (f : A -> bool) l l' : Permutation l l' -> existsb f l = existsb f l'.
Proof.
  induction 1 as [|x l l' _ IH|x y l|l l' l'' _ IH1 _ IH2]; simpl.
  - reflexivity.
  - rewrite IH. reflexivity.
  - rewrite !orb_assoc, (orb_comm (f y)). reflexivity.
  - rewrite IH1. exact IH2.
Qed.

Lemma equiv_list_and l target : equiv_list l target -> form_equiv (FAnd l) (FAnd target).
Proof.
  intros (mid & Hp & Hf) eps tt objs e s. simpl. rewrite (forallb_perm _ _ _ Hp). clear Hp.
  induction Hf as [|x y xs ys Hxy _ IH]; simpl; [reflexivity|]. rewrite Hxy, IH. reflexivity.
Qed.
Lemma equiv_list_or l target : equiv_list l target -> form_equiv (FOr l) (FOr target).
Proof.
  intros (mid & Hp & Hf) eps tt objs e s. simpl. rewrite (existsb_perm _ _ _ Hp). clear Hp.
  induction Hf as [|x y xs ys Hxy _ IH]; simpl; [reflexivity|]. rewrite Hxy, IH. reflexivity.
Qed.

Lemma equiv_list_nil : equiv_list [] [].
Proof. exists []. split; constructor. Qed.

(* one more conjunct on both sides *)
Lemma equiv_list_snoc l target l1 x' x :
  equiv_list l target -> Permutation l1 (l ++ [x']) -> form_equiv x' x -> equiv_list l1 (target ++ [x]).
Proof.
  intros (mid & Hp & Hf) Hp1 Hx. exists (mid ++ [x']). split.
  - rewrite Hp1. apply Permutation_app_tail. exact Hp.
  - apply Forall2_app; [exact Hf|]. constructor; [exact Hx|constructor].
Qed.

Lemma forallb_ext' {A} (f g : A -> bool) l : (forall x, f x = g x) -> forallb f l = forallb g l.
Proof. intros H. induction l as [|x r IH]; simpl; [reflexivity|]. rewrite H, IH. reflexivity. Qed.

Lemma form_equiv_forall v ty b b' : form_equiv b b' -> form_equiv (FForall v ty b) (FForall v ty b').
Proof.
  intros H eps tt objs e s. simpl. apply forallb_ext'. intros o. apply H.
Qed.

Lemma form_equiv_and_single f : form_equiv (FAnd [f]) f.
Proof. intros eps tt objs e s. simpl. apply andb_true_r. Qed.

(* ---------- the formula list of the object model ---------- *)
Definition is_some {A} (o : option A) : bool := match o with Some _ => true | None => false end.
Definition somes {A} (l : list (option A)) : list A := flat_map (fun o => match o with Some f => [f] | None => [] end) l.

Definition parts_of (os : list mcond) (eqs neqs : list (string * string)) : list (option form) :=
  map (fun ab => Some (FEq (fst ab) (snd ab))) eqs ++
  map (fun ab => Some (FNeq (fst ab) (snd ab))) neqs ++ map denote_cond os.

Definition denote_list (p : mpre) : option (list form) :=
  match p with MPre _ os eqs neqs => all_some (parts_of os eqs neqs) end.
Definition pre_op (p : mpre) : string := match p with MPre op _ _ _ => op end.
Definition connective (op : string) (fs : list form) : form := if String.eqb op "or" then FOr fs else FAnd fs.

Lemma all_some_forallb {A} (l : list (option A)) :
  all_some l = if forallb is_some l then Some (somes l) else None.
Proof.
  induction l as [|[x|] r IH]; simpl; [reflexivity| |reflexivity].
  rewrite IH. destruct (forallb is_some r); reflexivity.
Qed.

Lemma denote_pre_unfold p :
  denote_pre p = match denote_list p with Some fs => Some (connective (pre_op p) fs) | None => None end.
Proof.
  destruct p as [op os eqs neqs]. unfold denote_list, parts_of. rewrite all_some_forallb.
  cbn [denote_pre pre_op].
  assert (Hgo : forall l, (fix go (l : list mcond) : list (option form) :=
                             match l with [] => [] | c :: r => denote_cond c :: go r end) l = map denote_cond l).
  { induction l as [|c r IH]; [reflexivity|]. simpl. rewrite IH. reflexivity. }
  rewrite Hgo. unfold is_some, somes, connective. destruct (forallb _ _); reflexivity.
Qed.

Lemma all_some_app {A} (a b : list (option A)) :
  all_some (a ++ b) = match all_some a, all_some b with Some x, Some y => Some (x ++ y) | _, _ => None end.
Proof.
  induction a as [|[x|] r IH]; simpl.
  - destruct (all_some b); reflexivity.
  - rewrite IH. destruct (all_some r), (all_some b); reflexivity.
  - reflexivity.
Qed.

Lemma all_some_map_some {A B} (f : A -> B) l : all_some (map (fun a => Some (f a)) l) = Some (map f l).
Proof. induction l as [|x r IH]; simpl; [reflexivity|]. rewrite IH. reflexivity. Qed.

(* adding one part *)
Lemma denote_list_add_operand c root fr x :
  denote_list root = Some fr -> denote_cond c = Some x ->
  denote_list (add_operand c root) = Some (fr ++ [x]).
Proof.
  destruct root as [op os eqs neqs]. unfold denote_list, parts_of, add_operand.
  rewrite !all_some_app, !all_some_map_some, map_app, all_some_app. simpl.
  destruct (all_some (map denote_cond os)) as [l|]; [|discriminate].
  intros H Hc. injection H as <-. rewrite Hc. rewrite !app_assoc. reflexivity.
Qed.

Lemma denote_list_add_eq a b root fr :
  denote_list root = Some fr ->
  exists fr1, denote_list (add_eq (a, b) root) = Some fr1 /\ Permutation fr1 (fr ++ [FEq a b]).
Proof.
  destruct root as [op os eqs neqs]. unfold denote_list, parts_of, add_eq.
  rewrite !all_some_app, !all_some_map_some, map_app.
  destruct (all_some (map denote_cond os)) as [l|]; [|discriminate].
  intros H. injection H as <-. eexists. split; [reflexivity|]. simpl.
  rewrite <- !app_assoc. apply Permutation_app_head. simpl.
  rewrite app_assoc. apply Permutation_cons_append.
Qed.

Lemma denote_list_add_neq a b root fr :
  denote_list root = Some fr ->
  exists fr1, denote_list (add_neq (a, b) root) = Some fr1 /\ Permutation fr1 (fr ++ [FNeq a b]).
Proof.
  destruct root as [op os eqs neqs]. unfold denote_list, parts_of, add_neq.
  rewrite !all_some_app, !all_some_map_some, map_app.
  destruct (all_some (map denote_cond os)) as [l|]; [|discriminate].
  intros H. injection H as <-. eexists. split; [reflexivity|]. simpl.
  rewrite <- !app_assoc. apply Permutation_app_head. apply Permutation_app_head. simpl.
  apply Permutation_cons_append.
Qed.

Lemma pre_op_add_operand c root : pre_op (add_operand c root) = pre_op root.
Proof. destruct root; reflexivity. Qed.
Lemma pre_op_add_eq pr root : pre_op (add_eq pr root) = pre_op root.
Proof. destruct root; reflexivity. Qed.
Lemma pre_op_add_neq pr root : pre_op (add_neq pr root) = pre_op root.
Proof. destruct root; reflexivity. Qed.

(* ---------- operators ---------- *)
Lemma binop_of_read s : binop_of s = read_binop s.
Proof. reflexivity. Qed.
Lemma cmpop_of_read s : cmpop_of s = read_cmpop s.
Proof. reflexivity. Qed.
Lemma assignop_of_read s : assignop_of s = read_assignop s.
Proof. reflexivity. Qed.

Lemma numeric_ops_binop h : str_in h numeric_ops = true <-> read_binop h <> None.
Proof.
  unfold numeric_ops, read_binop. simpl.
  destruct (String.eqb h "+"), (String.eqb h "-"), (String.eqb h "*"), (String.eqb h "/"); simpl;
    split; congruence.
Qed.

Lemma numeric_ops_binop_false h : str_in h numeric_ops = false -> read_binop h = None.
Proof.
  intros H. destruct (read_binop h) eqn:E; [|reflexivity].
  assert (Hn : read_binop h <> None) by congruence. apply numeric_ops_binop in Hn. congruence.
Qed.

(* ---------- numeric terms ---------- *)
Section Trees.
  Variable num : numparser.
  Variable funcs : pydict signature.               (* the table the parser consults *)
  Hypothesis Hfkey : forall f sg, dget funcs f = Some sg -> str_in f keywords = false.

  Lemma read_nexp_app h args :
    read_binop h = None -> str_in h keywords = false ->
    read_nexp num (SList (Atom h :: args)) =
    match atom_names args with Some names => Some (NFl h names) | None => None end.
  Proof.
    intros Hb Hk. destruct args as [|a [|b [|c r]]]; cbn [read_nexp]; rewrite ?Hb, ?Hk; reflexivity.
  Qed.

  Lemma all_atoms_atom_names l : all_atoms l = true <-> atom_names l <> None.
  Proof.
    induction l as [|[s|sub] r IH].
    - split; [discriminate|reflexivity].
    - rewrite atom_names_cons_atom. simpl. rewrite IH. destruct (atom_names r); split; congruence.
    - simpl. split; [discriminate|]. rewrite atom_names_cons_list. congruence.
  Qed.

  Lemma construct_faithful : forall fuel e t n,
    construct num funcs fuel e = Ok t -> read_nexp num e = Some n -> denote_tree t = Some n.
  Proof.
    induction fuel as [|fu IH]; intros e t n Hc Hr; [discriminate|].
    destruct e as [s|l]; cbn [construct] in Hc.
    - unfold leaf_number in Hc. destruct (str_in s legal_numerical); [discriminate|].
      simpl in Hr. destruct (num s) as [x|]; [|discriminate]. injection Hc as <-. injection Hr as <-. reflexivity.
    - destruct (all_atoms l) eqn:Ea.
      + destruct l as [|[h|sub] args]; try discriminate.
        destruct (str_in h numeric_ops) eqn:Eop.
        * destruct args as [|[a|sa] [|[b|sb] [|c r]]]; try discriminate.
          destruct (num a) as [x|] eqn:Ena; [|discriminate]. destruct (num b) as [y|] eqn:Enb; [|discriminate].
          injection Hc as <-. apply numeric_ops_binop in Eop.
          simpl in Hr. destruct (read_binop h) as [o|] eqn:Eo; [|congruence].
          rewrite Ena, Enb in Hr. injection Hr as <-.
          simpl. rewrite binop_of_read, Eo. reflexivity.
        * destruct (dget funcs h) as [sg|] eqn:Ef; [|discriminate].
          destruct (atoms_of args) as [args'|k] eqn:Eargs; simpl in Hc; [|discriminate].
          rewrite read_nexp_app in Hr by (eauto using numeric_ops_binop_false).
          rewrite (atoms_of_atom_names _ _ Eargs) in Hr. injection Hr as <-.
          destruct (negb _); [discriminate|]. destruct (has_dup _); [discriminate|].
          injection Hc as <-. reflexivity.
      + destruct l as [|[h|sub] [|a [|b [|c r]]]]; try discriminate.
        destruct (construct num funcs fu a) as [ta|] eqn:Eta; simpl in Hc; [|discriminate].
        destruct (construct num funcs fu b) as [tb|] eqn:Etb; simpl in Hc; [|discriminate].
        injection Hc as <-. cbn [read_nexp] in Hr.
        destruct (read_binop h) as [o|] eqn:Eo.
        * destruct (read_nexp num a) as [x|] eqn:Ex; [|discriminate].
          destruct (read_nexp num b) as [y|] eqn:Ey; [|discriminate]. injection Hr as <-.
          simpl. rewrite binop_of_read, Eo, (IH _ _ _ Eta Ex), (IH _ _ _ Etb Ey). reflexivity.
        * exfalso. destruct (str_in h keywords); [discriminate|].
          destruct (atom_names [a; b]) eqn:Eab; [|discriminate].
          assert (Hall : all_atoms [a; b] = true) by (apply all_atoms_atom_names; congruence).
          simpl in Ea, Hall. rewrite Hall in Ea. discriminate.
  Qed.
End Trees.

(* ---------- the independent reading, one head at a time ---------- *)
Section ReadForm.
  Variable num : numreader.

  Lemma read_form_go args :
    (fix go (l : list sexp) : list (option form) :=
       match l with [] => [] | x :: r => read_form num x :: go r end) args = map (read_form num) args.
  Proof. induction args as [|x r IH]; [reflexivity|]. simpl. rewrite IH. reflexivity. Qed.

  Lemma read_form_and args :
    read_form num (SList (Atom "and" :: args)) =
    match all_some (map (read_form num) args) with Some fs => Some (FAnd fs) | None => None end.
  Proof. cbn [read_form]. rewrite String.eqb_refl, read_form_go. reflexivity. Qed.

  Lemma read_form_or args :
    read_form num (SList (Atom "or" :: args)) =
    match all_some (map (read_form num) args) with Some fs => Some (FOr fs) | None => None end.
  Proof. cbn [read_form]. change (String.eqb "or" "and") with false. rewrite String.eqb_refl, read_form_go. reflexivity. Qed.

  (* the 'not' branch with the literal "=" spelled as a test *)
  Definition read_not (args : list sexp) : option form :=
    match args with
    | [SList (Atom p :: pargs)] =>
        if String.eqb p "=" then
          match pargs with [Atom a; Atom b] => Some (FNeq a b) | _ => None end
        else if str_in p keywords then None
        else match atom_names pargs with Some names => Some (FNotAtom p names) | None => None end
    | _ => None
    end.

  Lemma read_form_not args : read_form num (SList (Atom "not" :: args)) = read_not args.
  Proof.
    cbn [read_form]. change (String.eqb "not" "and") with false. change (String.eqb "not" "or") with false.
    rewrite String.eqb_refl. cbn iota.
    destruct args as [|[s|[|[p|sub] pargs]] [|x r]]; try reflexivity.
    - unfold read_not. destruct (String.eqb p "=") eqn:Ep.
      + apply String.eqb_eq in Ep. subst p.
        destruct pargs as [|[a|sa] [|[b|sb] [|c r]]]; reflexivity.
      + apply String.eqb_neq in Ep.
        destruct p as [|[[|] [|] [|] [|] [|] [|] [|] [|]] [|c p]]; try reflexivity.
        exfalso. apply Ep. reflexivity.
    - unfold read_not.
      destruct p as [|[[|] [|] [|] [|] [|] [|] [|] [|]] [|c p]]; try reflexivity.
      destruct pargs as [|[a|sa] [|[b|sb] [|c q]]]; reflexivity.
  Qed.

  Definition read_forall (args : list sexp) : option form :=
    match args with
    | [SList [Atom v; Atom d; Atom ty]; body] =>
        if String.eqb d "-" then
          match read_form num body with Some f => Some (FForall v ty f) | None => None end
        else None
    | _ => None
    end.

  Lemma read_form_forall args : read_form num (SList (Atom "forall" :: args)) = read_forall args.
  Proof.
    cbn [read_form]. change (String.eqb "forall" "and") with false. change (String.eqb "forall" "or") with false.
    change (String.eqb "forall" "not") with false. rewrite String.eqb_refl. cbn iota.
    destruct args as [|[s|[|[v|sv] [|[d|sd] [|[ty|sty] [|x q]]]]] [|body [|y r]]]; try reflexivity.
    all: unfold read_forall; destruct (String.eqb d "-") eqn:Ed;
      [ apply String.eqb_eq in Ed; subst d; reflexivity
      | apply String.eqb_neq in Ed;
        destruct d as [|[[|] [|] [|] [|] [|] [|] [|] [|]] [|c d]]; try reflexivity;
        exfalso; apply Ed; reflexivity ].
  Qed.

  (* any other head: a comparison, an object equality, or an atom *)
  Definition read_other (h : string) (args : list sexp) : option form :=
    match read_cmpop h, args with
    | Some CEq, [Atom a; Atom b] =>
        match num a, num b with
        | Some x, Some y => Some (FCmp CEq (NNum x) (NNum y))
        | _, _ => Some (FEq a b)
        end
    | Some c, [l; r] =>
        match read_nexp num l, read_nexp num r with
        | Some x, Some y => Some (FCmp c x y)
        | _, _ => None
        end
    | Some _, _ => None
    | None, _ =>
        if str_in h keywords then None
        else match atom_names args with Some names => Some (FAtom h names) | None => None end
    end.

  Lemma read_form_other h args :
    String.eqb h "and" = false -> String.eqb h "or" = false -> String.eqb h "not" = false ->
    String.eqb h "forall" = false ->
    read_form num (SList (Atom h :: args)) = read_other h args.
  Proof. intros H1 H2 H3 H4. cbn [read_form]. rewrite H1, H2, H3, H4. reflexivity. Qed.
End ReadForm.

(* ---------- keywords ---------- *)
Lemma not_keyword_heads h :
  str_in h keywords = false ->
  String.eqb h "and" = false /\ String.eqb h "or" = false /\ String.eqb h "not" = false /\
  String.eqb h "forall" = false /\ String.eqb h "when" = false /\ String.eqb h "=" = false /\
  read_cmpop h = None /\ read_binop h = None /\ read_assignop h = None /\ str_in h comparison_ops = false.
Proof.
  unfold keywords, read_cmpop, read_binop, read_assignop, comparison_ops. simpl. intros H.
  repeat (apply orb_false_iff in H; destruct H as [?E H]).
  rewrite ?E, ?E0, ?E1, ?E2, ?E3, ?E4, ?E5, ?E6, ?E7, ?E8, ?E9, ?E10, ?E11, ?E12, ?E13, ?E14, ?E15, ?E16, ?E17, ?E18, ?E19, ?E20.
  simpl. repeat split; reflexivity.
Qed.

(* ---------- PreconditionsParser.parse ---------- *)
Section ParsePre.
  Variable num : numparser.
  Variable tt : typetable.
  Variable consts : pydict string.
  Variable preds : pydict signature.
  Variable funcs : pydict signature.
  Hypothesis Hfkey : forall f sg, dget funcs f = Some sg -> str_in f keywords = false.
  Hypothesis Hpkey : forall p, dmem preds p = true -> str_in p keywords = false.

  Notation parse_pre' := (parse_pre num tt consts preds funcs).

  (* what the parser does with one node whose head is h (the body of the loop, verbatim) *)
  Definition node_step (fu : nat) (sg : signature) (root : mpre) (node : sexp) (h : string) : result mpre :=
    if String.eqb h "and" || String.eqb h "or" then
      match node with
      | SList (_ :: subs) =>
          do nested <- parse_pre' fu sg (MPre h [] [] []) subs;
          Ok (add_operand (MNested nested) root)
      | _ => Err EType
      end
    else if dmem preds h then
      do l <- parse_untyped_predicate sg consts true node;
      Ok (add_operand (MLit true (l_name l) (l_args l)) root)
    else if String.eqb h "not" then
      match node with
      | SList (_ :: inner :: _) =>
          do ih <- head_of inner;
          if String.eqb ih "=" then
            match inner with
            | SList (_ :: Atom a :: Atom b :: _) => Ok (add_neq (a, b) root)
            | SList (_ :: _ :: _ :: _) => Err EType
            | _ => Err EIndex
            end
          else
            do l <- parse_untyped_predicate sg consts false inner;
            Ok (add_operand (MLit false (l_name l) (l_args l)) root)
      | _ => Err EIndex
      end
    else if String.eqb h "=" then
      match node with
      | SList (_ :: SList _ :: _) =>
          do t <- construct num funcs (tree_fuel node) node; Ok (add_operand (MNum t) root)
      | SList (_ :: Atom a :: Atom b :: _) => Ok (add_eq (a, b) root)
      | SList (_ :: Atom _ :: SList _ :: _) => Err EType
      | _ => Err EIndex
      end
    else if str_in h comparison_ops then
      do t <- construct num funcs (tree_fuel node) node; Ok (add_operand (MNum t) root)
    else if String.eqb h "forall" then
      match node with
      | SList (_ :: SList [Atom v; _; Atom ty] :: body :: _) =>
          do bh <- head_of body;
          if negb (String.eqb bh "and" || String.eqb bh "or") then Err ESyntax
          else if negb (type_known tt ty) then Err EKey
          else
            match body with
            | SList (_ :: subs) =>
                do u <- parse_pre' fu (dset sg v ty) (MPre bh [] [] []) subs;
                Ok (add_operand (MUniv v ty u) root)
            | _ => Err EType
            end
      | SList (_ :: SList [_; _; _] :: _ :: _) => Err EType
      | SList (_ :: SList _ :: _ :: _) => Err ESyntax
      | _ => Err EIndex
      end
    else Err ESyntax.

  Lemma parse_pre_cons fu sg root node rest :
    parse_pre' (S fu) sg root (node :: rest) =
    (do h <- head_of node; do root' <- node_step fu sg root node h; parse_pre' fu sg root' rest).
  Proof. reflexivity. Qed.

  Lemma parse_pre_nil fu sg root : parse_pre' (S fu) sg root [] = Ok root.
  Proof. reflexivity. Qed.

  (* parse_untyped_predicate returns the literal as written *)
  Lemma parse_untyped_predicate_ok sg pos e l :
    parse_untyped_predicate sg consts pos e = Ok l ->
    exists n args names, e = SList (Atom n :: args) /\ atom_names args = Some names /\
                         l = {| l_pos := pos; l_name := n; l_args := names |}.
  Proof.
    destruct e as [s|[|[n|sub] args]]; simpl; try discriminate.
    destruct (atoms_of args) as [names|k] eqn:Ea; simpl; [|discriminate].
    destruct (negb _); [discriminate|]. destruct (has_dup names); [discriminate|].
    intros H. injection H as <-. exists n, args, names. repeat split. apply atoms_of_atom_names. exact Ea.
  Qed.

  Definition pre_statement (fuel : nat) : Prop :=
    forall sg root nodes r fs fr,
      parse_pre' fuel sg root nodes = Ok r ->
      all_some (map (read_form num) nodes) = Some fs ->
      forallb (form_ok) fs = true ->
      denote_list root = Some fr ->
      exists fr', denote_list r = Some fr' /\ pre_op r = pre_op root /\
                  exists fs', Permutation fr' (fr ++ fs') /\ Forall2 form_equiv fs' fs.

  (* a nested and/or, or the body of a forall: a fresh root with connective h *)
  Lemma nested_faithful fu sg h subs nested g :
    pre_statement fu ->
    String.eqb h "and" || String.eqb h "or" = true ->
    parse_pre' fu sg (MPre h [] [] []) subs = Ok nested ->
    read_form num (SList (Atom h :: subs)) = Some g ->
    form_ok g = true ->
    exists x', denote_pre nested = Some x' /\ form_equiv x' g.
  Proof.
    intros IH Hh Hp Hr Hok.
    assert (Hg : exists gs, all_some (map (read_form num) subs) = Some gs /\ forallb (form_ok) gs = true /\
                            g = connective h gs).
    { apply orb_true_iff in Hh as [Hh|Hh]; apply String.eqb_eq in Hh; subst h.
      - rewrite read_form_and in Hr. destruct (all_some (map (read_form num) subs)) as [gs|]; [|discriminate].
        injection Hr as <-. exists gs. repeat split. exact Hok.
      - rewrite read_form_or in Hr. destruct (all_some (map (read_form num) subs)) as [gs|]; [|discriminate].
        injection Hr as <-. exists gs. repeat split. exact Hok. }
    destruct Hg as (gs & Hgs & Hoks & ->).
    destruct (IH sg (MPre h [] [] []) subs nested gs [] Hp Hgs Hoks eq_refl) as (frn & Hd & Hop & fs' & Hperm & Hf2).
    rewrite denote_pre_unfold, Hd, Hop. simpl pre_op. eexists. split; [reflexivity|].
    assert (Heq : equiv_list frn gs) by (exists fs'; split; [exact Hperm|exact Hf2]).
    unfold connective. destruct (String.eqb h "or"); [apply equiv_list_or|apply equiv_list_and]; exact Heq.
  Qed.

  Lemma cmp_is_keyword h c :
    read_cmpop h = Some c -> str_in h keywords = true /\ str_in h numeric_ops = false /\
    String.eqb h "and" = false /\ String.eqb h "or" = false /\ String.eqb h "not" = false /\
    String.eqb h "forall" = false.
  Proof.
    unfold read_cmpop. intros H.
    destruct (String.eqb h "=") eqn:E1; [apply String.eqb_eq in E1; subst h; repeat split|].
    destruct (String.eqb h "<=") eqn:E2; [apply String.eqb_eq in E2; subst h; repeat split|].
    destruct (String.eqb h ">=") eqn:E3; [apply String.eqb_eq in E3; subst h; repeat split|].
    destruct (String.eqb h "<") eqn:E4; [apply String.eqb_eq in E4; subst h; repeat split|].
    destruct (String.eqb h ">") eqn:E5; [apply String.eqb_eq in E5; subst h; repeat split|].
    discriminate.
  Qed.

  (* a comparison node (c l r) with a non-atomic operand, or over declared functions *)
  Lemma cmp_node_faithful h l r t c x y :
    construct num funcs (tree_fuel (SList [Atom h; l; r])) (SList [Atom h; l; r]) = Ok t ->
    read_cmpop h = Some c -> read_nexp num l = Some x -> read_nexp num r = Some y ->
    denote_cmp t = Some (FCmp c x y).
  Proof.
    intros Hc Hcmp Hx Hy. unfold tree_fuel in Hc.
    remember (size (SList [Atom h; l; r])) as fu0 eqn:Efu. clear Efu. cbn [construct] in Hc.
    destruct (cmp_is_keyword h c Hcmp) as (Hk & Hn & _).
    destruct (all_atoms [Atom h; l; r]) eqn:Ea.
    - rewrite Hn in Hc. destruct (dget funcs h) as [sg|] eqn:Ef; [|discriminate].
      rewrite (Hfkey _ _ Ef) in Hk. discriminate.
    - destruct (construct num funcs fu0 l) as [ta|] eqn:Eta; cbn [bind] in Hc; [|discriminate].
      destruct (construct num funcs fu0 r) as [tb|] eqn:Etb; cbn [bind] in Hc; [|discriminate].
      injection Hc as <-. simpl. rewrite cmpop_of_read, Hcmp.
      rewrite (construct_faithful num funcs Hfkey _ _ _ _ Eta Hx).
      rewrite (construct_faithful num funcs Hfkey _ _ _ _ Etb Hy). reflexivity.
  Qed.

  Lemma node_step_faithful fu sg root h args root' f fr :
    pre_statement fu ->
    node_step fu sg root (SList (Atom h :: args)) h = Ok root' ->
    read_form num (SList (Atom h :: args)) = Some f ->
    form_ok f = true ->
    denote_list root = Some fr ->
    exists fr1 x', denote_list root' = Some fr1 /\ pre_op root' = pre_op root /\
                   Permutation fr1 (fr ++ [x']) /\ form_equiv x' f.
  Proof.
    intros IH Hs Hr Hok Hd. unfold node_step in Hs.
    destruct (String.eqb h "and" || String.eqb h "or") eqn:Eao.
    { (* nested and / or *)
      destruct (parse_pre' fu sg (MPre h [] [] []) args) as [nested|] eqn:En; simpl in Hs; [|discriminate].
      injection Hs as <-.
      destruct (nested_faithful fu sg h args nested f IH Eao En Hr Hok) as (x' & Hx & Hxe).
      exists (fr ++ [x']), x'. split; [apply denote_list_add_operand; [exact Hd|exact Hx]|].
      split; [apply pre_op_add_operand|]. split; [apply Permutation_refl|exact Hxe]. }
    apply orb_false_iff in Eao as [Eand Eor].
    destruct (dmem preds h) eqn:Ep.
    { (* a positive literal over a declared predicate *)
      destruct (parse_untyped_predicate sg consts true (SList (Atom h :: args))) as [l|] eqn:El; simpl in Hs;
        [|discriminate].
      injection Hs as <-.
      destruct (parse_untyped_predicate_ok _ _ _ _ El) as (n & args0 & names & Hnode & Hnames & ->).
      injection Hnode as <- <-.
      destruct (not_keyword_heads h (Hpkey h Ep)) as (_ & _ & Hnot & Hforall & _ & _ & Hcmp & _).
      rewrite read_form_other in Hr by assumption. unfold read_other in Hr.
      rewrite Hcmp, (Hpkey h Ep), Hnames in Hr. injection Hr as <-.
      exists (fr ++ [FAtom h names]), (FAtom h names).
      split; [apply denote_list_add_operand; [exact Hd|reflexivity]|].
      split; [apply pre_op_add_operand|]. split; [apply Permutation_refl|apply form_equiv_refl]. }
    destruct (String.eqb h "not") eqn:Enot.
    { apply String.eqb_eq in Enot. subst h. rewrite read_form_not in Hr. unfold read_not in Hr.
      destruct args as [|[s|[|[p|sub] pargs]] [|x q]]; try discriminate Hr.
      cbn [head_of bind] in Hs.
      destruct (String.eqb p "=") eqn:Epeq.
      - destruct pargs as [|[a|sa] [|[b|sb] [|c q]]]; try discriminate Hr. injection Hr as <-.
        injection Hs as <-.
        destruct (denote_list_add_neq a b root fr Hd) as (fr1 & Hd1 & Hp1).
        exists fr1, (FNeq a b). split; [exact Hd1|]. split; [apply pre_op_add_neq|].
        split; [exact Hp1|apply form_equiv_refl].
      - destruct (str_in p keywords) eqn:Epk; [discriminate|].
        destruct (atom_names pargs) as [names|] eqn:Enames; [|discriminate]. injection Hr as <-.
        destruct (parse_untyped_predicate sg consts false (SList (Atom p :: pargs))) as [l|] eqn:El; simpl in Hs;
          [|discriminate].
        injection Hs as <-.
        destruct (parse_untyped_predicate_ok _ _ _ _ El) as (n & args0 & names0 & Hnode & Hnames0 & ->).
        injection Hnode as <- <-. rewrite Enames in Hnames0. injection Hnames0 as <-.
        exists (fr ++ [FNotAtom p names]), (FNotAtom p names).
        split; [apply denote_list_add_operand; [exact Hd|reflexivity]|].
        split; [apply pre_op_add_operand|]. split; [apply Permutation_refl|apply form_equiv_refl]. }
    destruct (String.eqb h "=") eqn:Eeq.
    { apply String.eqb_eq in Eeq. subst h.
      rewrite read_form_other in Hr by reflexivity. unfold read_other in Hr.
      change (read_cmpop "=") with (Some CEq) in Hr.
      destruct args as [|[a|l0] rest].
      - discriminate Hs.
      - destruct rest as [|[b|l1] rest']; try discriminate Hs.
        destruct rest' as [|z zs]; [|discriminate Hr].
        injection Hs as <-.
        assert (Hf : f = FEq a b).
        { destruct (num a) as [x|]; [destruct (num b) as [y|]|].
          - injection Hr as <-. discriminate Hok.
          - injection Hr as <-. reflexivity.
          - injection Hr as <-. reflexivity. }
        subst f.
        destruct (denote_list_add_eq a b root fr Hd) as (fr1 & Hd1 & Hp1).
        exists fr1, (FEq a b). split; [exact Hd1|]. split; [apply pre_op_add_eq|].
        split; [exact Hp1|apply form_equiv_refl].
      - destruct rest as [|r0 [|z zs]]; try discriminate Hr.
        destruct (read_nexp num (SList l0)) as [x|] eqn:Ex; [|discriminate Hr].
        destruct (read_nexp num r0) as [y|] eqn:Ey; [|discriminate Hr]. injection Hr as <-.
        destruct (construct num funcs _ _) as [t|] eqn:Et; simpl in Hs; [|discriminate]. injection Hs as <-.
        pose proof (cmp_node_faithful "=" (SList l0) r0 t CEq x y Et eq_refl Ex Ey) as Hden.
        exists (fr ++ [FCmp CEq x y]), (FCmp CEq x y).
        split; [apply denote_list_add_operand; [exact Hd|exact Hden]|].
        split; [apply pre_op_add_operand|]. split; [apply Permutation_refl|apply form_equiv_refl]. }
    destruct (str_in h comparison_ops) eqn:Ecmp.
    { assert (Hc : exists c, read_cmpop h = Some c).
      { unfold comparison_ops in Ecmp. simpl in Ecmp. unfold read_cmpop. rewrite Eeq.
        destruct (String.eqb h "<="); [eauto|]. destruct (String.eqb h ">="); [eauto|].
        destruct (String.eqb h ">"); [destruct (String.eqb h "<"); eauto|].
        destruct (String.eqb h "<"); [eauto|discriminate]. }
      destruct Hc as [c Hc].
      assert (Hne : c <> CEq).
      { intros ->. unfold read_cmpop in Hc. rewrite Eeq in Hc.
        destruct (String.eqb h "<="); [discriminate|]. destruct (String.eqb h ">="); [discriminate|].
        destruct (String.eqb h "<"); [discriminate|]. destruct (String.eqb h ">"); discriminate. }
      destruct (cmp_is_keyword h c Hc) as (_ & _ & Hka & Hko & Hkn & Hkf).
      rewrite read_form_other in Hr by assumption. unfold read_other in Hr. rewrite Hc in Hr.
      assert (Hargs : exists l r x y, args = [l; r] /\ read_nexp num l = Some x /\ read_nexp num r = Some y /\
                                      f = FCmp c x y).
      { destruct c; try congruence;
          (destruct args as [|l [|r [|z zs]]]; try discriminate Hr;
           destruct (read_nexp num l) as [x|] eqn:Ex; [|discriminate Hr];
           destruct (read_nexp num r) as [y|] eqn:Ey; [|discriminate Hr];
           injection Hr as <-; exists l, r, x, y; repeat split; assumption). }
      destruct Hargs as (l & r & x & y & -> & Ex & Ey & ->).
      destruct (construct num funcs _ _) as [t|] eqn:Et; simpl in Hs; [|discriminate]. injection Hs as <-.
      pose proof (cmp_node_faithful h l r t c x y Et Hc Ex Ey) as Hden.
      exists (fr ++ [FCmp c x y]), (FCmp c x y).
      split; [apply denote_list_add_operand; [exact Hd|exact Hden]|].
      split; [apply pre_op_add_operand|]. split; [apply Permutation_refl|apply form_equiv_refl]. }
    destruct (String.eqb h "forall") eqn:Efa; [|discriminate].
    apply String.eqb_eq in Efa. subst h. rewrite read_form_forall in Hr. unfold read_forall in Hr.
    destruct args as [|[s|[|[v|sv] [|[d|sd] [|[ty|sty] [|x q]]]]] [|body [|y r]]]; try discriminate Hr.
    destruct (String.eqb d "-"); [|discriminate].
    destruct (read_form num body) as [g|] eqn:Eg; [|discriminate]. injection Hr as <-.
    destruct body as [s|[|[bh|sub] subs]]; try discriminate Eg.
    cbn [head_of bind] in Hs.
    destruct (String.eqb bh "and" || String.eqb bh "or") eqn:Ebh; [|discriminate].
    cbn [negb] in Hs. destruct (negb (type_known tt ty)); [discriminate|].
    destruct (parse_pre' fu (dset sg v ty) (MPre bh [] [] []) subs) as [u|] eqn:Eu; simpl in Hs; [|discriminate].
    injection Hs as <-.
    destruct (nested_faithful fu _ bh subs u g IH Ebh Eu Eg Hok) as (x' & Hx & Hxe).
    exists (fr ++ [FForall v ty x']), (FForall v ty x').
    split; [apply denote_list_add_operand; [exact Hd|cbn [denote_cond]; rewrite Hx; reflexivity]|].
    split; [apply pre_op_add_operand|]. split; [apply Permutation_refl|apply form_equiv_forall; exact Hxe].
  Qed.

  Theorem parse_pre_faithful : forall fuel, pre_statement fuel.
  Proof.
    induction fuel as [|fu IH]; intros sg root nodes r fs fr Hp Hr Hok Hd; [discriminate|].
    destruct nodes as [|node rest].
    - rewrite parse_pre_nil in Hp. injection Hp as <-. simpl in Hr. injection Hr as <-.
      exists fr. split; [exact Hd|]. split; [reflexivity|]. exists []. split; [|constructor].
      rewrite app_nil_r. apply Permutation_refl.
    - rewrite parse_pre_cons in Hp.
      simpl map in Hr. rewrite all_some_cons in Hr. destruct (read_form num node) as [f|] eqn:Ef; [|discriminate].
      destruct (all_some (map (read_form num) rest)) as [fs0|] eqn:Efs; [|discriminate]. injection Hr as <-.
      simpl in Hok. apply andb_true_iff in Hok as [Hokf Hokr].
      destruct node as [s|[|[h|sub] args]]; try (simpl in Ef; discriminate Ef).
      cbn [head_of bind] in Hp.
      destruct (node_step fu sg root (SList (Atom h :: args)) h) as [root'|] eqn:Es; cbn [bind] in Hp; [|discriminate].
      destruct (node_step_faithful fu sg root h args root' f fr IH Es Ef Hokf Hd) as (fr1 & x' & Hd1 & Hop1 & Hp1 & Hx).
      destruct (IH sg root' rest r fs0 fr1 Hp Efs Hokr Hd1) as (fr' & Hd' & Hop' & fs' & Hperm & Hf2).
      exists fr'. split; [exact Hd'|]. split; [congruence|]. exists (x' :: fs'). split.
      + rewrite Hperm, Hp1, <- app_assoc. reflexivity.
      + constructor; assumption.
  Qed.

  (* ---------- DomainParser.parse_preconditions ---------- *)
  Lemma parse_preconditions_other sg h args :
    String.eqb h "and" = false ->
    parse_preconditions num tt consts preds funcs sg (SList (Atom h :: args)) =
    if Nat.ltb 1 (List.length args) then Err ESyntax
    else parse_pre' (S (S (size (SList (Atom h :: args))))) sg empty_pre [SList (Atom h :: args)].
  Proof.
    intros Hne. cbn [parse_preconditions].
    repeat (destruct h as [|[[|] [|] [|] [|] [|] [|] [|] [|]] h]; try reflexivity).
    discriminate Hne.
  Qed.

  Theorem parse_preconditions_faithful sg e p f :
    parse_preconditions num tt consts preds funcs sg e = Ok p ->
    read_precondition num e = Some f ->
    form_ok f = true ->
    exists f', denote_pre p = Some f' /\ form_equiv f' f.
  Proof.
    intros Hp Hr Hok. destruct e as [s|l]; [discriminate|].
    destruct l as [|hd args].
    - injection Hp as <-. injection Hr as <-. exists (FAnd []). split; [reflexivity|apply form_equiv_refl].
    - cbn [read_precondition] in Hr.
      destruct hd as [h|sub]; [|simpl in Hr; discriminate].
      destruct (String.eqb h "and") eqn:Eand.
      + apply String.eqb_eq in Eand. subst h. cbn [parse_preconditions] in Hp.
        destruct (nested_faithful _ sg "and" args p f (parse_pre_faithful _) eq_refl Hp Hr Hok) as (x' & Hx & Hxe).
        exists x'. split; assumption.
      + assert (Hp' : parse_pre' (S (S (size (SList (Atom h :: args))))) sg empty_pre [SList (Atom h :: args)] = Ok p).
        { rewrite parse_preconditions_other in Hp by exact Eand.
          destruct (Nat.ltb 1 (List.length args)); [discriminate|exact Hp]. }
        destruct (parse_pre_faithful _ sg empty_pre [SList (Atom h :: args)] p [f] [] Hp')
          as (fr' & Hd' & Hop' & fs' & Hperm & Hf2).
        * cbn [map]. rewrite all_some_cons, Hr. reflexivity.
        * simpl. rewrite Hok. reflexivity.
        * reflexivity.
        * rewrite denote_pre_unfold, Hd', Hop'. simpl. eexists. split; [reflexivity|].
          eapply form_equiv_trans; [|apply form_equiv_and_single].
          apply equiv_list_and. exists fs'. split; assumption.
  Qed.
End ParsePre.
