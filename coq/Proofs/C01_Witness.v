(* C01: concrete domains.  (1) the hypotheses of the theorems are satisfiable by a non-trivial text;
   (2) witnesses of the recorded deviations D45 (trailing untyped constants dropped) and D47 ('(f)' for a function
   declared with parameters silently reads the declaration's own parameter), computed on the model and replayed
   on the implementation by the check (findings.d/C01.json). *)
From Coq Require Import List Ascii String Bool Arith Lia PrimFloat.
From Verif Require Import Base.Result Base.Str Base.Sexp Base.PyDict Model.Tokenizer Model.Types Model.Domain
  Model.Exec Spec.Pddl Spec.Grammar Spec.Faithful Proofs.C01_Defs Proofs.C01_Action Proofs.C01_Domain.
Import ListNotations.
Open Scope string_scope.
Open Scope list_scope.

(* float(token) on the numerals used below *)
Definition num_tab : numparser :=
  fun s => lookup s [("0", 0%float); ("1", 1%float); ("2", 2%float); ("0.5", 0x1p-1%float); ("10", 10%float)].

Definition text_sexp (s : string) : sexp :=
  match parse_string MStr s with Ok e => e | Err _ => Atom "" end.

(* ---------- a non-trivial domain inside the supported fragment ---------- *)
(* types declared child before parent, a parent-only type, constants, grouped and untyped parameters,
   or / not / = / forall / comparison in preconditions, add / del / increase / when / forall-when effects *)
Definition example_text : string :=
  "(define (domain depot) (:requirements :typing :fluents)
     (:types truck - vehicle  vehicle place - thing  crate)
     (:constants hq - place  t0 - truck)
     (:predicates (at ?v - vehicle ?p - place) (in ?c - crate ?v - vehicle) (clear ?p) (busy))
     (:functions (load ?v - vehicle) (cost))
     (:action drive :parameters (?v - truck ?from ?to - place)
        :precondition (and (at ?v ?from) (not (= ?from ?to)) (or (clear ?to) (= ?to hq))
                           (forall (?c - crate) (or (not (in ?c ?v)) (<= (load ?v) 10)))
                           (>= (- 10 (load ?v)) 0.5))
        :effect (and (not (at ?v ?from)) (at ?v ?to) (increase (cost) (+ 1 (load ?v)))
                     (when (and (clear ?to) (not (busy))) (and (not (clear ?to)) (busy)))
                     (forall (?c - crate) (when (in ?c ?v) (decrease (load ?v) 0.5)))))
     (:action idle :parameters () :precondition () :effect (and (assign (cost) 0)))
     (:action honk :parameters (?v - vehicle) :precondition (not (busy)) :effect (and (busy))))".

Definition example_sexp : sexp := text_sexp example_text.

Definition is_ok {A} (r : result A) : bool := match r with Ok _ => true | Err _ => false end.

Example example_parses : is_ok (parse_domain num_tab example_sexp) = true.
Proof. vm_compute. reflexivity. Qed.

Example example_read :
  match read_domain num_tab example_sexp with
  | Some sd => Nat.eqb (List.length (sd_actions sd)) 3 | None => false end = true.
Proof. vm_compute. reflexivity. Qed.

Example example_sections_once : sections_once example_sexp.
Proof. vm_compute. repeat constructor. Qed.

Example example_constants_typed : constants_all_typed example_sexp.
Proof.
  unfold constants_all_typed. vm_compute section_bodies.
  intros body names [<-|[]] Hn. vm_compute in Hn. injection Hn as <-. reflexivity.
Qed.

Example example_hypotheses :
  match read_domain num_tab example_sexp with
  | Some sd =>
      names_not_keywords (map fst (sd_preds sd)) && names_not_keywords (map fst (sd_funcs sd)) &&
      negb (str_in ":private" (map fst (sd_preds sd))) &&
      forallb (action_ok (vo_funcs (spec_vocabulary sd))) (sd_actions sd)
  | None => false
  end = true.
Proof. vm_compute. reflexivity. Qed.

(* the type table the parser builds for the out-of-order declaration *)
Example example_types :
  match parse_domain num_tab example_sexp with
  | Ok m => d_types m
  | Err _ => []
  end = [("truck", "vehicle"); ("vehicle", "thing"); ("place", "thing"); ("crate", "object"); ("thing", "object")].
Proof. vm_compute. reflexivity. Qed.

(* ---------- D45: trailing untyped constants are dropped ---------- *)
Definition d45_text : string :=
  "(define (domain d) (:types a) (:constants c1 - a c2 c3) (:predicates (p ?x - a))
     (:action act :parameters (?x - a) :precondition (and (p ?x)) :effect (and (p c1))))".
Definition d45_sexp : sexp := text_sexp d45_text.

Lemma d45_witness :
  exists m sd,
    parse_domain num_tab d45_sexp = Ok m /\ read_domain num_tab d45_sexp = Some sd /\
    sections_once d45_sexp /\ ~ In ":private" (map fst (sd_preds sd)) /\
    vo_consts (model_vocabulary m) = [("c1", "a")] /\
    vo_consts (spec_vocabulary sd) = [("c1", "a"); ("c2", "object"); ("c3", "object")].
Proof.
  destruct (parse_domain num_tab d45_sexp) as [m|] eqn:Em; [|vm_compute in Em; discriminate].
  destruct (read_domain num_tab d45_sexp) as [sd|] eqn:Es; [|vm_compute in Es; discriminate].
  exists m, sd. split; [reflexivity|]. split; [reflexivity|].
  vm_compute in Em. injection Em as <-. vm_compute in Es. injection Es as <-.
  split; [vm_compute; repeat constructor|]. split; [vm_compute; intuition discriminate|].
  split; vm_compute; reflexivity.
Qed.

(* ---------- D47: (f) for a unary f is read as (f ?x) ---------- *)
Definition d47_text : string :=
  "(define (domain d) (:types a) (:predicates (p ?x - a)) (:functions (f ?x - a))
     (:action act :parameters (?x - a) :precondition (and (>= (f) 1)) :effect (and (p ?x))))".
Definition d47_sexp : sexp := text_sexp d47_text.

Definition d47_state : state := {| facts := []; fluents := [(("f", ["o1"]), 2%float)] |}.

Lemma d47_witness :
  exists m sd ma sa,
    parse_domain num_tab d47_sexp = Ok m /\ read_domain num_tab d47_sexp = Some sd /\
    dget (d_actions m) "act" = Some ma /\ sd_actions sd = [sa] /\
    denote_pre (ma_pre ma) = Some (FAnd [FCmp CGe (NFl "f" ["?x"]) (NNum 1%float)]) /\
    a_pre sa = FAnd [FCmp CGe (NFl "f" []) (NNum 1%float)] /\
    (* no error anywhere: the action is grounded and evaluated, with the altered meaning *)
    (exists ga, ground_action m ma ["o1"] = Ok ga /\
                is_applicable m 0x1p-14%float (Some [("o1", "a")]) ga d47_state = Ok true) /\
    applicable 0x1p-14%float (sd_types sd) [("o1", "a")] sa ["o1"] d47_state = false.
Proof.
  destruct (parse_domain num_tab d47_sexp) as [m|] eqn:Em; [|vm_compute in Em; discriminate].
  destruct (read_domain num_tab d47_sexp) as [sd|] eqn:Es; [|vm_compute in Es; discriminate].
  vm_compute in Em. injection Em as <-. vm_compute in Es. injection Es as <-.
  do 4 eexists. split; [reflexivity|]. split; [reflexivity|]. split; [vm_compute; reflexivity|].
  split; [reflexivity|]. split; [vm_compute; reflexivity|]. split; [reflexivity|].
  split; [eexists; split; vm_compute; reflexivity|]. vm_compute. reflexivity.
Qed.

(* ---------- the full statements are false of the model (and of the library) ---------- *)
Lemma vocabulary_refuted :
  exists num e m sd,
    parse_domain num e = Ok m /\ read_domain num e = Some sd /\ sections_once e /\
    ~ In ":private" (map fst (sd_preds sd)) /\
    model_vocabulary m <> spec_vocabulary sd.
Proof.
  destruct d45_witness as (m & sd & Hp & Hr & Ho & Hpriv & Hm & Hs).
  exists num_tab, d45_sexp, m, sd. repeat split; try assumption.
  intros H. apply (f_equal vo_consts) in H. rewrite Hm, Hs in H. discriminate H.
Qed.

Lemma faithful_refuted :
  exists num e m sd ma sa,
    parse_domain num e = Ok m /\ read_domain num e = Some sd /\ sections_once e /\
    names_not_keywords (map fst (sd_preds sd)) = true /\ names_not_keywords (map fst (sd_funcs sd)) = true /\
    ~ In ":private" (map fst (sd_preds sd)) /\
    dget (d_actions m) (lower_string (a_name sa)) = Some ma /\ sd_actions sd = [sa] /\
    ~ action_faithful ma sa /\
    (* ... and nothing raises: grounding and evaluation go through *)
    exists ga s objs, ground_action m ma ["o1"] = Ok ga /\ is_applicable m 0x1p-14%float (Some objs) ga s = Ok true.
Proof.
  destruct d47_witness as (m & sd & ma & sa & Hp & Hr & Hget & Hacts & Hden & Hpre & (ga & Hg & Happ) & Hspec).
  exists num_tab, d47_sexp, m, sd, ma, sa.
  assert (Hsd : sd = {| sd_types := [("a", "object")]; sd_consts := []; sd_preds := [("p", [("?x", "a")])];
                        sd_funcs := [("f", [("?x", "a")])]; sd_actions := [sa] |}).
  { vm_compute in Hr. injection Hr as <-. vm_compute in Hacts. injection Hacts as <-. reflexivity. }
  split; [exact Hp|]. split; [exact Hr|]. split; [vm_compute; repeat constructor|].
  rewrite Hsd. cbn [sd_preds sd_funcs sd_actions].
  split; [reflexivity|]. split; [reflexivity|]. split; [simpl; intuition discriminate|].
  assert (Hname : a_name sa = "act").
  { rewrite Hsd in Hr. vm_compute in Hr. injection Hr as Hsa. rewrite <- Hsa. reflexivity. }
  split; [rewrite Hname; exact Hget|]. split; [reflexivity|]. split.
  - intros (_ & _ & (f' & Hf' & Hequiv) & _). rewrite Hden in Hf'. injection Hf' as <-. rewrite Hpre in Hequiv.
    specialize (Hequiv 0x1p-14%float [] [] [("?x", "o1")] d47_state). vm_compute in Hequiv. discriminate Hequiv.
  - exists ga, d47_state, [("o1", "a")]. split; assumption.
Qed.

Lemma vocabulary_statement_false : ~ vocabulary_statement.
Proof.
  intros H. destruct vocabulary_refuted as (num & e & m & sd & Hp & Hr & Ho & Hpriv & Hne).
  apply Hne. exact (H num e m sd Hp Hr Ho Hpriv).
Qed.

Lemma faithful_statement_false : ~ faithful_statement.
Proof.
  intros H.
  destruct faithful_refuted as (num & e & m & sd & ma & sa & Hp & Hr & Ho & Hpk & Hfk & Hpriv & Hget & Hacts & Hnf & _).
  destruct (H num e m sd _ ma Hp Hr Ho (conj Hpk (conj Hfk Hpriv)) Hget) as (sa' & Hin' & Hn & Hf).
  rewrite Hacts in Hin'. destruct Hin' as [<-|[]]. exact (Hnf Hf).
Qed.

Lemma faithful_refuted_silent :
  exists num e m sd ma sa,
    parse_domain num e = Ok m /\ read_domain num e = Some sd /\ sections_once e /\ names_ok sd /\
    dget (d_actions m) (lower_string (a_name sa)) = Some ma /\ sd_actions sd = [sa] /\
    ~ action_faithful ma sa /\
    exists ga s objs, ground_action m ma ["o1"] = Ok ga /\ is_applicable m 0x1p-14%float (Some objs) ga s = Ok true.
Proof.
  destruct faithful_refuted as (num & e & m & sd & ma & sa & Hp & Hr & Ho & Hpk & Hfk & Hpriv & Hget & Hin & Hnf & Hs).
  exists num, e, m, sd, ma, sa. repeat split; assumption.
Qed.

Lemma example_all :
  is_ok (parse_domain num_tab example_sexp) = true /\
  sections_once example_sexp /\ constants_all_typed example_sexp /\
  match read_domain num_tab example_sexp with
  | Some sd =>
      names_not_keywords (map fst (sd_preds sd)) && names_not_keywords (map fst (sd_funcs sd)) &&
      negb (str_in ":private" (map fst (sd_preds sd))) &&
      forallb (action_ok (vo_funcs (spec_vocabulary sd))) (sd_actions sd)
  | None => false
  end = true.
Proof.
  exact (conj example_parses (conj example_sections_once (conj example_constants_typed example_hypotheses))).
Qed.
