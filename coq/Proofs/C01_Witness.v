(* C01: concrete domains.  (1) the hypotheses of the theorems are satisfiable by a non-trivial text;
   (2) the witnesses of the repaired deviations D45 (trailing untyped constants), D46 (repeated argument / wrong
   arity), D47 ('(f)' for a function declared with parameters) now behave: kept, rejected, rejected;
   (3) the one place where the stored object model is not the formula written - '(= 1 1.0)' over two numerals - and
   the proof that such an action cannot be grounded (the library raises KeyError there). *)
From Coq Require Import List Ascii String Bool Arith Lia PrimFloat.
From Verif Require Import Base.Result Base.Str Base.Sexp Base.PyDict Model.Tokenizer Model.Types Model.Domain
  Model.Exec Spec.Pddl Spec.Grammar Spec.Faithful Spec.Fragment Proofs.C01_Defs Proofs.C01_Action Proofs.C01_Domain.
Import ListNotations.
Open Scope string_scope.
Open Scope list_scope.

(* float(token) on the numerals used below *)
Definition num_tab : numparser :=
  fun s => lookup s [("0", 0%float); ("1", 1%float); ("1.0", 1%float); ("2", 2%float); ("0.5", 0x1p-1%float);
                     ("10", 10%float)].

Definition text_sexp (s : string) : sexp :=
  match parse_string MStr s with Ok e => e | Err _ => Atom "" end.

(* ---------- a non-trivial domain inside the supported fragment ---------- *)
(* types declared child before parent, a parent-only type, constants, grouped and untyped parameters,
   or / not / = / forall / comparison in preconditions, add / del / increase / when / forall-when effects *)
Definition example_text : string :=
  "(define (domain depot) (:requirements :typing :fluents)
     (:types truck - vehicle  vehicle place - thing  crate)
     (:constants hq - place  t0 - truck)
     (:predicates (at ?v - vehicle ?p - place) (in ?c - crate ?v - vehicle) (clear ?p) (busy))
     (:functions (load ?v - vehicle) (cost))
     (:action drive :parameters (?v - truck ?from ?to - place)
        :precondition (and (at ?v ?from) (not (= ?from ?to)) (or (clear ?to) (at t0 ?to))
                           (forall (?c - crate) (or (not (in ?c ?v)) (<= (load ?v) 10)))
                           (>= (- 10 (load ?v)) 0.5))
        :effect (and (not (at ?v ?from)) (at ?v ?to) (increase (cost) (+ 1 (load ?v)))
                     (when (and (clear ?to) (not (busy))) (and (not (clear ?to)) (busy)))
                     (forall (?c - crate) (when (in ?c ?v) (decrease (load ?v) 0.5)))))
     (:action idle :parameters () :precondition () :effect (and (assign (cost) 0)))
     (:action honk :parameters (?v - vehicle) :precondition (not (busy)) :effect (and (busy))))".

Definition example_sexp : sexp := text_sexp example_text.

Definition is_ok {A} (r : result A) : bool := match r with Ok _ => true | Err _ => false end.

Example example_parses : is_ok (parse_domain num_tab example_sexp) = true.
Proof. vm_compute. reflexivity. Qed.

Example example_read :
  match read_domain num_tab example_sexp with
  | Some sd => Nat.eqb (List.length (sd_actions sd)) 3 | None => false end = true.
Proof. vm_compute. reflexivity. Qed.

(* it is a domain of the supported fragment G *)
Example example_in_G : G num_tab example_sexp = true.
Proof. vm_compute. reflexivity. Qed.

Example example_sections_once : sections_once example_sexp.
Proof. vm_compute. repeat constructor. Qed.

Example example_hypotheses :
  match read_domain num_tab example_sexp with
  | Some sd =>
      names_not_keywords (map fst (sd_preds sd)) && names_not_keywords (map fst (sd_funcs sd)) &&
      negb (str_in ":private" (map fst (sd_preds sd))) &&
      forallb action_ok (sd_actions sd)
  | None => false
  end = true.
Proof. vm_compute. reflexivity. Qed.

(* the type table the parser builds for the out-of-order declaration *)
Example example_types :
  match parse_domain num_tab example_sexp with
  | Ok m => d_types m
  | Err _ => []
  end = [("truck", "vehicle"); ("vehicle", "thing"); ("place", "thing"); ("crate", "object"); ("thing", "object")].
Proof. vm_compute. reflexivity. Qed.

(* ---------- D45 repaired: constants without a type are of type object ---------- *)
Definition d45_text : string :=
  "(define (domain d) (:types a) (:constants c1 - a c2 c3) (:predicates (p ?x - a))
     (:action act :parameters (?x - a) :precondition (and (p ?x)) :effect (and (p c1))))".
Definition d45_sexp : sexp := text_sexp d45_text.

Example d45_repaired :
  match parse_domain num_tab d45_sexp with Ok m => d_consts m | Err _ => [] end
  = [("c1", "a"); ("c2", "object"); ("c3", "object")].
Proof. vm_compute. reflexivity. Qed.

(* ---------- D46 / D07 repaired: a repeated argument, a wrong arity are rejected ---------- *)
Definition d46_text (pre : string) : string :=
  "(define (domain d) (:types a) (:constants k - a) (:predicates (p ?x - a) (r ?x - a ?y - a))
     (:functions (f ?x - a))
     (:action act :parameters (?x - a ?y - a) :precondition (and " ++ pre ++ ") :effect (and (p ?x))))".

Example d46_repeated_rejected : is_ok (parse_domain num_tab (text_sexp (d46_text "(r ?x ?x)"))) = false.
Proof. vm_compute. reflexivity. Qed.
Example d46_function_arity_rejected : is_ok (parse_domain num_tab (text_sexp (d46_text "(>= (f ?x ?y) 1)"))) = false.
Proof. vm_compute. reflexivity. Qed.
(* a literal of the wrong arity is stored, and every grounding of the action raises *)
Example d46_literal_arity_raises :
  match parse_domain num_tab (text_sexp (d46_text "(p ?x ?y)")) with
  | Ok m => match dget (d_actions m) "act" with
            | Some ma => is_ok (ground_action m ma ["o1"; "o2"])
            | None => true end
  | Err _ => true
  end = false.
Proof. vm_compute. reflexivity. Qed.

(* ---------- D47 repaired: (f) for a unary f is rejected ---------- *)
Example d47_rejected : is_ok (parse_domain num_tab (text_sexp (d46_text "(>= (f) 1)"))) = false.
Proof. vm_compute. reflexivity. Qed.

(* ---------- '(= 1 1.0)': stored as an object equality over the names "1" and "1.0" ---------- *)
Definition numpair_text : string :=
  "(define (domain d) (:types a) (:predicates (p ?x - a))
     (:action act :parameters (?x - a) :precondition (and (= 1 1.0)) :effect (and (p ?x))))".
Definition numpair_sexp : sexp := text_sexp numpair_text.

Lemma numpair_witness :
  exists m sd ma sa,
    parse_domain num_tab numpair_sexp = Ok m /\ read_domain num_tab numpair_sexp = Some sd /\
    sections_once numpair_sexp /\ names_ok sd /\
    sd_actions sd = [sa] /\ dget (d_actions m) (lower_string (a_name sa)) = Some ma /\
    ~ action_faithful ma sa /\
    (* ... but the action cannot be used: Operator.ground() raises for every call *)
    forall args, exists k, ground_action m ma args = Err k.
Proof.
  destruct (parse_domain num_tab numpair_sexp) as [m|] eqn:Em; [|vm_compute in Em; discriminate].
  destruct (read_domain num_tab numpair_sexp) as [sd|] eqn:Es; [|vm_compute in Es; discriminate].
  vm_compute in Em. injection Em as <-. vm_compute in Es. injection Es as <-.
  do 4 eexists. split; [reflexivity|]. split; [reflexivity|]. split; [vm_compute; repeat constructor|].
  split; [split; [reflexivity|split; [reflexivity|simpl; intuition discriminate]]|].
  split; [reflexivity|]. split; [vm_compute; reflexivity|]. split.
  - intros (_ & _ & (f' & Hf' & Hequiv) & _). vm_compute in Hf'. injection Hf' as <-.
    specialize (Hequiv 0x1p-14%float [] [] [] {| facts := []; fluents := [] |}). vm_compute in Hequiv.
    discriminate Hequiv.
  - intros args. destruct args as [|a r]; eexists; vm_compute; reflexivity.
Qed.

Lemma faithful_statement_false : ~ faithful_statement.
Proof.
  intros H.
  destruct numpair_witness as (m & sd & ma & sa & Hp & Hr & Ho & Hok & Hacts & Hget & Hnf & _).
  destruct (H num_tab numpair_sexp m sd _ ma Hp Hr Ho Hok Hget) as (sa' & Hin' & Hn & Hf).
  rewrite Hacts in Hin'. destruct Hin' as [<-|[]]. exact (Hnf Hf).
Qed.

Lemma example_all :
  is_ok (parse_domain num_tab example_sexp) = true /\
  sections_once example_sexp /\
  match read_domain num_tab example_sexp with
  | Some sd =>
      names_not_keywords (map fst (sd_preds sd)) && names_not_keywords (map fst (sd_funcs sd)) &&
      negb (str_in ":private" (map fst (sd_preds sd))) &&
      forallb action_ok (sd_actions sd)
  | None => false
  end = true.
Proof. exact (conj example_parses (conj example_sections_once example_hypotheses)). Qed.
