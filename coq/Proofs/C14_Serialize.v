(* C14/C10: the text State.serialize_in_order() writes is read back by the library's own reader (Model/Tokenizer, C11) as
   the token tree of the state, and the spec's reading of that tree is the state. *)
From Coq Require Import List Ascii String Bool Arith Lia PrimFloat.
From Verif Require Import Base.Result Base.Str Base.Sexp Base.PyDict Base.Float Model.Tokenizer Spec.Layout
  Proofs.C11_Tokenizer Proofs.C11_Reader Model.State Spec.Pddl Spec.State
  Proofs.C14_Text Proofs.C14_Spec Proofs.C14_Eq Proofs.C14_Main.
Import ListNotations.
Open Scope string_scope.
Open Scope list_scope.

(* ---------- the tokenizer on clean tokens and delimiters (continuation style) ---------- *)
Section Tk.
  Variable m : mode.

  Lemma tk_ws c rest cur : is_ws c = true -> tk m (c :: rest) cur = flush cur (tk m rest []).
  Proof. intros H. cbn [tk]. rewrite (ws_not_semi c H), (ws_not_paren c H), H. reflexivity. Qed.

  Lemma flush_rev a k : a <> [] -> flush (rev a) k = t2s a :: k.
  Proof.
    intros H. unfold flush. destruct (rev a) eqn:E.
    - exfalso. apply H. rewrite <- (rev_involutive a), E. reflexivity.
    - rewrite <- E, rev_involutive. reflexivity.
  Qed.

  Lemma tk_tok_ws a c rest : tok_ok a = true -> is_ws c = true ->
    tk m (s2t a ++ c :: rest) [] = a :: tk m rest [].
  Proof.
    intros Ha Hc. destruct (tok_ok_facts a Ha) as (Hne & Hat & Hl & _).
    rewrite tk_atom by exact Hat. rewrite app_nil_r, tk_ws by exact Hc.
    rewrite Hl, flush_rev by exact Hne. rewrite t2s_s2t. reflexivity.
  Qed.

  Lemma tk_tok_paren a p rest : tok_ok a = true -> is_paren p = true ->
    tk m (s2t a ++ p :: rest) [] = a :: String p EmptyString :: tk m rest [].
  Proof.
    intros Ha Hp. destruct (tok_ok_facts a Ha) as (Hne & Hat & Hl & _).
    rewrite tk_atom by exact Hat. rewrite app_nil_r, tk_paren by exact Hp.
    rewrite Hl, flush_rev by exact Hne. rewrite t2s_s2t. reflexivity.
  Qed.

  Lemma tk_lp rest : tk m (LP :: rest) [] = "(" :: tk m rest [].
  Proof. rewrite tk_paren by reflexivity. reflexivity. Qed.
  Lemma tk_rp rest : tk m (RP :: rest) [] = ")" :: tk m rest [].
  Proof. rewrite tk_paren by reflexivity. reflexivity. Qed.
  Lemma tk_sp rest : tk m (SP :: rest) [] = tk m rest [].
  Proof. rewrite tk_ws by reflexivity. reflexivity. Qed.
  Lemma tk_lf rest : tk m (LF :: rest) [] = tk m rest [].
  Proof. rewrite tk_ws by reflexivity. reflexivity. Qed.

  (* a text that yields the tokens [toks] whatever follows it *)
  Definition yields (t : text) (toks : list string) : Prop :=
    forall rest, tk m (t ++ rest) [] = toks ++ tk m rest [].

  Lemma yields_tjoin texts : forall tokss,
    Forall2 yields texts tokss -> yields (tjoin texts) (List.concat tokss).
  Proof.
    induction texts as [|t [|t2 r] IH]; intros tokss F rest.
    - inversion F; subst. reflexivity.
    - inversion F as [|? ks ? ? H1 F']; subst. inversion F'; subst. simpl. rewrite app_nil_r. apply H1.
    - inversion F as [|? ks ? kss H1 F']; subst.
      change (tjoin (t :: t2 :: r)) with (t ++ SP :: tjoin (t2 :: r)).
      rewrite <- app_assoc. cbn [app]. rewrite H1, tk_sp.
      cbn [List.concat]. rewrite (IH kss F'), <- app_assoc. reflexivity.
  Qed.

  (* "a1 a2 ... an)" *)
  Lemma tk_args args rest : forallb tok_ok args = true ->
    tk m (tjoin (map s2t args) ++ RP :: rest) [] = args ++ ")" :: tk m rest [].
  Proof.
    induction args as [|a [|b r] IH]; intros H.
    - simpl. apply tk_rp.
    - simpl in H. apply andb_true_iff in H as [Ha _]. simpl. apply tk_tok_paren; [exact Ha|reflexivity].
    - cbn [forallb] in H. apply andb_true_iff in H as [Ha H].
      change (tjoin (map s2t (a :: b :: r))) with (s2t a ++ SP :: tjoin (map s2t (b :: r))).
      rewrite <- app_assoc. cbn [app]. rewrite tk_tok_ws by (exact Ha || reflexivity).
      rewrite IH by exact H. reflexivity.
  Qed.
End Tk.

(* ---------- token trees ---------- *)
Definition atom_sexp (a : string * list string) : sexp := SList (Atom (fst a) :: map Atom (snd a)).
Definition valued_sexp (a : string * list string) (num : string) : sexp :=
  SList [Atom "="; atom_sexp a; Atom num].

Lemma flat_map_flatten_atoms l : flat_map flatten (map Atom l) = l.
Proof. induction l as [|x l IH]; simpl; [reflexivity|rewrite IH; reflexivity]. Qed.

Lemma flatten_atom_sexp a : flatten (atom_sexp a) = "(" :: fst a :: snd a ++ [")"].
Proof. unfold atom_sexp. cbn [flatten flat_map app]. rewrite flat_map_flatten_atoms. reflexivity. Qed.

Lemma yields_atom_text m a : atom_ok a = true -> yields m (s2t (atom_text a)) (flatten (atom_sexp a)).
Proof.
  unfold atom_ok. rewrite andb_true_iff. intros [Hn Ha] rest.
  rewrite s2t_atom_text, flatten_atom_sexp. cbn [app]. rewrite tk_lp.
  rewrite <- app_assoc. cbn [app]. rewrite tk_tok_ws by (exact Hn || reflexivity).
  rewrite <- app_assoc. cbn [app]. rewrite tk_args by exact Ha.
  rewrite <- app_assoc. reflexivity.
Qed.

Lemma flatten_valued_sexp a num :
  flatten (valued_sexp a num) = "(" :: "=" :: flatten (atom_sexp a) ++ [num; ")"].
Proof.
  unfold valued_sexp. cbn [flatten flat_map app]. rewrite <- !app_assoc. cbn [app]. reflexivity.
Qed.

Lemma yields_valued_text m a num : atom_ok a = true -> tok_ok num = true ->
  yields m (s2t (valued_text a num)) (flatten (valued_sexp a num)).
Proof.
  intros Ha Hn rest. unfold valued_text. rewrite !s2t_app, <- !app_assoc.
  change (s2t "(= ") with (LP :: s2t "=" ++ [SP]). cbn [app]. rewrite tk_lp.
  rewrite <- app_assoc. cbn [app]. rewrite tk_tok_ws by reflexivity.
  rewrite (yields_atom_text m a Ha). change (s2t " ") with [SP]. cbn [app]. rewrite tk_sp.
  change (s2t ")") with [RP]. cbn [app]. rewrite tk_tok_paren by (exact Hn || reflexivity).
  rewrite flatten_valued_sexp. cbn [app]. rewrite <- app_assoc. reflexivity.
Qed.

(* ---------- State.serialize_in_order ---------- *)
Section Serialize.
  Variable num_text : float -> string.

  Definition head_tok (s : mstate) : string := if st_init s then ":init" else ":state".

  Definition fluent_sexps (s : mstate) : list sexp :=
    map (fun kv => valued_sexp (fst kv) (num_text (snd kv))) (den_fluents s).
  Definition fact_sexps (s : mstate) : list sexp := map atom_sexp (den_facts s).
  Definition state_sexp (s : mstate) : sexp := SList (Atom (head_tok s) :: fluent_sexps s ++ fact_sexps s).

  (* every value prints as a clean token *)
  Definition nums_clean (s : mstate) : Prop := forall x, In x (values s) -> tok_ok (num_text x) = true.

  Lemma s2t_serialize_preds_aux (l : pydict (list gpred)) : forall acc,
    s2t (fold_left (fun acc grp => acc +++ " " +++ join " " (map gp_untyped (snd grp))) l acc) =
    s2t acc ++ flat_map (fun grp => SP :: tjoin (map s2t (map gp_untyped (snd grp)))) l.
  Proof.
    induction l as [|grp l IH]; intros acc; cbn [fold_left flat_map]; [rewrite app_nil_r; reflexivity|].
    rewrite IH, !s2t_app, s2t_join, <- !app_assoc. reflexivity.
  Qed.

  Lemma s2t_serialize s :
    s2t (serialize_in_order num_text s) =
    LP :: s2t (head_tok s) ++ SP :: tjoin (map s2t (fluent_texts num_text s)) ++
    flat_map (fun grp => SP :: tjoin (map s2t (map gp_untyped (snd grp)))) (st_preds s) ++ [RP; LF].
  Proof.
    unfold serialize_in_order, serialize_fluents, serialize_preds_in_order, head_tok.
    rewrite !s2t_app, s2t_join, s2t_serialize_preds_aux. simpl. rewrite <- ?app_assoc. reflexivity.
  Qed.

  Lemma yields_groups m (l : pydict (list gpred)) :
    forallb gp_ok (flat_map snd l) = true ->
    yields m (flat_map (fun grp => SP :: tjoin (map s2t (map gp_untyped (snd grp)))) l)
             (flat_map flatten (map atom_sexp (map gp_atom (flat_map snd l)))).
  Proof.
    induction l as [|[k grp] l IH]; intros H rest; [reflexivity|].
    cbn [flat_map snd] in *. rewrite forallb_app in H. apply andb_true_iff in H as [Hg Hl].
    rewrite <- app_assoc. cbn [app]. rewrite tk_sp.
    rewrite !map_app, flat_map_app, <- !app_assoc.
    assert (Y : yields m (tjoin (map s2t (map gp_untyped grp))) (flat_map flatten (map atom_sexp (map gp_atom grp)))).
    { rewrite flat_map_concat_map. apply yields_tjoin.
      rewrite forallb_forall in Hg. clear - Hg. induction grp as [|g grp IHg]; [constructor|].
      cbn [map]. constructor.
      - assert (Hok : gp_ok g = true) by (apply Hg; left; reflexivity).
        unfold gp_ok in Hok. apply andb_true_iff in Hok as [Hok _]. apply andb_true_iff in Hok as [Hp Ha].
        rewrite (gp_untyped_atom g Hp). apply yields_atom_text. exact Ha.
      - apply IHg. intros x Hx. apply Hg. right. exact Hx. }
    rewrite Y. rewrite (IH Hl). reflexivity.
  Qed.

  Lemma yields_fluents m s :
    forallb pf_ok (dvalues (st_fluents s)) = true -> nums_clean s ->
    yields m (tjoin (map s2t (fluent_texts num_text s))) (flat_map flatten (fluent_sexps s)).
  Proof.
    intros H Hn. rewrite flat_map_concat_map. apply yields_tjoin.
    unfold fluent_texts, fluent_sexps, den_fluents, nums_clean, values in *.
    rewrite forallb_forall in H.
    induction (dvalues (st_fluents s)) as [|f l IH]; [constructor|].
    cbn [map]. constructor.
    - rewrite pf_state_text_valued by (apply pf_ok_float, H; left; reflexivity).
      cbn [fst snd]. apply yields_valued_text.
      + apply pf_ok_atom, H. left. reflexivity.
      + apply Hn. left. reflexivity.
    - apply IH; [intros x Hx; apply H; right; exact Hx|intros x Hx; apply Hn; right; exact Hx].
  Qed.

  Lemma head_tok_ok s : tok_ok (head_tok s) = true.
  Proof. unfold head_tok. destruct (st_init s); reflexivity. Qed.

  (* the text of a state, followed by anything, tokenizes to the tokens of its tree, followed by the rest's tokens *)
  Theorem yields_serialize m s :
    state_ok s = true -> nums_clean s ->
    yields m (s2t (serialize_in_order num_text s)) (flatten (state_sexp s)).
  Proof.
    unfold state_ok. rewrite andb_true_iff. intros [Hp Hf] Hn rest.
    rewrite s2t_serialize. cbn [app]. rewrite tk_lp.
    rewrite <- app_assoc. cbn [app]. rewrite tk_tok_ws by (apply head_tok_ok || reflexivity).
    rewrite <- !app_assoc. rewrite (yields_fluents m s Hf Hn).
    unfold all_preds in Hp. rewrite (yields_groups m (st_preds s) Hp).
    cbn [app]. rewrite tk_rp, tk_lf.
    unfold state_sexp. cbn [flatten flat_map]. rewrite flat_map_app, <- !app_assoc. cbn [app flatten].
    unfold fact_sexps, den_facts, all_preds. rewrite <- !app_assoc. reflexivity.
  Qed.

  (* ---------- well-formedness of the tree, the reader ---------- *)
  Lemma tok_ok_not_paren a : tok_ok a = true -> is_paren_tok a = false.
  Proof.
    intros H. destruct (tok_ok_facts a H) as (_ & _ & _ & _ & Hr & Hl).
    unfold is_paren_tok. apply orb_false_iff. split; apply String.eqb_neq; intros ->; [apply Hl|apply Hr]; left; reflexivity.
  Qed.

  Lemma wf_atom_sexp a : atom_ok a = true -> wf (atom_sexp a) = true.
  Proof.
    unfold atom_ok. rewrite andb_true_iff. intros [Hn Ha]. unfold atom_sexp. cbn [wf forallb].
    rewrite (tok_ok_not_paren _ Hn). cbn [negb andb].
    rewrite forallb_forall in *. intros e He. apply in_map_iff in He as (x & <- & Hx). simpl.
    rewrite (tok_ok_not_paren _ (Ha x Hx)). reflexivity.
  Qed.

  Lemma wf_state_sexp s : state_ok s = true -> nums_clean s -> wf (state_sexp s) = true.
  Proof.
    unfold state_ok. rewrite andb_true_iff. intros [Hp Hf] Hn. unfold state_sexp. cbn [wf forallb].
    rewrite (tok_ok_not_paren _ (head_tok_ok s)). cbn [negb andb]. rewrite forallb_app. apply andb_true_iff. split.
    - unfold fluent_sexps. rewrite forallb_forall. intros e He. apply in_map_iff in He as ([k v] & <- & Hkv).
      cbn [fst snd]. unfold valued_sexp. cbn [wf forallb]. simpl.
      pose proof (den_fluents_ok s Hf) as Fo. rewrite Forall_forall in Fo.
      change (forallb wf (map Atom (snd k))) with (forallb wf (map Atom (snd k))).
      pose proof (wf_atom_sexp k (Fo _ Hkv)) as W. unfold atom_sexp in W. cbn [wf forallb] in W. rewrite W.
      rewrite (tok_ok_not_paren _ (Hn v (in_den_fluents_value s k v Hkv))). reflexivity.
    - unfold fact_sexps. rewrite forallb_forall. intros e He. apply in_map_iff in He as (a & <- & Ha).
      pose proof (den_facts_ok s Hp) as Fo. rewrite Forall_forall in Fo. apply wf_atom_sexp. apply Fo. exact Ha.
  Qed.

  Theorem parse_serialize m s :
    state_ok s = true -> nums_clean s -> parse m (s2t (serialize_in_order num_text s)) = Ok (state_sexp s).
  Proof.
    intros Hs Hn. unfold parse, tokenize.
    rewrite <- (app_nil_r (s2t (serialize_in_order num_text s))). rewrite (yields_serialize m s Hs Hn).
    apply parse_tokens_iff. exists []. split; [reflexivity|apply wf_state_sexp; assumption].
  Qed.

  (* ---------- the spec's reading of the tree ---------- *)
  Variable parse_num : string -> option float.

  Lemma atoms_only_atoms l : atoms_only (map Atom l) = Some l.
  Proof. induction l as [|x l IH]; simpl; [reflexivity|rewrite IH; reflexivity]. Qed.

  Lemma read_item_fact a : String.eqb (fst a) "=" = false -> read_item parse_num (atom_sexp a) = Some (IFact a).
  Proof.
    intros H. destruct a as [p args]. unfold atom_sexp, read_item. cbn [fst snd] in *.
    rewrite H, atoms_only_atoms. reflexivity.
  Qed.

  Lemma read_item_fluent a v x : parse_num v = Some x ->
    read_item parse_num (valued_sexp a v) = Some (IFluent a x).
  Proof.
    intros H. destruct a as [f args]. unfold valued_sexp, atom_sexp, read_item. cbn [fst snd].
    rewrite String.eqb_refl, atoms_only_atoms, H. reflexivity.
  Qed.

  (* the values as float() reads them back *)
  Definition read_back (l : list (atom * float)) (l' : list (atom * float)) : Prop :=
    Forall2 (fun kv kv' => fst kv = fst kv' /\ parse_num (num_text (snd kv)) = Some (snd kv')) l l'.

  Lemma read_items_state fl fl' facts :
    read_back fl fl' -> Forall (fun a => String.eqb (fst a) "=" = false) facts ->
    read_items parse_num (map (fun kv => valued_sexp (fst kv) (num_text (snd kv))) fl ++ map atom_sexp facts)
    = Some {| Pddl.facts := facts; fluents := fl' |}.
  Proof.
    intros R F. induction R as [|[k v] [k' v'] fl fl' [Ek Ev] R IH]; cbn [map app].
    - induction F as [|a facts Ha F IH]; [reflexivity|].
      cbn [map read_items]. rewrite (read_item_fact a Ha), IH. reflexivity.
    - cbn [fst snd] in *. subst k'. cbn [read_items]. rewrite (read_item_fluent k _ v' Ev), IH. reflexivity.
  Qed.

  Lemma read_state_sexp s fl' :
    read_back (den_fluents s) fl' -> state_ok s = true ->
    read_state parse_num (state_sexp s) = Some (st_init s, {| Pddl.facts := den_facts s; fluents := fl' |}).
  Proof.
    intros R Hs. unfold state_sexp, fluent_sexps, fact_sexps, read_state.
    assert (F : Forall (fun a => String.eqb (fst a) "=" = false) (den_facts s)).
    { unfold state_ok in Hs. apply andb_true_iff in Hs as [Hp _]. rewrite forallb_forall in Hp.
      apply Forall_forall. intros a Ha. apply in_map_iff in Ha as (g & <- & Hg). specialize (Hp g Hg).
      unfold gp_ok in Hp. apply andb_true_iff in Hp as [_ Hp]. apply negb_true_iff in Hp. exact Hp. }
    rewrite (read_items_state _ _ _ R F). unfold head_tok. destruct (st_init s); reflexivity.
  Qed.

  (* every value is read back as the same value *)
  Lemma read_back_exists s :
    (forall x, In x (values s) -> num_ok num_text parse_num x) ->
    exists fl', read_back (den_fluents s) fl' /\ same_fluents fl' (den_fluents s).
  Proof.
    unfold values, den_fluents. induction (dvalues (st_fluents s)) as [|f l IH]; intros H.
    - exists []. split; [constructor|]. intros k v. tauto.
    - destruct IH as (fl' & R & S); [intros x Hx; apply H; right; exact Hx|].
      destruct (H (pf_val f)) as (y & Py & Ey); [left; reflexivity|].
      exists ((pf_atom f, y) :: fl'). split; [constructor; [split; [reflexivity|exact Py]|exact R]|].
      intros k v. unfold has_value. cbn [map]. split.
      + intros (v' & [E|Hin] & Ev).
        * injection E as <- <-. exists (pf_val f). split; [left; reflexivity|].
          eapply same_value_trans; [exact Ev|apply same_value_sym; exact Ey].
        * destruct (proj1 (S k v)) as (w & Hw & Ew); [exists v'; auto|]. exists w. split; [right; exact Hw|exact Ew].
      + intros (v' & [E|Hin] & Ev).
        * injection E as <- <-. exists y. split; [left; reflexivity|].
          eapply same_value_trans; [exact Ev|exact Ey].
        * destruct (proj2 (S k v)) as (w & Hw & Ew); [exists v'; auto|]. exists w. split; [right; exact Hw|exact Ew].
  Qed.

  Definition read_text (m : mode) (t : string) : option (bool * state) :=
    match parse m (s2t t) with Ok e => read_state parse_num e | Err _ => None end.

  (* C14_serialize, first half: the text reads back as the state *)
  Theorem serialize_reads_back m s :
    state_ok s = true -> nums_clean s -> (forall x, In x (values s) -> num_ok num_text parse_num x) ->
    exists st, read_text m (serialize_in_order num_text s) = Some (st_init s, st) /\ State_same st (den s).
  Proof.
    intros Hs Hc Hn. destruct (read_back_exists s Hn) as (fl' & R & S).
    exists {| Pddl.facts := den_facts s; fluents := fl' |}. split.
    - unfold read_text. rewrite (parse_serialize m s Hs Hc). apply read_state_sexp; assumption.
    - split; [intros x; cbn; tauto|exact S].
  Qed.
End Serialize.

(* C14_serialize, both halves: two states are equal exactly when their texts read back as the same state *)
Theorem serialize_injective num_text parse_num m s t :
  state_ok s = true -> state_ok t = true -> nums_clean num_text s -> nums_clean num_text t ->
  nums_ok num_text parse_num (values s ++ values t) ->
  exists a b, read_text parse_num m (serialize_in_order num_text s) = Some (st_init s, a) /\
              read_text parse_num m (serialize_in_order num_text t) = Some (st_init t, b) /\
              (State_same a b <-> state_eq num_text s t = true).
Proof.
  intros Hs Ht Cs Ct Hn.
  assert (Ns : forall x, In x (values s) -> num_ok num_text parse_num x).
  { intros x Hx. apply (proj1 Hn). apply in_or_app. auto. }
  assert (Nt : forall x, In x (values t) -> num_ok num_text parse_num x).
  { intros x Hx. apply (proj1 Hn). apply in_or_app. auto. }
  destruct (serialize_reads_back num_text parse_num m s Hs Cs Ns) as (a & Ra & Sa).
  destruct (serialize_reads_back num_text parse_num m t Ht Ct Nt) as (b & Rb & Sb).
  exists a, b. split; [exact Ra|]. split; [exact Rb|].
  rewrite (state_eq_same num_text parse_num s t Hs Ht Hn). split; intros H.
  - eapply State_same_trans; [apply State_same_sym; exact Sa|]. eapply State_same_trans; [exact H|exact Sb].
  - eapply State_same_trans; [exact Sa|]. eapply State_same_trans; [exact H|apply State_same_sym; exact Sb].
Qed.
