(* C14: State.__eq__ is an equivalence relation, insensitive to order, keys, types and is_init. *)
From Coq Require Import List Ascii String Bool Arith PrimFloat Permutation.
From Verif Require Import Base.Result Base.Str Base.Sexp Base.PyDict Base.Float Model.State.
Import ListNotations.
Open Scope string_scope.
Open Scope list_scope.

(* ---------- set(a) == set(b) on strings ---------- *)
Lemma strset_eqb_iff a b : strset_eqb a b = true <-> (forall x, In x a <-> In x b).
Proof.
  unfold strset_eqb. rewrite andb_true_iff, !forallb_forall. split.
  - intros [H1 H2] x. split; intros Hx; apply str_in_In; auto.
  - intros H. split; intros x Hx; apply str_in_In; apply H; exact Hx.
Qed.

Lemma strset_eqb_refl a : strset_eqb a a = true.
Proof. apply strset_eqb_iff. tauto. Qed.

Lemma strset_eqb_sym a b : strset_eqb a b = strset_eqb b a.
Proof. unfold strset_eqb. apply andb_comm. Qed.

Lemma strset_eqb_trans a b c : strset_eqb a b = true -> strset_eqb b c = true -> strset_eqb a c = true.
Proof. rewrite !strset_eqb_iff. intros H1 H2 x. rewrite H1. apply H2. Qed.

Section Eq.
  Variable num_text : float -> string.

  Lemma state_eq_iff s t :
    state_eq num_text s t = true <->
    ((forall x, In x (fact_texts s) <-> In x (fact_texts t)) /\
     (forall x, In x (fluent_texts num_text s) <-> In x (fluent_texts num_text t))).
  Proof.
    unfold state_eq. destruct (strset_eqb (fact_texts s) (fact_texts t)) eqn:E; cbn [negb].
    - rewrite <- !strset_eqb_iff. rewrite E. tauto.
    - split; [discriminate|]. intros [H _]. apply strset_eqb_iff in H. congruence.
  Qed.

  Lemma state_eq_refl s : state_eq num_text s s = true.
  Proof. apply state_eq_iff. split; tauto. Qed.

  Lemma state_eq_sym s t : state_eq num_text s t = state_eq num_text t s.
  Proof.
    unfold state_eq. rewrite (strset_eqb_sym (fact_texts s)), (strset_eqb_sym (fluent_texts num_text s)). reflexivity.
  Qed.

  Lemma state_eq_trans s t u :
    state_eq num_text s t = true -> state_eq num_text t u = true -> state_eq num_text s u = true.
  Proof.
    rewrite !state_eq_iff. intros [A1 A2] [B1 B2]. split; intros x.
    - rewrite A1. apply B1.
    - rewrite A2. apply B2.
  Qed.
End Eq.
