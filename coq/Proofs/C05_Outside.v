(* C05: texts OUTSIDE the grammar of Spec/Problem.v (and inside it) that the parser simply rejects, whatever else the
   text contains.  No [read_problem] hypothesis: [l1], [l2], [rest] are arbitrary token trees.  Every statement holds
   for every configuration [cfg] (pinned and current tree), every numeral reader and every domain.

     a section that raises from every state makes the whole text raise              C05_section_rejects_lemma
     (:domain X) with X different from the domain's name - compared as strings,
       character by character, after the tokenizer's lower-casing; also a list or
       nothing in the place of X                                                    domain_section_err
     (:goal g) where g is not a list that begins with "and" (a single literal
       (:goal (p a)), a bare token, the empty list)                                 goal_section_err
     a goal item whose head is neither a declared predicate nor a comparison
       operator: (not (p a)), (or ...), (forall ...), (imply ...), an undeclared
       predicate, a list in head position, the empty list                           goal_item_section_err
     an init item whose head is neither "=" nor a declared predicate: (not (p a)),
       (at 5 (p a)), an undeclared predicate, a list in head position               init_item_section_err *)
From Coq Require Import List Ascii String Bool Arith PrimFloat.
From Verif Require Import Base.Result Base.Str Base.Sexp Base.PyDict
  Model.Types Model.Domain Model.NumExpr Model.Problem Model.ProblemObs Spec.Problem Proofs.C05_Examples.
Import ListNotations.
Open Scope string_scope.
Open Scope list_scope.

Lemma foldM_err_at {A S} (f : S -> A -> result S) (l1 : list A) (x : A) (l2 : list A) :
  (forall s, exists k, f s x = Err k) -> forall s, exists k, foldM f (l1 ++ x :: l2) s = Err k.
Proof.
  intros H. induction l1 as [|a l1 IH]; intros s; simpl.
  - destruct (H s) as [k ->]. exists k. reflexivity.
  - destruct (f s a) as [s'|k]; simpl; [apply IH | exists k; reflexivity].
Qed.

Section Outside.
  Variable cfg : pcfg.
  Variable num : numparser.
  Variable dom : mdomain.

  Definition always_err (x : sexp) : Prop := forall pb, exists k, parse_section cfg num dom pb x = Err k.

  Lemma C05_section_rejects_lemma l1 x l2 : always_err x ->
    exists k, parse_problem cfg num dom (SList (Atom "define" :: l1 ++ x :: l2)) = Err k.
  Proof.
    intros H. cbn [parse_problem]. rewrite String.eqb_refl.
    change (Atom "define" :: l1 ++ x :: l2) with ((Atom "define" :: l1) ++ x :: l2).
    apply foldM_err_at. exact H.
  Qed.

  (* ---------- (:domain X) ---------- *)
  Definition names_other_domain (body : list sexp) : bool :=
    match body with Atom n :: _ => negb (String.eqb n (d_name dom)) | _ => true end.

  Lemma domain_section_err body : names_other_domain body = true -> always_err (SList (Atom ":domain" :: body)).
  Proof.
    intros H pb. cbn [parse_section]. cbn [String.eqb Ascii.eqb Bool.eqb].
    destruct body as [|[n|l] r]; cbn [names_other_domain] in H.
    - exists EIndex. reflexivity.
    - destruct (String.eqb n (d_name dom)); [discriminate|]. exists EValue. reflexivity.
    - exists EValue. reflexivity.
  Qed.

  (* ---------- (:goal g), g not (and ...) ---------- *)
  Definition is_and_list (g : sexp) : bool :=
    match g with SList (Atom h :: _) => String.eqb h "and" | _ => false end.

  Lemma goal_state_err g : is_and_list g = false -> forall pb, exists k, parse_goal_state cfg num dom pb g = Err k.
  Proof.
    intros H pb. destruct g as [[|c s]|[|[h|l] items]]; cbn [parse_goal_state is_and_list] in *.
    - exists EIndex. reflexivity.
    - exists ESyntax. reflexivity.
    - exists EIndex. reflexivity.
    - rewrite H. exists ESyntax. reflexivity.
    - exists ESyntax. reflexivity.
  Qed.

  Lemma goal_section_err g rest : is_and_list g = false -> always_err (SList (Atom ":goal" :: g :: rest)).
  Proof.
    intros H pb. cbn [parse_section]. cbn [String.eqb Ascii.eqb Bool.eqb]. apply goal_state_err. exact H.
  Qed.

  (* ---------- a goal item with a foreign head ---------- *)
  Definition foreign_goal_item (x : sexp) : bool :=
    match head_args x with
    | Ok (h, _) => negb (dmem (d_preds dom) h) && negb (str_in h goal_ops)
    | Err _ => true
    end.

  Lemma goal_item_err x : foreign_goal_item x = true -> forall pb, exists k, parse_goal_item cfg num dom pb x = Err k.
  Proof.
    intros H pb. unfold parse_goal_item, foreign_goal_item in *.
    destruct (head_args x) as [[h args]|k]; cbn [bind]; [|exists k; reflexivity].
    rewrite H. exists EValue. reflexivity.
  Qed.

  Lemma goal_item_section_err i1 x i2 rest : foreign_goal_item x = true ->
    always_err (SList (Atom ":goal" :: SList (Atom "and" :: i1 ++ x :: i2) :: rest)).
  Proof.
    intros H pb. cbn [parse_section]. cbn [String.eqb Ascii.eqb Bool.eqb]. cbn [parse_goal_state].
    cbn [String.eqb Ascii.eqb Bool.eqb negb]. apply foldM_err_at. intros s. apply goal_item_err. exact H.
  Qed.

  (* ---------- an init item with a foreign head ---------- *)
  Definition foreign_init_item (x : sexp) : bool :=
    match head_args x with
    | Ok (h, _) => negb (String.eqb h "=") && negb (dmem (d_preds dom) h)
    | Err _ => true
    end.

  Lemma init_item_err x : foreign_init_item x = true -> forall pb, exists k, parse_state_component cfg num dom pb x = Err k.
  Proof.
    intros H pb. unfold parse_state_component, foreign_init_item in *.
    destruct (head_args x) as [[h args]|k]; cbn [bind]; [|exists k; reflexivity].
    apply andb_true_iff in H. destruct H as [H1 H2]. apply negb_true_iff in H1, H2. rewrite H1.
    unfold dmem in H2. destruct (dget (d_preds dom) h); [discriminate|]. exists EValue. reflexivity.
  Qed.

  Lemma init_item_section_err i1 x i2 : foreign_init_item x = true -> always_err (SList (Atom ":init" :: i1 ++ x :: i2)).
  Proof.
    intros H pb. cbn [parse_section]. cbn [String.eqb Ascii.eqb Bool.eqb].
    apply foldM_err_at. intros s. apply init_item_err. exact H.
  Qed.

  (* ---------- whole texts ---------- *)
  Lemma rejects_other_domain l1 body l2 : names_other_domain body = true ->
    exists k, parse_problem cfg num dom (SList (Atom "define" :: l1 ++ SList (Atom ":domain" :: body) :: l2)) = Err k.
  Proof. intros H. apply C05_section_rejects_lemma, domain_section_err, H. Qed.

  Lemma rejects_goal_not_and l1 g rest l2 : is_and_list g = false ->
    exists k, parse_problem cfg num dom (SList (Atom "define" :: l1 ++ SList (Atom ":goal" :: g :: rest) :: l2)) = Err k.
  Proof. intros H. apply C05_section_rejects_lemma, goal_section_err, H. Qed.

  Lemma rejects_foreign_goal_item l1 i1 x i2 rest l2 : foreign_goal_item x = true ->
    exists k, parse_problem cfg num dom
      (SList (Atom "define" :: l1 ++ SList (Atom ":goal" :: SList (Atom "and" :: i1 ++ x :: i2) :: rest) :: l2)) = Err k.
  Proof. intros H. apply C05_section_rejects_lemma, goal_item_section_err, H. Qed.

  Lemma rejects_foreign_init_item l1 i1 x i2 l2 : foreign_init_item x = true ->
    exists k, parse_problem cfg num dom (SList (Atom "define" :: l1 ++ SList (Atom ":init" :: i1 ++ x :: i2) :: l2)) = Err k.
  Proof. intros H. apply C05_section_rejects_lemma, init_item_section_err, H. Qed.
End Outside.

(* ---------- the hypotheses are satisfiable: concrete texts of each class, none of them in the grammar of the spec
   (except the first), each rejected by the model ---------- *)
Definition outside_examples : list sexp :=
  [ tok "(define (problem pr) (:domain do-m) (:objects o0 - t1) (:init (p0 o0)) (:goal (and (p0 o0))))";
    tok "(define (problem pr) (:domain dom_) (:objects o0 - t1) (:init (p0 o0)) (:goal (and (p0 o0))))";
    tok "(define (problem pr) (:domain (dom)) (:objects o0 - t1) (:init (p0 o0)) (:goal (and (p0 o0))))";
    tok "(define (problem pr) (:domain dom) (:objects o0 - t1) (:init (p0 o0)) (:goal (p0 o0)))";
    tok "(define (problem pr) (:domain dom) (:objects o0 - t1) (:init (p0 o0)) (:goal z))";
    tok "(define (problem pr) (:domain dom) (:objects o0 - t1) (:init (p0 o0)) (:goal (and (p0 o0) (not (p0 c0)))))";
    tok "(define (problem pr) (:domain dom) (:objects o0 - t1) (:init (p0 o0)) (:goal (and (or (p0 o0) (z)))))";
    tok "(define (problem pr) (:domain dom) (:objects o0 - t1) (:init (p0 o0) (not (z)) (z)) (:goal (and)))";
    tok "(define (problem pr) (:domain dom) (:objects o0 - t1) (:init (at 5 (p0 o0))) (:goal (and)))" ].

Example C05_outside_examples :
  (* which hypothesis each text satisfies *)
  names_other_domain ex_dom [Atom "do-m"] = true /\ names_other_domain ex_dom [Atom "dom_"] = true /\
  names_other_domain ex_dom [SList [Atom "dom"]] = true /\ names_other_domain ex_dom [Atom "dom"] = false /\
  is_and_list (tok "(p0 o0)") = false /\ is_and_list (tok "z") = false /\ is_and_list (tok "(and (p0 o0))") = true /\
  foreign_goal_item ex_dom (tok "(not (p0 c0))") = true /\ foreign_goal_item ex_dom (tok "(or (p0 o0) (z))") = true /\
  foreign_goal_item ex_dom (tok "(p0 zz)") = false /\ foreign_goal_item ex_dom (tok "(>= (h) 1)") = false /\
  foreign_init_item ex_dom (tok "(not (z))") = true /\ foreign_init_item ex_dom (tok "(at 5 (p0 o0))") = true /\
  foreign_init_item ex_dom (tok "(= (h) 1)") = false /\
  (* and all of them are rejected; all but the first two are outside the grammar of the spec *)
  forallb (fun e => negb (is_ok (parse_problem cfg_fixed ex_num ex_dom e))) outside_examples = true /\
  map (fun e => match read_problem ex_num e with Some _ => true | None => false end) outside_examples
    = [true; true; false; false; false; false; false; false; false].
Proof. vm_compute. repeat split; reflexivity. Qed.
