(* C15: a syntactic sufficient condition for the hypothesis [pre_total] of the outcome theorem: a grounded
   precondition whose numeric comparisons are well-formed and never divide by anything but a non-zero numeral
   evaluates in every state. *)
From Coq Require Import List Ascii String Bool Arith Lia PrimFloat.
From Verif Require Import Base.Result Base.Str Base.PyDict Model.Types Model.Domain Model.Exec Spec.Pddl
  Spec.JointPlan Model.PlanConverter Proofs.C15_Views Proofs.C15_Effect Proofs.C15_Sound.
Import ListNotations.
Open Scope string_scope.
Open Scope list_scope.

Fixpoint tree_safe (t : gtree) : bool :=
  match t with
  | GTNum _ | GTFn _ => true
  | GTNode op l r =>
      match binop_of op with
      | Some ODiv => tree_safe l && match r with GTNum x => negb (is_zero x) | _ => false end
      | Some _ => tree_safe l && tree_safe r
      | None => false
      end
  end.

Definition cmp_safe (t : gtree) : bool :=
  match t with
  | GTNode op l r => match cmpop_of op with Some _ => tree_safe l && tree_safe r | None => false end
  | _ => false
  end.

Fixpoint gpre_safe (g : gpre) : bool :=
  match g with
  | GPre _ os _ _ =>
      (fix go (l : list gcond) : bool := match l with [] => true | c :: r => gcond_safe c && go r end) os
  end
with gcond_safe (c : gcond) : bool :=
  match c with
  | GLit _ _ => true
  | GNum t => cmp_safe t
  | GNested q => gpre_safe q
  | GUniv _ _ _ _ => true            (* without an object table a universal condition reads true *)
  end.

Fixpoint operands_safe (l : list gcond) : bool :=
  match l with [] => true | c :: r => gcond_safe c && operands_safe r end.

Lemma gpre_safe_unfold op os eqs neqs : gpre_safe (GPre op os eqs neqs) = operands_safe os.
Proof.
  cbn [gpre_safe]. match goal with |- ?f os = _ => set (go := f) end.
  induction os as [|c r IH]; [reflexivity|].
  change (go (c :: r)) with (gcond_safe c && go r). cbn [operands_safe]. rewrite IH. reflexivity.
Qed.

Lemma calc_total s t : tree_safe t = true -> exists x, calc s t = Ok x.
Proof.
  induction t as [x|a|op l IHl r IHr]; intros H; cbn [calc]; [eexists; reflexivity|eexists; reflexivity|].
  cbn [tree_safe] in H. destruct (binop_of op) as [o|] eqn:Eo; [|discriminate].
  destruct o.
  - apply andb_true_iff in H. destruct H as [H1 H2]. destruct (IHl H1) as [x ->]. destruct (IHr H2) as [y ->]. cbn [bind]. eexists. reflexivity.
  - apply andb_true_iff in H. destruct H as [H1 H2]. destruct (IHl H1) as [x ->]. destruct (IHr H2) as [y ->]. cbn [bind]. eexists. reflexivity.
  - apply andb_true_iff in H. destruct H as [H1 H2]. destruct (IHl H1) as [x ->]. destruct (IHr H2) as [y ->]. cbn [bind]. eexists. reflexivity.
  - apply andb_true_iff in H. destruct H as [H1 H2]. destruct (IHl H1) as [x ->].
    destruct r as [y|a|op2 l2 r2]; try discriminate. cbn [calc bind].
    apply negb_true_iff in H2. rewrite H2. eexists. reflexivity.
Qed.

Section Total.
  Variable dom : mdomain.
  Variable eps : float.

  Lemma eval_cmp_total s t : cmp_safe t = true -> exists b, eval_cmp eps s t = Ok b.
  Proof.
    destruct t as [x|a|op l r]; try discriminate. cbn [cmp_safe eval_cmp].
    destruct (cmpop_of op) as [c|]; [|discriminate]. intros H. apply andb_true_iff in H. destruct H as [H1 H2].
    destruct (calc_total s l H1) as [x ->]. destruct (calc_total s r H2) as [y ->]. cbn [bind]. eexists. reflexivity.
  Qed.

  Lemma eval_total :
    forall g s, gpre_safe g = true -> exists b, eval_g dom eps None s g = Ok b.
  Proof.
    intros g. apply (gpre_ind'
      (fun g => forall s, gpre_safe g = true -> exists b, eval_g dom eps None s g = Ok b)
      (fun c => forall s, gcond_safe c = true -> exists b, eval_gcond dom eps None s c = Ok b)).
    - intros op os eqs neqs HF s Hs. rewrite eval_g_unfold. rewrite gpre_safe_unfold in Hs.
      generalize (seed_of op eqs neqs). induction HF as [|c r Hc HF IH]; intros acc; cbn [eval_operands]; [eexists; reflexivity|].
      cbn [operands_safe] in Hs. apply andb_true_iff in Hs. destruct Hs as [Hs1 Hs2].
      destruct (Hc s Hs1) as [b ->]. cbn [bind]. apply IH. exact Hs2.
    - intros pos a s _. cbn [eval_gcond]. eexists. reflexivity.
    - intros t s Hs. cbn [eval_gcond]. apply eval_cmp_total. exact Hs.
    - intros g0 IH s Hs. cbn [eval_gcond]. apply IH. exact Hs.
    - intros v ty body pm s _. cbn [eval_gcond eval_lifted_cond]. eexists. reflexivity.
  Qed.

  (* every grounding of the call has a safe precondition: then the hypothesis of the outcome theorem holds for it *)
  Lemma pre_total_of_safe c :
    (forall ga, mk_op dom c = Ok ga -> gpre_safe (ga_pre ga) = true) -> pre_total dom eps c.
  Proof. intros H ga Hga st. unfold is_applicable. apply eval_total. apply H. exact Hga. Qed.
End Total.
