(* C18, part 5: a decidable side condition.  [renaming_ok dom a m] computes whether the mapping m is an admissible
   renaming for the action a of the domain dom:
     - the action is well formed (no literal or fluent with a repeated argument, numeric conditions and effects
       have an operator at the root - both guaranteed by the parser);
     - m is injective on every name in sight (parameters and every name the action mentions);
     - a name that m moves is not a constant, and its new name is neither a constant nor one of the action's
       quantified variables.
   Soundness: it implies the hypotheses of Proofs.C18_Exec / C18_Denote, hence the behaviour theorems. *)
From Coq Require Import List String Bool Arith PrimFloat.
From Verif Require Import Base.Result Base.Str Base.PyDict Model.Types Model.Domain Model.Exec Model.ChangeSignature
  Spec.Pddl Proofs.C18_Dict Proofs.C18_Denote Proofs.C18_Exec.
Import ListNotations.
Open Scope string_scope.
Open Scope list_scope.

(* ---------- every name the action mentions; its quantified variables ---------- *)
Fixpoint names_tree (t : mtree) : list string :=
  match t with
  | TNum _ => []
  | TFn _ args => args
  | TNode _ l r => names_tree l ++ names_tree r
  end.

Fixpoint names_pre (p : mpre) : list string :=
  match p with
  | MPre _ os eqs neqs =>
      flat_map (fun ab => [fst ab; snd ab]) (eqs ++ neqs) ++
      (fix go (l : list mcond) : list string := match l with [] => [] | c :: r => names_cond c ++ go r end) os
  end
with names_cond (c : mcond) : list string :=
  match c with
  | MLit _ _ args => args
  | MNum t => names_tree t
  | MNested q => names_pre q
  | MUniv v _ body => v :: names_pre body
  end.

Fixpoint bound_pre (p : mpre) : list string :=
  match p with
  | MPre _ os _ _ =>
      (fix go (l : list mcond) : list string := match l with [] => [] | c :: r => bound_cond c ++ go r end) os
  end
with bound_cond (c : mcond) : list string :=
  match c with
  | MNested q => bound_pre q
  | MUniv v _ body => v :: bound_pre body
  | _ => []
  end.

Definition names_condeff (ce : mcondeff) : list string :=
  names_pre (ce_ante ce) ++ flat_map l_args (ce_disc ce) ++ flat_map names_tree (ce_num ce).

Definition names_action (a : maction) : list string :=
  dkeys (ma_sig a) ++ names_pre (ma_pre a) ++ flat_map l_args (ma_disc a) ++ flat_map names_tree (ma_num a) ++
  flat_map names_condeff (ma_cond a) ++ flat_map (fun ue => ue_var ue :: names_condeff (ue_ce ue)) (ma_univ a).

Definition bound_maction (a : maction) : list string :=
  bound_pre (ma_pre a) ++ flat_map (fun ce => bound_pre (ce_ante ce)) (ma_cond a) ++
  flat_map (fun ue => ue_var ue :: bound_pre (ce_ante (ue_ce ue))) (ma_univ a).

(* ---------- boolean versions of the side conditions ---------- *)
Fixpoint nodupb (l : list string) : bool :=
  match l with [] => true | x :: r => negb (str_in x r) && nodupb r end.
Definition inclb (l N : list string) : bool := forallb (fun x => str_in x N) l.

Lemma str_in_In x l : str_in x l = true <-> In x l.
Proof.
  induction l as [|y r IH]; simpl; [split; [discriminate|contradiction]|].
  rewrite orb_true_iff, IH, String.eqb_eq. split; intros [H|H]; auto.
Qed.

Lemma nodupb_NoDup l : nodupb l = true -> NoDup l.
Proof.
  induction l as [|x r IH]; simpl; intros H; [constructor|].
  apply andb_true_iff in H. destruct H as [H1 H2]. constructor; [|apply IH; exact H2].
  intros Hin. apply str_in_In in Hin. rewrite Hin in H1. discriminate.
Qed.

Lemma inclb_incl l N : inclb l N = true -> incl l N.
Proof.
  unfold inclb. rewrite forallb_forall. intros H x Hx. apply str_in_In. apply H. exact Hx.
Qed.

Section Check.
  Variable dom : mdomain.
  Variable N : list string.
  Variable B : list string.

  Definition argsb (args : list string) : bool := inclb args N && nodupb args.

  Fixpoint treeb (t : mtree) : bool :=
    match t with
    | TNum _ => true
    | TFn _ args => argsb args
    | TNode _ l r => treeb l && treeb r
    end.
  Definition numexpb (t : mtree) : bool := match t with TNode _ _ _ => treeb t | _ => false end.
  Definition pairsb (l : list (string * string)) : bool :=
    forallb (fun ab => str_in (fst ab) N && str_in (snd ab) N) l.

  Fixpoint preb (p : mpre) : bool :=
    match p with
    | MPre _ os eqs neqs =>
        pairsb eqs && pairsb neqs &&
        (fix go (l : list mcond) : bool := match l with [] => true | c :: r => condb c && go r end) os
    end
  with condb (c : mcond) : bool :=
    match c with
    | MLit _ _ args => argsb args
    | MNum t => numexpb t
    | MNested q => preb q
    | MUniv v _ body => str_in v B && preb body
    end.

  Definition condeffb (ce : mcondeff) : bool :=
    preb (ce_ante ce) && forallb (fun l => argsb (l_args l)) (ce_disc ce) && forallb numexpb (ce_num ce).
  Definition actionb (a : maction) : bool :=
    nodupb (dkeys (ma_sig a)) && inclb (dkeys (ma_sig a)) N &&
    preb (ma_pre a) && forallb (fun l => argsb (l_args l)) (ma_disc a) && forallb numexpb (ma_num a) &&
    forallb condeffb (ma_cond a) && forallb (fun ue => str_in (ue_var ue) B && condeffb (ue_ce ue)) (ma_univ a).

  Definition goodb (m : renaming) : bool :=
    forallb (fun x => forallb (fun y => negb (String.eqb (rn m x) (rn m y)) || String.eqb x y) N) N &&
    forallb (fun n => String.eqb (rn m n) n ||
                      (negb (str_in (rn m n) B) && negb (dmem (d_consts dom) (rn m n)) && negb (dmem (d_consts dom) n))) N.

  (* ---------- soundness ---------- *)
  Lemma goodb_good m : goodb m = true -> good dom N B m.
  Proof.
    unfold goodb. rewrite andb_true_iff, !forallb_forall. intros [H1 H2]. split.
    - intros x y Hx Hy Heq. specialize (H1 x Hx). rewrite forallb_forall in H1. specialize (H1 y Hy).
      rewrite Heq, String.eqb_refl in H1. simpl in H1. apply String.eqb_eq. exact H1.
    - intros n Hn Hne. specialize (H2 n Hn). apply orb_true_iff in H2. destruct H2 as [H2|H2].
      + apply String.eqb_eq in H2. contradiction.
      + rewrite !andb_true_iff, !negb_true_iff in H2. destruct H2 as [[Hb Hc1] Hc2]. unfold is_const.
        repeat split; auto. intros Hin. apply str_in_In in Hin. rewrite Hin in Hb. discriminate.
  Qed.

  Lemma map_rn_nil (l : list string) : map (rn []) l = l.
  Proof. rewrite <- (map_id l) at 2. apply map_ext. intros n. reflexivity. Qed.

  Lemma argsb_ok m args : good dom N B m -> argsb args = true -> args_ok N m args.
  Proof.
    intros [Hinj _] H. unfold argsb in H. apply andb_true_iff in H. destruct H as [Hi Hn].
    apply inclb_incl in Hi. apply nodupb_NoDup in Hn. split; [exact Hi|].
    apply NoDup_map_inj; [|exact Hn]. intros x y Hx Hy. apply Hinj; apply Hi; assumption.
  Qed.

  Lemma treeb_ok m t : good dom N B m -> treeb t = true -> tree_ok N m t.
  Proof.
    intros Hg. induction t as [x|f args|op l IHl r IHr]; simpl; intros H.
    - exact I.
    - apply argsb_ok; assumption.
    - apply andb_true_iff in H. destruct H. split; auto.
  Qed.

  Lemma numexpb_ok m t : good dom N B m -> numexpb t = true -> numexp_ok N m t.
  Proof.
    intros Hg H. destruct t as [x|f args|op l r]; simpl in H; try discriminate.
    split; [exact I|]. apply (treeb_ok m (TNode op l r) Hg H).
  Qed.

  Lemma pairsb_ok l : pairsb l = true -> pairs_ok N l.
  Proof.
    unfold pairsb. rewrite forallb_forall. intros H ab Hab. specialize (H ab Hab).
    apply andb_true_iff in H. destruct H as [Ha Hb]. split; apply str_in_In; assumption.
  Qed.

  Lemma preb_ok : forall p m, good dom N B m -> preb p = true -> pre_ok N B m p.
  Proof.
    apply (mpre_ind'
             (fun p => forall m, good dom N B m -> preb p = true -> pre_ok N B m p)
             (fun c => forall m, good dom N B m -> condb c = true -> cond_ok N B m c)).
    - intros op os eqs neqs IH m Hg H. apply pre_ok_unfold.
      simpl in H. rewrite !andb_true_iff in H. destruct H as [[He Hn] Hos].
      split; [apply pairsb_ok; exact He|]. split; [apply pairsb_ok; exact Hn|].
      induction os as [|c r IHr]; [constructor|].
      apply andb_true_iff in Hos. destruct Hos as [Hc Hr]. inversion IH as [|? ? Hic Hir]; subst.
      constructor; [apply Hic; assumption|apply IHr; assumption].
    - intros pos p args m Hg H. apply (argsb_ok m args Hg H).
    - intros t m Hg H. apply (numexpb_ok m t Hg H).
    - intros q IH m Hg H. apply (IH m Hg H).
    - intros v ty b IH m Hg H. simpl in H. apply andb_true_iff in H. destruct H as [Hv Hb].
      apply str_in_In in Hv. split; [exact Hv|]. apply IH; [apply good_under; assumption|exact Hb].
  Qed.

  Lemma Forall_of_forallb {A} (f : A -> bool) (P : A -> Prop) l :
    (forall x, f x = true -> P x) -> forallb f l = true -> Forall P l.
  Proof.
    intros H Hf. rewrite forallb_forall in Hf. apply Forall_forall. intros x Hx. apply H. apply Hf. exact Hx.
  Qed.

  Lemma condeffb_ok m ce : good dom N B m -> condeffb ce = true -> condeff_ok N B m ce.
  Proof.
    intros Hg H. unfold condeffb in H. rewrite !andb_true_iff in H. destruct H as [[Hp Hd] Hn].
    split; [apply preb_ok; assumption|]. split.
    - apply (Forall_of_forallb _ _ _ (fun l Hl => argsb_ok m (l_args l) Hg Hl) Hd).
    - apply (Forall_of_forallb _ _ _ (fun t Ht => numexpb_ok m t Hg Ht) Hn).
  Qed.

  Lemma actionb_ok m a : good dom N B m -> actionb a = true -> action_ok N B m a /\ incl (dkeys (ma_sig a)) N.
  Proof.
    intros Hg H. unfold actionb in H. rewrite !andb_true_iff in H.
    destruct H as [[[[[[Hnd Hincl] Hp] Hd] Hn] Hc] Hu].
    apply inclb_incl in Hincl. split; [|exact Hincl].
    split.
    { apply NoDup_map_inj; [|apply nodupb_NoDup; exact Hnd].
      destruct Hg as [Hinj _]. intros x y Hx Hy. apply Hinj; apply Hincl; assumption. }
    split; [apply preb_ok; assumption|].
    split; [apply (Forall_of_forallb _ _ _ (fun l Hl => argsb_ok m (l_args l) Hg Hl) Hd)|].
    split; [apply (Forall_of_forallb _ _ _ (fun t Ht => numexpb_ok m t Hg Ht) Hn)|].
    split; [apply (Forall_of_forallb _ _ _ (fun ce Hce => condeffb_ok m ce Hg Hce) Hc)|].
    refine (Forall_of_forallb _ _ _ _ Hu).
    intros ue Hue. apply andb_true_iff in Hue. destruct Hue as [Hv Hce]. apply str_in_In in Hv.
    split; [exact Hv|]. apply condeffb_ok; [apply good_under; assumption|exact Hce].
  Qed.

  (* the parameter maps of the two groundings *)
  Lemma dget_combine_ren m : forall (ps args : list string) (n : string),
    (forall p, In p ps -> rn m p = rn m n -> p = n) ->
    dget (combine (map (rn m) ps) args) (rn m n) = dget (combine ps args) n.
  Proof.
    induction ps as [|p r IH]; intros args n H; simpl; [reflexivity|].
    destruct args as [|a rest]; simpl; [reflexivity|].
    destruct (String.eqb n p) eqn:E.
    - apply String.eqb_eq in E. subst p. rewrite String.eqb_refl. reflexivity.
    - destruct (String.eqb (rn m n) (rn m p)) eqn:E2.
      + apply String.eqb_eq in E2. symmetry in E2. apply H in E2; [|left; reflexivity].
        subst p. rewrite String.eqb_refl in E. discriminate.
      + apply IH. intros q Hq. apply H. right. exact Hq.
  Qed.

  Lemma compat_top m ps args :
    good dom N B m -> incl ps N -> compat N m (combine ps args) (combine (map (rn m) ps) args).
  Proof.
    intros [Hinj _] Hincl n Hn. apply dget_combine_ren. intros p Hp. apply Hinj; [apply Hincl; exact Hp|exact Hn].
  Qed.
End Check.

(* the side condition, with the canonical choice of N and B *)
Definition renaming_ok (dom : mdomain) (a : maction) (m : renaming) : bool :=
  let N := names_action a in
  let B := bound_maction a in
  actionb N B a && goodb dom N B m.

(* what "the same behaviour for every argument tuple" means on the executable model: for the same call,
   grounding fails for both with the same error, or succeeds for both and then the two grounded actions are
   applicable in the same states and produce the same successors, whatever the tolerance, the object table, the
   flags and the orders in which the effect collections are visited *)
Definition same_behaviour (dom : mdomain) (a a' : maction) : Prop :=
  forall args,
    match ground_action dom a args, ground_action dom a' args with
    | Ok ga, Ok ga' =>
        (forall eps objs s, is_applicable dom eps objs ga' s = is_applicable dom eps objs ga s) /\
        (forall eps objs allow skip order uorder s,
            apply_op dom eps ga' objs allow skip order uorder s = apply_op dom eps ga objs allow skip order uorder s)
    | Err k, Err k' => k = k'
    | _, _ => False
    end.

Theorem rename_same_behaviour (dom : mdomain) (a : maction) (m : renaming) :
  renaming_ok dom a m = true -> same_behaviour dom a (change_signature m a).
Proof.
  unfold renaming_ok. intros H. apply andb_true_iff in H. destruct H as [Ha Hg].
  set (N := names_action a) in *. set (B := bound_maction a) in *.
  apply goodb_good in Hg. destruct (actionb_ok dom N B m a Hg Ha) as [Hok Hincl].
  intros args.
  assert (Hrel : forall eps, rel_result (gaeq dom N B eps m) (ground_action dom a args)
                                        (ground_action dom (change_signature m a) args)).
  { intros eps. apply ground_action_ren; [exact Hg|exact Hok|]. apply (compat_top dom N B); assumption. }
  destruct (ground_action dom a args) as [ga|k], (ground_action dom (change_signature m a) args) as [ga'|k'].
  - split.
    + intros eps objs s. apply (is_applicable_ren dom N B eps m). apply (Hrel eps).
    + intros eps objs allow skip order uorder s. apply (apply_op_ren dom N B eps m); [exact Hg|apply (Hrel eps)].
  - exact (Hrel 0%float).
  - exact (Hrel 0%float).
  - exact (Hrel 0%float).
Qed.

(* the same side condition gives "no literal gets two equal argument names" of Proofs.C18_Denote *)
Section Distinct.
  Variable dom : mdomain.
  Variable N B : list string.

  Lemma tree_ok_distinct m t : tree_ok N m t -> distinct_tree m t.
  Proof.
    induction t as [x|f args|op l IHl r IHr]; simpl; intros H; [exact I|exact (proj2 H)|].
    destruct H. split; auto.
  Qed.

  Lemma numexp_ok_distinct m t : numexp_ok N m t -> distinct_tree m t.
  Proof. intros [_ H]. apply tree_ok_distinct. exact H. Qed.

  Lemma pre_ok_distinct : forall p m, pre_ok N B m p -> distinct_pre m p.
  Proof.
    apply (mpre_ind' (fun p => forall m, pre_ok N B m p -> distinct_pre m p)
                     (fun c => forall m, cond_ok N B m c -> distinct_cond m c)).
    - intros op os eqs neqs IH m H. apply pre_ok_unfold in H. destruct H as [_ [_ Hos]].
      apply distinct_pre_unfold. rewrite Forall_forall in *. intros c Hc. apply IH; auto.
    - intros pos p args m H. exact (proj2 H).
    - intros t m H. apply (numexp_ok_distinct m t H).
    - intros q IH m H. apply (IH m H).
    - intros v ty b IH m [_ H]. apply (IH (drop m v) H).
  Qed.

  Lemma condeff_ok_distinct m ce : condeff_ok N B m ce -> distinct_condeff m ce.
  Proof.
    intros [Hp [Hd Hn]]. split; [apply pre_ok_distinct; exact Hp|]. split.
    - rewrite Forall_forall in *. intros l Hl. exact (proj2 (Hd l Hl)).
    - rewrite Forall_forall in *. intros t Ht. apply numexp_ok_distinct. auto.
  Qed.

  Lemma action_ok_distinct m a : action_ok N B m a -> distinct_action m a.
  Proof.
    intros [Hs [Hp [Hd [Hn [Hc Hu]]]]]. split; [exact Hs|]. split; [apply pre_ok_distinct; exact Hp|].
    split; [rewrite Forall_forall in *; intros l Hl; exact (proj2 (Hd l Hl))|].
    split; [rewrite Forall_forall in *; intros t Ht; apply numexp_ok_distinct; auto|].
    split; [rewrite Forall_forall in *; intros ce Hce; apply condeff_ok_distinct; auto|].
    rewrite Forall_forall in *. intros ue Hue. apply condeff_ok_distinct. exact (proj2 (Hu ue Hue)).
  Qed.
End Distinct.

Lemma renaming_ok_distinct dom a m : renaming_ok dom a m = true -> distinct_action m a.
Proof.
  unfold renaming_ok. intros H. apply andb_true_iff in H. destruct H as [Ha Hg].
  apply goodb_good in Hg. destruct (actionb_ok dom _ _ m a Hg Ha) as [Hok _].
  apply (action_ok_distinct _ _ m a Hok).
Qed.

(* ---------- the side condition in words ----------
   For a well-formed action, a mapping m passes [renaming_ok] as soon as
     (i)   it moves parameters only,
     (ii)  it is injective on the parameters,
     (iii) a moved parameter lands on the name of another parameter (overlap is fine) or on a name that the
           action does not mention, that is not quantified in it and that is not a constant,
     (iv)  a moved parameter is not itself the name of a constant.
   Fresh names, permutations of the parameter names and chains ?a->?b->?c->fresh are instances. *)
Definition well_formed (a : maction) : bool := actionb (names_action a) (bound_maction a) a.

Lemma forallb_intro {A} (f : A -> bool) l : (forall x, In x l -> f x = true) -> forallb f l = true.
Proof. intros H. apply forallb_forall. exact H. Qed.

Theorem renaming_ok_intro (dom : mdomain) (a : maction) (m : renaming) :
  let ps := dkeys (ma_sig a) in
  well_formed a = true ->
  (forall n, ~ In n ps -> rn m n = n) ->
  (forall x y, In x ps -> In y ps -> rn m x = rn m y -> x = y) ->
  (forall p, In p ps -> rn m p <> p ->
     (In (rn m p) ps \/ ~ In (rn m p) (names_action a)) /\
     ~ In (rn m p) (bound_maction a) /\ dmem (d_consts dom) (rn m p) = false /\ dmem (d_consts dom) p = false) ->
  renaming_ok dom a m = true.
Proof.
  intros ps Hwf Hmove Hinj Hland. unfold renaming_ok. fold (well_formed a). rewrite Hwf. simpl.
  unfold goodb. apply andb_true_iff. split.
  - apply forallb_intro. intros x Hx. apply forallb_intro. intros y Hy.
    destruct (String.eqb (rn m x) (rn m y)) eqn:E; [|reflexivity]. simpl.
    apply String.eqb_eq in E. apply String.eqb_eq.
    destruct (in_dec string_dec x ps) as [Px|Px]; destruct (in_dec string_dec y ps) as [Py|Py].
    + apply Hinj; assumption.
    + rewrite (Hmove y Py) in E.
      destruct (string_dec (rn m x) x) as [Ex|Ex]; [congruence|].
      destruct (Hland x Px Ex) as [[Hin|Hnot] _].
      * rewrite E in Hin. contradiction.
      * rewrite E in Hnot. contradiction.
    + rewrite (Hmove x Px) in E.
      destruct (string_dec (rn m y) y) as [Ey|Ey]; [congruence|].
      destruct (Hland y Py Ey) as [[Hin|Hnot] _].
      * rewrite <- E in Hin. contradiction.
      * rewrite <- E in Hnot. contradiction.
    + rewrite (Hmove x Px), (Hmove y Py) in E. exact E.
  - apply forallb_intro. intros n Hn.
    destruct (String.eqb (rn m n) n) eqn:E; [reflexivity|]. simpl.
    assert (Hne : rn m n <> n) by (intros H; rewrite H, String.eqb_refl in E; discriminate).
    destruct (in_dec string_dec n ps) as [Pn|Pn]; [|exfalso; apply Hne; apply Hmove; exact Pn].
    destruct (Hland n Pn Hne) as [_ [Hb [Hc1 Hc2]]].
    rewrite Hc1, Hc2.
    destruct (str_in (rn m n) (bound_maction a)) eqn:Eb; [|reflexivity].
    apply str_in_In in Eb. contradiction.
Qed.
