(* C07: the interleaving theorem tied to the operations of the store model.
   A fixed assignment `own : owner -> option nat` says which thread owns which region (None = shared: the module,
   the shared domains, states that existed before the threads started).  A tagged history (thread, op) is
   well-threaded (wt_hist) when every thread hands to its calls only shared values and values / operator objects
   of its own, and owns what its calls create.  Then every event of every operation respects the discipline of
   Proofs/C07_Interleave.v (writes go to cells private to the running thread, reads never touch another thread's
   cells), hence ANY interleaving of the threads' event sequences -- not only the operation-level one the model
   computed -- shows every thread exactly what it sees running alone. *)
From Coq Require Import List Bool Arith PeanoNat Lia.
From Verif Require Import Model.Store Proofs.C07_Frame Proofs.C07_Interleave Proofs.C07_Sep.
Import ListNotations.
Open Scope list_scope.

Lemma nth_set : forall {A} (l : list A) o x d o', o < length l ->
  nth o' (firstn o l ++ [x] ++ skipn (S o) l) d = if Nat.eqb o' o then x else nth o' l d.
Proof.
  induction l as [|y l IH]; intros o x d o' H; simpl in H; [lia|].
  destruct o; simpl.
  - destruct o'; simpl; auto.
  - destruct o'; simpl; auto. apply (IH o x d o'); lia.
Qed.

Lemma length_set : forall {A} (l : list A) o x, o < length l ->
  length (firstn o l ++ [x] ++ skipn (S o) l) = length l.
Proof.
  induction l as [|y l IH]; intros o x H; simpl in H; [lia|].
  destruct o; simpl; auto. f_equal. apply (IH o x); lia.
Qed.

Section Threads.
  Variable own : owner -> option nat.
  Hypothesis own_mod : own OMod = None.

  (* shared, or owned by thread t *)
  Definition mos (t : nat) (o : owner) : Prop := own o = None \/ own o = Some t.
  Definition tpriv (t : nat) (l : loc) : Prop := own (fst l) = Some t.
  Definition rd_ok (t : nat) (l : loc) : Prop := mos t (fst l).
  Definition wr_ok (t : nat) (l : loc) : Prop := own (fst l) = Some t.

  Definition Disc (t : nat) (evs : list event) : Prop := Forall (ev_ok tpriv t) evs.

  Lemma Disc_app : forall t a b, Disc t a -> Disc t b -> Disc t (a ++ b).
  Proof. intros; apply Forall_app; auto. Qed.
  Lemma Disc_nil : forall t, Disc t [].
  Proof. constructor. Qed.
  Lemma ev_ok_read : forall t l, rd_ok t l -> ev_ok tpriv t (Read l).
  Proof. intros t l [H|H] j Hj; unfold tpriv in Hj; congruence. Qed.
  Lemma Disc_Read : forall t ls, Forall (rd_ok t) ls -> Disc t (map Read ls).
  Proof.
    intros t ls H. apply Forall_forall. intros e He. apply in_map_iff in He as [l [<- Hl]].
    apply ev_ok_read. rewrite Forall_forall in H; auto.
  Qed.
  Lemma Disc_Write : forall t ls, Forall (wr_ok t) ls -> Disc t (map Write ls).
  Proof.
    intros t ls H. apply Forall_forall. intros e He. apply in_map_iff in He as [l [<- Hl]].
    rewrite Forall_forall in H. apply H; auto.
  Qed.
  Lemma Disc_Alloc : forall t ls, Disc t (map Alloc ls).
  Proof. intros. apply Forall_forall. intros e He. apply in_map_iff in He as [l [<- _]]. exact I. Qed.
  Lemma Disc_Link : forall t v ls, Disc t (map (Link v) ls).
  Proof. intros. apply Forall_forall. intros e He. apply in_map_iff in He as [l [<- _]]. exact I. Qed.
  Lemma Disc_cons : forall t e evs, ev_ok tpriv t e -> Disc t evs -> Disc t (e :: evs).
  Proof. intros; constructor; auto. Qed.

  Ltac disc1 :=
    lazymatch goal with
    | |- Disc _ [] => apply Disc_nil
    | |- Disc _ (map Read _) => apply Disc_Read
    | |- Disc _ (map Alloc _) => apply Disc_Alloc
    | |- Disc _ (map (Link _) _) => apply Disc_Link
    | |- Disc _ (map Write _) => apply Disc_Write
    | |- Disc _ (_ ++ _) => apply Disc_app
    | |- Disc _ (Read _ :: _) => apply Disc_cons; [apply ev_ok_read |]
    | |- Disc _ (Write _ :: _) => apply Disc_cons; [cbn [ev_ok]; unfold tpriv; cbn [fst] |]
    | |- Disc _ (Alloc _ :: _) => apply Disc_cons; [exact I |]
    | |- Disc _ (Link _ _ :: _) => apply Disc_cons; [exact I |]
    end.
  Ltac disc := repeat disc1.

  (* ---------------------------------------------------------------- the invariant *)
  Definition compat (s : nat) (l : loc) : Prop := own (fst l) = None \/ own (fst l) = own (OSt s).
  Definition OpInv (m : mstate) : Prop := forall o t, o < length (ops m) -> own (OOp o) = Some t ->
    mos t (ODom (o_dom (nth o (ops m) dflt_o))) /\
    (forall p, o_objs (nth o (ops m) dflt_o) = Some p -> mos t (OSt p)).
  Definition TInv (m : mstate) : Prop := DomInv m /\ StInv compat m /\ OpInv m.

  (* what a call of thread t may be handed, and what it must own *)
  Definition wt (t : nat) (m : mstate) (p : op) : Prop :=
    match p with
    | ONop => True
    | OParseDomain _ _ | ONewDomain | OCombine _ => own (ODom (length (doms m))) = Some t
    | OShallowCopy d => mos t (ODom d) /\ own (ODom (length (doms m))) = Some t
    | OParseProblem d _ => mos t (ODom d) /\ own (OSt (length (sts m))) = Some t
    | OMkOp d _ objs _ =>
        mos t (ODom d) /\ (forall p, objs = Some p -> mos t (OSt p)) /\ own (OOp (length (ops m))) = Some t
    | OGround o | OReadOp o => o < length (ops m) /\ own (OOp o) = Some t
    | OApplicable o s => o < length (ops m) /\ own (OOp o) = Some t /\ mos t (OSt s)
    | OApply o s _ _ =>
        o < length (ops m) /\ own (OOp o) = Some t /\ mos t (OSt s) /\ own (OSt (length (sts m))) = Some t
    | OCopy s => mos t (OSt s) /\ own (OSt (length (sts m))) = Some t
    | OReadState s => mos t (OSt s)
    | OReadDomain d => mos t (ODom d)
    | OTriplet d _ s pobjs _ _ =>
        mos t (ODom d) /\ mos t (OSt s) /\ mos t (OSt pobjs) /\
        own (OOp (length (ops m))) = Some t /\ own (OSt (length (sts m))) = Some t
    | ONewState d p _ => mos t (ODom d) /\ mos t (OSt p) /\ own (OSt (length (sts m))) = Some t
    end.

  (* ---------------------------------------------------------------- reads of values *)
  Lemma state_reads : forall t m s, StInv compat m -> mos t (OSt s) ->
    Forall (rd_ok t) (st_cells (nth s (sts m) dflt_s)).
  Proof.
    intros t m s H Hs. eapply Forall_impl; [| apply (H s)].
    intros l [Hl|Hl]; unfold rd_ok, mos; [left; auto|]. destruct Hs as [Hs|Hs]; rewrite Hs in Hl; auto.
  Qed.

  Lemma dom_reads : forall t m d, DomInv m -> mos t (ODom d) ->
    Forall (rd_ok t) (dom_cells d (nth d (doms m) dflt_d)).
  Proof.
    intros t m d H Hd. unfold dom_cells. constructor; [| constructor].
    - destruct (Nat.lt_ge_cases d (length (doms m))) as [L|G].
      + rewrite H by auto. exact Hd.
      + rewrite nth_overflow by auto. simpl. unfold rd_ok, mos; simpl. left; exact own_mod.
    - exact Hd.
    - apply Forall_forall. intros x Hx. apply in_map_iff in Hx as [i [<- _]]. exact Hd.
  Qed.

  Lemma region_wr : forall t o a n, own o = Some t -> Forall (wr_ok t) (region o a n).
  Proof. intros. apply Forall_region. intros; exact H. Qed.
  Lemma region_rd : forall t o a n, mos t o -> Forall (rd_ok t) (region o a n).
  Proof. intros. apply Forall_region. intros; exact H. Qed.

  (* ---------------------------------------------------------------- the pieces *)
  Lemma D_new_domain : forall c t m typed nacts u, fix18 c = true -> own (ODom (length (doms m))) = Some t ->
    Disc t (snd (ev_new_domain c m typed nacts u)).
  Proof.
    intros c t m typed nacts u F Ho. unfold ev_new_domain, new_domain_types. rewrite F.
    assert (W : Forall (wr_ok t) ((ODom (length (doms m)), 1)
                 :: map (fun i => (ODom (length (doms m)), 2 + i)) (seq 0 nacts))).
    { constructor; [exact Ho|]. apply Forall_forall. intros x Hx. apply in_map_iff in Hx as [i [<- _]]. exact Ho. }
    destruct typed; cbn [snd]; destruct u; disc; auto;
      try (unfold rd_ok, mos; cbn [fst]; left; exact own_mod).
  Qed.

  Lemma D_fresh_state : forall t s n keys, own (OSt s) = Some t -> Forall (wr_ok t) (st_cells (fresh_state s n keys)).
  Proof. intros. apply fresh_state_cells. intros; exact H. Qed.

  Lemma D_copy : forall t m src, Forall (rd_ok t) (st_cells src) -> own (OSt (length (sts m))) = Some t ->
    Disc t (snd (ev_copy_state m src)).
  Proof. intros. unfold ev_copy_state; cbn [snd]. disc; auto. apply D_fresh_state; auto. Qed.

  Lemma D_ground : forall t m o oi, own (OOp o) = Some t -> mos t (ODom (o_dom oi)) ->
    Disc t (snd (ev_ground m o oi)).
  Proof.
    intros. unfold ev_ground; cbn [snd]. disc; auto; try exact H0.
  Qed.

  Definition objs_ok (t : nat) (oi : oinfo) : Prop := forall p, o_objs oi = Some p -> mos t (OSt p).

  Lemma D_objs_reads : forall t m oi, objs_ok t oi -> Disc t (objs_reads m oi).
  Proof.
    intros t m oi H. unfold objs_reads. unfold objs_ok in H. destruct (o_objs oi); disc. apply H; auto.
  Qed.

  Lemma D_applicable : forall t m o oi si, own (OOp o) = Some t -> Forall (rd_ok t) (st_cells si) -> objs_ok t oi ->
    mos t (ODom (o_dom oi)) -> Disc t (ev_applicable m o oi si).
  Proof.
    intros t m o oi si Ho Hs Hp Hd. unfold ev_applicable. disc; auto; try exact Hd.
    - apply D_objs_reads; auto.
    - apply region_wr; auto.
  Qed.

  Lemma D_effects : forall c t o s effs i si fresh, fix16 c = true -> own (OOp o) = Some t -> own (OSt s) = Some t ->
    Forall (rd_ok t) (st_cells si) -> Disc t (snd (ev_effects c o s i effs si fresh)).
  Proof.
    intros c t o s effs. induction effs as [|[k nrhs] r IH]; intros i si fresh F Ho Hs Hsi; simpl.
    - disc.
    - rewrite F.
      destruct (ev_effects c o s (S (i + nrhs)) r
                 {| s_cells := s_cells si; s_vals := set_val (s_vals si) k (OSt s, fresh) |} (S fresh)) as [si'' evs3] eqn:E.
      cbn [snd].
      assert (Hsi' : Forall (rd_ok t) (st_cells {| s_cells := s_cells si; s_vals := set_val (s_vals si) k (OSt s, fresh) |})).
      { unfold st_cells in *; cbn [s_cells s_vals]. apply Forall_app in Hsi as [H1 H2]. apply Forall_app; split; auto.
        apply set_val_cells; auto. unfold rd_ok, mos; cbn [fst]. right; auto. }
      specialize (IH (S (i + nrhs)) _ (S fresh) F Ho Hs Hsi'). rewrite E in IH; cbn [snd] in IH.
      disc; auto; try (apply region_wr; auto); try (unfold rd_ok, mos; cbn [fst]; right; auto).
  Qed.

  Lemma D_universal : forall c t m oi, fix15 c = true -> objs_ok t oi -> mos t (ODom (o_dom oi)) ->
    Disc t (ev_universal c m oi).
  Proof.
    intros c t m oi F Hp Hd. unfold ev_universal. rewrite F. unfold objs_ok in Hp.
    destruct (o_objs oi) as [p|]; [| disc].
    destruct (Nat.eqb (a_forall (o_sh oi)) 0); disc; try (apply Hp; auto); exact Hd.
  Qed.

  Lemma D_apply_body : forall c t m o oi src, fix15 c = true -> fix16 c = true ->
    own (OOp o) = Some t -> own (OSt (length (sts m))) = Some t -> Forall (rd_ok t) (st_cells src) ->
    objs_ok t oi -> mos t (ODom (o_dom oi)) -> Disc t (snd (ev_apply_body c m o oi src)).
  Proof.
    intros c t m o oi src F15 F16 Ho Hs Hsrc Hp Hd. unfold ev_apply_body.
    destruct (ev_copy_state m src) as [si evc] eqn:Ec.
    destruct (ev_effects c o (length (sts m)) (o_base oi + a_pre (o_sh oi)) (a_effs (o_sh oi)) si
               (3 + length (s_vals si))) as [si' eve] eqn:Ee.
    cbn [snd]. disc.
    - pose proof (D_copy t m src Hsrc Hs) as G. rewrite Ec in G; auto.
    - exact Hs.
    - pose proof (D_effects c t o (length (sts m)) (a_effs (o_sh oi)) (o_base oi + a_pre (o_sh oi)) si
                    (3 + length (s_vals si)) F16 Ho Hs) as G. rewrite Ee in G; apply G.
      unfold ev_copy_state in Ec. inversion Ec; subst.
      eapply Forall_impl; [| apply (D_fresh_state t (length (sts m)) 2 (map fst (s_vals src)) Hs)].
      intros l Hl. unfold rd_ok, mos. right; exact Hl.
    - apply D_universal; auto.
  Qed.

  Definition same_refs (a b : oinfo) : Prop :=
    o_dom a = o_dom b /\ o_objs a = o_objs b /\ o_act a = o_act b /\ o_sh a = o_sh b.

  Lemma ensure_grounded_spec : forall t m o m1 oi evg, ensure_grounded m o = (m1, oi, evg) ->
    own (OOp o) = Some t -> mos t (ODom (o_dom (nth o (ops m) dflt_o))) ->
    same_refs oi (nth o (ops m) dflt_o) /\ Disc t evg /\ (m1 = m \/ m1 = set_op m o oi).
  Proof.
    intros t m o m1 oi evg H Ho Hd. unfold ensure_grounded in H.
    destruct (o_grounded (nth o (ops m) dflt_o)).
    - inversion H; subst. repeat split; auto. disc.
    - destruct (ev_ground m o (nth o (ops m) dflt_o)) as [oi' evs] eqn:E. inversion H; subst.
      pose proof (D_ground t m o (nth o (ops m) dflt_o) Ho Hd) as G. rewrite E in G.
      unfold ev_ground in E. inversion E; subst. repeat split; auto.
  Qed.

  (* ---------------------------------------------------------------- operator table *)
  Lemma OpInv_same : forall m m', ops m' = ops m -> OpInv m -> OpInv m'.
  Proof. intros m m' E H o t. rewrite E. apply H. Qed.

  Lemma OpInv_set : forall m o oi, OpInv m -> o < length (ops m) -> same_refs oi (nth o (ops m) dflt_o) ->
    OpInv (set_op m o oi).
  Proof.
    intros m o oi H Ho (E1 & E2 & _) o' t. unfold set_op; cbn [ops].
    rewrite length_set by auto. intros L Hown. rewrite nth_set by auto.
    destruct (Nat.eqb o' o) eqn:E.
    - apply Nat.eqb_eq in E; subst o'. rewrite E1, E2. apply H; auto.
    - apply H; auto.
  Qed.

  Lemma OpInv_add : forall m oi,
    OpInv m -> (forall t, own (OOp (length (ops m))) = Some t -> mos t (ODom (o_dom oi)) /\ objs_ok t oi) ->
    OpInv (fst (add_op m oi)).
  Proof.
    intros m oi H Hn o t. unfold add_op; cbn [fst ops]. rewrite app_length; simpl. intros L Hown.
    destruct (Nat.eq_dec o (length (ops m))) as [->|N].
    - rewrite app_nth2, Nat.sub_diag by lia. simpl. apply Hn; auto.
    - rewrite app_nth1 by lia. apply H; auto. lia.
  Qed.

  Lemma apply_body_ops : forall c m o oi src, ops (fst (ev_apply_body c m o oi src)) = ops m.
  Proof.
    intros. unfold ev_apply_body. destruct (ev_copy_state m src) as [si evc].
    destruct (ev_effects c o (length (sts m)) (o_base oi + a_pre (o_sh oi)) (a_effs (o_sh oi)) si
               (3 + length (s_vals si))) as [si' eve]. reflexivity.
  Qed.

  Lemma new_domain_ops : forall c m typed nacts u, ops (fst (ev_new_domain c m typed nacts u)) = ops m.
  Proof.
    intros. unfold ev_new_domain. destruct (new_domain_types c (length (doms m)) typed) as [x evs]. reflexivity.
  Qed.

  Lemma OpInv_grounded : forall m o m1 oi, OpInv m -> o < length (ops m) ->
    same_refs oi (nth o (ops m) dflt_o) -> (m1 = m \/ m1 = set_op m o oi) -> OpInv m1.
  Proof. intros m o m1 oi H Ho Hs [->| ->]; auto. apply OpInv_set; auto. Qed.

  (* ---------------------------------------------------------------- one operation *)
  Lemma step_disc : forall c t m p, writes_fixed c = true -> TInv m -> wt t m p -> Disc t (snd (step c m p)).
  Proof.
    intros c t m p F (HD & HS & HO) W. unfold writes_fixed in F. apply andb_true_iff in F as [F F18].
    apply andb_true_iff in F as [F15 F16].
    destruct p; cbn [step]; cbn [wt] in W.
    - cbn [snd]. disc.
    - apply D_new_domain; auto.
    - apply D_new_domain; auto.
    - apply D_new_domain; auto.
    - destruct W as [Wd Wn].
      destruct (ev_new_domain c m true (d_nacts (nth d (doms m) dflt_d)) false) as [m' evs] eqn:E. cbn [snd].
      disc. + apply dom_reads; auto.
      + pose proof (D_new_domain c t m true (d_nacts (nth d (doms m) dflt_d)) false F18 Wn) as G. rewrite E in G; auto.
    - destruct W as [Wd Wn]. cbn [snd]. disc.
      + apply dom_reads; auto.
      + apply D_fresh_state; auto.
    - destruct (add_op m (mk_oinfo d a objs sh)) as [m0 evo] eqn:E. cbn [snd].
      unfold add_op in E. inversion E; subst. disc.
    - destruct W as [Wo Wn]. destruct (HO o t Wo Wn) as [Hd Hp].
      destruct (ev_ground m o (nth o (ops m) dflt_o)) as [oi evs] eqn:E. cbn [snd].
      pose proof (D_ground t m o (nth o (ops m) dflt_o) Wn Hd) as G. rewrite E in G; auto.
    - destruct W as (Wo & Wn & Ws). destruct (HO o t Wo Wn) as [Hd Hp].
      destruct (ensure_grounded m o) as [[m1 oi] evg] eqn:E. cbn [snd].
      destruct (ensure_grounded_spec t m o m1 oi evg E Wn Hd) as ((R1 & R2 & _) & Dg & _).
      disc; auto. apply D_applicable; auto.
      + apply state_reads; auto.
      + unfold objs_ok. rewrite R2. exact Hp.
      + rewrite R1. exact Hd.
    - destruct W as (Wo & Wn & Ws & Wns). destruct (HO o t Wo Wn) as [Hd Hp].
      destruct (ensure_grounded m o) as [[m1 oi] evg] eqn:E.
      destruct (ensure_grounded_spec t m o m1 oi evg E Wn Hd) as ((R1 & R2 & _) & Dg & _).
      pose proof (ensure_grounded_same m o m1 oi evg E) as (_ & Es & _).
      assert (Hp' : objs_ok t oi) by (unfold objs_ok; rewrite R2; exact Hp).
      assert (Hd' : mos t (ODom (o_dom oi))) by (rewrite R1; exact Hd).
      assert (Hsrc : Forall (rd_ok t) (st_cells (nth s (sts m) dflt_s))) by (apply state_reads; auto).
      assert (Da : Disc t (if skip then [] else ev_applicable m1 o oi (nth s (sts m) dflt_s))).
      { destruct skip; disc. apply D_applicable; auto. }
      destruct raised.
      + cbn [snd]. disc; auto.
      + destruct (ev_apply_body c m1 o oi (nth s (sts m) dflt_s)) as [m2 evb] eqn:Eb. cbn [snd].
        disc; auto.
        pose proof (D_apply_body c t m1 o oi (nth s (sts m) dflt_s) F15 F16 Wn) as G.
        rewrite Eb, Es, R1 in G. apply G; auto.
    - destruct W as [Ws Wn].
      destruct (ev_copy_state m (nth s (sts m) dflt_s)) as [si evs] eqn:E. cbn [snd].
      pose proof (D_copy t m (nth s (sts m) dflt_s) (state_reads t m s HS Ws) Wn) as G. rewrite E in G; auto.
    - cbn [snd]. disc.
      + unfold rd_ok, mos; cbn [fst]. left; exact own_mod.
      + apply state_reads; auto.
    - cbn [snd]. disc. apply dom_reads; auto.
    - destruct W as [Wo Wn]. destruct (HO o t Wo Wn) as [Hd Hp]. cbn [snd]. disc.
      + unfold rd_ok, mos; cbn [fst]. right; auto.
      + exact Hd.
      + apply D_objs_reads; auto.
    - destruct W as (Wd & Ws & Wp & Wno & Wns).
      destruct (add_op m (mk_oinfo d a (Some pobjs) sh)) as [m0 evo] eqn:E0.
      pose proof (add_op_same m _ m0 evo E0) as (Ed0 & Es0 & _).
      assert (Eo0 : nth (length (ops m)) (ops m0) dflt_o = mk_oinfo d a (Some pobjs) sh).
      { unfold add_op in E0. inversion E0; subst; cbn [ops]. rewrite app_nth2, Nat.sub_diag by lia. reflexivity. }
      assert (Devo : Disc t evo) by (unfold add_op in E0; inversion E0; subst; disc).
      destruct (ensure_grounded m0 (length (ops m))) as [[m1 oi] evg] eqn:E1.
      assert (Hd0 : mos t (ODom (o_dom (nth (length (ops m)) (ops m0) dflt_o)))) by (rewrite Eo0; exact Wd).
      destruct (ensure_grounded_spec t m0 (length (ops m)) m1 oi evg E1 Wno Hd0) as ((R1 & R2 & _) & Dg & _).
      pose proof (ensure_grounded_same m0 _ m1 oi evg E1) as (Ed1 & Es1 & _).
      rewrite Eo0 in R1, R2. cbn [mk_oinfo o_dom o_objs] in R1, R2.
      assert (Hp' : objs_ok t oi). { unfold objs_ok. rewrite R2. intros p Hp. inversion Hp; subst; auto. }
      assert (Hd' : mos t (ODom (o_dom oi))) by (rewrite R1; exact Wd).
      assert (Hsrc : Forall (rd_ok t) (st_cells (nth s (sts m) dflt_s))) by (apply state_reads; auto).
      assert (Es : sts m1 = sts m) by congruence.
      assert (Da : Disc t (ev_applicable m1 (length (ops m)) oi (nth s (sts m) dflt_s))) by (apply D_applicable; auto).
      destruct refused.
      + destruct (fix17 c).
        * destruct (ev_copy_state m1 (nth s (sts m) dflt_s)) as [si evs] eqn:Ec. cbn [snd].
          disc; auto.
          pose proof (D_copy t m1 (nth s (sts m) dflt_s) Hsrc) as G. rewrite Ec, Es in G; auto.
        * cbn [snd]. disc; auto.
      + destruct (ev_apply_body c m1 (length (ops m)) oi (nth s (sts m) dflt_s)) as [m2 evb] eqn:Eb. cbn [snd].
        disc; auto.
        pose proof (D_apply_body c t m1 (length (ops m)) oi (nth s (sts m) dflt_s) F15 F16 Wno) as G.
        rewrite Eb, Es in G. apply G; auto.
    - destruct W as (Wd & Wp & Wn). cbn [snd]. disc.
      + apply dom_reads; auto.
      + exact Wp.
      + apply D_fresh_state; auto.
  Qed.

  Lemma step_TInv : forall c t m p, writes_fixed c = true -> TInv m -> wt t m p -> TInv (fst (step c m p)).
  Proof.
    intros c t m p F (HD & HS & HO) W. pose proof F as F'. unfold writes_fixed in F. apply andb_true_iff in F as [F F18].
    apply andb_true_iff in F as [F15 F16].
    split; [apply step_DomInv; auto | split].
    - apply step_StInv; auto.
      + intros i. unfold compat; cbn [fst]. right; reflexivity.
      + intros F17. destruct p; auto. destruct refused; auto. cbn [wt] in W.
        destruct W as (_ & Ws & _ & _ & Wns). intros l [Hl|Hl]; unfold compat; [left; auto|].
        rewrite Wns. destruct Ws as [Ws|Ws]; rewrite Ws in Hl; auto.
    - destruct p; cbn [step]; cbn [wt] in W.
      + auto.
      + eapply OpInv_same; [apply new_domain_ops | auto].
      + eapply OpInv_same; [apply new_domain_ops | auto].
      + eapply OpInv_same; [apply new_domain_ops | auto].
      + destruct (ev_new_domain c m true (d_nacts (nth d (doms m) dflt_d)) false) as [m' evs] eqn:E. cbn [fst].
        eapply OpInv_same; [| apply HO].
        pose proof (new_domain_ops c m true (d_nacts (nth d (doms m) dflt_d)) false) as G. rewrite E in G; auto.
      + cbn [fst]. eapply OpInv_same; [| apply HO]. reflexivity.
      + destruct W as (Wd & Wp & Wn).
        pose proof (OpInv_add m (mk_oinfo d a objs sh) HO) as G.
        destruct (add_op m (mk_oinfo d a objs sh)) as [m0 evo] eqn:E. cbn [fst] in *. apply G.
        intros t' Ht'. rewrite Wn in Ht'. inversion Ht'; subst t'. split; [exact Wd | exact Wp].
      + destruct W as [Wo Wn].
        destruct (ev_ground m o (nth o (ops m) dflt_o)) as [oi evs] eqn:E. cbn [fst].
        apply OpInv_set; auto. unfold ev_ground in E. inversion E; subst. repeat split; auto.
      + destruct W as (Wo & Wn & Ws). destruct (HO o t Wo Wn) as [Hd Hp].
        destruct (ensure_grounded m o) as [[m1 oi] evg] eqn:E. cbn [fst].
        destruct (ensure_grounded_spec t m o m1 oi evg E Wn Hd) as (R & _ & M).
        eapply OpInv_grounded; eauto.
      + destruct W as (Wo & Wn & Ws & Wns). destruct (HO o t Wo Wn) as [Hd Hp].
        destruct (ensure_grounded m o) as [[m1 oi] evg] eqn:E.
        destruct (ensure_grounded_spec t m o m1 oi evg E Wn Hd) as (R & _ & M).
        assert (H1 : OpInv m1) by (eapply OpInv_grounded; eauto).
        destruct raised; [cbn [fst]; auto|].
        destruct (ev_apply_body c m1 o oi (nth s (sts m) dflt_s)) as [m2 evb] eqn:Eb. cbn [fst].
        eapply OpInv_same; [| apply H1].
        pose proof (apply_body_ops c m1 o oi (nth s (sts m) dflt_s)) as G. rewrite Eb in G; auto.
      + destruct (ev_copy_state m (nth s (sts m) dflt_s)) as [si evs] eqn:E. cbn [fst].
        eapply OpInv_same; [| apply HO]. reflexivity.
      + auto.
      + auto.
      + auto.
      + destruct W as (Wd & Ws & Wp & Wno & Wns).
        pose proof (OpInv_add m (mk_oinfo d a (Some pobjs) sh) HO) as G0.
        destruct (add_op m (mk_oinfo d a (Some pobjs) sh)) as [m0 evo] eqn:E0. cbn [fst] in G0.
        assert (H0 : OpInv m0).
        { apply G0. intros t' Ht'. rewrite Wno in Ht'. inversion Ht'; subst t'. split; [exact Wd|].
          unfold objs_ok; cbn [mk_oinfo o_objs]. intros p Hp. inversion Hp; subst; auto. }
        assert (Eo0 : nth (length (ops m)) (ops m0) dflt_o = mk_oinfo d a (Some pobjs) sh).
        { unfold add_op in E0. inversion E0; subst; cbn [ops]. rewrite app_nth2, Nat.sub_diag by lia. reflexivity. }
        assert (L0 : length (ops m) < length (ops m0)).
        { unfold add_op in E0. inversion E0; subst; cbn [ops]. rewrite app_length; simpl; lia. }
        destruct (ensure_grounded m0 (length (ops m))) as [[m1 oi] evg] eqn:E1.
        assert (Hd0 : mos t (ODom (o_dom (nth (length (ops m)) (ops m0) dflt_o)))) by (rewrite Eo0; exact Wd).
        destruct (ensure_grounded_spec t m0 (length (ops m)) m1 oi evg E1 Wno Hd0) as (R & _ & M).
        assert (H1 : OpInv m1) by (eapply OpInv_grounded; eauto).
        destruct refused.
        * destruct (fix17 c).
          -- destruct (ev_copy_state m1 (nth s (sts m) dflt_s)) as [si evs] eqn:Ec. cbn [fst].
             eapply OpInv_same; [| apply H1]. reflexivity.
          -- cbn [fst]. eapply OpInv_same; [| apply H1]. reflexivity.
        * destruct (ev_apply_body c m1 (length (ops m)) oi (nth s (sts m) dflt_s)) as [m2 evb] eqn:Eb. cbn [fst].
          eapply OpInv_same; [| apply H1].
          pose proof (apply_body_ops c m1 (length (ops m)) oi (nth s (sts m) dflt_s)) as G. rewrite Eb in G; auto.
      + cbn [fst]. eapply OpInv_same; [| apply HO]. reflexivity.
  Qed.

  (* ---------------------------------------------------------------- tagged histories *)
  Fixpoint wt_hist (c : cfg) (m : mstate) (th : list (nat * op)) : Prop :=
    match th with
    | [] => True
    | (t, p) :: r => wt t m p /\ wt_hist c (fst (step c m p)) r
    end.
  Fixpoint sched_of (c : cfg) (m : mstate) (th : list (nat * op)) : list (nat * event) :=
    match th with
    | [] => []
    | (t, p) :: r => map (pair t) (snd (step c m p)) ++ sched_of c (fst (step c m p)) r
    end.

  Lemma hist_sched_ok : forall c th m, writes_fixed c = true -> TInv m -> wt_hist c m th ->
    sched_ok tpriv (sched_of c m th).
  Proof.
    intros c th. induction th as [|[t p] r IH]; intros m F H W; simpl.
    - constructor.
    - destruct W as [W1 W2]. apply Forall_app; split.
      + pose proof (step_disc c t m p F H W1) as D. apply Forall_forall. intros te Hte.
        apply in_map_iff in Hte as [e [<- He]]. simpl. unfold Disc in D. rewrite Forall_forall in D; auto.
      + apply IH; auto. eapply step_TInv; eauto.
  Qed.

  Lemma mine_In : forall i (s : list (nat * event)) x, In x (mine i s) -> In x s.
  Proof. intros i s x H. unfold mine in H. apply filter_In in H as [H _]; auto. Qed.

  Lemma sched_ok_perm : forall s s', sched_ok tpriv s -> (forall j, mine j s' = mine j s) -> sched_ok tpriv s'.
  Proof.
    intros s s' H E. unfold sched_ok in *. apply Forall_forall. intros x Hx.
    rewrite Forall_forall in H. apply H. apply (mine_In (fst x)). rewrite <- E.
    unfold mine. apply filter_In. split; auto. apply Nat.eqb_refl.
  Qed.

  (* every interleaving s' of the threads' event sequences gives thread i the observations of its solo run *)
  Lemma thread_interleave : forall c m th s' i a b, writes_fixed c = true -> TInv m -> wt_hist c m th ->
    (forall j, mine j s' = mine j (sched_of c m th)) -> agree tpriv i a b ->
    observe i s' a = observe i (mine i (sched_of c m th)) b.
  Proof.
    intros c m th s' i a b F H W E A.
    pose proof (hist_sched_ok c th m F H W) as S.
    pose proof (sched_ok_perm _ _ S E) as S'.
    rewrite (interleave_lemma tpriv s' i a b S' A). rewrite E. reflexivity.
  Qed.

  (* the invariant holds when the threads start from any reachable model state all of whose handles are shared *)
  Lemma run_DomInv : forall c h m st, fix18 c = true -> DomInv m -> DomInv (fst (run c h (m, st))).
  Proof.
    intros c h. induction h as [|p h IH]; intros m st F H; simpl; auto.
    rewrite run_step_eq. apply IH; auto. apply step_DomInv; auto.
  Qed.

  Lemma TInv_reachable : forall c h0, writes_fixed c = true ->
    let m0 := fst (run c h0 start) in
    (forall v, In v (handles m0) -> own v = None) -> TInv m0.
  Proof.
    intros c h0 F m0 Hsh. pose proof F as F'. unfold writes_fixed in F. apply andb_true_iff in F as [_ F18].
    assert (I0 : Inv m0) by (apply run_inv; auto; apply Inv_init).
    split; [apply run_DomInv; auto; apply DomInv_init | split].
    - intros s. destruct (Nat.lt_ge_cases s (length (sts m0))) as [L|G].
      + destruct I0 as [IS _]. eapply Forall_impl; [| apply IS; apply nth_In; auto].
        intros l Hl. left. unfold live in Hl. destruct l as [[d|s'|o|] k]; cbn [fst] in *.
        * apply Hsh. unfold handles, values. apply in_or_app; left. right. apply in_or_app; left.
          apply in_map. apply in_seq. lia.
        * apply Hsh. unfold handles, values. apply in_or_app; left. right. apply in_or_app; right.
          apply in_map. apply in_seq. lia.
        * contradiction.
        * exact own_mod.
      + rewrite nth_overflow by auto. constructor.
    - intros o t Lo Ho. rewrite Hsh in Ho; [discriminate|].
      unfold handles. apply in_or_app; right. apply in_map. apply in_seq. lia.
  Qed.
End Threads.

(* ------------------------------------------------------------------ the hypotheses are satisfiable (non-vacuity) *)
(* two threads on one shared domain, in the configuration of the tree as it stands (D17 open): each parses its own
   problem, builds its own operator for the same schema (forall effect, numeric effect), applies it; thread 0 prints
   the shared domain and re-applies its operator to its own earlier result; thread 1 takes a refused trajectory step
   (whose result aliases its previous state) and reads it back *)
Definition ex_own (o : owner) : option nat :=
  match o with
  | OSt 0 | OSt 2 | OSt 5 | OOp 0 => Some 0
  | OSt 1 | OSt 3 | OSt 4 | OOp 1 | OOp 2 => Some 1
  | _ => None
  end.
Definition ex_cfg : cfg := only true true false true.
Definition ex_prefix : list op := [OParseDomain true 1].
Definition ex_m0 : mstate := fst (run ex_cfg ex_prefix start).
Definition ex_threads : list (nat * op) :=
  [(0, OParseProblem 0 [0]); (1, OParseProblem 0 [0]); (0, OMkOp 0 0 (Some 0) sh1); (1, OMkOp 0 0 (Some 1) sh1);
   (0, OApply 0 0 false false); (1, OApply 1 1 false false); (0, OReadDomain 0); (1, OTriplet 0 0 3 1 sh1 true);
   (0, OApply 0 2 false false); (1, OReadState 4)].
Definition ex_s : list (nat * event) := sched_of ex_cfg ex_m0 ex_threads.

Lemma ex_TInv : TInv ex_own ex_m0.
Proof.
  apply (TInv_reachable ex_own eq_refl ex_cfg ex_prefix eq_refl).
  intros v Hv. vm_compute in Hv. destruct Hv as [<-|[<-|[]]]; reflexivity.
Qed.

Lemma ex_wt : wt_hist ex_own ex_cfg ex_m0 ex_threads.
Proof.
  vm_compute. repeat split; auto; try lia;
    try (intros p Hp; inversion Hp; subst; auto).
Qed.

(* the schedule is not trivial: both threads write, both read the shared schema, and thread 1's refused step reads
   cells of the state it aliases *)
Lemma ex_nontrivial :
  (existsb (fun te => match te with (0, Write _) => true | _ => false end) ex_s &&
   existsb (fun te => match te with (1, Write _) => true | _ => false end) ex_s &&
   existsb (fun te => match te with (0, Read (ODom 0, 2)) => true | _ => false end) ex_s &&
   existsb (fun te => match te with (1, Read (ODom 0, 2)) => true | _ => false end) ex_s &&
   Nat.leb 100 (length ex_s)) = true.
Proof. vm_compute. reflexivity. Qed.

Lemma agree_refl : forall priv i a, agree priv i a a.
Proof. intros priv i a l _. reflexivity. Qed.

(* an interleaving very different from the one the model computed -- thread 1 runs completely before thread 0 --
   shows thread 0 exactly what it sees alone *)
Lemma ex_other_order : observe 0 (mine 1 ex_s ++ mine 0 ex_s) st0 = observe 0 (mine 0 ex_s) st0.
Proof.
  apply (thread_interleave ex_own eq_refl ex_cfg ex_m0 ex_threads (mine 1 ex_s ++ mine 0 ex_s) 0 st0 st0 eq_refl ex_TInv ex_wt).
  - intros j. destruct j as [|[|j]]; vm_compute; reflexivity.
  - apply agree_refl.
Qed.
