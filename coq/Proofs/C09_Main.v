(* C09: exporting a parsed problem and parsing the exported token tree gives back the same problem (model,
   repaired configuration, exact goal constants), twice; empty sections stay empty.  Refutations: repeated fluent
   arguments (D07, open) and, on the pinned exporter, goal constants printed with 4 decimals (D50, repaired). *)
From Coq Require Import List Ascii String Bool Arith Lia PrimFloat.
From Verif Require Import Base.Result Base.Str Base.Sexp Base.PyDict Base.Float
  Model.Tokenizer Model.Types Model.Domain Model.NumExpr Model.Problem Model.ProblemObs Model.ProblemExporter
  Spec.Pddl Spec.Grammar Spec.Problem
  Proofs.C05_Lemmas Proofs.C05_Objects Proofs.C05_Items Proofs.C05_Goal Proofs.C05_Parse Proofs.C05_Faithful
  Proofs.C05_Repeats Proofs.C05_Examples Proofs.C05_Main Proofs.C09_Export Proofs.C09_Round.
Import ListNotations.
Open Scope string_scope.
Open Scope list_scope.

(* ---------- the fluent table built from a list of assignments ---------- *)
Lemma kset_Forall {V} (P : fkey * V -> Prop) (acc : list (fkey * V)) k m :
  Forall P acc -> P (k, m) -> Forall P (kset acc k m).
Proof.
  intros Ha Hm. induction acc as [|[k' old] r IH]; simpl; [constructor; [exact Hm | constructor]|].
  inversion Ha as [|? ? Hold Hr]; subst. rewrite fkey_eqb_atom_eqb. destruct (atom_eqb k k') eqn:E.
  - apply atom_eqb_eq in E. subst k'. constructor; [exact Hm | exact Hr].
  - constructor; [exact Hold | apply IH; exact Hr].
Qed.

Lemma kset_keys_NoDup {V} (acc : list (fkey * V)) k m : NoDup (map fst acc) -> NoDup (map fst (kset acc k m)).
Proof.
  intros Hnd. induction acc as [|[k' old] r IH]; simpl; [constructor; [intros []|constructor]|].
  simpl in Hnd. inversion Hnd as [|? ? Hk Hr]; subst. rewrite fkey_eqb_atom_eqb. destruct (atom_eqb k k') eqn:E.
  - simpl. constructor; assumption.
  - simpl. constructor; [|apply IH; exact Hr].
    intros Hin. apply Hk. clear IH Hnd Hr Hk.
    induction r as [|[k2 o2] r2 IH2]; simpl in *.
    + destruct Hin as [Hin|[]]. subst. rewrite atom_eqb_refl in E. discriminate.
    + rewrite fkey_eqb_atom_eqb in Hin. destruct (atom_eqb k k2); simpl in Hin; [exact Hin|].
      destruct Hin as [Hin|Hin]; [left; exact Hin | right; apply IH2; exact Hin].
Qed.

Lemma fluent_get_In k (l : list (atom * float)) x : fluent_get k l = Some x -> In k (map fst l).
Proof.
  induction l as [|[k' v] r IH]; simpl; [discriminate|]. destruct (atom_eqb k k') eqn:E.
  - intros _. left. apply atom_eqb_eq in E. congruence.
  - intros H. right. apply IH. exact H.
Qed.

Lemma fluent_get_rev k (l : list (atom * float)) : NoDup (map fst l) -> fluent_get k (rev l) = fluent_get k l.
Proof.
  induction l as [|[k' v] r IH]; intros Hnd; [reflexivity|]. simpl in Hnd. inversion Hnd as [|? ? Hk Hr]; subst.
  simpl. rewrite fluent_get_app, (IH Hr). simpl.
  destruct (fluent_get k r) as [x|] eqn:Eg; [|reflexivity].
  destruct (atom_eqb k k') eqn:E; [|reflexivity].
  apply atom_eqb_eq in E. subst k'. apply fluent_get_In in Eg. contradiction.
Qed.

Section Roundtrip.
  Variable num : string -> option float.
  Variable repr_text : float -> string.
  Variable dom : mdomain.
  Hypothesis Hdom : dom_ok dom.
  Hypothesis Hnum : num_ok num.
  Local Notation v := (vocab_of dom).

  (* every entry of the built table comes from an assignment of the text and is stored as written *)
  Definition entry_ok (fls : list (atom * string)) (kf : fkey * mfluent) : Prop :=
    exists fl, In fl fls /\ dump_fluent (snd kf) = (fst fl, value_of num (snd fl)) /\ fst kf = kappa (fst fl).

  Lemma built_fluents objs (all : list (atom * string)) : forall (fls : list (atom * string)) acc,
    (forall fl, In fl fls -> In fl all) ->
    Forall canonical fls ->
    Forall (entry_ok all) acc -> NoDup (map fst acc) ->
    Forall (entry_ok all) (fold_left (add_fluent num dom objs) fls acc) /\
    NoDup (map fst (fold_left (add_fluent num dom objs) fls acc)).
  Proof.
    induction fls as [|[[f args] tok] r IH]; intros acc Hsub Hnd Hacc Hk; [split; assumption|].
    pose proof (Forall_inv Hnd) as Ha. pose proof (Forall_inv_tail Hnd) as Hr. unfold canonical in Ha. cbn [fst snd] in Ha.
    cbn [fold_left].
    apply IH.
    - intros fl Hin. apply Hsub. right. exact Hin.
    - exact Hr.
    - unfold add_fluent. cbn [fst snd].
      destruct (mk_fluent_general dom objs f args (value_of num tok)) as [Hkeys Hdump]. rewrite Hkeys. rewrite Ha in Hdump.
      apply kset_Forall; [exact Hacc|].
      exists ((f, args), tok). split; [apply Hsub; left; reflexivity|]. split; [exact Hdump | reflexivity].
    - apply kset_keys_NoDup. exact Hk.
  Qed.

  Lemma built_fluents_ok sp : safe_repeats sp = true ->
    let L := pb_fluents (built num dom sp) in
    Forall (entry_ok (sp_fluents sp)) L /\ NoDup (map fst L) /\ NoDup (map fst (dump_fluents L)).
  Proof.
    intros Hsafe. destruct (safe_repeats_facts sp Hsafe) as [Hcan _].
    destruct (built_fluents (sp_objects sp) (sp_fluents sp) (sp_fluents sp) [] (fun fl H => H) Hcan) as [H1 H2];
      [constructor | constructor|].
    cbn [built pb_fluents]. split; [exact H1|]. split; [exact H2|].
    assert (Hm : map fst (fold_left (add_fluent num dom (sp_objects sp)) (sp_fluents sp) [])
                 = map kappa (map fst (dump_fluents (fold_left (add_fluent num dom (sp_objects sp)) (sp_fluents sp) [])))).
    { unfold dump_fluents. rewrite !map_map. apply map_ext_in. intros kf Hin.
      rewrite Forall_forall in H1. destruct (H1 kf Hin) as (fl & _ & Hd & Hk). rewrite Hk, Hd. reflexivity. }
    rewrite Hm in H2. apply NoDup_map_inv in H2. exact H2.
  Qed.

  (* the re-exported fluents are again in the printed form, with distinct keys *)
  Lemma reexported_safe sp : safe_repeats sp = true -> safe_repeats (C09_Round.reexported num repr_text dom sp) = true.
  Proof.
    intros Hsafe. destruct (safe_repeats_facts sp Hsafe) as [Hcan Hinj].
    destruct (built_fluents_ok sp Hsafe) as (Hent & _ & _).
    assert (Hatoms : forall x, In x (sp_fluents (C09_Round.reexported num repr_text dom sp)) ->
                     exists fl, In fl (sp_fluents sp) /\ fst x = fst fl).
    { intros x Hin. cbn [sp_fluents C09_Round.reexported] in Hin. apply in_map_iff in Hin. destruct Hin as (kf & <- & Hin).
      rewrite Forall_forall in Hent. destruct (Hent kf Hin) as (fl & Hfl & Hd & _). exists fl. split; [exact Hfl|].
      cbn [fst]. rewrite Hd. reflexivity. }
    apply safe_repeats_intro.
    - apply Forall_forall. intros x Hin. destruct (Hatoms x Hin) as (fl & Hfl & E). unfold canonical. rewrite E.
      rewrite Forall_forall in Hcan. exact (Hcan fl Hfl).
    - intros a b Ha Hb. apply in_map_iff in Ha, Hb. destruct Ha as (xa & <- & Hxa). destruct Hb as (xb & <- & Hxb).
      destruct (Hatoms xa Hxa) as (fa & Hfa & Ea). destruct (Hatoms xb Hxb) as (fb & Hfb & Eb). rewrite Ea, Eb.
      apply Hinj; apply in_map; assumption.
  Qed.

  (* ---------- the re-read problem passes the same checks ---------- *)
  Local Notation reexported := (reexported num repr_text dom).
  Local Notation repr_ok := (repr_ok num repr_text).

  Lemma repr_ok_fluent sp fl : repr_ok sp -> In fl (sp_fluents sp) ->
    num (repr_text (value_of num (snd fl))) = Some (value_of num (snd fl)).
  Proof.
    intros Hr Hin. apply Hr. unfold values_of. apply in_or_app. left.
    apply in_map_iff. exists fl. split; [reflexivity | exact Hin].
  Qed.

  Lemma reexported_wf sp : repr_ok sp -> wf_code num dom sp = true -> safe_repeats sp = true ->
    wf_code num dom (reexported sp) = true /\ safe_repeats (reexported sp) = true.
  Proof.
    intros Hrepr Hwf Hnr. destruct (built_fluents_ok sp Hnr) as (Hent & _ & _).
    unfold wf_code in Hwf.
    apply andb_true_iff in Hwf; destruct Hwf as [Hwf Hgn]. apply andb_true_iff in Hwf; destruct Hwf as [Hwf Hgl].
    apply andb_true_iff in Hwf; destruct Hwf as [Hwf Hfluents]. apply andb_true_iff in Hwf; destruct Hwf as [Hwf Hfacts].
    apply andb_true_iff in Hwf; destruct Hwf as [_ Htypes].
    split.
    - unfold wf_code. cbn [reexported ProblemExporter.export_problem sp_domain sp_objects sp_facts sp_fluents sp_goal sp_goal_num C09_Round.reexported].
      rewrite String.eqb_refl, Htypes, Hgl, Hgn. cbn [andb]. rewrite !andb_true_r. apply andb_true_iff. split.
      + apply forallb_forall. intros a Hin. apply (built_facts_sub num dom) in Hin.
        rewrite forallb_forall in Hfacts. exact (Hfacts a Hin).
      + apply forallb_forall. intros x Hin. apply in_map_iff in Hin. destruct Hin as (kf & <- & Hin).
        rewrite Forall_forall in Hent. destruct (Hent kf Hin) as (fl & Hfl & Hd & _).
        rewrite forallb_forall in Hfluents. specialize (Hfluents fl Hfl). unfold fluent_ok in *. cbn [fst snd].
        rewrite Hd. cbn [fst snd]. rewrite (repr_ok_fluent sp fl Hrepr Hfl). apply andb_true_iff in Hfluents. destruct Hfluents as [Hok _].
        rewrite Hok. reflexivity.
    - apply reexported_safe. exact Hnr.
  Qed.

  (* ---------- same observables ---------- *)
  Definition same_obs (a b : mproblem) : Prop :=
    pb_name a = pb_name b /\ pb_objects a = pb_objects b /\
    (forall x, atom_in x (dump_facts (pb_facts a)) = atom_in x (dump_facts (pb_facts b))) /\
    (forall k, fluent_get k (dump_fluents (pb_fluents a)) = fluent_get k (dump_fluents (pb_fluents b))) /\
    pb_goal a = pb_goal b /\ pb_goal_num a = pb_goal_num b.

  Lemma same_obs_trans a b c : same_obs a b -> same_obs b c -> same_obs a c.
  Proof.
    intros (A1 & A2 & A3 & A4 & A5 & A6) (B1 & B2 & B3 & B4 & B5 & B6).
    split; [congruence|]. split; [congruence|]. split; [intros; rewrite A3; apply B3|].
    split; [intros; rewrite A4; apply B4|]. split; congruence.
  Qed.

  Lemma same_obs_equiv a b : same_obs a b -> pdump_equiv (dump_problem a) (dump_problem b) = true.
  Proof.
    intros (A1 & A2 & A3 & A4 & A5 & A6). unfold pdump_equiv, dump_problem.
    cbn [pd_name pd_objects pd_facts pd_fluents pd_goal pd_goal_num].
    rewrite A1, A2, A5, A6, String.eqb_refl.
    rewrite list_eqb_refl by (intros [x y]; unfold pair_eqb; simpl; rewrite !String.eqb_refl; reflexivity).
    rewrite (facts_equiv_pointwise _ _ A3).
    change (map (fun kf => dump_fluent (snd kf)) ?l) with (dump_fluents l).
    rewrite (fluents_equiv_pointwise _ _ A4).
    rewrite (list_eqb_refl atom_eqb) by apply atom_eqb_refl. rewrite multiset_eqb_refl. reflexivity.
  Qed.

  Lemma reexported_same sp : repr_ok sp -> safe_repeats sp = true ->
    same_obs (built num dom (reexported sp)) (built num dom sp).
  Proof.
    intros Hrepr Hnr. destruct (built_fluents_ok sp Hnr) as (Hent & Hkeys & Hnd).
    destruct (safe_repeats_facts _ (reexported_safe sp Hnr)) as [Hcan2 Hinj2].
    repeat split; try reflexivity.
    - intros [q xs]. cbn [built pb_facts sp_facts C09_Round.reexported].
      destruct (fold_add_fact (dump_facts (pb_facts (built num dom sp))) [] q xs (NoDup_nil _)) as [Hnd' Hm].
      cbn [built pb_facts] in Hnd', Hm. rewrite atom_in_dump by exact Hnd'. rewrite Hm.
      unfold mem_fact. simpl. apply orb_false_r.
    - intros k. cbn [built pb_fluents sp_objects].
      rewrite (fold_add_fluent_general num dom (sp_objects (reexported sp)) (sp_fluents (reexported sp))
                 (sp_fluents (reexported sp)) [] k Hinj2 (fun fl H => H) Hcan2) by constructor.
      cbn [dump_fluents map fluent_get sp_fluents C09_Round.reexported].
      assert (Hp : pairs num (map (fun kf : fkey * mfluent => (fst (dump_fluent (snd kf)), repr_text (snd (dump_fluent (snd kf)))))
                                  (pb_fluents (built num dom sp)))
                   = dump_fluents (pb_fluents (built num dom sp))).
      { unfold pairs, dump_fluents. rewrite map_map. apply map_ext_in. intros kf Hin. cbn [fst snd].
        rewrite Forall_forall in Hent. destruct (Hent kf Hin) as (fl & Hfl & Hd & _).
        rewrite Hd. cbn [fst snd].
        assert (E : value_of num (repr_text (value_of num (snd fl))) = value_of num (snd fl)).
        { unfold value_of at 1. rewrite (repr_ok_fluent sp fl Hrepr Hfl). reflexivity. }
        rewrite E. reflexivity. }
      rewrite Hp. cbn [built pb_fluents] in Hnd |- *.
      rewrite (fluent_get_rev k _ Hnd).
      destruct (fluent_get k (dump_fluents (fold_left (add_fluent num dom (sp_objects sp)) (sp_fluents sp) []))); reflexivity.
  Qed.

  Lemma repr_ok_reexported sp : repr_ok sp -> safe_repeats sp = true -> repr_ok (reexported sp).
  Proof.
    intros Hrepr Hnr x Hx. destruct (built_fluents_ok sp Hnr) as (Hent & _ & _).
    unfold values_of in Hx. cbn [sp_fluents sp_goal_num C09_Round.reexported] in Hx.
    apply in_app_or in Hx. destruct Hx as [Hx|Hx].
    - rewrite map_map in Hx. apply in_map_iff in Hx. destruct Hx as (kf & <- & Hin). cbn [snd].
      rewrite Forall_forall in Hent. destruct (Hent kf Hin) as (fl & Hfl & Hd & _). rewrite Hd. cbn [snd].
      assert (E : value_of num (repr_text (value_of num (snd fl))) = value_of num (snd fl)).
      { unfold value_of at 1. rewrite (repr_ok_fluent sp fl Hrepr Hfl). reflexivity. }
      rewrite E. apply (repr_ok_fluent sp fl Hrepr Hfl).
    - apply Hrepr. unfold values_of. apply in_or_app. right. exact Hx.
  Qed.

  (* ---------- one round, then the theorem ---------- *)
  Lemma one_round sp :
    repr_ok sp ->
    tokens_ok sp = true -> safe_repeats sp = true -> sp_name sp <> "" -> wf_code num dom sp = true ->
    parse_problem cfg_fixed num dom (export_problem repr_text None (d_name dom) (built num dom sp))
      = Ok (built num dom (reexported sp)).
  Proof.
    intros Hrepr Htok Hnr Hname Hwf.
    pose proof (read_export num repr_text dom sp Hrepr Htok Hname) as Hread.
    pose proof (parse_problem_spec num dom Hdom Hnum _ _ Hread) as Hp.
    destruct (reexported_wf sp Hrepr Hwf Hnr) as [Hwf2 _]. rewrite Hwf2 in Hp. exact Hp.
  Qed.

  Theorem C09_roundtrip_lemma e sp pb :
    read_problem num e = Some sp -> repr_ok sp -> safe_repeats sp = true -> sp_name sp <> "" ->
    parse_problem cfg_fixed num dom e = Ok pb ->
    exists pb', parse_problem cfg_fixed num dom (export_problem repr_text None (d_name dom) pb) = Ok pb' /\
                same_obs pb' pb /\
    exists pb'', parse_problem cfg_fixed num dom (export_problem repr_text None (d_name dom) pb') = Ok pb'' /\
                 same_obs pb'' pb.
  Proof.
    intros Hread Hrepr Hnr Hname Hparse.
    pose proof (parse_problem_spec num dom Hdom Hnum e sp Hread) as Hp.
    destruct (wf_code num dom sp) eqn:Hwf; simpl in Hp; [|destruct Hp as [k Hp]; rewrite Hp in Hparse; discriminate].
    rewrite Hp in Hparse. injection Hparse as <-.
    pose proof (read_problem_tokens_ok num e sp Hread) as Htok.
    exists (built num dom (reexported sp)). split; [apply one_round; assumption|].
    split; [apply reexported_same; assumption|].
    destruct (reexported_wf sp Hrepr Hwf Hnr) as [Hwf2 Hnr2].
    pose proof (repr_ok_reexported sp Hrepr Hnr) as Hrepr2.
    assert (Htok2 : tokens_ok (reexported sp) = true).
    { eapply read_problem_tokens_ok. apply (read_export num repr_text dom sp Hrepr Htok Hname). }
    exists (built num dom (reexported (reexported sp))). split; [apply one_round; assumption|].
    eapply same_obs_trans; [apply reexported_same; assumption | apply reexported_same; assumption].
  Qed.

  (* ---------- the same for the tree with the repair proposed for D19d ([cfg_gt true]; [cfg_gt false] is the
     configuration above): the re-read problem has the same objects and numeric goals, so the additional type check of
     numeric-goal arguments passes again ---------- *)
  Lemma goal_typed_reexported gt sp : goal_typed gt dom (reexported sp) = goal_typed gt dom sp.
  Proof. reflexivity. Qed.

  Lemma one_round_t gt sp :
    repr_ok sp ->
    tokens_ok sp = true -> safe_repeats sp = true -> sp_name sp <> "" -> wf_code_t gt num dom sp = true ->
    parse_problem (cfg_gt gt) num dom (export_problem repr_text None (d_name dom) (built num dom sp))
      = Ok (built num dom (reexported sp)).
  Proof.
    intros Hrepr Htok Hnr Hname Hwf. unfold wf_code_t in Hwf. apply andb_true_iff in Hwf. destruct Hwf as [Hwf Hty].
    pose proof (read_export num repr_text dom sp Hrepr Htok Hname) as Hread.
    pose proof (parse_problem_spec_t gt num dom Hdom Hnum _ _ Hread) as Hp.
    destruct (reexported_wf sp Hrepr Hwf Hnr) as [Hwf2 _]. unfold wf_code_t in Hp.
    rewrite Hwf2, goal_typed_reexported, Hty in Hp. exact Hp.
  Qed.

  Theorem C09_roundtrip_t_lemma gt e sp pb :
    read_problem num e = Some sp -> repr_ok sp -> safe_repeats sp = true -> sp_name sp <> "" ->
    parse_problem (cfg_gt gt) num dom e = Ok pb ->
    exists pb', parse_problem (cfg_gt gt) num dom (export_problem repr_text None (d_name dom) pb) = Ok pb' /\
                same_obs pb' pb /\
    exists pb'', parse_problem (cfg_gt gt) num dom (export_problem repr_text None (d_name dom) pb') = Ok pb'' /\
                 same_obs pb'' pb.
  Proof.
    intros Hread Hrepr Hnr Hname Hparse.
    pose proof (parse_problem_spec_t gt num dom Hdom Hnum e sp Hread) as Hp.
    destruct (wf_code_t gt num dom sp) eqn:Hwft; simpl in Hp; [|destruct Hp as [k Hp]; rewrite Hp in Hparse; discriminate].
    rewrite Hp in Hparse. injection Hparse as <-.
    pose proof Hwft as Hsplit. unfold wf_code_t in Hsplit. apply andb_true_iff in Hsplit. destruct Hsplit as [Hwf Hty].
    pose proof (read_problem_tokens_ok num e sp Hread) as Htok.
    exists (built num dom (reexported sp)). split; [apply one_round_t; assumption|].
    split; [apply reexported_same; assumption|].
    destruct (reexported_wf sp Hrepr Hwf Hnr) as [Hwf2 Hnr2].
    pose proof (repr_ok_reexported sp Hrepr Hnr) as Hrepr2.
    assert (Htok2 : tokens_ok (reexported sp) = true).
    { eapply read_problem_tokens_ok. apply (read_export num repr_text dom sp Hrepr Htok Hname). }
    assert (Hwft2 : wf_code_t gt num dom (reexported sp) = true).
    { unfold wf_code_t. rewrite Hwf2, goal_typed_reexported, Hty. reflexivity. }
    exists (built num dom (reexported (reexported sp))). split; [apply one_round_t; assumption|].
    eapply same_obs_trans; [apply reexported_same; assumption | apply reexported_same; assumption].
  Qed.

  (* empty sections stay empty *)
  Lemma atom_in_nil_all (l : list atom) : (forall x, atom_in x l = false) -> l = [].
  Proof. destruct l as [|a r]; [reflexivity|]. intros H. specialize (H a). simpl in H. rewrite atom_eqb_refl in H. discriminate. Qed.

  Lemma fluent_get_nil_all (l : list (atom * float)) : (forall k, fluent_get k l = None) -> l = [].
  Proof. destruct l as [|[k x] r]; [reflexivity|]. intros H. specialize (H k). simpl in H. rewrite atom_eqb_refl in H. discriminate. Qed.

  Lemma same_obs_empty a b : same_obs a b ->
    (pd_objects (dump_problem b) = [] -> pd_objects (dump_problem a) = []) /\
    (pd_facts (dump_problem b) = [] -> pd_facts (dump_problem a) = []) /\
    (pd_fluents (dump_problem b) = [] -> pd_fluents (dump_problem a) = []) /\
    (pd_goal (dump_problem b) = [] -> pd_goal (dump_problem a) = []) /\
    (pd_goal_num (dump_problem b) = [] -> pd_goal_num (dump_problem a) = []).
  Proof.
    intros (A1 & A2 & A3 & A4 & A5 & A6). cbn [dump_problem pd_objects pd_facts pd_fluents pd_goal pd_goal_num].
    repeat split.
    - rewrite A2. trivial.
    - intros H. apply atom_in_nil_all. intros x. rewrite A3, H. reflexivity.
    - intros H. apply fluent_get_nil_all. intros k.
      change (map (fun kf => dump_fluent (snd kf)) ?l) with (dump_fluents l) in *. rewrite A4, H. reflexivity.
    - rewrite A5. trivial.
    - rewrite A6. trivial.
  Qed.
End Roundtrip.
