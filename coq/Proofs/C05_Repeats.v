(* C05: initial fluents WITH repeated arguments.  The library stores a fluent under its distinct arguments and
   re-expands the repetitions when it prints it (repeated names first).  The parse is still faithful when every
   fluent is written in that very form ([canon args = args], e.g. (f a a), (g a a b)) and no two assignments of the
   same function share their distinct arguments without being the same fluent. *)
From Coq Require Import List Ascii String Bool Arith Lia PrimFloat.
From Verif Require Import Base.Result Base.Str Base.Sexp Base.PyDict Base.Float
  Model.Types Model.Domain Model.NumExpr Model.Problem Model.ProblemObs
  Spec.Pddl Spec.Grammar Spec.Problem
  Proofs.C05_Lemmas Proofs.C05_Objects Proofs.C05_Items Proofs.C05_Goal Proofs.C05_Parse Proofs.C05_Faithful.
Import ListNotations.
Open Scope string_scope.
Open Scope list_scope.

(* ---------- keys of a dict comprehension ---------- *)
Lemma dedup_keys_ext l : forall s1 s2, (forall x, str_in x s1 = str_in x s2) ->
  NumExpr.dedup_keys s1 l = NumExpr.dedup_keys s2 l.
Proof.
  induction l as [|a r IH]; intros s1 s2 H; simpl; [reflexivity|]. rewrite <- (H a).
  destruct (str_in a s1); [apply IH; exact H|]. f_equal. apply IH. intros x. simpl. rewrite H. reflexivity.
Qed.

Lemma str_in_app x a b : str_in x (a ++ b) = str_in x a || str_in x b.
Proof. induction a as [|y ys IH]; simpl; [reflexivity|]. rewrite IH. apply orb_assoc. Qed.

Lemma dkeys_dset_present {V} (d : pydict V) k v w : dget d k = Some w -> dkeys (dset d k v) = dkeys d.
Proof.
  revert w. induction d as [|[k' v'] r IH]; intros w; simpl; [discriminate|].
  destruct (String.eqb k k') eqn:E; simpl; [reflexivity|]. intros H. f_equal. eapply IH. exact H.
Qed.

Lemma dkeys_fold_dset (g : string -> string) args : forall acc,
  dkeys (fold_left (fun acc a => dset acc a (g a)) args acc) = dkeys acc ++ NumExpr.dedup_keys (dkeys acc) args.
Proof.
  induction args as [|a r IH]; intros acc; simpl; [rewrite app_nil_r; reflexivity|].
  rewrite IH. destruct (dget acc a) as [w|] eqn:E.
  - rewrite (dkeys_dset_present acc a (g a) w E).
    assert (Hin : str_in a (dkeys acc) = true).
    { apply str_in_In. apply dmem_In. unfold dmem. rewrite E. reflexivity. }
    rewrite Hin. reflexivity.
  - rewrite dset_fresh by exact E. rewrite dkeys_app. simpl.
    assert (Hnot : str_in a (dkeys acc) = false) by (apply str_in_false, dget_None_notin; exact E).
    rewrite Hnot. rewrite <- app_assoc. simpl. f_equal. f_equal. apply dedup_keys_ext.
    intros x. rewrite str_in_app. simpl. rewrite orb_false_r. apply orb_comm.
Qed.

Section Repeats.
  Variable num : string -> option float.
  Variable dom : mdomain.

  Lemma mk_fluent_general objs f args x :
    dkeys (fl_sig (mk_fluent dom objs f args x)) = distinct args /\
    dump_fluent (mk_fluent dom objs f args x) = ((f, canon args), x).
  Proof.
    unfold mk_fluent, dump_fluent. cbn [fl_sig fl_name fl_rep fl_val].
    assert (Hk : dkeys (fold_left (fun acc a => dset acc a (ty_of dom objs a)) args []) = distinct args).
    { rewrite dkeys_fold_dset. reflexivity. }
    split; [exact Hk|]. unfold expand_args, canon. rewrite Hk. reflexivity.
  Qed.


  (* entries are stored under the key of the atom they print, and that atom belongs to [A] *)
  Definition keyed_by (A : list atom) (fls : list (fkey * mfluent)) : Prop :=
    Forall (fun kf => fst kf = kappa (fst (dump_fluent (snd kf))) /\ In (fst (dump_fluent (snd kf))) A) fls.

  Definition kappa_inj (A : list atom) : Prop := forall a b, In a A -> In b A -> kappa a = kappa b -> a = b.

  Lemma fluent_get_kset_general A fls m k : kappa_inj A -> keyed_by A fls -> In (fst (dump_fluent m)) A ->
    keyed_by A (kset fls (kappa (fst (dump_fluent m))) m) /\
    fluent_get k (dump_fluents (kset fls (kappa (fst (dump_fluent m))) m)) =
    if atom_eqb k (fst (dump_fluent m)) then Some (snd (dump_fluent m)) else fluent_get k (dump_fluents fls).
  Proof.
    intros Hinj Hk Hm. unfold dump_fluents. induction fls as [|[kk old] r IH]; cbn [kset map snd].
    - split; [constructor; [split; [reflexivity | exact Hm] | constructor]|].
      destruct (dump_fluent m) as [a x]. reflexivity.
    - pose proof (Forall_inv Hk) as [Hold Hold_in]. pose proof (Forall_inv_tail Hk) as Hr. cbn [fst snd] in Hold, Hold_in.
      rewrite fkey_eqb_atom_eqb. destruct (atom_eqb (kappa (fst (dump_fluent m))) kk) eqn:E.
      + apply atom_eqb_eq in E. rewrite Hold in E. apply (Hinj _ _ Hm Hold_in) in E.
        split; [constructor; [split; [cbn [fst snd]; rewrite E; exact Hold | exact Hm] | exact Hr]|].
        cbn [map snd]. destruct (dump_fluent m) as [a x]. destruct (dump_fluent old) as [a' x']. cbn [fst snd] in *. subst a'.
        cbn [fluent_get]. destruct (atom_eqb k a); reflexivity.
      + destruct (IH Hr) as [IH1 IH2]. split; [constructor; [split; [exact Hold | exact Hold_in] | exact IH1]|].
        cbn [map snd]. destruct (dump_fluent old) as [a' x'] eqn:Ed'. cbn [fst snd] in *. cbn [fluent_get].
        destruct (atom_eqb k a') eqn:E2.
        * apply atom_eqb_eq in E2. subst a'.
          destruct (atom_eqb k (fst (dump_fluent m))) eqn:E3; [|reflexivity].
          apply atom_eqb_eq in E3. subst k. rewrite <- Hold, atom_eqb_refl in E. discriminate.
        * exact IH2.
  Qed.

  Definition canonical (fl : atom * string) : Prop := canon (snd (fst fl)) = snd (fst fl).

  Lemma fold_add_fluent_general objs (all : list (atom * string)) : forall (l : list (atom * string)) acc k,
    kappa_inj (map fst all) -> (forall fl, In fl l -> In fl all) -> Forall canonical l ->
    keyed_by (map fst all) acc ->
    fluent_get k (dump_fluents (fold_left (add_fluent num dom objs) l acc)) =
    match fluent_get k (rev (pairs num l)) with Some x => Some x | None => fluent_get k (dump_fluents acc) end.
  Proof.
    induction l as [|[[f args] tok] r IH]; intros acc k Hinj Hsub Hcan Hk; [reflexivity|].
    pose proof (Forall_inv Hcan) as Ha. pose proof (Forall_inv_tail Hcan) as Hr. unfold canonical in Ha. cbn [fst snd] in Ha.
    cbn [fold_left]. unfold add_fluent at 2. cbn [fst snd].
    destruct (mk_fluent_general objs f args (value_of num tok)) as [Hkeys Hdump]. rewrite Hkeys, Ha in *.
    assert (Hm : fst (dump_fluent (mk_fluent dom objs f args (value_of num tok))) = (f, args)) by (rewrite Hdump; reflexivity).
    assert (Hin : In (fst (dump_fluent (mk_fluent dom objs f args (value_of num tok)))) (map fst all)).
    { rewrite Hm. apply in_map_iff. exists ((f, args), tok). split; [reflexivity | apply Hsub; left; reflexivity]. }
    pose proof (fluent_get_kset_general (map fst all) acc _ k Hinj Hk Hin) as [Hk' Hget].
    rewrite Hm in Hk', Hget. unfold kappa in Hk', Hget. cbn [fst snd] in Hk', Hget.
    etransitivity; [apply (IH _ k Hinj (fun fl H => Hsub fl (or_intror H)) Hr Hk')|]. rewrite Hget, Hdump. cbn [snd].
    unfold pairs. cbn [map rev fst snd]. fold (pairs num r). rewrite fluent_get_app. cbn [fluent_get].
    destruct (fluent_get k (rev (pairs num r))); [reflexivity|]. destruct (atom_eqb k (f, args)); reflexivity.
  Qed.

  (* ---------- the decidable side condition (Model/ProblemObs.v: safe_repeats) ---------- *)
  Lemma safe_repeats_facts sp : safe_repeats sp = true ->
    Forall canonical (sp_fluents sp) /\ kappa_inj (map fst (sp_fluents sp)).
  Proof.
    unfold safe_repeats. intros H. apply andb_true_iff in H. destruct H as [H1 H2]. split.
    - apply Forall_forall. intros fl Hin. rewrite forallb_forall in H1. apply strs_eqb_eq. exact (H1 fl Hin).
    - intros a b Ha Hb Hk. apply in_map_iff in Ha, Hb. destruct Ha as (fa & <- & Hfa). destruct Hb as (fb & <- & Hfb).
      rewrite forallb_forall in H2. specialize (H2 fa Hfa). rewrite forallb_forall in H2. specialize (H2 fb Hfb).
      rewrite Hk, fkey_eqb_atom_eqb, atom_eqb_refl in H2. simpl in H2. apply atom_eqb_eq. exact H2.
  Qed.

  Lemma safe_repeats_intro sp : Forall canonical (sp_fluents sp) -> kappa_inj (map fst (sp_fluents sp)) ->
    safe_repeats sp = true.
  Proof.
    intros Hcan Hinj. unfold safe_repeats. apply andb_true_iff. split.
    - apply forallb_forall. intros fl Hin. rewrite Forall_forall in Hcan. apply strs_eqb_eq. exact (Hcan fl Hin).
    - apply forallb_forall. intros fa Ha. apply forallb_forall. intros fb Hb.
      destruct (fkey_eqb (kappa (fst fa)) (kappa (fst fb))) eqn:E; [|reflexivity]. simpl.
      rewrite fkey_eqb_atom_eqb in E. apply atom_eqb_eq in E. apply atom_eqb_eq.
      apply Hinj; [apply in_map; exact Ha | apply in_map; exact Hb | exact E].
  Qed.

  (* a problem without repeated fluent arguments is safe *)
  Lemma canon_nodup args : NoDup args -> canon args = args.
  Proof.
    intros H. unfold canon. rewrite repeating_nodup by exact H. rewrite distinct_nodup by exact H.
    simpl. apply filter_all. reflexivity.
  Qed.

  Lemma no_repeats_safe sp : no_repeats sp = true -> safe_repeats sp = true.
  Proof.
    unfold no_repeats, safe_repeats. intros H. rewrite forallb_forall in H. apply andb_true_iff. split.
    - apply forallb_forall. intros fl Hin. apply strs_eqb_eq. apply canon_nodup.
      apply has_dup_name_NoDup, negb_true_iff. exact (H fl Hin).
    - apply forallb_forall. intros fa Ha. apply forallb_forall. intros fb Hb.
      destruct (fkey_eqb (kappa (fst fa)) (kappa (fst fb))) eqn:E; [|reflexivity]. simpl.
      rewrite fkey_eqb_atom_eqb in E. apply atom_eqb_eq in E. unfold kappa in E. injection E as E1 E2.
      pose proof (H fa Ha) as Hfa. pose proof (H fb Hb) as Hfb.
      apply negb_true_iff, has_dup_name_NoDup in Hfa, Hfb. rewrite !distinct_nodup in E2 by assumption.
      apply atom_eqb_eq. destruct (fst fa), (fst fb). simpl in *. congruence.
  Qed.

  Theorem built_faithful_safe sp :
    wf_code num dom sp = true -> safe_repeats sp = true ->
    pdump_equiv (dump_problem (built num dom sp)) (spec_dump num sp) = true.
  Proof.
    intros Hwf Hsafe. destruct (safe_repeats_facts sp Hsafe) as [Hcan Hinj].
    unfold pdump_equiv, dump_problem, built, spec_dump.
    cbn [pd_name pd_objects pd_facts pd_fluents pd_goal pd_goal_num pb_name pb_objects pb_facts pb_fluents pb_goal pb_goal_num].
    unfold wf_code in Hwf.
    apply andb_true_iff in Hwf; destruct Hwf as [Hwf _]. apply andb_true_iff in Hwf; destruct Hwf as [Hwf _].
    apply andb_true_iff in Hwf; destruct Hwf as [_ Hfluents].
    rewrite String.eqb_refl. rewrite list_eqb_refl.
    2:{ intros [a b]. unfold pair_eqb. simpl. rewrite !String.eqb_refl. reflexivity. }
    rewrite facts_faithful. rewrite (list_eqb_refl atom_eqb) by apply atom_eqb_refl. cbn [andb].
    apply andb_true_iff. split.
    - rewrite andb_true_r. apply fluents_equiv_pointwise. intros k.
      change (map (fun kf => dump_fluent (snd kf)) ?l) with (dump_fluents l).
      rewrite (fold_add_fluent_general (sp_objects sp) (sp_fluents sp) (sp_fluents sp) [] k Hinj (fun fl H => H) Hcan);
        [|constructor].
      rewrite spec_fluents_pairs; [destruct (fluent_get k (rev (pairs num (sp_fluents sp)))); reflexivity|].
      apply forallb_forall. intros fl Hin.
      rewrite forallb_forall in Hfluents. specialize (Hfluents fl Hin).
      unfold fluent_ok in Hfluents. apply andb_true_iff in Hfluents. destruct Hfluents as [_ H2]. exact H2.
    - rewrite map_map.
      assert (Heq : map (fun g => dump_tree (goal_tree g)) (sp_goal_num sp) = map gtree_of_goal (sp_goal_num sp)).
      { apply map_ext. intros [[c l] r]. simpl. rewrite !dump_tree_of_nexp. reflexivity. }
      rewrite Heq. apply multiset_eqb_refl.
  Qed.
End Repeats.
