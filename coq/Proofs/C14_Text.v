(* C14/C10: the texts State prints determine the facts and fluents they were printed from.
   String lemmas: append/join as character lists, splitting at the first delimiter, injectivity of
   "(name a1 ... an)" and "(= (name a1 ... an) value)" on clean tokens. *)
From Coq Require Import List Ascii String Bool Arith Lia PrimFloat.
From Verif Require Import Base.Result Base.Str Base.Sexp Base.PyDict Base.Float Model.Tokenizer Spec.Layout
  Proofs.C11_Tokenizer Model.State.
Import ListNotations.
Open Scope string_scope.
Open Scope list_scope.

(* ---------- strings as character lists ---------- *)
Lemma s2t_app a b : s2t (a +++ b) = s2t a ++ s2t b.
Proof. unfold s2t. induction a as [|c a IH]; simpl; [reflexivity|]. rewrite IH. reflexivity. Qed.

Lemma s2t_inj a b : s2t a = s2t b -> a = b.
Proof. intros H. rewrite <- (t2s_s2t a), <- (t2s_s2t b), H. reflexivity. Qed.

Lemma s2t_String c s : s2t (String c s) = c :: s2t s.
Proof. reflexivity. Qed.

Fixpoint tjoin (l : list text) : text :=
  match l with
  | [] => []
  | [x] => x
  | x :: r => x ++ SP :: tjoin r
  end.

Lemma s2t_join l : s2t (join " " l) = tjoin (map s2t l).
Proof.
  induction l as [|x [|y r] IH]; [reflexivity|reflexivity|].
  change (join " " (x :: y :: r)) with (x +++ " " +++ join " " (y :: r)).
  rewrite !s2t_app, IH. reflexivity.
Qed.

(* ---------- clean tokens: non-empty, made of lower-case atom characters ---------- *)
Definition clean_char (c : ascii) : bool := atom_char c && Ascii.eqb (lower_ascii c) c.
Definition tok_ok (s : string) : bool :=
  match s with EmptyString => false | _ => forallb clean_char (s2t s) end.

Lemma clean_char_facts c : clean_char c = true ->
  atom_char c = true /\ lower_ascii c = c /\ c <> SP /\ c <> LP /\ c <> RP /\ c <> LF.
Proof.
  unfold clean_char. rewrite andb_true_iff, Ascii.eqb_eq. intros [Ha Hl].
  split; [exact Ha|]. split; [exact Hl|].
  repeat split; intros ->; discriminate Ha.
Qed.

Lemma tok_ok_facts s : tok_ok s = true ->
  s2t s <> [] /\ Forall (fun c => atom_char c = true) (s2t s) /\ lower_text (s2t s) = s2t s /\
  ~ In SP (s2t s) /\ ~ In RP (s2t s) /\ ~ In LP (s2t s).
Proof.
  destruct s as [|c s]; [discriminate|]. unfold tok_ok. intros H.
  rewrite forallb_forall in H.
  split; [discriminate|].
  split; [apply Forall_forall; intros x Hx; apply (clean_char_facts x (H x Hx))|].
  split.
  - unfold lower_text. rewrite <- (map_id (s2t (String c s))) at 2. apply map_ext_in.
    intros x Hx. apply (clean_char_facts x (H x Hx)).
  - repeat split; intros Hin; apply H in Hin; apply clean_char_facts in Hin; intuition congruence.
Qed.

Lemma tok_ok_lower s : tok_ok s = true -> t2s (lower_text (s2t s)) = s.
Proof. intros H. apply tok_ok_facts in H as (_ & _ & -> & _). apply t2s_s2t. Qed.

(* ---------- splitting at the first occurrence of a delimiter ---------- *)
Lemma split_first {A} (c : A) u1 u2 r1 r2 :
  ~ In c u1 -> ~ In c u2 -> u1 ++ c :: r1 = u2 ++ c :: r2 -> u1 = u2 /\ r1 = r2.
Proof.
  revert u2. induction u1 as [|x u1 IH]; intros [|y u2] H1 H2 E; simpl in *.
  - injection E as <-. auto.
  - injection E as <- _. exfalso. apply H2. auto.
  - injection E as -> _. exfalso. apply H1. auto.
  - injection E as <- E. destruct (IH u2) as [-> ->]; auto.
Qed.

Lemma no_delim_app {A} (c : A) u r v : ~ In c v -> u ++ c :: r = v -> False.
Proof. intros H E. apply H. rewrite <- E. apply in_or_app. right. left. reflexivity. Qed.

Definition tokt (t : text) : Prop := t <> [] /\ ~ In SP t.

Lemma tjoin_inj l1 : forall l2, Forall tokt l1 -> Forall tokt l2 -> tjoin l1 = tjoin l2 -> l1 = l2.
Proof.
  induction l1 as [|x [|x2 r1] IH]; intros [|y [|y2 r2]] F1 F2 E; try reflexivity.
  - inversion F2 as [|? ? [Hy _] _]; subst. simpl in E. congruence.
  - inversion F2 as [|? ? [Hy _] _]; subst. simpl in E. destruct y; [congruence|discriminate].
  - inversion F1 as [|? ? [Hx _] _]; subst. simpl in E. congruence.
  - simpl in E. congruence.
  - inversion F1 as [|? ? [_ Hx] _]; subst. exfalso.
    change (tjoin (y :: y2 :: r2)) with (y ++ SP :: tjoin (y2 :: r2)) in E. simpl in E.
    symmetry in E. exact (no_delim_app SP _ _ _ Hx E).
  - inversion F1 as [|? ? [Hx _] _]; subst. simpl in E. destruct x; [congruence|discriminate].
  - inversion F2 as [|? ? [_ Hy] _]; subst. exfalso.
    change (tjoin (x :: x2 :: r1)) with (x ++ SP :: tjoin (x2 :: r1)) in E. simpl in E.
    exact (no_delim_app SP _ _ _ Hy E).
  - change (tjoin (x :: x2 :: r1)) with (x ++ SP :: tjoin (x2 :: r1)) in E.
    change (tjoin (y :: y2 :: r2)) with (y ++ SP :: tjoin (y2 :: r2)) in E.
    inversion F1 as [|? ? [_ Hx] F1']; subst. inversion F2 as [|? ? [_ Hy] F2']; subst.
    destruct (split_first SP _ _ _ _ Hx Hy E) as [-> E'].
    f_equal. apply IH; assumption.
Qed.

Lemma tjoin_no {c : ascii} l : c <> SP -> Forall (fun t => ~ In c t) l -> ~ In c (tjoin l).
Proof.
  intros Hc. induction l as [|x [|y r] IH]; intros F; [intros []| |].
  - inversion F; subst. assumption.
  - inversion F as [|? ? Hx F']; subst.
    change (tjoin (x :: y :: r)) with (x ++ SP :: tjoin (y :: r)).
    intros Hin. apply in_app_or in Hin as [Hin|[Hin|Hin]]; [auto|congruence|]. exact (IH F' Hin).
Qed.

(* ---------- "(name a1 ... an)" ---------- *)
Definition atom_text (a : string * list string) : string :=
  "(" +++ fst a +++ " " +++ join " " (snd a) +++ ")".
Definition atom_ok (a : string * list string) : bool := tok_ok (fst a) && forallb tok_ok (snd a).

Lemma s2t_atom_text a : s2t (atom_text a) = LP :: s2t (fst a) ++ SP :: tjoin (map s2t (snd a)) ++ [RP].
Proof. unfold atom_text. rewrite !s2t_app, s2t_join. reflexivity. Qed.

Lemma toks_tokt l : forallb tok_ok l = true -> Forall tokt (map s2t l).
Proof.
  rewrite forallb_forall. intros H. apply Forall_forall. intros t Ht.
  apply in_map_iff in Ht as (s & <- & Hs). apply H in Hs. apply tok_ok_facts in Hs. unfold tokt. tauto.
Qed.

Lemma toks_no_rp l : forallb tok_ok l = true -> ~ In RP (tjoin (map s2t l)).
Proof.
  rewrite forallb_forall. intros H. apply tjoin_no; [discriminate|].
  apply Forall_forall. intros t Ht. apply in_map_iff in Ht as (s & <- & Hs).
  apply H in Hs. apply tok_ok_facts in Hs. tauto.
Qed.

Lemma map_s2t_inj l1 l2 : map s2t l1 = map s2t l2 -> l1 = l2.
Proof.
  revert l2. induction l1 as [|x l1 IH]; intros [|y l2] E; try discriminate; [reflexivity|].
  injection E as E1 E2. f_equal; [apply s2t_inj; exact E1|apply IH; exact E2].
Qed.

Lemma atom_text_inj a b : atom_ok a = true -> atom_ok b = true -> atom_text a = atom_text b -> a = b.
Proof.
  unfold atom_ok. rewrite !andb_true_iff. intros [Ha1 Ha2] [Hb1 Hb2] E.
  apply (f_equal s2t) in E. rewrite !s2t_atom_text in E. injection E as E.
  apply tok_ok_facts in Ha1 as (_ & _ & _ & Ha1 & _). apply tok_ok_facts in Hb1 as (_ & _ & _ & Hb1 & _).
  destruct (split_first SP _ _ _ _ Ha1 Hb1 E) as [En E'].
  apply app_inv_tail in E'. apply tjoin_inj in E'; [|apply toks_tokt; assumption..].
  destruct a as [n1 l1], b as [n2 l2]. simpl in *. f_equal; [apply s2t_inj; exact En|apply map_s2t_inj; exact E'].
Qed.

(* ---------- "(= (name a1 ... an) value)" ---------- *)
Definition valued_text (a : string * list string) (num : string) : string :=
  "(= " +++ atom_text a +++ " " +++ num +++ ")".

Lemma s2t_valued_text a num :
  s2t (valued_text a num) =
  LP :: "="%char :: SP :: LP :: s2t (fst a) ++ SP :: tjoin (map s2t (snd a)) ++ RP :: SP :: s2t num ++ [RP].
Proof.
  unfold valued_text. rewrite !s2t_app, s2t_atom_text. simpl.
  rewrite <- !app_assoc. simpl. rewrite <- ?app_assoc. reflexivity.
Qed.

Lemma valued_text_inj a b na nb :
  atom_ok a = true -> atom_ok b = true -> valued_text a na = valued_text b nb -> a = b /\ na = nb.
Proof.
  unfold atom_ok. rewrite !andb_true_iff. intros [Ha1 Ha2] [Hb1 Hb2] E.
  apply (f_equal s2t) in E. rewrite !s2t_valued_text in E. injection E as E.
  apply tok_ok_facts in Ha1 as (_ & _ & _ & Ha1 & _). apply tok_ok_facts in Hb1 as (_ & _ & _ & Hb1 & _).
  destruct (split_first SP _ _ _ _ Ha1 Hb1 E) as [En E'].
  destruct (split_first RP _ _ _ _ (toks_no_rp _ Ha2) (toks_no_rp _ Hb2) E') as [Ej E''].
  injection E'' as E''. apply app_inv_tail in E''.
  apply tjoin_inj in Ej; [|apply toks_tokt; assumption..].
  destruct a as [n1 l1], b as [n2 l2]. simpl in *. split; [|apply s2t_inj; exact E''].
  f_equal; [apply s2t_inj; exact En|apply map_s2t_inj; exact Ej].
Qed.

(* ---------- the texts of the model ---------- *)
Lemma gp_untyped_atom g : gp_pos g = true -> gp_untyped g = atom_text (gp_atom g).
Proof. unfold gp_untyped, atom_text, gp_atom. intros ->. reflexivity. Qed.

Lemma pf_state_text_valued' num_text f :
  pf_state_text num_text f = valued_text (pf_atom f) (pf_value_text num_text f).
Proof.
  apply s2t_inj. rewrite s2t_valued_text. unfold pf_state_text, pf_atom. cbn [fst snd].
  rewrite !s2t_app, s2t_join. simpl. rewrite <- ?app_assoc. simpl. rewrite <- ?app_assoc. reflexivity.
Qed.

(* a float value (every value the parsers and the effects store) *)
Lemma pf_state_text_valued num_text f : pf_int f = false ->
  pf_state_text num_text f = valued_text (pf_atom f) (num_text (pf_val f)).
Proof.
  intros Hf. rewrite pf_state_text_valued'. unfold pf_value_text. rewrite Hf. reflexivity.
Qed.

