(* C15: the action-line scanner.  On every plan file of the grammar of Spec/JointPlan.v (render_plan) the model's
   re.finditer scanner returns exactly the actions, in order, lower-cased, and the executing agent is the first
   argument that names an agent.  String induction; character facts by reflection over the 256 characters. *)
From Coq Require Import List Ascii String Bool Arith NArith Lia.
From Verif Require Import Base.Result Base.Str Model.PlannerLogs Spec.Pddl Spec.JointPlan Model.PlanConverter.
Import ListNotations.
Open Scope list_scope.

(* ---------- character facts ---------- *)
Lemma ws_in_body c : is_ws c = true -> in_body c = true.
Proof. intros H. unfold in_body. rewrite H. rewrite !orb_true_r. reflexivity. Qed.

Lemma tok_in_body' c : tok_char c = true -> in_body c = true.
Proof.
  intros H. pose proof (forall_ascii (fun c => implb (tok_char c) (in_body c)) eq_refl c) as X. cbv beta in X.
  rewrite H in X. exact X.
Qed.

Lemma tok_not_ws c : tok_char c = true -> is_ws c = false.
Proof.
  intros H. pose proof (forall_ascii (fun c => implb (tok_char c) (negb (is_ws c))) eq_refl c) as X. cbv beta in X.
  rewrite H in X. cbn in X. apply negb_true_iff. exact X.
Qed.

Lemma lower_tok c : tok_char c = true -> tok_char (lower_ascii c) = true.
Proof.
  intros H. pose proof (forall_ascii (fun c => implb (tok_char c) (tok_char (lower_ascii c))) eq_refl c) as X. cbv beta in X.
  rewrite H in X. exact X.
Qed.

Lemma lower_ws c : is_ws c = true -> is_ws (lower_ascii c) = true.
Proof.
  intros H. pose proof (forall_ascii (fun c => implb (is_ws c) (is_ws (lower_ascii c))) eq_refl c) as X. cbv beta in X.
  rewrite H in X. exact X.
Qed.

Lemma rp_not_body : in_body RP = false.
Proof. reflexivity. Qed.
Lemma lp_not_prefix : in_prefix LP = false.
Proof. reflexivity. Qed.
Lemma prefix_not_lp c : in_prefix c = true -> Ascii.eqb c LP = false.
Proof.
  intros H. pose proof (forall_ascii (fun c => implb (in_prefix c) (negb (Ascii.eqb c LP))) eq_refl c) as X. cbv beta in X.
  rewrite H in X. cbn in X. apply negb_true_iff. exact X.
Qed.

(* ---------- take_while / drop_while on a run ---------- *)
Lemma take_while_run p (b rest : text) c :
  Forall (fun x => p x = true) b -> p c = false -> take_while p (b ++ c :: rest) = b.
Proof. induction 1 as [|x b Hx _ IH]; intros Hc; cbn; [rewrite Hc; reflexivity|rewrite Hx, IH; auto]. Qed.

Lemma drop_while_run p (b rest : text) c :
  Forall (fun x => p x = true) b -> p c = false -> drop_while p (b ++ c :: rest) = c :: rest.
Proof. induction 1 as [|x b Hx _ IH]; intros Hc; cbn; [rewrite Hc; reflexivity|rewrite Hx, IH; auto]. Qed.

(* ---------- the scanner ---------- *)
Lemma paren_here_match body rest :
  body <> [] -> Forall (fun c => in_body c = true) body ->
  paren_here (LP :: body ++ RP :: rest) = Some (body, rest).
Proof.
  intros Hne Hb. unfold paren_here. rewrite Ascii.eqb_refl.
  rewrite (take_while_run in_body body rest RP Hb rp_not_body), (drop_while_run in_body body rest RP Hb rp_not_body).
  destruct body; [contradiction|]. rewrite Ascii.eqb_refl. reflexivity.
Qed.

Lemma paren_here_shape t g rest : paren_here t = Some (g, rest) -> exists more, t = LP :: more /\ List.length more = List.length g + 1 + List.length rest.
Proof.
  unfold paren_here. destruct t as [|c r]; [discriminate|].
  destruct (Ascii.eqb c LP) eqn:E; [|discriminate]. apply Ascii.eqb_eq in E. subst c.
  destruct (take_while in_body r) as [|x b] eqn:Et; [discriminate|].
  destruct (drop_while in_body r) as [|d rest'] eqn:Ed; [discriminate|].
  destruct (Ascii.eqb d RP); [|discriminate]. intros H. inversion H; subst g rest'.
  exists r. split; [reflexivity|].
  assert (L : forall t : text, List.length t = List.length (take_while in_body t) + List.length (drop_while in_body t)).
  { induction t as [|y t IH]; [reflexivity|]. cbn. destruct (in_body y); cbn; [rewrite IH; reflexivity|reflexivity]. }
  rewrite (L r), Et, Ed. cbn. lia.
Qed.

Lemma paren_here_needs_lp c t : Ascii.eqb c LP = false -> paren_here (c :: t) = None.
Proof. intros H. unfold paren_here. rewrite H. reflexivity. Qed.

Lemma scan_skip_n (x rest : text) : scan (x ++ rest) (List.length x) = scan rest 0.
Proof. induction x as [|c x IH]; [reflexivity|]. cbn [Datatypes.app List.length scan]. exact IH. Qed.

(* a character other than '(' in front of a text does not change the matches *)
Lemma scan_skip_char c t : Ascii.eqb c LP = false -> scan (c :: t) 0 = scan t 0.
Proof.
  intros Hc. cbn [scan]. unfold match_here. rewrite (paren_here_needs_lp c t Hc).
  destruct (in_prefix c) eqn:Ep; [|reflexivity].
  destruct (paren_here t) as [[g rest]|] eqn:Eh; [|reflexivity].
  destruct (paren_here_shape t g rest Eh) as (more & -> & Hlen).
  (* the match found one character earlier is the match at '(' *)
  cbn [scan]. unfold match_here. rewrite lp_not_prefix, Eh.
  cbn [List.length]. rewrite Hlen.
  replace (S (S (List.length g + 1 + List.length rest)) - List.length rest - 1) with (S (List.length g + 1)) by lia.
  replace (S (List.length g + 1 + List.length rest) - List.length rest - 1) with (List.length g + 1) by lia.
  reflexivity.
Qed.

Lemma scan_skip_text pre t : Forall (fun c => c <> LP) pre -> scan (pre ++ t) 0 = scan t 0.
Proof.
  induction 1 as [|c pre Hc _ IH]; [reflexivity|]. rewrite <- app_comm_cons. rewrite scan_skip_char; [exact IH|].
  apply Ascii.eqb_neq. exact Hc.
Qed.

Lemma scan_no_lp t : Forall (fun c => c <> LP) t -> scan t 0 = [].
Proof. intros H. rewrite <- (app_nil_r t). rewrite (scan_skip_text t [] H). reflexivity. Qed.

Lemma scan_match body rest :
  body <> [] -> Forall (fun c => in_body c = true) body ->
  scan (LP :: body ++ RP :: rest) 0 = body :: scan rest 0.
Proof.
  intros Hne Hb. cbn [scan]. unfold match_here. rewrite lp_not_prefix, (paren_here_match body rest Hne Hb).
  f_equal.
  assert (E : List.length (LP :: body ++ RP :: rest) - List.length rest - 1 = List.length (body ++ [RP])).
  { cbn [List.length]. rewrite !app_length. cbn [List.length]. lia. }
  rewrite E.
  replace (body ++ RP :: rest) with ((body ++ [RP]) ++ rest) by (rewrite <- app_assoc; reflexivity).
  apply scan_skip_n.
Qed.

(* ---------- the body of a line ---------- *)
Lemma Forall_flat_map {A B} (P : B -> Prop) (f : A -> list B) l : Forall (fun x => Forall P (f x)) l -> Forall P (flat_map f l).
Proof. induction 1; cbn; [constructor|apply Forall_app; split; assumption]. Qed.

Lemma Forall_imp_in {A} (P Q : A -> Prop) l : (forall x, P x -> Q x) -> Forall P l -> Forall Q l.
Proof. intros H. induction 1; constructor; auto. Qed.

Lemma body_in_class l : plan_line_ok l -> line_body l <> [] /\ Forall (fun c => in_body c = true) (line_body l).
Proof.
  intros (_ & Hl & [Hn Hnt] & Ha & Ht). unfold line_body. split.
  - intros E. apply app_eq_nil in E. destruct E as [_ E]. apply app_eq_nil in E. destruct E as [E _]. contradiction.
  - apply Forall_app. split; [apply (Forall_imp_in _ _ _ ws_in_body Hl)|].
    apply Forall_app. split; [apply (Forall_imp_in _ _ _ tok_in_body' Hnt)|].
    apply Forall_app. split; [|apply (Forall_imp_in _ _ _ ws_in_body Ht)].
    apply Forall_flat_map. revert Ha. apply Forall_imp_in. intros [sep tok] (_ & Hs & _ & Htk). cbn [fst snd] in *.
    apply Forall_app. split; [apply (Forall_imp_in _ _ _ ws_in_body Hs)|apply (Forall_imp_in _ _ _ tok_in_body' Htk)].
Qed.

Lemma regroup (A B F fin : text) : ((A ++ LP :: B ++ [RP]) ++ F) ++ fin = A ++ LP :: B ++ RP :: (F ++ fin).
Proof.
  rewrite <- !app_assoc. f_equal. rewrite <- !app_comm_cons. f_equal. rewrite <- !app_assoc. reflexivity.
Qed.

(* the groups the scanner returns on a rendered plan: the bodies of its lines, in order *)
Lemma scan_render ls final :
  Forall plan_line_ok ls -> Forall (fun c => c <> LP) final ->
  scan (render_plan ls final) 0 = map line_body ls.
Proof.
  intros H Hf. unfold render_plan. induction H as [|l ls Hl _ IH]; cbn [flat_map map].
  - apply scan_no_lp. exact Hf.
  - destruct Hl as (Hb & Hrest). rewrite regroup. rewrite (scan_skip_text (pl_before l) _ Hb).
    destruct (body_in_class l (conj Hb Hrest)) as [Hne Hcls].
    rewrite (scan_match (line_body l) _ Hne Hcls). f_equal. exact IH.
Qed.

(* ---------- str.split() on the lower-cased body ---------- *)
Lemma split_ws_skip (w t : text) : all_ws w -> split_ws (w ++ t) [] = split_ws t [].
Proof. induction 1 as [|c w Hc _ IH]; [reflexivity|]. cbn [Datatypes.app split_ws]. rewrite Hc. exact IH. Qed.

Lemma split_ws_token (tok t cur : text) :
  Forall (fun c => is_ws c = false) tok -> split_ws (tok ++ t) cur = split_ws t (rev tok ++ cur).
Proof.
  intros H. revert cur. induction H as [|c tok Hc _ IH]; intros cur; [reflexivity|].
  cbn [Datatypes.app split_ws rev]. rewrite Hc, IH. rewrite <- app_assoc. reflexivity.
Qed.

Lemma split_ws_all_ws w : all_ws w -> split_ws w [] = [].
Proof. induction 1 as [|c w Hc _ IH]; [reflexivity|]. cbn [split_ws]. rewrite Hc. exact IH. Qed.

Definition no_ws (t : text) : Prop := Forall (fun c => is_ws c = false) t.

(* a pending token [p], then (separator, token) pairs, then trailing white space *)
Lemma split_ws_args (p : text) (args : list (text * text)) (trail : text) :
  p <> [] ->
  Forall (fun st => fst st <> [] /\ all_ws (fst st) /\ snd st <> [] /\ no_ws (snd st)) args -> all_ws trail ->
  split_ws (flat_map (fun st => fst st ++ snd st) args ++ trail) (rev p) = p :: map snd args.
Proof.
  intros Hp Ha Ht. revert p Hp. induction Ha as [|[sep tok] args (Hs1 & Hs2 & Ht1 & Ht2) _ IH]; intros p Hp; cbn [flat_map map Datatypes.app fst snd] in *.
  - destruct Ht as [|c tr Hc Htr]; cbn [split_ws].
    + destruct (rev p) eqn:E; [apply (f_equal (@rev ascii)) in E; rewrite rev_involutive in E; cbn in E; contradiction|].
      rewrite <- E, rev_involutive. reflexivity.
    + rewrite Hc. destruct (rev p) eqn:E; [apply (f_equal (@rev ascii)) in E; rewrite rev_involutive in E; cbn in E; contradiction|].
      rewrite <- E, rev_involutive. f_equal. apply split_ws_all_ws. exact Htr.
  - destruct sep as [|c sep]; [contradiction|]. inversion Hs2 as [|? ? Hc Hsep]; subst.
    rewrite <- !app_assoc. cbn [Datatypes.app split_ws]. rewrite Hc.
    destruct (rev p) eqn:E; [apply (f_equal (@rev ascii)) in E; rewrite rev_involutive in E; cbn in E; contradiction|].
    rewrite <- E, rev_involutive. f_equal.
    rewrite (split_ws_skip sep _ Hsep), (split_ws_token tok _ [] Ht2), app_nil_r. apply IH. exact Ht1.
Qed.

Lemma lower_text_app a b : lower_text (a ++ b) = lower_text a ++ lower_text b.
Proof. unfold lower_text. apply map_app. Qed.

Lemma lower_all_ws w : all_ws w -> all_ws (lower_text w).
Proof. unfold all_ws, lower_text. intros H. apply Forall_map. revert H. apply Forall_imp_in. apply lower_ws. Qed.

Lemma lower_token t : is_token t -> lower_text t <> [] /\ no_ws (lower_text t).
Proof.
  intros [Hne H]. split; [destruct t; [contradiction|discriminate]|].
  unfold no_ws, lower_text. apply Forall_map. revert H. apply Forall_imp_in. intros c Hc. apply tok_not_ws. apply lower_tok. exact Hc.
Qed.

Lemma lower_flat_map (args : list (text * text)) :
  lower_text (flat_map (fun st => fst st ++ snd st) args) =
  flat_map (fun st => fst st ++ snd st) (map (fun st => (lower_text (fst st), lower_text (snd st))) args).
Proof.
  induction args as [|[s t] args IH]; [reflexivity|]. cbn [flat_map map fst snd].
  rewrite !lower_text_app, IH. reflexivity.
Qed.

Lemma split_body l :
  plan_line_ok l ->
  split_ws (lower_text (line_body l)) [] = lower_text (pl_name l) :: map (fun st => lower_text (snd st)) (pl_args l).
Proof.
  intros (_ & Hl & Hn & Ha & Ht). unfold line_body. rewrite !lower_text_app, lower_flat_map.
  rewrite (split_ws_skip _ _ (lower_all_ws _ Hl)).
  destruct (lower_token _ Hn) as [Hne Hnw].
  rewrite (split_ws_token _ _ [] Hnw), app_nil_r.
  rewrite (split_ws_args (lower_text (pl_name l))); [rewrite map_map; reflexivity|exact Hne| |apply lower_all_ws; exact Ht].
  apply Forall_map. revert Ha. apply Forall_imp_in. intros [s t] (H1 & H2 & H3). cbn [fst snd] in *.
  destruct (lower_token _ H3) as [A B].
  repeat split; [destruct s; [contradiction|discriminate]|apply lower_all_ws; exact H2|exact A|exact B].
Qed.

(* ---------- the theorem ---------- *)
Definition expected_pcall (agents : list string) (l : plan_line) : result (call * string) :=
  match find (fun p => str_in p agents) (snd (line_call l)) with
  | Some ag => Ok (line_call l, ag)
  | None => Err EIndex
  end.

Theorem extract_render agents ls final :
  Forall plan_line_ok ls -> Forall (fun c => c <> LP) final ->
  extract_plan_actions agents (render_plan ls final) = mapM (expected_pcall agents) ls.
Proof.
  intros H Hf. unfold extract_plan_actions. rewrite (scan_render ls final H Hf).
  induction H as [|l ls Hl _ IH]; [reflexivity|]. cbn [map mapM]. rewrite IH. f_equal.
  unfold action_of_group, expected_pcall, line_call. rewrite (split_body l Hl). cbn [map snd].
  rewrite map_map. reflexivity.
Qed.
