(* C15: the structure theorems for the converter itself (plan text in, joint actions out). *)
From Coq Require Import List Ascii String Bool Arith Lia Permutation PrimFloat.
From Verif Require Import Base.Result Base.Str Model.Domain Model.Exec Spec.Pddl Spec.JointPlan Model.PlanConverter
  Proofs.C15_Loop Proofs.C15_Views Proofs.C15_Effect Proofs.C15_Sound Proofs.C15_Scan.
Import ListNotations.
Open Scope string_scope.
Open Scope list_scope.

Definition no_nop_action (pa : list (call * string)) : Prop := Forall (fun p => is_nop (fst p) = false) pa.

Lemma wf_of_extract agents t pa :
  extract_plan_actions agents t = Ok pa -> no_nop_action pa -> Forall (wf_pcall agents) pa.
Proof.
  intros He Hn. apply extract_executor in He. unfold no_nop_action in Hn.
  rewrite Forall_forall in *. intros p Hp. split; [apply He|apply Hn]; exact Hp.
Qed.

Lemma convert_structure_lemma dom eps agents flag test init t pa js :
  extract_plan_actions agents t = Ok pa -> no_nop_action pa ->
  convert_plan dom eps agents flag test init t = Ok js ->
  structure_ok agents (map fst pa) js.
Proof.
  intros He Hn H. unfold convert_plan in H. rewrite He in H. cbn [bind] in H.
  unfold convert_actions, create_joint_actions in H.
  eapply outer_structure; [apply (wf_of_extract agents t pa He Hn)|exact H].
Qed.

Lemma convert_step_sizes_lemma dom eps agents flag test init t pa js :
  extract_plan_actions agents t = Ok pa -> no_nop_action pa ->
  convert_plan dom eps agents flag test init t = Ok js ->
  Forall (fun j => 1 <= List.length (members j) <= 2) js.
Proof.
  intros He Hn H. unfold convert_plan in H. rewrite He in H. cbn [bind] in H.
  unfold convert_actions, create_joint_actions in H.
  eapply outer_step_sizes; [apply (wf_of_extract agents t pa He Hn)|exact H].
Qed.

(* fuel: the converter's result does not depend on fuel beyond the number of extracted actions *)
Lemma convert_fuel_lemma dom eps agents flag test init (plan : list (call * string)) extra :
  outer state agents (checks dom eps flag test) (apply_actions dom eps) (List.length plan + extra) init plan =
  convert_actions dom eps agents flag test init plan.
Proof. apply fuel_suffices. Qed.

(* an action literally named "nop" is outside the theorem, and must be: it is overwritten in its slot *)
Definition toy_checks (s : unit) (j : joint) (c : call) : result bool := Ok true.
Definition toy_apply (s : unit) (l : list call) : result unit := Ok s.

Lemma nop_named_action_is_lost :
  create_joint_actions unit ["a1"] toy_checks toy_apply tt [(("nop", ["a1"]), "a1"); (("move", ["a1"]), "a1")]
  = Ok [[("move", ["a1"])]].
Proof. reflexivity. Qed.

(* ---------- the outcome theorem for the converter itself ---------- *)

Lemma convert_outcome_lemma dom eps agents flag init t pa js fin :
  extract_plan_actions agents t = Ok pa -> no_nop_action pa ->
  Forall (fun p => pre_total dom eps (fst p)) pa ->
  run_sequential dom eps init (map fst pa) = Ok fin ->
  convert_plan dom eps agents flag insertion_ok init t = Ok js ->
  exists fin', run_joint dom eps init js = Ok fin' /\ seqv fin' fin /\ steps_applicable dom eps init js.
Proof.
  intros He Hn Ht Hs H. unfold convert_plan in H. rewrite He in H. cbn [bind] in H.
  unfold convert_actions, create_joint_actions in H.
  eapply outer_sound; [apply (wf_of_extract agents t pa He Hn)|exact Ht|apply seqv_refl|exact Hs|exact H].
Qed.


(* ---------- from the plan FILE to the joint actions ---------- *)
Lemma expected_calls agents ls pa :
  mapM (expected_pcall agents) ls = Ok pa -> map fst pa = map line_call ls.
Proof.
  revert pa. induction ls as [|l ls IH]; intros pa H; cbn [mapM] in H; [inversion H; reflexivity|].
  unfold expected_pcall at 1 in H.
  destruct (find (fun p => str_in p agents) (snd (line_call l))) as [ag|]; cbn [bind] in H; [|discriminate].
  destruct (mapM (expected_pcall agents) ls) as [ps|]; cbn [bind] in H; [|discriminate].
  inversion H; subst pa. cbn [map fst]. rewrite (IH ps eq_refl). reflexivity.
Qed.

Lemma convert_file_structure_lemma dom eps agents flag test init ls final js :
  Forall plan_line_ok ls -> Forall (fun c => c <> LP) final ->
  Forall (fun l => is_nop (line_call l) = false) ls ->
  convert_plan dom eps agents flag test init (render_plan ls final) = Ok js ->
  structure_ok agents (map line_call ls) js.
Proof.
  intros Hok Hf Hn H.
  destruct (extract_plan_actions agents (render_plan ls final)) as [pa|k] eqn:Ee.
  - pose proof Ee as Ee'. rewrite (extract_render agents ls final Hok Hf) in Ee'.
    rewrite <- (expected_calls agents ls pa Ee').
    apply (convert_structure_lemma dom eps agents flag test init (render_plan ls final) pa js Ee); [|exact H].
    unfold no_nop_action. apply Forall_forall. intros p Hp.
    assert (Hin : In (fst p) (map line_call ls)).
    { rewrite <- (expected_calls agents ls pa Ee'). apply in_map. exact Hp. }
    apply in_map_iff in Hin. destruct Hin as (l & El & Hl). rewrite <- El.
    rewrite Forall_forall in Hn. apply Hn. exact Hl.
  - unfold convert_plan in H. rewrite Ee in H. discriminate.
Qed.
