(* C18, part 15: the code's model of change_signature RETURNS.
   fresh_variable_name is a while loop; its model fresh_name runs on a fuel of 1 + sum over the tokens of L*(L+1) + 2*|mapping|
   and reports Err EFuel when it runs out.  It never does: the candidates ?v_0, ?v_1 ... are pairwise distinct, a blocked one
   is a non-empty substring of a token or a key or a value of the mapping, and there are fewer such strings than the fuel
   (pigeonhole).  With the nesting depth of the action's conditions within alpha_fuel = 200, change_signature_a returns. *)
From Coq Require Import List String Bool Arith Lia DecimalString DecimalNat.
From Verif Require Import Base.Result Base.Str Base.PyDict Model.Domain Model.ChangeSignature Model.ChangeSignatureAlpha
  Model.Exec Spec.Pddl Spec.Rename Proofs.C18_Dict Proofs.C18_Denote Proofs.C18_AlphaStep Proofs.C18_AlphaCorrect.
Import ListNotations.
Open Scope string_scope.
Open Scope list_scope.

(* ---------- the non-empty substrings of a token ---------- *)
Fixpoint neprefixes (s : string) : list string :=
  match s with
  | EmptyString => []
  | String a r => String a EmptyString :: map (String a) (neprefixes r)
  end.

Fixpoint nesubs (s : string) : list string :=
  match s with
  | EmptyString => []
  | String a r => neprefixes (String a r) ++ nesubs r
  end.

Lemma neprefixes_length s : List.length (neprefixes s) = String.length s.
Proof. induction s as [|a r IH]; simpl; [reflexivity|]. rewrite map_length, IH. reflexivity. Qed.

Lemma nesubs_length s : List.length (nesubs s) <= String.length s * S (String.length s).
Proof.
  induction s as [|a r IH]; [simpl; lia|].
  change (nesubs (String a r)) with (neprefixes (String a r) ++ nesubs r).
  rewrite app_length, neprefixes_length. simpl String.length. nia.
Qed.

Lemma prefix_in : forall s c, c <> EmptyString -> String.prefix c s = true -> In c (neprefixes s).
Proof.
  induction s as [|b r IH]; intros c Hc H.
  - destruct c; [contradiction|simpl in H; discriminate].
  - destruct c as [|a c']; [contradiction|]. simpl in H.
    destruct (Ascii.ascii_dec a b) as [->|]; [|discriminate]. simpl.
    destruct c' as [|a' c''].
    + left. reflexivity.
    + right. apply in_map. apply IH; [discriminate|exact H].
Qed.

Lemma infix_in : forall s c, c <> EmptyString -> infix_of c s = true -> In c (nesubs s).
Proof.
  induction s as [|b r IH]; intros c Hc H.
  - destruct c; [contradiction|simpl in H; discriminate].
  - cbn [infix_of] in H. change (nesubs (String b r)) with (neprefixes (String b r) ++ nesubs r).
    apply orb_true_iff in H. destruct H as [H|H]; apply in_or_app.
    + left. apply prefix_in; assumption.
    + right. apply IH; assumption.
Qed.

(* ---------- what can block a candidate ---------- *)
Definition blockers (toks : list string) (m : renaming) : list string := flat_map nesubs toks ++ dkeys m ++ dvalues m.

Lemma blocked_in toks m c : c <> EmptyString -> blocked toks m c = true -> In c (blockers toks m).
Proof.
  intros Hc H. unfold blocked in H. unfold blockers.
  apply orb_true_iff in H. destruct H as [H|H]; [apply orb_true_iff in H; destruct H as [H|H]|].
  - apply in_or_app. left. apply existsb_exists in H. destruct H as [t [Ht H]].
    apply in_flat_map. exists t. split; [exact Ht|apply infix_in; assumption].
  - apply in_or_app. right. apply in_or_app. left. apply str_in_In. exact H.
  - apply in_or_app. right. apply in_or_app. right. apply str_in_In. exact H.
Qed.

Lemma blockers_length toks m :
  List.length (blockers toks m) <= list_sum (map (fun n => String.length n * S (String.length n)) toks) + 2 * List.length m.
Proof.
  unfold blockers, dkeys, dvalues. rewrite !app_length, !map_length.
  assert (H : List.length (flat_map nesubs toks) <= list_sum (map (fun n => String.length n * S (String.length n)) toks)).
  { induction toks as [|t r IH]; simpl; [lia|]. rewrite app_length. pose proof (nesubs_length t). lia. }
  lia.
Qed.

(* ---------- the candidates are pairwise distinct and not empty ---------- *)
Definition cand (v : string) (i : nat) : string := (v ++ "_" ++ nat_to_string i)%string.

Lemma nat_to_string_inj i j : nat_to_string i = nat_to_string j -> i = j.
Proof.
  unfold nat_to_string. intros H.
  assert (E : Some (Nat.to_uint i) = Some (Nat.to_uint j)) by (rewrite <- !NilEmpty.usu, H; reflexivity).
  inversion E as [E']. rewrite <- (Unsigned.of_to i), <- (Unsigned.of_to j), E'. reflexivity.
Qed.

Lemma append_inj_l (v x y : string) : (v ++ x)%string = (v ++ y)%string -> x = y.
Proof. induction v as [|a r IH]; simpl; intros H; [exact H|]. inversion H. apply IH. assumption. Qed.

Lemma cand_inj v i j : cand v i = cand v j -> i = j.
Proof. unfold cand. intros H. apply append_inj_l in H. simpl in H. inversion H. apply nat_to_string_inj. assumption. Qed.

Lemma cand_nonempty v i : cand v i <> EmptyString.
Proof. unfold cand. destruct v; simpl; discriminate. Qed.

(* ---------- the loop ends ---------- *)
Lemma fresh_from_err fuel v toks m i e :
  fresh_from fuel v toks m i = Err e -> forall j, i <= j < i + fuel -> blocked toks m (cand v j) = true.
Proof.
  revert i. induction fuel as [|fu IH]; intros i H j Hj; [lia|]. cbn [fresh_from] in H.
  fold (cand v i) in H. destruct (blocked toks m (cand v i)) eqn:E; [|discriminate].
  destruct (Nat.eq_dec j i) as [->|Hne]; [exact E|]. apply (IH (S i) H). lia.
Qed.

Theorem fresh_name_total v toks m : exists c, fresh_name v toks m = Ok c.
Proof.
  unfold fresh_name.
  set (fuel := 1 + list_sum (map (fun n => String.length n * S (String.length n)) toks) + 2 * List.length m).
  destruct (fresh_from fuel v toks m 0) as [c|e] eqn:E; [exists c; reflexivity|]. exfalso.
  pose proof (fresh_from_err fuel v toks m 0 e E) as Hb.
  set (l := map (cand v) (seq 0 fuel)).
  assert (Hnd : NoDup l).
  { apply NoDup_map_inj; [|apply seq_NoDup]. intros x y _ _. apply cand_inj. }
  assert (Hin : incl l (blockers toks m)).
  { intros c Hc. apply in_map_iff in Hc. destruct Hc as [j [<- Hj]]. apply in_seq in Hj.
    apply blocked_in; [apply cand_nonempty|apply Hb; lia]. }
  pose proof (NoDup_incl_length Hnd Hin) as Hlen. unfold l in Hlen. rewrite map_length, seq_length in Hlen.
  pose proof (blockers_length toks m). unfold fuel in Hlen. lia.
Qed.

(* ---------- the renaming returns (nesting depth within the fuel) ---------- *)
Lemma mapM_total {A C} (f : A -> result C) (l : list A) :
  (forall x, In x l -> exists y, f x = Ok y) -> exists l', mapM f l = Ok l'.
Proof.
  induction l as [|a r IH]; simpl; intros H; [exists []; reflexivity|].
  destruct (H a (or_introl eq_refl)) as [y Hy]. destruct (IH (fun x Hx => H x (or_intror Hx))) as [ys Hys].
  exists (y :: ys). rewrite Hy, Hys. reflexivity.
Qed.

Lemma depth_rename : forall p m, depth_pre (rename_pre m p) = depth_pre p.
Proof.
  apply (mpre_ind' (fun p => forall m, depth_pre (rename_pre m p) = depth_pre p)
                   (fun c => forall m, depth_cond (rename_cond m c) = depth_cond c)).
  - intros op os eqs neqs IH m. rewrite rename_pre_unfold, !depth_pre_unfold. f_equal. f_equal. rewrite map_map.
    apply map_ext_in. intros c Hc. rewrite Forall_forall in IH. apply IH. exact Hc.
  - reflexivity.
  - reflexivity.
  - intros q IH m. simpl. rewrite IH. reflexivity.
  - intros v ty b IH m. simpl. rewrite IH. reflexivity.
Qed.

Lemma rename_a_returns : forall fuel,
  (forall m p, depth_pre p <= fuel -> exists p', rename_pre_a fuel m p = Ok p') /\
  (forall m c, depth_cond c <= fuel -> exists c', rename_cond_a fuel m c = Ok c').
Proof.
  induction fuel as [|fu [IHp IHc]].
  - split.
    + intros m [op os eqs neqs] H. rewrite depth_pre_unfold in H. lia.
    + intros m c H. destruct c; simpl in H; lia.
  - split.
    + intros m [op os eqs neqs] Hd. cbn [rename_pre_a]. rewrite depth_pre_unfold in Hd.
      destruct (mapM_total (rename_cond_a fu m) os) as [os' Hos].
      { intros c Hc. apply IHc. apply le_S_n in Hd. apply Nat.le_trans with (list_max (map depth_cond os)); [|exact Hd].
        apply list_max_in. apply in_map. exact Hc. }
      rewrite Hos. simpl. eexists. reflexivity.
    + intros m c Hd. destruct c as [pos p args|t|q|v ty body]; cbn [rename_cond_a].
      * eexists. reflexivity.
      * eexists. reflexivity.
      * simpl in Hd. apply le_S_n in Hd. destruct (IHp m q Hd) as [q' Hq]. rewrite Hq. simpl. eexists. reflexivity.
      * simpl in Hd. apply le_S_n in Hd. destruct (str_in v (dvalues (drop m v))).
        -- destruct (fresh_name_total v (ptok_cond (MUniv v ty body)) (drop m v)) as [c Hc]. rewrite Hc. simpl.
           destruct (IHp (drop m v) (rename_pre [(v, c)] body)) as [b' Hb']; [rewrite depth_rename; exact Hd|].
           rewrite Hb'. simpl. eexists. reflexivity.
        -- destruct (IHp (drop m v) body Hd) as [b' Hb']. rewrite Hb'. simpl. eexists. reflexivity.
Qed.

Lemma rename_condeff_a_returns fuel m ce :
  depth_pre (ce_ante ce) <= fuel -> exists ce', rename_condeff_a fuel m ce = Ok ce'.
Proof.
  intros Hd. unfold rename_condeff_a. destruct (proj1 (rename_a_returns fuel) m (ce_ante ce) Hd) as [a' Ha].
  rewrite Ha. simpl. eexists. reflexivity.
Qed.

Lemma rename_univeff_a_returns fuel m ue :
  depth_pre (ce_ante (ue_ce ue)) <= fuel -> exists ue', rename_univeff_a fuel m ue = Ok ue'.
Proof.
  intros Hd. unfold rename_univeff_a. destruct (str_in (ue_var ue) (dvalues (drop m (ue_var ue)))).
  - destruct (fresh_name_total (ue_var ue) (ue_var ue :: ue_ty ue :: ptok_condeff (ue_ce ue)) (drop m (ue_var ue))) as [c Hc].
    rewrite Hc. simpl.
    destruct (rename_condeff_a_returns fuel (drop m (ue_var ue)) (rename_condeff [(ue_var ue, c)] (ue_ce ue))) as [ce' Hce].
    { simpl. rewrite depth_rename. exact Hd. }
    rewrite Hce. simpl. eexists. reflexivity.
  - destruct (rename_condeff_a_returns fuel (drop m (ue_var ue)) (ue_ce ue) Hd) as [ce' Hce].
    rewrite Hce. simpl. eexists. reflexivity.
Qed.

Theorem change_signature_a_returns (m : renaming) (a : maction) :
  depth_action a <= alpha_fuel -> exists a', change_signature_a m a = Ok a'.
Proof.
  unfold change_signature_a, change_signature_fuel, depth_action. intros Hd.
  assert (D1 : depth_pre (ma_pre a) <= alpha_fuel) by (eapply Nat.le_trans; [apply Nat.le_max_l|exact Hd]).
  assert (D2 : list_max (map (fun ce => depth_pre (ce_ante ce)) (ma_cond a)) <= alpha_fuel).
  { eapply Nat.le_trans; [|exact Hd]. eapply Nat.le_trans; [apply Nat.le_max_l|apply Nat.le_max_r]. }
  assert (D3 : list_max (map (fun ue => depth_pre (ce_ante (ue_ce ue))) (ma_univ a)) <= alpha_fuel).
  { eapply Nat.le_trans; [|exact Hd]. eapply Nat.le_trans; [apply Nat.le_max_r|apply Nat.le_max_r]. }
  destruct (proj1 (rename_a_returns alpha_fuel) m (ma_pre a) D1) as [pre Hpre]. rewrite Hpre. simpl.
  destruct (mapM_total (rename_condeff_a alpha_fuel m) (ma_cond a)) as [cs Hcs].
  { intros ce Hce. apply rename_condeff_a_returns. eapply Nat.le_trans; [|exact D2].
    apply list_max_in. apply (in_map (fun ce => depth_pre (ce_ante ce))). exact Hce. }
  rewrite Hcs. simpl.
  destruct (mapM_total (rename_univeff_a alpha_fuel m) (ma_univ a)) as [us Hus].
  { intros ue Hue. apply rename_univeff_a_returns. eapply Nat.le_trans; [|exact D3].
    apply list_max_in. apply (in_map (fun ue => depth_pre (ce_ante (ue_ce ue)))). exact Hue. }
  rewrite Hus. simpl. eexists. reflexivity.
Qed.

(* ---------- returns, and what it returns is right ---------- *)
Theorem change_signature_a_total_correct (m : renaming) (a : maction) (A : action) :
  nodup_action a -> denote_action a = Some A -> depth_action a <= alpha_fuel ->
  (forall n, ~ In n (params A) -> rn m n = n) ->
  inj_on (rn m) (params A ++ free_action A) ->
  exists a' A', change_signature_a m a = Ok a' /\ denote_action a' = Some A' /\
    a_name A' = a_name A /\
    a_params A' = map (fun pt => (rn m (fst pt), snd pt)) (a_params A) /\
    forall eps tt objs args s, List.length args = List.length (a_params A) ->
      applicable eps tt objs A' args s = applicable eps tt objs A args s /\
      successor eps tt objs A' args s = successor eps tt objs A args s.
Proof.
  intros Hn HA Hd Hmove Hinj. destruct (change_signature_a_returns m a Hd) as [a' Ha'].
  destruct (change_signature_a_correct m a a' A Hn HA Hmove Hinj Ha') as [A' H].
  exists a', A'. split; [exact Ha'|exact H].
Qed.
