(* C19: the Metric-FF log shipped with the repository (tests/exporters_tests/output.out) is an instance of
   Spec.PlannerLogs.render_ff within the hypotheses of C19_ff.  Generated once from the file; the file itself is fed to
   the implementation on every run of the check (harness/props/c19.py, kind shipped-log). *)
From Coq Require Import List Ascii String Bool.
From Verif Require Import Base.Result Base.Str Model.PlannerLogs Spec.PlannerLogs Proofs.C19_FF.
Import ListNotations.
Open Scope string_scope.
Open Scope list_scope.

Definition shipped_log : string :=
"
ff: parsing domain file
domain 'DEPOT' defined
 ... done.
ff: parsing problem file
problem 'DEPOTPROB7512' defined
 ... done.


warning: numeric precondition. turning cost-minimizing relaxed plans OFF.

ff: search configuration is Enforced Hill-Climbing, then A*epsilon with weight 5.
Metric is ((1.00*[RF0](FUEL-COST)) - () + 0.00)
COST MINIMIZATION DONE (WITHOUT cost-minimizing relaxed plans).

Cueing down from goal distance:   18 into depth [1][2]
                                  16            [1][2]
                                  15            [1]
                                  14            [1][2][3]
                                  11            [1]
                                  10            [1]
                                   9            [1]
                                   8            [1]
                                   7            [1]
                                   6            [1]
                                   5            [1]
                                   4            [1]
                                   3            [1]
                                   2            [1]
                                   1            [1]
                                   0            

ff: found legal plan as follows
step    0: DRIVE TRUCK0 DEPOT0 DISTRIBUTOR0
        1: LIFT HOIST1 CRATE3 PALLET1 DISTRIBUTOR0
        2: LIFT HOIST0 CRATE0 PALLET0 DEPOT0
        3: LOAD HOIST0 CRATE0 TRUCK1 DEPOT0
        4: DRIVE TRUCK1 DEPOT0 DISTRIBUTOR1
        5: DRIVE TRUCK0 DISTRIBUTOR0 DISTRIBUTOR1
        6: LIFT HOIST2 CRATE2 CRATE1 DISTRIBUTOR1
        7: LOAD HOIST2 CRATE2 TRUCK1 DISTRIBUTOR1
        8: LIFT HOIST2 CRATE1 PALLET2 DISTRIBUTOR1
        9: LOAD HOIST2 CRATE1 TRUCK1 DISTRIBUTOR1
       10: DROP HOIST1 CRATE3 PALLET1 DISTRIBUTOR0
       11: UNLOAD HOIST2 CRATE0 TRUCK1 DISTRIBUTOR1
       12: DRIVE TRUCK1 DISTRIBUTOR1 DISTRIBUTOR0
       13: UNLOAD HOIST1 CRATE1 TRUCK1 DISTRIBUTOR0
       14: DRIVE TRUCK1 DISTRIBUTOR0 DEPOT0
       15: UNLOAD HOIST0 CRATE2 TRUCK1 DEPOT0
       16: DROP HOIST2 CRATE0 PALLET2 DISTRIBUTOR1
       17: DROP HOIST1 CRATE1 CRATE3 DISTRIBUTOR0
       18: DROP HOIST0 CRATE2 PALLET0 DEPOT0
plan cost: 54.000000

time spent:    0.00 seconds instantiating 666 easy, 0 hard action templates
               0.00 seconds reachability analysis, yielding 82 facts and 210 actions
               0.00 seconds creating final representation with 76 relevant facts, 5 relevant fluents
               0.00 seconds computing LNF
               0.00 seconds building connectivity graph
               0.00 seconds searching, evaluating 68 states, to a max depth of 3
               0.00 seconds total time

".

Definition shipped_header : list text := map s2t [
  "";
  "ff: parsing domain file";
  "domain 'DEPOT' defined";
  " ... done.";
  "ff: parsing problem file";
  "problem 'DEPOTPROB7512' defined";
  " ... done.";
  "";
  "";
  "warning: numeric precondition. turning cost-minimizing relaxed plans OFF.";
  "";
  "ff: search configuration is Enforced Hill-Climbing, then A*epsilon with weight 5.";
  "Metric is ((1.00*[RF0](FUEL-COST)) - () + 0.00)";
  "COST MINIMIZATION DONE (WITHOUT cost-minimizing relaxed plans).";
  "";
  "Cueing down from goal distance:   18 into depth [1][2]";
  "                                  16            [1][2]";
  "                                  15            [1]";
  "                                  14            [1][2][3]";
  "                                  11            [1]";
  "                                  10            [1]";
  "                                   9            [1]";
  "                                   8            [1]";
  "                                   7            [1]";
  "                                   6            [1]";
  "                                   5            [1]";
  "                                   4            [1]";
  "                                   3            [1]";
  "                                   2            [1]";
  "                                   1            [1]";
  "                                   0            ";
  ""].

Definition lay (st : bool) (ind num : string) : layout :=
  {| l_step := st; l_indent := s2t ind; l_num := s2t num; l_pre := []; l_post := []; l_cr := false |}.

Definition shipped_steps : list (layout * step) := [
  (lay true "    " "0", map s2t ["DRIVE"; "TRUCK0"; "DEPOT0"; "DISTRIBUTOR0"]);
  (lay false "        " "1", map s2t ["LIFT"; "HOIST1"; "CRATE3"; "PALLET1"; "DISTRIBUTOR0"]);
  (lay false "        " "2", map s2t ["LIFT"; "HOIST0"; "CRATE0"; "PALLET0"; "DEPOT0"]);
  (lay false "        " "3", map s2t ["LOAD"; "HOIST0"; "CRATE0"; "TRUCK1"; "DEPOT0"]);
  (lay false "        " "4", map s2t ["DRIVE"; "TRUCK1"; "DEPOT0"; "DISTRIBUTOR1"]);
  (lay false "        " "5", map s2t ["DRIVE"; "TRUCK0"; "DISTRIBUTOR0"; "DISTRIBUTOR1"]);
  (lay false "        " "6", map s2t ["LIFT"; "HOIST2"; "CRATE2"; "CRATE1"; "DISTRIBUTOR1"]);
  (lay false "        " "7", map s2t ["LOAD"; "HOIST2"; "CRATE2"; "TRUCK1"; "DISTRIBUTOR1"]);
  (lay false "        " "8", map s2t ["LIFT"; "HOIST2"; "CRATE1"; "PALLET2"; "DISTRIBUTOR1"]);
  (lay false "        " "9", map s2t ["LOAD"; "HOIST2"; "CRATE1"; "TRUCK1"; "DISTRIBUTOR1"]);
  (lay false "       " "10", map s2t ["DROP"; "HOIST1"; "CRATE3"; "PALLET1"; "DISTRIBUTOR0"]);
  (lay false "       " "11", map s2t ["UNLOAD"; "HOIST2"; "CRATE0"; "TRUCK1"; "DISTRIBUTOR1"]);
  (lay false "       " "12", map s2t ["DRIVE"; "TRUCK1"; "DISTRIBUTOR1"; "DISTRIBUTOR0"]);
  (lay false "       " "13", map s2t ["UNLOAD"; "HOIST1"; "CRATE1"; "TRUCK1"; "DISTRIBUTOR0"]);
  (lay false "       " "14", map s2t ["DRIVE"; "TRUCK1"; "DISTRIBUTOR0"; "DEPOT0"]);
  (lay false "       " "15", map s2t ["UNLOAD"; "HOIST0"; "CRATE2"; "TRUCK1"; "DEPOT0"]);
  (lay false "       " "16", map s2t ["DROP"; "HOIST2"; "CRATE0"; "PALLET2"; "DISTRIBUTOR1"]);
  (lay false "       " "17", map s2t ["DROP"; "HOIST1"; "CRATE1"; "CRATE3"; "DISTRIBUTOR0"]);
  (lay false "       " "18", map s2t ["DROP"; "HOIST0"; "CRATE2"; "PALLET0"; "DEPOT0"])].

Definition shipped_trailer : list text := map s2t [
  "plan cost: 54.000000";
  "";
  "time spent:    0.00 seconds instantiating 666 easy, 0 hard action templates";
  "               0.00 seconds reachability analysis, yielding 82 facts and 210 actions";
  "               0.00 seconds creating final representation with 76 relevant facts, 5 relevant fluents";
  "               0.00 seconds computing LNF";
  "               0.00 seconds building connectivity graph";
  "               0.00 seconds searching, evaluating 68 states, to a max depth of 3";
  "               0.00 seconds total time";
  ""].

Example shipped_is_rendering :
  s2t shipped_log = render_ff shipped_header false shipped_steps shipped_trailer [].
Proof. vm_compute. reflexivity. Qed.

(* boolean deciders for the hypotheses *)
Definition nonnil {A} (l : list A) : bool := match l with [] => false | _ => true end.
Definition word_ok_b (w : text) : bool := nonnil w && forallb name_char w.
Definition step_ok_b (s : step) : bool := nonnil s && forallb word_ok_b s.
Definition layout_ok_b (l : layout) : bool :=
  forallb is_blank (l_indent l) && nonnil (l_num l) && forallb is_digit (l_num l) &&
  forallb is_blank (l_pre l) && forallb is_blank (l_post l).

Lemma nonnil_ne {A} (l : list A) : nonnil l = true -> l <> [].
Proof. destruct l; [discriminate|]. intros _ H. discriminate. Qed.

Lemma forallb_Forall {A} (p : A -> bool) l : forallb p l = true -> Forall (fun x => p x = true) l.
Proof. intros H. apply Forall_forall. intros x Hx. rewrite forallb_forall in H. apply H, Hx. Qed.

Lemma word_ok_b_ok w : word_ok_b w = true -> word_ok w.
Proof.
  unfold word_ok_b. intros H. apply andb_true_iff in H. destruct H as [H1 H2].
  split; [apply nonnil_ne, H1 | apply forallb_Forall, H2].
Qed.

Lemma step_ok_b_ok s : step_ok_b s = true -> step_ok s.
Proof.
  unfold step_ok_b. intros H. apply andb_true_iff in H. destruct H as [H1 H2].
  split; [apply nonnil_ne, H1|]. apply forallb_Forall in H2.
  eapply Forall_impl; [|exact H2]. exact word_ok_b_ok.
Qed.

Lemma layout_ok_b_ok l : layout_ok_b l = true -> layout_ok l.
Proof.
  unfold layout_ok_b, layout_ok, blanks. intros H. rewrite !andb_true_iff in H.
  destruct H as ((((H1 & H2) & H3) & H4) & H5).
  repeat split; try (apply forallb_Forall; assumption). apply nonnil_ne, H2.
Qed.

Lemma steps_ok_b_ok steps :
  forallb (fun ls => layout_ok_b (fst ls) && step_ok_b (snd ls)) steps = true -> steps_ok steps.
Proof.
  intros H. apply forallb_Forall in H. unfold steps_ok. eapply Forall_impl; [|exact H].
  intros ls Hls. apply andb_true_iff in Hls. destruct Hls as [Ha Hb].
  split; [apply layout_ok_b_ok, Ha | apply step_ok_b_ok, Hb].
Qed.

Example shipped_in_grammar :
  Forall log_line shipped_header /\ steps_ok shipped_steps /\ Forall log_line shipped_trailer.
Proof.
  split; [apply log_lines_b; vm_compute; reflexivity|].
  split; [apply steps_ok_b_ok; vm_compute; reflexivity|].
  apply log_lines_b; vm_compute; reflexivity.
Qed.

(* hence, by C19_ff (not by evaluation), the 19 steps of the shipped log are what the parser returns *)
Theorem C19_shipped_log_lemma :
  get_solving_status (s2t shipped_log) = (StOk, map expected_action (map snd shipped_steps)) /\
  List.length shipped_steps = 19.
Proof.
  split; [|reflexivity]. rewrite shipped_is_rendering.
  destruct shipped_in_grammar as (Hh & Hs & Ht).
  apply (C19_ff_lemma shipped_header false shipped_steps shipped_trailer [] Hh Hs Ht). constructor.
Qed.
