(* C12, several effect GROUPS of one action (the unconditional group, every `when` whose antecedent holds, every
   instance of a forall-when): Operator.apply visits them one after the other, each group evaluated on the PREVIOUS
   state and stored into the state being built.  With pairwise distinct targets over all the groups the result is the
   property's successor valuation of the concatenation, whatever the grouping. *)
From Coq Require Import ZArith List Bool String Ascii Lia Permutation PrimFloat FloatOps.
From Verif Require Import Base.Result Base.Str Base.Sexp Base.Float Model.NumExpr Spec.Arith
  Proofs.C12_Eval Proofs.C12_Cmp Proofs.C12_Multi.
Import ListNotations.
Open Scope string_scope.
Open Scope list_scope.

(* Operator.apply, numeric part: new_state = previous_state.copy(); for every group that fires: group.apply(new_state,
   previous_state) *)
Definition apply_groups (cfg : ncfg) (prev : fluents) (groups : list (list neff)) (cur : fluents) : result fluents :=
  foldM (fun c g => apply_effects cfg prev c (map neff_tree g)) groups cur.

Lemma NoDup_app_parts {A} (a b : list A) :
  NoDup (a ++ b) -> NoDup a /\ NoDup b /\ forall x, In x a -> ~ In x b.
Proof.
  induction a as [|x r IH]; cbn [app]; intros H.
  - split; [constructor|]. split; [exact H | intros x []].
  - apply NoDup_cons_iff in H as [Hx Hr]. destruct (IH Hr) as (Ha & Hb & Hd). split; [|split].
    + constructor; [intros Hin; apply Hx; apply in_or_app; left; exact Hin | exact Ha].
    + exact Hb.
    + intros y [<-|Hy]; [intros Hin; apply Hx; apply in_or_app; right; exact Hin | exact (Hd y Hy)].
Qed.

Lemma find_eff_app k a b :
  find_eff k (a ++ b) = match find_eff k a with Some e => Some e | None => find_eff k b end.
Proof.
  induction a as [|e r IH]; cbn [app find_eff]; [reflexivity|].
  destruct (String.eqb k (neff_key e)); [reflexivity | exact IH].
Qed.

Lemma apply_groups_general cfg st groups : forall cur,
  NoDup (map neff_key (List.concat groups)) -> rhs_defined st (List.concat groups) ->
  exists st', apply_groups cfg st groups cur = Ok st' /\
              forall k, val_of st' k = match find_eff k (List.concat groups) with
                                       | Some e => match neff_value st e with Ok v => v | Err _ => 0%float end
                                       | None => val_of cur k
                                       end.
Proof.
  induction groups as [|g gs IH]; intros cur Hnd Hd.
  - exists cur. split; [reflexivity | intros k; reflexivity].
  - cbn [List.concat] in Hnd, Hd. rewrite map_app in Hnd.
    destruct (NoDup_app_parts _ _ Hnd) as (Hg & Hgs & Hdisj).
    assert (Hdg : rhs_defined st g) by (intros e He; apply Hd; apply in_or_app; left; exact He).
    assert (Hdgs : rhs_defined st (List.concat gs)) by (intros e He; apply Hd; apply in_or_app; right; exact He).
    destruct (C12_assign_simultaneous_lemma cfg st cur g Hg Hdg) as (c1 & H1 & V1).
    destruct (IH c1 Hgs Hdgs) as (st' & H2 & V2).
    exists st'. split.
    + unfold apply_groups. cbn [foldM]. rewrite H1. cbn [bind]. exact H2.
    + intros k. rewrite V2. cbn [List.concat]. rewrite find_eff_app.
      destruct (find_eff k g) as [e|] eqn:Fg.
      * destruct (find_eff k (List.concat gs)) as [e'|] eqn:Fr.
        -- exfalso. destruct (find_eff_in _ _ _ Fg) as [Hi Hk]. destruct (find_eff_in _ _ _ Fr) as [Hi' Hk'].
           apply (Hdisj k).
           ++ rewrite <- Hk. apply in_map. exact Hi.
           ++ rewrite <- Hk'. apply in_map. exact Hi'.
        -- rewrite V1, Fg. reflexivity.
      * destruct (find_eff k (List.concat gs)); [reflexivity|]. rewrite V1, Fg. reflexivity.
Qed.

(* as Operator.apply does it (the state being built starts as a copy of the previous one): the successor valuation is
   the property's, over all the effects that fire, whatever their grouping *)
Theorem C12_assign_groups_lemma cfg st groups :
  NoDup (map neff_key (List.concat groups)) -> rhs_defined st (List.concat groups) ->
  exists st', apply_groups cfg st groups st = Ok st' /\ forall k, val_of st' k = spec_after st (List.concat groups) k.
Proof. intros Hnd Hd. exact (apply_groups_general cfg st groups st Hnd Hd). Qed.

(* the unconditional group (increase (x) (y)) and a `when` group (increase (y) (x)): x = 11, y = 11 from 1, 10 *)
Example groups_example :
  apply_groups (cfg_fixed 0%float 4) st_1_10 [firstn 1 cross; skipn 1 cross] st_1_10
    = Ok [("(x )", 11%float); ("(y )", 11%float)]
  /\ NoDup (map neff_key (List.concat [firstn 1 cross; skipn 1 cross])) /\ rhs_defined st_1_10 (List.concat [firstn 1 cross; skipn 1 cross]).
Proof.
  split; [reflexivity|]. split.
  - cbn. constructor; [intros [H|[]]; discriminate | constructor; [intros [] | constructor]].
  - intros e [<-|[<-|[]]]; eexists; reflexivity.
Qed.
