(* C05: the theorems of the property, the refutations of its full statement on the current code (D19d, D07) and on
   the pinned configuration (D19a, D19b, D19c), and witnesses that every hypothesis is satisfiable. *)
From Coq Require Import List Ascii String Bool Arith Lia PrimFloat Btauto.
From Verif Require Import Base.Result Base.Str Base.Sexp Base.PyDict Base.Float
  Model.Tokenizer Model.Types Model.Domain Model.NumExpr Model.Problem Model.ProblemObs
  Spec.Pddl Spec.Grammar Spec.Problem
  Proofs.C05_Lemmas Proofs.C05_Objects Proofs.C05_Items Proofs.C05_Goal Proofs.C05_Parse Proofs.C05_Faithful
  Proofs.C05_Repeats Proofs.C05_Examples.
Import ListNotations.
Open Scope string_scope.
Open Scope list_scope.

Lemma forallb_ext' {A} (f g : A -> bool) l : (forall x, f x = g x) -> forallb f l = forallb g l.
Proof. intros H. induction l as [|x xs IH]; simpl; [reflexivity|]. rewrite H, IH. reflexivity. Qed.

Lemma forallb4 {A} (p q r s : A -> bool) l :
  (forall x, p x && q x = r x && s x) -> forallb p l && forallb q l = forallb r l && forallb s l.
Proof.
  intros H. induction l as [|a l IH]; simpl; [reflexivity|]. specialize (H a).
  destruct (p a), (q a), (r a), (s a); simpl in *; try discriminate;
    destruct (forallb p l), (forallb q l), (forallb r l), (forallb s l); simpl in *; congruence.
Qed.

Section WfRelation.
  Variable num : string -> option float.
  Variable dom : mdomain.
  Local Notation v := (vocab_of dom).

  (* the part of the spec's check of a numeric goal that the code does not perform (finding D19d):
     the arguments of its fluents are declared objects / constants of conforming types *)
  Fixpoint nexp_args_ok (objs : list (string * string)) (n : nexp) : bool :=
    match n with
    | Pddl.NNum _ => true
    | Pddl.NFl f args =>
        match lookup f (v_funcs v) with
        | Some params => if Nat.eqb (List.length args) (List.length params) then args_ok v objs args params else true
        | None => true
        end
    | Pddl.NBin _ a b => nexp_args_ok objs a && nexp_args_ok objs b
    end.

  Definition goal_args_ok (sp : sproblem) : bool :=
    forallb (fun g : cmpop * nexp * nexp => match g with (_, l, r) =>
               nexp_args_ok (sp_objects sp) l && nexp_args_ok (sp_objects sp) r end) (sp_goal_num sp).

  (* no fluent of a numeric goal has a repeated argument (legal PDDL that the code refuses: finding D07) *)
  Definition goal_norepeat (sp : sproblem) : bool :=
    forallb (fun g : cmpop * nexp * nexp => match g with (_, l, r) => nexp_nodup l && nexp_nodup r end) (sp_goal_num sp).

  Lemma nexp_ok_split objs n : nexp_ok v objs n = shape_ok (d_funcs dom) n && nexp_args_ok objs n.
  Proof.
    unfold shape_ok. induction n as [x|f args|o a IHa b IHb]; simpl; [reflexivity| |].
    - unfold atom_ok. simpl. unfold signature, pydict, name in *.
      match goal with |- context [@lookup ?V f ?d] => destruct (@lookup V f d) as [params|] end; [|reflexivity].
      destruct (Nat.eqb (List.length args) (List.length params)) eqn:E; simpl; [reflexivity|].
      destruct (args_ok v objs args params) eqn:Ea; [|reflexivity].
      apply args_ok_length in Ea. apply Nat.eqb_neq in E. contradiction.
    - rewrite IHa, IHb. btauto.
  Qed.

  Lemma type_declared_known t : type_declared v t = type_known (d_types dom) t.
  Proof. unfold type_declared, type_known, dmem. simpl. rewrite dget_lookup. reflexivity. Qed.

  (* the spec's well-formedness + the restriction the code adds = what the code checks + the part it omits *)
  Theorem wf_split sp : wf_sproblem num v sp && goal_norepeat sp = wf_code num dom sp && goal_args_ok sp.
  Proof.
    unfold wf_sproblem, wf_code, goal_args_ok, goal_norepeat, types_ok. simpl.
    assert (Ht : forallb (fun o : name * name => type_declared v (snd o)) (sp_objects sp)
                 = forallb (fun o : string * string => type_known (d_types dom) (snd o)) (sp_objects sp)).
    { apply forallb_ext'. intros o. apply type_declared_known. }
    rewrite Ht.
    assert (Hg : forallb (fun g : cmpop * nexp * nexp => let (y, r) := g in let (_, l) := y in
                             nexp_ok v (sp_objects sp) l && nexp_ok v (sp_objects sp) r) (sp_goal_num sp)
                 && forallb (fun g : cmpop * nexp * nexp => let (y, r) := g in let (_, l) := y in
                               nexp_nodup l && nexp_nodup r) (sp_goal_num sp)
                 = forallb (fun g : cmpop * nexp * nexp => let (y, r) := g in let (_, l) := y in
                              code_ok (d_funcs dom) l && code_ok (d_funcs dom) r) (sp_goal_num sp)
                   && forallb (fun g : cmpop * nexp * nexp => let (y, r) := g in let (_, l) := y in
                                 nexp_args_ok (sp_objects sp) l && nexp_args_ok (sp_objects sp) r) (sp_goal_num sp)).
    { apply forallb4. intros [[c l] r]. rewrite !nexp_ok_split. unfold code_ok. btauto. }
    unfold fluent_ok.
    match goal with |- (?x && ?a) && ?b = (?y && ?c) && ?d =>
      transitivity (x && (a && b)); [symmetry; apply andb_assoc|]; rewrite Hg; apply andb_assoc end.
  Qed.
End WfRelation.

(* ---------------------------------------------------------------------------------------------------------- *)
Section Theorems.
  Variable num : string -> option float.
  Variable dom : mdomain.
  Hypothesis Hdom : dom_ok dom.
  Hypothesis Hnum : num_ok num.
  Local Notation v := (vocab_of dom).

  Definition accepted (e : sexp) : Prop := exists pb, parse_problem cfg_fixed num dom e = Ok pb.

  (* exact characterisation of the model: accepted iff the checks the code performs pass *)
  Lemma accepted_iff_code e sp : read_problem num e = Some sp -> (accepted e <-> wf_code num dom sp = true).
  Proof.
    intros Hr. pose proof (parse_problem_spec num dom Hdom Hnum e sp Hr) as H. unfold accepted.
    destruct (wf_code num dom sp); simpl in H.
    - split; [reflexivity | intros _; eexists; exact H].
    - destruct H as [k H]. split; [intros [pb Hpb]; rewrite H in Hpb; discriminate | discriminate].
  Qed.

  (* a well-formed problem is accepted, repeated arguments in numeric goals apart (D07) ... *)
  Lemma C05_accepts_lemma e sp :
    read_problem num e = Some sp -> goal_norepeat sp = true -> wf_sproblem num v sp = true -> accepted e.
  Proof.
    intros Hr Hn Hwf. apply (accepted_iff_code e sp Hr).
    pose proof (wf_split num dom sp) as H. rewrite Hwf, Hn in H. simpl in H. symmetry in H.
    apply andb_true_iff in H. tauto.
  Qed.

  (* ... and, the arguments of numeric-goal fluents apart (D19d), nothing else is *)
  Lemma C05_iff_partial_lemma e sp :
    read_problem num e = Some sp -> goal_args_ok dom sp = true -> goal_norepeat sp = true ->
    (accepted e <-> wf_sproblem num v sp = true).
  Proof.
    intros Hr Hg Hn. pose proof (wf_split num dom sp) as H. rewrite Hg, Hn, !andb_true_r in H. rewrite H.
    apply accepted_iff_code. exact Hr.
  Qed.

  Lemma C05_rejects_lemma e sp :
    read_problem num e = Some sp -> goal_args_ok dom sp = true -> wf_sproblem num v sp = false ->
    exists k, parse_problem cfg_fixed num dom e = Err k.
  Proof.
    intros Hr Hg Hwf. pose proof (wf_split num dom sp) as Hs. rewrite Hg, Hwf, andb_true_r in Hs. simpl in Hs.
    pose proof (parse_problem_spec num dom Hdom Hnum e sp Hr) as H. rewrite <- Hs in H. exact H.
  Qed.

  (* what is accepted is parsed faithfully, repeated arguments of initial fluents apart (D07) *)
  Lemma C05_faithful_partial_lemma e sp pb :
    read_problem num e = Some sp -> no_repeats sp = true ->
    parse_problem cfg_fixed num dom e = Ok pb ->
    pdump_equiv (dump_problem pb) (spec_dump num sp) = true.
  Proof.
    intros Hr Hnr Hp. pose proof (parse_problem_spec num dom Hdom Hnum e sp Hr) as H.
    destruct (wf_code num dom sp) eqn:Ew; simpl in H.
    - rewrite H in Hp. injection Hp as <-. apply built_faithful; assumption.
    - destruct H as [k H]. rewrite H in Hp. discriminate.
  Qed.

  (* ... also with repeated arguments, when every fluent is written the way the library prints it (repeated names
     first) and assignments of one function with the same distinct arguments are the same fluent *)
  Lemma C05_faithful_safe_lemma e sp pb :
    read_problem num e = Some sp -> safe_repeats sp = true ->
    parse_problem cfg_fixed num dom e = Ok pb ->
    pdump_equiv (dump_problem pb) (spec_dump num sp) = true.
  Proof.
    intros Hr Hs Hp. pose proof (parse_problem_spec num dom Hdom Hnum e sp Hr) as H.
    destruct (wf_code num dom sp) eqn:Ew; simpl in H.
    - rewrite H in Hp. injection Hp as <-. apply built_faithful_safe; assumption.
    - destruct H as [k H]. rewrite H in Hp. discriminate.
  Qed.
End Theorems.

(* ---------------------------------------------------------------------------------------------------------- *)
(* The tree WITH the repair proposed for D19d (proposed_fixes/D19d.diff; [cfg_gt true]): in a numeric goal, an argument
   that is a declared object / constant must conform to the parameter's type.  What the code still omits is only
   that the arguments ARE declared ([goal_args_declared]); [cfg_gt false] is [cfg_fixed], the theorems above. *)
Section Typed.
  Variable num : string -> option float.
  Variable dom : mdomain.
  Hypothesis Hdom : dom_ok dom.
  Hypothesis Hnum : num_ok num.
  Local Notation v := (vocab_of dom).

  Definition declared_name (objs : list (string * string)) (a : string) : bool :=
    match type_of v objs a with Some _ => true | None => false end.

  (* every argument of every fluent (declared function, right number of arguments) names an object or a constant *)
  Fixpoint nexp_args_declared (objs : list (string * string)) (n : nexp) : bool :=
    match n with
    | Pddl.NNum _ => true
    | Pddl.NFl f args =>
        match lookup f (v_funcs v) with
        | Some params => if Nat.eqb (List.length args) (List.length params) then forallb (declared_name objs) args else true
        | None => true
        end
    | Pddl.NBin _ a b => nexp_args_declared objs a && nexp_args_declared objs b
    end.

  Definition goal_args_declared (sp : sproblem) : bool :=
    forallb (fun g : cmpop * nexp * nexp => match g with (_, l, r) =>
               nexp_args_declared (sp_objects sp) l && nexp_args_declared (sp_objects sp) r end) (sp_goal_num sp).

  Lemma dmem_possible_declared objs a : dmem (possible dom objs) a = declared_name objs a.
  Proof. unfold dmem, declared_name. rewrite (dget_possible dom Hdom). reflexivity. Qed.

  Lemma typed_if_declared objs : forall args tys,
    forallb (dmem (possible dom objs)) args = true ->
    forall2b (fun a lt => is_sub_type (ptt dom) (ty_of dom objs a) lt) args tys = goal_types_ok dom objs args tys.
  Proof.
    unfold goal_types_ok. induction args as [|a ar IH]; intros [|t tr] H; cbn [forall2b]; try reflexivity.
    cbn [forallb] in H. apply andb_true_iff in H. destruct H as [Ha Har]. rewrite (IH tr Har). f_equal.
    unfold ty_of. unfold dmem in Ha. destruct (dget (possible dom objs) a); [reflexivity | discriminate].
  Qed.

  (* the spec's argument check = declared, and typed where declared *)
  Lemma nexp_args_ok_split objs n :
    nexp_args_ok dom objs n = nexp_args_declared objs n && tyd dom objs n.
  Proof.
    induction n as [x|f args|o a IHa b IHb]; cbn [nexp_args_ok nexp_args_declared tyd]; [reflexivity| |].
    - simpl v_funcs. unfold signature, pydict, name in *.
      match goal with |- context [@lookup ?V f ?d] => destruct (@lookup V f d) as [params|] end; [|reflexivity].
      destruct (Nat.eqb (List.length args) (List.length params)) eqn:E; [|reflexivity].
      apply Nat.eqb_eq in E. rewrite (args_ok_model dom Hdom objs args params E).
      assert (Hd : forallb (dmem (possible dom objs)) args = forallb (declared_name objs) args).
      { apply forallb_ext'. intros a. apply dmem_possible_declared. }
      rewrite <- Hd. destruct (forallb (dmem (possible dom objs)) args) eqn:Ed; [|reflexivity].
      rewrite (typed_if_declared objs args (dvalues params) Ed). reflexivity.
    - rewrite IHa, IHb. btauto.
  Qed.

  Lemma goal_args_ok_split sp : goal_args_ok dom sp = goal_args_declared sp && goal_typed true dom sp.
  Proof.
    unfold goal_args_ok, goal_args_declared, goal_typed. cbn [negb orb].
    induction (sp_goal_num sp) as [|[[c l] r] gs IH]; cbn [forallb]; [reflexivity|].
    rewrite IH, !nexp_args_ok_split. btauto.
  Qed.

  (* the spec's well-formedness + no repeated argument in a numeric goal
     = what the repaired code checks + the one thing it still omits *)
  Theorem wf_split_typed sp :
    wf_sproblem num v sp && goal_norepeat sp = wf_code_t true num dom sp && goal_args_declared sp.
  Proof.
    rewrite (wf_split num dom sp). unfold wf_code_t. rewrite goal_args_ok_split. btauto.
  Qed.

  Definition accepted_t (e : sexp) : Prop := exists pb, parse_problem (cfg_gt true) num dom e = Ok pb.

  Lemma accepted_iff_code_typed e sp : read_problem num e = Some sp -> (accepted_t e <-> wf_code_t true num dom sp = true).
  Proof.
    intros Hr. pose proof (parse_problem_spec_t true num dom Hdom Hnum e sp Hr) as H. unfold accepted_t.
    destruct (wf_code_t true num dom sp); simpl in H.
    - split; [reflexivity | intros _; eexists; exact H].
    - destruct H as [k H]. split; [intros [pb Hpb]; rewrite H in Hpb; discriminate | discriminate].
  Qed.

  Lemma C05_accepts_typed_lemma e sp :
    read_problem num e = Some sp -> goal_norepeat sp = true -> wf_sproblem num v sp = true -> accepted_t e.
  Proof.
    intros Hr Hn Hwf. apply (accepted_iff_code_typed e sp Hr).
    pose proof (wf_split_typed sp) as H. rewrite Hwf, Hn in H. simpl in H. symmetry in H.
    apply andb_true_iff in H. tauto.
  Qed.

  Lemma C05_iff_typed_lemma e sp :
    read_problem num e = Some sp -> goal_args_declared sp = true -> goal_norepeat sp = true ->
    (accepted_t e <-> wf_sproblem num v sp = true).
  Proof.
    intros Hr Hg Hn. pose proof (wf_split_typed sp) as H. rewrite Hg, Hn, !andb_true_r in H. rewrite H.
    apply accepted_iff_code_typed. exact Hr.
  Qed.

  (* every ill-formed text whose numeric-goal arguments are all declared names is rejected: in particular every
     ill-TYPED argument of a numeric goal (the half of D19d that the repair closes) *)
  Lemma C05_rejects_typed_lemma e sp :
    read_problem num e = Some sp -> goal_args_declared sp = true -> wf_sproblem num v sp = false ->
    exists k, parse_problem (cfg_gt true) num dom e = Err k.
  Proof.
    intros Hr Hg Hwf. pose proof (wf_split_typed sp) as Hs. rewrite Hg, Hwf, andb_true_r in Hs. simpl in Hs.
    pose proof (parse_problem_spec_t true num dom Hdom Hnum e sp Hr) as H. rewrite <- Hs in H. exact H.
  Qed.

  Lemma C05_faithful_typed_lemma e sp pb :
    read_problem num e = Some sp -> safe_repeats sp = true ->
    parse_problem (cfg_gt true) num dom e = Ok pb ->
    pdump_equiv (dump_problem pb) (spec_dump num sp) = true.
  Proof.
    intros Hr Hs Hp. pose proof (parse_problem_spec_t true num dom Hdom Hnum e sp Hr) as H.
    unfold wf_code_t in H. destruct (wf_code num dom sp) eqn:Ew; cbn [andb] in H.
    - destruct (goal_typed true dom sp); simpl in H.
      + rewrite H in Hp. injection Hp as <-. apply built_faithful_safe; assumption.
      + destruct H as [k H]. rewrite H in Hp. discriminate.
    - destruct H as [k H]. rewrite H in Hp. discriminate.
  Qed.
End Typed.

(* ---------------------------------------------------------------------------------------------------------- *)
(* The full statements *)
Definition C05_iff_statement (cfg : pcfg) : Prop :=
  forall num dom e sp, dom_ok dom -> num_ok num -> read_problem num e = Some sp ->
    ((exists pb, parse_problem cfg num dom e = Ok pb) <-> wf_sproblem num (vocab_of dom) sp = true).

Definition C05_faithful_statement (cfg : pcfg) : Prop :=
  forall num dom e sp pb, dom_ok dom -> num_ok num -> read_problem num e = Some sp ->
    parse_problem cfg num dom e = Ok pb -> pdump_equiv (dump_problem pb) (spec_dump num sp) = true.

(* ---------- witnesses ---------- *)
Lemma ex_dom_ok : dom_ok ex_dom.
Proof.
  split.
  - simpl. constructor; [intros []|constructor].
  - intros f Hin. simpl in Hin. repeat (destruct Hin as [<-|Hin]; [reflexivity|]). destruct Hin.
Qed.

Lemma ex_num_ok : num_ok ex_num.
Proof.
  intros s Hs. apply str_in_In in Hs. simpl in Hs.
  repeat (destruct Hs as [<-|Hs]; [reflexivity|]). destruct Hs.
Qed.

(* the hypotheses of the theorems hold for a non-trivial problem (typed, grouped and untyped objects, subtypes,
   a constant, a repeated argument of a predicate, a zero-arity atom, decimal / negative exponent numerals, two
   numeric goals) *)
Example C05_nonvacuous :
  exists sp, read_problem ex_num ex_problem = Some sp /\ wf_sproblem ex_num (vocab_of ex_dom) sp = true /\
             goal_args_ok ex_dom sp = true /\ goal_norepeat sp = true /\ no_repeats sp = true /\
             List.length (sp_objects sp) = 4 /\ List.length (sp_facts sp) = 4 /\ List.length (sp_fluents sp) = 3 /\
             List.length (sp_goal sp) = 1 /\ List.length (sp_goal_num sp) = 2.
Proof. eexists. split; [vm_compute; reflexivity|]. vm_compute. repeat split; reflexivity. Qed.

(* repeated fluent arguments in the form the library can represent: safe, and parsed faithfully *)
Definition repeats_problem : sexp := tok
  "(define (problem pr) (:domain dom) (:objects o0 o1 - t1 o2 - t2) (:init (= (f2 o0 o0) 2) (= (f2 o0 o1) 1)
     (= (k3 o1 o1 o2) 1) (= (f2 o1 o1) 3.5) (= (f2 o0 o0) 1)) (:goal (and)))".
Example C05_safe_repeats_example :
  exists sp pb, read_problem ex_num repeats_problem = Some sp /\ safe_repeats sp = true /\ no_repeats sp = false /\
    parse_problem cfg_fixed ex_num ex_dom repeats_problem = Ok pb /\
    pd_fluents (dump_problem pb) =
      [(("f2", ["o0"; "o0"]), 1%float); (("f2", ["o0"; "o1"]), 1%float); (("k3", ["o1"; "o1"; "o2"]), 1%float);
       (("f2", ["o1"; "o1"]), 3.5%float)].
Proof.
  eexists. eexists. split; [vm_compute; reflexivity|]. split; [vm_compute; reflexivity|]. split; [vm_compute; reflexivity|].
  split; vm_compute; reflexivity.
Qed.

(* single-point corruptions of it are ill-formed, hence rejected by C05_rejects *)
Definition corrupt (old new : string) : sexp := sexp_map (fun s => if String.eqb s old then new else s) ex_problem.
Example C05_corruptions_illformed :
  forallb (fun e => match read_problem ex_num e with
                    | Some sp => negb (wf_sproblem ex_num (vocab_of ex_dom) sp) && goal_args_ok ex_dom sp
                    | None => false end)
          [corrupt "dom" "dom2"; corrupt "t2" "t9"; corrupt "z" "zz"; corrupt "f2" "f0";
           corrupt "3.5" "abc"; corrupt "h" "hh"; corrupt "p1" "p0";
           tok "(define (problem pr) (:domain dom) (:objects o0 - t1 o2 - t2) (:init (p0 o9)) (:goal (and)))";
           tok "(define (problem pr) (:domain dom) (:objects o0 - t1 o2 - t2) (:init (p0 o0)) (:goal (and (p1 o0 o2))))";
           tok "(define (problem pr) (:domain dom) (:objects o0 - t1 o2 - t2) (:init (= (f0 o2) 1)) (:goal (and)))"] = true.
Proof. vm_compute. reflexivity. Qed.

(* D19d: the current code accepts a numeric goal over an undeclared object *)
Definition d19d_problem : sexp := tok
  "(define (problem pr) (:domain dom) (:objects o0 - t1) (:init) (:goal (and (< (f0 zz) (h)))))".

Lemma C05_iff_refuted_lemma : ~ C05_iff_statement cfg_fixed.
Proof.
  intros H.
  destruct (read_problem ex_num d19d_problem) as [sp|] eqn:Er; [|vm_compute in Er; discriminate].
  specialize (H ex_num ex_dom d19d_problem sp ex_dom_ok ex_num_ok Er).
  assert (Hacc : exists pb, parse_problem cfg_fixed ex_num ex_dom d19d_problem = Ok pb) by (eexists; vm_compute; reflexivity).
  apply H in Hacc. vm_compute in Er. injection Er as <-. vm_compute in Hacc. discriminate.
Qed.

(* ... and still does with the repair proposed for D19d, which closes the ill-TYPED half only *)
Lemma C05_iff_typed_refuted_lemma : ~ C05_iff_statement (cfg_gt true).
Proof.
  intros H.
  destruct (read_problem ex_num d19d_problem) as [sp|] eqn:Er; [|vm_compute in Er; discriminate].
  specialize (H ex_num ex_dom d19d_problem sp ex_dom_ok ex_num_ok Er).
  assert (Hacc : exists pb, parse_problem (cfg_gt true) ex_num ex_dom d19d_problem = Ok pb) by (eexists; vm_compute; reflexivity).
  apply H in Hacc. vm_compute in Er. injection Er as <-. vm_compute in Hacc. discriminate.
Qed.

(* a numeric goal over a DECLARED object of a foreign type (o2 : t2, f0 takes a t0): accepted by the current tree,
   rejected with the repair; the hypotheses of C05_rejects_typed hold for it *)
Definition d19d_typed_problem : sexp := tok
  "(define (problem pr) (:domain dom) (:objects o0 - t1 o2 - t2) (:init) (:goal (and (= (f0 o2) 1) (>= (f0 o0) 2))))".

Example C05_d19d_typed_example :
  is_ok (parse_problem cfg_fixed ex_num ex_dom d19d_typed_problem) = true /\
  is_ok (parse_problem (cfg_gt true) ex_num ex_dom d19d_typed_problem) = false /\
  is_ok (parse_problem (cfg_gt true) ex_num ex_dom d19d_problem) = true /\
  is_ok (parse_problem (cfg_gt true) ex_num ex_dom ex_problem) = true /\
  exists sp, read_problem ex_num d19d_typed_problem = Some sp /\ goal_args_declared ex_dom sp = true /\
             goal_args_ok ex_dom sp = false /\ wf_sproblem ex_num (vocab_of ex_dom) sp = false.
Proof.
  split; [vm_compute; reflexivity|]. split; [vm_compute; reflexivity|]. split; [vm_compute; reflexivity|].
  split; [vm_compute; reflexivity|]. eexists. split; [vm_compute; reflexivity|]. vm_compute. repeat split; reflexivity.
Qed.

(* D07: a fluent with a partially repeated argument list is stored with its arguments reordered *)
Definition d07_problem : sexp := tok
  "(define (problem pr) (:domain dom) (:objects o0 o1 - t1 o2 - t2) (:init (= (k3 o0 o1 o2) 1) (= (f2 o0 o0) 2)
     (= (g3 o1 o0 o1) 1)) (:goal (and)))".
Definition ex_dom7 : mdomain :=
  {| d_name := "dom"; d_reqs := []; d_types := d_types ex_dom; d_consts := d_consts ex_dom; d_preds := d_preds ex_dom;
     d_funcs := d_funcs ex_dom ++ [("g3", [("?a", "object"); ("?b", "object"); ("?c", "object")])]; d_actions := [] |}.

Lemma ex_dom7_ok : dom_ok ex_dom7.
Proof.
  split.
  - simpl. constructor; [intros []|constructor].
  - intros f Hin. simpl in Hin. repeat (destruct Hin as [<-|Hin]; [reflexivity|]). destruct Hin.
Qed.

Lemma C05_faithful_refuted_lemma : ~ C05_faithful_statement cfg_fixed.
Proof.
  intros H.
  destruct (read_problem ex_num d07_problem) as [sp|] eqn:Er; [|vm_compute in Er; discriminate].
  destruct (parse_problem cfg_fixed ex_num ex_dom7 d07_problem) as [pb|] eqn:Ep; [|vm_compute in Ep; discriminate].
  specialize (H ex_num ex_dom7 d07_problem sp pb ex_dom7_ok ex_num_ok Er Ep).
  vm_compute in Er. injection Er as <-. vm_compute in Ep. injection Ep as <-. vm_compute in H. discriminate.
Qed.

(* D07, second face: a well-formed numeric goal over a fluent with a repeated argument is refused *)
Definition d07_goal_problem : sexp := tok
  "(define (problem pr) (:domain dom) (:objects o0 - t1) (:init) (:goal (and (= (f2 o0 o0) 1))))".

Lemma C05_accepts_refuted_lemma :
  exists sp k, read_problem ex_num d07_goal_problem = Some sp /\ wf_sproblem ex_num (vocab_of ex_dom) sp = true /\
               goal_args_ok ex_dom sp = true /\ parse_problem cfg_fixed ex_num ex_dom d07_goal_problem = Err k.
Proof. eexists. eexists. split; [vm_compute; reflexivity|]. split; [vm_compute; reflexivity|]. split; vm_compute; reflexivity. Qed.

(* the pinned configuration (before the fixes D19a, D19b, D19c and the application check c7c8534) *)
Definition d19a_problem : sexp := tok
  "(define (problem pr) (:domain dom) (:objects o0 - t1 o3) (:init (p0 o0)) (:goal (and)))".
Definition d19b_problem : sexp := tok
  "(define (problem pr) (:domain dom) (:objects o0 o1 - t1) (:init) (:goal (and (>= (f0 o0 o1) 1))))".
Definition d19c_problem : sexp := tok
  "(define (problem pr) (:domain dom) (:objects o0 - t1 o2 - t2) (:init (= (k3 o0 o0 o0) 1)) (:goal (and)))".

(* D19a: an object is lost; D19b, D19c: an ill-formed problem is accepted *)
Lemma C05_pinned_refuted_lemma :
  ~ C05_faithful_statement cfg_pinned /\ ~ C05_iff_statement cfg_pinned /\
  (exists sp pb, read_problem ex_num d19c_problem = Some sp /\ wf_sproblem ex_num (vocab_of ex_dom) sp = false /\
                 goal_args_ok ex_dom sp = true /\ parse_problem cfg_pinned ex_num ex_dom d19c_problem = Ok pb).
Proof.
  split; [|split].
  - intros H.
    destruct (read_problem ex_num d19a_problem) as [sp|] eqn:Er; [|vm_compute in Er; discriminate].
    destruct (parse_problem cfg_pinned ex_num ex_dom d19a_problem) as [pb|] eqn:Ep; [|vm_compute in Ep; discriminate].
    specialize (H ex_num ex_dom d19a_problem sp pb ex_dom_ok ex_num_ok Er Ep).
    vm_compute in Er. injection Er as <-. vm_compute in Ep. injection Ep as <-. vm_compute in H. discriminate.
  - intros H.
    destruct (read_problem ex_num d19b_problem) as [sp|] eqn:Er; [|vm_compute in Er; discriminate].
    specialize (H ex_num ex_dom d19b_problem sp ex_dom_ok ex_num_ok Er).
    assert (Hacc : exists pb, parse_problem cfg_pinned ex_num ex_dom d19b_problem = Ok pb) by (eexists; vm_compute; reflexivity).
    apply H in Hacc. vm_compute in Er. injection Er as <-. vm_compute in Hacc. discriminate.
  - eexists. eexists. split; [vm_compute; reflexivity|]. split; [vm_compute; reflexivity|].
    split; vm_compute; reflexivity.
Qed.

(* the repaired configuration rejects the three pinned witnesses' ill-formed ones and keeps the object *)
Example C05_fixed_on_pinned_witnesses :
  (exists pb, parse_problem cfg_fixed ex_num ex_dom d19a_problem = Ok pb /\ pb_objects pb = [("o0", "t1"); ("o3", "object")]) /\
  (exists k, parse_problem cfg_fixed ex_num ex_dom d19b_problem = Err k) /\
  (exists k, parse_problem cfg_fixed ex_num ex_dom d19c_problem = Err k).
Proof. split; [eexists; split; vm_compute; reflexivity|]. split; eexists; vm_compute; reflexivity. Qed.
