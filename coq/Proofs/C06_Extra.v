(* C06: corollaries - the forest theorem in one piece, and the spec core's executable subtype test evaluated
   directly on a forest's declarations (without the parser's completion) is the closure too. *)
From Coq Require Import List String Bool Arith Lia Relations.
From Verif Require Import Base.Result Base.Str Base.Sexp Base.PyDict Model.Types Spec.Pddl Spec.Types
  Proofs.C06_Walk Proofs.C06_Parse Proofs.C06_Main Proofs.C06_Sites.
Import ListNotations.
Open Scope string_scope.
Open Scope list_scope.

Theorem forest_lemma : forall gs tr,
  plain_section gs tr -> forest (decls gs tr) ->
  exists T, parse_types (render gs tr) = Ok T /\
            (forall x y, is_sub_type T x y = true <-> subtype (decls gs tr) x y) /\
            (forall x y, exists b, walk (S (S (List.length T))) T x y = Ok b) /\
            (forall n, In n (type_names T) <-> is_type_name (decls gs tr) n).
Proof.
  intros gs tr Hp [H1 [Hr Hac]].
  assert (Hwf : wf_section gs tr) by (split; [exact Hp|split; assumption]).
  destruct (accepts_lemma gs tr Hwf Hac) as [T HT]. exists T. split; [exact HT|]. split; [|split].
  - apply closure_lemma; assumption.
  - eapply fuel_lemma. exact HT.
  - apply type_names_lemma; assumption.
Qed.

Lemma walk_mono_object (T : typetable) : forall f a,
  walk f T a "object" = Ok true -> walk (S f) T a "object" = Ok true.
Proof.
  induction f as [|f IH]; intros a Ha.
  - simpl in Ha. simpl. destruct (String.eqb a "object"); [reflexivity|discriminate].
  - change (walk (S (S f)) T a "object") with
      (if String.eqb a "object" then Ok true else
         if String.eqb a "object" then Ok false else
           match dget T a with Some p => walk (S f) T p "object" | None => walk (S f) T "object" "object" end).
    simpl in Ha. destruct (String.eqb a "object"); [reflexivity|].
    destruct (dget T a); apply IH; exact Ha.
Qed.

(* Spec.Pddl.subtypeb on the raw declaration list of a forest (the walk treats an undeclared parent as a child of
   object on the fly) is the closure: the oracle the other properties use is the C06 relation *)
Theorem subtypeb_forest_lemma : forall (ds : list decl) x y,
  forest ds -> (subtypeb ds x y = true <-> subtype ds x y).
Proof.
  intros ds x y [H1 [Hr Hac]]. rewrite subtypeb_is_sub_type_lemma. unfold is_sub_type.
  assert (Hs : entries_sound ds ds) by (intros a p H; left; apply dget_In, H).
  assert (Hc : entries_complete ds ds) by (intros a p H; apply In_dget_nodup; assumption).
  assert (Hno : no_object_key ds) by (apply dget_None_notin; exact Hr).
  assert (Hta : tacyclic ds) by (apply (acyclic_table ds ds); assumption).
  split.
  - intros Hb. destruct (walk _ ds x y) as [b|k] eqn:E; [|discriminate]. subst b.
    apply (walk_sound ds ds Hs _ _ _ E).
  - intros Hsub. rewrite (walk_complete ds ds Hc Hr); [reflexivity| |exact Hsub].
    apply walk_mono_object, acyclic_reaches, Hta.
Qed.
