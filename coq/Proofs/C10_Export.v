(* C10: facts about the exporter's text. *)
From Coq Require Import List Ascii String Bool PrimFloat.
From Verif Require Import Base.Result Base.Str Base.Sexp Base.PyDict Base.Float Model.State Model.Trajectory.
Import ListNotations.

Lemma export_empty num_text : export num_text [] = Err EIndex.
Proof. reflexivity. Qed.
