(* C13 - the elimination decision (Model/Elimination.v): every assumption the library extracts from an equality of a
   conjunction follows from that equality, and the skeleton of _simplify_numeric_preconditions preserves the meaning of the
   conjunction when the two printers it calls are exact. *)
From Coq Require Import List String Bool ZArith QArith Lia.
From Verif Require Import Spec.Poly Model.Elimination.
Import ListNotations.
Open Scope Q_scope.

Definition holds_assumption (rho : valuation) (ar : expr * expr) : Prop := eval rho (fst ar) == eval rho (snd ar).

Lemma is_zero_leaf_eval rho e : is_zero_leaf e = true -> eval rho e == 0.
Proof.
  destruct e as [q|v|o a b]; cbn [is_zero_leaf eval]; try discriminate.
  intros H. apply Qeq_bool_iff in H. exact H.
Qed.

(* the assumption extracted from an equality holds wherever the equality holds (no definedness needed: nothing is divided) *)
Lemma extract_eliminated_sound c a r rho :
  extract_eliminated c = Some (a, r) -> sat rho c -> holds_assumption rho (a, r).
Proof.
  unfold extract_eliminated, sat, holds_assumption. destruct c as [op l rr]. cbn [c_op c_l c_r fst snd].
  destruct op; try discriminate.
  destruct l as [q|v|o x y]; try discriminate.
  destruct o; try discriminate.
  destruct (is_zero_leaf rr) eqn:Z; intros E; inversion E; subst a r; clear E;
    cbn [cmp_holds eval bin_sem]; intros H.
  - rewrite (is_zero_leaf_eval rho rr Z) in H.
    setoid_replace (eval rho x) with ((eval rho x + eval rho y) - eval rho y) by ring.
    rewrite H. ring.
  - rewrite <- H. ring.
Qed.

(* only equalities with a sum on the left are used *)
Lemma extract_eliminated_shape c a r :
  extract_eliminated c = Some (a, r) ->
  c_op c = CEq /\ exists b, c_l c = EBin OAdd a b /\
    (r = EBin OMul (ENum (-1 # 1)) b \/ r = EBin OSub (c_r c) b).
Proof.
  unfold extract_eliminated. destruct c as [op l rr]. cbn [c_op c_l c_r].
  destruct op; try discriminate.
  destruct l as [q|v|o x y]; try discriminate.
  destruct o; try discriminate.
  intros E. inversion E; subst. split; [reflexivity|]. exists y. split; [reflexivity|].
  destruct (is_zero_leaf rr); [left|right]; reflexivity.
Qed.

Lemma in_somes {A} (l : list (option A)) a : In a (somes l) <-> In (Some a) l.
Proof.
  unfold somes. rewrite in_flat_map. split.
  - intros (o & Ho & Ha). destruct o as [x|]; [|destruct Ha]. destruct Ha as [->|[]]. exact Ho.
  - intros H. exists (Some a). split; [exact H|left; reflexivity].
Qed.

Lemma in_assumptions conds ar :
  In ar (assumptions_of conds) <-> exists c, In c conds /\ is_eq c = true /\ extract_eliminated c = Some ar.
Proof.
  unfold assumptions_of. rewrite in_somes, in_map_iff. split.
  - intros (c & E & Hc). apply filter_In in Hc. destruct Hc as [Hc He]. exists c. auto.
  - intros (c & Hc & He & E). exists c. split; [exact E|]. apply filter_In. auto.
Qed.

(* every assumption of a conjunction follows from the equalities of the conjunction *)
Theorem assumptions_follow conds rho :
  sat_all rho (filter is_eq conds) -> Forall (holds_assumption rho) (assumptions_of conds).
Proof.
  intros H. apply Forall_forall. intros [a r] Hin. apply in_assumptions in Hin.
  destruct Hin as (c & Hc & He & E). eapply extract_eliminated_sound; [exact E|].
  unfold sat_all in H. rewrite Forall_forall in H. apply H. apply filter_In. auto.
Qed.

(* ------------------------------------------------------------------ the skeleton with exact printers *)
Section Composition.
  Variable S : Type.
  Variable ssat : valuation -> S -> Prop.                   (* what a printed condition means *)
  Variable simp_eq : cond -> option S.
  Variable simp_ineq : cond -> list (expr * expr) -> option S.

  (* the printers are exact: a printed condition means the same as the condition it was printed for (an inequality: wherever
     the assumptions hold), a condition is dropped only if it holds (an inequality: wherever the assumptions hold) *)
  Hypothesis eq_kept : forall c o rho, is_eq c = true -> simp_eq c = Some o -> (ssat rho o <-> sat rho c).
  Hypothesis eq_dropped : forall c rho, is_eq c = true -> simp_eq c = None -> sat rho c.
  Hypothesis ineq_kept : forall c asm o rho, is_eq c = false -> simp_ineq c asm = Some o ->
                                              Forall (holds_assumption rho) asm -> (ssat rho o <-> sat rho c).
  Hypothesis ineq_dropped : forall c asm rho, is_eq c = false -> simp_ineq c asm = None ->
                                               Forall (holds_assumption rho) asm -> sat rho c.

  Let out (conds : list cond) : list S := simplify_numeric_preconditions simp_eq simp_ineq conds.

  Lemma in_out conds o :
    In o (out conds) <->
    exists c, In c conds /\ (if is_eq c then simp_eq c else simp_ineq c (assumptions_of conds)) = Some o.
  Proof.
    unfold out, simplify_numeric_preconditions. rewrite in_somes, in_map_iff. split.
    - intros (c & E & Hc). exists c. auto.
    - intros (c & Hc & E). exists c. auto.
  Qed.

  Theorem composition_exact conds rho : Forall (ssat rho) (out conds) <-> sat_all rho conds.
  Proof.
    unfold sat_all. rewrite !Forall_forall. split.
    - intros H.
      assert (Heq : forall c, In c conds -> is_eq c = true -> sat rho c).
      { intros c Hc He. destruct (simp_eq c) as [o|] eqn:E.
        - apply (eq_kept c o rho He E). apply H. apply in_out. exists c. rewrite He. auto.
        - apply (eq_dropped c rho He E). }
      assert (Hasm : Forall (holds_assumption rho) (assumptions_of conds)).
      { apply assumptions_follow. apply Forall_forall. intros c Hc. apply filter_In in Hc. destruct Hc. auto. }
      intros c Hc. destruct (is_eq c) eqn:He; [auto|].
      destruct (simp_ineq c (assumptions_of conds)) as [o|] eqn:E.
      + apply (ineq_kept c _ o rho He E Hasm). apply H. apply in_out. exists c. rewrite He. auto.
      + apply (ineq_dropped c _ rho He E Hasm).
    - intros H o Ho. apply in_out in Ho. destruct Ho as (c & Hc & E).
      assert (Hasm : Forall (holds_assumption rho) (assumptions_of conds)).
      { apply assumptions_follow. apply Forall_forall. intros c' Hc'. apply filter_In in Hc'. destruct Hc'. auto. }
      destruct (is_eq c) eqn:He.
      + apply (eq_kept c o rho He E). auto.
      + apply (ineq_kept c _ o rho He E Hasm). auto.
  Qed.
End Composition.

(* ------------------------------------------------------------------ the hypotheses are satisfiable, non-trivially *)
(* a printer that really eliminates: an assumption "function := expression" is substituted in the inequality, and an
   inequality whose two sides become the same number is dropped when it holds *)
Definition subst_all (asm : list (expr * expr)) (c : cond) : cond :=
  fold_left (fun c ar => match fst ar with EVar v => csubst (v, snd ar) c | _ => c end) asm c.

Definition subst_printer (c : cond) (asm : list (expr * expr)) : option cond :=
  let c' := subst_all asm c in
  match c_l c', c_r c' with
  | ENum x, ENum y => if cmp_b (c_op c') x y then None else Some c'
  | _, _ => Some c'
  end.

Lemma eval_esubst' rho v r e : rho v == eval rho r -> eval rho (esubst v r e) == eval rho e.
Proof.
  intros H. induction e as [q|w|o a IHa b IHb]; cbn [esubst eval].
  - reflexivity.
  - destruct (String.eqb v w) eqn:E.
    + apply String.eqb_eq in E. subst w. symmetry. exact H.
    + reflexivity.
  - destruct o; cbn [bin_sem]; rewrite IHa, IHb; reflexivity.
Qed.

Lemma cmp_holds_morph o x x' y y' : x == x' -> y == y' -> (cmp_holds o x y <-> cmp_holds o x' y').
Proof. intros A B. destruct o; cbn [cmp_holds]; rewrite A, B; reflexivity. Qed.

Lemma subst_fold_sat rho asm : Forall (holds_assumption rho) asm -> forall c, sat rho (subst_all asm c) <-> sat rho c.
Proof.
  unfold subst_all.
  induction 1 as [|[a r] asm Ha _ IH]; intros c; cbn [fold_left]; [reflexivity|].
  rewrite IH. cbn [fst snd]. destruct a as [q|v|o x y]; try reflexivity.
  unfold sat, csubst. cbn [c_op c_l c_r fst snd]. unfold holds_assumption in Ha. cbn [fst snd eval] in Ha.
  apply cmp_holds_morph; apply eval_esubst'; exact Ha.
Qed.

Lemma cmp_b_holds o x y : cmp_b o x y = true <-> cmp_holds o x y.
Proof.
  destruct o; cbn [cmp_b cmp_holds].
  - apply Qle_bool_iff.
  - apply Qle_bool_iff.
  - rewrite negb_true_iff. split.
    + intros H. apply Qnot_le_lt. intros L. apply Qle_bool_iff in L. congruence.
    + intros H. destruct (Qle_bool y x) eqn:E; [|reflexivity]. apply Qle_bool_iff in E. exfalso. apply (Qlt_not_le _ _ H E).
  - rewrite negb_true_iff. split.
    + intros H. apply Qnot_le_lt. intros L. apply Qle_bool_iff in L. congruence.
    + intros H. destruct (Qle_bool x y) eqn:E; [|reflexivity]. apply Qle_bool_iff in E. exfalso. apply (Qlt_not_le _ _ H E).
  - apply Qeq_bool_iff.
Qed.

Theorem composition_with_substituting_printer conds rho :
  Forall (sat rho) (simplify_numeric_preconditions (fun c => Some c) subst_printer conds) <-> sat_all rho conds.
Proof.
  apply (composition_exact cond sat (fun c => Some c) subst_printer).
  - intros c o r _ E. inversion E. reflexivity.
  - intros c r _ E. discriminate.
  - intros c asm o r _ E Ha. unfold subst_printer in E.
    pose proof (subst_fold_sat r asm Ha c) as Hs.
    remember (subst_all asm c) as c' eqn:Ec. clear Ec.
    destruct (c_l c') as [x| |] eqn:L; destruct (c_r c') as [y| |] eqn:R;
      try (inversion E; subst o; exact Hs).
    destruct (cmp_b (c_op c') x y) eqn:B; [discriminate|]. inversion E; subst o. exact Hs.
  - intros c asm r _ E Ha. unfold subst_printer in E.
    pose proof (subst_fold_sat r asm Ha c) as Hs.
    remember (subst_all asm c) as c' eqn:Ec. clear Ec.
    destruct (c_l c') as [x| |] eqn:L; destruct (c_r c') as [y| |] eqn:R; try discriminate.
    destruct (cmp_b (c_op c') x y) eqn:B; [|discriminate].
    apply Hs. unfold sat. rewrite L, R. cbn [eval]. apply cmp_b_holds. exact B.
Qed.

(* x + y = 3, x + y <= 10, z >= 1:  y... the sum's first operand x is eliminated:  (3 - y) + y <= 10 is kept in that form by this
   toy printer, and an inequality that becomes a comparison of numbers is dropped *)
Example elimination_example :
  let x := EVar "( x )"%string in let y := EVar "( y )"%string in
  let e := {| c_op := CEq; c_l := EBin OAdd x y; c_r := ENum 3 |} in
  let e0 := {| c_op := CEq; c_l := EBin OAdd x y; c_r := ENum 0 |} in
  let d := {| c_op := CEq; c_l := EBin OSub x y; c_r := ENum 0 |} in
  let i := {| c_op := CLe; c_l := x; c_r := ENum 10 |} in
  extract_eliminated e = Some (x, EBin OSub (ENum 3) y) /\
  extract_eliminated e0 = Some (x, EBin OMul (ENum (-1 # 1)) y) /\
  extract_eliminated d = None /\ extract_eliminated i = None /\
  assumptions_of [i; e; d; e0] = [(x, EBin OSub (ENum 3) y); (x, EBin OMul (ENum (-1 # 1)) y)] /\
  simplify_numeric_preconditions (fun c => Some c) subst_printer [i; e] =
    [{| c_op := CLe; c_l := EBin OSub (ENum 3) y; c_r := ENum 10 |}; e].
Proof. repeat split. Qed.
