(* C17 on the object model of Model/Domain.v: the combination of parsed domains (Model/CombineDomains.v) has, row by
   row, the dump-level combination (Model/Combine.v) of the files' rows; hence the union / order theorems hold of it,
   and C08's export / re-parse theorem applies to it. *)
From Coq Require Import List String Bool Permutation.
From Verif Require Import Base.Result Base.Str Base.Sexp Base.PyDict Model.Tokenizer Model.Types Model.Domain
  Model.DomainExporter Model.Combine Model.CombineDomains Spec.Combine Corr.Core
  Proofs.C17_Dict Proofs.C17_Domains Proofs.C08_Defs Proofs.C08_Domain Proofs.C08_Vocab.
Import ListNotations.
Open Scope string_scope.
Open Scope list_scope.

(* a dict of the object model, entry by entry, as a dict of texts *)
Definition mapv {A B} (f : string -> A -> B) (d : pydict A) : adict B :=
  map (fun kv => (fst kv, f (fst kv) (snd kv))) d.

Lemma mapv_dset {A B} (f : string -> A -> B) (d : pydict A) k v :
  mapv f (dset d k v) = set_item k (f k v) (mapv f d).
Proof.
  induction d as [|[k' v'] r IH]; simpl; [reflexivity|].
  destruct (String.eqb k k') eqn:E; simpl.
  - apply String.eqb_eq in E. subst k'. reflexivity.
  - now rewrite IH.
Qed.

Lemma mapv_dupdate {A B} (f : string -> A -> B) (e : pydict A) : forall d,
  mapv f (dupdate d e) = update (mapv f d) (mapv f e).
Proof.
  unfold dupdate, update. induction e as [|[k v] e IH]; simpl; intros d; [reflexivity|].
  now rewrite IH, mapv_dset.
Qed.

Lemma mapv_fold_dupdate {A B R} (f : string -> A -> B) (sec : R -> pydict A) (files : list R) : forall d,
  mapv f (fold_left (fun acc x => dupdate acc (sec x)) files d) =
  fold_left update (map (fun x => mapv f (sec x)) files) (mapv f d).
Proof.
  induction files as [|x files IH]; simpl; intros d; [reflexivity|]. now rewrite IH, mapv_dupdate.
Qed.

(* the rows of a parsed domain: what Corr.Core.model_vocab prints, one text per name *)
Definition keep (_ : string) (v : string) : string := v.
Definition act_row (n : string) (a : maction) : string := show_decl n (ma_sig a).

Definition rows_of (m : mdomain) : domainv :=
  {| Combine.d_name := Some (Domain.d_name m);
     Combine.d_reqs := Domain.d_reqs m;
     Combine.d_types := mapv keep (Domain.d_types m);
     Combine.d_consts := mapv keep (Domain.d_consts m);
     Combine.d_preds := mapv show_decl (Domain.d_preds m);
     Combine.d_funcs := mapv show_decl (Domain.d_funcs m);
     Combine.d_acts := mapv act_row (Domain.d_actions m) |}.

Lemma fold_merge_m_proj {A} (sec : mdomain -> pydict A)
  (Hsec : forall c a, sec (merge_mdomain c a) = dupdate (sec c) (sec a)) (files : list mdomain) : forall c,
  sec (fold_left merge_mdomain files c) = fold_left (fun acc x => dupdate acc (sec x)) files (sec c).
Proof. induction files as [|x files IH]; simpl; intros c; [reflexivity|]. now rewrite IH, Hsec. Qed.

Definition same_sections (a b : domainv) : Prop :=
  Combine.d_types a = Combine.d_types b /\ Combine.d_consts a = Combine.d_consts b /\
  Combine.d_preds a = Combine.d_preds b /\ Combine.d_funcs a = Combine.d_funcs b /\
  Combine.d_acts a = Combine.d_acts b.

(* refinement: rows of the structured combination = dump-level combination of the rows *)
Lemma C17_structured_refines_lemma : forall files : list mdomain,
  same_sections (rows_of (combine_mdomains files)) (combine_domains [] (map rows_of files)).
Proof.
  intros files. unfold same_sections.
  rewrite cd_types, cd_consts, cd_preds, cd_funcs, cd_acts, !map_map. unfold rows_of, combine_mdomains. simpl.
  repeat split.
  - rewrite (fold_merge_m_proj Domain.d_types (fun _ _ => eq_refl)). now rewrite mapv_fold_dupdate.
  - rewrite (fold_merge_m_proj Domain.d_consts (fun _ _ => eq_refl)). now rewrite mapv_fold_dupdate.
  - rewrite (fold_merge_m_proj Domain.d_preds (fun _ _ => eq_refl)). now rewrite mapv_fold_dupdate.
  - rewrite (fold_merge_m_proj Domain.d_funcs (fun _ _ => eq_refl)). now rewrite mapv_fold_dupdate.
  - rewrite (fold_merge_m_proj Domain.d_actions (fun _ _ => eq_refl)). now rewrite mapv_fold_dupdate.
Qed.

(* hence: union and order independence of the structured combination, through its rows *)
Lemma C17_structured_union_lemma : forall files : list mdomain,
  sections_agree [] (map rows_of files) ->
  domain_is_union [] (map rows_of files) (rows_of (combine_mdomains files)).
Proof.
  intros files Hag. destruct (C17_structured_refines_lemma files) as (Et & Ec & Ep & Ef & Ea).
  unfold domain_is_union. rewrite Et, Ec, Ep, Ef, Ea.
  apply C17_union_domains_lemma; [constructor|assumption].
Qed.

Lemma C17_structured_order_lemma : forall files files' : list mdomain,
  sections_agree [] (map rows_of files) -> Permutation files files' ->
  domain_equiv (rows_of (combine_mdomains files)) (rows_of (combine_mdomains files')).
Proof.
  intros files files' Hag P.
  destruct (C17_structured_refines_lemma files) as (Et & Ec & Ep & Ef & Ea).
  destruct (C17_structured_refines_lemma files') as (Et' & Ec' & Ep' & Ef' & Ea').
  unfold domain_equiv. rewrite Et, Ec, Ep, Ef, Ea, Et', Ec', Ep', Ef', Ea'.
  apply C17_order_domains_lemma; [constructor|assumption|]. now apply Permutation_map.
Qed.

(* export / re-parse, by C08: whenever the combination satisfies C08's well-formedness predicate (evaluated on every
   case of the correspondence run), the text the exporter model writes for it is read back by the parser model
   as a domain with the same vocabulary, name and requirements *)
Lemma C17_roundtrip_exporter_lemma : forall (num : numparser) (dpre deff : nat) (dummy : bool) (files : list mdomain),
  wf_mdomain num dpre deff (locate_mdomains dummy files) = true ->
  exists m', parse_domain num (export_domain dpre deff (locate_mdomains dummy files)) = Ok m' /\
             model_vocab m' = model_vocab (locate_mdomains dummy files) /\
             Domain.d_name m' = Domain.d_name (locate_mdomains dummy files) /\
             Domain.d_reqs m' = Domain.d_reqs (locate_mdomains dummy files).
Proof.
  intros num dpre deff dummy files Hwf.
  exists (rr_domain num dpre deff (locate_mdomains dummy files)). split.
  - now apply domain_roundtrip.
  - split; [apply vocab_same|]. split; reflexivity.
Qed.

(* ---------------------------------------------------------------- non-vacuity: two agent files parsed by the model *)
Definition exs_num : numparser := fun _ => None.
Definition exs_text_a : string :=
  "(define (domain lg) (:requirements :typing) (:types loc agent - object truck - agent) (:constants hq - loc)
   (:predicates (at ?a - agent ?l - loc) (:private (free ?l - loc)))
   (:action move :parameters (?a - truck ?x - loc ?y - loc) :precondition (and (at ?a ?x) (free ?y))
    :effect (and (at ?a ?y) (not (at ?a ?x)))))".
Definition exs_text_b : string :=
  "(define (domain lg) (:requirements ) (:types agent loc - object plane - agent) (:constants hq - loc)
   (:predicates (at ?a - agent ?l - loc) (sky ?l - loc))
   (:action fly :parameters (?a - plane ?x - loc) :precondition (and (at ?a ?x) (not (sky ?x)))
    :effect (and (sky ?x) (at ?a hq))))".

Definition exs_files : result (list mdomain) := mapM (fun s => parse_file exs_num (s2t s)) [exs_text_a; exs_text_b].

Lemma exs_structured :
  exists fa fb,
    exs_files = Ok [fa; fb] /\
    sections_agree [] (map rows_of [fa; fb]) /\
    List.length (Domain.d_types (combine_mdomains [fa; fb])) = 4 /\
    dkeys (Domain.d_preds (combine_mdomains [fa; fb])) = ["at"; "free"; "sky"] /\
    wf_mdomain exs_num 2 4 (locate_mdomains true [fa; fb]) = true /\
    wf_mdomain exs_num 2 4 (locate_mdomains false [fb; fa]) = true.
Proof.
  destruct exs_files as [l|k] eqn:E; [|vm_compute in E; discriminate].
  destruct l as [|fa [|fb [|x l]]]; try (vm_compute in E; discriminate).
  exists fa, fb. split; [reflexivity|].
  assert (Ea : fa = match exs_files with Ok (a :: _) => a | _ => fa end) by now rewrite E.
  assert (Eb : fb = match exs_files with Ok (_ :: b :: _) => b | _ => fb end) by now rewrite E.
  vm_compute in Ea, Eb. subst fa fb.
  split; [repeat split; apply agree_of_b; vm_compute; reflexivity|].
  vm_compute. repeat split.
Qed.
