(* C07: the frame invariant of the store model (Model/Store.v). *)
From Coq Require Import List Bool Arith PeanoNat Lia.
From Verif Require Import Model.Store.
Import ListNotations.
Open Scope list_scope.

(* ------------------------------------------------------------------ equality tests *)
Lemma owner_eqb_eq : forall a b, owner_eqb a b = true <-> a = b.
Proof.
  intros a b; destruct a, b; simpl; try rewrite Nat.eqb_eq; split; intros H;
    try discriminate; try congruence; auto.
Qed.

Lemma loc_eqb_eq : forall a b : loc, loc_eqb a b = true <-> a = b.
Proof.
  intros [oa na] [ob nb]; unfold loc_eqb; simpl.
  rewrite andb_true_iff, owner_eqb_eq, Nat.eqb_eq. split.
  - intros [H1 H2]; congruence.
  - intros H; inversion H; auto.
Qed.

Lemma loc_eqb_neq : forall a b : loc, a <> b -> loc_eqb a b = false.
Proof.
  intros a b H; destruct (loc_eqb a b) eqn:E; auto. apply loc_eqb_eq in E; contradiction.
Qed.

(* ------------------------------------------------------------------ writes of event lists *)
Lemma writes_app : forall a b, writes (a ++ b) = writes a ++ writes b.
Proof. intros; unfold writes; apply flat_map_app. Qed.
Lemma writes_map_Read : forall ls, writes (map Read ls) = [].
Proof. induction ls; simpl; auto. Qed.
Lemma writes_map_Alloc : forall ls, writes (map Alloc ls) = [].
Proof. induction ls; simpl; auto. Qed.
Lemma writes_map_Link : forall v ls, writes (map (Link v) ls) = [].
Proof. induction ls; simpl; auto. Qed.
Lemma writes_map_Write : forall ls, writes (map Write ls) = ls.
Proof. induction ls; simpl; auto. f_equal; auto. Qed.

Lemma exec_all_untouched : forall evs st l, ~ In l (writes evs) -> exec_all st evs l = st l.
Proof.
  induction evs as [|e evs IH]; intros st l H; simpl; auto.
  unfold exec_all in *; simpl. rewrite IH.
  - destruct e; simpl; auto. unfold upd. rewrite loc_eqb_neq; auto.
    intros ->; apply H; simpl; auto.
  - intros Hin; apply H. destruct e; simpl; auto.
Qed.

(* ------------------------------------------------------------------ regions *)
(* a cell that a repaired operation may write: an operator's cell or a cell of a value that does not exist yet *)
Definition okw (nd ns : nat) (l : loc) : Prop :=
  match fst l with ODom d => nd <= d | OSt s => ns <= s | OOp _ => True | OMod => False end.
(* a cell of an existing value *)
Definition live (nd ns : nat) (l : loc) : Prop :=
  match fst l with ODom d => d < nd | OSt s => s < ns | OOp _ => False | OMod => True end.

Lemma okw_live_disjoint : forall nd ns l, okw nd ns l -> live nd ns l -> False.
Proof. intros nd ns [[d|s|o|] n]; unfold okw, live; simpl; lia. Qed.

Lemma live_mono : forall nd ns nd' ns' l, nd <= nd' -> ns <= ns' -> live nd ns l -> live nd' ns' l.
Proof. intros nd ns nd' ns' [[d|s|o|] n]; unfold live; simpl; lia. Qed.

Lemma Forall_region : forall (P : loc -> Prop) o a n, (forall i, P (o, i)) -> Forall P (region o a n).
Proof. intros; unfold region; apply Forall_forall; intros x Hx; apply in_map_iff in Hx as [i [<- _]]; auto. Qed.

Lemma fresh_state_cells : forall (P : loc -> Prop) s n keys,
  (forall i, P (OSt s, i)) -> Forall P (st_cells (fresh_state s n keys)).
Proof.
  intros P s n keys H. unfold st_cells, fresh_state; simpl. apply Forall_app; split.
  - apply Forall_region; auto.
  - apply Forall_forall; intros x Hx. apply in_map_iff in Hx as [[k l] [<- Hin]]; simpl.
    apply in_combine_r in Hin. unfold region in Hin. apply in_map_iff in Hin as [i [<- _]]; auto.
Qed.

Definition Wok (nd ns : nat) (evs : list event) : Prop := Forall (okw nd ns) (writes evs).

Lemma Wok_app : forall nd ns a b, Wok nd ns a -> Wok nd ns b -> Wok nd ns (a ++ b).
Proof. intros; unfold Wok; rewrite writes_app; apply Forall_app; auto. Qed.
Lemma Wok_nil : forall nd ns, Wok nd ns [].
Proof. intros; constructor. Qed.
Lemma Wok_Read : forall nd ns ls, Wok nd ns (map Read ls).
Proof. intros; unfold Wok; rewrite writes_map_Read; constructor. Qed.
Lemma Wok_Alloc : forall nd ns ls, Wok nd ns (map Alloc ls).
Proof. intros; unfold Wok; rewrite writes_map_Alloc; constructor. Qed.
Lemma Wok_Link : forall nd ns v ls, Wok nd ns (map (Link v) ls).
Proof. intros; unfold Wok; rewrite writes_map_Link; constructor. Qed.
Lemma Wok_Write : forall nd ns ls, Forall (okw nd ns) ls -> Wok nd ns (map Write ls).
Proof. intros; unfold Wok; rewrite writes_map_Write; auto. Qed.
Lemma Wok_cons_nw : forall nd ns e evs, (forall l, e <> Write l) -> Wok nd ns evs -> Wok nd ns (e :: evs).
Proof. intros nd ns e evs H H0; unfold Wok in *; destruct e; simpl; auto. exfalso; eapply H; eauto. Qed.
Lemma Wok_cons_w : forall nd ns l evs, okw nd ns l -> Wok nd ns evs -> Wok nd ns (Write l :: evs).
Proof. intros; unfold Wok in *; simpl; constructor; auto. Qed.

Ltac wok1 :=
  lazymatch goal with
  | |- Wok _ _ [] => apply Wok_nil
  | |- Wok _ _ (map Read _) => apply Wok_Read
  | |- Wok _ _ (map Alloc _) => apply Wok_Alloc
  | |- Wok _ _ (map (Link _) _) => apply Wok_Link
  | |- Wok _ _ (map Write _) => apply Wok_Write
  | |- Wok _ _ (_ ++ _) => apply Wok_app
  | |- Wok _ _ (Write _ :: _) => apply Wok_cons_w; [unfold okw; simpl; try lia; auto |]
  | |- Wok _ _ (_ :: _) => apply Wok_cons_nw; [intros ? ?; discriminate |]
  end.
Ltac wok := repeat wok1.

(* ------------------------------------------------------------------ writes of the pieces *)
Lemma W_new_domain : forall c m typed nacts u, fix18 c = true ->
  Wok (length (doms m)) (length (sts m)) (snd (ev_new_domain c m typed nacts u)).
Proof.
  intros c m typed nacts u F. unfold ev_new_domain, new_domain_types. rewrite F.
  destruct typed; simpl; destruct u; wok;
    try (constructor; [unfold okw; simpl; lia|]);
    try (apply Forall_forall; intros x Hx; apply in_map_iff in Hx as [i [<- _]]; unfold okw; simpl; lia);
    try constructor; try (unfold okw; simpl; lia); auto.
Qed.

Lemma W_copy : forall nd m src, Wok nd (length (sts m)) (snd (ev_copy_state m src)).
Proof.
  intros. unfold ev_copy_state; cbn [snd]. wok. apply fresh_state_cells. intros; unfold okw; simpl; lia.
Qed.

Lemma W_ground : forall nd ns m o oi, Wok nd ns (snd (ev_ground m o oi)).
Proof. intros. unfold ev_ground; simpl. wok. Qed.

Lemma W_applicable : forall nd ns m o oi si, Wok nd ns (ev_applicable m o oi si).
Proof.
  intros. unfold ev_applicable. wok.
  - unfold objs_reads. destruct (o_objs oi); wok.
  - apply Forall_region. intros; unfold okw; simpl; auto.
Qed.

Lemma W_effects : forall c nd o s effs i si fresh, fix16 c = true ->
  Wok nd s (snd (ev_effects c o s i effs si fresh)).
Proof.
  intros c nd o s effs. induction effs as [|[k nrhs] r IH]; intros i si fresh F; simpl.
  - wok.
  - rewrite F.
    destruct (ev_effects c o s (S (i + nrhs)) r
               {| s_cells := s_cells si; s_vals := set_val (s_vals si) k (OSt s, fresh) |} (S fresh)) as [si'' evs3] eqn:E.
    simpl. specialize (IH (S (i + nrhs)) {| s_cells := s_cells si; s_vals := set_val (s_vals si) k (OSt s, fresh) |} (S fresh) F).
    rewrite E in IH; simpl in IH.
    wok; auto.
    apply Forall_region. intros; unfold okw; simpl; auto.
Qed.

Lemma W_universal : forall c nd ns m oi, fix15 c = true -> Wok nd ns (ev_universal c m oi).
Proof.
  intros c nd ns m oi F. unfold ev_universal. rewrite F. destruct (o_objs oi); wok.
  destruct (Nat.eqb (a_forall (o_sh oi)) 0); wok.
Qed.

Lemma W_apply_body : forall c nd m o oi src, fix15 c = true -> fix16 c = true ->
  Wok nd (length (sts m)) (snd (ev_apply_body c m o oi src)).
Proof.
  intros c nd m o oi src F15 F16. unfold ev_apply_body.
  destruct (ev_copy_state m src) as [si evc] eqn:Ec.
  destruct (ev_effects c o (length (sts m)) (o_base oi + a_pre (o_sh oi)) (a_effs (o_sh oi)) si
             (3 + length (s_vals si))) as [si' eve] eqn:Ee.
  simpl. wok.
  - pose proof (W_copy nd m src) as H. rewrite Ec in H; auto.
  - pose proof (W_effects c nd o (length (sts m)) (a_effs (o_sh oi)) (o_base oi + a_pre (o_sh oi)) si
                  (3 + length (s_vals si)) F16) as H. rewrite Ee in H; auto.
  - apply W_universal; auto.
Qed.

Lemma ensure_grounded_same : forall m o m1 oi evg, ensure_grounded m o = (m1, oi, evg) ->
  doms m1 = doms m /\ sts m1 = sts m /\ (forall nd ns, Wok nd ns evg).
Proof.
  intros m o m1 oi evg H. unfold ensure_grounded in H.
  destruct (o_grounded (nth o (ops m) dflt_o)).
  - inversion H; subst. repeat split; auto. intros; wok.
  - destruct (ev_ground m o (nth o (ops m) dflt_o)) as [oi' evs] eqn:E. inversion H; subst.
    repeat split; auto. intros nd ns. pose proof (W_ground nd ns m o (nth o (ops m) dflt_o)) as W.
    rewrite E in W; auto.
Qed.

Lemma add_op_same : forall m oi m0 evo, add_op m oi = (m0, evo) ->
  doms m0 = doms m /\ sts m0 = sts m /\ (forall nd ns, Wok nd ns evo).
Proof.
  intros m oi m0 evo H. unfold add_op in H. inversion H; subst; simpl. repeat split; auto.
  intros; wok.
Qed.

(* every write of a repaired operation targets an operator's cell or a cell of a value created by the call *)
Lemma step_writes_ok : forall c m p, writes_fixed c = true ->
  Wok (length (doms m)) (length (sts m)) (snd (step c m p)).
Proof.
  intros c m p F. unfold writes_fixed in F. apply andb_true_iff in F as [F F18].
  apply andb_true_iff in F as [F15 F16].
  destruct p; cbn [step].
  - cbn [snd]. wok.
  - apply W_new_domain; auto.
  - apply W_new_domain; auto.
  - apply W_new_domain; auto.
  - destruct (ev_new_domain c m true (d_nacts (nth d (doms m) dflt_d)) false) as [m' evs] eqn:E. cbn [snd].
    wok. pose proof (W_new_domain c m true (d_nacts (nth d (doms m) dflt_d)) false F18) as W. rewrite E in W; auto.
  - cbn [snd]. wok. apply fresh_state_cells. intros; unfold okw; simpl; lia.
  - destruct (add_op m (mk_oinfo d a objs sh)) as [m0 evo] eqn:E. cbn [snd].
    apply add_op_same in E as (_ & _ & W); auto.
  - destruct (ev_ground m o (nth o (ops m) dflt_o)) as [oi evs] eqn:E. cbn [snd].
    pose proof (W_ground (length (doms m)) (length (sts m)) m o (nth o (ops m) dflt_o)) as W. rewrite E in W; auto.
  - destruct (ensure_grounded m o) as [[m1 oi] evg] eqn:E. cbn [snd].
    apply ensure_grounded_same in E as (_ & _ & W). wok; auto. apply W_applicable.
  - destruct (ensure_grounded m o) as [[m1 oi] evg] eqn:E.
    apply ensure_grounded_same in E as (_ & Es & W).
    destruct raised.
    + cbn [snd]. wok; auto. destruct skip; wok. apply W_applicable.
    + destruct (ev_apply_body c m1 o oi (nth s (sts m) dflt_s)) as [m2 evb] eqn:Eb. cbn [snd].
      wok; auto.
      * destruct skip; wok. apply W_applicable.
      * pose proof (W_apply_body c (length (doms m)) m1 o oi (nth s (sts m) dflt_s) F15 F16) as Wb.
        rewrite Eb, Es in Wb; auto.
  - destruct (ev_copy_state m (nth s (sts m) dflt_s)) as [si evs] eqn:E. cbn [snd].
    pose proof (W_copy (length (doms m)) m (nth s (sts m) dflt_s)) as W. rewrite E in W; auto.
  - cbn [snd]. wok.
  - cbn [snd]. wok.
  - cbn [snd]. wok. unfold objs_reads. destruct (o_objs (nth o (ops m) dflt_o)); wok.
  - destruct (add_op m (mk_oinfo d a (Some pobjs) sh)) as [m0 evo] eqn:E0.
    apply add_op_same in E0 as (_ & Es0 & W0).
    destruct (ensure_grounded m0 (length (ops m))) as [[m1 oi] evg] eqn:E1.
    apply ensure_grounded_same in E1 as (_ & Es1 & W1).
    destruct refused.
    + destruct (fix17 c).
      * destruct (ev_copy_state m1 (nth s (sts m) dflt_s)) as [si evs] eqn:Ec. cbn [snd].
        wok; auto. apply W_applicable.
        pose proof (W_copy (length (doms m)) m1 (nth s (sts m) dflt_s)) as W. rewrite Ec, Es1, Es0 in W; auto.
      * cbn [snd]. wok; auto. apply W_applicable.
    + destruct (ev_apply_body c m1 (length (ops m)) oi (nth s (sts m) dflt_s)) as [m2 evb] eqn:Eb. cbn [snd].
      wok; auto. apply W_applicable.
      pose proof (W_apply_body c (length (doms m)) m1 (length (ops m)) oi (nth s (sts m) dflt_s) F15 F16) as Wb.
      rewrite Eb, Es1, Es0 in Wb; auto.
  - cbn [snd]. wok. apply fresh_state_cells. intros; unfold okw; simpl; lia.
Qed.

(* ------------------------------------------------------------------ the invariant *)
(* every cell reachable from a live value lies in the region of an existing value (never in an operator's region,
   never in the region of a value still to be created) *)
Definition Inv (m : mstate) : Prop :=
  (forall si, In si (sts m) -> Forall (live (length (doms m)) (length (sts m))) (st_cells si)) /\
  (forall di, In di (doms m) -> live (length (doms m)) (length (sts m)) (d_types di)).

Lemma Inv_init : Inv init.
Proof. split; simpl; intros ? []. Qed.

Lemma src_live : forall m s, Inv m ->
  Forall (live (length (doms m)) (length (sts m))) (st_cells (nth s (sts m) dflt_s)).
Proof.
  intros m s [HS _]. destruct (Nat.lt_ge_cases s (length (sts m))) as [H|H].
  - apply HS. apply nth_In; auto.
  - rewrite nth_overflow; auto. constructor.
Qed.

Lemma reach_live : forall m v, Inv m -> In v (values m) ->
  Forall (live (length (doms m)) (length (sts m))) (reach m v).
Proof.
  intros m v [HS HD] Hv. unfold values in Hv. destruct Hv as [<-|Hv].
  - simpl. repeat (constructor; [unfold live; simpl; auto |]). constructor.
  - apply in_app_or in Hv as [Hv|Hv]; apply in_map_iff in Hv as [i [<- Hi]]; apply in_seq in Hi; simpl in Hi.
    + simpl. unfold dom_cells. constructor; [| constructor].
      * apply HD. apply nth_In; lia.
      * unfold live; simpl; lia.
      * apply Forall_forall; intros x Hx. apply in_map_iff in Hx as [j [<- _]]. unfold live; simpl; lia.
    + simpl. apply HS. apply nth_In; lia.
Qed.

Lemma Inv_same : forall m m', doms m' = doms m -> sts m' = sts m -> Inv m -> Inv m'.
Proof. intros m m' E1 E2 H. unfold Inv in *. rewrite E1, E2; auto. Qed.

Lemma Inv_add_state : forall m si, Inv m ->
  Forall (live (length (doms m)) (S (length (sts m)))) (st_cells si) -> Inv (add_state m si).
Proof.
  intros m si [HS HD] H. unfold Inv, add_state; simpl. rewrite app_length; simpl. rewrite Nat.add_1_r. split.
  - intros si' Hin. apply in_app_or in Hin as [Hin|[<-|[]]]; auto.
    eapply Forall_impl; [| apply HS; auto]. intros l Hl. eapply live_mono; [| | apply Hl]; lia.
  - intros di Hin. eapply live_mono; [| | apply HD; auto]; lia.
Qed.

Lemma Inv_new_domain : forall c m typed nacts u, Inv m -> Inv (fst (ev_new_domain c m typed nacts u)).
Proof.
  intros c m typed nacts u [HS HD]. unfold ev_new_domain, new_domain_types.
  assert (G : forall t evs, live (S (length (doms m))) (length (sts m)) t ->
              Inv (fst (let '(t0, evs0) := (t, evs) in
                 ({| doms := doms m ++ [{| d_types := t0; d_nacts := nacts |}]; sts := sts m; ops := ops m |},
                  evs0 ++ map Alloc ((ODom (length (doms m)), 1) :: map (fun i => (ODom (length (doms m)), 2 + i)) (seq 0 nacts))
                       ++ map Write ((ODom (length (doms m)), 1) :: map (fun i => (ODom (length (doms m)), 2 + i)) (seq 0 nacts))
                       ++ (if u then [Write t0] else [])
                       ++ map (Link (ODom (length (doms m))))
                            (dom_cells (length (doms m)) {| d_types := t0; d_nacts := nacts |}))))).
  { intros t evs Ht. simpl. unfold Inv; simpl. rewrite app_length; simpl. rewrite Nat.add_1_r. split.
    - intros si Hin. eapply Forall_impl; [| apply HS; auto]. intros l Hl. eapply live_mono; [| | apply Hl]; lia.
    - intros di Hin. apply in_app_or in Hin as [Hin|[<-|[]]]; simpl; auto.
      eapply live_mono; [| | apply HD; auto]; lia. }
  destruct typed; [| destruct (fix18 c)]; apply G; unfold live; simpl; auto.
Qed.

Lemma set_val_cells : forall (P : loc -> Prop) vals k l,
  Forall P (map snd vals) -> P l -> Forall P (map snd (set_val vals k l)).
Proof.
  induction vals as [|[k' l'] r IH]; intros k l H Hl; simpl.
  - constructor; auto.
  - inversion H; subst. destruct (Nat.eqb k k'); simpl; constructor; auto.
Qed.

Lemma effects_cells : forall (P : loc -> Prop) c o s effs i si fresh, fix16 c = true ->
  (forall j, P (OSt s, j)) -> Forall P (st_cells si) ->
  Forall P (st_cells (fst (ev_effects c o s i effs si fresh))).
Proof.
  intros P c o s effs. induction effs as [|[k nrhs] r IH]; intros i si fresh F HP H; simpl; auto.
  rewrite F.
  destruct (ev_effects c o s (S (i + nrhs)) r
             {| s_cells := s_cells si; s_vals := set_val (s_vals si) k (OSt s, fresh) |} (S fresh)) as [si'' evs3] eqn:E.
  simpl.
  specialize (IH (S (i + nrhs)) {| s_cells := s_cells si; s_vals := set_val (s_vals si) k (OSt s, fresh) |} (S fresh) F HP).
  rewrite E in IH; simpl in IH. apply IH.
  unfold st_cells in *; simpl. apply Forall_app in H as [H1 H2]. apply Forall_app; split; auto.
  apply set_val_cells; auto.
Qed.

Lemma Inv_apply_body : forall c m o oi src, fix16 c = true -> Inv m -> Inv (fst (ev_apply_body c m o oi src)).
Proof.
  intros c m o oi src F H. unfold ev_apply_body.
  destruct (ev_copy_state m src) as [si evc] eqn:Ec.
  destruct (ev_effects c o (length (sts m)) (o_base oi + a_pre (o_sh oi)) (a_effs (o_sh oi)) si
             (3 + length (s_vals si))) as [si' eve] eqn:Ee.
  simpl. apply Inv_add_state; auto.
  pose proof (effects_cells (live (length (doms m)) (S (length (sts m)))) c o (length (sts m)) (a_effs (o_sh oi))
                (o_base oi + a_pre (o_sh oi)) si (3 + length (s_vals si)) F) as G.
  rewrite Ee in G; simpl in G. apply G.
  - intros; unfold live; simpl; lia.
  - unfold ev_copy_state in Ec. inversion Ec; subst. apply fresh_state_cells. intros; unfold live; simpl; lia.
Qed.

Lemma In_firstn : forall {A} n (l : list A) x, In x (firstn n l) -> In x l.
Proof.
  induction n; intros l x H; simpl in H; [contradiction|]. destruct l; simpl in *; [contradiction|].
  destruct H; auto.
Qed.

Lemma step_inv : forall c m p, writes_fixed c = true -> Inv m -> Inv (fst (step c m p)).
Proof.
  intros c m p F H. unfold writes_fixed in F. apply andb_true_iff in F as [F F18].
  apply andb_true_iff in F as [F15 F16].
  destruct p; cbn [step].
  - auto.
  - apply Inv_new_domain; auto.
  - apply Inv_new_domain; auto.
  - apply Inv_new_domain; auto.
  - destruct (ev_new_domain c m true (d_nacts (nth d (doms m) dflt_d)) false) as [m' evs] eqn:E. cbn [fst].
    pose proof (Inv_new_domain c m true (d_nacts (nth d (doms m) dflt_d)) false H) as G. rewrite E in G; auto.
  - cbn [fst]. apply Inv_add_state; auto. apply fresh_state_cells. intros; unfold live; simpl; lia.
  - destruct (add_op m (mk_oinfo d a objs sh)) as [m0 evo] eqn:E. cbn [fst].
    apply add_op_same in E as (E1 & E2 & _). eapply Inv_same; eauto.
  - destruct (ev_ground m o (nth o (ops m) dflt_o)) as [oi evs] eqn:E. cbn [fst].
    eapply Inv_same; [| | apply H]; auto.
  - destruct (ensure_grounded m o) as [[m1 oi] evg] eqn:E. cbn [fst].
    apply ensure_grounded_same in E as (E1 & E2 & _). eapply Inv_same; eauto.
  - destruct (ensure_grounded m o) as [[m1 oi] evg] eqn:E.
    apply ensure_grounded_same in E as (E1 & E2 & _).
    assert (H1 : Inv m1) by (eapply Inv_same; eauto).
    destruct raised; [cbn [fst]; auto|].
    destruct (ev_apply_body c m1 o oi (nth s (sts m) dflt_s)) as [m2 evb] eqn:Eb. cbn [fst].
    pose proof (Inv_apply_body c m1 o oi (nth s (sts m) dflt_s) F16 H1) as G. rewrite Eb in G; auto.
  - destruct (ev_copy_state m (nth s (sts m) dflt_s)) as [si evs] eqn:E. cbn [fst].
    apply Inv_add_state; auto. unfold ev_copy_state in E. inversion E; subst.
    apply fresh_state_cells. intros; unfold live; simpl; lia.
  - auto.
  - auto.
  - auto.
  - destruct (add_op m (mk_oinfo d a (Some pobjs) sh)) as [m0 evo] eqn:E0.
    apply add_op_same in E0 as (Ed0 & Es0 & _).
    destruct (ensure_grounded m0 (length (ops m))) as [[m1 oi] evg] eqn:E1.
    apply ensure_grounded_same in E1 as (Ed1 & Es1 & _).
    assert (H1 : Inv m1) by (eapply Inv_same; [| | apply H]; congruence).
    destruct refused.
    + destruct (fix17 c).
      * destruct (ev_copy_state m1 (nth s (sts m) dflt_s)) as [si evs] eqn:Ec. cbn [fst].
        apply Inv_add_state; auto. unfold ev_copy_state in Ec. inversion Ec; subst.
        apply fresh_state_cells. intros; unfold live; simpl; lia.
      * cbn [fst]. apply Inv_add_state; auto.
        pose proof (src_live m s H) as L. rewrite Ed1, Es1, Ed0, Es0.
        unfold st_cells in *; cbn [s_cells s_vals]. apply Forall_app in L as [L1 L2]. apply Forall_app; split.
        -- apply Forall_forall; intros x Hx. apply In_firstn in Hx.
           rewrite Forall_forall in L1. eapply live_mono; [| | apply L1; auto]; lia.
        -- eapply Forall_impl; [| apply L2]. intros l Hl. eapply live_mono; [| | apply Hl]; lia.
    + destruct (ev_apply_body c m1 (length (ops m)) oi (nth s (sts m) dflt_s)) as [m2 evb] eqn:Eb. cbn [fst].
      pose proof (Inv_apply_body c m1 (length (ops m)) oi (nth s (sts m) dflt_s) F16 H1) as G. rewrite Eb in G; auto.
  - cbn [fst]. apply Inv_add_state; auto. apply fresh_state_cells. intros; unfold live; simpl; lia.
Qed.

(* ------------------------------------------------------------------ the frame theorem *)
Lemma frame_step : forall c m p st v l, writes_fixed c = true -> Inv m ->
  In v (values m) -> In l (reach m v) -> exec_all st (snd (step c m p)) l = st l.
Proof.
  intros c m p st v l F H Hv Hl. apply exec_all_untouched. intros Hw.
  pose proof (step_writes_ok c m p F) as W. unfold Wok in W. rewrite Forall_forall in W.
  pose proof (reach_live m v H Hv) as L. rewrite Forall_forall in L.
  eapply okw_live_disjoint; eauto.
Qed.

Lemma run_step_eq : forall c m st p, run_step c (m, st) p = (fst (step c m p), exec_all st (snd (step c m p))).
Proof. intros. unfold run_step; simpl. destruct (step c m p); auto. Qed.

Lemma run_inv : forall c h m st, writes_fixed c = true -> Inv m -> Inv (fst (run c h (m, st))).
Proof.
  intros c h. induction h as [|p h IH]; intros m st F H; simpl; auto.
  rewrite run_step_eq. apply IH; auto. apply step_inv; auto.
Qed.

(* values only accumulate, and the cells reachable from an existing value never change *)
Definition extends (m m' : mstate) : Prop :=
  (exists x, doms m' = doms m ++ x) /\ (exists y, sts m' = sts m ++ y).

Lemma extends_refl : forall m, extends m m.
Proof. intros; split; exists []; rewrite app_nil_r; auto. Qed.
Lemma extends_trans : forall a b c, extends a b -> extends b c -> extends a c.
Proof.
  intros a b c [[x Hx] [y Hy]] [[x' Hx'] [y' Hy']]. split.
  - exists (x ++ x'). rewrite Hx', Hx, app_assoc; auto.
  - exists (y ++ y'). rewrite Hy', Hy, app_assoc; auto.
Qed.

Lemma extends_same : forall m m', doms m' = doms m -> sts m' = sts m -> extends m m'.
Proof. intros m m' E1 E2; split; exists []; rewrite app_nil_r; auto. Qed.

Lemma new_domain_extends : forall c m typed nacts u, extends m (fst (ev_new_domain c m typed nacts u)).
Proof.
  intros. unfold ev_new_domain. destruct (new_domain_types c (length (doms m)) typed) as [t evs]. simpl.
  split; simpl; [eexists; eauto | exists []; rewrite app_nil_r; auto].
Qed.

Lemma add_state_extends : forall m si, extends m (add_state m si).
Proof. intros; split; simpl; [exists []; rewrite app_nil_r; auto | eexists; eauto]. Qed.

Lemma apply_body_extends : forall c m o oi src, extends m (fst (ev_apply_body c m o oi src)).
Proof.
  intros. unfold ev_apply_body. destruct (ev_copy_state m src) as [si evc].
  destruct (ev_effects c o (length (sts m)) (o_base oi + a_pre (o_sh oi)) (a_effs (o_sh oi)) si
             (3 + length (s_vals si))) as [si' eve]. simpl. apply add_state_extends.
Qed.

Lemma step_extends : forall c m p, extends m (fst (step c m p)).
Proof.
  intros c m p. destruct p; cbn [step].
  - apply extends_refl.
  - apply new_domain_extends.
  - apply new_domain_extends.
  - apply new_domain_extends.
  - destruct (ev_new_domain c m true (d_nacts (nth d (doms m) dflt_d)) false) as [m' evs] eqn:E. cbn [fst].
    pose proof (new_domain_extends c m true (d_nacts (nth d (doms m) dflt_d)) false) as G. rewrite E in G; auto.
  - cbn [fst]. apply add_state_extends.
  - destruct (add_op m (mk_oinfo d a objs sh)) as [m0 evo] eqn:E. cbn [fst].
    apply add_op_same in E as (E1 & E2 & _). apply extends_same; auto.
  - destruct (ev_ground m o (nth o (ops m) dflt_o)) as [oi evs]. cbn [fst]. apply extends_same; auto.
  - destruct (ensure_grounded m o) as [[m1 oi] evg] eqn:E. cbn [fst].
    apply ensure_grounded_same in E as (E1 & E2 & _). apply extends_same; auto.
  - destruct (ensure_grounded m o) as [[m1 oi] evg] eqn:E.
    apply ensure_grounded_same in E as (E1 & E2 & _).
    destruct raised; [cbn [fst]; apply extends_same; auto|].
    destruct (ev_apply_body c m1 o oi (nth s (sts m) dflt_s)) as [m2 evb] eqn:Eb. cbn [fst].
    eapply extends_trans; [apply extends_same; eauto|].
    pose proof (apply_body_extends c m1 o oi (nth s (sts m) dflt_s)) as G. rewrite Eb in G; auto.
  - destruct (ev_copy_state m (nth s (sts m) dflt_s)) as [si evs]. cbn [fst]. apply add_state_extends.
  - apply extends_refl.
  - apply extends_refl.
  - apply extends_refl.
  - destruct (add_op m (mk_oinfo d a (Some pobjs) sh)) as [m0 evo] eqn:E0.
    apply add_op_same in E0 as (Ed0 & Es0 & _).
    destruct (ensure_grounded m0 (length (ops m))) as [[m1 oi] evg] eqn:E1.
    apply ensure_grounded_same in E1 as (Ed1 & Es1 & _).
    assert (X : extends m m1) by (apply extends_same; congruence).
    destruct refused.
    + destruct (fix17 c).
      * destruct (ev_copy_state m1 (nth s (sts m) dflt_s)) as [si evs]. cbn [fst].
        eapply extends_trans; [apply X | apply add_state_extends].
      * cbn [fst]. eapply extends_trans; [apply X | apply add_state_extends].
    + destruct (ev_apply_body c m1 (length (ops m)) oi (nth s (sts m) dflt_s)) as [m2 evb] eqn:Eb. cbn [fst].
      eapply extends_trans; [apply X|].
      pose proof (apply_body_extends c m1 (length (ops m)) oi (nth s (sts m) dflt_s)) as G. rewrite Eb in G; auto.
  - cbn [fst]. apply add_state_extends.
Qed.

Lemma extends_values : forall m m' v, extends m m' -> In v (values m) -> In v (values m').
Proof.
  intros m m' v [[x Hx] [y Hy]] H. unfold values in *. rewrite Hx, Hy, !app_length.
  destruct H as [<-|H]; [left; auto|right].
  apply in_app_or in H as [H|H]; apply in_map_iff in H as [i [<- Hi]]; apply in_seq in Hi; apply in_or_app;
    [left|right]; apply in_map; apply in_seq; lia.
Qed.

Lemma extends_reach : forall m m' v, extends m m' -> In v (values m) -> reach m' v = reach m v.
Proof.
  intros m m' v [[x Hx] [y Hy]] H. unfold values in H. destruct H as [<-|H]; auto.
  apply in_app_or in H as [H|H]; apply in_map_iff in H as [i [<- Hi]]; apply in_seq in Hi; simpl.
  - rewrite Hx, app_nth1; auto; lia.
  - rewrite Hy, app_nth1; auto; lia.
Qed.

(* for every finite history: every cell reachable from a value that is live after the prefix keeps its contents
   through the rest of the history, and the value keeps reaching exactly those cells *)
Lemma frame_history : forall c h2 m st v, writes_fixed c = true -> Inv m -> In v (values m) ->
  let r := run c h2 (m, st) in
  In v (values (fst r)) /\ reach (fst r) v = reach m v /\ forall l, In l (reach m v) -> snd r l = st l.
Proof.
  intros c h2. induction h2 as [|p h IH]; intros m st v F H Hv; simpl.
  - repeat split; auto.
  - rewrite run_step_eq.
    pose proof (step_extends c m p) as X.
    specialize (IH (fst (step c m p)) (exec_all st (snd (step c m p))) v F (step_inv c m p F H)
                   (extends_values _ _ _ X Hv)).
    simpl in IH. destruct IH as (I1 & I2 & I3). repeat split; auto.
    + rewrite I2. apply extends_reach; auto.
    + intros l Hl. rewrite I3.
      * eapply frame_step; eauto.
      * rewrite (extends_reach m _ v X Hv); auto.
Qed.

(* process-wide objects (DEFAULT_TYPES; module globals, class attributes, default-argument objects): no operation of a
   repaired configuration writes any cell of the module region, from ANY model state and store *)
Lemma module_frame : forall c h m st i, writes_fixed c = true ->
  snd (run c h (m, st)) (OMod, i) = st (OMod, i).
Proof.
  intros c h. induction h as [|p h IH]; intros m st i F; simpl; auto.
  rewrite run_step_eq. rewrite IH by auto. apply exec_all_untouched. intros Hw.
  pose proof (step_writes_ok c m p F) as W. unfold Wok in W. rewrite Forall_forall in W.
  apply (W _ Hw).
Qed.

