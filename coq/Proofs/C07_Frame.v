(* C07: the frame invariant of the store model (Model/Store.v). *)
From Coq Require Import List Bool Arith PeanoNat Lia.
From Verif Require Import Model.Store.
Import ListNotations.
Open Scope list_scope.

(* ------------------------------------------------------------------ equality tests *)
Lemma owner_eqb_eq : forall a b, owner_eqb a b = true <-> a = b.
Proof.
  intros a b; destruct a, b; simpl; try rewrite Nat.eqb_eq; split; intros H;
    try discriminate; try congruence; auto.
Qed.

Lemma loc_eqb_eq : forall a b : loc, loc_eqb a b = true <-> a = b.
Proof.
  intros [oa na] [ob nb]; unfold loc_eqb; simpl.
  rewrite andb_true_iff, owner_eqb_eq, Nat.eqb_eq. split.
  - intros [H1 H2]; congruence.
  - intros H; inversion H; auto.
Qed.

Lemma loc_eqb_neq : forall a b : loc, a <> b -> loc_eqb a b = false.
Proof.
  intros a b H; destruct (loc_eqb a b) eqn:E; auto. apply loc_eqb_eq in E; contradiction.
Qed.

(* ------------------------------------------------------------------ writes of event lists *)
Lemma writes_app : forall a b, writes (a ++ b) = writes a ++ writes b.
Proof. intros; unfold writes; apply flat_map_app. Qed.
Lemma writes_map_Read : forall ls, writes (map Read ls) = [].
Proof. induction ls; simpl; auto. Qed.
Lemma writes_map_Alloc : forall ls, writes (map Alloc ls) = [].
Proof. induction ls; simpl; auto. Qed.
Lemma writes_map_Link : forall v ls, writes (map (Link v) ls) = [].
Proof. induction ls; simpl; auto. Qed.
Lemma writes_map_Write : forall ls, writes (map Write ls) = ls.
Proof. induction ls; simpl; auto. f_equal; auto. Qed.

Lemma exec_all_untouched : forall evs st l, ~ In l (writes evs) -> exec_all st evs l = st l.
Proof.
  induction evs as [|e evs IH]; intros st l H; simpl; auto.
  unfold exec_all in *; simpl. rewrite IH.
  - destruct e; simpl; auto. unfold upd. rewrite loc_eqb_neq; auto.
    intros ->; apply H; simpl; auto.
  - intros Hin; apply H. destruct e; simpl; auto.
Qed.

(* ------------------------------------------------------------------ regions *)
(* a cell that a repaired operation may write: an operator's cell or a cell of a value that does not exist yet *)
Definition okw (nd ns : nat) (l : loc) : Prop :=
  match fst l with ODom d => nd <= d | OSt s => ns <= s | OOp _ => True | OMod => False end.
(* a cell of an existing value *)
Definition live (nd ns : nat) (l : loc) : Prop :=
  match fst l with ODom d => d < nd | OSt s => s < ns | OOp _ => False | OMod => True end.

Lemma okw_live_disjoint : forall nd ns l, okw nd ns l -> live nd ns l -> False.
Proof. intros nd ns [[d|s|o|] n]; unfold okw, live; simpl; lia. Qed.

Lemma live_mono : forall nd ns nd' ns' l, nd <= nd' -> ns <= ns' -> live nd ns l -> live nd' ns' l.
Proof. intros nd ns nd' ns' [[d|s|o|] n]; unfold live; simpl; lia. Qed.

Lemma Forall_region : forall (P : loc -> Prop) o a n, (forall i, P (o, i)) -> Forall P (region o a n).
Proof. intros; unfold region; apply Forall_forall; intros x Hx; apply in_map_iff in Hx as [i [<- _]]; auto. Qed.

Lemma fresh_state_cells : forall (P : loc -> Prop) s n keys,
  (forall i, P (OSt s, i)) -> Forall P (st_cells (fresh_state s n keys)).
Proof.
  intros P s n keys H. unfold st_cells, fresh_state; simpl. apply Forall_app; split.
  - apply Forall_region; auto.
  - apply Forall_forall; intros x Hx. apply in_map_iff in Hx as [[k l] [<- Hin]]; simpl.
    apply in_combine_r in Hin. unfold region in Hin. apply in_map_iff in Hin as [i [<- _]]; auto.
Qed.

Definition Wok (nd ns : nat) (evs : list event) : Prop := Forall (okw nd ns) (writes evs).

Lemma Wok_app : forall nd ns a b, Wok nd ns a -> Wok nd ns b -> Wok nd ns (a ++ b).
Proof. intros; unfold Wok; rewrite writes_app; apply Forall_app; auto. Qed.
Lemma Wok_nil : forall nd ns, Wok nd ns [].
Proof. intros; constructor. Qed.
Lemma Wok_Read : forall nd ns ls, Wok nd ns (map Read ls).
Proof. intros; unfold Wok; rewrite writes_map_Read; constructor. Qed.
Lemma Wok_Alloc : forall nd ns ls, Wok nd ns (map Alloc ls).
Proof. intros; unfold Wok; rewrite writes_map_Alloc; constructor. Qed.
Lemma Wok_Link : forall nd ns v ls, Wok nd ns (map (Link v) ls).
Proof. intros; unfold Wok; rewrite writes_map_Link; constructor. Qed.
Lemma Wok_Write : forall nd ns ls, Forall (okw nd ns) ls -> Wok nd ns (map Write ls).
Proof. intros; unfold Wok; rewrite writes_map_Write; auto. Qed.
Lemma Wok_cons_nw : forall nd ns e evs, (forall l, e <> Write l) -> Wok nd ns evs -> Wok nd ns (e :: evs).
Proof. intros nd ns e evs H H0; unfold Wok in *; destruct e; simpl; auto. exfalso; eapply H; eauto. Qed.
Lemma Wok_cons_w : forall nd ns l evs, okw nd ns l -> Wok nd ns evs -> Wok nd ns (Write l :: evs).
Proof. intros; unfold Wok in *; simpl; constructor; auto. Qed.

Ltac wok1 :=
  lazymatch goal with
  | |- Wok _ _ [] => apply Wok_nil
  | |- Wok _ _ (map Read _) => apply Wok_Read
  | |- Wok _ _ (map Alloc _) => apply Wok_Alloc
  | |- Wok _ _ (map (Link _) _) => apply Wok_Link
  | |- Wok _ _ (map Write _) => apply Wok_Write
  | |- Wok _ _ (_ ++ _) => apply Wok_app
  | |- Wok _ _ (Write _ :: _) => apply Wok_cons_w; [unfold okw; simpl; try lia; auto |]
  | |- Wok _ _ (_ :: _) => apply Wok_cons_nw; [intros ? ?; discriminate |]
  end.
Ltac wok := repeat wok1.

(* ------------------------------------------------------------------ writes of the pieces *)
Lemma W_new_domain : forall c m typed nacts u, fix18 c = true ->
  Wok (length (doms m)) (length (sts m)) (snd (ev_new_domain c m typed nacts u)).
Proof.
  intros c m typed nacts u F. unfold ev_new_domain, new_domain_types. rewrite F.
  destruct typed; simpl; destruct u; wok;
    try (constructor; [unfold okw; simpl; lia|]);
    try (apply Forall_forall; intros x Hx; apply in_map_iff in Hx as [i [<- _]]; unfold okw; simpl; lia);
    try constructor; try (unfold okw; simpl; lia); auto.
Qed.

Lemma W_copy : forall nd m src, Wok nd (length (sts m)) (snd (ev_copy_state m src)).
Proof.
  intros. unfold ev_copy_state; cbn [snd]. wok. apply fresh_state_cells. intros; unfold okw; simpl; lia.
Qed.

Lemma W_ground : forall nd ns m o oi, Wok nd ns (snd (ev_ground m o oi)).
Proof. intros. unfold ev_ground; simpl. wok. Qed.

Lemma W_applicable : forall nd ns m o oi si, Wok nd ns (ev_applicable m o oi si).
Proof.
  intros. unfold ev_applicable. wok.
  - unfold objs_reads. destruct (o_objs oi); wok.
  - apply Forall_region. intros; unfold okw; simpl; auto.
Qed.

Lemma W_effects : forall c nd o s effs i si fresh, fix16 c = true ->
  Wok nd s (snd (ev_effects c o s i effs si fresh)).
Proof.
  intros c nd o s effs. induction effs as [|[k nrhs] r IH]; intros i si fresh F; simpl.
  - wok.
  - rewrite F.
    destruct (ev_effects c o s (S (i + nrhs)) r
               {| s_cells := s_cells si; s_vals := set_val (s_vals si) k (OSt s, fresh) |} (S fresh)) as [si'' evs3] eqn:E.
    simpl. specialize (IH (S (i + nrhs)) {| s_cells := s_cells si; s_vals := set_val (s_vals si) k (OSt s, fresh) |} (S fresh) F).
    rewrite E in IH; simpl in IH.
    wok; auto.
    apply Forall_region. intros; unfold okw; simpl; auto.
Qed.

Lemma W_universal : forall c nd ns m oi, fix15 c = true -> Wok nd ns (ev_universal c m oi).
Proof.
  intros c nd ns m oi F. unfold ev_universal. rewrite F. destruct (o_objs oi); wok.
  destruct (Nat.eqb (a_forall (o_sh oi)) 0); wok.
Qed.

Lemma W_apply_body : forall c nd m o oi src, fix15 c = true -> fix16 c = true ->
  Wok nd (length (sts m)) (snd (ev_apply_body c m o oi src)).
Proof.
  intros c nd m o oi src F15 F16. unfold ev_apply_body.
  destruct (ev_copy_state m src) as [si evc] eqn:Ec.
  destruct (ev_effects c o (length (sts m)) (o_base oi + a_pre (o_sh oi)) (a_effs (o_sh oi)) si
             (3 + length (s_vals si))) as [si' eve] eqn:Ee.
  simpl. wok.
  - pose proof (W_copy nd m src) as H. rewrite Ec in H; auto.
  - pose proof (W_effects c nd o (length (sts m)) (a_effs (o_sh oi)) (o_base oi + a_pre (o_sh oi)) si
                  (3 + length (s_vals si)) F16) as H. rewrite Ee in H; auto.
  - apply W_universal; auto.
Qed.

Lemma ensure_grounded_same : forall m o m1 oi evg, ensure_grounded m o = (m1, oi, evg) ->
  doms m1 = doms m /\ sts m1 = sts m /\ (forall nd ns, Wok nd ns evg).
Proof.
  intros m o m1 oi evg H. unfold ensure_grounded in H.
  destruct (o_grounded (nth o (ops m) dflt_o)).
  - inversion H; subst. repeat split; auto. intros; wok.
  - destruct (ev_ground m o (nth o (ops m) dflt_o)) as [oi' evs] eqn:E. inversion H; subst.
    repeat split; auto. intros nd ns. pose proof (W_ground nd ns m o (nth o (ops m) dflt_o)) as W.
    rewrite E in W; auto.
Qed.

Lemma add_op_same : forall m oi m0 evo, add_op m oi = (m0, evo) ->
  doms m0 = doms m /\ sts m0 = sts m /\ (forall nd ns, Wok nd ns evo).
Proof.
  intros m oi m0 evo H. unfold add_op in H. inversion H; subst; simpl. repeat split; auto.
  intros; wok.
Qed.

(* every write of a repaired operation targets an operator's cell or a cell of a value created by the call *)
Lemma step_writes_ok : forall c m p, writes_fixed c = true ->
  Wok (length (doms m)) (length (sts m)) (snd (step c m p)).
Proof.
  intros c m p F. unfold writes_fixed in F. apply andb_true_iff in F as [F F18].
  apply andb_true_iff in F as [F15 F16].
  destruct p; cbn [step].
  - wok.
  - apply W_new_domain; auto.
  - apply W_new_domain; auto.
  - apply W_new_domain; auto.
  - wok. apply fresh_state_cells. intros; unfold okw; simpl; lia.
  - destruct (add_op m (mk_oinfo d a objs sh)) as [m0 evo] eqn:E. cbn [snd].
    apply add_op_same in E as (_ & _ & W); auto.
  - destruct (ev_ground m o (nth o (ops m) dflt_o)) as [oi evs] eqn:E. cbn [snd].
    pose proof (W_ground (length (doms m)) (length (sts m)) m o (nth o (ops m) dflt_o)) as W. rewrite E in W; auto.
  - destruct (ensure_grounded m o) as [[m1 oi] evg] eqn:E. cbn [snd].
    apply ensure_grounded_same in E as (_ & _ & W). wok; auto. apply W_applicable.
  - destruct (ensure_grounded m o) as [[m1 oi] evg] eqn:E.
    apply ensure_grounded_same in E as (_ & Es & W).
    destruct raised.
    + cbn [snd]. wok; auto. destruct skip; wok. apply W_applicable.
    + destruct (ev_apply_body c m1 o oi (nth s (sts m) dflt_s)) as [m2 evb] eqn:Eb. cbn [snd].
      wok; auto.
      * destruct skip; wok. apply W_applicable.
      * pose proof (W_apply_body c (length (doms m)) m1 o oi (nth s (sts m) dflt_s) F15 F16) as Wb.
        rewrite Eb, Es in Wb; auto.
  - destruct (ev_copy_state m (nth s (sts m) dflt_s)) as [si evs] eqn:E. cbn [snd].
    pose proof (W_copy (length (doms m)) m (nth s (sts m) dflt_s)) as W. rewrite E in W; auto.
  - wok.
  - wok.
  - wok. unfold objs_reads. destruct (o_objs (nth o (ops m) dflt_o)); wok.
  - destruct (add_op m (mk_oinfo d a (Some pobjs) sh)) as [m0 evo] eqn:E0.
    apply add_op_same in E0 as (_ & Es0 & W0).
    destruct (ensure_grounded m0 (length (ops m))) as [[m1 oi] evg] eqn:E1.
    apply ensure_grounded_same in E1 as (_ & Es1 & W1).
    destruct refused.
    + destruct (fix17 c).
      * destruct (ev_copy_state m1 (nth s (sts m) dflt_s)) as [si evs] eqn:Ec. cbn [snd].
        wok; auto. apply W_applicable.
        pose proof (W_copy (length (doms m)) m1 (nth s (sts m) dflt_s)) as W. rewrite Ec, Es1, Es0 in W; auto.
      * cbn [snd]. wok; auto. apply W_applicable.
    + destruct (ev_apply_body c m1 (length (ops m)) oi (nth s (sts m) dflt_s)) as [m2 evb] eqn:Eb. cbn [snd].
      wok; auto. apply W_applicable.
      pose proof (W_apply_body c (length (doms m)) m1 (length (ops m)) oi (nth s (sts m) dflt_s) F15 F16) as Wb.
      rewrite Eb, Es1, Es0 in Wb; auto.
Qed.
