(* C02, round 3: the library's name-keyed view of a state's fluents (Model/KeyedState.v, finding D07).
   - [keyed_view_exact]: the library reads the right value of a fluent whenever every fluent of the state that shares its
     key carries the same value (in particular when no other fluent shares its key);
   - [keyed_inj_small]: two applications of the same arity <= 2 share a key only when they are equal -- so the view is the
     state itself as long as no function has three or more parameters;
   - [keyed_refuted]: with a function of arity 3 and a repeated object the reported applicability is wrong. *)
From Coq Require Import List Ascii String Bool Arith PrimFloat Lia.
From Verif Require Import Base.Result Base.Str Base.PyDict Model.Types Model.Domain Model.Exec Model.GroundTyped
  Model.KeyedState Spec.Pddl.
Import ListNotations.
Open Scope string_scope.
Open Scope list_scope.

Lemma strs_eqb_eq : forall a b : list string, list_eqb String.eqb a b = true -> a = b.
Proof.
  induction a as [|x a IH]; destruct b as [|y b]; simpl; intros H; try discriminate; auto.
  apply andb_true_iff in H. destruct H as [H1 H2]. apply String.eqb_eq in H1. subst. f_equal. auto.
Qed.

Lemma strs_eqb_refl : forall a : list string, list_eqb String.eqb a a = true.
Proof. induction a as [|x a IH]; simpl; auto. rewrite String.eqb_refl. exact IH. Qed.

Lemma atom_eqb_true : forall a b : atom, atom_eqb a b = true -> a = b.
Proof.
  intros [f x] [g y]. unfold atom_eqb. simpl. intros H. apply andb_true_iff in H. destruct H as [H1 H2].
  apply String.eqb_eq in H1. apply strs_eqb_eq in H2. subst. reflexivity.
Qed.

Lemma atom_eqb_same : forall a : atom, atom_eqb a a = true.
Proof. intros [f x]. unfold atom_eqb. simpl. rewrite String.eqb_refl, strs_eqb_refl. reflexivity. Qed.

Lemma fluent_get_in : forall a fl v, fluent_get a fl = Some v -> In (a, v) fl.
Proof.
  intros a fl v. induction fl as [|[k w] r IH]; simpl; intros H; [discriminate|].
  destruct (atom_eqb a k) eqn:E.
  - apply atom_eqb_true in E. injection H as <-. subst. left. reflexivity.
  - right. apply IH. exact H.
Qed.

(* reading from the view: the entry found is the state's entry, its value is the view's *)
Lemma fluent_get_view : forall (h : atom * float -> float) a fl,
  fluent_get a (map (fun av => (fst av, h av)) fl) =
  match fluent_get a fl with Some v => Some (h (a, v)) | None => None end.
Proof.
  intros h a fl. induction fl as [|[k w] r IH]; simpl; [reflexivity|].
  destruct (atom_eqb a k) eqn:E; [|exact IH].
  apply atom_eqb_true in E. subst. reflexivity.
Qed.

Lemma last_value_some : forall k fl v, last_value k fl = Some v -> exists b, In (b, v) fl /\ atom_eqb (keyed b) k = true.
Proof.
  intros k fl. induction fl as [|[b w] r IH]; simpl; intros v H; [discriminate|].
  destruct (last_value k r) as [v'|] eqn:E.
  - injection H as <-. destruct (IH v' eq_refl) as [b' [Hin Hk]]. exists b'. split; [right; exact Hin | exact Hk].
  - destruct (atom_eqb (keyed b) k) eqn:Ek; [|discriminate]. injection H as <-. exists b. split; [left; reflexivity | exact Ek].
Qed.

Lemma last_value_none : forall k fl, last_value k fl = None -> forall b w, In (b, w) fl -> atom_eqb (keyed b) k = false.
Proof.
  intros k fl. induction fl as [|[b0 w0] r IH]; simpl; intros H b w Hin; [destruct Hin|].
  destruct (last_value k r) as [v'|] eqn:E; [discriminate|].
  destruct (atom_eqb (keyed b0) k) eqn:Ek; [discriminate|].
  destruct Hin as [Hin|Hin]; [injection Hin as <- <-; exact Ek | apply (IH eq_refl b w Hin)].
Qed.

Lemma last_value_all : forall k fl v,
  (forall b w, In (b, w) fl -> atom_eqb (keyed b) k = true -> w = v) ->
  (exists b, In (b, v) fl /\ atom_eqb (keyed b) k = true) -> last_value k fl = Some v.
Proof.
  intros k fl v Hall [b [Hin Hk]]. destruct (last_value k fl) as [v'|] eqn:E.
  - destruct (last_value_some k fl v' E) as [b' [Hin' Hk']]. rewrite (Hall b' v' Hin' Hk'). reflexivity.
  - rewrite (last_value_none k fl E b v Hin) in Hk. discriminate.
Qed.

(* the library reads the right value wherever the fluents sharing a key share their value *)
Lemma keyed_view_exact : forall fl a v,
  fluent_get a fl = Some v ->
  (forall b w, In (b, w) fl -> keyed b = keyed a -> w = v) ->
  fluent_get a (code_fluents fl) = Some v.
Proof.
  intros fl a v Hget Hall. unfold code_fluents. rewrite fluent_get_view, Hget. unfold code_value. simpl.
  rewrite (last_value_all (keyed a) fl v).
  - reflexivity.
  - intros b w Hin Hk. apply atom_eqb_true in Hk. apply (Hall b w Hin Hk).
  - exists a. split; [apply fluent_get_in, Hget | apply atom_eqb_same].
Qed.

Lemma keyed_view_missing : forall fl a, fluent_get a fl = None -> fluent_get a (code_fluents fl) = None.
Proof. intros fl a H. unfold code_fluents. rewrite fluent_get_view, H. reflexivity. Qed.

(* keys of applications with at most two arguments *)
Lemma key_collapse_0 : key_collapse [] = [].
Proof. reflexivity. Qed.
Lemma key_collapse_1 : forall x, key_collapse [x] = [x].
Proof. reflexivity. Qed.
Lemma key_collapse_2 : forall x y, key_collapse [x; y] = if String.eqb y x then [x] else [x; y].
Proof. intros x y. unfold key_collapse. simpl. destruct (String.eqb y x); reflexivity. Qed.

Lemma keyed_inj_small : forall a b : atom,
  List.length (snd a) = List.length (snd b) -> List.length (snd a) <= 2 -> keyed a = keyed b -> a = b.
Proof.
  intros [f x] [g y]. unfold keyed. simpl. intros Hlen Hle H. injection H as Hf Hk. subst g. f_equal.
  destruct x as [|x1 [|x2 [|x3 x]]]; destruct y as [|y1 [|y2 [|y3 y]]]; simpl in *; try discriminate; try lia; auto.
  - rewrite !key_collapse_2 in Hk.
    destruct (String.eqb x2 x1) eqn:E1; destruct (String.eqb y2 y1) eqn:E2; try discriminate.
    + apply String.eqb_eq in E1. apply String.eqb_eq in E2. injection Hk as Hk. subst. reflexivity.
    + exact Hk.
Qed.

(* ---------- the finding, computed on the model ---------- *)
Definition k_dom : mdomain :=
  {| d_name := "dom"; d_reqs := []; d_types := [("a", "object")]; d_consts := [];
     d_preds := [("z", [])]; d_funcs := [("k", [("?x", "a"); ("?y", "a"); ("?w", "a")])]; d_actions := [] |}.
Definition k_pre : mpre :=
  MPre "and" [MNum (TNode ">=" (TFn "k" ["?x"; "?y"; "?w"]) (TNum 1%float))] [] [].
Definition k_act : maction :=
  {| ma_name := "act"; ma_sig := [("?x", "a"); ("?y", "a"); ("?w", "a")]; ma_pre := k_pre;
     ma_disc := []; ma_num := []; ma_cond := []; ma_univ := [] |}.
Definition k_state : state :=
  {| facts := [];
     fluents := [(("k", ["o1"; "o2"; "o1"]), 5%float); (("k", ["o1"; "o1"; "o2"]), 0%float); (("k", ["o1"; "o2"; "o2"]), 0%float)] |}.
Definition k_phi : form := FAnd [FCmp CGe (NFl "k" ["?x"; "?y"; "?w"]) (NNum 1%float)].
Definition k_objs : objects := [("o1", "a"); ("o2", "a")].
Definition k_eps : float := 0x1.a36e2eb1c432dp-14%float.

Lemma keyed_refuted_lemma :
  denote_pre (ma_pre k_act) = Some k_phi /\
  (exists ga, ground_action k_dom k_act ["o1"; "o2"; "o1"] = Ok ga /\
              is_applicable k_dom k_eps (Some k_objs) ga (code_state k_state) = Ok false /\
              is_applicable k_dom k_eps (Some k_objs) ga k_state = Ok true) /\
  holds k_eps (d_types k_dom) k_objs (combine (dkeys (ma_sig k_act)) ["o1"; "o2"; "o1"]) k_state k_phi = true.
Proof.
  split; [reflexivity|]. split.
  - eexists. split; [reflexivity|]. split; vm_compute; reflexivity.
  - vm_compute. reflexivity.
Qed.
