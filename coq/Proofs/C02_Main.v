(* C02: Operator.is_applicable (model) = truth of the instantiated precondition (spec), for every domain, action,
   argument tuple, object table and state; exactly when it has no value; and the two places where the library's
   evaluation is NOT the spec's (both outside well-formed input / outside the precondition). *)
From Coq Require Import List Ascii String Bool Arith PrimFloat Lia.
From Verif Require Import Base.Result Base.Str Base.PyDict Model.Types Model.Domain Model.Exec Spec.Pddl Spec.Subst
  Proofs.C02_Sub Proofs.C20_Defs Proofs.C20_Subst Proofs.C02_Eval.
Import ListNotations.
Open Scope string_scope.
Open Scope list_scope.

Lemma ground_action_pre (d : mdomain) (a : maction) (args : list string) (ga : gaction) :
  ground_action d a args = Ok ga ->
  ground_pre d (call_map a args) (ma_pre a) = Ok (ga_pre ga).
Proof.
  unfold ground_action, call_map. intros H.
  apply bind_ok_inv in H. destruct H as [gp [Hgp H]].
  apply bind_ok_inv in H. destruct H as [g0 [Hg0 H]].
  apply bind_ok_inv in H. destruct H as [gs [Hgs H]]. injection H as <-. exact Hgp.
Qed.

(* the full statement: applicability of the grounded call is the truth value of the instantiated precondition,
   and there is no truth value exactly when some division has a zero denominator *)
Theorem C02_applicable_lemma (d : mdomain) (eps : float) (a : maction) (args : list string) (objs : objects)
        (s : state) (phi : form) (ga : gaction) :
  denote_pre (ma_pre a) = Some phi ->
  ground_action d a args = Ok ga ->
  no_shadow (d_consts d) (dkeys (call_map a args) ++ pre_bvars (ma_pre a)) = true ->
  pre_ok d true (dkeys (call_map a args)) (ma_pre a) = true ->
  is_applicable d eps (Some objs) ga s =
  if fdiv0 (d_types d) objs (combine (dkeys (ma_sig a)) args) s phi then Err EOther
  else Ok (holds eps (d_types d) objs (combine (dkeys (ma_sig a)) args) s phi).
Proof.
  intros Hd Hg Hns Hok. unfold is_applicable.
  exact (C02_eval_g_some d eps s objs (call_map a args) (ma_pre a) (ga_pre ga) phi (ground_action_pre _ _ _ _ Hg) Hd Hns Hok).
Qed.

(* the same through the spec's own notion of an action *)
Theorem C02_applicable_spec_lemma (d : mdomain) (eps : float) (a : maction) (A : action) (args : list string)
        (objs : objects) (s : state) (ga : gaction) :
  denote_pre (ma_pre a) = Some (a_pre A) -> map fst (a_params A) = dkeys (ma_sig a) ->
  ground_action d a args = Ok ga ->
  no_shadow (d_consts d) (dkeys (call_map a args) ++ pre_bvars (ma_pre a)) = true ->
  pre_ok d true (dkeys (call_map a args)) (ma_pre a) = true ->
  fdiv0 (d_types d) objs (bind_args A args) s (a_pre A) = false ->
  is_applicable d eps (Some objs) ga s = Ok (applicable eps (d_types d) objs A args s).
Proof.
  intros Hd Hp Hg Hns Hok Hz. unfold applicable, bind_args, name in *. rewrite Hp in *.
  rewrite (C02_applicable_lemma d eps a args objs s (a_pre A) ga Hd Hg Hns Hok), Hz. reflexivity.
Qed.

(* an empty precondition is true *)
Theorem C02_empty_lemma (d : mdomain) (eps : float) (a : maction) (args : list string) (oo : option objects)
        (s : state) (ga : gaction) :
  ma_pre a = empty_pre -> ground_action d a args = Ok ga -> is_applicable d eps oo ga s = Ok true.
Proof.
  intros He Hg. apply ground_action_pre in Hg. rewrite He in Hg. unfold empty_pre in Hg.
  rewrite ground_pre_eq in Hg. simpl in Hg. injection Hg as Hg. unfold is_applicable. rewrite <- Hg. reflexivity.
Qed.

(* when does the call have no value for another reason?  Only through names inside quantified bodies:
   everything else was already resolved by ground_action *)
Theorem C02_ground_needs_lemma (d : mdomain) (a : maction) (args : list string) :
  is_ok (ground_action d a args) = action_ok d (dkeys (call_map a args)) a.
Proof. apply ground_action_is_ok. Qed.

(* ---------- where the library's evaluation is not the spec's ---------- *)
(* (1) a 'when' antecedent is evaluated without the object table: a forall in it counts as true (finding D37).
       Witness: (forall (?q - object) (and (p ?q))) with one object and no facts. *)
Definition d37_dom : mdomain :=
  {| d_name := "d"; d_reqs := []; d_types := []; d_consts := []; d_preds := [("p", [("?a", "object")])];
     d_funcs := []; d_actions := [] |}.
Definition d37_pre : mpre := MPre "and" [MUniv "?q" "object" (MPre "and" [MLit true "p" ["?q"]] [] [])] [] [].
Definition d37_state : state := {| facts := []; fluents := [] |}.

Theorem C02_eval_none_refuted_lemma :
  exists (d : mdomain) (eps : float) (pm : pmap) (p : mpre) (g : gpre) (phi : form) (objs : objects) (s : state),
    ground_pre d pm p = Ok g /\ denote_pre p = Some phi /\
    no_shadow (d_consts d) (dkeys pm ++ pre_bvars p) = true /\ pre_ok d true (dkeys pm) p = true /\
    eval_g d eps None s g = Ok true /\ holds eps (d_types d) objs pm s phi = false.
Proof.
  exists d37_dom, 0x1p-10%float, [], d37_pre,
         (GPre "and" [GUniv "?q" "object" (MPre "and" [MLit true "p" ["?q"]] [] []) []] [] []),
         (FAnd [FForall "?q" "object" (FAnd [FAtom "p" ["?q"]])]), [("o1", "object")], d37_state.
  repeat split; vm_compute; reflexivity.
Qed.

(* (2) a domain constant named like a parameter: the library resolves the name among the constants first.
       Witness: constant "?x", action (?x) with precondition (p ?x), call (o1), state {(p o1)}. *)
Definition shadow_dom : mdomain :=
  {| d_name := "d"; d_reqs := []; d_types := []; d_consts := [("?x", "object")];
     d_preds := [("p", [("?a", "object")])]; d_funcs := []; d_actions := [] |}.
Definition shadow_act : maction :=
  {| ma_name := "act"; ma_sig := [("?x", "object")]; ma_pre := MPre "and" [MLit true "p" ["?x"]] [] [];
     ma_disc := []; ma_num := []; ma_cond := []; ma_univ := [] |}.

Theorem C02_shadow_refuted_lemma :
  exists (d : mdomain) (eps : float) (a : maction) (args : list string) (objs : objects) (s : state) (phi : form)
         (ga : gaction),
    denote_pre (ma_pre a) = Some phi /\ ground_action d a args = Ok ga /\
    pre_ok d true (dkeys (call_map a args)) (ma_pre a) = true /\
    is_applicable d eps (Some objs) ga s = Ok false /\
    holds eps (d_types d) objs (combine (dkeys (ma_sig a)) args) s phi = true.
Proof.
  exists shadow_dom, 0x1p-10%float, shadow_act, ["o1"], [("o1", "object")],
         {| facts := [("p", ["o1"])]; fluents := [] |}, (FAnd [FAtom "p" ["?x"]]).
  eexists. repeat split; vm_compute; reflexivity.
Qed.

(* ---------- the hypotheses are satisfiable by a non-trivial action ---------- *)
(* types b < a; constant c0 - b; p/1 q/1 r/2 z/0; f/1 h/0.
   (act ?x - a ?y - b):
     (and (p ?x) (not (= ?x ?y))
          (or (q ?y) (and (r ?x c0) (not (z))) (>= (f ?x) (+ (h) 1)))
          (forall (?v - a) (or (not (p ?v)) (r ?v ?y) (< (/ (f ?v) 2) 1)))) *)
Definition ex_dom : mdomain :=
  {| d_name := "d"; d_reqs := []; d_types := [("a", "object"); ("b", "a")]; d_consts := [("c0", "b")];
     d_preds := [("p", [("?a", "a")]); ("q", [("?a", "a")]); ("r", [("?a", "a"); ("?b", "a")]); ("z", [])];
     d_funcs := [("f", [("?a", "a")]); ("h", [])]; d_actions := [] |}.

Definition ex_pre : mpre :=
  MPre "and"
       [MLit true "p" ["?x"];
        MNested (MPre "or" [MLit true "q" ["?y"];
                            MNested (MPre "and" [MLit true "r" ["?x"; "c0"]; MLit false "z" []] [] []);
                            MNum (TNode ">=" (TFn "f" ["?x"]) (TNode "+" (TFn "h" []) (TNum 1)))] [] []);
        MUniv "?v" "a" (MPre "or" [MLit false "p" ["?v"]; MLit true "r" ["?v"; "?y"];
                                   MNum (TNode "<" (TNode "/" (TFn "f" ["?v"]) (TNum 2)) (TNum 1))] [] [])]
       [] [("?x", "?y")].

Definition ex_act : maction :=
  {| ma_name := "act"; ma_sig := [("?x", "a"); ("?y", "b")]; ma_pre := ex_pre;
     ma_disc := [{| l_pos := true; l_name := "z"; l_args := [] |}]; ma_num := []; ma_cond := []; ma_univ := [] |}.

Definition ex_phi : form :=
  FAnd [FNeq "?x" "?y";
        FAtom "p" ["?x"];
        FOr [FAtom "q" ["?y"]; FAnd [FAtom "r" ["?x"; "c0"]; FNotAtom "z" []];
             FCmp CGe (NFl "f" ["?x"]) (NBin OAdd (NFl "h" []) (NNum 1))];
        FForall "?v" "a" (FOr [FNotAtom "p" ["?v"]; FAtom "r" ["?v"; "?y"];
                               FCmp CLt (NBin ODiv (NFl "f" ["?v"]) (NNum 2)) (NNum 1)])].

Definition ex_objs : objects := [("o1", "a"); ("o2", "b"); ("o3", "object")].
Definition ex_state (fo1 : float) : state :=
  {| facts := [("p", ["o1"]); ("r", ["o1"; "c0"]); ("p", ["o2"]); ("r", ["o2"; "o2"])];
     fluents := [(("f", ["o1"]), fo1); (("f", ["o2"]), 5%float); (("h", []), 0%float)] |}.

Example C02_example_hypotheses :
  denote_pre (ma_pre ex_act) = Some ex_phi /\
  is_ok (ground_action ex_dom ex_act ["o1"; "o2"]) = true /\
  no_shadow (d_consts ex_dom) (dkeys (call_map ex_act ["o1"; "o2"]) ++ pre_bvars (ma_pre ex_act)) = true /\
  pre_ok ex_dom true (dkeys (call_map ex_act ["o1"; "o2"])) (ma_pre ex_act) = true.
Proof. repeat split; vm_compute; reflexivity. Qed.

(* both truth values occur, for the call (act o1 o2) and for a call with a repeated object and a constant *)
Example C02_example_true :
  holds 0x1p-10 (d_types ex_dom) ex_objs (combine (dkeys (ma_sig ex_act)) ["o1"; "o2"]) (ex_state 1) ex_phi = true /\
  (do ga <- ground_action ex_dom ex_act ["o1"; "o2"]; is_applicable ex_dom 0x1p-10 (Some ex_objs) ga (ex_state 1)) = Ok true.
Proof. split; vm_compute; reflexivity. Qed.

Example C02_example_false :
  holds 0x1p-10 (d_types ex_dom) ex_objs (combine (dkeys (ma_sig ex_act)) ["o1"; "o2"]) (ex_state 4) ex_phi = false /\
  (do ga <- ground_action ex_dom ex_act ["o1"; "o2"]; is_applicable ex_dom 0x1p-10 (Some ex_objs) ga (ex_state 4)) = Ok false.
Proof. split; vm_compute; reflexivity. Qed.

Example C02_example_repeated_constant :
  holds 0x1p-10 (d_types ex_dom) ex_objs (combine (dkeys (ma_sig ex_act)) ["c0"; "c0"]) (ex_state 1) ex_phi = false /\
  (do ga <- ground_action ex_dom ex_act ["c0"; "c0"]; is_applicable ex_dom 0x1p-10 (Some ex_objs) ga (ex_state 1)) = Ok false.
Proof. split; vm_compute; reflexivity. Qed.

(* a division by zero somewhere: no value, although the disjunct before it is already true *)
Definition ex_div_pre : mpre :=
  MPre "or" [MLit true "z" []; MNum (TNode "<" (TNode "/" (TNum 1) (TFn "h" [])) (TNum 1))] [] [].
Example C02_example_div0 :
  let a := {| ma_name := "a"; ma_sig := []; ma_pre := ex_div_pre; ma_disc := []; ma_num := []; ma_cond := []; ma_univ := [] |} in
  let s := {| facts := [("z", [])]; fluents := [(("h", []), 0%float)] |} in
  (do ga <- ground_action ex_dom a []; is_applicable ex_dom 0x1p-10 (Some ex_objs) ga s) = Err EOther /\
  (exists phi, denote_pre ex_div_pre = Some phi /\ fdiv0 (d_types ex_dom) ex_objs [] s phi = true).
Proof. split; [vm_compute; reflexivity|]. eexists. split; vm_compute; reflexivity. Qed.
