(* C06: SEVERAL quantified effects in one action.  Each universal effect ranges over the objects selected by ITS OWN
   quantified type - the variable name plays no part in the selection (two effects may bind the same name to different
   types).  Consequence of C06_Sites.forall_effect_range_lemma, plus a computed example. *)
From Coq Require Import List String Bool Arith PrimFloat.
From Verif Require Import Base.Result Base.Str Base.Sexp Base.PyDict Model.Types Model.Domain Model.Exec
  Model.TypeSites Spec.Pddl Proofs.C06_Sites.
Import ListNotations.
Open Scope string_scope.
Open Scope list_scope.

(* which universal effects are applied for an object depends on the effects' TYPES only: renaming the bound variables
   (here: any two lists of effects with the same types, position by position) selects the same positions *)
Lemma effects_selected_by_type_lemma (dom : mdomain) (o : string * string) : forall (us us' : list muniveff),
  map ue_ty us = map ue_ty us' ->
  map (fun ue => in_range dom (ue_ty ue) o) us = map (fun ue => in_range dom (ue_ty ue) o) us'.
Proof.
  induction us as [|u us IH]; intros [|u' us'] H; try discriminate; [reflexivity|].
  cbn [map] in *. injection H as Hty Hrest. rewrite Hty. f_equal. apply IH, Hrest.
Qed.

(* types a, b (unrelated), c - a; constants ka - a, kb - b; objects oa - a, ob - b, oc - c;
   action with (forall (?x - a) (when (m1 ?x) (hit1 ?x))) and (forall (?x - b) (when (m2 ?x) (hit2 ?x))):
   the SAME variable name bound to two types *)
Definition q_lit (p v : string) : mlit := {| l_pos := true; l_name := p; l_args := [v] |}.
Definition q_effect (v ty m hit : string) : muniveff :=
  {| ue_var := v; ue_ty := ty;
     ue_ce := {| ce_ante := MPre "and" [MLit true m [v]] [] []; ce_disc := [q_lit hit v]; ce_num := [] |} |}.
Definition q_action : maction :=
  {| ma_name := "sweep"; ma_sig := []; ma_pre := MPre "and" [] [] []; ma_disc := []; ma_num := []; ma_cond := [];
     ma_univ := [q_effect "?x" "a" "m1" "hit1"; q_effect "?x" "b" "m2" "hit2"] |}.
Definition q_dom : mdomain :=
  {| d_name := "q"; d_reqs := []; d_types := [("a", "object"); ("b", "object"); ("c", "a")];
     d_consts := [("ka", "a"); ("kb", "b")];
     d_preds := [("m1", [("?o", "object")]); ("m2", [("?o", "object")]); ("hit1", [("?o", "object")]); ("hit2", [("?o", "object")])];
     d_funcs := []; d_actions := [("sweep", q_action)] |}.
Definition q_objs : objects := [("oa", "a"); ("ob", "b"); ("oc", "c")].
Definition q_all : list string := ["ka"; "kb"; "oa"; "ob"; "oc"].
Definition q_state : state :=
  {| facts := map (fun e => ("m1", [e])) q_all ++ map (fun e => ("m2", [e])) q_all; fluents := [] |}.

Definition q_hits (hit : string) (st : state) : list string :=
  filter (fun e => atom_in (hit, [e]) (facts st)) q_all.

(* in either visiting order of the two effects: hit1 exactly on the a's (ka, oa, oc), hit2 exactly on the b's (kb, ob) *)
Lemma two_quantifiers_example_lemma :
  forall uorder, uorder = [0; 1] \/ uorder = [1; 0] ->
  exists ga st, ground_action q_dom q_action [] = Ok ga /\
    apply_op q_dom 0%float ga (Some (pipeline_objects q_dom q_objs)) false false [0] uorder q_state = Ok st /\
    q_hits "hit1" st = ["ka"; "oa"; "oc"] /\ q_hits "hit2" st = ["kb"; "ob"].
Proof.
  intros uorder [-> | ->].
  - eexists. eexists. split; [vm_compute; reflexivity|]. split; [vm_compute; reflexivity|]. split; vm_compute; reflexivity.
  - eexists. eexists. split; [vm_compute; reflexivity|]. split; [vm_compute; reflexivity|]. split; vm_compute; reflexivity.
Qed.
