(* C08: the whole exported domain read back (DomainExporter.extract_domain / DomainParser.parse_domain). *)
From Coq Require Import List Ascii String Bool Arith Lia Permutation PrimFloat.
From Verif Require Import Base.Result Base.Str Base.Sexp Base.PyDict Base.Float
  Model.Types Model.NumExpr Model.Domain Model.DomainExporter
  Proofs.C08_Defs Proofs.C08_Trees Proofs.C08_Pre Proofs.C08_Eff Proofs.C08_Tables.
Import ListNotations.
Open Scope string_scope.
Open Scope list_scope.

(* ---------- (:predicates ...) ---------- *)
(* a declaration whose name is not ':private' is read as a declaration *)
Lemma parse_predicates_cons tt n toks rest acc :
  String.eqb n ":private" = false ->
  parse_predicates tt (SList (Atom n :: toks) :: rest) acc =
  (do ns <- parse_predicate tt (SList (Atom n :: toks));
   parse_predicates tt rest (dset acc (fst ns) (snd ns))).
Proof.
  intros Hn. cbn [parse_predicates].
  repeat (match goal with
          | |- context [match ?s with EmptyString => _ | String _ _ => _ end] =>
              is_var s; destruct s as [|[[] [] [] [] [] [] [] []] ?]; try reflexivity
          end).
  discriminate Hn.
Qed.

Section Sections.
  Variable num : numparser.
  Variable tt' : typetable.                 (* the table read back from the exported (:types ...) *)
  Variable tyk : string -> bool.            (* "is a declared type" of the original table *)
  Hypothesis Htyk : forall t, type_known tt' t = tyk t.

  Lemma predicates_roundtrip (ps : pydict signature) : forall acc,
    negb (has_dup (dkeys ps)) = true ->
    forallb (fun ns => negb (str_in (fst ns) reserved_names) && wf_sig tyk (snd ns)) ps = true ->
    (forall k, In k (dkeys ps) -> ~ In k (dkeys acc)) ->
    parse_predicates tt' (map (fun ns => export_decl (fst ns) (snd ns)) ps) acc = Ok (acc ++ ps).
  Proof.
    induction ps as [|[n sg] r IH]; intros acc Hdup Hall Hf.
    - cbn. rewrite app_nil_r. reflexivity.
    - cbn [map fst snd]. unfold export_decl at 1.
      cbn [forallb fst snd] in Hall. apply andb_true_iff in Hall. destruct Hall as [Hn Hall].
      apply andb_true_iff in Hn. destruct Hn as [Hres Hsig]. apply negb_true_iff in Hres.
      assert (Hpriv : String.eqb n ":private" = false).
      { cbn [str_in reserved_names] in Hres. repeat (apply orb_false_iff in Hres; destruct Hres as [? Hres]). assumption. }
      rewrite parse_predicates_cons by exact Hpriv.
      unfold parse_predicate. rewrite (parse_signature_roundtrip tt' tyk Htyk sg Hsig). cbn [bind fst snd].
      rewrite dset_fresh' by (apply Hf; left; reflexivity).
      cbn [dkeys map fst has_dup] in Hdup. apply negb_true_iff in Hdup. apply orb_false_iff in Hdup.
      destruct Hdup as [Hnr Hdup].
      rewrite IH.
      + rewrite <- app_assoc. reflexivity.
      + apply negb_true_iff. exact Hdup.
      + exact Hall.
      + intros k Hk. rewrite dkeys_app'. intros Hin. apply in_app_or in Hin. destruct Hin as [Hin|[Heq|[]]].
        * apply (Hf k); [right; exact Hk|exact Hin].
        * cbn [fst] in Heq. subst k. apply str_in_In in Hk. unfold dkeys in Hk. congruence.
  Qed.

  Lemma mod3_tokens sg : Nat.eqb (Nat.modulo (List.length (sig_tokens sg)) 3) 0 = true.
  Proof. rewrite sig_tokens_length, Nat.mul_comm, Nat.mod_mul by lia. reflexivity. Qed.

  Lemma functions_roundtrip (fs : pydict signature) : forall acc,
    negb (has_dup (dkeys fs)) = true ->
    forallb (fun ns => wf_sig tyk (snd ns)) fs = true ->
    (forall k, In k (dkeys fs) -> ~ In k (dkeys acc)) ->
    foldM (fun acc f => do ns <- parse_function tt' f; Ok (dset acc (fst ns) (snd ns)))
          (map (fun ns => export_decl (fst ns) (snd ns)) fs) acc = Ok (acc ++ fs).
  Proof.
    induction fs as [|[n sg] r IH]; intros acc Hdup Hall Hf.
    - cbn. rewrite app_nil_r. reflexivity.
    - cbn [map fst snd foldM]. unfold export_decl at 1.
      cbn [forallb fst snd] in Hall. apply andb_true_iff in Hall. destruct Hall as [Hsig Hall].
      unfold parse_function. rewrite mod3_tokens. cbn [negb].
      rewrite (parse_signature_roundtrip tt' tyk Htyk sg Hsig). cbn [bind fst snd].
      rewrite dset_fresh' by (apply Hf; left; reflexivity).
      cbn [dkeys map fst has_dup] in Hdup. apply negb_true_iff in Hdup. apply orb_false_iff in Hdup.
      destruct Hdup as [Hnr Hdup].
      rewrite IH.
      + rewrite <- app_assoc. reflexivity.
      + apply negb_true_iff. exact Hdup.
      + exact Hall.
      + intros k Hk. rewrite dkeys_app'. intros Hin. apply in_app_or in Hin. destruct Hin as [Hin|[Heq|[]]].
        * apply (Hf k); [right; exact Hk|exact Hin].
        * cbn [fst] in Heq. subst k. apply str_in_In in Hk. unfold dkeys in Hk. congruence.
  Qed.
End Sections.

(* ---------- the actions, one section each ---------- *)
Section Actions.
  Variable num : numparser.
  Variable dpre deff : nat.

  Definition with_actions (d : mdomain) (acts : pydict maction) : mdomain :=
    {| d_name := d_name d; d_reqs := d_reqs d; d_types := d_types d; d_consts := d_consts d;
       d_preds := d_preds d; d_funcs := d_funcs d; d_actions := acts |}.

  Lemma actions_roundtrip (tyk ck : string -> bool) (acts : pydict maction) : forall (d : mdomain),
    (forall t, type_known (d_types d) t = tyk t) -> (forall a, dmem (d_consts d) a = ck a) ->
    (forall k, str_in k reserved_names = true -> dmem (d_preds d) k = false) ->
    negb (has_dup (dkeys acts)) = true ->
    forallb (fun na => String.eqb (fst na) (ma_name (snd na)) &&
                       wf_action num tyk ck (d_preds d) (d_funcs d) dpre deff (snd na)) acts = true ->
    (forall k, In k (dkeys acts) -> ~ In k (dkeys (d_actions d))) ->
    foldM (parse_domain_section num) (map (fun na => export_action dpre deff (snd na)) acts) d =
    Ok (with_actions d (d_actions d ++ map (fun na => (fst na, rr_action num dpre deff (snd na))) acts)).
  Proof.
    induction acts as [|[k a] r IH]; intros d Htyk Hck Hres Hdup Hall Hf.
    - cbn. rewrite app_nil_r. destruct d; reflexivity.
    - cbn [map fst snd foldM].
      cbn [forallb fst snd] in Hall. apply andb_true_iff in Hall. destruct Hall as [Hka Hall].
      apply andb_true_iff in Hka. destruct Hka as [Hk Hwa]. apply String.eqb_eq in Hk.
      pose proof (action_roundtrip num (d_types d) (d_consts d) (d_preds d) (d_funcs d) dpre deff tyk ck
                    Htyk Hck Hres a Hwa) as Hact.
      unfold export_action in Hact |- *. unfold parse_domain_section.
      cbn [String.eqb Ascii.eqb Bool.eqb andb]. rewrite Hact. cbn [bind].
      change (ma_name (rr_action num dpre deff a)) with (ma_name a). rewrite <- Hk.
      rewrite dset_fresh' by (apply Hf; left; reflexivity).
      cbn [dkeys map fst has_dup] in Hdup. apply negb_true_iff in Hdup. apply orb_false_iff in Hdup.
      destruct Hdup as [Hnr Hdup].
      rewrite IH; cbn [d_types d_consts d_preds d_funcs d_actions].
      + unfold with_actions. cbn [d_name d_reqs d_types d_consts d_preds d_funcs d_actions].
        rewrite <- app_assoc. reflexivity.
      + exact Htyk.
      + exact Hck.
      + exact Hres.
      + apply negb_true_iff. exact Hdup.
      + exact Hall.
      + intros k' Hk'. rewrite dkeys_app'. intros Hin. apply in_app_or in Hin. destruct Hin as [Hin|[Heq|[]]].
        * apply (Hf k'); [right; exact Hk'|exact Hin].
        * cbn [fst] in Heq. subst k'. apply str_in_In in Hk'. unfold dkeys in Hk'. congruence.
  Qed.
End Actions.

(* ---------- the whole domain ---------- *)
Lemma reserved_not_declared tt ps :
  wf_preds tt ps = true -> forall k, str_in k reserved_names = true -> dmem ps k = false.
Proof.
  unfold wf_preds. intros H k Hk. apply andb_true_iff in H. destruct H as [_ Hall].
  unfold dmem. destruct (dget ps k) as [sg|] eqn:E; [|reflexivity]. exfalso.
  assert (Hin : In k (dkeys ps)).
  { clear -E. induction ps as [|[k' v] r IH]; simpl in *; [discriminate|].
    destruct (String.eqb k k') eqn:Ek; [apply String.eqb_eq in Ek; left; congruence|right; apply IH; exact E]. }
  unfold dkeys in Hin. apply in_map_iff in Hin. destruct Hin as ([k' sg'] & Hk' & Hin). cbn [fst] in Hk'. subst k'.
  pose proof (forallb_In _ _ _ Hall Hin) as Hx. cbn [fst snd] in Hx. apply andb_true_iff in Hx. destruct Hx as [Hx _].
  apply negb_true_iff in Hx. congruence.
Qed.

Lemma wf_sig_ext (f g : string -> bool) sg : (forall t, f t = g t) -> wf_sig f sg = wf_sig g sg.
Proof. intros H. unfold wf_sig. f_equal. apply forallb_ext8. intros [p t]. rewrite H. reflexivity. Qed.

Theorem domain_roundtrip_gen (num : numparser) (tyk ck : string -> bool) (dpre deff : nat) (m : mdomain) :
  (forall t, type_known (d_types m) t = tyk t) -> (forall a, dmem (d_consts m) a = ck a) ->
  wf_mdomain_gen num tyk ck dpre deff m = true ->
  parse_domain num (export_domain dpre deff m) = Ok (rr_domain num dpre deff m).
Proof.
  unfold wf_mdomain_gen. intros Hlt Hlc H.
  apply andb_true_iff in H. destruct H as [H Hacts]. apply andb_true_iff in H. destruct H as [H Hadup].
  apply andb_true_iff in H. destruct H as [H Hfuncs]. apply andb_true_iff in H. destruct H as [H Hpreds].
  apply andb_true_iff in H. destruct H as [Htypes Hconsts].
  destruct m as [name reqs tt cs ps fs acts].
  cbn [d_name d_reqs d_types d_consts d_preds d_funcs d_actions] in *.
  assert (Httnd : NoDup (dkeys tt)).
  { unfold wf_types in Htypes. apply andb_true_iff in Htypes. destruct Htypes as [Ht _].
    apply andb_true_iff in Ht. destruct Ht as [Ht _]. apply negb_true_iff in Ht. apply has_dup_false_nodup. exact Ht. }
  assert (Hcsnd : NoDup (dkeys cs)).
  { unfold wf_consts in Hconsts. apply andb_true_iff in Hconsts. destruct Hconsts as [Ht _].
    apply negb_true_iff in Ht. apply has_dup_false_nodup. exact Ht. }
  pose proof (fun t => type_known_regroup tt t Httnd) as Htyk.
  assert (Htyk' : forall t, type_known (regroup tt) t = tyk t) by (intros t; rewrite Htyk; apply Hlt).
  assert (Hck : forall a, dmem (regroup cs) a = ck a) by (intros a; rewrite (regroup_dmem cs a Hcsnd); apply Hlc).
  pose proof (reserved_not_declared tt ps Hpreds) as Hres.
  unfold wf_preds in Hpreds. apply andb_true_iff in Hpreds. destruct Hpreds as [Hpdup Hpall].
  unfold wf_funcs in Hfuncs. apply andb_true_iff in Hfuncs. destruct Hfuncs as [Hfdup Hfall].
  unfold export_domain, parse_domain.
  cbn [d_name d_reqs d_types d_consts d_preds d_funcs d_actions app foldM].
  (* (domain name) *)
  unfold parse_domain_section at 1. cbn [String.eqb Ascii.eqb Bool.eqb andb bind empty_domain
    d_name d_reqs d_types d_consts d_preds d_funcs d_actions].
  (* (:requirements ...) *)
  unfold parse_domain_section at 1. cbn [String.eqb Ascii.eqb Bool.eqb andb].
  rewrite atoms_of_map_atom. cbn [bind d_name d_reqs d_types d_consts d_preds d_funcs d_actions].
  (* (:types ...) *)
  unfold parse_domain_section at 1. cbn [String.eqb Ascii.eqb Bool.eqb andb].
  rewrite (types_roundtrip tt Htypes). cbn [bind d_name d_reqs d_types d_consts d_preds d_funcs d_actions].
  (* (:predicates ...) *)
  unfold parse_domain_section at 1. cbn [String.eqb Ascii.eqb Bool.eqb andb].
  cbn [d_name d_reqs d_types d_consts d_preds d_funcs d_actions].
  rewrite (predicates_roundtrip (regroup tt) (type_known tt) Htyk ps [] Hpdup Hpall (fun _ _ H => H)).
  cbn [bind app d_name d_reqs d_types d_consts d_preds d_funcs d_actions].
  (* (:constants ...) when there are constants *)
  set (d3 := {| d_name := name; d_reqs := reqs; d_types := regroup tt; d_consts := regroup cs;
                d_preds := ps; d_funcs := []; d_actions := [] |}).
  assert (Hc : foldM (parse_domain_section num)
                 ((if nonempty_dict cs then [SList (Atom ":constants" :: group_tokens (group_by_value cs))] else []) ++
                  (if nonempty_dict fs then [SList (Atom ":functions" :: map (fun ns => export_decl (fst ns) (snd ns)) fs)] else []) ++
                  map (fun na => export_action dpre deff (snd na)) acts)
                 {| d_name := name; d_reqs := reqs; d_types := regroup tt; d_consts := [];
                    d_preds := ps; d_funcs := []; d_actions := [] |} =
               foldM (parse_domain_section num)
                 ((if nonempty_dict fs then [SList (Atom ":functions" :: map (fun ns => export_decl (fst ns) (snd ns)) fs)] else []) ++
                  map (fun na => export_action dpre deff (snd na)) acts) d3).
  { destruct (nonempty_dict cs) eqn:Ene.
    2:{ destruct cs; [reflexivity|discriminate]. }
    - cbn [app foldM]. unfold parse_domain_section at 1. cbn [String.eqb Ascii.eqb Bool.eqb andb].
      cbn [d_name d_reqs d_types d_consts d_preds d_funcs d_actions].
      rewrite (constants_roundtrip (regroup tt) tt cs Htyk Hconsts). cbn [bind]. reflexivity. }
  rewrite Hc. clear Hc.
  set (d4 := {| d_name := name; d_reqs := reqs; d_types := regroup tt; d_consts := regroup cs;
                d_preds := ps; d_funcs := fs; d_actions := [] |}).
  assert (Hf : foldM (parse_domain_section num)
                 ((if nonempty_dict fs then [SList (Atom ":functions" :: map (fun ns => export_decl (fst ns) (snd ns)) fs)] else []) ++
                  map (fun na => export_action dpre deff (snd na)) acts) d3 =
               foldM (parse_domain_section num) (map (fun na => export_action dpre deff (snd na)) acts) d4).
  { destruct (nonempty_dict fs) eqn:Ene.
    2:{ destruct fs; [reflexivity|discriminate]. }
    - cbn [app foldM]. unfold parse_domain_section at 1. cbn [String.eqb Ascii.eqb Bool.eqb andb].
      unfold d3. cbn [d_name d_reqs d_types d_consts d_preds d_funcs d_actions].
      rewrite (functions_roundtrip (regroup tt) (type_known tt) Htyk fs [] Hfdup Hfall (fun _ _ H => H)).
      cbn [bind app]. reflexivity. }
  rewrite Hf. clear Hf.
  rewrite (actions_roundtrip num dpre deff tyk ck acts d4 Htyk' Hck Hres Hadup Hacts (fun _ _ H => H)).
  reflexivity.
Qed.

Theorem domain_roundtrip (num : numparser) (dpre deff : nat) (m : mdomain) :
  wf_mdomain num dpre deff m = true ->
  parse_domain num (export_domain dpre deff m) = Ok (rr_domain num dpre deff m).
Proof. intros H. apply (domain_roundtrip_gen num _ _ dpre deff m (fun _ => eq_refl) (fun _ => eq_refl) H). Qed.
