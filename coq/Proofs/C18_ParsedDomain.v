(* C18, part 8: the side condition for the actions of a PARSED DOMAIN.
   Proofs.C18_Parser shows that parse_action returns a well-formed action when the function table it is given has
   distinct parameter names per declaration and no function named like a comparison / assignment operator.  Here the
   same is shown for every action registered in the domain returned by parse_domain: the function tables the parser
   builds on its way have these two properties as soon as no (:functions ...) section of the text declares a function
   whose NAME is an operator (a condition on the text, [funcs_heads_ok]); nothing about tables is assumed any more. *)
From Coq Require Import List String Bool PrimFloat.
From Verif Require Import Base.Result Base.Str Base.Sexp Base.PyDict Model.Tokenizer Model.Types Model.Domain Model.Exec Model.ChangeSignature
  Spec.Pddl Spec.Rename Proofs.C18_Dict Proofs.C18_Denote Proofs.C18_Check Proofs.C18_Parser Proofs.C18_Main.
Import ListNotations.
Open Scope string_scope.
Open Scope list_scope.

(* the head of every declaration inside every (:functions ...) section is not an operator name *)
Definition decl_head_ok (f : sexp) : Prop :=
  match f with SList (Atom n :: _) => ~ In n operator_names | _ => True end.
Definition funcs_heads_ok (e : sexp) : Prop :=
  match e with
  | SList (_ :: sections) =>
      forall body, In (SList (Atom ":functions" :: body)) sections -> forall f, In f body -> decl_head_ok f
  | _ => True
  end.

Lemma foldM_inv_in {A S} (P : S -> Prop) (f : S -> A -> result S) (l : list A) :
  (forall s x s', In x l -> P s -> f s x = Ok s' -> P s') -> forall s s', P s -> foldM f l s = Ok s' -> P s'.
Proof.
  induction l as [|x r IH]; simpl; intros Hf s s' Hs H.
  - inversion H; subst. exact Hs.
  - apply bind_ok_inv in H. destruct H as [s1 [H1 H]].
    apply (IH (fun s0 y s0' Hy => Hf s0 y s0' (or_intror Hy)) s1 s'); [|exact H].
    apply (Hf s x s1 (or_introl eq_refl) Hs H1).
Qed.

(* the table read from one (:functions ...) section *)
Lemma parsed_funcs_wf tt (body : list sexp) (fs : pydict signature) :
  (forall f, In f body -> decl_head_ok f) ->
  foldM (fun acc f => do ns <- parse_function tt f; Ok (dset acc (fst ns) (snd ns))) body [] = Ok fs ->
  wf_funcs fs.
Proof.
  intros Hheads H. split; [exact (parsed_funcs_NoDup tt body fs H)|].
  revert H.
  apply (foldM_inv_in (fun d : pydict signature => forall op, In op operator_names -> dget d op = None)
                      (fun acc f => do ns <- parse_function tt f; Ok (dset acc (fst ns) (snd ns))) body).
  - intros d x d' Hx Hd Hstep op Hop. apply bind_ok_inv in Hstep. destruct Hstep as [[n sg] [Hp Hstep]].
    inversion Hstep; subst d'. simpl.
    unfold parse_function in Hp. destruct x as [?|[|[nm|?] params]]; try discriminate.
    destruct (negb (Nat.eqb (Nat.modulo (List.length params) 3) 0)); try discriminate.
    apply bind_ok_inv in Hp. destruct Hp as [sg' [_ Hp]]. inversion Hp; subst.
    pose proof (Hheads _ Hx) as Hh. simpl in Hh.
    rewrite dget_dset_other; [apply Hd; exact Hop|]. intros E. subst op. contradiction.
  - intros op _. reflexivity.
Qed.

Definition actions_wf (d : mdomain) : Prop :=
  wf_funcs (d_funcs d) /\ (forall n a, dget (d_actions d) n = Some a -> well_formed a = true).

Lemma empty_domain_wf : actions_wf empty_domain.
Proof. split; [split; [intros f sg H; discriminate|intros; reflexivity]|intros n a H; discriminate]. Qed.

Lemma section_keeps_wf (num : numparser) (Hnum : num_ok num) (sections : list sexp)
      (Hh : forall body, In (SList (Atom ":functions" :: body)) sections -> forall f, In f body -> decl_head_ok f)
      (d : mdomain) (x : sexp) (d' : mdomain) :
  In x sections -> actions_wf d -> parse_domain_section num d x = Ok d' -> actions_wf d'.
Proof.
  intros Hx [Hf Ha] H. unfold parse_domain_section in H.
  destruct x as [s|[|[h|l0] body]].
  - inversion H; subst. split; assumption.
  - discriminate.
  - destruct (String.eqb h "domain") eqn:E1.
    { destruct body as [|[n|?] ?]; try discriminate. inversion H; subst. split; assumption. }
    destruct (String.eqb h ":requirements") eqn:E2.
    { apply bind_ok_inv in H. destruct H as [rs [_ H]]. inversion H; subst. split; assumption. }
    destruct (String.eqb h ":types") eqn:E3.
    { apply bind_ok_inv in H. destruct H as [tyt [_ H]]. inversion H; subst. split; assumption. }
    destruct (String.eqb h ":constants") eqn:E4.
    { apply bind_ok_inv in H. destruct H as [cs [_ H]]. inversion H; subst. split; assumption. }
    destruct (String.eqb h ":predicates") eqn:E5.
    { apply bind_ok_inv in H. destruct H as [ps [_ H]]. inversion H; subst. split; assumption. }
    destruct (String.eqb h ":functions") eqn:E6.
    { apply bind_ok_inv in H. destruct H as [fs [Hfs H]]. inversion H; subst. split; [|exact Ha]. simpl.
      apply String.eqb_eq in E6. subst h.
      apply (parsed_funcs_wf (d_types d) body fs (Hh body Hx) Hfs). }
    destruct (String.eqb h ":action") eqn:E7.
    { apply bind_ok_inv in H. destruct H as [a [Hpa H]]. inversion H; subst. split; [exact Hf|]. simpl.
      intros n a0 Hget. destruct (string_dec n (ma_name a)) as [->|Hne].
      - rewrite dget_dset_same in Hget. inversion Hget; subst a0.
        apply (parse_action_well_formed num (d_types d) (d_consts d) (d_preds d) (d_funcs d) Hf Hnum body a Hpa).
      - rewrite dget_dset_other in Hget by exact Hne. apply (Ha n a0 Hget). }
    inversion H; subst. split; assumption.
  - inversion H; subst. split; assumption.
Qed.

(* every action registered in a parsed domain is well formed *)
Theorem parsed_domain_well_formed (num : numparser) (e : sexp) (dom : mdomain) :
  num_ok num -> funcs_heads_ok e -> parse_domain num e = Ok dom ->
  forall n a, dget (d_actions dom) n = Some a -> well_formed a = true.
Proof.
  intros Hnum Hh H. unfold parse_domain in H.
  destruct e as [s|[|[s|l0] sections]]; try discriminate.
  destruct (string_dec s "define") as [->|Hne].
  - simpl in Hh.
    assert (Hwf : actions_wf dom).
    { apply (foldM_inv_in actions_wf (parse_domain_section num) sections
                          (fun d x d' Hx Hd Hs => section_keeps_wf num Hnum sections Hh d x d' Hx Hd Hs)
                          empty_domain dom empty_domain_wf H). }
    exact (proj2 Hwf).
  - exfalso. revert H. clear - Hne.
    destruct s as [|c0 s0]; [discriminate|].
    repeat (match goal with
            | |- context [match ?s with EmptyString => _ | String _ _ => _ end] => destruct s; try discriminate
            | |- context [match ?c with Ascii.Ascii _ _ _ _ _ _ _ _ => _ end] =>
                destruct c as [[] [] [] [] [] [] [] []]; try discriminate
            end).
    intros _. apply Hne. reflexivity.
Qed.

(* hence, for the actions of a parsed domain, C18_rename applies under a condition on the mapping alone *)
Theorem rename_parsed_domain (num : numparser) (e : sexp) (dom : mdomain) (name : string) (a : maction) (m : renaming) :
  num_ok num -> funcs_heads_ok e -> parse_domain num e = Ok dom -> dget (d_actions dom) name = Some a ->
  let ps := dkeys (ma_sig a) in
  (forall n, ~ In n ps -> rn m n = n) ->
  (forall x y, In x ps -> In y ps -> rn m x = rn m y -> x = y) ->
  (forall p, In p ps -> rn m p <> p ->
     (In (rn m p) ps \/ ~ In (rn m p) (names_action a)) /\
     ~ In (rn m p) (bound_maction a) /\ dmem (d_consts dom) (rn m p) = false /\ dmem (d_consts dom) p = false) ->
  ma_sig (change_signature m a) = map (rn_item m) (ma_sig a) /\
  denote_action (change_signature m a) = option_map (ren_action (rn m)) (denote_action a) /\
  same_behaviour dom a (change_signature m a).
Proof.
  intros Hnum Hh Hp Hget ps H1 H2 H3.
  pose proof (parsed_domain_well_formed num e dom Hnum Hh Hp name a Hget) as Hwf.
  pose proof (renaming_ok_intro dom a m Hwf H1 H2 H3) as Hok.
  destruct (rename_correct dom m a Hok) as [A [_ [_ [C D]]]]. exact (conj A (conj C D)).
Qed.

(* ---------- the condition on the text is decidable ---------- *)
Definition decl_head_okb (f : sexp) : bool :=
  match f with SList (Atom n :: _) => negb (str_in n operator_names) | _ => true end.
Definition funcs_heads_okb (e : sexp) : bool :=
  match e with
  | SList (_ :: sections) =>
      forallb (fun s => match s with
                        | SList (Atom h :: body) => negb (String.eqb h ":functions") || forallb decl_head_okb body
                        | _ => true
                        end) sections
  | _ => true
  end.

Lemma funcs_heads_okb_sound (e : sexp) : funcs_heads_okb e = true -> funcs_heads_ok e.
Proof.
  destruct e as [s|[|x sections]]; simpl; try exact (fun _ => I).
  intros H body Hin f Hf. rewrite forallb_forall in H. specialize (H _ Hin). simpl in H.
  rewrite forallb_forall in H. specialize (H f Hf).
  unfold decl_head_ok, decl_head_okb in *.
  destruct f as [s|[|[n|l0] r]]; try exact I.
  apply negb_true_iff in H. intros Hn. apply (proj2 (str_in_In n operator_names)) in Hn. rewrite Hn in H. discriminate.
Qed.

(* ---------- the hypotheses are satisfiable: a domain text read by the model's tokenizer and parser ---------- *)
Definition exd_num : numparser := fun _ => None.           (* the text below has no numeral *)
Definition exd_text : string :=
 "(define (domain d) (:requirements :typing) (:types t0 - object) (:constants c0 - t0)
   (:predicates (p ?a - t0 ?b - t0) (q ?a - t0)) (:functions (f ?a - t0))
   (:action act :parameters (?x - t0 ?y - t0)
     :precondition (and (p ?x ?y) (p ?y ?x) (forall (?u - t0) (or (p ?u ?x) (q ?u))) (not (= ?x ?y)) (>= (f ?x) (f ?y)))
     :effect (and (q ?x) (increase (f ?y) (f ?x)) (when (and (q ?y)) (and (not (q ?y))))
                  (forall (?w - t0) (when (and (p ?w ?y)) (and (q ?w)))))))".
Definition exd_sexp : sexp :=
  Eval vm_compute in (match Tokenizer.parse Tokenizer.MFile (s2t exd_text) with Ok e => e | Err _ => Atom "" end).
Definition exd_dom : mdomain :=
  Eval vm_compute in (match parse_domain exd_num exd_sexp with Ok d => d | Err _ => empty_domain end).
Definition exd_act : maction :=
  Eval vm_compute in (match dget (d_actions exd_dom) "act" with Some a => a
                      | None => {| ma_name := ""; ma_sig := []; ma_pre := MPre "and" [] [] []; ma_disc := []; ma_num := [];
                                   ma_cond := []; ma_univ := [] |} end).

Lemma exd_num_ok : num_ok exd_num.
Proof. intros s x H. discriminate. Qed.

Example exd_parsed :
  Tokenizer.parse Tokenizer.MFile (s2t exd_text) = Ok exd_sexp /\
  parse_domain exd_num exd_sexp = Ok exd_dom /\ dget (d_actions exd_dom) "act" = Some exd_act /\
  num_ok exd_num /\ funcs_heads_ok exd_sexp /\
  List.length (ma_cond exd_act) = 1 /\ List.length (ma_univ exd_act) = 1.
Proof.
  split; [vm_compute; reflexivity|]. split; [vm_compute; reflexivity|]. split; [vm_compute; reflexivity|].
  split; [exact exd_num_ok|]. split; [apply funcs_heads_okb_sound; vm_compute; reflexivity|].
  split; reflexivity.
Qed.

(* the swap ?x <-> ?y of that parsed action (it has the mirrored literals (p ?x ?y), (p ?y ?x)) satisfies the conditions on
   the mapping, so the renamed action behaves as the original *)
Example exd_swap_behaviour :
  same_behaviour exd_dom exd_act (change_signature [("?x", "?y"); ("?y", "?x")] exd_act).
Proof.
  destruct exd_parsed as [_ [Hp [Hg [Hn [Hh _]]]]].
  refine (proj2 (proj2 (rename_parsed_domain exd_num exd_sexp exd_dom "act" exd_act [("?x", "?y"); ("?y", "?x")]
                                             Hn Hh Hp Hg _ _ _))).
  - intros n Hn'. unfold rn. simpl.
    destruct (String.eqb n "?x") eqn:E1; [apply String.eqb_eq in E1; subst; exfalso; apply Hn'; vm_compute; auto|].
    destruct (String.eqb n "?y") eqn:E2; [apply String.eqb_eq in E2; subst; exfalso; apply Hn'; vm_compute; auto|].
    reflexivity.
  - intros x y Hx Hy. vm_compute in Hx, Hy.
    destruct Hx as [<-|[<-|[]]], Hy as [<-|[<-|[]]]; vm_compute; intros E; try reflexivity; discriminate.
  - intros p Hp' Hne. vm_compute in Hp'. destruct Hp' as [<-|[<-|[]]].
    + split; [left; vm_compute; auto|]. split; [vm_compute; intuition discriminate|]. split; reflexivity.
    + split; [left; vm_compute; auto|]. split; [vm_compute; intuition discriminate|]. split; reflexivity.
Qed.
