(* C18, part 13: the hypotheses of Proofs.C18_AlphaCorrect.change_signature_a_correct in computable form, and a worked
   example in which the new names are a quantified variable AND the first fresh name the library would pick for it.
     - nodup_action follows from the boolean well_formed of Proofs.C18_Check (what the parser guarantees:
       C18_parsed_domain_well_formed);
     - alpha_okb A m decides "m moves parameters only and is injective on the parameters and the free names of A". *)
From Coq Require Import List String Bool Arith PrimFloat.
From Verif Require Import Base.Result Base.Str Base.PyDict Model.Types Model.Domain Model.Exec Model.ChangeSignature
  Model.ChangeSignatureAlpha Spec.Pddl Spec.Rename
  Proofs.C18_Dict Proofs.C18_Alpha Proofs.C18_Denote Proofs.C18_Check Proofs.C18_AlphaSem Proofs.C18_AlphaCorrect.
Import ListNotations.
Open Scope string_scope.
Open Scope list_scope.

(* ---------- well_formed gives nodup_action ---------- *)
Section WF.
  Variable N B : list string.

  Lemma argsb_nodup args : argsb N args = true -> NoDup args.
  Proof. unfold argsb. intros H. apply andb_true_iff in H. apply nodupb_NoDup. exact (proj2 H). Qed.

  Lemma treeb_nodup t : treeb N t = true -> nodup_tree t.
  Proof.
    induction t as [x|f args|op l IHl r IHr]; simpl; intros H.
    - exact I.
    - apply argsb_nodup. exact H.
    - apply andb_true_iff in H. destruct H as [Hl Hr]. split; [apply IHl; exact Hl|apply IHr; exact Hr].
  Qed.

  Lemma numexpb_nodup t : numexpb N t = true -> nodup_tree t.
  Proof. destruct t as [x|f args|op l r]; simpl; intros H; try discriminate. apply (treeb_nodup (TNode op l r)). exact H. Qed.

  Lemma preb_nodup : forall p, preb N B p = true -> nodup_pre p.
  Proof.
    apply (mpre_ind' (fun p => preb N B p = true -> nodup_pre p) (fun c => condb N B c = true -> nodup_cond c)).
    - intros op os eqs neqs IH H. apply nodup_pre_unfold. simpl in H. apply andb_true_iff in H. destruct H as [_ H].
      induction os as [|c r IHr]; [constructor|]. inversion IH; subst.
      apply andb_true_iff in H. destruct H as [Hc Hr]. constructor; [auto|apply IHr; assumption].
    - intros pos p args H. simpl in *. apply argsb_nodup. exact H.
    - intros t H. simpl in *. apply numexpb_nodup. exact H.
    - intros q IH H. simpl in *. apply IH. exact H.
    - intros v ty b IH H. simpl in *. apply andb_true_iff in H. apply IH. exact (proj2 H).
  Qed.

  Lemma condeffb_nodup ce : condeffb N B ce = true -> nodup_condeff ce.
  Proof.
    unfold condeffb. intros H. apply andb_true_iff in H. destruct H as [H H3]. apply andb_true_iff in H. destruct H as [H1 H2].
    split; [apply preb_nodup; exact H1|split].
    - apply Forall_forall. intros l Hl. rewrite forallb_forall in H2. apply argsb_nodup. apply H2. exact Hl.
    - apply Forall_forall. intros t Ht. rewrite forallb_forall in H3. apply numexpb_nodup. apply H3. exact Ht.
  Qed.

  Lemma actionb_nodup a : actionb N B a = true -> nodup_action a.
  Proof.
    unfold actionb. rewrite !andb_true_iff. intros [[[[[[H1 _] H3] H4] H5] H6] H7].
    split; [apply nodupb_NoDup; exact H1|]. split; [apply preb_nodup; exact H3|]. split; [|split; [|split]].
    - apply Forall_forall. intros l Hl. rewrite forallb_forall in H4. apply argsb_nodup. apply H4. exact Hl.
    - apply Forall_forall. intros t Ht. rewrite forallb_forall in H5. apply numexpb_nodup. apply H5. exact Ht.
    - apply Forall_forall. intros ce Hce. rewrite forallb_forall in H6. apply condeffb_nodup. apply H6. exact Hce.
    - apply Forall_forall. intros ue Hue. rewrite forallb_forall in H7. specialize (H7 ue Hue).
      apply andb_true_iff in H7. apply condeffb_nodup. exact (proj2 H7).
  Qed.
End WF.

Theorem well_formed_nodup (a : maction) : well_formed a = true -> nodup_action a.
Proof. apply actionb_nodup. Qed.

(* ---------- the side condition on the mapping, decided ---------- *)
Definition inj_onb (rho : ren) (l : list name) : bool :=
  forallb (fun x => forallb (fun y => negb (String.eqb (rho x) (rho y)) || String.eqb x y) l) l.

Lemma inj_onb_sound rho l : inj_onb rho l = true -> inj_on rho l.
Proof.
  unfold inj_onb. rewrite forallb_forall. intros H x y Hx Hy E. specialize (H x Hx). rewrite forallb_forall in H.
  specialize (H y Hy). rewrite E, String.eqb_refl in H. simpl in H. apply String.eqb_eq. exact H.
Qed.

Definition moves_onlyb (ps : list name) (m : renaming) : bool :=
  forallb (fun kv => str_in (fst kv) ps || String.eqb (fst kv) (snd kv)) m.

Lemma moves_onlyb_sound ps m : moves_onlyb ps m = true -> forall n, ~ In n ps -> rn m n = n.
Proof.
  unfold moves_onlyb. rewrite forallb_forall. intros H n Hn. unfold rn.
  destruct (dget m n) as [x|] eqn:E; [|reflexivity].
  assert (Hin : In (n, x) m).
  { clear H Hn. induction m as [|[k z] r IH]; simpl in E; [discriminate|].
    destruct (String.eqb n k) eqn:Ek; [apply String.eqb_eq in Ek; inversion E; subst; left; reflexivity|right; apply IH; exact E]. }
  specialize (H (n, x) Hin). simpl in H. apply orb_true_iff in H. destruct H as [H|H].
  - apply str_in_In in H. contradiction.
  - apply String.eqb_eq in H. symmetry. exact H.
Qed.

Definition alpha_okb (A : action) (m : renaming) : bool :=
  moves_onlyb (params A) m && inj_onb (rn m) (params A ++ free_action A).

Theorem change_signature_a_correct_b (m : renaming) (a a' : maction) (A : action) :
  well_formed a = true -> denote_action a = Some A -> alpha_okb A m = true ->
  change_signature_a m a = Ok a' ->
  exists A', denote_action a' = Some A' /\
    a_name A' = a_name A /\
    a_params A' = map (fun pt => (rn m (fst pt), snd pt)) (a_params A) /\
    forall eps tt objs args s, List.length args = List.length (a_params A) ->
      applicable eps tt objs A' args s = applicable eps tt objs A args s /\
      successor eps tt objs A' args s = successor eps tt objs A args s.
Proof.
  intros Hwf HA Hok H. unfold alpha_okb in Hok. apply andb_true_iff in Hok. destruct Hok as [H1 H2].
  apply (change_signature_a_correct m a a' A); [apply well_formed_nodup; exact Hwf|exact HA| | |exact H].
  - apply moves_onlyb_sound. exact H1.
  - apply inj_onb_sound. exact H2.
Qed.

(* ================================================================================================== *)
(* Worked example: the new names are a quantified variable and the fresh name the library would pick    *)
(* ================================================================================================== *)
(* (:action act :parameters (?a ?b ?x_1 - t0)
     :precondition (and (forall (?x - t0) (or (p ?x ?a) (q ?b) (forall (?x_2 - t0) (and (p ?x_2 ?x) (q ?x_1))))) (q ?a))
     :effect (and (not (q ?a)) (forall (?x - t0) (when (and (q ?b) (p ?x ?x_1)) (and (p ?x ?b)))))) *)
Definition al_act : maction :=
  {| ma_name := "act";
     ma_sig := [("?a", "t0"); ("?b", "t0"); ("?x_1", "t0")];
     ma_pre := MPre "and"
       [MUniv "?x" "t0" (MPre "or" [MLit true "p" ["?x"; "?a"]; MLit true "q" ["?b"];
                                    MUniv "?x_2" "t0" (MPre "and" [MLit true "p" ["?x_2"; "?x"]; MLit true "q" ["?x_1"]] [] [])] [] []);
        MLit true "q" ["?a"]] [] [];
     ma_disc := [{| l_pos := false; l_name := "q"; l_args := ["?a"] |}];
     ma_num := [];
     ma_cond := [];
     ma_univ := [{| ue_var := "?x"; ue_ty := "t0";
                    ue_ce := {| ce_ante := MPre "and" [MLit true "q" ["?b"]; MLit true "p" ["?x"; "?x_1"]] [] [];
                                ce_disc := [{| l_pos := true; l_name := "p"; l_args := ["?x"; "?b"] |}]; ce_num := [] |} |}] |}.

(* ?a takes the name of the quantified variable, ?b the first fresh name ?x_0, and ?x_1 (the second one) moves to ?x_2,
   the variable of the inner quantifier *)
Definition al_map : renaming := [("?a", "?x"); ("?b", "?x_0"); ("?x_1", "?x_2")].

Definition al_A : action :=
  match denote_action al_act with Some A => A | None => {| a_name := ""; a_params := []; a_pre := FAnd []; a_effs := [] |} end.

Example al_hypotheses :
  well_formed al_act = true /\ denote_action al_act = Some al_A /\ alpha_okb al_A al_map = true.
Proof. repeat split; vm_compute; reflexivity. Qed.

(* the outer quantifier cannot take ?x_0 (a new name), ?x_1 (a key), ?x_2 (in its text): it moves to ?x_3; the inner one
   moves to ?x_2_0; the quantifier of the effect moves to ?x_3 as well (?x_2 is a value of the mapping) *)
Example al_result :
  change_signature_a al_map al_act =
  Ok {| ma_name := "act";
        ma_sig := [("?x", "t0"); ("?x_0", "t0"); ("?x_2", "t0")];
        ma_pre := MPre "and"
          [MUniv "?x_3" "t0" (MPre "or" [MLit true "p" ["?x_3"; "?x"]; MLit true "q" ["?x_0"];
                                         MUniv "?x_2_0" "t0" (MPre "and" [MLit true "p" ["?x_2_0"; "?x_3"]; MLit true "q" ["?x_2"]] [] [])] [] []);
           MLit true "q" ["?x"]] [] [];
        ma_disc := [{| l_pos := false; l_name := "q"; l_args := ["?x"] |}];
        ma_num := [];
        ma_cond := [];
        ma_univ := [{| ue_var := "?x_3"; ue_ty := "t0";
                       ue_ce := {| ce_ante := MPre "and" [MLit true "q" ["?x_0"]; MLit true "p" ["?x_3"; "?x_2"]] [] [];
                                   ce_disc := [{| l_pos := true; l_name := "p"; l_args := ["?x_3"; "?x_0"] |}]; ce_num := [] |} |}] |}.
Proof. vm_compute. reflexivity. Qed.

(* the mapping is outside the side condition of C18_rename (it lands on quantified variables) *)
Example al_outside_renaming_ok (dom : mdomain) : renaming_ok dom al_act al_map = false.
Proof. unfold renaming_ok. apply andb_false_iff. right. vm_compute. reflexivity. Qed.

(* what goes wrong when the fresh name is not kept apart from the VALUES of the mapping: ?x_0 for the quantifier, which
   then captures the renamed ?b (computed on the spec: the two actions differ in a state with (q o1) only) *)
Example al_values_matter :
  let A := {| a_name := "a"; a_params := [("?a", "t"); ("?b", "t")];
              a_pre := FForall "?x" "t" (FOr [FAtom "p" ["?x"]; FAtom "q" ["?b"]]); a_effs := [] |} in
  let captured := {| a_name := "a"; a_params := [("?x", "t"); ("?x_0", "t")];
                     a_pre := FForall "?x_0" "t" (FOr [FAtom "p" ["?x_0"]; FAtom "q" ["?x_0"]]); a_effs := [] |} in
  let s := {| facts := [("q", ["o1"])]; fluents := [] |} in
  applicable 0%float [] [("o1", "t"); ("o2", "t")] A ["o1"; "o1"] s = true /\
  applicable 0%float [] [("o1", "t"); ("o2", "t")] captured ["o1"; "o1"] s = false.
Proof. split; vm_compute; reflexivity. Qed.

Example al_example :
  well_formed al_act = true /\ denote_action al_act = Some al_A /\ alpha_okb al_A al_map = true /\
  (forall dom, renaming_ok dom al_act al_map = false) /\
  exists a', change_signature_a al_map al_act = Ok a' /\
    ma_sig a' = [("?x", "t0"); ("?x_0", "t0"); ("?x_2", "t0")] /\
    In (MUniv "?x_3" "t0" (MPre "or" [MLit true "p" ["?x_3"; "?x"]; MLit true "q" ["?x_0"];
                                      MUniv "?x_2_0" "t0" (MPre "and" [MLit true "p" ["?x_2_0"; "?x_3"]; MLit true "q" ["?x_2"]] [] [])] [] []))
       (match ma_pre a' with MPre _ os _ _ => os end).
Proof.
  destruct al_hypotheses as [H1 [H2 H3]].
  split; [exact H1|]. split; [exact H2|]. split; [exact H3|]. split; [exact al_outside_renaming_ok|].
  eexists. split; [exact al_result|]. split; [reflexivity|left; reflexivity].
Qed.
