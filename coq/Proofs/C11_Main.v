(* C11: the two halves combined. *)
From Coq Require Import List Ascii String Bool Arith Lia.
From Verif Require Import Base.Result Base.Str Base.Sexp Model.Tokenizer Spec.Layout
  Proofs.C11_Reader Proofs.C11_Tokenizer.
Import ListNotations.
Open Scope list_scope.

Lemma map_snd_combine {A B} (a : list A) (b : list B) :
  List.length a = List.length b -> map snd (combine a b) = b.
Proof.
  revert b. induction a as [|x a IH]; intros [|y b] H; simpl in *; try discriminate; [reflexivity|].
  f_equal. apply IH. lia.
Qed.

Lemma C11_sound_lemma m t seps trailer :
  atoms_ok t ->
  List.length seps = List.length (flatten t) ->
  valid_from m false (combine seps (map s2t (flatten t))) ->
  is_trailer m trailer ->
  parse m (render (combine seps (map s2t (flatten t))) trailer) = Ok (lower_sexp t).
Proof.
  intros Hat Hlen Hv Htr. unfold parse. rewrite tokenize_render by assumption.
  apply parse_tokens_iff. exists []. rewrite app_nil_r. split; [|apply atoms_ok_wf_lower; exact Hat].
  rewrite flatten_lower.
  unfold tokstr. rewrite <- (map_map snd (fun t => t2s (lower_text t))).
  rewrite map_snd_combine by (rewrite map_length; exact Hlen).
  rewrite map_map. reflexivity.
Qed.

Lemma C11_sound_strict_lemma m t seps trailer :
  atoms_ok t ->
  List.length seps = List.length (flatten t) ->
  valid_from m false (combine seps (map s2t (flatten t))) ->
  is_trailer m trailer ->
  parse_strict m (render (combine seps (map s2t (flatten t))) trailer) = Ok (lower_sexp t).
Proof.
  intros Hat Hlen Hv Htr. unfold parse_strict. rewrite tokenize_render by assumption.
  apply parse_tokens_strict_iff. split; [|apply atoms_ok_wf_lower; exact Hat].
  rewrite flatten_lower.
  unfold tokstr. rewrite <- (map_map snd (fun t => t2s (lower_text t))).
  rewrite map_snd_combine by (rewrite map_length; exact Hlen).
  rewrite map_map. reflexivity.
Qed.

(* what the code's reader guarantees: the result is a PREFIX of the token stream *)
Lemma C11_complete_partial_lemma m s t :
  parse m s = Ok t -> tokenize m s = flatten t ++ unread_tokens (tokenize m s) /\ wf t = true.
Proof.
  unfold parse. intros H. split; [apply unread_tokens_spec; exact H|].
  apply parse_tokens_iff in H as (rest & _ & Hw). exact Hw.
Qed.

(* the full statement of the property for the strict reader (the spec) *)
Lemma C11_complete_strict_lemma m s t :
  parse_strict m s = Ok t <-> (tokenize m s = flatten t /\ wf t = true).
Proof. unfold parse_strict. apply parse_tokens_strict_iff. Qed.

(* the code's reader equals the strict one unless tokens are left unread: the finding class of D02 *)
Lemma C11_agree_unless_trailing_lemma m s :
  parse m s = parse_strict m s \/
  (exists t, parse m s = Ok t /\ unread_tokens (tokenize m s) <> [] /\ parse_strict m s = Err ESyntax).
Proof. unfold parse, parse_strict. apply parse_tokens_vs_strict. Qed.

(* text that is not even a form followed by something is an error (unbalanced "(", stray ")", empty) *)
Lemma C11_reject_lemma m s :
  (forall t rest, wf t = true -> tokenize m s <> flatten t ++ rest) ->
  exists k, parse m s = Err k /\ k <> EFuel.
Proof.
  intros H. unfold parse. destruct (parse_tokens (tokenize m s)) as [t|k] eqn:E.
  - apply parse_tokens_iff in E as (rest & E1 & E2). exfalso. exact (H t rest E2 E1).
  - exists k. split; [reflexivity|]. intros ->. exact (parse_tokens_no_fuel _ E).
Qed.

(* the full completeness statement is FALSE of the code: trailing tokens are silently dropped (D02) *)
Lemma C11_complete_refuted_lemma :
  exists s t, parse MStr (s2t s) = Ok t /\ tokenize MStr (s2t s) <> flatten t.
Proof. exists "(a b))"%string, (SList [Atom "a"; Atom "b"]). split; [reflexivity|]. vm_compute. discriminate. Qed.

(* non-vacuity: a concrete layout with a comment, a tab, CRLF and mixed case *)
Example C11_layout_example :
  let t := SList [Atom "Define"; SList [Atom "domain"; Atom "D1"]] in
  let seps := [ s2t " ; header" ++ [LF]; []; [TAB; SP]; [CR; LF]; [SP]; []; s2t ";c" ++ [LF] ] in
  atoms_ok t /\ List.length seps = List.length (flatten t) /\
  valid_from MFile false (combine seps (map s2t (flatten t))) /\ is_trailer MFile (s2t " ;end").
Proof.
  assert (Hf : forall l, forallb (fun c => negb (ends_comment MFile c)) l = true ->
               Forall (fun c => ends_comment MFile c = false) l).
  { intros l H. apply Forall_forall. intros c Hc. rewrite forallb_forall in H.
    apply negb_true_iff. auto. }
  assert (Ha : forall l, forallb atom_char l = true -> Forall (fun c => atom_char c = true) l).
  { intros l H. apply Forall_forall. rewrite forallb_forall in H. exact H. }
  cbv zeta. split; [|split; [reflexivity|split]].
  - simpl. repeat split; try discriminate; apply Ha; reflexivity.
  - unfold valid_from; simpl combine.
    repeat split; try discriminate; try (intros; discriminate);
      try (left; reflexivity); try (right; left; reflexivity);
      try (right; right; split; [discriminate | apply Ha; reflexivity]);
      try apply sep_nil.
    + apply sep_ws; [reflexivity|].
      apply (sep_comment MFile (s2t " header") LF []); [apply Hf; reflexivity|reflexivity|apply sep_nil].
    + apply sep_ws; [reflexivity|]. apply sep_ws; [reflexivity|]. apply sep_nil.
    + apply sep_ws; [reflexivity|]. apply sep_ws; [reflexivity|]. apply sep_nil.
    + apply sep_ws; [reflexivity|]. apply sep_nil.
    + apply (sep_comment MFile (s2t "c") LF []); [apply Hf; reflexivity|reflexivity|apply sep_nil].
  - apply (tr_open MFile (s2t " ") (s2t "end")).
    + apply sep_ws; [reflexivity|apply sep_nil].
    + apply Hf; reflexivity.
Qed.
