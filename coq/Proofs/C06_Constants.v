(* C06, the objects a quantifier ranges over (D30, repaired in /repo): Operator.quantification_objects holds the
   domain's constants and the problem's objects, so quantified conditions and effects range over constants too. *)
From Coq Require Import List String Bool Arith PrimFloat.
From Verif Require Import Base.Result Base.Str Base.Sexp Base.PyDict Model.Types Model.Domain Model.Exec
  Model.TypeSites Spec.Pddl.
Import ListNotations.
Open Scope string_scope.
Open Scope list_scope.

(* ---------- dict facts: a lookup in {**d, **kvs} ---------- *)
Lemma dget_app_c06 {V} (a b : pydict V) k :
  dget (a ++ b) k = match dget a k with Some v => Some v | None => dget b k end.
Proof.
  induction a as [|[k' v'] r IH]; simpl; [reflexivity|].
  destruct (String.eqb k k'); [reflexivity|exact IH].
Qed.

Lemma dget_dupdate_c06 {V} (kvs : list (string * V)) : forall (d : pydict V) k,
  dget (dupdate d kvs) k = match dget (rev kvs) k with Some v => Some v | None => dget d k end.
Proof.
  unfold dupdate. induction kvs as [|[k' v'] r IH]; intros d k; simpl; [reflexivity|].
  rewrite IH, dget_app_c06. destruct (dget (rev r) k) as [v|]; [reflexivity|]. simpl.
  destruct (String.eqb k k') eqn:E.
  - apply String.eqb_eq in E. subst k'. apply dget_dset_same.
  - apply dget_dset_other. intro H. subst k'. rewrite String.eqb_refl in E. discriminate.
Qed.

Lemma dget_rev_none_c06 {V} (kvs : list (string * V)) k : dget kvs k = None -> dget (rev kvs) k = None.
Proof.
  induction kvs as [|[k' v'] r IH]; simpl; [reflexivity|].
  destruct (String.eqb k k') eqn:E; [discriminate|]. intros H. rewrite dget_app_c06, (IH H). simpl. rewrite E. reflexivity.
Qed.

Lemma dget_rev_nodup_c06 {V} (kvs : list (string * V)) k v :
  NoDup (map fst kvs) -> dget kvs k = Some v -> dget (rev kvs) k = Some v.
Proof.
  induction kvs as [|[k' v'] r IH]; simpl; [discriminate|]. intros Hnd H. inversion Hnd as [|x l Hnin Hnd']; subst.
  rewrite dget_app_c06. destruct (String.eqb k k') eqn:E.
  - apply String.eqb_eq in E. subst k'. inversion H; subst v'.
    assert (Hn : dget r k = None).
    { clear -Hnin. induction r as [|[k2 v2] r IH]; simpl; [reflexivity|].
      destruct (String.eqb k k2) eqn:E2; [apply String.eqb_eq in E2; subst k2; exfalso; apply Hnin; left; reflexivity|].
      apply IH. intro Hin. apply Hnin. right. exact Hin. }
    rewrite (dget_rev_none_c06 _ _ Hn). simpl. rewrite String.eqb_refl. reflexivity.
  - rewrite (IH Hnd' H). reflexivity.
Qed.

(* exact content of the table: an object of the problem (the last entry of that name), else the constant *)
Lemma pipeline_objects_exact_lemma (dom : mdomain) (objs : pydict string) n :
  dget (pipeline_objects dom objs) n =
  match dget (rev objs) n with Some t => Some t | None => dget (d_consts dom) n end.
Proof. unfold pipeline_objects. apply dget_dupdate_c06. Qed.

(* every problem object is in the table, with its type *)
Lemma pipeline_objects_partial_lemma (dom : mdomain) (objs : pydict string) o t :
  NoDup (map fst objs) -> dget objs o = Some t -> dget (pipeline_objects dom objs) o = Some t.
Proof. intros Hnd H. rewrite pipeline_objects_exact_lemma, (dget_rev_nodup_c06 _ _ _ Hnd H). reflexivity. Qed.

(* every constant that no object shadows is in the table, with its type *)
Lemma pipeline_objects_constants_lemma (dom : mdomain) (objs : pydict string) k t :
  dget objs k = None -> dget (d_consts dom) k = Some t -> dget (pipeline_objects dom objs) k = Some t.
Proof. intros Hn H. rewrite pipeline_objects_exact_lemma, (dget_rev_none_c06 _ _ Hn). exact H. Qed.

(* nothing else is in the table *)
Lemma pipeline_objects_only_lemma (dom : mdomain) (objs : pydict string) n t :
  dget (pipeline_objects dom objs) n = Some t -> (exists t', dget objs n = Some t') \/ dget (d_consts dom) n = Some t.
Proof.
  rewrite pipeline_objects_exact_lemma. destruct (dget (rev objs) n) as [t'|] eqn:E; intros H.
  - left. destruct (dget objs n) as [t2|] eqn:E2; [exists t2; reflexivity|].
    rewrite (dget_rev_none_c06 _ _ E2) in E. discriminate.
  - right. exact H.
Qed.

(* witness: (:types t) (:constants k - t) (:predicates (m ?x)), objects o - t, state {(m o)}:
   (forall (?v - t) (and (m ?v))) is FALSE in PDDL (m k is missing); the table of the pinned code (objects only)
   made the evaluation say true, the table of the repaired code makes it say false *)
Definition w_dom : mdomain :=
  {| d_name := "d"; d_reqs := []; d_types := [("t", "object")]; d_consts := [("k", "t")];
     d_preds := [("m", [("?x", "object")])]; d_funcs := []; d_actions := [] |}.
Definition w_objs : objects := [("o", "t")].
Definition w_state : state := {| facts := [("m", ["o"])]; fluents := [] |}.
Definition w_cond : mcond := MUniv "?v" "t" (MPre "and" [MLit true "m" ["?v"]] [] []).
Definition w_form : form := FForall "?v" "t" (FAnd [FAtom "m" ["?v"]]).

Lemma constants_before_D30_refuted_lemma :
  exists (dom : mdomain) (objs : objects) (s : state) (c : mcond) (f : form),
    denote_cond c = Some f /\
    (exists k kt, dget (d_consts dom) k = Some kt /\ is_sub_type (d_types dom) kt "t" = true) /\
    eval_lifted_cond dom 0%float (Some (pipeline_objects_before_D30 dom objs)) s [] c = Ok true /\
    holds 0%float (d_types dom) (d_consts dom ++ objs) [] s f = false.
Proof.
  exists w_dom, w_objs, w_state, w_cond, w_form.
  split; [reflexivity|]. split; [exists "k", "t"; split; reflexivity|]. split; vm_compute; reflexivity.
Qed.

Lemma constants_example_lemma :
  denote_cond w_cond = Some w_form /\
  eval_lifted_cond w_dom 0%float (Some (pipeline_objects w_dom w_objs)) w_state [] w_cond = Ok false /\
  holds 0%float (d_types w_dom) (pipeline_objects w_dom w_objs) [] w_state w_form = false /\
  eval_lifted_cond w_dom 0%float (Some (pipeline_objects w_dom w_objs))
     {| facts := [("m", ["o"]); ("m", ["k"])]; fluents := [] |} [] w_cond = Ok true.
Proof. repeat split; vm_compute; reflexivity. Qed.
