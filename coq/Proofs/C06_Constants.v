(* C06, finding D30: the object table the library's pipeline gives to an Operator holds the problem's objects
   only, so quantifiers never range over the domain's constants. *)
From Coq Require Import List String Bool Arith PrimFloat.
From Verif Require Import Base.Result Base.Str Base.Sexp Base.PyDict Model.Types Model.Domain Model.Exec
  Model.TypeSites Spec.Pddl.
Import ListNotations.
Open Scope string_scope.
Open Scope list_scope.

(* every problem object is in the table, with its type (the fragment on which the statement holds) *)
Lemma pipeline_objects_partial_lemma (dom : mdomain) (objs : pydict string) o t :
  dget objs o = Some t -> dget (pipeline_objects dom objs) o = Some t.
Proof. intros H. exact H. Qed.

(* witness: (:types t) (:constants k - t) (:predicates (m ?x)), objects o - t, state {(m o)}:
   (forall (?v - t) (and (m ?v))) is FALSE in PDDL (m k is missing) but the pipeline's evaluation says true *)
Definition w_dom : mdomain :=
  {| d_name := "d"; d_reqs := []; d_types := [("t", "object")]; d_consts := [("k", "t")];
     d_preds := [("m", [("?x", "object")])]; d_funcs := []; d_actions := [] |}.
Definition w_objs : objects := [("o", "t")].
Definition w_state : state := {| facts := [("m", ["o"])]; fluents := [] |}.
Definition w_cond : mcond := MUniv "?v" "t" (MPre "and" [MLit true "m" ["?v"]] [] []).
Definition w_form : form := FForall "?v" "t" (FAnd [FAtom "m" ["?v"]]).

Lemma constants_refuted_lemma :
  exists (dom : mdomain) (objs : objects) (s : state) (c : mcond) (f : form),
    denote_cond c = Some f /\
    (exists k kt, dget (d_consts dom) k = Some kt /\ is_sub_type (d_types dom) kt "t" = true) /\
    eval_lifted_cond dom 0%float (Some (pipeline_objects dom objs)) s [] c = Ok true /\
    holds 0%float (d_types dom) (d_consts dom ++ objs) [] s f = false.
Proof.
  exists w_dom, w_objs, w_state, w_cond, w_form.
  split; [reflexivity|]. split; [exists "k", "t"; split; reflexivity|]. split; vm_compute; reflexivity.
Qed.
