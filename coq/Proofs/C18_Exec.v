(* C18, part 4: the executable model itself.  Grounding the renamed action with the same arguments gives a grounded
   action that is applicable in the same states and yields the same successors (Model.Exec: ground_action,
   is_applicable, apply_op), and grounding fails for the one exactly when it fails for the other, with the same
   error.  No detour through the spec: this is about the functions the correspondence check runs. *)
From Coq Require Import List String Bool Arith PrimFloat.
From Verif Require Import Base.Result Base.Str Base.PyDict Model.Types Model.Domain Model.Exec Model.ChangeSignature
  Spec.Pddl Proofs.C18_Dict Proofs.C18_Denote.
Import ListNotations.
Open Scope string_scope.
Open Scope list_scope.

Section Exec.
  Variable dom : mdomain.
  Variable N : list string.          (* every name in sight: the parameters and every name the action mentions *)
  Variable B : list string.          (* the action's quantified variables *)

  Definition is_const (n : string) : bool := dmem (d_consts dom) n.

  (* the mapping, as seen at some depth of the action *)
  Definition good (m : renaming) : Prop :=
    (forall x y, In x N -> In y N -> rn m x = rn m y -> x = y) /\
    (forall n, In n N -> rn m n <> n -> ~ In (rn m n) B /\ is_const (rn m n) = false /\ is_const n = false).

  (* the two parameter maps, as seen at the same depth *)
  Definition compat (m : renaming) (pm pm' : pmap) : Prop :=
    forall n, In n N -> dget pm' (rn m n) = dget pm n.

  Lemma rn_drop_same m v : rn (drop m v) v = v.
  Proof. rewrite rn_drop, String.eqb_refl. reflexivity. Qed.
  Lemma rn_drop_other m v n : n <> v -> rn (drop m v) n = rn m n.
  Proof.
    intros H. rewrite rn_drop. destruct (String.eqb n v) eqn:E; [|reflexivity].
    apply String.eqb_eq in E. contradiction.
  Qed.

  Lemma good_under m v : good m -> In v B -> good (drop m v).
  Proof.
    intros [Hinj Hmv] Hv. split.
    - intros x y Hx Hy Heq.
      destruct (string_dec x v) as [Ex|Ex]; destruct (string_dec y v) as [Ey|Ey].
      + congruence.
      + subst x. rewrite rn_drop_same, (rn_drop_other m v y Ey) in Heq.
        destruct (string_dec (rn m y) y) as [E|E]; [congruence|].
        destruct (Hmv y Hy E) as [Hb _]. rewrite <- Heq in Hb. contradiction.
      + subst y. rewrite rn_drop_same, (rn_drop_other m v x Ex) in Heq.
        destruct (string_dec (rn m x) x) as [E|E]; [congruence|].
        destruct (Hmv x Hx E) as [Hb _]. rewrite Heq in Hb. contradiction.
      + rewrite (rn_drop_other m v x Ex), (rn_drop_other m v y Ey) in Heq. apply Hinj; assumption.
    - intros n Hn Hne.
      destruct (string_dec n v) as [E|E].
      + subst n. rewrite rn_drop_same in Hne. congruence.
      + rewrite (rn_drop_other m v n E) in *. apply Hmv; assumption.
  Qed.

  Lemma dget_dset_eq {V} (d : pydict V) k v : dget (dset d k v) k = Some v.
  Proof. apply dget_dset_same. Qed.

  Lemma compat_under m pm pm' v o :
    good m -> In v B -> compat m pm pm' -> compat (drop m v) (dset pm v o) (dset pm' v o).
  Proof.
    intros [Hinj Hmv] Hv Hc n Hn.
    destruct (string_dec n v) as [E|E].
    - subst n. rewrite rn_drop_same, !dget_dset_same. reflexivity.
    - rewrite (rn_drop_other m v n E).
      assert (Hne : rn m n <> v).
      { intros Heq. destruct (string_dec (rn m n) n) as [E2|E2]; [congruence|].
        destruct (Hmv n Hn E2) as [Hb _]. rewrite Heq in Hb. contradiction. }
      rewrite (dget_dset_other pm' v (rn m n) o Hne), (dget_dset_other pm v n o E). apply Hc. exact Hn.
  Qed.

  (* ---------- names ---------- *)
  Lemma ground_name_ren m pm pm' n :
    good m -> compat m pm pm' -> In n N -> ground_name dom pm' (rn m n) = ground_name dom pm n.
  Proof.
    intros [_ Hmv] Hc Hn. unfold ground_name.
    destruct (string_dec (rn m n) n) as [E|E].
    - rewrite <- (Hc n Hn). rewrite E. reflexivity.
    - destruct (Hmv n Hn E) as [_ [H1 H2]]. unfold is_const in *. rewrite H1, H2, (Hc n Hn). reflexivity.
  Qed.

  Lemma mapM_ext_in {A C} (f g : A -> result C) (l : list A) :
    (forall x, In x l -> f x = g x) -> mapM f l = mapM g l.
  Proof.
    induction l as [|a r IH]; simpl; intros H; [reflexivity|].
    rewrite (H a) by (left; reflexivity). rewrite IH; [reflexivity|]. intros x Hx. apply H. right. exact Hx.
  Qed.

  Lemma mapM_map {A A' C} (f : A' -> result C) (h : A -> A') (l : list A) :
    mapM f (map h l) = mapM (fun x => f (h x)) l.
  Proof. induction l as [|a r IH]; simpl; [reflexivity|]. rewrite IH. reflexivity. Qed.

  Definition args_ok (m : renaming) (args : list string) : Prop := incl args N /\ NoDup (map (rn m) args).

  Lemma ground_args_ren m pm pm' args :
    good m -> compat m pm pm' -> args_ok m args ->
    mapM (ground_name dom pm') (rename_args m args) = mapM (ground_name dom pm) args.
  Proof.
    intros Hg Hc [Hin Hnd]. rewrite rename_args_map by exact Hnd. rewrite mapM_map.
    apply mapM_ext_in. intros n Hn. apply ground_name_ren; auto.
  Qed.

  Lemma ground_lit_ren m pm pm' p args :
    good m -> compat m pm pm' -> args_ok m args ->
    ground_lit dom pm' p (rename_args m args) = ground_lit dom pm p args.
  Proof.
    intros Hg Hc Hok. unfold ground_lit. destruct (dget (d_preds dom) p) as [sg|]; [|reflexivity].
    rewrite (rename_args_length m args (proj2 Hok)).
    rewrite (ground_args_ren m pm pm' args Hg Hc Hok). reflexivity.
  Qed.

  Fixpoint tree_ok (m : renaming) (t : mtree) : Prop :=
    match t with
    | TNum _ => True
    | TFn _ args => args_ok m args
    | TNode _ l r => tree_ok m l /\ tree_ok m r
    end.
  Definition is_node (t : mtree) : Prop := match t with TNode _ _ _ => True | _ => False end.
  Definition numexp_ok (m : renaming) (t : mtree) : Prop := is_node t /\ tree_ok m t.

  Lemma ground_tree_ren m pm pm' t :
    good m -> compat m pm pm' -> tree_ok m t ->
    ground_tree dom pm' (rename_tree m t) = ground_tree dom pm t.
  Proof.
    intros Hg Hc. induction t as [x|f args|op l IHl r IHr]; simpl; intros Hok.
    - reflexivity.
    - rewrite (ground_args_ren m pm pm' args Hg Hc Hok). reflexivity.
    - destruct Hok as [Hl Hr]. rewrite (IHl Hl), (IHr Hr). reflexivity.
  Qed.

  Lemma ground_numexp_ren m pm pm' t :
    good m -> compat m pm pm' -> numexp_ok m t ->
    ground_tree dom pm' (rename_numexp m t) = ground_tree dom pm t.
  Proof.
    intros Hg Hc [Hnode Hok]. destruct t as [x|f args|op l r]; try contradiction.
    change (rename_numexp m (TNode op l r)) with (rename_tree m (TNode op l r)).
    apply ground_tree_ren; assumption.
  Qed.

  Definition pairs_ok (l : list (string * string)) : Prop :=
    forall ab, In ab l -> In (fst ab) N /\ In (snd ab) N.

  Lemma ground_pairs_ren m pm pm' l :
    compat m pm pm' -> pairs_ok l ->
    ground_pairs pm' (map (rename_pair m) l) = ground_pairs pm l.
  Proof.
    intros Hc Hok. unfold ground_pairs. rewrite mapM_map. apply mapM_ext_in.
    intros [a b] Hab. destruct (Hok (a, b) Hab) as [Ha Hb]. simpl in *.
    rewrite (Hc a Ha), (Hc b Hb). reflexivity.
  Qed.

  (* ---------- the side condition on a condition tree, at the depth where the mapping is m ---------- *)
  Fixpoint pre_ok (m : renaming) (p : mpre) : Prop :=
    match p with
    | MPre _ os eqs neqs =>
        pairs_ok eqs /\ pairs_ok neqs /\
        (fix go (l : list mcond) : Prop := match l with [] => True | c :: r => cond_ok m c /\ go r end) os
    end
  with cond_ok (m : renaming) (c : mcond) : Prop :=
    match c with
    | MLit _ _ args => args_ok m args
    | MNum t => numexp_ok m t
    | MNested q => pre_ok m q
    | MUniv v _ body => In v B /\ pre_ok (drop m v) body
    end.

  Lemma pre_ok_unfold m op os eqs neqs :
    pre_ok m (MPre op os eqs neqs) <-> pairs_ok eqs /\ pairs_ok neqs /\ Forall (cond_ok m) os.
  Proof.
    simpl. assert (H : (fix go (l : list mcond) : Prop :=
                          match l with [] => True | c :: r => cond_ok m c /\ go r end) os <-> Forall (cond_ok m) os).
    { induction os as [|c r IH]; simpl.
      - split; intros; constructor.
      - split.
        + intros [Hc Hr]. constructor; [exact Hc|apply IH; exact Hr].
        + intros Hf. inversion Hf; subst. split; [assumption|apply IH; assumption]. }
    tauto.
  Qed.

  (* ---------- evaluation of lifted conditions (forall bodies) ---------- *)
  Variable eps : float.

  Section FoldConds.
    Variable f : mcond -> result bool.
    Variable op : string.
    Fixpoint fold_conds (l : list mcond) (acc : bool) : result bool :=
      match l with
      | [] => Ok acc
      | c :: r => do b <- f c; fold_conds r (fold_op op acc b)
      end.
  End FoldConds.

  Lemma eval_lifted_unfold objs s pm op os eqs neqs :
    eval_lifted dom eps objs s pm (MPre op os eqs neqs) =
    (do geqs <- ground_pairs pm eqs;
     do gneqs <- ground_pairs pm neqs;
     fold_conds (eval_lifted_cond dom eps objs s pm) op os (seed_of op geqs gneqs)).
  Proof. reflexivity. Qed.

  Lemma fold_conds_ext f g op l acc :
    (forall c, In c l -> f c = g c) -> fold_conds f op l acc = fold_conds g op l acc.
  Proof.
    revert acc. induction l as [|c r IH]; simpl; intros acc H; [reflexivity|].
    rewrite (H c) by (left; reflexivity). destruct (g c) as [b|k]; simpl; [|reflexivity].
    apply IH. intros x Hx. apply H. right. exact Hx.
  Qed.

  Lemma fold_conds_map f (h : mcond -> mcond) op l acc :
    fold_conds f op (map h l) acc = fold_conds (fun c => f (h c)) op l acc.
  Proof.
    revert acc. induction l as [|c r IH]; simpl; intros acc; [reflexivity|].
    destruct (f (h c)) as [b|k]; simpl; [apply IH|reflexivity].
  Qed.

  Section OverObjs.
    Variable f : string -> result bool.
    Variable ty : string.
    Fixpoint over_objs (l : objects) (acc : bool) : result bool :=
      match l with
      | [] => Ok acc
      | (o, oty) :: r =>
          if is_sub_type (d_types dom) oty ty then do b <- f o; over_objs r (acc && b)
          else over_objs r acc
      end.
  End OverObjs.

  Lemma eval_univ_unfold os s pm v ty body :
    eval_lifted_cond dom eps (Some os) s pm (MUniv v ty body) =
    over_objs (fun o => eval_lifted dom eps (Some os) s (dset pm v o) body) ty os true.
  Proof. reflexivity. Qed.

  Lemma eval_lit_unfold objs s pm pos p args :
    eval_lifted_cond dom eps objs s pm (MLit pos p args) =
    (do a <- ground_lit dom pm p args; Ok (if pos then atom_in a (facts s) else negb (atom_in a (facts s)))).
  Proof. reflexivity. Qed.
  Lemma eval_num_unfold objs s pm t :
    eval_lifted_cond dom eps objs s pm (MNum t) = (do g <- ground_tree dom pm t; eval_cmp eps s g).
  Proof. reflexivity. Qed.

  Lemma over_objs_ext f g ty l acc : (forall o, f o = g o) -> over_objs f ty l acc = over_objs g ty l acc.
  Proof.
    intros H. revert acc. induction l as [|[o oty] r IH]; simpl; intros acc; [reflexivity|].
    destruct (is_sub_type (d_types dom) oty ty); [|apply IH].
    rewrite H. destruct (g o); simpl; [apply IH|reflexivity].
  Qed.

  Lemma eval_lifted_ren objs s :
    forall p m pm pm', good m -> compat m pm pm' -> pre_ok m p ->
      eval_lifted dom eps objs s pm' (rename_pre m p) = eval_lifted dom eps objs s pm p.
  Proof.
    apply (mpre_ind'
             (fun p => forall m pm pm', good m -> compat m pm pm' -> pre_ok m p ->
                eval_lifted dom eps objs s pm' (rename_pre m p) = eval_lifted dom eps objs s pm p)
             (fun c => forall m pm pm', good m -> compat m pm pm' -> cond_ok m c ->
                eval_lifted_cond dom eps objs s pm' (rename_cond m c) = eval_lifted_cond dom eps objs s pm c)).
    - intros op os eqs neqs IH m pm pm' Hg Hc Hok.
      apply pre_ok_unfold in Hok. destruct Hok as [He [Hn Hos]].
      rewrite rename_pre_unfold, !eval_lifted_unfold.
      rewrite (ground_pairs_ren m pm pm' eqs Hc He), (ground_pairs_ren m pm pm' neqs Hc Hn).
      destruct (ground_pairs pm eqs) as [geqs|k]; simpl; [|reflexivity].
      destruct (ground_pairs pm neqs) as [gneqs|k]; simpl; [|reflexivity].
      rewrite fold_conds_map. apply fold_conds_ext. intros c Hcin.
      rewrite Forall_forall in IH, Hos. apply IH; auto.
    - intros pos p args m pm pm' Hg Hc Hok.
      change (rename_cond m (MLit pos p args)) with (MLit pos p (rename_args m args)).
      rewrite !eval_lit_unfold, (ground_lit_ren m pm pm' p args Hg Hc Hok). reflexivity.
    - intros t m pm pm' Hg Hc Hok.
      change (rename_cond m (MNum t)) with (MNum (rename_numexp m t)).
      rewrite !eval_num_unfold, (ground_numexp_ren m pm pm' t Hg Hc Hok). reflexivity.
    - intros q IH m pm pm' Hg Hc Hok. apply (IH m pm pm' Hg Hc Hok).
    - intros v ty b IH m pm pm' Hg Hc [Hv Hok].
      change (rename_cond m (MUniv v ty b)) with (MUniv v ty (rename_pre (drop m v) b)).
      destruct objs as [os|]; [|reflexivity].
      rewrite !eval_univ_unfold. apply over_objs_ext. intros o.
      apply IH; [apply good_under; assumption|apply compat_under; assumption|exact Hok].
  Qed.

  Lemma eval_lifted_cond_ren objs s c m pm pm' :
    good m -> compat m pm pm' -> cond_ok m c ->
    eval_lifted_cond dom eps objs s pm' (rename_cond m c) = eval_lifted_cond dom eps objs s pm c.
  Proof.
    intros Hg Hc Hok. destruct c as [pos p args|t|q|v ty b].
    - change (rename_cond m (MLit pos p args)) with (MLit pos p (rename_args m args)).
      rewrite !eval_lit_unfold, (ground_lit_ren m pm pm' p args Hg Hc Hok). reflexivity.
    - change (rename_cond m (MNum t)) with (MNum (rename_numexp m t)).
      rewrite !eval_num_unfold, (ground_numexp_ren m pm pm' t Hg Hc Hok). reflexivity.
    - apply (eval_lifted_ren objs s q m pm pm' Hg Hc Hok).
    - destruct Hok as [Hv Hok]. destruct objs as [os|]; [|reflexivity].
      change (rename_cond m (MUniv v ty b)) with (MUniv v ty (rename_pre (drop m v) b)).
      rewrite !eval_univ_unfold.
      apply over_objs_ext. intros o.
      apply eval_lifted_ren; [apply good_under; assumption|apply compat_under; assumption|exact Hok].
  Qed.

  (* ---------- grounding, then evaluating the grounded condition ---------- *)
  Definition rel_result {A} (R : A -> A -> Prop) (r r' : result A) : Prop :=
    match r, r' with
    | Ok a, Ok a' => R a a'
    | Err k, Err k' => k = k'
    | _, _ => False
    end.

  Lemma rel_bind {A C} (R : A -> A -> Prop) (S : C -> C -> Prop) r r' (f f' : A -> result C) :
    rel_result R r r' -> (forall a a', R a a' -> rel_result S (f a) (f' a')) ->
    rel_result S (bind r f) (bind r' f').
  Proof.
    destruct r as [a|k], r' as [a'|k']; simpl; intros H Hf; try contradiction.
    - apply Hf. exact H.
    - exact H.
  Qed.

  Lemma rel_of_eq {A} (r r' : result A) : r' = r -> rel_result eq r r'.
  Proof. intros ->. destruct r; simpl; reflexivity. Qed.

  Section MapM'.
    Context {A C : Type}.
    Variable f : A -> result C.
    Fixpoint mapM' (l : list A) : result (list C) :=
      match l with
      | [] => Ok []
      | x :: xs => do y <- f x; do ys <- mapM' xs; Ok (y :: ys)
      end.
  End MapM'.

  Lemma mapM'_mapM {A C} (f : A -> result C) l : mapM' f l = mapM f l.
  Proof. induction l as [|a r IH]; simpl; [reflexivity|]. rewrite IH. reflexivity. Qed.

  Lemma mapM'_rel {A A' C} (R : C -> C -> Prop) (f : A -> result C) (f' : A' -> result C) (h : A -> A') l :
    Forall (fun c => rel_result R (f c) (f' (h c))) l ->
    rel_result (Forall2 R) (mapM' f l) (mapM' f' (map h l)).
  Proof.
    induction l as [|a r IH]; simpl; intros H.
    - constructor.
    - inversion H as [|? ? Ha Hr]; subst.
      apply (rel_bind R); [exact Ha|]. intros y y' Hy.
      apply (rel_bind (Forall2 R)); [apply IH; exact Hr|]. intros ys ys' Hys.
      simpl. constructor; assumption.
  Qed.

  Definition ceq (c c' : gcond) : Prop :=
    forall objs s, eval_gcond dom eps objs s c' = eval_gcond dom eps objs s c.
  Definition geq (g g' : gpre) : Prop :=
    forall objs s, eval_g dom eps objs s g' = eval_g dom eps objs s g.

  Lemma ground_pre_unfold pm op os eqs neqs :
    ground_pre dom pm (MPre op os eqs neqs) =
    (do geqs <- ground_pairs pm eqs;
     do gneqs <- ground_pairs pm neqs;
     do gos <- mapM' (ground_cond dom pm) os;
     Ok (GPre op gos geqs gneqs)).
  Proof. reflexivity. Qed.

  Section GFold.
    Variable f : gcond -> result bool.
    Variable op : string.
    Fixpoint gfold (l : list gcond) (acc : bool) : result bool :=
      match l with
      | [] => Ok acc
      | c :: r => do b <- f c; gfold r (fold_op op acc b)
      end.
  End GFold.

  Lemma eval_g_unfold objs s op os eqs neqs :
    eval_g dom eps objs s (GPre op os eqs neqs) =
    gfold (eval_gcond dom eps objs s) op os (seed_of op eqs neqs).
  Proof. reflexivity. Qed.

  Lemma gfold_rel f f' op os os' acc :
    Forall2 (fun c c' => f' c' = f c) os os' -> gfold f' op os' acc = gfold f op os acc.
  Proof.
    intros H. revert acc. induction H as [|c c' r r' Hc Hr IH]; simpl; intros acc; [reflexivity|].
    rewrite Hc. destruct (f c); simpl; [apply IH|reflexivity].
  Qed.

  Lemma geq_of_operands op os os' eqs neqs :
    Forall2 ceq os os' -> geq (GPre op os eqs neqs) (GPre op os' eqs neqs).
  Proof.
    intros H objs s. rewrite !eval_g_unfold. apply gfold_rel.
    induction H; constructor; auto.
  Qed.

  Lemma ground_pre_ren :
    forall p m pm pm', good m -> compat m pm pm' -> pre_ok m p ->
      rel_result geq (ground_pre dom pm p) (ground_pre dom pm' (rename_pre m p)).
  Proof.
    apply (mpre_ind'
             (fun p => forall m pm pm', good m -> compat m pm pm' -> pre_ok m p ->
                rel_result geq (ground_pre dom pm p) (ground_pre dom pm' (rename_pre m p)))
             (fun c => forall m pm pm', good m -> compat m pm pm' -> cond_ok m c ->
                rel_result ceq (ground_cond dom pm c) (ground_cond dom pm' (rename_cond m c)))).
    - intros op os eqs neqs IH m pm pm' Hg Hc Hok.
      apply pre_ok_unfold in Hok. destruct Hok as [He [Hn Hos]].
      rewrite rename_pre_unfold, !ground_pre_unfold.
      rewrite (ground_pairs_ren m pm pm' eqs Hc He), (ground_pairs_ren m pm pm' neqs Hc Hn).
      destruct (ground_pairs pm eqs) as [geqs|k]; simpl; [|reflexivity].
      destruct (ground_pairs pm neqs) as [gneqs|k]; simpl; [|reflexivity].
      apply (rel_bind (Forall2 ceq)).
      + apply mapM'_rel. rewrite Forall_forall in *. intros c Hcin. apply IH; auto.
      + intros gos gos' Hgos. simpl. apply geq_of_operands. exact Hgos.
    - intros pos p args m pm pm' Hg Hc Hok.
      change (rename_cond m (MLit pos p args)) with (MLit pos p (rename_args m args)).
      change (rel_result ceq (do a <- ground_lit dom pm p args; Ok (GLit pos a))
                             (do a <- ground_lit dom pm' p (rename_args m args); Ok (GLit pos a))).
      rewrite (ground_lit_ren m pm pm' p args Hg Hc Hok).
      destruct (ground_lit dom pm p args); simpl; [|reflexivity]. intros objs s. reflexivity.
    - intros t m pm pm' Hg Hc Hok.
      change (rename_cond m (MNum t)) with (MNum (rename_numexp m t)).
      change (rel_result ceq (do g <- ground_tree dom pm t; Ok (GNum g))
                             (do g <- ground_tree dom pm' (rename_numexp m t); Ok (GNum g))).
      rewrite (ground_numexp_ren m pm pm' t Hg Hc Hok).
      destruct (ground_tree dom pm t); simpl; [|reflexivity]. intros objs s. reflexivity.
    - intros q IH m pm pm' Hg Hc Hok.
      change (rename_cond m (MNested q)) with (MNested (rename_pre m q)).
      change (rel_result ceq (do g <- ground_pre dom pm q; Ok (GNested g))
                             (do g <- ground_pre dom pm' (rename_pre m q); Ok (GNested g))).
      apply (rel_bind geq); [apply (IH m pm pm' Hg Hc Hok)|].
      intros g g' Hgg. simpl. intros objs s. apply Hgg.
    - intros v ty b _ m pm pm' Hg Hc Hok.
      change (rename_cond m (MUniv v ty b)) with (MUniv v ty (rename_pre (drop m v) b)).
      simpl. intros objs s.
      apply (eval_lifted_cond_ren objs s (MUniv v ty b) m pm pm' Hg Hc Hok).
  Qed.

  (* ---------- effect groups ---------- *)
  Definition ante_eq (a a' : option gpre) : Prop :=
    match a, a' with
    | None, None => True
    | Some g, Some g' => geq g g'
    | _, _ => False
    end.
  Definition ggeq (g g' : ggroup) : Prop :=
    gg_disc g' = gg_disc g /\ gg_num g' = gg_num g /\ ante_eq (gg_ante g) (gg_ante g').

  Definition lit_ok (m : renaming) (l : mlit) : Prop := args_ok m (l_args l).
  Definition condeff_ok (m : renaming) (ce : mcondeff) : Prop :=
    pre_ok m (ce_ante ce) /\ Forall (lit_ok m) (ce_disc ce) /\ Forall (numexp_ok m) (ce_num ce).

  Lemma ground_disc_ren m pm pm' disc :
    good m -> compat m pm pm' -> Forall (lit_ok m) disc ->
    mapM (fun l => do a <- ground_lit dom pm' (l_name l) (l_args l); Ok (l_pos l, a)) (map (rename_lit m) disc) =
    mapM (fun l => do a <- ground_lit dom pm (l_name l) (l_args l); Ok (l_pos l, a)) disc.
  Proof.
    intros Hg Hc Hok. rewrite mapM_map. apply mapM_ext_in. intros l Hl.
    rewrite Forall_forall in Hok. simpl.
    rewrite (ground_lit_ren m pm pm' (l_name l) (l_args l) Hg Hc (Hok l Hl)). reflexivity.
  Qed.

  Lemma ground_nums_ren m pm pm' nums :
    good m -> compat m pm pm' -> Forall (numexp_ok m) nums ->
    mapM (ground_tree dom pm') (map (rename_numexp m) nums) = mapM (ground_tree dom pm) nums.
  Proof.
    intros Hg Hc Hok. rewrite mapM_map. apply mapM_ext_in. intros t Ht.
    rewrite Forall_forall in Hok. apply ground_numexp_ren; auto.
  Qed.

  Lemma ground_group_ren m pm pm' ante disc nums :
    good m -> compat m pm pm' ->
    match ante with Some a => pre_ok m a | None => True end ->
    Forall (lit_ok m) disc -> Forall (numexp_ok m) nums ->
    rel_result ggeq (ground_group dom pm ante disc nums)
                    (ground_group dom pm' (option_map (rename_pre m) ante) (map (rename_lit m) disc)
                                  (map (rename_numexp m) nums)).
  Proof.
    intros Hg Hc Ha Hd Hn. unfold ground_group.
    rewrite (ground_disc_ren m pm pm' disc Hg Hc Hd), (ground_nums_ren m pm pm' nums Hg Hc Hn).
    apply (rel_bind ante_eq).
    - destruct ante as [a|]; simpl; [|exact I].
      apply (rel_bind geq); [apply ground_pre_ren; assumption|]. intros g g' Hgg. exact Hgg.
    - intros ga ga' Hga.
      destruct (mapM _ disc) as [gd|k]; simpl; [|reflexivity].
      destruct (mapM _ nums) as [gn|k]; simpl; [|reflexivity].
      repeat split; simpl; auto.
  Qed.

  Lemma antecedents_hold_eq objs g g' s :
    ggeq g g' -> antecedents_hold dom eps objs g' s = antecedents_hold dom eps objs g s.
  Proof.
    intros [_ [_ Ha]]. unfold antecedents_hold.
    destruct (gg_ante g) as [a|], (gg_ante g') as [a'|]; simpl in Ha; try contradiction; [apply Ha|reflexivity].
  Qed.

  Lemma apply_group_eq g g' prev cur : ggeq g g' -> apply_group_m prev cur g' = apply_group_m prev cur g.
  Proof. intros [Hd [Hn _]]. unfold apply_group_m. rewrite Hd, Hn. reflexivity. Qed.

  Definition fire (objs : option objects) (skip : bool) (prev cur : state) (g : ggroup) : result state :=
    do h <- (if skip then Ok true else antecedents_hold dom eps objs g prev);
    if h then apply_group_m prev cur g else Ok cur.

  Lemma fire_eq objs skip prev cur g g' : ggeq g g' -> fire objs skip prev cur g' = fire objs skip prev cur g.
  Proof.
    intros H. unfold fire. rewrite (antecedents_hold_eq objs g g' prev H).
    destruct skip; simpl; [apply apply_group_eq; exact H|].
    destruct (antecedents_hold dom eps objs g prev) as [[|]|k]; simpl; [apply apply_group_eq; exact H|reflexivity|reflexivity].
  Qed.

  (* ---------- lists ---------- *)
  Lemma foldM_rel {A A' S} (R : A -> A' -> Prop) (f : S -> A -> result S) (f' : S -> A' -> result S) l l' :
    Forall2 R l l' -> (forall c x x', R x x' -> f' c x' = f c x) -> forall c, foldM f' l' c = foldM f l c.
  Proof.
    intros H Hf. induction H as [|x x' r r' Hx Hr IH]; simpl; intros c; [reflexivity|].
    rewrite (Hf c x x' Hx). destruct (f c x); simpl; [apply IH|reflexivity].
  Qed.

  Lemma foldM_ext_in {A S} (f f' : S -> A -> result S) l :
    (forall c x, In x l -> f' c x = f c x) -> forall c, foldM f' l c = foldM f l c.
  Proof.
    induction l as [|x r IH]; simpl; intros H c; [reflexivity|].
    rewrite (H c x) by (left; reflexivity). destruct (f c x); simpl; [|reflexivity].
    apply IH. intros c' y Hy. apply H. right. exact Hy.
  Qed.

  Lemma foldM_map {A A' S} (f : S -> A' -> result S) (h : A -> A') l c :
    foldM f (map h l) c = foldM (fun s x => f s (h x)) l c.
  Proof. revert c. induction l as [|x r IH]; simpl; intros c; [reflexivity|]. destruct (f c (h x)); simpl; auto. Qed.

  Lemma reorder_Forall2 {A A'} (R : A -> A' -> Prop) l l' order :
    Forall2 R l l' -> Forall2 R (reorder l order) (reorder l' order).
  Proof.
    intros H. unfold reorder. induction order as [|i r IH]; simpl; [constructor|].
    assert (Hi : match nth_error l i, nth_error l' i with
                 | Some x, Some x' => R x x' | None, None => True | _, _ => False end).
    { clear IH. revert i. induction H as [|x x' t t' Hx Ht IHt]; intros [|i]; simpl; auto. apply IHt. }
    destruct (nth_error l i), (nth_error l' i); try contradiction; simpl; [constructor; assumption|exact IH].
  Qed.

  Lemma reorder_map {A A'} (h : A -> A') l order : reorder (map h l) order = map h (reorder l order).
  Proof.
    unfold reorder. induction order as [|i r IH]; simpl; [reflexivity|].
    rewrite map_app, <- IH, nth_error_map. destruct (nth_error l i); reflexivity.
  Qed.

  Lemma reorder_In {A} (l : list A) order x : In x (reorder l order) -> In x l.
  Proof.
    unfold reorder. intros H. apply in_flat_map in H. destruct H as [i [_ Hi]].
    destruct (nth_error l i) eqn:E; simpl in Hi; [|contradiction].
    destruct Hi as [<-|[]]. eapply nth_error_In. exact E.
  Qed.

  (* ---------- the grounded action ---------- *)
  Definition univeff_ok (m : renaming) (ue : muniveff) : Prop :=
    In (ue_var ue) B /\ condeff_ok (drop m (ue_var ue)) (ue_ce ue).

  Definition action_ok (m : renaming) (a : maction) : Prop :=
    NoDup (map (rn m) (dkeys (ma_sig a))) /\
    pre_ok m (ma_pre a) /\ Forall (lit_ok m) (ma_disc a) /\ Forall (numexp_ok m) (ma_num a) /\
    Forall (condeff_ok m) (ma_cond a) /\ Forall (univeff_ok m) (ma_univ a).

  (* what apply_op and is_applicable look at *)
  Definition gaeq (m : renaming) (ga ga' : gaction) : Prop :=
    geq (ga_pre ga) (ga_pre ga') /\ Forall2 ggeq (ga_groups ga) (ga_groups ga') /\
    ma_univ (ga_action ga') = map (rename_univeff m) (ma_univ (ga_action ga)) /\
    Forall (univeff_ok m) (ma_univ (ga_action ga)) /\
    compat m (ga_pm ga) (ga_pm ga').

  Lemma apply_universal_ren m ga ga' objs uorder prev cur :
    good m -> gaeq m ga ga' ->
    apply_universal dom eps ga' objs uorder prev cur = apply_universal dom eps ga objs uorder prev cur.
  Proof.
    intros Hg [_ [_ [Hu [Hok Hc]]]]. unfold apply_universal. destruct objs as [os|]; [|reflexivity].
    apply foldM_ext_in. intros cur1 o _.
    rewrite Hu, reorder_map, foldM_map.
    apply foldM_ext_in. intros cur2 ue Hue.
    apply reorder_In in Hue. rewrite Forall_forall in Hok. destruct (Hok ue Hue) as [Hv [Hp [Hd Hn]]].
    change (ue_ty (rename_univeff m ue)) with (ue_ty ue).
    destruct (is_sub_type (d_types dom) (snd o) (ue_ty ue)); [|reflexivity].
    change (ue_var (rename_univeff m ue)) with (ue_var ue).
    change (ue_ce (rename_univeff m ue)) with (rename_condeff (drop m (ue_var ue)) (ue_ce ue)).
    cbv zeta.
    pose proof (ground_group_ren (drop m (ue_var ue)) (dset (ga_pm ga) (ue_var ue) (fst o))
                  (dset (ga_pm ga') (ue_var ue) (fst o)) (Some (ce_ante (ue_ce ue))) (ce_disc (ue_ce ue))
                  (ce_num (ue_ce ue)) (good_under m _ Hg Hv) (compat_under m _ _ _ (fst o) Hg Hv Hc) Hp Hd Hn) as Hgr.
    simpl option_map in Hgr. unfold rename_condeff. simpl ce_ante. simpl ce_disc. simpl ce_num.
    destruct (ground_group dom (dset (ga_pm ga) (ue_var ue) (fst o)) _ _ _) as [g|k],
             (ground_group dom (dset (ga_pm ga') (ue_var ue) (fst o)) _ _ _) as [g'|k']; simpl in Hgr; try contradiction.
    - simpl. rewrite (antecedents_hold_eq (Some os) g g' prev Hgr).
      destruct (antecedents_hold dom eps (Some os) g prev) as [[|]|k]; simpl; [apply apply_group_eq; exact Hgr|reflexivity|reflexivity].
    - simpl. rewrite Hgr. reflexivity.
  Qed.

  Lemma apply_op_ren m ga ga' objs allow skip order uorder prev :
    good m -> gaeq m ga ga' ->
    apply_op dom eps ga' objs allow skip order uorder prev = apply_op dom eps ga objs allow skip order uorder prev.
  Proof.
    intros Hg Hga. pose proof Hga as [Hpre [Hgroups _]]. unfold apply_op, is_applicable.
    rewrite (Hpre objs prev).
    destruct (if skip then Ok true else eval_g dom eps objs prev (ga_pre ga)) as [okb|k]; simpl; [|reflexivity].
    destruct (negb okb && negb allow); [reflexivity|].
    assert (Hfold : foldM (fun cur g => fire objs skip prev cur g) (reorder (ga_groups ga') order) prev =
                    foldM (fun cur g => fire objs skip prev cur g) (reorder (ga_groups ga) order) prev).
    { apply (foldM_rel ggeq); [apply reorder_Forall2; exact Hgroups|].
      intros c x x' Hx. apply fire_eq. exact Hx. }
    unfold fire in Hfold. rewrite Hfold.
    destruct (foldM _ (reorder (ga_groups ga) order) prev) as [cur|k]; simpl; [|reflexivity].
    apply (apply_universal_ren m); assumption.
  Qed.

  Lemma is_applicable_ren m ga ga' objs s :
    gaeq m ga ga' -> is_applicable dom eps objs ga' s = is_applicable dom eps objs ga s.
  Proof. intros [Hpre _]. unfold is_applicable. apply Hpre. Qed.

  Lemma ground_action_ren m a args :
    good m -> action_ok m a ->
    compat m (combine (dkeys (ma_sig a)) args) (combine (map (rn m) (dkeys (ma_sig a))) args) ->
    rel_result (gaeq m) (ground_action dom a args) (ground_action dom (change_signature m a) args).
  Proof.
    intros Hg [Hsig [Hpre [Hd [Hn [Hc Hu]]]]] Hcompat. unfold ground_action.
    change (ma_sig (change_signature m a)) with (rebuild m (ma_sig a)).
    rewrite (rebuild_map m (ma_sig a) Hsig).
    assert (Hk : dkeys (map (rn_item m) (ma_sig a)) = map (rn m) (dkeys (ma_sig a))).
    { unfold dkeys. rewrite !map_map. reflexivity. }
    rewrite Hk. cbv zeta.
    set (pm := combine (dkeys (ma_sig a)) args) in *.
    set (pm' := combine (map (rn m) (dkeys (ma_sig a))) args) in *.
    change (ma_pre (change_signature m a)) with (rename_pre m (ma_pre a)).
    change (ma_disc (change_signature m a)) with (map (rename_lit m) (ma_disc a)).
    change (ma_num (change_signature m a)) with (map (rename_numexp m) (ma_num a)).
    change (ma_cond (change_signature m a)) with (map (rename_condeff m) (ma_cond a)).
    apply (rel_bind geq); [apply ground_pre_ren; assumption|]. intros gp gp' Hgp.
    apply (rel_bind ggeq).
    { apply (ground_group_ren m pm pm' None (ma_disc a) (ma_num a) Hg Hcompat I Hd Hn). }
    intros g0 g0' Hg0.
    rewrite <- !mapM'_mapM.
    apply (rel_bind (Forall2 ggeq)).
    { apply (mapM'_rel ggeq (fun ce => ground_group dom pm (Some (ce_ante ce)) (ce_disc ce) (ce_num ce))
                       (fun ce => ground_group dom pm' (Some (ce_ante ce)) (ce_disc ce) (ce_num ce))
                       (rename_condeff m)).
      rewrite Forall_forall in *. intros ce Hce. destruct (Hc ce Hce) as [Hp [Hdd Hnn]].
      apply (ground_group_ren m pm pm' (Some (ce_ante ce)) (ce_disc ce) (ce_num ce) Hg Hcompat Hp Hdd Hnn). }
    intros gs gs' Hgs. simpl.
    repeat split; simpl; auto.
  Qed.
End Exec.
