(* C04 against the PDDL semantics: the model's trajectory is the spec's run_plan (Spec/Plan.v over Spec.Pddl.applicable /
   successor), state by state, as sets of facts and maps of fluents.
   The link between one call in the model and the spec ([plan_refines]) is a premise: it is the statement of C02
   (is_applicable = applicable) and C03 (apply = successor) at the states the plan visits. *)
From Coq Require Import List Ascii String Bool Arith Lia PrimFloat.
From Verif Require Import Base.Result Base.Str Base.Sexp Base.PyDict Model.Types Model.Domain Model.Exec Model.Plan
  Spec.Pddl Spec.Plan Spec.Joint Proofs.C04_Thread Proofs.C04_Plan Proofs.C16_Sets Proofs.C16_Commute.
Import ListNotations.
Open Scope string_scope.
Open Scope list_scope.

Section Spec.
  Variable d : mdomain.
  Variable eps : float.
  Variable allow : bool.
  Variable objs : objects.
  Variable sch : schedule.
  Variable tt : tytree.

  Notation app := (fun (m : member) (s : state) => m_applicable tt objs eps s m).
  Notation suc := (fun (m : member) (s : state) => m_step tt objs eps s m).

  (* line by line, at the state the model has reached: the library's applicability test answers what PDDL says, and
     when the step is taken apply returns (a state equal, as a set / map, to) the PDDL successor *)
  Fixpoint plan_refines (k : nat) (calls : list acall) (ms : list member) (s : state) : Prop :=
    match calls, ms with
    | [], [] => True
    | c :: cs, m :: ms' =>
        call_applicable d eps (Some objs) c s = Ok (m_applicable tt objs eps s m) /\
        (if m_applicable tt objs eps s m || allow then
           exists s', apply_call d eps (Some objs) allow (sch k) c s = Ok s' /\
                      st_equiv s' (m_step tt objs eps s m) /\ plan_refines (S k) cs ms' s'
         else plan_refines (S k) cs ms' s)
    | _, _ => False
    end.

  Definition same_step (t : triplet) (u : state * member * state) : Prop :=
    st_equiv (ms_st (t_prev t)) (pre _ _ u) /\ st_equiv (ms_st (t_next t)) (post _ _ u) /\ ms_init (t_next t) = false.

  Lemma cst_of_call ord prev line c :
    parse_action_call line = Ok c ->
    create_single_triplet d eps allow objs ord prev line =
    match dget (d_actions d) (ac_name c) with
    | None => Err EKey
    | Some a =>
        match apply_call d eps (Some objs) allow ord c (ms_st prev) with
        | Ok nxt => Ok {| t_prev := prev; t_op := op_text (ma_name a) (ac_args c); t_next := {| ms_init := false; ms_st := nxt |} |}
        | Err EValue => Ok {| t_prev := prev; t_op := op_text (ma_name a) (ac_args c);
                             t_next := {| ms_init := false; ms_st := ms_st prev |} |}
        | Err k => Err k
        end
    end.
  Proof.
    intros Hc. unfold create_single_triplet, apply_call. rewrite Hc. simpl.
    destruct (dget (d_actions d) (ac_name c)); reflexivity.
  Qed.

  Lemma refused_call c s ord :
    call_applicable d eps (Some objs) c s = Ok false -> allow = false ->
    exists a, dget (d_actions d) (ac_name c) = Some a /\ apply_call d eps (Some objs) allow ord c s = Err EValue.
  Proof.
    unfold call_applicable, apply_call, apply_action. intros H Ha. subst allow.
    destruct (dget (d_actions d) (ac_name c)) as [a|]; [|discriminate]. exists a. split; [reflexivity|].
    destruct (ground_action d a (ac_args c)) as [ga|k]; simpl in *; [|discriminate].
    apply apply_op_refuses. exact H.
  Qed.

  Lemma taken_call c s ord s' :
    apply_call d eps (Some objs) allow ord c s = Ok s' -> exists a, dget (d_actions d) (ac_name c) = Some a.
  Proof. unfold apply_call. destruct (dget (d_actions d) (ac_name c)) as [a|]; [eauto | discriminate]. Qed.

  Theorem thread_refines lines : forall calls ms k (prev : mstate) (t : state),
    Forall2 (fun l c => parse_action_call l = Ok c) lines calls ->
    st_equiv (ms_st prev) t ->
    plan_refines k calls ms (ms_st prev) ->
    exists ts, thread _ _ _ (mk_triplet d eps allow objs sch) t_next k prev lines = Ok ts /\
               Forall2 same_step ts (run_plan _ _ app suc allow t ms).
  Proof.
    induction lines as [|l r IH]; intros calls ms k prev t HF Hst Href.
    - inversion HF; subst. destruct ms; simpl in Href; [|contradiction]. exists []. split; [reflexivity | constructor].
    - inversion HF as [|l' c r' cs Hc HF']; subst. destruct ms as [|m ms']; simpl in Href; [contradiction|].
      destruct Href as [Happ Hrest].
      assert (Eapp : m_applicable tt objs eps (ms_st prev) m = m_applicable tt objs eps t m)
        by (apply applicable_congr; exact Hst).
      simpl. unfold mk_triplet at 1. rewrite (cst_of_call _ _ _ c Hc).
      unfold step_state. rewrite <- Eapp.
      destruct (m_applicable tt objs eps (ms_st prev) m || allow) eqn:Eb.
      + destruct Hrest as [s' [Hcall [He Hr]]].
        destruct (taken_call _ _ _ _ Hcall) as [a Ha]. rewrite Ha, Hcall. simpl.
        assert (Hst' : st_equiv s' (m_step tt objs eps t m)).
        { eapply st_equiv_trans; [exact He | apply step_congr; exact Hst]. }
        destruct (IH cs ms' (S k) {| ms_init := false; ms_st := s' |} (m_step tt objs eps t m) HF' Hst' Hr)
          as [ts [Hts HF2]].
        simpl in Hts. rewrite Hts. simpl. eexists. split; [reflexivity|].
        constructor; [|exact HF2]. unfold same_step, pre, post. simpl. split; [exact Hst | split; [exact Hst' | reflexivity]].
      + apply orb_false_iff in Eb. destruct Eb as [Eb1 Eb2]. rewrite Eb1 in Happ.
        destruct (refused_call c (ms_st prev) (sch k) Happ Eb2) as [a [Ha Hcall]]. rewrite Ha, Hcall. simpl.
        destruct (IH cs ms' (S k) {| ms_init := false; ms_st := ms_st prev |} t HF' Hst Hrest) as [ts [Hts HF2]].
        simpl in Hts. rewrite Hts. simpl. eexists. split; [reflexivity|].
        constructor; [|exact HF2]. unfold same_step, pre, post. simpl. split; [exact Hst | split; [exact Hst | reflexivity]].
  Qed.

  (* the model's trajectory IS the spec's: same length, and step by step the same pre- and post-states *)
  Theorem parse_plan_spec init lines calls ms :
    Forall2 (fun l c => parse_action_call l = Ok c) lines calls ->
    plan_refines 0 calls ms init ->
    exists ts, parse_plan d eps allow objs sch init lines = Ok ts /\
               Forall2 same_step ts (run_plan _ _ app suc allow init ms).
  Proof.
    intros HF Href. rewrite parse_plan_thread.
    apply (thread_refines lines calls ms 0 {| ms_init := true; ms_st := init |} init HF (st_equiv_refl _) Href).
  Qed.
End Spec.

(* the spec's own reading: run_plan is the unique trajectory (Spec/Plan.v: is_trajectory) *)
Section SpecSanity.
  Variables S A : Type.
  Variable app : A -> S -> bool.
  Variable succ : A -> S -> S.
  Variable allow : bool.

  Lemma run_plan_is_trajectory plan : forall init, is_trajectory S A app succ allow init plan (run_plan S A app succ allow init plan).
  Proof.
    induction plan as [|a r IH]; intros init.
    - constructor; simpl; try reflexivity; intros; try discriminate; destruct i; discriminate.
    - destruct (IH (step_state S A app succ allow a init)) as [H1 H2 H3 H4]. constructor; simpl.
      + unfold act at 1. simpl. f_equal. exact H1.
      + intros t Ht. inversion Ht; subst. reflexivity.
      + intros i t u Ht Hu. destruct i as [|i]; simpl in *.
        * inversion Ht; subst. unfold post. simpl. apply H2. destruct r; simpl in *; [discriminate | exact Hu].
        * eapply H3; eassumption.
      + intros i t Ht. destruct i as [|i]; simpl in *; [inversion Ht; subst; reflexivity | eapply H4; eassumption].
  Qed.

  Lemma trajectory_unique tr : forall init plan,
    is_trajectory S A app succ allow init plan tr -> tr = run_plan S A app succ allow init plan.
  Proof.
    induction tr as [|t tr' IH]; intros init plan [H1 H2 H3 H4].
    - simpl in H1. subst plan. reflexivity.
    - simpl in H1. subst plan.
      assert (Hp : pre S A t = init) by (apply H2; reflexivity).
      assert (Hq : post S A t = step_state S A app succ allow (act S A t) init).
      { rewrite (H4 0 t eq_refl), Hp. reflexivity. }
      simpl. f_equal.
      + destruct t as [[p x] q]. unfold pre, post, act in *. simpl in *. subst. reflexivity.
      + apply IH. constructor.
        * reflexivity.
        * intros u Hu. rewrite <- Hq. apply (H3 0 t u eq_refl). simpl. destruct tr'; simpl in *; [discriminate | exact Hu].
        * intros i x y Hx Hy. apply (H3 (Datatypes.S i) x y); assumption.
        * intros i x Hx. apply (H4 (Datatypes.S i) x). exact Hx.
  Qed.

  Lemma trajectory_iff tr init plan :
    is_trajectory S A app succ allow init plan tr <-> tr = run_plan S A app succ allow init plan.
  Proof. split; [apply trajectory_unique | intros E; subst tr; apply run_plan_is_trajectory]. Qed.
End SpecSanity.
