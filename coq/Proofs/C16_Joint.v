(* C16: proofs about the model of joint execution (Model/Joint.v). *)
From Coq Require Import List Ascii String Bool Arith Lia PrimFloat Permutation.
From Verif Require Import Base.Result Base.Str Base.Sexp Base.PyDict Model.Types Model.Domain Model.Exec Model.Plan
  Model.Joint Spec.Pddl Spec.Joint Proofs.C04_Thread Proofs.C04_Plan Proofs.C16_Sets Proofs.C16_Commute.
Import ListNotations.
Open Scope string_scope.
Open Scope list_scope.

Lemma filter_idem {A} (f : A -> bool) (l : list A) : filter f (filter f l) = filter f l.
Proof.
  induction l as [|x xs IH]; simpl; [reflexivity|].
  destruct (f x) eqn:E; simpl; [rewrite E, IH|]; auto.
Qed.

(* nop entries change nothing: the joint action is the joint action of its non-nop members *)
Lemma apply_actions_nops d eps objs sch cur calls allow :
  apply_actions d eps objs sch cur calls allow =
  apply_actions d eps objs sch cur (filter (fun c => negb (is_nop c)) calls) allow.
Proof. unfold apply_actions. rewrite filter_idem. reflexivity. Qed.

Lemma foldM_app {A S} (f : S -> A -> result S) l1 : forall l2 s,
  foldM f (l1 ++ l2) s = (do s' <- foldM f l1 s; foldM f l2 s').
Proof.
  induction l1 as [|x xs IH]; intros l2 s; simpl; [reflexivity|].
  destruct (f s x); simpl; [apply IH | reflexivity].
Qed.

(* numbering from k *)
Definition number_from {A} (k : nat) (l : list A) : list (nat * A) := combine (seq k (List.length l)) l.

Lemma number_from_0 {A} (l : list A) : number l = number_from 0 l.
Proof. reflexivity. Qed.

Lemma number_from_cons {A} k (x : A) l : number_from k (x :: l) = (k, x) :: number_from (S k) l.
Proof. reflexivity. Qed.

Lemma number_from_app {A} (l1 : list A) : forall k l2,
  number_from k (l1 ++ l2) = number_from k l1 ++ number_from (k + List.length l1) l2.
Proof.
  induction l1 as [|x xs IH]; intros k l2.
  - simpl. rewrite Nat.add_0_r. reflexivity.
  - change ((x :: xs) ++ l2) with (x :: (xs ++ l2)). rewrite !number_from_cons, IH. simpl.
    replace (k + S (List.length xs)) with (S (k + List.length xs)) by lia. reflexivity.
Qed.

Section Joint.
  Variable d : mdomain.
  Variable eps : float.
  Variable objs : option objects.
  Variable sch : schedule.

  (* the members one after the other: each is applied (as apply(.., allow_inapplicable_actions=True)) to the state
     its predecessor returned *)
  Definition seq_members (s : state) (ex : list (nat * acall)) : result state :=
    foldM (fun acc ic => apply_call d eps objs true (sch (fst ic)) (snd ic) acc) ex s.

  Lemma joint_member_applicable allow orig acc i c :
    call_applicable d eps objs c orig = Ok true ->
    joint_member d eps objs allow sch orig acc (i, c) =
    (do s <- apply_call d eps objs true (sch i) c (ms_st acc); Ok {| ms_init := false; ms_st := s |}).
  Proof.
    unfold call_applicable, joint_member, apply_call, apply_action. simpl.
    destruct (dget (d_actions d) (ac_name c)) as [a|]; [|discriminate].
    destruct (ground_action d a (ac_args c)) as [ga|k]; simpl; [|discriminate].
    intros H. rewrite H. simpl. reflexivity.
  Qed.

  Lemma joint_fold_applicable allow orig ex : forall k s,
    Forall (fun c => call_applicable d eps objs c orig = Ok true) ex ->
    foldM (joint_member d eps objs allow sch orig) (number_from k ex) {| ms_init := false; ms_st := s |} =
    (do s' <- seq_members s (number_from k ex); Ok {| ms_init := false; ms_st := s' |}).
  Proof.
    unfold seq_members. induction ex as [|c r IH]; intros k s HF.
    - reflexivity.
    - inversion HF as [|x l Hc Hr]; subst. rewrite number_from_cons. simpl.
      rewrite (joint_member_applicable allow orig _ k c Hc). simpl.
      destruct (apply_call d eps objs true (sch k) c s) as [s1|e]; simpl; [|reflexivity].
      apply IH. exact Hr.
  Qed.

  Lemma apply_call_allow_irrelevant allow ord c s :
    call_applicable d eps objs c s = Ok true ->
    apply_call d eps objs allow ord c s = apply_call d eps objs true ord c s.
  Proof.
    unfold call_applicable, apply_call, apply_action.
    destruct (dget (d_actions d) (ac_name c)) as [a|]; [|discriminate].
    destruct (ground_action d a (ac_args c)) as [ga|k]; simpl; [|discriminate].
    intros H. apply apply_op_allow_irrelevant. exact H.
  Qed.

  (* all non-nop members applicable in the current state: the joint action IS the sequential application of its
     members in list order (whatever the allow switch) *)
  Theorem apply_actions_sequential cur calls allow :
    Forall (fun c => call_applicable d eps objs c (ms_st cur) = Ok true) (filter (fun c => negb (is_nop c)) calls) ->
    apply_actions d eps objs sch cur calls allow =
    (do s' <- seq_members (ms_st cur) (number (filter (fun c => negb (is_nop c)) calls));
     Ok {| ms_init := false; ms_st := s' |}).
  Proof.
    unfold apply_actions. set (ex := filter (fun c => negb (is_nop c)) calls). intros HF.
    destruct ex as [|c [|c2 r]] eqn:E.
    - reflexivity.
    - inversion HF as [|x l Hc _]; subst. rewrite (apply_call_allow_irrelevant allow _ c _ Hc).
      unfold seq_members. simpl. destruct (apply_call d eps objs true (sch 0) c (ms_st cur)); reflexivity.
    - rewrite number_from_0. apply joint_fold_applicable. exact HF.
  Qed.

  (* inapplicable actions explicitly allowed: nothing is refused - the joint action is again the members one after
     the other in list order (provided the applicability tests themselves raise nothing) *)
  Lemma joint_member_allowed orig acc i c b :
    call_applicable d eps objs c orig = Ok b ->
    joint_member d eps objs true sch orig acc (i, c) =
    (do s <- apply_call d eps objs true (sch i) c (ms_st acc); Ok {| ms_init := false; ms_st := s |}).
  Proof.
    unfold call_applicable, joint_member, apply_call, apply_action. simpl.
    destruct (dget (d_actions d) (ac_name c)) as [a|]; [|discriminate].
    destruct (ground_action d a (ac_args c)) as [ga|k]; simpl; [|discriminate].
    intros H. rewrite H. simpl. rewrite orb_true_r. reflexivity.
  Qed.

  Theorem apply_actions_allowed cur calls :
    Forall (fun c => exists b, call_applicable d eps objs c (ms_st cur) = Ok b) (filter (fun c => negb (is_nop c)) calls) ->
    apply_actions d eps objs sch cur calls true =
    (do s' <- seq_members (ms_st cur) (number (filter (fun c => negb (is_nop c)) calls));
     Ok {| ms_init := false; ms_st := s' |}).
  Proof.
    unfold apply_actions. set (ex := filter (fun c => negb (is_nop c)) calls). intros HF.
    assert (Hfold : forall l k s, Forall (fun c => exists b, call_applicable d eps objs c (ms_st cur) = Ok b) l ->
              foldM (joint_member d eps objs true sch (ms_st cur)) (number_from k l) {| ms_init := false; ms_st := s |} =
              (do s' <- seq_members s (number_from k l); Ok {| ms_init := false; ms_st := s' |})).
    { unfold seq_members. induction l as [|c r IH]; intros k s Hl; [reflexivity|].
      inversion Hl as [|x l' [b Hb] Hr]; subst. rewrite number_from_cons. simpl.
      rewrite (joint_member_allowed _ _ k c b Hb). simpl.
      destruct (apply_call d eps objs true (sch k) c s) as [s1|e]; simpl; [apply IH; exact Hr | reflexivity]. }
    destruct ex as [|c [|c2 r]] eqn:E.
    - reflexivity.
    - unfold seq_members. simpl. destruct (apply_call d eps objs true (sch 0) c (ms_st cur)); reflexivity.
    - rewrite number_from_0. apply Hfold. exact HF.
  Qed.

  (* some member inapplicable in the current state and inapplicable actions not allowed: ValueError.
     [before] are the members in front of it (all applicable; applying them raised nothing) *)
  Theorem apply_actions_refuses cur calls before c after s1 :
    filter (fun c => negb (is_nop c)) calls = before ++ c :: after ->
    Forall (fun c => call_applicable d eps objs c (ms_st cur) = Ok true) before ->
    seq_members (ms_st cur) (number_from 0 before) = Ok s1 ->
    call_applicable d eps objs c (ms_st cur) = Ok false ->
    apply_actions d eps objs sch cur calls false = Err EValue.
  Proof.
    unfold apply_actions. intros E HF Hseq Hc. rewrite E.
    assert (Hmember : forall acc i, joint_member d eps objs false sch (ms_st cur) acc (i, c) = Err EValue).
    { intros acc i. unfold call_applicable in Hc. unfold joint_member. simpl.
      destruct (dget (d_actions d) (ac_name c)) as [a|]; [|discriminate].
      destruct (ground_action d a (ac_args c)) as [ga|k]; simpl in *; [|discriminate].
      rewrite Hc. reflexivity. }
    assert (Hfold : foldM (joint_member d eps objs false sch (ms_st cur)) (number (before ++ c :: after))
                          {| ms_init := false; ms_st := ms_st cur |} = Err EValue).
    { rewrite number_from_0, number_from_app, foldM_app.
      rewrite (joint_fold_applicable false (ms_st cur) before 0 (ms_st cur) HF). rewrite Hseq. cbn [bind].
      rewrite number_from_cons. cbn [foldM]. rewrite Hmember. reflexivity. }
    destruct before as [|b0 br].
    - destruct after as [|a0 ar].
      + (* the single member *)
        simpl. unfold call_applicable in Hc. unfold apply_call, apply_action.
        destruct (dget (d_actions d) (ac_name c)) as [a|]; [|discriminate].
        destruct (ground_action d a (ac_args c)) as [ga|k]; simpl in *; [|discriminate].
        rewrite (apply_op_refuses _ _ _ _ _ _ _ Hc). reflexivity.
      + exact Hfold.
    - destruct br as [|b1 br']; [destruct after|]; exact Hfold.
  Qed.
End Joint.

(* ================= the exporter: one triplet per joint action, chained ================= *)
Section Export.
  Variable d : mdomain.
  Variable eps : float.
  Variable exporter_allow : bool.
  Variable objs : objects.
  Variable sch : nat -> schedule.
  Variable allow : bool.

  Notation cmt := (create_multi_agent_triplet d eps exporter_allow objs).
  Definition mk_jtriplet (i : nat) (prev : mstate) (line : string) : result jtriplet := cmt (sch i) allow prev line.

  Lemma cmt_spec s prev line t :
    cmt s allow prev line = Ok t <->
    exists calls txts nxt,
      parse_joint_call line = Ok calls /\ mapM (member_text d) calls = Ok txts /\
      apply_actions d eps (Some objs) s prev (filter (fun c => negb (is_nop c)) calls) (allow || exporter_allow) = Ok nxt /\
      t = {| jt_prev := prev; jt_ops := txts; jt_next := nxt |}.
  Proof.
    unfold create_multi_agent_triplet. split.
    - intros H. destruct (parse_joint_call line) as [calls|k] eqn:E1; simpl in H; [|discriminate].
      destruct (mapM (member_text d) calls) as [txts|k] eqn:E2; simpl in H; [|discriminate].
      destruct (apply_actions d eps (Some objs) s prev (filter (fun c => negb (is_nop c)) calls) (allow || exporter_allow))
        as [nxt|k] eqn:E3; simpl in H; [|discriminate].
      inversion H; subst. exists calls, txts, nxt. repeat split; first [reflexivity | assumption].
    - intros [calls [txts [nxt [H1 [H2 [H3 H4]]]]]]. rewrite H1. simpl. rewrite H2. simpl. rewrite H3. simpl.
      subst t. reflexivity.
  Qed.

  Lemma mk_jtriplet_prv i s l t : mk_jtriplet i s l = Ok t -> jt_prev t = s.
  Proof.
    unfold mk_jtriplet. intros H. apply cmt_spec in H. destruct H as [calls [txts [nxt [_ [_ [_ Ht]]]]]].
    subst t. reflexivity.
  Qed.

  Lemma parse_joint_plan_thread init lines :
    parse_joint_plan d eps exporter_allow objs sch allow init lines =
    thread _ _ _ mk_jtriplet jt_next 0 {| ms_init := true; ms_st := init |} lines.
  Proof.
    unfold parse_joint_plan.
    change (jplan_step d eps exporter_allow objs sch allow) with (tstep _ _ _ mk_jtriplet jt_next).
    apply foldM_thread0.
  Qed.

  Theorem parse_joint_plan_trajectory init lines ts :
    parse_joint_plan d eps exporter_allow objs sch allow init lines = Ok ts ->
    List.length ts = List.length lines /\
    (forall t, hd_error ts = Some t -> jt_prev t = {| ms_init := true; ms_st := init |}) /\
    (forall k t u, nth_error ts k = Some t -> nth_error ts (S k) = Some u -> jt_prev u = jt_next t) /\
    (forall k t, nth_error ts k = Some t ->
       exists line calls,
         nth_error lines k = Some line /\ parse_joint_call line = Ok calls /\
         mapM (member_text d) calls = Ok (jt_ops t) /\
         apply_actions d eps (Some objs) (sch k) (jt_prev t) (filter (fun c => negb (is_nop c)) calls)
                       (allow || exporter_allow) = Ok (jt_next t)).
  Proof.
    rewrite parse_joint_plan_thread. intros H. apply thread_threaded in H. repeat split.
    - eapply threaded_length; eassumption.
    - intros t Ht. eapply (threaded_first _ _ _ mk_jtriplet jt_next jt_prev mk_jtriplet_prv); eassumption.
    - intros k t u Ht Hu. eapply (threaded_chain _ _ _ mk_jtriplet jt_next jt_prev mk_jtriplet_prv); eassumption.
    - intros k t Ht.
      destruct (threaded_step _ _ _ mk_jtriplet jt_next jt_prev mk_jtriplet_prv _ _ _ _ H k t Ht) as [line [Hl Hm]].
      simpl in Hm. unfold mk_jtriplet in Hm. apply cmt_spec in Hm.
      destruct Hm as [calls [txts [nxt [H1 [H2 [H3 H4]]]]]].
      exists line, calls. rewrite H4 in *. simpl in *. repeat split; assumption.
  Qed.

  (* a refused joint action aborts the export: there is no 'unchanged state' fallback in the multi-agent exporter *)
  Theorem parse_joint_plan_fails_at init l1 line l2 ts1 k :
    parse_joint_plan d eps exporter_allow objs sch allow init l1 = Ok ts1 ->
    cmt (sch (List.length l1)) allow (end_state _ _ jt_next {| ms_init := true; ms_st := init |} ts1) line = Err k ->
    parse_joint_plan d eps exporter_allow objs sch allow init (l1 ++ line :: l2) = Err k.
  Proof.
    rewrite !parse_joint_plan_thread. intros H1 H2.
    apply (thread_fails_at _ _ _ mk_jtriplet jt_next l1 line l2 0 _ ts1 k H1). exact H2.
  Qed.
End Export.

Lemma export_joint_shape ts items :
  export_joint ts = Ok items ->
  List.length items = S (2 * List.length ts) /\
  (forall t, hd_error ts = Some t -> hd_error items = Some (XState (jt_prev t))) /\
  (forall k t, nth_error ts k = Some t ->
     nth_error items (S (2 * k)) = Some (XOp (jt_ops t)) /\ nth_error items (S (S (2 * k))) = Some (XState (jt_next t))).
Proof.
  unfold export_joint. destruct ts as [|t0 r]; [discriminate|]. intros H. inversion H; subst. clear H.
  destruct (interleave_shape (fun t => XOp (jt_ops t)) (fun t => XState (jt_next t)) (t0 :: r)) as [L1 L2].
  repeat split.
  - cbn [List.length]. f_equal. exact L1.
  - intros t Ht. cbn [hd_error] in *. inversion Ht; subst. reflexivity.
  - destruct (L2 k t H) as [A _]. cbn [nth_error]. exact A.
  - destruct (L2 k t H) as [_ B]. cbn [nth_error]. exact B.
Qed.
