(* C16: proofs about the model of joint execution (Model/Joint.v). *)
From Coq Require Import List Ascii String Bool Arith Lia PrimFloat.
From Verif Require Import Base.Result Base.Str Base.Sexp Base.PyDict Model.Types Model.Domain Model.Exec Model.Plan
  Model.Joint Spec.Pddl.
Import ListNotations.
Open Scope string_scope.
Open Scope list_scope.

Lemma filter_idem {A} (f : A -> bool) (l : list A) : filter f (filter f l) = filter f l.
Proof.
  induction l as [|x xs IH]; simpl; [reflexivity|].
  destruct (f x) eqn:E; simpl; [rewrite E, IH|]; auto.
Qed.

(* nop entries change nothing: the joint action is the joint action of its non-nop members *)
Lemma apply_actions_nops d eps objs sch cur calls allow :
  apply_actions d eps objs sch cur calls allow =
  apply_actions d eps objs sch cur (filter (fun c => negb (is_nop c)) calls) allow.
Proof. unfold apply_actions. rewrite filter_idem. reflexivity. Qed.
