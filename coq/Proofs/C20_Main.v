(* C20: the theorems about a whole action call, the refutations inside the two finding classes, examples. *)
From Coq Require Import List Ascii String Bool Arith PrimFloat Lia.
From Verif Require Import Base.Result Base.Str Base.PyDict Model.Types Model.Domain Model.Exec Model.GroundTyped
  Spec.Pddl Spec.Subst Proofs.C02_Sub Proofs.C20_Defs Proofs.C20_Subst Proofs.C02_Eval Proofs.C20_Report.
Import ListNotations.
Open Scope string_scope.
Open Scope list_scope.

Lemma dkeys_combine_in (ks args : list string) k : In k (dkeys (combine ks args)) -> In k ks.
Proof.
  unfold dkeys. intros H. apply in_map_iff in H. destruct H as [[a b] [<- Hin]]. simpl.
  eapply in_combine_l. exact Hin.
Qed.

Lemma no_shadow_sub consts (a b : list string) :
  (forall k, In k a -> In k b) -> no_shadow consts b = true -> no_shadow consts a = true.
Proof.
  unfold no_shadow. rewrite !forallb_forall. intros Hs H x Hx. apply H. apply Hs. exact Hx.
Qed.

(* ---------- the precondition of a call ---------- *)
Theorem C20_reported_pre_lemma (d : mdomain) (a : maction) (args : list string) (phi : form)
        (items : list ritem) (eqs : list eqpair) :
  let sigma := combine (dkeys (ma_sig a)) args in
  denote_pre (ma_pre a) = Some phi ->
  no_shadow (d_consts d) (dkeys (ma_sig a) ++ pre_bvars (ma_pre a)) = true ->
  under_forall_touches sigma false phi = false ->
  form_repeats sigma phi = false ->
  report_pre d (ma_sig a) sigma (ma_pre a) = Ok (items, eqs) ->
  map rlit_struct (items_lits items) = form_lits (d_consts d) (ma_sig a) sigma phi /\
  items_nums items = map cmp_gtree_of (form_cmps sigma phi) /\
  eqs = form_eqs sigma phi.
Proof.
  intros sigma Hd Hns Ht Hr H.
  rewrite no_shadow_app in Hns. apply andb_true_iff in Hns. destruct Hns as [Hn1 Hn2].
  assert (Hpm : nsh (d_consts d) sigma).
  { apply nsh_of_no_shadow. eapply no_shadow_sub; [|exact Hn1]. intros k. apply dkeys_combine_in. }
  assert (Hsg : nsh (d_consts d) (ma_sig a)) by (apply nsh_of_no_shadow; exact Hn1).
  destruct (proj1 (report_both d (ma_pre a)) phi (ma_sig a) (ma_sig a) sigma sigma items eqs Hd
                  (sig_agree_refl _) (env_agree_refl _) Hpm Hsg Hn2 Ht Hr H) as [[H1 H2] H3].
  repeat split; assumption.
Qed.

(* ---------- an effect group ---------- *)
Fixpoint tree_repeats (sg : env) (t : mtree) : bool :=
  match t with
  | TNum _ => false
  | TFn _ args => repeats (map (subst sg) args)
  | TNode _ l r => tree_repeats sg l || tree_repeats sg r
  end.

Lemma report_tree_subst (d : mdomain) (pm : pmap) (sigma : env) (t : mtree) : forall g,
  env_agree pm sigma -> nsh (d_consts d) pm -> tree_repeats sigma t = false ->
  report_tree d pm t = Ok g -> g = subst_tree (subst sigma) t.
Proof.
  induction t as [x|f args|op l IHl r IHr]; intros g He Hn Hr Hg; simpl in Hg.
  - injection Hg as <-. reflexivity.
  - apply bind_ok_inv in Hg. destruct Hg as [os [Hos Hg]]. injection Hg as <-.
    rewrite (ground_names_ok d pm args os Hos), (names_spec d pm sigma args He Hn).
    simpl in Hr. rewrite (key_collapse_norepeat _ Hr). reflexivity.
  - simpl in Hr. apply orb_false_iff in Hr. destruct Hr as [Hra Hrb].
    apply bind_ok_inv in Hg. destruct Hg as [gl [Hgl Hg]].
    apply bind_ok_inv in Hg. destruct Hg as [gr [Hgr Hg]]. injection Hg as <-.
    simpl. rewrite (IHl _ He Hn Hra Hgl), (IHr _ He Hn Hrb Hgr). reflexivity.
Qed.

Theorem C20_reported_group_lemma (d : mdomain) (a : maction) (args : list string)
        (disc : list mlit) (nums : list mtree) (g : rgroup) :
  let sigma := combine (dkeys (ma_sig a)) args in
  no_shadow (d_consts d) (dkeys (ma_sig a)) = true ->
  report_group d (ma_sig a) sigma None disc nums = Ok g ->
  map rlit_struct (rg_disc g) =
    map (fun l => mk_lit (d_consts d) (ma_sig a) sigma (l_pos l) (l_name l) (l_args l)) disc /\
  (existsb (tree_repeats sigma) nums = false -> rg_num g = map (subst_tree (subst sigma)) nums).
Proof.
  intros sigma Hn1 H.
  assert (Hpm : nsh (d_consts d) sigma).
  { apply nsh_of_no_shadow. eapply no_shadow_sub; [|exact Hn1]. intros k. apply dkeys_combine_in. }
  assert (Hsg : nsh (d_consts d) (ma_sig a)) by (apply nsh_of_no_shadow; exact Hn1).
  unfold report_group in H. simpl in H.
  apply bind_ok_inv in H. destruct H as [rd [Hrd H]].
  apply bind_ok_inv in H. destruct H as [rn [Hrn H]]. injection H as <-. simpl. split.
  - apply mapM_ok_inv in Hrd. induction Hrd as [|l y disc0 rd0 Hx Hr IH]; simpl; [reflexivity|].
    rewrite (report_lit_spec d (ma_sig a) (ma_sig a) sigma sigma _ _ _ y (sig_agree_refl _) (env_agree_refl _) Hpm Hsg Hx), IH.
    reflexivity.
  - intros Hrep. apply mapM_ok_inv in Hrn. induction Hrn as [|t y nums0 rn0 Hx Hr IH]; simpl; [reflexivity|].
    simpl in Hrep. apply orb_false_iff in Hrep. destruct Hrep as [Hr1 Hr2].
    rewrite (report_tree_subst d sigma sigma t y (env_agree_refl _) Hpm Hr1 Hx), (IH Hr2). reflexivity.
Qed.

(* the antecedent of a conditional group is reported like a precondition *)
Theorem C20_reported_ante_lemma (d : mdomain) (a : maction) (args : list string) (ante : mpre) (phi : form)
        (disc : list mlit) (nums : list mtree) (g : rgroup) :
  let sigma := combine (dkeys (ma_sig a)) args in
  denote_pre ante = Some phi ->
  no_shadow (d_consts d) (dkeys (ma_sig a) ++ pre_bvars ante) = true ->
  under_forall_touches sigma false phi = false ->
  form_repeats sigma phi = false ->
  report_group d (ma_sig a) sigma (Some ante) disc nums = Ok g ->
  exists items eqs, rg_ante g = Some (items, eqs) /\
    map rlit_struct (items_lits items) = form_lits (d_consts d) (ma_sig a) sigma phi /\
    items_nums items = map cmp_gtree_of (form_cmps sigma phi) /\
    eqs = form_eqs sigma phi.
Proof.
  intros sigma Hd Hns Ht Hr H. unfold report_group in H.
  apply bind_ok_inv in H. destruct H as [ra [Hra H]].
  apply bind_ok_inv in H. destruct H as [rd [Hrd H]].
  apply bind_ok_inv in H. destruct H as [rn [Hrn H]]. injection H as <-. simpl.
  apply bind_ok_inv in Hra. destruct Hra as [[items eqs] [Hrp Hra]]. injection Hra as <-.
  exists items, eqs. split; [reflexivity|].
  rewrite no_shadow_app in Hns. apply andb_true_iff in Hns. destruct Hns as [Hn1 Hn2].
  assert (Hpm : nsh (d_consts d) sigma).
  { apply nsh_of_no_shadow. eapply no_shadow_sub; [|exact Hn1]. intros k. apply dkeys_combine_in. }
  assert (Hsg : nsh (d_consts d) (ma_sig a)) by (apply nsh_of_no_shadow; exact Hn1).
  destruct (proj1 (report_both d ante) phi (ma_sig a) (ma_sig a) sigma sigma items eqs Hd
                  (sig_agree_refl _) (env_agree_refl _) Hpm Hsg Hn2 Ht Hr Hrp) as [[H1 H2] H3].
  repeat split; assumption.
Qed.

(* ---------- the report and Operator.ground() fail together ---------- *)
(* (the typed form adds no failure of its own: a name that resolves has a type) -- stated on literals *)
Lemma report_lit_ok_iff (d : mdomain) (sg : signature) (pm : pmap) pos p args :
  (forall t, dmem pm t = true -> dmem sg t = true) ->
  is_ok (report_lit d sg pm pos p args) = is_ok (ground_lit d pm p args).
Proof.
  intros Hsub. unfold report_lit. destruct (ground_lit d pm p args) as [a|k] eqn:E; simpl; [|reflexivity].
  assert (Hres : forallb (resolvable d (dkeys pm)) args = true).
  { assert (H : is_ok (ground_lit d pm p args) = true) by (rewrite E; reflexivity).
    rewrite ground_lit_is_ok in H. unfold lit_ok in H. destruct (dget (d_preds d) p); [|discriminate].
    apply andb_true_iff in H. exact (proj2 H). }
  assert (Hty : is_ok (mapM (name_type d sg) args) = true).
  { rewrite mapM_is_ok. rewrite forallb_forall in *. intros t Ht. specialize (Hres t Ht).
    unfold resolvable in Hres. rewrite str_in_dkeys in Hres. unfold name_type.
    unfold dmem in Hres at 1. destruct (dget (d_consts d) t); [reflexivity|]. simpl in Hres.
    specialize (Hsub t Hres). unfold dmem in Hsub. destruct (dget sg t); [reflexivity|discriminate]. }
  destruct (mapM (name_type d sg) args); [reflexivity|discriminate].
Qed.

(* ---------- refutations inside the finding classes ---------- *)
(* D38: (forall (?q - a) (and (r ?x ?q))) called with (o1): the report has the lifted (r ?x ?q), the spec (r o1 ?q) *)
Definition d38_dom : mdomain :=
  {| d_name := "d"; d_reqs := []; d_types := [("a", "object")]; d_consts := [];
     d_preds := [("p", [("?x", "a")]); ("r", [("?x", "a"); ("?y", "a")])]; d_funcs := []; d_actions := [] |}.
Definition d38_act : maction :=
  {| ma_name := "act"; ma_sig := [("?x", "a")];
     ma_pre := MPre "and" [MLit true "p" ["?x"]; MUniv "?q" "a" (MPre "and" [MLit true "r" ["?x"; "?q"]] [] [])] [] [];
     ma_disc := []; ma_num := []; ma_cond := []; ma_univ := [] |}.

Theorem C20_reported_refuted_forall_lemma :
  exists (d : mdomain) (a : maction) (args : list string) (phi : form) (items : list ritem) (eqs : list eqpair),
    denote_pre (ma_pre a) = Some phi /\
    no_shadow (d_consts d) (dkeys (ma_sig a) ++ pre_bvars (ma_pre a)) = true /\
    form_repeats (combine (dkeys (ma_sig a)) args) phi = false /\
    report_pre d (ma_sig a) (combine (dkeys (ma_sig a)) args) (ma_pre a) = Ok (items, eqs) /\
    map rlit_struct (items_lits items) <>
      form_lits (d_consts d) (ma_sig a) (combine (dkeys (ma_sig a)) args) phi.
Proof.
  exists d38_dom, d38_act, ["o1"]. eexists. eexists. eexists.
  split; [vm_compute; reflexivity|]. split; [vm_compute; reflexivity|]. split; [vm_compute; reflexivity|].
  split; [vm_compute; reflexivity|]. vm_compute. discriminate.
Qed.

(* D07: (>= (g ?x ?y) 1) called with (o1 o1): the report has (g o1), the spec (g o1 o1) *)
Definition d07_dom : mdomain :=
  {| d_name := "d"; d_reqs := []; d_types := [("a", "object")]; d_consts := [];
     d_preds := [("p", [("?x", "a")])]; d_funcs := [("g", [("?x", "a"); ("?y", "a")])]; d_actions := [] |}.
Definition d07_act : maction :=
  {| ma_name := "act"; ma_sig := [("?x", "a"); ("?y", "a")];
     ma_pre := MPre "and" [MNum (TNode ">=" (TFn "g" ["?x"; "?y"]) (TNum 1))] [] [];
     ma_disc := []; ma_num := []; ma_cond := []; ma_univ := [] |}.

Theorem C20_reported_refuted_repeat_lemma :
  exists (d : mdomain) (a : maction) (args : list string) (phi : form) (items : list ritem) (eqs : list eqpair),
    denote_pre (ma_pre a) = Some phi /\
    no_shadow (d_consts d) (dkeys (ma_sig a) ++ pre_bvars (ma_pre a)) = true /\
    under_forall_touches (combine (dkeys (ma_sig a)) args) false phi = false /\
    report_pre d (ma_sig a) (combine (dkeys (ma_sig a)) args) (ma_pre a) = Ok (items, eqs) /\
    items_nums items <> map cmp_gtree_of (form_cmps (combine (dkeys (ma_sig a)) args) phi).
Proof.
  exists d07_dom, d07_act, ["o1"; "o1"]. eexists. eexists. eexists.
  split; [vm_compute; reflexivity|]. split; [vm_compute; reflexivity|]. split; [vm_compute; reflexivity|].
  split; [vm_compute; reflexivity|]. vm_compute. intros H. discriminate H.
Qed.

(* ---------- the hypotheses are satisfiable by a non-trivial call ---------- *)
(* types b < a, constant c0 - b; (act ?x - a ?y - b), called with a repeated constant and with distinct objects:
   (and (p ?x) (not (r ?x c0)) (= ?x ?y) (or (q ?y) (>= (g ?x ?y) (+ (h) 1)))
        (forall (?v - a) (or (p ?v) (r c0 ?v))))          -- the quantified body mentions no parameter *)
Definition ex20_dom : mdomain :=
  {| d_name := "d"; d_reqs := []; d_types := [("a", "object"); ("b", "a")]; d_consts := [("c0", "b")];
     d_preds := [("p", [("?a", "a")]); ("q", [("?a", "a")]); ("r", [("?a", "a"); ("?b", "a")])];
     d_funcs := [("g", [("?a", "a"); ("?b", "a")]); ("h", [])]; d_actions := [] |}.
Definition ex20_act : maction :=
  {| ma_name := "act"; ma_sig := [("?x", "a"); ("?y", "b")];
     ma_pre := MPre "and"
                    [MLit true "p" ["?x"]; MLit false "r" ["?x"; "c0"];
                     MNested (MPre "or" [MLit true "q" ["?y"];
                                         MNum (TNode ">=" (TFn "g" ["?x"; "?y"]) (TNode "+" (TFn "h" []) (TNum 1)))] [] []);
                     MUniv "?v" "a" (MPre "or" [MLit true "p" ["?v"]; MLit true "r" ["c0"; "?v"]] [] [])]
                    [("?x", "?y")] [];
     ma_disc := [{| l_pos := true; l_name := "q"; l_args := ["?x"] |}; {| l_pos := false; l_name := "r"; l_args := ["?y"; "c0"] |}];
     ma_num := [TNode "increase" (TFn "g" ["?y"; "?x"]) (TFn "h" [])]; ma_cond := []; ma_univ := [] |}.

Example C20_example_hypotheses :
  exists phi,
    denote_pre (ma_pre ex20_act) = Some phi /\
    no_shadow (d_consts ex20_dom) (dkeys (ma_sig ex20_act) ++ pre_bvars (ma_pre ex20_act)) = true /\
    under_forall_touches (combine (dkeys (ma_sig ex20_act)) ["o1"; "o2"]) false phi = false /\
    form_repeats (combine (dkeys (ma_sig ex20_act)) ["o1"; "o2"]) phi = false /\
    is_ok (report_action ex20_dom ex20_act ["o1"; "o2"]) = true /\
    is_ok (ground_action ex20_dom ex20_act ["o1"; "o2"]) = true.
Proof. eexists. repeat split; vm_compute; reflexivity. Qed.

(* what the model reports for (act o1 o2): texts included *)
Example C20_example_report :
  match report_action ex20_dom ex20_act ["o1"; "o2"] with
  | Ok r => (map (fun l => (untyped_text l, typed_text l)) (items_lits (rp_items r)), rp_eqs r,
             map (fun g => map typed_text (rg_disc g)) (rp_groups r))
  | Err _ => ([], [], [])
  end =
  ([("(p o1)", "(p o1 - a)"); ("(not (r o1 c0))", "(not (r o1 - a c0 - b))"); ("(q o2)", "(q o2 - b)");
    ("(p ?v)", "(p ?v - a)"); ("(r c0 ?v)", "(r c0 - b ?v - a)")],
   [(true, "o1", "o2")],
   [["(q o1 - a)"; "(not (r o2 - b c0 - b))"]]).
Proof. vm_compute. reflexivity. Qed.

Lemma C20_lit_lemma (d : mdomain) (pm : pmap) (p : string) (args : list string) (a : atom) :
  no_shadow (d_consts d) (dkeys pm) = true ->
  ground_lit d pm p args = Ok a -> a = (p, map (subst pm) args).
Proof.
  intros Hns H. rewrite (ground_lit_ok d pm p args a H). f_equal.
  apply map_ext. intros t. apply gname_subst. exact Hns.
Qed.

Lemma C20_lit_returns_lemma (d : mdomain) (pm : pmap) (p : string) (args : list string) :
  is_ok (ground_lit d pm p args) = lit_ok d (dkeys pm) p args.
Proof. apply ground_lit_is_ok. Qed.
