(* C06: the executable closure used as the oracle of the correspondence check is the spec relation,
   for EVERY declaration list (forest or not): closure_b ds x y = true <-> subtype ds x y. *)
From Coq Require Import List String Bool Arith Lia Relations.
From Verif Require Import Base.Str Spec.Types.
Import ListNotations.
Open Scope string_scope.
Open Scope list_scope.

Lemma succs_edge ds s z : In z (succs ds s) <-> edge ds s z.
Proof.
  unfold succs, declared_succs, edge, declared. simpl. rewrite in_map_iff. split.
  - intros [H|[[c p] [Hp Hin]]]; [right; symmetry; exact H|]. left.
    apply filter_In in Hin. destruct Hin as [Hin Heq]. simpl in *. apply String.eqb_eq in Heq. subst. exact Hin.
  - intros [H|H]; [|left; symmetry; exact H]. right. exists (s, z). split; [reflexivity|].
    apply filter_In. split; [exact H|]. simpl. apply String.eqb_refl.
Qed.

(* ---------- add_new ---------- *)
Lemma add_new_incl l : forall acc z, In z acc -> In z (add_new l acc).
Proof.
  induction l as [|x r IH]; intros acc z H; simpl; [exact H|].
  destruct (str_in x acc); apply IH; [exact H|apply in_or_app; left; exact H].
Qed.

Lemma add_new_adds l : forall acc z, In z l -> In z (add_new l acc).
Proof.
  induction l as [|x r IH]; intros acc z H; [contradiction|]. simpl.
  destruct H as [->|H].
  - destruct (str_in z acc) eqn:E.
    + apply add_new_incl. apply str_in_In, E.
    + apply add_new_incl. apply in_or_app. right. left. reflexivity.
  - destruct (str_in x acc); apply IH, H.
Qed.

Lemma add_new_from l : forall acc z, In z (add_new l acc) -> In z acc \/ In z l.
Proof.
  induction l as [|x r IH]; intros acc z H; simpl in H; [left; exact H|].
  destruct (str_in x acc).
  - destruct (IH _ _ H) as [H1|H1]; [left; exact H1|right; right; exact H1].
  - destruct (IH _ _ H) as [H1|H1]; [|right; right; exact H1].
    apply in_app_or in H1. destruct H1 as [H1|[->|[]]]; [left; exact H1|right; left; reflexivity].
Qed.

Lemma nodup_snoc (acc : list string) x : NoDup acc -> ~ In x acc -> NoDup (acc ++ [x]).
Proof.
  induction acc as [|a acc IH]; intros Hnd Hx; simpl.
  - constructor; [intros []|constructor].
  - inversion Hnd as [|b l Ha Hr]; subst. constructor.
    + intros Hin. apply in_app_or in Hin. destruct Hin as [Hin|[->|[]]]; [contradiction|]. apply Hx. left. reflexivity.
    + apply IH; [exact Hr|]. intros Hin. apply Hx. right. exact Hin.
Qed.

Lemma add_new_nodup l : forall acc, NoDup acc -> NoDup (add_new l acc).
Proof.
  induction l as [|x r IH]; intros acc H; simpl; [exact H|].
  destruct (str_in x acc) eqn:E; apply IH; [exact H|].
  apply nodup_snoc; [exact H|]. intros Hin. apply str_in_In in Hin. rewrite Hin in E. discriminate.
Qed.

Lemma add_new_length l : forall acc, List.length acc <= List.length (add_new l acc).
Proof.
  induction l as [|x r IH]; intros acc; simpl; [lia|].
  destruct (str_in x acc); [apply IH|].
  specialize (IH (acc ++ [x])). rewrite app_length in IH. simpl in IH. lia.
Qed.

(* either nothing new (everything was already there) or the list grew *)
Lemma add_new_cases l : forall acc,
  (add_new l acc = acc /\ forall z, In z l -> In z acc) \/ List.length acc < List.length (add_new l acc).
Proof.
  induction l as [|x r IH]; intros acc; simpl.
  - left. split; [reflexivity|intros z []].
  - destruct (str_in x acc) eqn:E.
    + destruct (IH acc) as [[H1 H2]|H]; [left|right; exact H].
      split; [exact H1|]. intros z [->|Hz]; [apply str_in_In, E|apply H2, Hz].
    + right. pose proof (add_new_length r (acc ++ [x])) as H. rewrite app_length in H. simpl in H. lia.
Qed.

(* ---------- saturation, for any successor function [next] listing the E-successors inside a finite universe U ---------- *)
Section Saturate.
  Variable next : tname -> list tname.
  Variable E : tname -> tname -> Prop.
  Hypothesis Hnext : forall s z, In z (next s) <-> E s z.
  Variable U : list tname.
  Hypothesis HU : forall s z, In z (next s) -> In z U.

  Definition closed (seen : list tname) : Prop := forall s z, In s seen -> E s z -> In z seen.

  Lemma saturate_incl fuel : forall seen z, In z seen -> In z (saturate fuel next seen).
  Proof.
    induction fuel as [|f IH]; intros seen z H; simpl; [exact H|]. apply IH, add_new_incl, H.
  Qed.

  Lemma saturate_sound x fuel : forall seen,
    (forall s, In s seen -> clos_refl_trans tname E x s) ->
    forall s, In s (saturate fuel next seen) -> clos_refl_trans tname E x s.
  Proof.
    induction fuel as [|f IH]; intros seen Hseen s Hs; simpl in Hs; [apply Hseen, Hs|].
    apply (IH (add_new (flat_map next seen) seen)); [|exact Hs]. intros s' Hs'.
    apply add_new_from in Hs'. destruct Hs' as [H|H]; [apply Hseen, H|].
    apply in_flat_map in H. destruct H as [u [Hu Hz]]. apply Hnext in Hz.
    apply rt_trans with u; [apply Hseen, Hu|apply rt_step, Hz].
  Qed.

  Lemma add_new_all_in l : forall seen, (forall z, In z l -> In z seen) -> add_new l seen = seen.
  Proof.
    induction l as [|x r IHl]; intros seen Hl; simpl; [reflexivity|].
    assert (Ex : str_in x seen = true) by (apply str_in_In, Hl; left; reflexivity).
    rewrite Ex. apply IHl. intros z Hz. apply Hl. right. exact Hz.
  Qed.

  Lemma closed_fix fuel : forall seen, closed seen -> saturate fuel next seen = seen.
  Proof.
    induction fuel as [|f IH]; intros seen Hc; simpl; [reflexivity|].
    rewrite add_new_all_in; [apply IH, Hc|].
    intros z Hz. apply in_flat_map in Hz. destruct Hz as [u [Hu Hz]]. apply Hnext in Hz. apply (Hc u z Hu Hz).
  Qed.

  Lemma closed_complete seen x y : closed seen -> In x seen -> clos_refl_trans tname E x y -> In y seen.
  Proof.
    intros Hc Hx H. apply clos_rt_rt1n in H. induction H as [|x z y Hxz _ IH]; [exact Hx|].
    apply IH. apply (Hc x z Hx Hxz).
  Qed.

  Lemma saturate_closed (x0 : tname) fuel : forall seen,
    NoDup seen -> incl seen (x0 :: U) -> List.length seen + fuel > List.length (x0 :: U) ->
    closed (saturate fuel next seen).
  Proof.
    induction fuel as [|f IH]; intros seen Hnd Hincl Hlen.
    - exfalso. pose proof (NoDup_incl_length Hnd Hincl). lia.
    - simpl. destruct (add_new_cases (flat_map next seen) seen) as [[H1 H2]|H].
      + rewrite H1.
        assert (Hc : closed seen).
        { intros s z Hs Hz. apply H2. apply in_flat_map. exists s. split; [exact Hs|apply Hnext, Hz]. }
        rewrite closed_fix by exact Hc. exact Hc.
      + apply IH.
        * apply add_new_nodup, Hnd.
        * intros z Hz. apply add_new_from in Hz. destruct Hz as [Hz|Hz]; [apply Hincl, Hz|].
          apply in_flat_map in Hz. destruct Hz as [u [_ Hz]]. right. eapply HU, Hz.
        * lia.
  Qed.

  Lemma saturate_reach fuel x y :
    fuel > List.length U ->
    (In y (saturate fuel next [x]) <-> clos_refl_trans tname E x y).
  Proof.
    intros Hf. split.
    - apply (saturate_sound x). intros s [<-|[]]. apply rt_refl.
    - intros H. apply (closed_complete _ x y).
      + apply (saturate_closed x).
        * constructor; [intros []|constructor].
        * intros z [<-|[]]. left. reflexivity.
        * simpl. lia.
      + apply saturate_incl. left. reflexivity.
      + exact H.
  Qed.
End Saturate.

Lemma declared_succs_declared ds s z : In z (declared_succs ds s) <-> declared ds s z.
Proof.
  unfold declared_succs, declared. rewrite in_map_iff. split.
  - intros [[c p] [Hp Hin]]. apply filter_In in Hin. destruct Hin as [Hin Heq]. simpl in *.
    apply String.eqb_eq in Heq. subst. exact Hin.
  - intros H. exists (s, z). split; [reflexivity|]. apply filter_In. split; [exact H|]. simpl. apply String.eqb_refl.
Qed.

Lemma declared_succs_universe ds s z : In z (declared_succs ds s) -> In z (map snd ds).
Proof.
  unfold declared_succs. intros H. apply in_map_iff in H. destruct H as [d [Hd Hin]]. apply in_map_iff.
  exists d. split; [exact Hd|]. apply filter_In in Hin. apply Hin.
Qed.

Theorem closure_b_lemma : forall ds x y, closure_b ds x y = true <-> subtype ds x y.
Proof.
  intros ds x y. unfold closure_b. rewrite str_in_In.
  apply (saturate_reach (succs ds) (edge ds) (succs_edge ds) ("object" :: map snd ds)).
  - intros s z [<-|H]; [left; reflexivity|right; eapply declared_succs_universe, H].
  - simpl. rewrite map_length. unfold decl, tname. lia.
Qed.

(* ---------- the executable forest test ---------- *)
Lemma nodup_b_NoDup l : nodup_b l = true <-> NoDup l.
Proof.
  induction l as [|x r IH]; simpl.
  - split; [constructor|reflexivity].
  - rewrite andb_true_iff, negb_true_iff, IH. split.
    + intros [Hx Hr]. constructor; [|exact Hr]. intros Hin. apply str_in_In in Hin. rewrite Hin in Hx. discriminate.
    + intros H. inversion H as [|a l' Hx Hr]; subst. split; [|exact Hr].
      destruct (str_in x r) eqn:Ex; [|reflexivity]. exfalso. apply Hx, str_in_In, Ex.
Qed.

(* a cycle = some declared pair (c, p) whose parent leads back to the child *)
Lemma trans_in_rt ds a b : clos_trans tname (declared ds) a b -> clos_refl_trans tname (declared ds) a b.
Proof.
  intros H. induction H as [a b Hab|a b c _ IH1 _ IH2]; [apply rt_step, Hab|apply rt_trans with b; assumption].
Qed.

Lemma step_rt_trans ds a b c :
  declared ds a b -> clos_refl_trans tname (declared ds) b c -> clos_trans tname (declared ds) a c.
Proof.
  intros Hab Hbc. apply clos_rt_rtn1 in Hbc. induction Hbc as [|m c Hmc _ IH]; [apply t_step, Hab|].
  apply t_trans with m; [exact IH|apply t_step, Hmc].
Qed.

Lemma cyclic_pair ds :
  cyclic ds <-> exists c p, declared ds c p /\ clos_refl_trans tname (declared ds) p c.
Proof.
  split.
  - intros [x H]. apply clos_trans_t1n in H.
    assert (Hgen : forall a b, clos_trans_1n tname (declared ds) a b ->
                     exists p, declared ds a p /\ clos_refl_trans tname (declared ds) p b).
    { intros a b Hab. destruct Hab as [b Hab|p b Hap Hpb].
      - exists b. split; [exact Hab|apply rt_refl].
      - exists p. split; [exact Hap|]. apply trans_in_rt, clos_t1n_trans, Hpb. }
    destruct (Hgen x x H) as [p [Hxp Hpx]]. exists x, p. split; assumption.
  - intros [c [p [Hcp Hpc]]]. exists c. apply (step_rt_trans ds c p c Hcp Hpc).
Qed.

Theorem cyclic_b_lemma : forall ds, cyclic_b ds = true <-> cyclic ds.
Proof.
  intros ds. rewrite cyclic_pair. unfold cyclic_b. rewrite existsb_exists. split.
  - intros [[c p] [Hin Hs]]. cbn [fst snd] in Hs. exists c, p. split; [exact Hin|].
    apply str_in_In in Hs.
    apply (saturate_reach (declared_succs ds) (declared ds) (declared_succs_declared ds) (map snd ds)
             (declared_succs_universe ds)) in Hs; [exact Hs|].
    rewrite map_length. unfold decl, tname. lia.
  - intros [c [p [Hcp Hpc]]]. exists (c, p). split; [exact Hcp|]. cbn [fst snd]. apply str_in_In.
    apply (saturate_reach (declared_succs ds) (declared ds) (declared_succs_declared ds) (map snd ds)
             (declared_succs_universe ds)); [|exact Hpc].
    rewrite map_length. unfold decl, tname. lia.
Qed.

Theorem forest_b_lemma : forall ds, forest_b ds = true <-> forest ds.
Proof.
  intros ds. unfold forest_b, forest, one_parent, object_is_root, acyclic.
  rewrite !andb_true_iff, !negb_true_iff, nodup_b_NoDup. split.
  - intros [[H1 H2] H3]. split; [exact H1|]. split.
    + intros Hin. apply str_in_In in Hin. rewrite Hin in H2. discriminate.
    + intros x Hx. assert (Hc : cyclic_b ds = true) by (apply cyclic_b_lemma; exists x; exact Hx).
      rewrite Hc in H3. discriminate.
  - intros [H1 [H2 H3]]. split; [split; [exact H1|]|].
    + destruct (str_in "object" (map fst ds)) eqn:E; [|reflexivity]. exfalso. apply H2, str_in_In, E.
    + destruct (cyclic_b ds) eqn:E; [|reflexivity]. exfalso. apply cyclic_b_lemma in E. destruct E as [x Hx].
      apply (H3 x Hx).
Qed.
