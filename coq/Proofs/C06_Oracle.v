(* C06: the executable closure used as the oracle of the correspondence check is the spec relation,
   for EVERY declaration list (forest or not): closure_b ds x y = true <-> subtype ds x y. *)
From Coq Require Import List String Bool Arith Lia Relations.
From Verif Require Import Base.Str Spec.Types.
Import ListNotations.
Open Scope string_scope.
Open Scope list_scope.

Lemma succs_edge ds s z : In z (succs ds s) <-> edge ds s z.
Proof.
  unfold succs, declared_succs, edge, declared. simpl. rewrite in_map_iff. split.
  - intros [H|[[c p] [Hp Hin]]]; [right; symmetry; exact H|]. left.
    apply filter_In in Hin. destruct Hin as [Hin Heq]. simpl in *. apply String.eqb_eq in Heq. subst. exact Hin.
  - intros [H|H]; [|left; symmetry; exact H]. right. exists (s, z). split; [reflexivity|].
    apply filter_In. split; [exact H|]. simpl. apply String.eqb_refl.
Qed.

(* ---------- add_new ---------- *)
Lemma add_new_incl l : forall acc z, In z acc -> In z (add_new l acc).
Proof.
  induction l as [|x r IH]; intros acc z H; simpl; [exact H|].
  destruct (str_in x acc); apply IH; [exact H|apply in_or_app; left; exact H].
Qed.

Lemma add_new_adds l : forall acc z, In z l -> In z (add_new l acc).
Proof.
  induction l as [|x r IH]; intros acc z H; [contradiction|]. simpl.
  destruct H as [->|H].
  - destruct (str_in z acc) eqn:E.
    + apply add_new_incl. apply str_in_In, E.
    + apply add_new_incl. apply in_or_app. right. left. reflexivity.
  - destruct (str_in x acc); apply IH, H.
Qed.

Lemma add_new_from l : forall acc z, In z (add_new l acc) -> In z acc \/ In z l.
Proof.
  induction l as [|x r IH]; intros acc z H; simpl in H; [left; exact H|].
  destruct (str_in x acc).
  - destruct (IH _ _ H) as [H1|H1]; [left; exact H1|right; right; exact H1].
  - destruct (IH _ _ H) as [H1|H1]; [|right; right; exact H1].
    apply in_app_or in H1. destruct H1 as [H1|[->|[]]]; [left; exact H1|right; left; reflexivity].
Qed.

Lemma nodup_snoc (acc : list string) x : NoDup acc -> ~ In x acc -> NoDup (acc ++ [x]).
Proof.
  induction acc as [|a acc IH]; intros Hnd Hx; simpl.
  - constructor; [intros []|constructor].
  - inversion Hnd as [|b l Ha Hr]; subst. constructor.
    + intros Hin. apply in_app_or in Hin. destruct Hin as [Hin|[->|[]]]; [contradiction|]. apply Hx. left. reflexivity.
    + apply IH; [exact Hr|]. intros Hin. apply Hx. right. exact Hin.
Qed.

Lemma add_new_nodup l : forall acc, NoDup acc -> NoDup (add_new l acc).
Proof.
  induction l as [|x r IH]; intros acc H; simpl; [exact H|].
  destruct (str_in x acc) eqn:E; apply IH; [exact H|].
  apply nodup_snoc; [exact H|]. intros Hin. apply str_in_In in Hin. rewrite Hin in E. discriminate.
Qed.

Lemma add_new_length l : forall acc, List.length acc <= List.length (add_new l acc).
Proof.
  induction l as [|x r IH]; intros acc; simpl; [lia|].
  destruct (str_in x acc); [apply IH|].
  specialize (IH (acc ++ [x])). rewrite app_length in IH. simpl in IH. lia.
Qed.

(* either nothing new (everything was already there) or the list grew *)
Lemma add_new_cases l : forall acc,
  (add_new l acc = acc /\ forall z, In z l -> In z acc) \/ List.length acc < List.length (add_new l acc).
Proof.
  induction l as [|x r IH]; intros acc; simpl.
  - left. split; [reflexivity|intros z []].
  - destruct (str_in x acc) eqn:E.
    + destruct (IH acc) as [[H1 H2]|H]; [left|right; exact H].
      split; [exact H1|]. intros z [->|Hz]; [apply str_in_In, E|apply H2, Hz].
    + right. pose proof (add_new_length r (acc ++ [x])) as H. rewrite app_length in H. simpl in H. lia.
Qed.

(* ---------- saturation ---------- *)
Section Saturate.
  Variable ds : list decl.
  Let next := succs ds.

  Definition closed (seen : list tname) : Prop := forall s z, In s seen -> edge ds s z -> In z seen.

  Lemma saturate_incl fuel : forall seen z, In z seen -> In z (saturate fuel next seen).
  Proof.
    induction fuel as [|f IH]; intros seen z H; simpl; [exact H|]. apply IH, add_new_incl, H.
  Qed.

  Lemma saturate_sound x fuel : forall seen,
    (forall s, In s seen -> subtype ds x s) -> forall s, In s (saturate fuel next seen) -> subtype ds x s.
  Proof.
    induction fuel as [|f IH]; intros seen Hseen s Hs; simpl in Hs; [apply Hseen, Hs|].
    apply (IH (add_new (flat_map next seen) seen)); [|exact Hs]. intros s' Hs'.
    apply add_new_from in Hs'. destruct Hs' as [H|H]; [apply Hseen, H|].
    apply in_flat_map in H. destruct H as [u [Hu Hz]]. apply succs_edge in Hz.
    apply rt_trans with u; [apply Hseen, Hu|apply rt_step, Hz].
  Qed.

  Lemma closed_fix fuel : forall seen, closed seen -> saturate fuel next seen = seen.
  Proof.
    induction fuel as [|f IH]; intros seen Hc; simpl; [reflexivity|].
    destruct (add_new_cases (flat_map next seen) seen) as [[H1 _]|H].
    - rewrite H1. apply IH, Hc.
    - exfalso.
      assert (Hall : forall z, In z (flat_map next seen) -> In z seen).
      { intros z Hz. apply in_flat_map in Hz. destruct Hz as [u [Hu Hz]]. apply succs_edge in Hz. apply (Hc u z Hu Hz). }
      assert (Heq : add_new (flat_map next seen) seen = seen).
      { generalize (flat_map next seen) Hall. intros l. revert Hc. clear. intros _. revert seen.
        induction l as [|x r IHl]; intros seen Hl; simpl; [reflexivity|].
        assert (E : str_in x seen = true) by (apply str_in_In, Hl; left; reflexivity).
        rewrite E. apply IHl. intros z Hz. apply Hl. right. exact Hz. }
      rewrite Heq in H. lia.
  Qed.

  Lemma closed_complete seen x y : closed seen -> In x seen -> subtype ds x y -> In y seen.
  Proof.
    intros Hc Hx H. apply clos_rt_rt1n in H. induction H as [|x z y Hxz _ IH]; [exact Hx|].
    apply IH. apply (Hc x z Hx Hxz).
  Qed.

  (* everything ever seen lies in a universe of |ds|+2 names *)
  Variable x0 : tname.
  Let universe : list tname := x0 :: "object" :: map snd ds.

  Lemma succs_universe s z : In z (next s) -> In z universe.
  Proof.
    unfold next, succs, declared_succs. simpl. intros [<-|H]; [right; left; reflexivity|].
    right. right. apply in_map_iff in H. destruct H as [d [Hd Hin]]. apply in_map_iff. exists d. split; [exact Hd|].
    apply filter_In in Hin. apply Hin.
  Qed.

  Lemma saturate_closed fuel : forall seen,
    NoDup seen -> incl seen universe -> List.length seen + fuel > List.length universe ->
    closed (saturate fuel next seen).
  Proof.
    induction fuel as [|f IH]; intros seen Hnd Hincl Hlen.
    - exfalso. pose proof (NoDup_incl_length Hnd Hincl). lia.
    - simpl. destruct (add_new_cases (flat_map next seen) seen) as [[H1 H2]|H].
      + rewrite H1.
        assert (Hc : closed seen).
        { intros s z Hs Hz. apply H2. apply in_flat_map. exists s. split; [exact Hs|apply succs_edge, Hz]. }
        rewrite closed_fix by exact Hc. exact Hc.
      + apply IH.
        * apply add_new_nodup, Hnd.
        * intros z Hz. apply add_new_from in Hz. destruct Hz as [Hz|Hz]; [apply Hincl, Hz|].
          apply in_flat_map in Hz. destruct Hz as [u [_ Hz]]. eapply succs_universe, Hz.
        * lia.
  Qed.
End Saturate.

Theorem closure_b_lemma : forall ds x y, closure_b ds x y = true <-> subtype ds x y.
Proof.
  intros ds x y. unfold closure_b. rewrite str_in_In. split.
  - apply (saturate_sound ds x). intros s [<-|[]]. apply rt_refl.
  - intros H.
    apply (closed_complete ds _ x y).
    + apply (saturate_closed ds x).
      * constructor; [intros []|constructor].
      * intros z [<-|[]]. left. reflexivity.
      * simpl. rewrite map_length. unfold decl, tname. lia.
    + apply saturate_incl. left. reflexivity.
    + exact H.
Qed.
