(* C06: the places that check or range over types.  Spec.Pddl.subtypeb and Model.Types.is_sub_type are the
   same function of the table (the spec's walk answers false where the model's runs out of fuel). *)
From Coq Require Import List String Bool Arith.
From Verif Require Import Base.Result Base.Str Base.Sexp Base.PyDict Model.Types Spec.Pddl.
Import ListNotations.
Open Scope string_scope.
Open Scope list_scope.

Lemma lookup_dget (T : typetable) k : lookup k T = dget T k.
Proof. induction T as [|[k' v] r IH]; simpl; [reflexivity|]. rewrite IH. reflexivity. Qed.

Lemma ancestor_walk_walk fuel : forall (T : typetable) t target,
  ancestor_walk fuel T t target = match walk fuel T t target with Ok b => b | Err _ => false end.
Proof.
  induction fuel as [|f IH]; intros T t target; simpl.
  - destruct (String.eqb t target); reflexivity.
  - destruct (String.eqb t target); [reflexivity|].
    destruct (String.eqb t "object"); [reflexivity|].
    rewrite lookup_dget. destruct (dget T t) as [p|]; apply IH.
Qed.

Lemma subtypeb_is_sub_type_lemma (T : typetable) x y : subtypeb T x y = is_sub_type T x y.
Proof. unfold subtypeb, is_sub_type. apply ancestor_walk_walk. Qed.

(* ---------- the forall sites of Model.Exec range over exactly the objects selected by is_sub_type ---------- *)
From Coq Require Import PrimFloat.
From Verif Require Import Model.Domain Model.Exec Model.TypeSites.

Section ExecSites.
  Variable dom : mdomain.
  Variable eps : float.

  Definition in_range (ty : string) (o : string * string) : bool := is_sub_type (d_types dom) (snd o) ty.

  (* a fold over the objects whose type passes a test, and the same fold WITHOUT any type test *)
  Definition fold_sel (F : string -> result bool) (sel : string -> bool) : objects -> bool -> result bool :=
    fix go (l : objects) (acc : bool) : result bool :=
      match l with
      | [] => Ok acc
      | (o, oty) :: r => if sel oty then do b <- F o; go r (acc && b) else go r acc
      end.
  Definition fold_all (F : string -> result bool) : objects -> bool -> result bool :=
    fix go (l : objects) (acc : bool) : result bool :=
      match l with
      | [] => Ok acc
      | (o, _) :: r => do b <- F o; go r (acc && b)
      end.

  Lemma fold_sel_filter F sel l : forall acc,
    fold_sel F sel l acc = fold_all F (filter (fun o => sel (snd o)) l) acc.
  Proof.
    induction l as [|[o oty] r IH]; intros acc; [reflexivity|].
    change (fold_sel F sel ((o, oty) :: r) acc) with
      (if sel oty then do b <- F o; fold_sel F sel r (acc && b) else fold_sel F sel r acc).
    cbn [filter snd]. destruct (sel oty).
    - change (fold_all F ((o, oty) :: filter (fun o0 => sel (snd o0)) r) acc) with
        (do b <- F o; fold_all F (filter (fun o0 => sel (snd o0)) r) (acc && b)).
      destruct (F o); cbn [bind]; [apply IH|reflexivity].
    - apply IH.
  Qed.

  (* the body of a forall condition evaluated for one object *)
  Definition univ_body (all : objects) (s : state) (pm : pmap) (v : string) (body : mpre) (o : string) : result bool :=
    eval_lifted dom eps (Some all) s (dset pm v o) body.

  Lemma forall_condition_range_lemma (os : objects) s pm v ty body :
    eval_lifted_cond dom eps (Some os) s pm (MUniv v ty body) =
    fold_all (univ_body os s pm v body) (filter (in_range ty) os) true.
  Proof.
    transitivity (fold_sel (univ_body os s pm v body) (fun oty => is_sub_type (d_types dom) oty ty) os true).
    - reflexivity.
    - apply fold_sel_filter.
  Qed.

  Lemma foldM_filter {A S} (P : A -> bool) (f : S -> A -> result S) l : forall s,
    foldM (fun st x => if P x then f st x else Ok st) l s = foldM f (filter P l) s.
  Proof.
    induction l as [|x l IH]; intros s; [reflexivity|]. cbn [foldM filter].
    destruct (P x); cbn [foldM bind]; [|apply IH].
    destruct (f s x); cbn [bind]; [apply IH|reflexivity].
  Qed.

  Lemma foldM_ext {A S} (f g : S -> A -> result S) l : (forall s x, f s x = g s x) ->
    forall s, foldM f l s = foldM g l s.
  Proof.
    intros H. induction l as [|x l IH]; intros s; [reflexivity|]. cbn [foldM]. rewrite H.
    destruct (g s x); cbn [bind]; [apply IH|reflexivity].
  Qed.

  (* one universal effect applied for one object, WITHOUT any type test *)
  Definition univ_effect_step (ga : gaction) (os : objects) (prev : state) (o : string * string) (cur2 : state) (ue : muniveff)
    : result state :=
    let pm := dset (ga_pm ga) (ue_var ue) (fst o) in
    let ce := ue_ce ue in
    do g <- ground_group dom pm (Some (ce_ante ce)) (ce_disc ce) (ce_num ce);
    do h <- antecedents_hold dom eps (Some os) g prev;
    if h then apply_group_m prev cur2 g else Ok cur2.

  Lemma forall_effect_range_lemma ga (os : objects) uorder prev cur :
    apply_universal dom eps ga (Some os) uorder prev cur =
    foldM (fun cur1 o =>
             foldM (univ_effect_step ga os prev o)
                   (filter (fun ue => in_range (ue_ty ue) o) (reorder (ma_univ (ga_action ga)) uorder)) cur1)
          os cur.
  Proof.
    unfold apply_universal. apply foldM_ext. intros s o.
    rewrite <- foldM_filter. apply foldM_ext. intros s2 ue. reflexivity.
  Qed.
End ExecSites.

(* the spec's range and the model's range are the same list of objects *)
Lemma objects_of_type_range_lemma (dom : mdomain) (os : objects) ty :
  objects_of_type (d_types dom) os ty = map fst (filter (in_range dom ty) os).
Proof.
  unfold objects_of_type. f_equal. apply filter_ext. intros o. unfold in_range. apply subtypeb_is_sub_type_lemma.
Qed.

(* ---------- the problem / trajectory parser checks ---------- *)
Lemma all_subtypes_iff dom tys req :
  all_subtypes dom tys req = true <->
  forall t r, In (t, r) (combine tys req) -> is_sub_type (d_types dom) t r = true.
Proof.
  unfold all_subtypes. rewrite forallb_forall. split.
  - intros H t r Hin. apply (H (t, r) Hin).
  - intros H [t r] Hin. apply H, Hin.
Qed.

Lemma problem_fact_lemma dom objs p args :
  problem_fact dom objs p args = Ok tt <->
  exists sg tys, dget (d_preds dom) p = Some sg /\ List.length args = List.length sg /\
                 mapM (type_of_name dom objs) args = Ok tys /\
                 forall t r, In (t, r) (combine tys (dvalues sg)) -> is_sub_type (d_types dom) t r = true.
Proof.
  unfold problem_fact. destruct (dget (d_preds dom) p) as [sg|].
  - destruct (Nat.eqb (List.length args) (List.length sg)) eqn:El; cbn [negb].
    + apply Nat.eqb_eq in El. destruct (mapM (type_of_name dom objs) args) as [tys|k]; cbn [bind].
      * destruct (all_subtypes dom tys (dvalues sg)) eqn:Ea.
        -- split; [intros _|reflexivity]. exists sg, tys. repeat split; try assumption; try reflexivity.
           apply all_subtypes_iff, Ea.
        -- split; [discriminate|]. intros [sg' [tys' [Hs [_ [Hm Hall]]]]]. injection Hs as <-. injection Hm as <-.
           apply all_subtypes_iff in Hall. rewrite Hall in Ea. discriminate.
      * split; [discriminate|]. intros [sg' [tys' [_ [_ [Hm _]]]]]. discriminate.
    + apply Nat.eqb_neq in El. split; [discriminate|]. intros [sg' [tys' [Hs [Hl _]]]]. injection Hs as <-. contradiction.
  - split; [discriminate|]. intros [sg' [tys' [Hs _]]]. discriminate.
Qed.

Lemma problem_fluent_lemma dom objs f args :
  problem_fluent dom objs f args = Ok tt <->
  exists sg tys, dget (d_funcs dom) f = Some sg /\ List.length args = List.length sg /\
                 mapM (type_of_name dom objs) args = Ok tys /\
                 forall t r, In (t, r) (combine tys (dvalues sg)) -> is_sub_type (d_types dom) t r = true.
Proof.
  unfold problem_fluent. destruct (dget (d_funcs dom) f) as [sg|].
  - destruct (Nat.eqb (List.length args) (List.length sg)) eqn:El; cbn [negb].
    + apply Nat.eqb_eq in El. destruct (mapM (type_of_name dom objs) args) as [tys|k]; cbn [bind].
      * destruct (all_subtypes dom tys (dvalues sg)) eqn:Ea.
        -- split; [intros _|reflexivity]. exists sg, tys. repeat split; try assumption; try reflexivity.
           apply all_subtypes_iff, Ea.
        -- split; [discriminate|]. intros [sg' [tys' [Hs [_ [Hm Hall]]]]]. injection Hs as <-. injection Hm as <-.
           apply all_subtypes_iff in Hall. rewrite Hall in Ea. discriminate.
      * split; [discriminate|]. intros [sg' [tys' [_ [_ [Hm _]]]]]. discriminate.
    + apply Nat.eqb_neq in El. split; [discriminate|]. intros [sg' [tys' [Hs [Hl _]]]]. injection Hs as <-. contradiction.
  - split; [discriminate|]. intros [sg' [tys' [Hs _]]]. discriminate.
Qed.

(* trajectory fluents (TrajectoryParser with a problem, after the repair D31): the same positional rule *)
Lemma trajectory_fluent_lemma dom objs f args :
  trajectory_fluent dom objs f args = Ok tt <->
  exists sg tys, dget (d_funcs dom) f = Some sg /\ List.length args = List.length sg /\
                 mapM (type_of_name dom objs) args = Ok tys /\
                 forall t r, In (t, r) (combine tys (dvalues sg)) -> is_sub_type (d_types dom) t r = true.
Proof. exact (problem_fluent_lemma dom objs f args). Qed.

(* ---------- on a domain whose types come from a well-formed section ---------- *)
From Verif Require Import Spec.Types Proofs.C06_Main.

Lemma sites_select_subtypes_lemma : forall gs tr (dom : mdomain) (os : objects) ty o,
  wf_section gs tr -> parse_types (render gs tr) = Ok (d_types dom) ->
  (In o (objects_of_type (d_types dom) os ty) <->
   exists t, In (o, t) os /\ subtype (decls gs tr) t ty).
Proof.
  intros gs tr dom os ty o Hwf Hp. unfold objects_of_type. rewrite in_map_iff. split.
  - intros [[o' t] [Ho Hin]]. simpl in Ho. subst o'. apply filter_In in Hin. destruct Hin as [Hin Hs].
    exists t. split; [exact Hin|]. simpl in Hs. rewrite subtypeb_is_sub_type_lemma in Hs.
    apply (closure_lemma gs tr _ Hwf Hp), Hs.
  - intros [t [Hin Hs]]. exists (o, t). split; [reflexivity|]. apply filter_In. split; [exact Hin|]. simpl.
    rewrite subtypeb_is_sub_type_lemma. apply (closure_lemma gs tr _ Hwf Hp), Hs.
Qed.

(* problem facts / fluents on such a domain: accepted iff every argument's declared type is a SUBTYPE (spec
   relation) of the parameter's type at the same position *)
Lemma site_fact_subtype_lemma : forall gs tr (dom : mdomain) objs p args,
  wf_section gs tr -> parse_types (render gs tr) = Ok (d_types dom) ->
  (problem_fact dom objs p args = Ok tt <->
   exists sg tys, dget (d_preds dom) p = Some sg /\ List.length args = List.length sg /\
                  mapM (type_of_name dom objs) args = Ok tys /\
                  forall t r, In (t, r) (combine tys (dvalues sg)) -> subtype (decls gs tr) t r).
Proof.
  intros gs tr dom objs p args Hwf Hp. rewrite problem_fact_lemma. split.
  - intros [sg [tys [H1 [H2 [H3 H4]]]]]. exists sg, tys. repeat split; try assumption.
    intros t r Hin. apply (closure_lemma gs tr _ Hwf Hp), H4, Hin.
  - intros [sg [tys [H1 [H2 [H3 H4]]]]]. exists sg, tys. repeat split; try assumption.
    intros t r Hin. apply (closure_lemma gs tr _ Hwf Hp), H4, Hin.
Qed.

Lemma site_fluent_subtype_lemma : forall gs tr (dom : mdomain) objs f args,
  wf_section gs tr -> parse_types (render gs tr) = Ok (d_types dom) ->
  (problem_fluent dom objs f args = Ok tt <->
   exists sg tys, dget (d_funcs dom) f = Some sg /\ List.length args = List.length sg /\
                  mapM (type_of_name dom objs) args = Ok tys /\
                  forall t r, In (t, r) (combine tys (dvalues sg)) -> subtype (decls gs tr) t r).
Proof.
  intros gs tr dom objs f args Hwf Hp. rewrite problem_fluent_lemma. split.
  - intros [sg [tys [H1 [H2 [H3 H4]]]]]. exists sg, tys. repeat split; try assumption.
    intros t r Hin. apply (closure_lemma gs tr _ Hwf Hp), H4, Hin.
  - intros [sg [tys [H1 [H2 [H3 H4]]]]]. exists sg, tys. repeat split; try assumption.
    intros t r Hin. apply (closure_lemma gs tr _ Hwf Hp), H4, Hin.
Qed.

Lemma site_trajectory_fluent_subtype_lemma : forall gs tr (dom : mdomain) objs f args,
  wf_section gs tr -> parse_types (render gs tr) = Ok (d_types dom) ->
  (trajectory_fluent dom objs f args = Ok tt <->
   exists sg tys, dget (d_funcs dom) f = Some sg /\ List.length args = List.length sg /\
                  mapM (type_of_name dom objs) args = Ok tys /\
                  forall t r, In (t, r) (combine tys (dvalues sg)) -> subtype (decls gs tr) t r).
Proof. exact site_fluent_subtype_lemma. Qed.
