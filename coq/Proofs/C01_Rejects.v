(* C01, the other direction: what the parser refuses.  Whatever stands where a condition / an effect / a numeric
   term / a typed list is expected and is not one of the forms the library represents makes parse_domain fail -
   nothing is skipped.  And the two things that are stored although they cannot be evaluated (a negative literal or
   a conditional result over an undeclared predicate, a literal of the wrong arity) make Operator.ground() fail. *)
From Coq Require Import List Ascii String Bool Arith Lia PrimFloat.
From Verif Require Import Base.Result Base.Str Base.Sexp Base.PyDict Model.Types Model.Domain Model.Exec
  Spec.Pddl Spec.Grammar Spec.Faithful Proofs.C01_Defs Proofs.C01_Typed Proofs.C01_Vocab Proofs.C01_Pre
  Proofs.C01_Eff.
Import ListNotations.
Open Scope string_scope.
Open Scope list_scope.

(* ---------- conditions ---------- *)
(* the heads PreconditionsParser.parse knows *)
Definition cond_head_ok (preds : pydict signature) (h : string) : bool :=
  String.eqb h "and" || String.eqb h "or" || dmem preds h || String.eqb h "not" || String.eqb h "=" ||
  str_in h comparison_ops || String.eqb h "forall".

(* x stands where a condition is expected: a conjunct, a member of a nested and/or, of a forall body *)
Inductive cond_position : sexp -> list sexp -> Prop :=
| CP_here x nodes : In x nodes -> cond_position x nodes
| CP_nested h subs x nodes :
    In (SList (Atom h :: subs)) nodes -> h = "and" \/ h = "or" -> cond_position x subs -> cond_position x nodes
| CP_forall q bh subs rest x nodes :
    In (SList (Atom "forall" :: q :: SList (Atom bh :: subs) :: rest)) nodes -> cond_position x subs ->
    cond_position x nodes.

Section RejectPre.
  Variable num : numparser.
  Variable tt : typetable.
  Variable consts : pydict string.
  Variable preds : pydict signature.
  Variable funcs : pydict signature.

  Notation parse_pre' := (parse_pre num tt consts preds funcs).
  Notation node_step' := (node_step num tt consts preds funcs).

  Lemma node_step_head fu sg root node h root' :
    node_step' fu sg root node h = Ok root' -> cond_head_ok preds h = true.
  Proof.
    unfold node_step, cond_head_ok. intros H.
    destruct (String.eqb h "and" || String.eqb h "or") eqn:E1.
    { reflexivity. }
    cbn [orb].
    destruct (dmem preds h); [reflexivity|]. cbn [orb].
    destruct (String.eqb h "not"); [reflexivity|]. cbn [orb].
    destruct (String.eqb h "="); [reflexivity|]. cbn [orb].
    destruct (str_in h comparison_ops); [reflexivity|]. cbn [orb].
    destruct (String.eqb h "forall"); [reflexivity|discriminate].
  Qed.

  (* every node of the list is processed by the loop body *)
  Lemma parse_pre_in : forall nodes fu sg root r x,
    parse_pre' fu sg root nodes = Ok r -> In x nodes ->
    exists fu' h root0 root1, fu' < fu /\ head_of x = Ok h /\ node_step' fu' sg root0 x h = Ok root1.
  Proof.
    induction nodes as [|node rest IH]; intros fu sg root r x H Hin; [destruct Hin|].
    destruct fu as [|fu]; [discriminate|]. rewrite parse_pre_cons in H.
    destruct (head_of node) as [h|] eqn:Eh; cbn [bind] in H; [|discriminate].
    destruct (node_step' fu sg root node h) as [root'|] eqn:Es; cbn [bind] in H; [|discriminate].
    destruct Hin as [<-|Hin].
    - exists fu, h, root, root'. split; [lia|]. split; assumption.
    - destruct (IH fu sg root' r x H Hin) as (fu' & h' & r0 & r1 & Hlt & Hh & Hs).
      exists fu', h', r0, r1. split; [lia|]. split; assumption.
  Qed.

  (* the sub-conditions of an accepted and / or / forall node were parsed too *)
  Lemma node_step_nested fu sg root h subs root' :
    node_step' fu sg root (SList (Atom h :: subs)) h = Ok root' -> h = "and" \/ h = "or" ->
    exists nested, parse_pre' fu sg (MPre h [] [] []) subs = Ok nested.
  Proof.
    unfold node_step. intros H Hh.
    assert (E : String.eqb h "and" || String.eqb h "or" = true) by (destruct Hh as [Hh|Hh]; rewrite Hh; reflexivity).
    rewrite E in H. destruct (parse_pre' fu sg (MPre h [] [] []) subs) as [nested|]; [eauto|discriminate].
  Qed.

  Lemma node_step_forall fu sg root q bh subs rest root' :
    node_step' fu sg root (SList (Atom "forall" :: q :: SList (Atom bh :: subs) :: rest)) "forall" = Ok root' ->
    exists sg' u, parse_pre' fu sg' (MPre bh [] [] []) subs = Ok u.
  Proof.
    unfold node_step. change (String.eqb "forall" "and" || String.eqb "forall" "or") with false. cbn iota.
    intros H. destruct (dmem preds "forall").
    { (* a predicate named forall: its arguments would have to be names *)
      unfold parse_untyped_predicate in H. cbn [atoms_of] in H.
      destruct q as [s|l]; [|discriminate H].
      destruct (atoms_of (SList (Atom bh :: subs) :: rest)) eqn:Ea; [simpl in Ea; discriminate Ea|].
      simpl in Ea. simpl in H. discriminate H. }
    change (String.eqb "forall" "not") with false in H. change (String.eqb "forall" "=") with false in H.
    change (str_in "forall" comparison_ops) with false in H. rewrite String.eqb_refl in H. cbn iota in H.
    destruct q as [s|[|[v|sv] [|d [|[ty|sty] [|z zs]]]]]; try discriminate H.
    cbn [head_of bind] in H.
    destruct (negb (String.eqb bh "and" || String.eqb bh "or")); [discriminate|].
    destruct (negb (type_known tt ty)); [discriminate|].
    destruct (parse_pre' fu (dset sg v ty) (MPre bh [] [] []) subs) as [u|] eqn:Eu; [eauto|discriminate].
  Qed.

  Theorem parse_pre_rejects : forall fuel sg root nodes r x,
    parse_pre' fuel sg root nodes = Ok r -> cond_position x nodes ->
    exists h, head_of x = Ok h /\ cond_head_ok preds h = true.
  Proof.
    induction fuel as [fuel IH] using lt_wf_ind. intros sg root nodes r x H Hpos.
    revert sg root r H. induction Hpos as [x nodes Hin|h subs x nodes Hin Hh Hsub IHsub|q bh subs rest x nodes Hin Hsub IHsub];
      intros sg root r H.
    - destruct (parse_pre_in nodes fuel sg root r x H Hin) as (fu' & h & r0 & r1 & Hlt & Hh & Hs).
      exists h. split; [exact Hh|]. eapply node_step_head; exact Hs.
    - destruct (parse_pre_in nodes fuel sg root r _ H Hin) as (fu' & h' & r0 & r1 & Hlt & Hh' & Hs).
      cbn [head_of] in Hh'. injection Hh' as <-.
      destruct (node_step_nested fu' sg r0 h subs r1 Hs Hh) as (nested & Hn).
      clear IHsub.
      assert (Hgen : forall x0, cond_position x0 subs -> exists h0, head_of x0 = Ok h0 /\ cond_head_ok preds h0 = true).
      { intros x0 Hx0. exact (IH fu' Hlt sg (MPre h [] [] []) subs nested x0 Hn Hx0). }
      apply Hgen. exact Hsub.
    - destruct (parse_pre_in nodes fuel sg root r _ H Hin) as (fu' & h' & r0 & r1 & Hlt & Hh' & Hs).
      cbn [head_of] in Hh'. injection Hh' as <-.
      destruct (node_step_forall fu' sg r0 q bh subs rest r1 Hs) as (sg' & u & Hu).
      clear IHsub. exact (IH fu' Hlt sg' (MPre bh [] [] []) subs u x Hu Hsub).
  Qed.
End RejectPre.

(* the conditions of a precondition body: the conjuncts of (and ...), or the body itself; '()' has none *)
Definition conds_of (body : list sexp) : list sexp :=
  match body with
  | [] => []
  | Atom h :: args => if String.eqb h "and" then args else [SList body]
  | _ => [SList body]
  end.

Lemma cond_position_nil x : ~ cond_position x [].
Proof. intros H. inversion H as [? ? Hin|? ? ? ? Hin|? ? ? ? ? ? Hin]; destruct Hin. Qed.

Theorem parse_preconditions_rejects num tt consts preds funcs sg body p x :
  parse_preconditions num tt consts preds funcs sg (SList body) = Ok p ->
  cond_position x (conds_of body) ->
  exists h, head_of x = Ok h /\ cond_head_ok preds h = true.
Proof.
  intros H Hpos. destruct body as [|[h|sub] args].
  - exfalso. exact (cond_position_nil x Hpos).
  - cbn [conds_of] in Hpos. destruct (String.eqb h "and") eqn:Eand.
    + apply String.eqb_eq in Eand. subst h. cbn [parse_preconditions] in H.
      exact (parse_pre_rejects num tt consts preds funcs _ sg empty_pre args p x H Hpos).
    + rewrite parse_preconditions_other in H by exact Eand.
      destruct (Nat.ltb 1 (List.length args)); [discriminate|].
      exact (parse_pre_rejects num tt consts preds funcs _ sg empty_pre _ p x H Hpos).
  - cbn [conds_of] in Hpos. cbn [parse_preconditions] in H.
    destruct (Nat.ltb 1 (List.length args)); [discriminate|].
    exact (parse_pre_rejects num tt consts preds funcs _ sg empty_pre _ p x H Hpos).
Qed.

(* in particular: imply, exists, when, a literal over an undeclared predicate ... anywhere in a precondition *)
Corollary precondition_form_rejected num tt consts preds funcs sg body h args :
  cond_head_ok preds h = false ->
  cond_position (SList (Atom h :: args)) (conds_of body) ->
  exists k, parse_preconditions num tt consts preds funcs sg (SList body) = Err k.
Proof.
  intros Hh Hpos. destruct (parse_preconditions num tt consts preds funcs sg (SList body)) as [p|k] eqn:E; [|eauto].
  destruct (parse_preconditions_rejects _ _ _ _ _ _ _ _ _ E Hpos) as (h' & Hh' & Hok).
  cbn [head_of] in Hh'. injection Hh' as <-. rewrite Hh in Hok. discriminate.
Qed.

(* ---------- effects ---------- *)
Definition eff_head_ok (preds : pydict signature) (h : string) : bool :=
  dmem preds h || String.eqb h "not" || String.eqb h "forall" || String.eqb h "when" || str_in h assignment_ops.

Section RejectEff.
  Variable num : numparser.
  Variable tt : typetable.
  Variable consts : pydict string.
  Variable preds : pydict signature.
  Variable funcs : pydict signature.

  Lemma parse_effect_node_head sg acc node acc' :
    parse_effect_node num tt consts preds funcs sg acc node = Ok acc' ->
    exists h, head_of node = Ok h /\ eff_head_ok preds h = true.
  Proof.
    unfold parse_effect_node, eff_head_ok. intros H.
    destruct (head_of node) as [h|] eqn:Eh; cbn [bind] in H; [|discriminate].
    exists h. split; [reflexivity|].
    destruct (dmem preds h); [reflexivity|]. cbn [orb].
    destruct (String.eqb h "not"); [reflexivity|]. cbn [orb].
    destruct (String.eqb h "forall"); [reflexivity|]. cbn [orb].
    destruct (String.eqb h "when"); [reflexivity|]. cbn [orb].
    destruct (str_in h assignment_ops); [reflexivity|discriminate].
  Qed.

  Lemma foldM_each {A S} (f : S -> A -> result S) : forall l s s' x,
    foldM f l s = Ok s' -> In x l -> exists s0 s1, f s0 x = Ok s1.
  Proof.
    induction l as [|y ys IH]; intros s s' x H Hin; [destruct Hin|].
    cbn [foldM] in H. destruct (f s y) as [s1|] eqn:E; cbn [bind] in H; [|discriminate].
    destruct Hin as [<-|Hin]; [eauto|]. exact (IH s1 s' x H Hin).
  Qed.

  (* an effect is (and e1 ... en) and every ei is an atom of a declared predicate, a not, a forall, a when or an
     assignment: scale-up / scale-down, a nested and, a comparison, an undeclared predicate are refused *)
  Theorem parse_effects_rejects sg e ef :
    parse_effects num tt consts preds funcs sg e = Ok ef ->
    exists nodes, e = SList (Atom "and" :: nodes) /\
                  forall x, In x nodes -> exists h, head_of x = Ok h /\ eff_head_ok preds h = true.
  Proof.
    unfold parse_effects. intros H.
    destruct (head_of e) as [h|] eqn:Eh; cbn [bind] in H; [|discriminate].
    destruct (negb (String.eqb h "and")) eqn:Eand; [discriminate|].
    apply negb_false_iff, String.eqb_eq in Eand. subst h.
    destruct e as [s|[|hd nodes]]; try discriminate H.
    destruct hd as [h|sub]; [|discriminate Eh]. cbn [head_of] in Eh. injection Eh as ->.
    exists nodes. split; [reflexivity|]. intros x Hin.
    destruct (foldM_each _ _ _ _ x H Hin) as (s0 & s1 & Hs).
    exact (parse_effect_node_head sg s0 x s1 Hs).
  Qed.

  (* the result of a 'when': each item is a literal over names, a (not literal), or an assignment *)
  Lemma parse_result_shape sg l r :
    parse_result num consts funcs sg (SList l) = Ok r ->
    exists h args, l = Atom h :: args /\
      (String.eqb h "not" = true \/ str_in h assignment_ops = true \/ exists names, atom_names args = Some names).
  Proof.
    unfold parse_result. intros H.
    destruct l as [|[h|sub] args]; try discriminate H.
    exists h, args. split; [reflexivity|]. cbn [head_of bind] in H.
    destruct (String.eqb h "not"); [left; reflexivity|].
    destruct (str_in h assignment_ops); [right; left; reflexivity|].
    right. right.
    destruct (parse_untyped_predicate sg consts true (SList (Atom h :: args))) as [lit|] eqn:El; cbn [bind] in H;
      [|discriminate].
    destruct (parse_untyped_predicate_ok _ _ _ _ _ El) as (n & args0 & names & Hnode & Hnames & _).
    injection Hnode as <- <-. eauto.
  Qed.
End RejectEff.

(* ---------- numeric terms: an arithmetic operator takes exactly two operands, everywhere in the term ---------- *)
Fixpoint arith_binary (e : sexp) : bool :=
  match e with
  | Atom _ => true
  | SList l =>
      match l with
      | Atom h :: args => if str_in h numeric_ops then Nat.eqb (List.length args) 2 else true
      | _ => true
      end &&
      (fix go (l : list sexp) : bool := match l with [] => true | x :: r => arith_binary x && go r end) l
  end.

Lemma arith_binary_go l :
  (fix go (l : list sexp) : bool := match l with [] => true | x :: r => arith_binary x && go r end) l
  = forallb arith_binary l.
Proof. induction l as [|x r IH]; [reflexivity|]. simpl. rewrite IH. reflexivity. Qed.

Lemma all_atoms_binary l : all_atoms l = true -> forallb arith_binary l = true.
Proof.
  induction l as [|[s|sub] r IH]; simpl; [reflexivity| |discriminate]. intros H. apply IH. exact H.
Qed.

Theorem construct_binary num funcs : forall fuel e t,
  construct num funcs fuel e = Ok t -> arith_binary e = true.
Proof.
  induction fuel as [|fu IH]; intros e t H; [discriminate|].
  destruct e as [s|l]; [reflexivity|]. cbn [construct] in H. cbn [arith_binary]. rewrite arith_binary_go.
  destruct (all_atoms l) eqn:Ea.
  - rewrite (all_atoms_binary l Ea), andb_true_r.
    destruct l as [|[h|sub] args]; try reflexivity.
    destruct (str_in h numeric_ops); [|reflexivity].
    destruct args as [|[a|sa] [|[b|sb] [|c r]]]; try discriminate H. reflexivity.
  - destruct l as [|[h|sub] [|a [|b [|c r]]]]; try discriminate H.
    destruct (construct num funcs fu a) as [ta|] eqn:Eta; cbn [bind] in H; [|discriminate].
    destruct (construct num funcs fu b) as [tb|] eqn:Etb; cbn [bind] in H; [|discriminate].
    cbn [List.length forallb arith_binary]. rewrite (IH _ _ Eta), (IH _ _ Etb).
    destruct (str_in h numeric_ops); reflexivity.
Qed.

(* ---------- typed lists: '(either t1 t2)' (any list where a name is expected) is refused ---------- *)
Lemma atom_names_all_atoms l names : atom_names l = Some names -> forall x, In x l -> exists s, x = Atom s.
Proof.
  revert names. induction l as [|[s|sub] r IH]; intros names H x Hin; [destruct Hin| |discriminate].
  rewrite atom_names_cons_atom in H. destruct (atom_names r) as [xs|] eqn:E; [|discriminate].
  destruct Hin as [<-|Hin]; [eauto|]. exact (IH xs eq_refl x Hin).
Qed.

Theorem parse_signature_names tt toks sg :
  parse_signature tt toks = Ok sg -> forall x, In x toks -> exists s, x = Atom s.
Proof.
  intros H. destruct (parse_signature_spec tt toks sg H) as (rows & Hr & _).
  unfold read_typed in Hr. destruct (atom_names toks) as [names|] eqn:En; [|discriminate].
  exact (atom_names_all_atoms toks names En).
Qed.

(* ---------- a literal with a repeated argument is refused ---------- *)
Theorem literal_no_repeat sg consts pos n args l :
  parse_untyped_predicate sg consts pos (SList (Atom n :: args)) = Ok l ->
  atom_names args = Some (l_args l) /\ has_dup (l_args l) = false.
Proof.
  simpl. destruct (atoms_of args) as [names|] eqn:Ea; simpl; [|discriminate].
  destruct (negb _); [discriminate|]. destruct (has_dup names) eqn:Ed; [discriminate|].
  intros H. injection H as <-. simpl. split; [apply atoms_of_atom_names; exact Ea|exact Ed].
Qed.

(* ---------- what is stored although it cannot be evaluated raises when the action is grounded ---------- *)
Section FirstUse.
  Variable dom : mdomain.

  (* a literal over an undeclared predicate, or with a number of arguments other than declared *)
  Definition bad_literal (p : string) (args : list string) : Prop :=
    match dget (d_preds dom) p with
    | None => True
    | Some sg => List.length sg <> List.length args
    end.

  Lemma ground_lit_bad pm p args : bad_literal p args -> exists k, ground_lit dom pm p args = Err k.
  Proof.
    unfold bad_literal, ground_lit. destruct (dget (d_preds dom) p) as [sg|]; [|eauto].
    intros Hne. destruct (Nat.eqb (List.length sg) (List.length args)) eqn:E.
    - apply Nat.eqb_eq in E. contradiction.
    - simpl. eauto.
  Qed.

  Lemma mapM_err {A B} (f : A -> result B) l x :
    In x l -> (exists k, f x = Err k) -> exists k, mapM f l = Err k.
  Proof.
    induction l as [|y ys IH]; intros Hin Hx; [destruct Hin|]. cbn [mapM].
    destruct Hin as [<-|Hin].
    - destruct Hx as [k ->]. simpl. eauto.
    - destruct (f y); [|simpl; eauto]. cbn [bind]. destruct (IH Hin Hx) as [k ->]. simpl. eauto.
  Qed.

  Lemma ground_operands_err pm os c :
    In c os -> (exists k, ground_cond dom pm c = Err k) ->
    exists k, (fix go (l : list mcond) : result (list gcond) :=
                 match l with
                 | [] => Ok []
                 | c :: r => do gc <- ground_cond dom pm c; do gr <- go r; Ok (gc :: gr)
                 end) os = Err k.
  Proof.
    induction os as [|y ys IH]; intros Hin Hx; [destruct Hin|].
    destruct Hin as [<-|Hin].
    - destruct Hx as [k Hk]. rewrite Hk. simpl. eauto.
    - destruct (ground_cond dom pm y); [|simpl; eauto]. cbn [bind]. destruct (IH Hin Hx) as [k ->]. simpl. eauto.
  Qed.

  Lemma ground_pre_unfold pm op os eqs neqs :
    ground_pre dom pm (MPre op os eqs neqs) =
    (do geqs <- ground_pairs pm eqs;
     do gneqs <- ground_pairs pm neqs;
     do gos <- (fix go (l : list mcond) : result (list gcond) :=
                  match l with
                  | [] => Ok []
                  | c :: r => do gc <- ground_cond dom pm c; do gr <- go r; Ok (gc :: gr)
                  end) os;
     Ok (GPre op gos geqs gneqs)).
  Proof. reflexivity. Qed.

  Lemma ground_pre_bad_literal pm op os eqs neqs pos p args :
    In (MLit pos p args) os -> bad_literal p args ->
    exists k, ground_pre dom pm (MPre op os eqs neqs) = Err k.
  Proof.
    intros Hin Hbad. rewrite ground_pre_unfold.
    destruct (ground_pairs pm eqs); [|simpl; eauto]. cbn [bind].
    destruct (ground_pairs pm neqs); [|simpl; eauto]. cbn [bind].
    destruct (ground_operands_err pm os (MLit pos p args) Hin) as [k Hk].
    - cbn [ground_cond]. destruct (ground_lit_bad pm p args Hbad) as [k ->]. simpl. eauto.
    - rewrite Hk. simpl. eauto.
  Qed.

  (* ... among the conjuncts of the precondition *)
  Theorem ground_action_bad_precondition a op os eqs neqs pos p args :
    ma_pre a = MPre op os eqs neqs -> In (MLit pos p args) os -> bad_literal p args ->
    forall call, exists k, ground_action dom a call = Err k.
  Proof.
    intros Hpre Hin Hbad call. unfold ground_action. rewrite Hpre.
    destruct (ground_pre_bad_literal (combine (dkeys (ma_sig a)) call) op os eqs neqs pos p args Hin Hbad) as [k ->].
    simpl. eauto.
  Qed.

  Lemma ground_group_bad_literal pm ante disc nums l :
    In l disc -> bad_literal (l_name l) (l_args l) -> exists k, ground_group dom pm ante disc nums = Err k.
  Proof.
    intros Hin Hbad. unfold ground_group.
    destruct (match ante with None => Ok None | Some a => do g <- ground_pre dom pm a; Ok (Some g) end); [|simpl; eauto].
    cbn [bind].
    destruct (mapM_err (fun l0 => do a <- ground_lit dom pm (l_name l0) (l_args l0); Ok (l_pos l0, a)) disc l Hin) as [k ->].
    - destruct (ground_lit_bad pm (l_name l) (l_args l) Hbad) as [k ->]. simpl. eauto.
    - simpl. eauto.
  Qed.

  (* ... among the unconditional effects, or the results of a 'when' *)
  Theorem ground_action_bad_effect a l :
    In l (ma_disc a) -> bad_literal (l_name l) (l_args l) ->
    forall call, exists k, ground_action dom a call = Err k.
  Proof.
    intros Hin Hbad call. unfold ground_action.
    destruct (ground_pre dom _ (ma_pre a)); [|simpl; eauto]. cbn [bind].
    destruct (ground_group_bad_literal (combine (dkeys (ma_sig a)) call) None (ma_disc a) (ma_num a) l Hin Hbad) as [k ->].
    simpl. eauto.
  Qed.

  Theorem ground_action_bad_when_result a ce l :
    In ce (ma_cond a) -> In l (ce_disc ce) -> bad_literal (l_name l) (l_args l) ->
    forall call, exists k, ground_action dom a call = Err k.
  Proof.
    intros Hce Hin Hbad call. unfold ground_action.
    destruct (ground_pre dom _ (ma_pre a)); [|simpl; eauto]. cbn [bind].
    destruct (ground_group dom _ None (ma_disc a) (ma_num a)); [|simpl; eauto]. cbn [bind].
    destruct (mapM_err (fun ce0 => ground_group dom (combine (dkeys (ma_sig a)) call) (Some (ce_ante ce0)) (ce_disc ce0) (ce_num ce0))
                       (ma_cond a) ce Hce) as [k ->].
    - exact (ground_group_bad_literal _ _ _ _ l Hin Hbad).
    - simpl. eauto.
  Qed.

  (* '(= 1 1.0)', '(= ?x c1)': a name in an (in)equality that is not a parameter of the action *)
  Lemma ground_pairs_unbound pm l a b :
    In (a, b) l -> dget pm a = None \/ dget pm b = None -> exists k, ground_pairs pm l = Err k.
  Proof.
    intros Hin Hun. unfold ground_pairs. apply (mapM_err _ l (a, b) Hin). cbn [fst snd].
    destruct Hun as [H|H]; rewrite H; [eauto|]. destruct (dget pm a); eauto.
  Qed.

  Theorem ground_action_unbound_equality a op os eqs neqs x y :
    ma_pre a = MPre op os eqs neqs -> In (x, y) (eqs ++ neqs) ->
    ~ In x (dkeys (ma_sig a)) \/ ~ In y (dkeys (ma_sig a)) ->
    forall call, exists k, ground_action dom a call = Err k.
  Proof.
    intros Hpre Hin Hun call. unfold ground_action. rewrite Hpre. rewrite ground_pre_unfold.
    set (pm := combine (dkeys (ma_sig a)) call).
    assert (Hnone : forall z, ~ In z (dkeys (ma_sig a)) -> dget pm z = None).
    { intros z Hz. apply dget_none_notin. intros Hk. apply Hz. unfold pm, dkeys in Hk.
      apply in_map_iff in Hk. destruct Hk as ([k v] & <- & Hkv). apply in_combine_l in Hkv. exact Hkv. }
    assert (Hun' : dget pm x = None \/ dget pm y = None) by (destruct Hun as [H|H]; [left|right]; apply Hnone; exact H).
    apply in_app_or in Hin. destruct Hin as [Hin|Hin].
    - destruct (ground_pairs_unbound pm eqs x y Hin Hun') as [k ->]. simpl. eauto.
    - destruct (ground_pairs pm eqs); [|simpl; eauto]. cbn [bind].
      destruct (ground_pairs_unbound pm neqs x y Hin Hun') as [k ->]. simpl. eauto.
  Qed.
End FirstUse.
