(* C08: reading back printed typed lists, literals and numeric expression trees. *)
From Coq Require Import List Ascii String Bool Arith Lia PrimFloat.
From Verif Require Import Base.Result Base.Str Base.Sexp Base.PyDict Base.Float
  Model.Types Model.NumExpr Model.Domain Model.DomainExporter Proofs.C08_Defs.
Import ListNotations.
Open Scope string_scope.
Open Scope list_scope.

(* ---------- small facts ---------- *)
Lemma forallb_In {A} (f : A -> bool) l x : forallb f l = true -> In x l -> f x = true.
Proof. intros H Hin. rewrite forallb_forall in H. apply H. exact Hin. Qed.

Lemma atoms_of_map_atom l : atoms_of (map Atom l) = Ok l.
Proof. induction l as [|x xs IH]; simpl; [reflexivity|]. rewrite IH. reflexivity. Qed.

Lemma all_atoms_map_atom l : all_atoms (map Atom l) = true.
Proof. induction l as [|x xs IH]; simpl; [reflexivity|exact IH]. Qed.

Lemma has_dup_false_nodup l : has_dup l = false -> NoDup l.
Proof.
  induction l as [|x xs IH]; simpl; intros H; [constructor|].
  apply orb_false_iff in H. destruct H as [H1 H2]. constructor; [|apply IH; exact H2].
  intros Hin. apply str_in_In in Hin. congruence.
Qed.

Lemma dmem_dget {V} (d : pydict V) k : dmem d k = true <-> exists v, dget d k = Some v.
Proof. unfold dmem. destruct (dget d k); split; eauto; try discriminate. intros [v H]. discriminate. Qed.

Lemma dget_notin {V} (d : pydict V) k : ~ In k (dkeys d) -> dget d k = None.
Proof.
  induction d as [|[k' v] r IH]; simpl; intros H; [reflexivity|].
  destruct (String.eqb k k') eqn:E.
  - apply String.eqb_eq in E. subst. exfalso. apply H. left. reflexivity.
  - apply IH. intros Hin. apply H. right. exact Hin.
Qed.

Lemma dset_fresh' {V} (d : pydict V) k v : ~ In k (dkeys d) -> dset d k v = d ++ [(k, v)].
Proof.
  induction d as [|[k' v'] r IH]; simpl; intros H; [reflexivity|].
  destruct (String.eqb k k') eqn:E.
  - apply String.eqb_eq in E. subst. exfalso. apply H. left. reflexivity.
  - f_equal. apply IH. intros Hin. apply H. right. exact Hin.
Qed.

Lemma dkeys_app' {V} (a b : pydict V) : dkeys (a ++ b) = dkeys a ++ dkeys b.
Proof. unfold dkeys. apply map_app. Qed.

(* inserting fresh, pairwise distinct keys one after the other appends them *)
Lemma fold_dset_fresh {V} (l : list (string * V)) : forall d,
  NoDup (dkeys l) -> (forall k, In k (dkeys l) -> ~ In k (dkeys d)) ->
  fold_left (fun acc kv => dset acc (fst kv) (snd kv)) l d = d ++ l.
Proof.
  induction l as [|[k v] r IH]; intros d Hnd Hfresh; simpl.
  - rewrite app_nil_r. reflexivity.
  - simpl in Hnd. inversion Hnd as [|? ? Hnk Hnd']; subst.
    rewrite dset_fresh' by (apply Hfresh; left; reflexivity).
    rewrite IH.
    + rewrite <- app_assoc. reflexivity.
    + exact Hnd'.
    + intros k' Hk'. rewrite dkeys_app'. simpl. intros Hin. apply in_app_or in Hin. destruct Hin as [Hin|[Heq|[]]].
      * apply (Hfresh k'); [right; exact Hk'|exact Hin].
      * subst. contradiction.
Qed.

Lemma starts_with_q_not_dash s : starts_with_q s = true -> String.eqb s "-" = false.
Proof. destruct s as [|c r]; simpl; [discriminate|]. intros H. apply Ascii.eqb_eq in H. subst. reflexivity. Qed.

(* ---------- typed lists: parse_signature (sig_tokens sg) = sg ---------- *)
Section Sig.
  Variable tt : typetable.
  Variable tyk : string -> bool.
  Hypothesis Htyk : forall t, type_known tt t = tyk t.

  Lemma parse_signature_aux_roundtrip (sg : signature) : forall acc,
    wf_sig tyk sg = true ->
    (forall k, In k (dkeys sg) -> ~ In k (dkeys acc)) ->
    parse_signature_aux tt (sig_tokens sg) [] acc = Ok (acc ++ sg).
  Proof.
    induction sg as [|[p ty] r IH]; intros acc Hwf Hfresh.
    - simpl. rewrite app_nil_r. reflexivity.
    - unfold wf_sig in Hwf. simpl in Hwf.
      apply andb_true_iff in Hwf. destruct Hwf as [Hdup Hall].
      apply negb_true_iff in Hdup. apply orb_false_iff in Hdup. destruct Hdup as [Hp Hdup].
      apply andb_true_iff in Hall. destruct Hall as [Hpt Hall].
      apply andb_true_iff in Hpt. destruct Hpt as [Hq Hty]. simpl in Hq, Hty.
      cbn [sig_tokens flat_map fst snd app].
      change (flat_map (fun pt : string * string => [Atom (fst pt); Atom "-"; Atom (snd pt)]) r) with (sig_tokens r).
      cbn [parse_signature_aux].
      rewrite (starts_with_q_not_dash p Hq). rewrite Hq. cbn [negb app].
      rewrite String.eqb_refl. cbn [forallb]. rewrite Hq. cbn [andb negb]. rewrite Htyk, Hty. cbn [negb fold_left].
      rewrite dset_fresh' by (apply Hfresh; left; reflexivity).
      rewrite IH.
      + rewrite <- app_assoc. reflexivity.
      + unfold wf_sig. rewrite Hdup, Hall. reflexivity.
      + intros k Hk. rewrite dkeys_app'. simpl. intros Hin. apply in_app_or in Hin. destruct Hin as [Hin|[Heq|[]]].
        * apply (Hfresh k); [right; exact Hk|exact Hin].
        * subst k. apply str_in_In in Hk. unfold dkeys in *. congruence.
  Qed.

  Lemma parse_signature_roundtrip sg :
    wf_sig tyk sg = true -> parse_signature tt (sig_tokens sg) = Ok sg.
  Proof.
    intros H. unfold parse_signature. rewrite parse_signature_aux_roundtrip; [reflexivity|exact H|intros k _ []].
  Qed.

  Lemma sig_tokens_length sg : List.length (sig_tokens sg) = 3 * List.length sg.
  Proof.
    induction sg as [|[p t] r IH]; [reflexivity|].
    change (sig_tokens ((p, t) :: r)) with ([Atom p; Atom "-"; Atom t] ++ sig_tokens r).
    rewrite app_length, IH. simpl. lia.
  Qed.
End Sig.

(* ---------- literals ---------- *)
Section Lits.
  Variable consts : pydict string.
  Variable ck : string -> bool.
  Hypothesis Hck : forall a, dmem consts a = ck a.

  Lemma parse_untyped_roundtrip sg pos p args :
    wf_args ck sg args = true ->
    parse_untyped_predicate sg consts pos (SList (Atom p :: map Atom args)) =
    Ok {| l_pos := pos; l_name := p; l_args := args |}.
  Proof.
    intros H. unfold wf_args in H. apply andb_true_iff in H. destruct H as [Hk Hd].
    unfold parse_untyped_predicate. rewrite atoms_of_map_atom. cbn [bind].
    assert (Hk' : forallb (fun a => dmem sg a || dmem consts a) args = true).
    { rewrite <- Hk. clear Hk Hd. induction args as [|a r IH]; simpl; [reflexivity|]. rewrite Hck, IH. reflexivity. }
    rewrite Hk'. cbn [negb]. apply negb_true_iff in Hd. rewrite Hd. reflexivity.
  Qed.
End Lits.

(* ---------- numeric expression trees ---------- *)
Section Trees.
  Variable num : numparser.
  Variable funcs : pydict signature.
  Variable d : nat.

  Fixpoint depth (t : mtree) : nat :=
    match t with TNode _ l r => S (Nat.max (depth l) (depth r)) | _ => 1 end.

  Lemma depth_le_size t : depth t <= size (export_tree d t).
  Proof.
    induction t as [x|f a|op l IHl r IHr].
    - simpl. lia.
    - cbn [depth export_tree size]. lia.
    - cbn [depth export_tree]. change (size (SList [Atom op; export_tree d l; export_tree d r]))
        with (2 + (1 + (size (export_tree d l) + (size (export_tree d r) + 0)))). lia.
  Qed.

  Lemma leaf_number_ok x : num_ok num d x = true -> leaf_number num (num_text d x) = Ok (TNum (rnd num d x)).
  Proof.
    unfold num_ok, leaf_number, rnd. intros H. apply andb_true_iff in H. destruct H as [H1 H2].
    apply negb_true_iff in H1. rewrite H1. destruct (num (num_text d x)); [reflexivity|discriminate].
  Qed.

  Lemma num_ok_some x : num_ok num d x = true -> num (num_text d x) = Some (rnd num d x).
  Proof.
    unfold num_ok, rnd. intros H. apply andb_true_iff in H. destruct H as [_ H2].
    destruct (num (num_text d x)); [reflexivity|discriminate].
  Qed.

  Lemma all_atoms_tree_false t rest : is_tnum t = false -> all_atoms (export_tree d t :: rest) = false.
  Proof. destruct t; simpl; [discriminate|reflexivity|reflexivity]. Qed.

  Lemma construct_roundtrip t : forall fuel,
    wf_tree num funcs d t = true -> depth t < fuel ->
    construct num funcs fuel (export_tree d t) = Ok (rr_tree num d t).
  Proof.
    induction t as [x|f a|op l IHl r IHr]; intros fuel Hwf Hfuel.
    - destruct fuel as [|fu]; [cbn [depth] in Hfuel; lia|].
      cbn [export_tree construct rr_tree]. apply leaf_number_ok. exact Hwf.
    - destruct fuel as [|fu]; [cbn [depth] in Hfuel; lia|].
      cbn [wf_tree] in Hwf. apply andb_true_iff in Hwf. destruct Hwf as [Hop Hf].
      apply negb_true_iff in Hop.
      destruct (dget funcs f) as [sg|] eqn:Esg; [|discriminate].
      apply andb_true_iff in Hf. destruct Hf as [Hlen Hdup]. apply negb_true_iff in Hdup.
      cbn [export_tree construct rr_tree].
      change (all_atoms (Atom f :: map Atom a)) with (all_atoms (map Atom a)).
      rewrite all_atoms_map_atom, Hop, Esg, atoms_of_map_atom. cbn [bind].
      destruct a as [|a0 ar].
      + apply Nat.eqb_eq in Hlen. destruct sg; [reflexivity|discriminate].
      + rewrite Hlen, Hdup. reflexivity.
    - destruct fuel as [|fu]; [cbn [depth] in Hfuel; lia|].
      cbn [depth] in Hfuel.
      cbn [wf_tree] in Hwf. apply andb_true_iff in Hwf. destruct Hwf as [Hlr Hop].
      apply andb_true_iff in Hlr. destruct Hlr as [Hl Hr].
      cbn [export_tree rr_tree].
      destruct (is_tnum l && is_tnum r) eqn:Enum.
      + apply andb_true_iff in Enum. destruct Enum as [El Er].
        destruct l as [x| |]; try discriminate. destruct r as [y| |]; try discriminate.
        cbn [export_tree construct all_atoms forallb andb rr_tree]. rewrite Hop.
        cbn [wf_tree] in Hl, Hr.
        rewrite (num_ok_some x Hl), (num_ok_some y Hr). reflexivity.
      + assert (Hna : all_atoms [Atom op; export_tree d l; export_tree d r] = false).
        { cbn [all_atoms forallb andb]. apply andb_false_iff in Enum. destruct Enum as [E|E].
          - destruct l; try discriminate; reflexivity.
          - destruct r; try discriminate; destruct (export_tree d l); reflexivity. }
        cbn [construct]. rewrite Hna.
        rewrite IHl by (try exact Hl; lia). cbn [bind].
        rewrite IHr by (try exact Hr; lia). reflexivity.
  Qed.

  Lemma construct_tree_fuel t :
    wf_tree num funcs d t = true ->
    construct num funcs (tree_fuel (export_tree d t)) (export_tree d t) = Ok (rr_tree num d t).
  Proof. intros H. apply construct_roundtrip; [exact H|]. unfold tree_fuel. pose proof (depth_le_size t). lia. Qed.
End Trees.
