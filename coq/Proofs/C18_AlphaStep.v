(* C18, part 9: Model.ChangeSignatureAlpha (the renaming as it would be after the proposed repair D75b: a quantified
   variable is renamed out of the way when a new name equals it) agrees with Model.ChangeSignature wherever no entry
   of the mapping lands on a quantified variable of the action - in particular under the side condition renaming_ok
   of theorem C18_rename when the mapping's keys are names of the action.  So the theorems proved for
   Model.ChangeSignature carry over to the repaired code on the whole fragment they cover; the repair only adds
   behaviour where the unrepaired code captures (finding D75). *)
From Coq Require Import List String Bool Arith Lia.
From Verif Require Import Base.Result Base.Str Base.PyDict Model.Domain Model.ChangeSignature Model.ChangeSignatureAlpha
  Proofs.C18_Dict Proofs.C18_Denote Proofs.C18_Exec Proofs.C18_Check.
Import ListNotations.
Open Scope string_scope.
Open Scope list_scope.

(* no entry that moves a name sends it to a name of B *)
Definition no_target_in (B : list string) (m : renaming) : Prop :=
  forall k x, In (k, x) m -> k <> x -> ~ In x B.

Lemma no_target_drop B m v : no_target_in B m -> no_target_in B (drop m v).
Proof.
  intros H k x Hin. apply H. unfold drop in Hin. apply filter_In in Hin. exact (proj1 Hin).
Qed.

Lemma inactive B m v : no_target_in B m -> In v B -> str_in v (dvalues (drop m v)) = false.
Proof.
  intros H Hv. destruct (str_in v (dvalues (drop m v))) eqn:E; [|reflexivity].
  apply str_in_In in E. unfold dvalues in E. apply in_map_iff in E. destruct E as [[k x] [Hx Hin]].
  simpl in Hx. subst x. unfold drop in Hin. apply filter_In in Hin. destruct Hin as [Hin Hk]. simpl in Hk.
  apply negb_true_iff in Hk. exfalso. apply (H k v Hin); [|exact Hv].
  intros ->. rewrite String.eqb_refl in Hk. discriminate.
Qed.

Lemma mapM_ok_map {A C} (f : A -> result C) (g : A -> C) (l : list A) (l' : list C) :
  (forall x y, In x l -> f x = Ok y -> y = g x) -> mapM f l = Ok l' -> l' = map g l.
Proof.
  revert l'. induction l as [|a r IH]; simpl; intros l' H Hm.
  - inversion Hm. reflexivity.
  - apply bind_ok_inv in Hm. destruct Hm as [y [Hy Hm]]. apply bind_ok_inv in Hm. destruct Hm as [ys [Hys Hm]].
    inversion Hm; subst l'. rewrite (H a y (or_introl eq_refl) Hy).
    rewrite (IH ys (fun x z Hx Hz => H x z (or_intror Hx) Hz) Hys). reflexivity.
Qed.

Lemma bound_pre_unfold op os eqs neqs : bound_pre (MPre op os eqs neqs) = flat_map bound_cond os.
Proof. simpl. induction os as [|c r IH]; simpl; [reflexivity|]. rewrite IH. reflexivity. Qed.

(* whenever the renaming with the alpha step returns, and no entry lands on a quantified variable, it returns what the
   renaming without it returns *)
Lemma rename_a_inactive B : forall fuel,
  (forall m p p', no_target_in B m -> incl (bound_pre p) B -> rename_pre_a fuel m p = Ok p' -> p' = rename_pre m p) /\
  (forall m c c', no_target_in B m -> incl (bound_cond c) B -> rename_cond_a fuel m c = Ok c' -> c' = rename_cond m c).
Proof.
  induction fuel as [|fu [IHp IHc]]; [split; intros; discriminate|]. split.
  - intros m [op os eqs neqs] p' Hm Hb H. cbn [rename_pre_a] in H.
    apply bind_ok_inv in H. destruct H as [os' [Hos H]]. inversion H; subst p'.
    rewrite rename_pre_unfold. f_equal.
    rewrite bound_pre_unfold in Hb.
    apply (mapM_ok_map (rename_cond_a fu m) (rename_cond m) os os'); [|exact Hos].
    intros c c' Hc Hcc. apply (IHc m c c' Hm); [|exact Hcc].
    intros x Hx. apply Hb. apply in_flat_map. exists c. split; assumption.
  - intros m c c' Hm Hb H. destruct c as [pos p args|t|q|v ty body]; cbn [rename_cond_a] in H.
    + inversion H. reflexivity.
    + inversion H. reflexivity.
    + apply bind_ok_inv in H. destruct H as [q' [Hq H]]. inversion H; subst c'. simpl.
      rewrite (IHp m q q' Hm Hb Hq). reflexivity.
    + assert (Hv : In v B) by (apply Hb; left; reflexivity).
      rewrite (inactive B m v Hm Hv) in H.
      apply bind_ok_inv in H. destruct H as [b' [Hb' H]]. inversion H; subst c'. simpl.
      rewrite (IHp (drop m v) body b' (no_target_drop B m v Hm)); [reflexivity| |exact Hb'].
      intros x Hx. apply Hb. right. exact Hx.
Qed.

Lemma rename_condeff_a_inactive B fuel m ce ce' :
  no_target_in B m -> incl (bound_pre (ce_ante ce)) B -> rename_condeff_a fuel m ce = Ok ce' -> ce' = rename_condeff m ce.
Proof.
  intros Hm Hb H. unfold rename_condeff_a in H. apply bind_ok_inv in H. destruct H as [ante [Ha H]].
  inversion H; subst ce'. unfold rename_condeff.
  rewrite (proj1 (rename_a_inactive B fuel) m (ce_ante ce) ante Hm Hb Ha). reflexivity.
Qed.

Lemma rename_univeff_a_inactive B fuel m ue ue' :
  no_target_in B m -> incl (ue_var ue :: bound_pre (ce_ante (ue_ce ue))) B ->
  rename_univeff_a fuel m ue = Ok ue' -> ue' = rename_univeff m ue.
Proof.
  intros Hm Hb H. unfold rename_univeff_a in H.
  assert (Hv : In (ue_var ue) B) by (apply Hb; left; reflexivity).
  rewrite (inactive B m (ue_var ue) Hm Hv) in H.
  apply bind_ok_inv in H. destruct H as [ce [Hce H]]. inversion H; subst ue'. unfold rename_univeff.
  rewrite (rename_condeff_a_inactive B fuel (drop m (ue_var ue)) (ue_ce ue) ce (no_target_drop B m _ Hm)); [reflexivity| |exact Hce].
  intros x Hx. apply Hb. right. exact Hx.
Qed.

Theorem change_signature_fuel_inactive (fuel : nat) (m : renaming) (a a' : maction) :
  no_target_in (bound_maction a) m -> change_signature_fuel fuel m a = Ok a' -> a' = change_signature m a.
Proof.
  intros Hm H. unfold change_signature_fuel in H.
  apply bind_ok_inv in H. destruct H as [pre [Hpre H]].
  apply bind_ok_inv in H. destruct H as [conds [Hconds H]].
  apply bind_ok_inv in H. destruct H as [univs [Hunivs H]].
  inversion H; subst a'. unfold change_signature. unfold bound_maction in Hm.
  set (B := bound_pre (ma_pre a) ++ flat_map (fun ce => bound_pre (ce_ante ce)) (ma_cond a) ++
            flat_map (fun ue => ue_var ue :: bound_pre (ce_ante (ue_ce ue))) (ma_univ a)) in *.
  rewrite (proj1 (rename_a_inactive B fuel) m (ma_pre a) pre Hm); [| |exact Hpre].
  2:{ intros x Hx. unfold B. apply in_or_app. left. exact Hx. }
  rewrite (mapM_ok_map (rename_condeff_a fuel m) (rename_condeff m) (ma_cond a) conds); [| |exact Hconds].
  2:{ intros ce ce' Hin Hce. apply (rename_condeff_a_inactive B fuel m ce ce' Hm); [|exact Hce].
      intros x Hx. unfold B. apply in_or_app. right. apply in_or_app. left. apply in_flat_map. exists ce. split; assumption. }
  rewrite (mapM_ok_map (rename_univeff_a fuel m) (rename_univeff m) (ma_univ a) univs); [reflexivity| |exact Hunivs].
  intros ue ue' Hin Hue. apply (rename_univeff_a_inactive B fuel m ue ue' Hm); [|exact Hue].
  intros x Hx. unfold B. apply in_or_app. right. apply in_or_app. right. apply in_flat_map. exists ue. split; assumption.
Qed.

Theorem change_signature_a_inactive (m : renaming) (a a' : maction) :
  no_target_in (bound_maction a) m -> change_signature_a m a = Ok a' -> a' = change_signature m a.
Proof. exact (change_signature_fuel_inactive alpha_fuel m a a'). Qed.

(* the side condition of C18_rename gives the premise, for a mapping (a Python dict: distinct keys) whose moved keys are
   names of the action *)
Lemma dget_In_NoDup {V} (d : pydict V) k v : NoDup (dkeys d) -> In (k, v) d -> dget d k = Some v.
Proof.
  induction d as [|[k' v'] r IH]; simpl; intros Hnd Hin; [contradiction|].
  inversion Hnd as [|? ? Hk Hr]; subst.
  destruct Hin as [E|Hin].
  - inversion E; subst. rewrite String.eqb_refl. reflexivity.
  - destruct (String.eqb k k') eqn:E.
    + apply String.eqb_eq in E. subst k'. exfalso. apply Hk. unfold dkeys. apply (in_map fst r (k, v) Hin).
    + apply IH; assumption.
Qed.

Theorem renaming_ok_no_target (dom : mdomain) (a : maction) (m : renaming) :
  renaming_ok dom a m = true -> NoDup (dkeys m) ->
  (forall k x, In (k, x) m -> k <> x -> In k (names_action a)) ->
  no_target_in (bound_maction a) m.
Proof.
  unfold renaming_ok. intros H Hnd Hkeys k x Hin Hne. apply andb_true_iff in H. destruct H as [_ Hg].
  apply goodb_good in Hg. destruct Hg as [_ Hmv].
  assert (Hrn : rn m k = x) by (unfold rn; rewrite (dget_In_NoDup m k x Hnd Hin); reflexivity).
  destruct (Hmv k (Hkeys k x Hin Hne)) as [Hb _]; [rewrite Hrn; intros E; apply Hne; symmetry; exact E|].
  rewrite Hrn in Hb. exact Hb.
Qed.

Corollary change_signature_a_ok (dom : mdomain) (a a' : maction) (m : renaming) :
  renaming_ok dom a m = true -> NoDup (dkeys m) ->
  (forall k x, In (k, x) m -> k <> x -> In k (names_action a)) ->
  change_signature_a m a = Ok a' -> a' = change_signature m a.
Proof.
  intros Hok Hnd Hkeys. apply change_signature_a_inactive. apply (renaming_ok_no_target dom); assumption.
Qed.

(* ---------- the fuel suffices: nesting depth ---------- *)
Fixpoint depth_pre (p : mpre) : nat :=
  match p with
  | MPre _ os _ _ =>
      S ((fix go (l : list mcond) : nat := match l with [] => 0 | c :: r => Nat.max (depth_cond c) (go r) end) os)
  end
with depth_cond (c : mcond) : nat :=
  match c with
  | MLit _ _ _ | MNum _ => 1
  | MNested q => S (depth_pre q)
  | MUniv _ _ body => S (depth_pre body)
  end.

Definition depth_action (a : maction) : nat :=
  Nat.max (depth_pre (ma_pre a))
          (Nat.max (list_max (map (fun ce => depth_pre (ce_ante ce)) (ma_cond a)))
                   (list_max (map (fun ue => depth_pre (ce_ante (ue_ce ue))) (ma_univ a)))).

Lemma depth_pre_unfold op os eqs neqs : depth_pre (MPre op os eqs neqs) = S (list_max (map depth_cond os)).
Proof.
  simpl. f_equal. induction os as [|c r IH]; simpl; [reflexivity|]. rewrite IH. reflexivity.
Qed.

Lemma mapM_all_ok {A C} (f : A -> result C) (g : A -> C) (l : list A) :
  (forall x, In x l -> f x = Ok (g x)) -> mapM f l = Ok (map g l).
Proof.
  induction l as [|a r IH]; simpl; intros H; [reflexivity|].
  rewrite (H a (or_introl eq_refl)). simpl. rewrite IH; [reflexivity|]. intros x Hx. apply H. right. exact Hx.
Qed.

Lemma list_max_in (l : list nat) x : In x l -> x <= list_max l.
Proof.
  induction l as [|y r IH]; simpl; intros H; [contradiction|].
  destruct H as [->|H]; [apply Nat.le_max_l|]. apply Nat.le_trans with (list_max r); [apply IH; exact H|apply Nat.le_max_r].
Qed.

Lemma rename_a_total B : forall fuel,
  (forall m p, no_target_in B m -> incl (bound_pre p) B -> depth_pre p <= fuel -> rename_pre_a fuel m p = Ok (rename_pre m p)) /\
  (forall m c, no_target_in B m -> incl (bound_cond c) B -> depth_cond c <= fuel -> rename_cond_a fuel m c = Ok (rename_cond m c)).
Proof.
  induction fuel as [|fu [IHp IHc]].
  - split.
    + intros m [op os eqs neqs] _ _ H. rewrite depth_pre_unfold in H. inversion H.
    + intros m c _ _ H. destruct c; simpl in H; inversion H.
  - split.
    + intros m [op os eqs neqs] Hm Hb Hd. cbn [rename_pre_a]. rewrite depth_pre_unfold in Hd. rewrite bound_pre_unfold in Hb.
      rewrite (mapM_all_ok (rename_cond_a fu m) (rename_cond m) os).
      * rewrite rename_pre_unfold. reflexivity.
      * intros c Hc. apply IHc; [exact Hm| |].
        -- intros x Hx. apply Hb. apply in_flat_map. exists c. split; assumption.
        -- apply le_S_n in Hd. apply Nat.le_trans with (list_max (map depth_cond os)); [|exact Hd].
           apply list_max_in. apply in_map. exact Hc.
    + intros m c Hm Hb Hd. destruct c as [pos p args|t|q|v ty body]; cbn [rename_cond_a].
      * reflexivity.
      * reflexivity.
      * simpl in Hd. apply le_S_n in Hd. rewrite (IHp m q Hm Hb Hd). reflexivity.
      * assert (Hv : In v B) by (apply Hb; left; reflexivity).
        rewrite (inactive B m v Hm Hv). simpl in Hd. apply le_S_n in Hd.
        rewrite (IHp (drop m v) body (no_target_drop B m v Hm)); [reflexivity| |exact Hd].
        intros x Hx. apply Hb. right. exact Hx.
Qed.

Theorem change_signature_fuel_total (fuel : nat) (m : renaming) (a : maction) :
  no_target_in (bound_maction a) m -> depth_action a <= fuel ->
  change_signature_fuel fuel m a = Ok (change_signature m a).
Proof.
  intros Hm Hd. unfold change_signature_fuel, depth_action in *. unfold bound_maction in Hm.
  set (B := bound_pre (ma_pre a) ++ flat_map (fun ce => bound_pre (ce_ante ce)) (ma_cond a) ++
            flat_map (fun ue => ue_var ue :: bound_pre (ce_ante (ue_ce ue))) (ma_univ a)) in *.
  assert (D1 : depth_pre (ma_pre a) <= fuel) by (eapply Nat.le_trans; [apply Nat.le_max_l|exact Hd]).
  assert (D2 : list_max (map (fun ce => depth_pre (ce_ante ce)) (ma_cond a)) <= fuel).
  { eapply Nat.le_trans; [|exact Hd]. eapply Nat.le_trans; [apply Nat.le_max_l|apply Nat.le_max_r]. }
  assert (D3 : list_max (map (fun ue => depth_pre (ce_ante (ue_ce ue))) (ma_univ a)) <= fuel).
  { eapply Nat.le_trans; [|exact Hd]. eapply Nat.le_trans; [apply Nat.le_max_r|apply Nat.le_max_r]. }
  rewrite (proj1 (rename_a_total B fuel) m (ma_pre a) Hm); [| |exact D1].
  2:{ intros x Hx. unfold B. apply in_or_app. left. exact Hx. }
  simpl.
  rewrite (mapM_all_ok (rename_condeff_a fuel m) (rename_condeff m) (ma_cond a)).
  2:{ intros ce Hce. unfold rename_condeff_a.
      rewrite (proj1 (rename_a_total B fuel) m (ce_ante ce) Hm); [reflexivity| |].
      - intros x Hx. unfold B. apply in_or_app. right. apply in_or_app. left. apply in_flat_map. exists ce. split; assumption.
      - eapply Nat.le_trans; [|exact D2]. apply list_max_in. apply (in_map (fun ce => depth_pre (ce_ante ce))). exact Hce. }
  simpl.
  rewrite (mapM_all_ok (rename_univeff_a fuel m) (rename_univeff m) (ma_univ a)); [reflexivity|].
  intros ue Hue. unfold rename_univeff_a.
  assert (Hv : In (ue_var ue) B).
  { unfold B. apply in_or_app. right. apply in_or_app. right. apply in_flat_map. exists ue. split; [exact Hue|left; reflexivity]. }
  rewrite (inactive B m (ue_var ue) Hm Hv). unfold rename_condeff_a.
  rewrite (proj1 (rename_a_total B fuel) (drop m (ue_var ue)) (ce_ante (ue_ce ue)) (no_target_drop B m _ Hm)); [reflexivity| |].
  - intros x Hx. unfold B. apply in_or_app. right. apply in_or_app. right. apply in_flat_map. exists ue. split; [exact Hue|right; exact Hx].
  - eapply Nat.le_trans; [|exact D3]. apply list_max_in. apply (in_map (fun ue => depth_pre (ce_ante (ue_ce ue)))). exact Hue.
Qed.

(* the renaming of the repaired code, on the fragment of theorem C18_rename: it returns, and returns what the renaming
   without the alpha step returns (nesting depth of the conditions at most alpha_fuel = 200) *)
Theorem change_signature_a_total (dom : mdomain) (a : maction) (m : renaming) :
  renaming_ok dom a m = true -> NoDup (dkeys m) ->
  (forall k x, In (k, x) m -> k <> x -> In k (names_action a)) ->
  depth_action a <= alpha_fuel ->
  change_signature_a m a = Ok (change_signature m a).
Proof.
  intros Hok Hnd Hkeys Hd. unfold change_signature_a. apply change_signature_fuel_total; [|exact Hd].
  apply (renaming_ok_no_target dom); assumption.
Qed.
