(* C09: witnesses.  A non-trivial round trip; the refutation of the full statement on the current code (a numeric
   goal over a fluent with a repeated argument, finding D07) and on the pinned exporter (goal constants printed with
   4 decimals, D50, repaired). *)
From Coq Require Import List Ascii String Bool Arith PrimFloat.
From Verif Require Import Base.Result Base.Str Base.Sexp Base.PyDict Base.Float
  Model.Tokenizer Model.Types Model.Domain Model.NumExpr Model.Problem Model.ProblemObs Model.ProblemExporter
  Spec.Pddl Spec.Grammar Spec.Problem
  Proofs.C05_Lemmas Proofs.C05_Items Proofs.C05_Parse Proofs.C05_Faithful Proofs.C05_Repeats Proofs.C05_Examples Proofs.C05_Main
  Proofs.C09_Export Proofs.C09_Round Proofs.C09_Main.
Import ListNotations.
Open Scope string_scope.
Open Scope list_scope.

(* the full statement, for an exporter that prints goal constants with [gd] *)
Definition C09_roundtrip_statement (gd : option nat) : Prop :=
  forall num repr_text dom e sp pb,
    repr_ok num repr_text sp -> dom_ok dom -> num_ok num ->
    read_problem num e = Some sp -> sp_name sp <> "" ->
    parse_problem cfg_fixed num dom e = Ok pb ->
    exists pb', parse_problem cfg_fixed num dom (export_problem repr_text gd (d_name dom) pb) = Ok pb' /\
                pdump_equiv (dump_problem pb') (dump_problem pb) = true.

(* float() and repr() on the values used below: repr is injective here and float(repr x) = x *)
Definition x_2123456 : float := 0x1.0fcd67fd3f5b6p+1%float.     (* 2.123456 *)
Definition x_21235 : float := 0x1.0fced916872b0p+1%float.       (* 2.1235 *)
Definition ex_table : list (string * float) :=
  [("3.5", 3.5%float); ("2.0", 2%float); ("-1000.0", (-1000)%float); ("1.0", 1%float);
   ("2.123456", x_2123456); ("2.1235", x_21235)].
Definition ex_repr9 (x : float) : string :=
  match find (fun p => float_beq (snd p) x) ex_table with Some p => fst p | None => "0.0" end.
Definition ex_num9 (s : string) : option float :=
  match ex_num s with
  | Some x => Some x
  | None => match find (fun p => String.eqb (fst p) s) ex_table with Some p => Some (snd p) | None =>
              if String.eqb s "0.0" then Some 0%float else None end
  end.

Lemma ex_num9_ok : num_ok ex_num9.
Proof.
  intros s Hs. apply str_in_In in Hs. simpl in Hs.
  repeat (destruct Hs as [<-|Hs]; [reflexivity|]). destruct Hs.
Qed.

(* the hypotheses of C09_roundtrip are satisfiable by a non-trivial problem *)
Example C09_hypotheses_satisfiable :
  exists sp, read_problem ex_num9 ex_problem = Some sp /\ repr_ok ex_num9 ex_repr9 sp /\ safe_repeats sp = true /\
             sp_name sp <> "" /\ List.length (values_of ex_num9 sp) = 5 /\
             exists pb, parse_problem cfg_fixed ex_num9 ex_dom ex_problem = Ok pb.
Proof.
  eexists. split; [vm_compute; reflexivity|]. split.
  - intros x Hx. vm_compute in Hx. repeat (destruct Hx as [<-|Hx]; [vm_compute; reflexivity|]). destruct Hx.
  - split; [vm_compute; reflexivity|]. split; [discriminate|]. split; [vm_compute; reflexivity|].
    eexists. vm_compute. reflexivity.
Qed.

Example C09_example_roundtrip :
  exists pb pb' pb'',
    parse_problem cfg_fixed ex_num9 ex_dom ex_problem = Ok pb /\
    parse_problem cfg_fixed ex_num9 ex_dom (export_problem ex_repr9 None "dom" pb) = Ok pb' /\
    pdump_equiv (dump_problem pb') (dump_problem pb) = true /\
    parse_problem cfg_fixed ex_num9 ex_dom (export_problem ex_repr9 None "dom" pb') = Ok pb'' /\
    pdump_equiv (dump_problem pb'') (dump_problem pb) = true /\
    List.length (pd_facts (dump_problem pb)) = 4 /\ List.length (pd_fluents (dump_problem pb)) = 3 /\
    List.length (pd_goal_num (dump_problem pb)) = 2.
Proof.
  eexists. eexists. eexists. split; [vm_compute; reflexivity|]. split; [vm_compute; reflexivity|].
  split; [vm_compute; reflexivity|]. split; [vm_compute; reflexivity|]. vm_compute. repeat split; reflexivity.
Qed.

(* ... also by a problem whose fluents have repeated arguments (in the form the library prints), and it round-trips *)
Example C09_repeats_satisfiable :
  exists sp pb pb', read_problem ex_num9 repeats_problem = Some sp /\ repr_ok ex_num9 ex_repr9 sp /\
    safe_repeats sp = true /\ no_repeats sp = false /\
    parse_problem cfg_fixed ex_num9 ex_dom repeats_problem = Ok pb /\
    parse_problem cfg_fixed ex_num9 ex_dom (export_problem ex_repr9 None "dom" pb) = Ok pb' /\
    pdump_equiv (dump_problem pb') (dump_problem pb) = true /\ List.length (pd_fluents (dump_problem pb')) = 4.
Proof.
  eexists. eexists. eexists. split; [vm_compute; reflexivity|]. split.
  - intros x Hx. vm_compute in Hx. repeat (destruct Hx as [<-|Hx]; [vm_compute; reflexivity|]). destruct Hx.
  - split; [vm_compute; reflexivity|]. split; [vm_compute; reflexivity|]. split; [vm_compute; reflexivity|].
    split; [vm_compute; reflexivity|]. split; vm_compute; reflexivity.
Qed.

(* empty sections stay empty *)
Definition empty_problem_text : sexp := tok "(define (problem pr) (:domain dom) (:objects) (:init) (:goal (and)))".
Example C09_example_empty :
  exists pb pb', parse_problem cfg_fixed ex_num9 ex_dom empty_problem_text = Ok pb /\
    parse_problem cfg_fixed ex_num9 ex_dom (export_problem ex_repr9 None "dom" pb) = Ok pb' /\
    dump_problem pb' = {| pd_name := "pr"; pd_objects := []; pd_facts := []; pd_fluents := []; pd_goal := []; pd_goal_num := [] |}.
Proof. eexists. eexists. split; [vm_compute; reflexivity|]. split; vm_compute; reflexivity. Qed.

(* ---------- D07: two initial fluents whose repeated arguments collapse to the same printed form ----------
   (g3 b a a) is stored under "(g3 b a)" and (g3 a a b) under "(g3 a b)"; both print as (g3 a a b): the export
   assigns (g3 a a b) twice and the re-parsed problem has ONE fluent where the parsed one had two *)
Definition d07_collision_problem : sexp := tok
  "(define (problem pr) (:domain dom) (:objects a b) (:init (= (g3 b a a) 1) (= (g3 a a b) 2)) (:goal (and)))".

Lemma C09_roundtrip_refuted_lemma : ~ C09_roundtrip_statement None.
Proof.
  intros H.
  destruct (read_problem ex_num9 d07_collision_problem) as [sp|] eqn:Er; [|vm_compute in Er; discriminate].
  destruct (parse_problem cfg_fixed ex_num9 ex_dom7 d07_collision_problem) as [pb|] eqn:Ep; [|vm_compute in Ep; discriminate].
  assert (Hrepr : repr_ok ex_num9 ex_repr9 sp).
  { vm_compute in Er. injection Er as <-. intros x Hx. vm_compute in Hx.
    repeat (destruct Hx as [<-|Hx]; [vm_compute; reflexivity|]). destruct Hx. }
  assert (Hname : sp_name sp <> "") by (vm_compute in Er; injection Er as <-; discriminate).
  destruct (H ex_num9 ex_repr9 ex_dom7 d07_collision_problem sp pb Hrepr ex_dom7_ok ex_num9_ok Er Hname Ep) as (pb' & Hp' & Heq).
  vm_compute in Ep. injection Ep as <-. vm_compute in Hp'. injection Hp' as <-. vm_compute in Heq. discriminate.
Qed.

(* ---------- D50 (pinned exporter): goal constants at 4 decimals ---------- *)
Definition d50_problem : sexp := tok
  "(define (problem pr) (:domain dom) (:objects o0 - t1) (:init) (:goal (and (>= (f0 o0) 2.123456))))".

Example C09_pinned_exporter_loses_precision :
  exists pb pb', parse_problem cfg_fixed ex_num9 ex_dom d50_problem = Ok pb /\
    parse_problem cfg_fixed ex_num9 ex_dom (export_problem ex_repr9 (Some 4) "dom" pb) = Ok pb' /\
    pdump_equiv (dump_problem pb') (dump_problem pb) = false /\
    (* ... while the repaired exporter keeps the constant *)
    exists pb2, parse_problem cfg_fixed ex_num9 ex_dom (export_problem ex_repr9 None "dom" pb) = Ok pb2 /\
                pdump_equiv (dump_problem pb2) (dump_problem pb) = true.
Proof.
  eexists. eexists. split; [vm_compute; reflexivity|]. split; [vm_compute; reflexivity|]. split; [vm_compute; reflexivity|].
  eexists. split; vm_compute; reflexivity.
Qed.
