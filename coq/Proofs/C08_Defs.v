(* C08: definitions used by the round-trip theorems.
     rr_*  : what reading the exported text back yields, as an explicit function of the object model:
             every numeric constant x becomes float(text of x with d decimals); the type and constant tables come
             back grouped by parent (the order in which write_types / write_constants print them); nothing else
             changes.
     wf_*  : decidable well-formedness of the object model (what the parser's own checks guarantee for a domain
             written in PDDL's section order, plus name hygiene: no type or constant is called '-', no predicate
             carries a keyword as its name, no universal condition has an empty body - finding D83). *)
From Coq Require Import List Ascii String Bool Arith PrimFloat.
From Verif Require Import Base.Result Base.Str Base.Sexp Base.PyDict Base.Float
  Model.Types Model.NumExpr Model.Domain Model.DomainExporter.
Import ListNotations.
Open Scope string_scope.
Open Scope list_scope.

(* names a declared predicate must not carry: the parsers test "is it a declared predicate" before or between the
   keyword tests, and ':private' opens a group inside (:predicates ...) *)
Definition reserved_names : list string :=
  ["and"; "or"; "not"; "="; "<="; ">="; ">"; "<"; "forall"; "when"; "assign"; "increase"; "decrease"; ":private"].

Definition is_tnum (t : mtree) : bool := match t with TNum _ => true | _ => false end.
Definition pre_op (p : mpre) : string := match p with MPre op _ _ _ => op end.
Definition is_connective (op : string) : bool := String.eqb op "and" || String.eqb op "or".

(* the regrouped table: the order in which the grouped declarations are read back *)
Definition ungroup (g : list (string * list string)) : pydict string :=
  flat_map (fun km => map (fun c => (c, fst km)) (snd km)) g.
Definition regroup (d : pydict string) : pydict string := ungroup (group_by_value d).

Section Defs.
  Variable num : numparser.

  (* ---------- numerals ---------- *)
  Definition rnd (d : nat) (x : float) : float :=
    match num (num_text d x) with Some y => y | None => x end.
  Definition num_ok (d : nat) (x : float) : bool :=
    negb (str_in (num_text d x) legal_numerical) &&
    match num (num_text d x) with Some _ => true | None => false end.

  (* ---------- re-reading ---------- *)
  Fixpoint rr_tree (d : nat) (t : mtree) : mtree :=
    match t with
    | TNum x => TNum (rnd d x)
    | TFn f a => TFn f a
    | TNode op l r => TNode op (rr_tree d l) (rr_tree d r)
    end.

  Fixpoint rr_pre (d : nat) (p : mpre) : mpre :=
    match p with
    | MPre op os eqs neqs => MPre op (map (rr_cond d) os) eqs neqs
    end
  with rr_cond (d : nat) (c : mcond) : mcond :=
    match c with
    | MLit pos p args => MLit pos p args
    | MNum t => MNum (rr_tree d t)
    | MNested q => MNested (rr_pre d q)
    | MUniv v ty q => MUniv v ty (rr_pre d q)
    end.

  Definition rr_condeff (dpre deff : nat) (ce : mcondeff) : mcondeff :=
    {| ce_ante := rr_pre dpre (ce_ante ce); ce_disc := ce_disc ce; ce_num := map (rr_tree deff) (ce_num ce) |}.
  Definition rr_univeff (dpre deff : nat) (ue : muniveff) : muniveff :=
    {| ue_var := ue_var ue; ue_ty := ue_ty ue; ue_ce := rr_condeff dpre deff (ue_ce ue) |}.
  Definition rr_action (dpre deff : nat) (a : maction) : maction :=
    {| ma_name := ma_name a; ma_sig := ma_sig a; ma_pre := rr_pre dpre (ma_pre a); ma_disc := ma_disc a;
       ma_num := map (rr_tree deff) (ma_num a); ma_cond := map (rr_condeff dpre deff) (ma_cond a);
       ma_univ := map (rr_univeff dpre deff) (ma_univ a) |}.
  Definition rr_domain (dpre deff : nat) (m : mdomain) : mdomain :=
    {| d_name := d_name m; d_reqs := d_reqs m; d_types := regroup (d_types m); d_consts := regroup (d_consts m);
       d_preds := d_preds m; d_funcs := d_funcs m;
       d_actions := map (fun na => (fst na, rr_action dpre deff (snd na))) (d_actions m) |}.

  (* ---------- well-formedness ---------- *)
  Section Scope.
    Variable tyk : string -> bool.             (* the type name is declared *)
    Variable ck : string -> bool.              (* the name is a constant *)
    Variable preds funcs : pydict signature.

    Fixpoint wf_tree (d : nat) (t : mtree) : bool :=
      match t with
      | TNum x => num_ok d x
      | TFn f args =>
          negb (str_in f numeric_ops) &&
          match dget funcs f with
          | Some sg => Nat.eqb (List.length args) (List.length sg) && negb (has_dup args)
          | None => false
          end
      | TNode op l r =>
          wf_tree d l && wf_tree d r && (if is_tnum l && is_tnum r then str_in op numeric_ops else true)
      end.

    Definition wf_numcond (d : nat) (t : mtree) : bool :=
      match t with
      | TNode op l r => wf_tree d t && (str_in op comparison_ops || (String.eqb op "=" && negb (is_tnum l)))
      | _ => false
      end.
    Definition wf_numeff (d : nat) (t : mtree) : bool :=
      match t with
      | TNode op l r => wf_tree d t && str_in op assignment_ops
      | _ => false
      end.

    Definition wf_args (sg : signature) (args : list string) : bool :=
      forallb (fun a => dmem sg a || ck a) args && negb (has_dup args).

    Fixpoint wf_pre (d : nat) (sg : signature) (p : mpre) : bool :=
      match p with
      | MPre op os eqs neqs => forallb (wf_cond d sg) os
      end
    with wf_cond (d : nat) (sg : signature) (c : mcond) : bool :=
      match c with
      | MLit true p args => negb (is_connective p) && dmem preds p && wf_args sg args
      | MLit false p args => negb (String.eqb p "=") && wf_args sg args
      | MNum t => wf_numcond d t
      | MNested q => is_connective (pre_op q) && wf_pre d sg q
      | MUniv v ty q =>
          negb (vacuous_body q) && is_connective (pre_op q) && tyk ty && wf_pre d (dset sg v ty) q
      end.

    (* an effect literal at the top level of ':effect' / inside the result of a 'when' *)
    Definition wf_efflit (sg : signature) (l : mlit) : bool :=
      (if l_pos l then dmem preds (l_name l) else true) && wf_args sg (l_args l).
    Definition wf_reslit (sg : signature) (l : mlit) : bool :=
      (if l_pos l then negb (str_in (l_name l) ("not" :: assignment_ops)) else true) && wf_args sg (l_args l).

    Definition wf_condeff (dpre deff : nat) (sg : signature) (ce : mcondeff) : bool :=
      String.eqb (pre_op (ce_ante ce)) "and" && wf_pre dpre sg (ce_ante ce) &&
      forallb (wf_reslit sg) (ce_disc ce) && forallb (wf_numeff deff) (ce_num ce).
    Definition wf_univeff (dpre deff : nat) (sg : signature) (ue : muniveff) : bool :=
      tyk (ue_ty ue) && wf_condeff dpre deff (dset sg (ue_var ue) (ue_ty ue)) (ue_ce ue).

    Definition wf_sig (sg : signature) : bool :=
      negb (has_dup (dkeys sg)) && forallb (fun pt => starts_with_q (fst pt) && tyk (snd pt)) sg.

    Definition wf_action (dpre deff : nat) (a : maction) : bool :=
      String.eqb (lower_string (ma_name a)) (ma_name a) && wf_sig (ma_sig a) &&
      String.eqb (pre_op (ma_pre a)) "and" && wf_pre dpre (ma_sig a) (ma_pre a) &&
      forallb (wf_efflit (ma_sig a)) (ma_disc a) && forallb (wf_numeff deff) (ma_num a) &&
      forallb (wf_condeff dpre deff (ma_sig a)) (ma_cond a) && forallb (wf_univeff dpre deff (ma_sig a)) (ma_univ a).
  End Scope.

  Definition not_dash (s : string) : bool := negb (String.eqb s "-").

  Definition wf_types (tt : typetable) : bool :=
    negb (has_dup (dkeys tt)) &&
    forallb (fun kp => negb (String.eqb (fst kp) "object") && not_dash (fst kp) && type_known tt (snd kp)) tt &&
    forallb (fun kp => reaches_object tt (fst kp)) tt.

  Definition wf_consts (tt : typetable) (cs : pydict string) : bool :=
    negb (has_dup (dkeys cs)) && forallb (fun ct => not_dash (fst ct) && type_known tt (snd ct)) cs.

  Definition wf_preds (tt : typetable) (ps : pydict signature) : bool :=
    negb (has_dup (dkeys ps)) &&
    forallb (fun ns => negb (str_in (fst ns) reserved_names) && wf_sig (type_known tt) (snd ns)) ps.

  Definition wf_funcs (tt : typetable) (fs : pydict signature) : bool :=
    negb (has_dup (dkeys fs)) && forallb (fun ns => wf_sig (type_known tt) (snd ns)) fs.

  (* [tyk] / [ck]: the "declared type" / "constant" tests the actions are checked against *)
  Definition wf_mdomain_gen (tyk ck : string -> bool) (dpre deff : nat) (m : mdomain) : bool :=
    wf_types (d_types m) && wf_consts (d_types m) (d_consts m) && wf_preds (d_types m) (d_preds m) &&
    wf_funcs (d_types m) (d_funcs m) &&
    negb (has_dup (dkeys (d_actions m))) &&
    forallb (fun na => String.eqb (fst na) (ma_name (snd na)) &&
                       wf_action tyk ck (d_preds m) (d_funcs m) dpre deff (snd na))
            (d_actions m).

  Definition wf_mdomain (dpre deff : nat) (m : mdomain) : bool :=
    wf_mdomain_gen (type_known (d_types m)) (dmem (d_consts m)) dpre deff m.

  (* ---------- constants representable at the printed precision ---------- *)
  Fixpoint tree_nums (t : mtree) : list float :=
    match t with TNum x => [x] | TFn _ _ => [] | TNode _ l r => tree_nums l ++ tree_nums r end.
  Fixpoint pre_nums (p : mpre) : list float :=
    match p with MPre _ os _ _ => flat_map cond_nums os end
  with cond_nums (c : mcond) : list float :=
    match c with
    | MLit _ _ _ => []
    | MNum t => tree_nums t
    | MNested q => pre_nums q
    | MUniv _ _ q => pre_nums q
    end.
  (* (digits it is printed with, constant) *)
  Definition condeff_nums (dpre deff : nat) (ce : mcondeff) : list (nat * float) :=
    map (pair dpre) (pre_nums (ce_ante ce)) ++ map (pair deff) (flat_map tree_nums (ce_num ce)).
  Definition action_nums (dpre deff : nat) (a : maction) : list (nat * float) :=
    map (pair dpre) (pre_nums (ma_pre a)) ++ map (pair deff) (flat_map tree_nums (ma_num a)) ++
    flat_map (condeff_nums dpre deff) (ma_cond a) ++
    flat_map (fun ue => condeff_nums dpre deff (ue_ce ue)) (ma_univ a).
  Definition domain_nums (dpre deff : nat) (m : mdomain) : list (nat * float) :=
    flat_map (fun na => action_nums dpre deff (snd na)) (d_actions m).

  (* x printed with d decimals reads back as x itself *)
  Definition representable (dx : nat * float) : Prop := num (num_text (fst dx) (snd dx)) = Some (snd dx).
  (* the value read back is itself representable: printing it again and reading gives the same value *)
  Definition stable (dx : nat * float) : Prop :=
    forall y, num (num_text (fst dx) (snd dx)) = Some y ->
              num_ok (fst dx) y = true /\ num (num_text (fst dx) y) = Some y.
End Defs.
