(* C13 - what the printer prints reads back (tokenizer model + the restricted grammar of Spec/Poly.v) as the expression
   the glue theorem speaks about: numbers are read exactly, functions become their canonical text, operators stay. *)
From Coq Require Import List String Ascii Bool ZArith QArith Qabs Qround Lia DecimalString DecimalPos DecimalFacts DecimalZ.
From Verif Require Import Base.Result Base.Str Base.Sexp Model.Tokenizer Spec.Layout Spec.Poly Model.SymbolicGlue
  Proofs.C11_Tokenizer Proofs.C11_Reader Proofs.C13_Poly Proofs.C13_Glue.
Import ListNotations.
Open Scope string_scope.
Open Scope list_scope.

(* ------------------------------------------------------------------ decimal digits *)
Open Scope Z_scope.

(* Horner value of a big-endian digit list *)
Fixpoint dval (u : Decimal.uint) (acc : Z) : Z :=
  match u with
  | Decimal.Nil => acc
  | Decimal.D0 l => dval l (10 * acc)
  | Decimal.D1 l => dval l (10 * acc + 1)
  | Decimal.D2 l => dval l (10 * acc + 2)
  | Decimal.D3 l => dval l (10 * acc + 3)
  | Decimal.D4 l => dval l (10 * acc + 4)
  | Decimal.D5 l => dval l (10 * acc + 5)
  | Decimal.D6 l => dval l (10 * acc + 6)
  | Decimal.D7 l => dval l (10 * acc + 7)
  | Decimal.D8 l => dval l (10 * acc + 8)
  | Decimal.D9 l => dval l (10 * acc + 9)
  end.

Lemma dval_pos_acc u : forall acc : positive, dval u (Z.pos acc) = Z.pos (Pos.of_uint_acc u acc).
Proof.
  induction u as [|l IH|l IH|l IH|l IH|l IH|l IH|l IH|l IH|l IH|l IH]; intros acc; cbn [dval Pos.of_uint_acc];
    [reflexivity|..]; rewrite <- IH; f_equal; lia.
Qed.

Lemma dval_of_uint u : dval u 0 = Z.of_N (Pos.of_uint u).
Proof.
  induction u as [|l IH|l IH|l IH|l IH|l IH|l IH|l IH|l IH|l IH|l IH]; cbn [dval Pos.of_uint];
    [reflexivity|exact IH|..]; cbn [Z.mul Z.add]; rewrite dval_pos_acc; reflexivity.
Qed.

(* the digits of a non-negative integer *)
Definition uz (z : Z) : Decimal.uint :=
  match z with Z.pos p => Pos.to_uint p | _ => Decimal.zero end.

Lemma dval_uz z : 0 <= z -> dval (uz z) 0 = z.
Proof.
  destruct z as [|p|p]; intros H; [reflexivity| |lia].
  cbn [uz]. rewrite dval_of_uint, DecimalPos.Unsigned.of_to. reflexivity.
Qed.

Lemma nat_digits_uz z : 0 <= z -> nat_digits z = NilEmpty.string_of_uint (uz z).
Proof.
  destruct z as [|p|p]; intros H; [reflexivity| |lia].
  unfold nat_digits. cbn [Z.to_int NilZero.string_of_int uz]. unfold NilZero.string_of_uint.
  pose proof (DecimalPos.Unsigned.to_uint_nonnil p) as N. destruct (Pos.to_uint p); [congruence|reflexivity..].
Qed.

Lemma uz_nonnil z : uz z <> Decimal.Nil.
Proof.
  destruct z as [|p|p]; cbn [uz]; try discriminate. apply DecimalPos.Unsigned.to_uint_nonnil.
Qed.

(* monotone in the accumulator: the digits only add *)
Lemma dval_lower u : forall acc, 0 <= acc -> acc * 10 ^ Z.of_nat (Decimal.nb_digits u) <= dval u acc.
Proof.
  induction u as [|l IH|l IH|l IH|l IH|l IH|l IH|l IH|l IH|l IH|l IH]; intros acc H; cbn [dval Decimal.nb_digits];
    [simpl; lia|..];
    rewrite Nat2Z.inj_succ, Z.pow_succ_r by lia;
    (eapply Z.le_trans; [|apply IH; lia]);
    pose proof (Z.pow_pos_nonneg 10 (Z.of_nat (Decimal.nb_digits l)) ltac:(lia) ltac:(lia)); nia.
Qed.

(* no leading zero in the digits of a positive number *)
Lemma to_uint_head p l : Pos.to_uint p <> Decimal.D0 l.
Proof.
  intros E.
  pose proof (DecimalPos.Unsigned.to_of (Pos.to_uint p)) as T. rewrite DecimalPos.Unsigned.of_to in T.
  cbn [N.to_uint] in T. rewrite E in T.
  unfold Decimal.unorm in T. destruct (Decimal.nzhead (Decimal.D0 l)) eqn:Hn.
  - injection T as T. subst l. apply (DecimalPos.Unsigned.to_uint_nonzero p). exact E.
  - rewrite <- T in Hn. exact (DecimalFacts.nzhead_nonzero _ _ Hn).
  - discriminate. - discriminate. - discriminate. - discriminate. - discriminate.
  - discriminate. - discriminate. - discriminate. - discriminate.
Qed.

Lemma nb_digits_bound z d : 0 <= z < 10 ^ Z.of_nat d -> (1 <= d)%nat -> (Decimal.nb_digits (uz z) <= d)%nat.
Proof.
  intros [H0 H1] Hd. destruct z as [|p|p]; [simpl; lia| |lia].
  cbn [uz]. pose proof (dval_uz (Z.pos p) ltac:(lia)) as V. cbn [uz] in V.
  pose proof (to_uint_head p) as Hh.
  destruct (Pos.to_uint p) as [|l|l|l|l|l|l|l|l|l|l] eqn:E; [simpl; lia|exfalso; exact (Hh l eq_refl)|..];
    cbn [dval] in V; cbn [Decimal.nb_digits];
    match type of V with dval l ?k = _ =>
      pose proof (dval_lower l k ltac:(lia)) as L end;
    rewrite V in L;
    assert (P : 10 ^ Z.of_nat (Decimal.nb_digits l) < 10 ^ Z.of_nat d) by
      (pose proof (Z.pow_pos_nonneg 10 (Z.of_nat (Decimal.nb_digits l)) ltac:(lia) ltac:(lia)); nia);
    apply Z.pow_lt_mono_r_iff in P; lia.
Qed.
Close Scope Z_scope.

(* ------------------------------------------------------------------ reading digits back *)
Lemma s2t_app' a b : s2t (a ++ b)%string = s2t a ++ s2t b.
Proof. induction a as [|c a IH]; simpl; [reflexivity|]. f_equal. exact IH. Qed.

Lemma s2t_length s : List.length (s2t s) = String.length s.
Proof. induction s as [|c s IH]; simpl; [reflexivity|]. f_equal. exact IH. Qed.

Ltac digit_step :=
  match goal with
  | |- context [digit_val ?c] => let v := eval vm_compute in (digit_val c) in change (digit_val c) with v
  end.

Lemma read_digits_uint u : forall rest acc n,
  read_digits (s2t (NilEmpty.string_of_uint u) ++ rest) acc n
  = read_digits rest (dval u acc) (n + Decimal.nb_digits u).
Proof.
  induction u as [|l IH|l IH|l IH|l IH|l IH|l IH|l IH|l IH|l IH|l IH]; intros rest acc n;
    cbn [NilEmpty.string_of_uint s2t list_ascii_of_string app dval Decimal.nb_digits];
    [rewrite Nat.add_0_r; reflexivity|..];
    cbn [read_digits]; digit_step; cbv iota; rewrite IH; f_equal; try lia.
  f_equal. lia.
Qed.

Definition stops (rest : text) : Prop :=
  match rest with [] => True | c :: _ => digit_val c = None end.

Lemma read_digits_stop rest acc n : stops rest -> read_digits rest acc n = Some (acc, n, rest).
Proof. destruct rest as [|c r]; simpl; intros H; [reflexivity|]. rewrite H. reflexivity. Qed.

Lemma read_digits_zeros k : forall rest n,
  read_digits (s2t (zeros k) ++ rest) 0%Z n = read_digits rest 0%Z (n + k).
Proof.
  induction k as [|k IH]; intros rest n; cbn [zeros s2t list_ascii_of_string app].
  - rewrite Nat.add_0_r. reflexivity.
  - cbn [read_digits]. digit_step. cbv iota. change (10 * 0 + 0)%Z with 0%Z. rewrite IH. f_equal. lia.
Qed.

Lemma nb_digits_string u : String.length (NilEmpty.string_of_uint u) = Decimal.nb_digits u.
Proof. induction u; simpl; auto. Qed.

(* the first character of a digit string is a digit, in particular not a minus sign *)
Lemma uint_head u : u <> Decimal.Nil ->
  exists c r, s2t (NilEmpty.string_of_uint u) = c :: r /\ c <> "-"%char /\ digit_val c <> None.
Proof.
  destruct u; intros H; [congruence|..]; simpl; eexists; eexists; (split; [reflexivity|]); split; discriminate.
Qed.

(* ------------------------------------------------------------------ a printed number is read back exactly *)
Definition pnum_ok (x : pnum) : Prop := (0 <= pn_n x)%Z.

Lemma strip_sign (neg : bool) u rest : u <> Decimal.Nil ->
  let t := (if neg then ["-"%char] else []) ++ s2t (NilEmpty.string_of_uint u) ++ rest in
  match t with "-"%char :: r => (true, r) | _ => (false, t) end = (neg, s2t (NilEmpty.string_of_uint u) ++ rest).
Proof.
  intros Hu. destruct neg; [reflexivity|]. cbn [app].
  destruct (uint_head u Hu) as (c & r & E & Hc & _). rewrite E. cbn [app].
  destruct c as [[] [] [] [] [] [] [] []]; try reflexivity. congruence.
Qed.

Lemma pow10_nat d : pow10 d = (10 ^ Z.of_nat d)%Z.
Proof. reflexivity. Qed.

Lemma pos_pow10 k : Z.pos (Pos.pow 10 (Pos.of_nat (S k))) = pow10 (S k).
Proof.
  unfold pow10. rewrite Pos2Z.inj_pow. f_equal. rewrite <- positive_nat_Z, Nat2Pos.id; [reflexivity|discriminate].
Qed.

Theorem read_show_pnum x : pnum_ok x -> exists q, read_number (show_pnum x) = Some q /\ q == pnum_value x.
Proof.
  destruct x as [neg n d]. unfold pnum_ok. cbn [pn_n]. intros Hn.
  pose proof (pow10_pos d) as Pp.
  unfold show_pnum, pnum_value. cbn [pn_neg pn_n pn_d]. cbv zeta.
  set (p := pow10 d) in *. set (ip := (n / p)%Z). set (fp := (n mod p)%Z).
  assert (Hip : (0 <= ip)%Z) by (apply Z.div_pos; lia).
  assert (Hfp : (0 <= fp < p)%Z) by (apply Z.mod_pos_bound; lia).
  assert (Hdm : (n = ip * p + fp)%Z) by (unfold ip, fp; rewrite Z.mul_comm; apply Z.div_mod; lia).
  rewrite (nat_digits_uz ip Hip), (nat_digits_uz fp (proj1 Hfp)).
  set (ui := uz ip). set (uf := uz fp).
  assert (Hui : ui <> Decimal.Nil) by apply uz_nonnil.
  set (tail := match d with O => ""%string | S _ => ("." ++ zeros (d - String.length (NilEmpty.string_of_uint uf)) ++ NilEmpty.string_of_uint uf)%string end).
  assert (Et : s2t ((if neg then "-" else "") ++ NilEmpty.string_of_uint ui ++ tail)
               = (if neg then ["-"%char] else []) ++ s2t (NilEmpty.string_of_uint ui) ++ s2t tail).
  { rewrite !s2t_app'. destruct neg; reflexivity. }
  unfold read_number. cbv zeta. rewrite Et.
  pose proof (strip_sign neg ui (s2t tail) Hui) as St. cbv zeta in St.
  match goal with
  | |- context [match ?M with pair a b => _ end] =>
      assert (EM : M = (neg, s2t (NilEmpty.string_of_uint ui) ++ s2t tail)) by exact St; rewrite EM; clear EM
  end. clear St Et.
  rewrite read_digits_uint. fold ui. unfold ui at 1. rewrite (dval_uz ip Hip). cbn [Nat.add].
  assert (Hnb : exists m, Decimal.nb_digits ui = S m).
  { destruct (Decimal.nb_digits ui) eqn:E; [|eauto]. apply DecimalFacts.nb_digits_0 in E. contradiction. }
  destruct Hnb as (m & Hm). rewrite Hm.
  destruct d as [|k].
  - (* no decimals *)
    unfold tail. cbn [s2t list_ascii_of_string read_digits].
    assert (Ei : ip = n). { unfold ip, p, pow10. simpl. apply Z.div_1_r. }
    rewrite Ei. destruct neg; eexists; (split; [reflexivity|]).
    + rewrite Qred_correct. unfold p, pow10. simpl. unfold Qeq, Qopp, inject_Z. simpl. lia.
    + rewrite Qred_correct. unfold p, pow10. simpl. unfold Qeq, inject_Z. simpl. lia.
  - (* d = S k decimals *)
    unfold tail. rewrite !s2t_app'. change (s2t ".") with ["."%char]. cbn [app].
    rewrite read_digits_stop by reflexivity.
    rewrite read_digits_zeros. rewrite <- (List.app_nil_r (s2t (NilEmpty.string_of_uint uf))).
    rewrite read_digits_uint. replace (dval uf 0%Z) with fp by (symmetry; apply (dval_uz fp (proj1 Hfp))).
    cbn [read_digits].
    pose proof (nb_digits_bound fp (S k) Hfp ltac:(lia)) as Hb. fold uf in Hb.
    rewrite nb_digits_string.
    replace (0 + (S k - Decimal.nb_digits uf) + Decimal.nb_digits uf)%nat with (S k) by lia.
    set (den := Pos.pow 10 (Pos.of_nat (S k))).
    assert (Eden : Z.pos den = p) by apply pos_pow10.
    assert (Etp : Z.to_pos p = den) by (rewrite <- Eden; reflexivity).
    rewrite Etp.
    assert (Ev : Qred (Qmake (ip * Z.pos den + fp) den) == Qred (Qmake n den)).
    { rewrite !Qred_correct. rewrite Eden, <- Hdm. reflexivity. }
    destruct neg; eexists; (split; [reflexivity|]).
    + rewrite Ev. reflexivity.
    + exact Ev.
Qed.

(* ------------------------------------------------------------------ tokenizing what was printed *)
(* what may follow an atom so that it ends there *)
Definition delim (rest : text) : Prop :=
  match rest with [] => True | c :: _ => is_paren c = true \/ is_ws c = true end.

Lemma flush_app cur k : flush cur k = flush cur [] ++ k.
Proof. destruct cur; reflexivity. Qed.

Lemma tk_ws m c r cur : is_ws c = true -> tk m (c :: r) cur = flush cur (tk m r []).
Proof. intros H. cbn [tk]. rewrite (ws_not_semi c H), (ws_not_paren c H), H. reflexivity. Qed.

Lemma tk_atom_delim m a rest :
  Forall (fun c => atom_char c = true) a -> a <> [] -> lower_text a = a -> delim rest ->
  tk m (a ++ rest) [] = t2s a :: tk m rest [].
Proof.
  intros Ha Hne Hl Hd. rewrite (tk_atom m a Ha rest []). rewrite Hl, List.app_nil_r.
  assert (F : forall k, flush (rev a) k = t2s a :: k).
  { intros k. unfold flush. destruct (rev a) eqn:E.
    - apply (f_equal (@rev ascii)) in E. rewrite rev_involutive in E. simpl in E. congruence.
    - rewrite <- E, rev_involutive. reflexivity. }
  destruct rest as [|c r]; [cbn [tk]; apply F|].
  destruct Hd as [Hp|Hw].
  - rewrite (tk_paren m c r (rev a) Hp), (tk_paren m c r [] Hp). apply F.
  - rewrite (tk_ws m c r (rev a) Hw), (tk_ws m c r [] Hw). apply F.
Qed.

(* the characters of a printed number *)
Definition numch (c : ascii) : bool :=
  (match digit_val c with Some _ => true | None => false end) || Ascii.eqb c "-" || Ascii.eqb c ".".

Lemma numch_atom c : numch c = true -> atom_char c = true /\ lower_ascii c = c.
Proof.
  intros H.
  by_ascii (fun c => implb (numch c) (atom_char c && Ascii.eqb (lower_ascii c) c)) c F.
  rewrite H in F. simpl in F. apply andb_true_iff in F. destruct F as [F1 F2]. apply Ascii.eqb_eq in F2. auto.
Qed.

Lemma uint_chars u : Forall (fun c => numch c = true) (s2t (NilEmpty.string_of_uint u)).
Proof. induction u; simpl; constructor; auto. Qed.

Lemma zeros_chars k : Forall (fun c => numch c = true) (s2t (zeros k)).
Proof. induction k; simpl; constructor; auto. Qed.

Lemma show_pnum_chars x : pnum_ok x ->
  Forall (fun c => numch c = true) (s2t (show_pnum x)) /\ s2t (show_pnum x) <> [].
Proof.
  destruct x as [neg n d]. unfold pnum_ok. cbn [pn_n]. intros Hn. pose proof (pow10_pos d) as Pp.
  unfold show_pnum. cbn [pn_neg pn_n pn_d]. cbv zeta.
  assert (Hip : (0 <= n / pow10 d)%Z) by (apply Z.div_pos; lia).
  assert (Hfp : (0 <= n mod pow10 d)%Z) by (apply Z.mod_pos_bound; lia).
  rewrite (nat_digits_uz _ Hip), (nat_digits_uz _ Hfp). rewrite !s2t_app'. split.
  - apply Forall_app. split; [destruct neg; simpl; repeat constructor|].
    apply Forall_app. split; [apply uint_chars|].
    destruct d; [constructor|]. rewrite !s2t_app'. apply Forall_app. split; [simpl; repeat constructor|].
    apply Forall_app. split; [apply zeros_chars|apply uint_chars].
  - destruct (uint_head (uz (n / pow10 d)) (uz_nonnil _)) as (c & r & E & _). rewrite E.
    destruct neg; simpl; discriminate.
Qed.

Lemma numch_text a : Forall (fun c => numch c = true) a ->
  Forall (fun c => atom_char c = true) a /\ lower_text a = a.
Proof.
  induction 1 as [|c a Hc _ [IH1 IH2]]; [split; [constructor|reflexivity]|].
  destruct (numch_atom c Hc) as [A L]. split; [constructor; assumption|]. simpl. rewrite L, IH2. reflexivity.
Qed.

Lemma inner_char_cases c : inner_char c = true -> atom_char c = true \/ is_ws c = true.
Proof.
  intros H. by_ascii (fun c => implb (inner_char c) (atom_char c || is_ws c)) c F. rewrite H in F. simpl in F.
  apply orb_true_iff in F. exact F.
Qed.

Lemma atom_inner c : atom_char c = true -> inner_char c = true.
Proof. intros H. by_ascii (fun c => implb (atom_char c) (inner_char c)) c F. rewrite H in F. exact F. Qed.

Lemma ws_inner c : is_ws c = true -> inner_char c = true.
Proof. intros H. by_ascii (fun c => implb (is_ws c) (inner_char c)) c F. rewrite H in F. exact F. Qed.

Lemma tk_inner m inner : Forall (fun c => inner_char c = true) inner ->
  forall p rest cur, is_paren p = true ->
  tk m (inner ++ p :: rest) cur = tk m inner cur ++ String p EmptyString :: tk m rest [].
Proof.
  induction 1 as [|c inner Hc _ IH]; intros p rest cur Hp.
  - cbn [app]. rewrite (tk_paren m p rest cur Hp). cbn [tk]. apply flush_app.
  - cbn [app]. destruct (inner_char_cases c Hc) as [A|Hw].
    + destruct (atom_char_facts c A) as (H1 & H2 & H3). cbn [tk]. rewrite H1, H2, H3. apply IH. exact Hp.
    + clear Hc. rename Hw into Hc. rewrite (tk_ws m c _ cur Hc), (tk_ws m c inner cur Hc), (IH p rest [] Hp).
      rewrite (flush_app cur (tk m inner [] ++ _)), (flush_app cur (tk m inner [])), app_assoc. reflexivity.
Qed.

(* the tokens of such a text are atoms, never parentheses *)
Lemma tk_inner_tokens m inner : Forall (fun c => inner_char c = true) inner ->
  forall cur, Forall (fun c => atom_char c = true) cur ->
  Forall (fun s => is_paren_tok s = false) (tk m inner cur).
Proof.
  assert (Fl : forall cur k, Forall (fun c => atom_char c = true) cur ->
                 Forall (fun s => is_paren_tok s = false) k -> Forall (fun s => is_paren_tok s = false) (flush cur k)).
  { intros cur k Hcur Hk. unfold flush. destruct cur as [|c cur'] eqn:E; [exact Hk|]. constructor; [|exact Hk].
    rewrite <- E. apply atom_text_not_paren. split.
    - subst cur. intros X. apply (f_equal (@List.length ascii)) in X. rewrite rev_length in X. discriminate.
    - apply Forall_rev. subst cur. exact Hcur. }
  induction 1 as [|c inner Hc _ IH]; intros cur Hcur.
  - cbn [tk]. apply Fl; [exact Hcur|constructor].
  - destruct (inner_char_cases c Hc) as [A|Hw].
    + destruct (atom_char_facts c A) as (H1 & H2 & H3). cbn [tk]. rewrite H1, H2, H3. apply IH.
      constructor; [|exact Hcur].
      by_ascii (fun c => implb (atom_char c) (atom_char (lower_ascii c))) c F. rewrite A in F. exact F.
    + rewrite (tk_ws m c inner cur Hw). apply Fl; [exact Hcur|]. apply IH. constructor.
Qed.

(* ------------------------------------------------------------------ the token tree of a printed expression *)
(* a function application as the library finds it in its input: "(" name blanks/arguments ")" - fl_ok_b, inner_of, fl_tokens
   are defined in Model/SymbolicGlue.v so that the correspondence can check the shape on every symbol table of a run *)
Definition fl_ok (t : string) : Prop := fl_ok_b t = true.

Lemma fl_ok_shape t : fl_ok t ->
  s2t t = LP :: inner_of t ++ [RP] /\ Forall (fun c => inner_char c = true) (inner_of t) /\
  exists h names, fl_tokens t = h :: names /\ name_start h = true.
Proof.
  unfold fl_ok, fl_ok_b, inner_of. intros H. apply andb_true_iff in H. destruct H as [H H3].
  apply andb_true_iff in H. destruct H as [H1 H2]. split; [|split].
  - destruct (s2t t) as [|c r]; [discriminate|]. apply andb_true_iff in H1. destruct H1 as [Hc Hr].
    apply Ascii.eqb_eq in Hc. subst c. cbn [tl]. f_equal.
    destruct (rev r) as [|e r'] eqn:E; [discriminate|]. apply Ascii.eqb_eq in Hr. subst e.
    assert (Er : r = rev r' ++ [RP]).
    { apply (f_equal (@rev ascii)) in E. rewrite rev_involutive in E. exact E. }
    rewrite Er at 1. rewrite Er, removelast_last. reflexivity.
  - apply Forall_forall. rewrite forallb_forall in H2. exact H2.
  - unfold fl_tokens, inner_of in *. destruct (tokenize MStr (removelast (tl (s2t t)))) as [|h names]; [discriminate|].
    eauto.
Qed.

(* the canonical text of a function application: its tokens joined by single blanks (what Spec.Poly reads) *)
Definition canon (t : string) : string := join " " ("(" :: fl_tokens t ++ [")"]).

Fixpoint sx (p : pexpr) : sexp :=
  match p with
  | PNum x => Atom (show_pnum x)
  | PFl t => SList (map Atom (fl_tokens t))
  | PBin op a b => SList [Atom op; sx a; sx b]
  end.

Fixpoint pok (p : pexpr) : Prop :=
  match p with
  | PNum x => pnum_ok x
  | PFl t => fl_ok t
  | PBin op a b => (exists o, binop_of op = Some o) /\ pok a /\ pok b
  end.

Lemma binop_text op o : binop_of op = Some o ->
  Forall (fun c => atom_char c = true) (s2t op) /\ s2t op <> [] /\ lower_text (s2t op) = s2t op /\
  is_paren_tok op = false.
Proof.
  unfold binop_of. intros H.
  destruct (String.eqb_spec op "+"); [subst; vm_compute; repeat split; try discriminate; repeat constructor|].
  destruct (String.eqb_spec op "-"); [subst; vm_compute; repeat split; try discriminate; repeat constructor|].
  destruct (String.eqb_spec op "*"); [subst; vm_compute; repeat split; try discriminate; repeat constructor|].
  destruct (String.eqb_spec op "/"); [subst; vm_compute; repeat split; try discriminate; repeat constructor|].
  discriminate.
Qed.

Lemma flat_map_atoms l : flat_map flatten (map Atom l) = l.
Proof. induction l as [|a l IH]; simpl; [reflexivity|]. rewrite IH. reflexivity. Qed.

Theorem tk_show p : pok p -> forall rest, delim rest ->
  tk MStr (s2t (show_pexpr p) ++ rest) [] = flatten (sx p) ++ tk MStr rest [].
Proof.
  induction p as [x|t|op a IHa b IHb]; intros Hp rest Hd; cbn [show_pexpr sx flatten].
  - cbn [pok] in Hp. destruct (show_pnum_chars x Hp) as [Hc Hne]. destruct (numch_text _ Hc) as [Ha Hl].
    rewrite (tk_atom_delim MStr _ rest Ha Hne Hl Hd), t2s_s2t. reflexivity.
  - cbn [pok] in Hp. destruct (fl_ok_shape t Hp) as (Es & Hin & _). rewrite Es. cbn [app].
    rewrite (tk_paren MStr LP _ [] eq_refl). cbn [flush]. rewrite <- app_assoc. cbn [app].
    rewrite (tk_inner MStr _ Hin RP rest [] eq_refl). rewrite flat_map_atoms. unfold fl_tokens, tokenize.
    cbn [app]. rewrite <- app_assoc. reflexivity.
  - cbn [pok] in Hp. destruct Hp as ((o & Ho) & Pa & Pb).
    destruct (binop_text op o Ho) as (Oa & One & Ol & _).
    rewrite !s2t_app'. change (s2t "(") with [LP]. change (s2t " ") with [SP]. change (s2t ")") with [RP].
    repeat rewrite <- app_assoc. cbn [app].
    rewrite (tk_paren MStr LP _ [] eq_refl). cbn [flush].
    rewrite (tk_atom_delim MStr (s2t op) _ Oa One Ol) by (right; reflexivity). rewrite t2s_s2t.
    rewrite (tk_ws MStr SP _ [] eq_refl). cbn [flush].
    rewrite (IHa Pa) by (right; reflexivity).
    rewrite (tk_ws MStr SP _ [] eq_refl). cbn [flush].
    rewrite (IHb Pb) by (left; reflexivity).
    rewrite (tk_paren MStr RP rest [] eq_refl). cbn [flush flat_map app].
    rewrite List.app_nil_r. repeat rewrite <- app_assoc. reflexivity.
Qed.

(* ------------------------------------------------------------------ the reader returns that tree *)
Lemma numch_not_paren x : pnum_ok x -> is_paren_tok (show_pnum x) = false.
Proof.
  intros H. destruct (show_pnum_chars x H) as [Hc Hne]. destruct (numch_text _ Hc) as [Ha _].
  rewrite <- (t2s_s2t (show_pnum x)). apply atom_text_not_paren. split; assumption.
Qed.

Lemma sx_wf p : pok p -> wf (sx p) = true.
Proof.
  induction p as [x|t|op a IHa b IHb]; intros Hp; cbn [sx wf forallb].
  - apply negb_true_iff. apply numch_not_paren. exact Hp.
  - destruct (fl_ok_shape t Hp) as (_ & Hin & _).
    pose proof (tk_inner_tokens MStr _ Hin [] (Forall_nil _)) as T. fold (tokenize MStr (inner_of t)) in T. fold (fl_tokens t) in T.
    induction T as [|s l Hs _ IH]; simpl; [reflexivity|]. rewrite Hs, IH. reflexivity.
  - destruct Hp as ((o & Ho) & Pa & Pb). destruct (binop_text op o Ho) as (_ & _ & _ & Np).
    rewrite Np, (IHa Pa), (IHb Pb). reflexivity.
Qed.

Theorem parse_show p : pok p -> parse MStr (s2t (show_pexpr p)) = Ok (sx p).
Proof.
  intros Hp. unfold parse. apply parse_tokens_iff. exists []. split; [|apply sx_wf; exact Hp].
  unfold tokenize. rewrite <- (List.app_nil_r (s2t (show_pexpr p))). rewrite (tk_show p Hp [] I). reflexivity.
Qed.

(* ------------------------------------------------------------------ and the restricted grammar reads the expression *)
(* same tree, equal constants *)
Inductive eqe : expr -> expr -> Prop :=
| EQ_num p q : p == q -> eqe (ENum p) (ENum q)
| EQ_var v : eqe (EVar v) (EVar v)
| EQ_bin o a b a' b' : eqe a a' -> eqe b b' -> eqe (EBin o a b) (EBin o a' b').

Fixpoint ren (f : string -> string) (e : expr) : expr :=
  match e with
  | ENum q => ENum q
  | EVar v => EVar (f v)
  | EBin o a b => EBin o (ren f a) (ren f b)
  end.

Lemma name_start_not_op h : name_start h = true -> binop_of h = None /\ cmp_of h = None.
Proof.
  intros H. unfold binop_of, cmp_of.
  repeat match goal with
         | |- context [String.eqb h ?s] => destruct (String.eqb_spec h s); [subst h; discriminate H|]
         end.
  split; reflexivity.
Qed.

Lemma all_some_atoms l : all_some (map atom_text (map Atom l)) = Some l.
Proof. induction l as [|a l IH]; simpl; [reflexivity|]. rewrite IH. reflexivity. Qed.

Theorem read_sx p e : pok p -> pe_expr p = Some e ->
  exists e', expr_of_sexp (sx p) = Some e' /\ eqe e' (ren canon e).
Proof.
  revert e. induction p as [x|t|op a IHa b IHb]; intros e Hp He; cbn [pe_expr] in He.
  - injection He as <-. destruct (read_show_pnum x Hp) as (q & Hq & Eq).
    exists (ENum q). split; [|constructor; exact Eq].
    unfold expr_of_sexp. cbn [sx expr_of_sexp_with]. rewrite Hq. reflexivity.
  - injection He as <-. destruct (fl_ok_shape t Hp) as (_ & _ & h & names & Et & Hn).
    destruct (name_start_not_op h Hn) as [Hb Hc].
    exists (EVar (canon t)). split; [|constructor].
    unfold expr_of_sexp. cbn [sx]. rewrite Et. cbn [map expr_of_sexp_with]. rewrite Hb, Hn, Hc. cbn [negb andb].
    rewrite all_some_atoms. unfold canon. rewrite Et. reflexivity.
  - destruct Hp as ((o & Ho) & Pa & Pb). rewrite Ho in He.
    destruct (pe_expr a) as [ea|] eqn:Ea; [|discriminate]. destruct (pe_expr b) as [eb|] eqn:Eb; [|discriminate].
    injection He as <-.
    destruct (IHa ea Pa eq_refl) as (ea' & Ra & Qa). destruct (IHb eb Pb eq_refl) as (eb' & Rb & Qb).
    exists (EBin o ea' eb'). split; [|constructor; assumption].
    unfold expr_of_sexp in *. cbn [sx expr_of_sexp_with]. rewrite Ho, Ra, Rb. reflexivity.
Qed.

(* ------------------------------------------------------------------ everything the printer builds is of that form *)
Definition pok_opt (r : option pexpr) : Prop := match r with Some p => pok p | None => True end.

Lemma rhe_nonneg x : (0 <= x)%Q -> (0 <= rhe x)%Z.
Proof.
  intros H. unfold rhe. assert (F : (0 <= Qfloor x)%Z).
  { change 0%Z with (Qfloor 0). apply Qfloor_resp_le. exact H. }
  destruct (Qcompare _ _); [destruct (Z.even _)|..]; lia.
Qed.

Lemma number_atom_ok d v tv : pnum_ok (number_atom d v tv).
Proof.
  unfold number_atom, pnum_ok. destruct (Z.eqb _ 0).
  - unfold pint. cbn [pn_n]. lia.
  - unfold fmt_decimal. cbn [pn_n]. apply rhe_nonneg.
    apply Qmult_le_0_compat; [apply Qabs_nonneg|]. pose proof (pow10_pos d). unfold Qle, inject_Z. simpl. lia.
Qed.

Lemma pint_ok z : pnum_ok (pint z).
Proof. unfold pnum_ok, pint. cbn [pn_n]. lia. Qed.

Lemma nestg_pok op o nf comps : binop_of op = Some o -> Forall pok comps -> pok_opt (nestg (PBin op) nf comps).
Proof.
  intros Ho F. induction F as [|c comps Hc _ IH]; simpl; [exact I|].
  destruct (nestg (PBin op) nf comps) as [n|]; simpl in *; [|exact Hc].
  destruct nf; simpl; (split; [eauto|split; assumption]).
Qed.

Lemma collect_pok is_mul rs comps : Forall pok_opt rs -> collect is_mul rs = Some comps -> Forall pok comps.
Proof.
  intros F. revert comps. induction F as [|r rs Hr _ IH]; intros comps H; simpl in H.
  - injection H as <-. constructor.
  - destruct r as [c|].
    + destruct (collect is_mul rs) as [l|]; [|discriminate]. injection H as <-. constructor; [exact Hr|]. apply IH. reflexivity.
    + destruct is_mul; [discriminate|]. apply IH. exact H.
Qed.

Lemma pow_chain_pok base n : pok base -> pok (pow_chain base n).
Proof. intros H. induction n as [|k IH]; simpl; [exact H|]. split; [exists OMul; reflexivity|split; assumption]. Qed.

Theorem conv_pok d flag m t : Forall fl_ok (map fst m) -> forall r, conv d flag m t = Ok r -> pok_opt r.
Proof.
  intros Hm.
  induction t as [args IH|args IH|b e IHb _|v|z|p q|s|c] using stree_ind'; intros r H.
  - cbn [conv] in H. apply bind_ok_inv in H. destruct H as (_ & _ & H).
    apply bind_ok_inv in H. destruct H as (rs & Hrs & H). apply mapM_id_map in Hrs.
    assert (F : Forall pok_opt rs).
    { rewrite Forall_forall in IH |- *. intros ra Hra.
      assert (In (Ok ra) (map (conv d flag m) args)) as Hin by (rewrite Hrs; apply in_map; exact Hra).
      apply in_map_iff in Hin. destruct Hin as (a & Ea & Ha). exact (IH a Ha ra Ea). }
    destruct (collect false rs) as [comps|] eqn:C; injection H as <-; [|exact I].
    pose proof (collect_pok false rs comps F C) as Fc. unfold nest. destruct comps as [|c0 cs]; [exact I|].
    apply (nestg_pok "+" OAdd); [reflexivity|exact Fc].
  - cbn [conv] in H. apply bind_ok_inv in H. destruct H as (_ & _ & H).
    apply bind_ok_inv in H. destruct H as (rs & Hrs & H). apply mapM_id_map in Hrs.
    assert (F : Forall pok_opt rs).
    { rewrite Forall_forall in IH |- *. intros ra Hra.
      assert (In (Ok ra) (map (conv d flag m) args)) as Hin by (rewrite Hrs; apply in_map; exact Hra).
      apply in_map_iff in Hin. destruct Hin as (a & Ea & Ha). exact (IH a Ha ra Ea). }
    destruct (collect true rs) as [comps|] eqn:C; injection H as <-; [|exact I].
    pose proof (collect_pok true rs comps F C) as Fc. unfold nest. destruct comps as [|c0 cs]; [exact I|].
    apply (nestg_pok "*" OMul); [reflexivity|exact Fc].
  - cbn [conv] in H. destruct e as [| | | |z| | |]; try discriminate.
    destruct (Z.eqb z 0); [discriminate|].
    apply bind_ok_inv in H. destruct H as (_ & _ & H).
    apply bind_ok_inv in H. destruct H as (rb & Hrb & H). injection H as <-.
    specialize (IHb _ Hrb).
    assert (B : pok (match rb with Some p => p | None => PNum (pint 0) end)).
    { destruct rb; [exact IHb|apply pint_ok]. }
    destruct (Z.ltb 0 z); cbn [pok_opt].
    + apply pow_chain_pok. exact B.
    + split; [exists ODiv; reflexivity|]. split; [apply pint_ok|apply pow_chain_pok; exact B].
  - cbn [conv extract_atom] in H. destruct (flag && _); injection H as <-; [exact I|apply number_atom_ok].
  - cbn [conv extract_atom] in H. injection H as <-. apply pint_ok.
  - cbn [conv extract_atom] in H. destruct (flag && _); injection H as <-; [exact I|apply number_atom_ok].
  - cbn [conv extract_atom] in H. destruct (lookup_sym m s) as [t|] eqn:L; [|discriminate]. injection H as <-.
    apply lookup_sym_in in L. rewrite Forall_forall in Hm. apply Hm. apply in_map_iff. exists (t, s). auto.
  - discriminate.
Qed.

(* ------------------------------------------------------------------ rounding is stable under both *)
Lemma vanishing_ren tol f h : vanishing tol (ren f h) = vanishing tol h.
Proof.
  induction h as [q|v|o a IHa b IHb]; [reflexivity|reflexivity|].
  destruct o; cbn [ren vanishing]; rewrite ?IHa, ?IHb; reflexivity.
Qed.

Lemma eround_ren tol f h e : eround tol h e -> eround tol (ren f h) (ren f e).
Proof.
  induction 1; cbn [ren].
  - constructor; assumption.
  - constructor.
  - constructor; assumption.
  - apply ER_dropl; [rewrite vanishing_ren; assumption|assumption].
  - apply ER_dropr; [rewrite vanishing_ren; assumption|assumption].
  - apply ER_zero; [rewrite vanishing_ren; assumption|assumption].
Qed.

Lemma eround_eqe tol h e : eround tol h e -> forall e', eqe e e' -> eround tol h e'.
Proof.
  induction 1 as [p q Hpq|v|o a b a' b' Ha IHa Hb IHb|z a o Hz Ha IH|z a o Hz Ha IH|z q Hz Hq]; intros e' E.
  - inversion E as [p' q' Hq| |]; subst. constructor. rewrite <- Hq. exact Hpq.
  - inversion E; subst. constructor.
  - inversion E as [| |o' x y x' y' Hx Hy]; subst. constructor; [apply IHa|apply IHb]; assumption.
  - apply ER_dropl; [exact Hz|apply IH; exact E].
  - apply ER_dropr; [exact Hz|apply IH; exact E].
  - inversion E as [p' q' Hq'| |]; subst. apply ER_zero; [exact Hz|]. rewrite <- Hq'. exact Hq.
Qed.

Lemma eval_ren rho f h : eval rho (ren f h) = eval (fun v => rho (f v)) h.
Proof. induction h as [q|v|o a IHa b IHb]; cbn [ren eval]; [reflexivity|reflexivity|]. rewrite IHa, IHb. reflexivity. Qed.

(* ------------------------------------------------------------------ the glue theorem, down to the text *)
(* For every sympy tree the printer accepts - with a symbol table whose function texts have the shape the library finds in
   its input - the printed TEXT is read by the tokenizer model and the restricted grammar of Spec/Poly.v as an expression e
   that is a structural d-decimal rounding of an expression h with exactly the value of the tree, every function named by
   its canonical text. *)
Theorem glue_readback_sound d flag m t p :
  conv d flag m t = Ok (Some p) -> Forall fl_ok (map fst m) ->
  exists (s : sexp) (e h : expr),
    parse MStr (s2t (show_pexpr p)) = Ok s /\ expr_of_sexp s = Some e /\
    eround (tol_of d) (ren canon h) e /\
    (wf_tree t = true -> forall rho, eval rho (ren canon h) == seval d m (fun v => rho (canon v)) t).
Proof.
  intros H Hm. pose proof (conv_pok d flag m t Hm _ H) as Pk. cbn [pok_opt] in Pk.
  destruct (glue_sound d flag m t _ H) as (h & Hv & e0 & E0 & R0).
  destruct (read_sx p e0 Pk E0) as (e & Re & Qe).
  exists (sx p), e, h. split; [apply parse_show; exact Pk|]. split; [exact Re|]. split.
  - apply (eround_eqe _ _ (ren canon e0)); [apply eround_ren; exact R0|].
    clear -Qe. induction Qe; constructor; try assumption; symmetry; assumption.
  - intros W rho. rewrite eval_ren. apply Hv. exact W.
Qed.

(* ------------------------------------------------------------------ the symbol tables transform_expression builds qualify *)
Lemma take_while_spec f : forall t a b, take_while f t = (a, b) -> t = a ++ b /\ Forall (fun c => f c = true) a.
Proof.
  induction t as [|c t IH]; intros a b H; simpl in H.
  - injection H as <- <-. split; [reflexivity|constructor].
  - destruct (f c) eqn:Fc.
    + destruct (take_while f t) as [a' b'] eqn:E. injection H as <- <-. destruct (IH a' b' eq_refl) as [E1 E2].
      split; [simpl; f_equal; exact E1|constructor; assumption].
    + injection H as <- <-. split; [reflexivity|constructor].
Qed.

Lemma word_dash_atom c : is_word c || is_dash c = true -> atom_char c = true.
Proof.
  intros H. by_ascii (fun c => implb (is_word c || is_dash c) (atom_char c)) c F. rewrite H in F. exact F.
Qed.

Lemma arg_char_inner c : is_q c || is_word c || is_dash c || is_ws c = true -> inner_char c = true.
Proof.
  intros H. by_ascii (fun c => implb (is_q c || is_word c || is_dash c || is_ws c) (inner_char c)) c F.
  rewrite H in F. exact F.
Qed.

Lemma head_name c rest : is_word c && negb (is_digit c) = true -> name_start (String (lower_ascii c) rest) = true.
Proof.
  intros H. cbn [name_start].
  by_ascii (fun c => implb (is_word c && negb (is_digit c))
                       (let n := N_of_ascii (lower_ascii c) in
                        (((97 <=? n) && (n <=? 122)) || ((65 <=? n) && (n <=? 90)) || (n =? 95))%N)) c F.
  rewrite H in F. exact F.
Qed.

Lemma t2s_cons c t : t2s (c :: t) = String c (t2s t).
Proof. reflexivity. Qed.

Lemma match_fluent_ok r m rest : match_fluent r = Some (m, rest) -> fl_ok (t2s m).
Proof.
  unfold match_fluent. destruct r as [|c r0]; [discriminate|].
  destruct (is_word c && negb (is_digit c)) eqn:Hc; [|discriminate].
  destruct (take_while (fun x => is_word x || is_dash x) r0) as [name r1] eqn:T1.
  destruct r1 as [|s r2]; [discriminate|]. destruct (is_ws s) eqn:Hs; [|discriminate].
  destruct (take_while (fun x => is_q x || is_word x || is_dash x || is_ws x) r2) as [args r3] eqn:T2.
  destruct r3 as [|e r4]; [discriminate|].
  destruct e as [[] [] [] [] [] [] [] []]; try discriminate. intros H. injection H as <- <-.
  destruct (take_while_spec _ _ _ _ T1) as [_ Fn]. destruct (take_while_spec _ _ _ _ T2) as [_ Fa].
  assert (Hc' : atom_char c = true).
  { apply word_dash_atom. apply andb_true_iff in Hc. destruct Hc as [Hc _]. rewrite Hc. reflexivity. }
  assert (Fn' : Forall (fun x => atom_char x = true) (c :: name)).
  { constructor; [exact Hc'|]. eapply Forall_impl; [|exact Fn]. intros x Hx. apply word_dash_atom. exact Hx. }
  set (inner := c :: name ++ s :: args).
  assert (Ei : inner_of (t2s ("("%char :: c :: name ++ s :: args ++ [")"%char])) = inner).
  { unfold inner_of. rewrite s2t_t2s. cbn [tl].
    change (c :: name ++ s :: args ++ [")"%char]) with ((c :: name) ++ (s :: args) ++ [")"%char]).
    rewrite app_assoc, removelast_last. reflexivity. }
  unfold fl_ok, fl_ok_b. rewrite Ei. rewrite s2t_t2s.
  apply andb_true_iff. split; [apply andb_true_iff; split|].
  - change (c :: name ++ s :: args ++ [")"%char]) with ((c :: name) ++ (s :: args) ++ [")"%char]).
    rewrite app_assoc, rev_app_distr. reflexivity.
  - apply forallb_forall. apply Forall_forall. unfold inner.
    change (c :: name ++ s :: args) with ((c :: name) ++ s :: args). apply Forall_app. split.
    + eapply Forall_impl; [|exact Fn']. intros x Hx. apply atom_inner. exact Hx.
    + constructor; [apply ws_inner; exact Hs|].
      eapply Forall_impl; [|exact Fa]. intros x Hx. apply arg_char_inner. exact Hx.
  - unfold fl_tokens. rewrite Ei. unfold tokenize, inner.
    change (c :: name ++ s :: args) with ((c :: name) ++ s :: args).
    rewrite (tk_atom MStr _ Fn' (s :: args) []). rewrite (tk_ws MStr s args _ Hs).
    rewrite List.app_nil_r. cbn [lower_text map rev].
    unfold flush. destruct (rev (map lower_ascii name) ++ [lower_ascii c]) eqn:E.
    + destruct (rev (map lower_ascii name)); discriminate.
    + rewrite <- E, rev_app_distr, rev_involutive. cbn [rev app]. rewrite t2s_cons. apply head_name. exact Hc.
Qed.

Lemma find_fluents_ok fuel : forall t, Forall fl_ok (find_fluents fuel t).
Proof.
  induction fuel as [|f IH]; intros t; cbn [find_fluents]; [constructor|].
  destruct t as [|c r]; [constructor|].
  destruct c as [[] [] [] [] [] [] [] []]; try apply IH.
  destruct (match_fluent r) as [[m rest]|] eqn:M; [|apply IH].
  constructor; [exact (match_fluent_ok r m rest M)|apply IH].
Qed.

Lemma dedup_incl l : incl (dedup l) l.
Proof.
  induction l as [|x l IH]; simpl; [intros y []|].
  intros y [<-|Hy]; [left; reflexivity|]. apply filter_In in Hy. right. apply IH. exact (proj1 Hy).
Qed.

Lemma fluents_in_ok text : Forall fl_ok (fluents_in text).
Proof.
  unfold fluents_in. apply Forall_forall. intros x Hx. apply dedup_incl in Hx.
  pose proof (find_fluents_ok (S (String.length text)) (s2t text)) as F. rewrite Forall_forall in F. exact (F x Hx).
Qed.

Lemma insert_sorted_in x l y : In y (insert_sorted x l) -> y = x \/ In y l.
Proof.
  induction l as [|z l IH]; simpl; [intros [<-|[]]; auto|].
  destruct (String.leb x z); simpl; intros H.
  - destruct H as [<-|H]; auto.
  - destruct H as [<-|H]; [auto|]. destruct (IH H); auto.
Qed.

Lemma sort_strings_in l y : In y (sort_strings l) -> In y l.
Proof.
  induction l as [|x l IH]; simpl; [auto|]. intros H. apply insert_sorted_in in H. destruct H as [->|H]; auto.
Qed.

(* transform_expression's dictionary: the texts it is given plus the function applications it finds in the expression *)
Theorem transform_map_ok given text m :
  Forall fl_ok (map fst given) -> transform_map given (fluents_in text) = Ok m -> Forall fl_ok (map fst m).
Proof.
  unfold transform_map. pose proof (fluents_in_ok text) as Ff.
  assert (Fs : Forall fl_ok (sort_strings (fluents_in text))).
  { apply Forall_forall. intros x Hx. apply sort_strings_in in Hx. rewrite Forall_forall in Ff. auto. }
  revert Fs. generalize (sort_strings (fluents_in text)) as l. clear Ff. intros l. revert given.
  induction l as [|v l IH]; intros given Fs G H; simpl in H.
  - injection H as <-. exact G.
  - inversion Fs as [|? ? Hv Fl]; subst.
    destruct (str_in v (map fst given)) eqn:E; [exact (IH given Fl G H)|].
    destruct (fresh_name (symbol_name v) (map snd given)) as [n|k] eqn:F.
    + apply (IH (given ++ [(v, n)]) Fl); [|exact H]. rewrite map_app. apply Forall_app. split; [exact G|]. repeat constructor. exact Hv.
    + exfalso. clear -H. simpl in H. induction l as [|w l IHl]; simpl in H; [discriminate|]. apply IHl. exact H.
Qed.

(* the hypotheses are satisfiable by a non-trivial value: the tree of glue_example, a symbol table built by the model's
   transform_expression from an input text, and the text printed for it *)
Example readback_example :
  let text := "((x ?a) * 0.004) * (y ?a) + 2.99999 / ((x ?a) * (x ?a)) + (y ?a) / 3" in
  let t := SAdd [SMul [SFloat (4 # 1000); SSym "xa"; SSym "ya"];
                 SMul [SFloat (299999 # 100000); SPow (SSym "xa") (SInt (-2))];
                 SMul [SRat 1 3; SSym "ya"]] in
  exists m p,
    transform_map [] (fluents_in text) = Ok m /\ m = [("(x ?a)", "xa"); ("(y ?a)", "ya")] /\
    conv 2 true m t = Ok (Some p) /\
    show_pexpr p = "(+ (* (/ 1 (* (x ?a) (x ?a))) 3) (* (y ?a) 0.33))" /\
    canon "(x ?a)" = "( x ?a )".
Proof. vm_compute. eexists. eexists. repeat split; reflexivity. Qed.
