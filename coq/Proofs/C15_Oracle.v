(* C15: the decidable structure check used as the oracle of the correspondence implies the Prop-level spec. *)
From Coq Require Import List Ascii String Bool Arith Lia Permutation.
From Verif Require Import Base.Str Spec.Pddl Spec.JointPlan Proofs.C15_Views.
Import ListNotations.
Open Scope string_scope.
Open Scope list_scope.

Lemma call_eqb_eq (a b : call) : call_eqb a b = true <-> a = b.
Proof.
  destruct a as [n x], b as [m y]. unfold call_eqb. cbn [fst snd].
  rewrite andb_true_iff, String.eqb_eq, list_eqb_str_eq. split; [intros [-> ->]; reflexivity|intros H; inversion H; auto].
Qed.

Lemma call_eqb_refl a : call_eqb a a = true.
Proof. apply call_eqb_eq. reflexivity. Qed.

Definition call_eq_dec (a b : call) : {a = b} + {a <> b}.
Proof.
  destruct (call_eqb a b) eqn:E; [left; apply call_eqb_eq; exact E|right; intros H; apply call_eqb_eq in H; congruence].
Defined.

Lemma list_call_eqb_eq (a b : list call) : list_eqb call_eqb a b = true <-> a = b.
Proof.
  revert b. induction a as [|x a IH]; intros [|y b]; cbn; try (split; [discriminate|congruence]); [tauto|].
  rewrite andb_true_iff, call_eqb_eq, IH. split; [intros [-> ->]; reflexivity|intros H; inversion H; auto].
Qed.

Lemma forall2b_Forall2 {A B} (p : A -> B -> bool) (R : A -> B -> Prop) a b :
  (forall x y, p x y = true -> R x y) -> forall2b p a b = true -> Forall2 R a b.
Proof.
  intros H. revert b. induction a as [|x a IH]; intros [|y b] E; cbn in E; try discriminate; [constructor|].
  apply andb_true_iff in E. destruct E as [E1 E2]. constructor; [apply H; exact E1|apply IH; exact E2].
Qed.

Lemma executed_by_executor agents ag c : executed_by agents ag c = true -> executor agents c = Some ag.
Proof.
  unfold executed_by. destruct (executor agents c) as [a|]; [|discriminate].
  intros E. apply String.eqb_eq in E. subst. reflexivity.
Qed.

Lemma executed_by_in agents ag c : executed_by agents ag c = true -> In ag agents.
Proof.
  intros H. apply executed_by_executor in H. unfold executor in H. apply find_some in H. destruct H as [_ H].
  apply str_in_In. exact H.
Qed.

Lemma slot_okb_ok agents ag c : slot_okb agents ag c = true -> slot_ok agents ag c.
Proof.
  unfold slot_okb, slot_ok. intros H. apply orb_true_iff in H. destruct H as [H|H].
  - left. apply call_eqb_eq. exact H.
  - right. apply andb_true_iff in H. destruct H as [H1 H2]. split; [apply negb_true_iff; exact H1|apply executed_by_executor; exact H2].
Qed.

Lemma by_agent_outside agents ag l : ~ In ag agents -> by_agent agents ag l = [].
Proof.
  intros H. unfold by_agent. induction l as [|c l IH]; [reflexivity|]. cbn.
  destruct (executed_by agents ag c) eqn:E; [exfalso; apply H; apply (executed_by_in agents ag c E)|exact IH].
Qed.

Lemma count_call_occ x l : count_call x l = count_occ call_eq_dec l x.
Proof.
  unfold count_call. induction l as [|y l IH]; [reflexivity|]. cbn [filter count_occ].
  destruct (call_eq_dec y x) as [->|Hn].
  - rewrite call_eqb_refl. cbn. rewrite IH. reflexivity.
  - destruct (call_eqb x y) eqn:E; [apply call_eqb_eq in E; congruence|exact IH].
Qed.

Lemma count_call_zero x l : ~ In x l -> count_call x l = 0.
Proof. intros H. rewrite count_call_occ. apply count_occ_not_In. exact H. Qed.

Theorem structure_okb_sound agents plan js : structure_okb agents plan js = true -> structure_ok agents plan js.
Proof.
  unfold structure_okb. set (out := List.concat (map members js)).
  rewrite !andb_true_iff. intros [[[[H1 H2] H3] [H4 H5]] H6]. constructor.
  - apply Forall_forall. intros j Hj. rewrite forallb_forall in H1.
    apply (forall2b_Forall2 (slot_okb agents) (slot_ok agents)); [apply slot_okb_ok|apply H1; exact Hj].
  - apply Forall_forall. intros j Hj ag. rewrite forallb_forall in H2. specialize (H2 j Hj).
    destruct (in_dec string_dec ag agents) as [Hin|Hout].
    + rewrite forallb_forall in H2. apply Nat.leb_le. apply H2. exact Hin.
    + rewrite (by_agent_outside agents ag _ Hout). cbn. lia.
  - intros ag. fold out. destruct (in_dec string_dec ag agents) as [Hin|Hout].
    + rewrite forallb_forall in H3. apply list_call_eqb_eq. apply H3. exact Hin.
    + rewrite !(by_agent_outside agents ag _ Hout). reflexivity.
  - fold out. apply (Permutation_count_occ call_eq_dec). intros x. rewrite <- !count_call_occ.
    rewrite forallb_forall in H4, H5.
    destruct (in_dec call_eq_dec x plan) as [Hp|Hp]; [apply Nat.eqb_eq; apply H4; exact Hp|].
    destruct (in_dec call_eq_dec x out) as [Ho|Ho]; [apply Nat.eqb_eq; apply H5; exact Ho|].
    rewrite !count_call_zero by assumption. reflexivity.
  - apply Forall_forall. intros j Hj. rewrite forallb_forall in H6. specialize (H6 j Hj).
    destruct (members j); [discriminate|discriminate].
Qed.
