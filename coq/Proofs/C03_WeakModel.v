(* C03: the model's result passes the frame/membership oracle of Proofs/C03_Weak.v in EVERY visiting order, also when the
   firing groups are inconsistent (no [consistent] hypothesis): what apply_op returns is the outcome of the firing
   groups taken in the visiting order. *)
From Coq Require Import List String Bool PrimFloat Permutation.
From Verif Require Import Base.Result Base.Str Base.PyDict Model.Types Model.Domain Model.Exec Spec.Pddl
  Proofs.C03_Spec Proofs.C03_Defs Proofs.C03_Refine Proofs.C03_Main Proofs.C03_Weak.
Import ListNotations.
Open Scope string_scope.
Open Scope list_scope.

Theorem inconsistent_passes :
  forall (d : mdomain) (eps : float) (a : maction) (effs : list eff) (args : list string) (ga : gaction)
         (objs : objects) (s : state) (allow b : bool),
    denote_effs a = Some effs -> names_ok d a = true -> ground_action d a args = Ok ga ->
    evaluates d eps objs ga s ->
    is_applicable d eps (Some objs) ga s = Ok b -> (b = true \/ allow = true) ->
    forall order uorder, is_order order (List.length (ga_groups ga)) -> is_order uorder (List.length (ma_univ a)) ->
    exists s', apply_op d eps ga (Some objs) allow false order uorder s = Ok s' /\
               weak_succ_ok s (all_groups eps (d_types d) objs (spec_action a effs) args s) s' = true.
Proof.
  intros d eps a effs args ga objs s allow b Hd Hn Hg Hev Happ Hb order uorder Ho Hu.
  exists (succ s (model_groups d eps objs ga order uorder s)). split.
  - eapply apply_op_fire; eauto.
  - apply weak_succ_sound. apply Permutation_sym.
    rewrite <- (canon_is_spec d eps a effs args ga objs s Hd Hn Hg Hev).
    apply model_groups_perm; [exact Ho|].
    rewrite (univ_len d a args ga Hg). exact Hu.
Qed.
