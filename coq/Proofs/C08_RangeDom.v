(* C08: the declaration tables built by the parser are well-formed, and a whole domain written in PDDL's section
   order is parsed into a well-formed domain object (up to name hygiene, which is a hypothesis on the result). *)
From Coq Require Import List Ascii String Bool Arith Lia PrimFloat.
From Verif Require Import Base.Result Base.Str Base.Sexp Base.PyDict Base.Float
  Model.Types Model.NumExpr Model.Domain Model.DomainExporter
  Proofs.C08_Defs Proofs.C08_Trees Proofs.C08_Pre Proofs.C08_Tables Proofs.C08_Range.
Import ListNotations.
Open Scope string_scope.
Open Scope list_scope.

(* ---------- dict facts ---------- *)
Lemma dset_nodup {V} (d : pydict V) k v : NoDup (dkeys d) -> NoDup (dkeys (dset d k v)).
Proof.
  induction d as [|[k0 v0] r IH]; cbn [dset dkeys map fst]; intros H.
  - constructor; [intros []|constructor].
  - inversion H as [|? ? Hk Hr]; subst. destruct (String.eqb k k0) eqn:E; cbn [map fst].
    + exact H.
    + constructor; [|apply IH; exact Hr]. intros Hin. apply dset_keys_in in Hin.
      destruct Hin as [->|Hin]; [rewrite String.eqb_refl in E; discriminate|contradiction].
Qed.

Lemma fold_dset_nodup {V} (l : list string) (v : V) : forall d, NoDup (dkeys d) ->
  NoDup (dkeys (fold_left (fun acc c => dset acc c v) l d)).
Proof. induction l as [|c r IH]; intros d H; cbn [fold_left]; [exact H|]. apply IH. apply dset_nodup. exact H. Qed.

Lemma nodup_has_dup l : NoDup l -> has_dup l = false.
Proof.
  induction 1 as [|x xs Hx _ IH]; [reflexivity|]. cbn [has_dup]. rewrite IH, orb_false_r.
  destruct (str_in x xs) eqn:E; [|reflexivity]. apply str_in_In in E. contradiction.
Qed.

Lemma dset_forall {V} (P : string * V -> bool) (d : pydict V) k v :
  forallb P d = true -> P (k, v) = true -> forallb P (dset d k v) = true.
Proof.
  induction d as [|[k0 v0] r IH]; cbn [dset forallb]; intros H Hp.
  - rewrite Hp. reflexivity.
  - apply andb_true_iff in H. destruct H as [H0 Hr]. destruct (String.eqb k k0) eqn:E; cbn [forallb].
    + apply String.eqb_eq in E. subst k0. rewrite Hp, Hr. reflexivity.
    + rewrite H0, IH by assumption. reflexivity.
Qed.

Lemma fold_dset_forall {V} (P : string * V -> bool) (l : list string) (v : V) : forall d,
  forallb P d = true -> (forall c, In c l -> P (c, v) = true) ->
  forallb P (fold_left (fun acc c => dset acc c v) l d) = true.
Proof.
  induction l as [|c r IH]; intros d H Hl; cbn [fold_left]; [exact H|].
  apply IH; [apply dset_forall; [exact H|apply Hl; left; reflexivity]|intros c' Hc'; apply Hl; right; exact Hc'].
Qed.

(* ---------- (:constants ...) ---------- *)
Lemma parse_constants_aux_wf tt : forall toks same marker acc cs,
  parse_constants_aux tt toks same marker acc = Ok cs ->
  NoDup (dkeys acc) -> forallb (fun ct => not_dash (fst ct) && type_known tt (snd ct)) acc = true ->
  forallb not_dash same = true ->
  NoDup (dkeys cs) /\ forallb (fun ct => not_dash (fst ct) && type_known tt (snd ct)) cs = true.
Proof.
  induction toks as [|[t|sub] rest IH]; intros same marker acc cs H Hnd Hall Hsame; cbn [parse_constants_aux] in H.
  - injection H as <-. split; [apply fold_dset_nodup; exact Hnd|].
    apply fold_dset_forall; [exact Hall|]. intros c Hc. cbn [fst snd]. rewrite (forallb_In _ _ _ Hsame Hc). reflexivity.
  - destruct marker.
    + destruct (type_known tt t) eqn:Ety; [|discriminate]. cbn [negb] in H.
      apply (IH [] false _ cs H); [apply fold_dset_nodup; exact Hnd| |reflexivity].
      apply fold_dset_forall; [exact Hall|]. intros c Hc. cbn [fst snd]. rewrite (forallb_In _ _ _ Hsame Hc), Ety. reflexivity.
    + destruct (String.eqb t "-") eqn:Ed.
      * apply (IH same true acc cs H Hnd Hall Hsame).
      * apply (IH (same ++ [t]) false acc cs H Hnd Hall). rewrite forallb_app, Hsame. cbn. unfold not_dash. rewrite Ed. reflexivity.
  - discriminate.
Qed.

Lemma parse_constants_wf tt toks cs : parse_constants tt toks = Ok cs -> wf_consts tt cs = true.
Proof.
  unfold parse_constants. intros H.
  destruct (parse_constants_aux_wf tt toks [] false [] cs H (NoDup_nil _) eq_refl eq_refl) as [Hnd Hall].
  unfold wf_consts. rewrite (nodup_has_dup _ Hnd), Hall. reflexivity.
Qed.

(* ---------- (:predicates ...) and (:functions ...) ---------- *)
Definition decls_inv (tt : typetable) (ps : pydict signature) : Prop :=
  NoDup (dkeys ps) /\ forallb (fun ns => wf_sig (type_known tt) (snd ns)) ps = true.

Lemma parse_predicate_wf tt e ns : parse_predicate tt e = Ok ns -> wf_sig (type_known tt) (snd ns) = true.
Proof.
  unfold parse_predicate. destruct e as [s|[|[n|?] params]]; try discriminate.
  intros H. apply bind_ok in H. destruct H as (sg & Hsg & H). injection H as <-. apply (parse_signature_wf tt params sg Hsg).
Qed.

Lemma decls_inv_dset tt ps n sg : decls_inv tt ps -> wf_sig (type_known tt) sg = true -> decls_inv tt (dset ps n sg).
Proof.
  intros [Hnd Hall] Hs. split; [apply dset_nodup; exact Hnd|]. apply (dset_forall (fun ns => wf_sig (type_known tt) (snd ns))); assumption.
Qed.

Lemma private_fold_wf tt : forall privs acc acc',
  foldM (fun a p => do ns <- parse_predicate tt p; Ok (dset a (fst ns) (snd ns))) privs acc = Ok acc' ->
  decls_inv tt acc -> decls_inv tt acc'.
Proof.
  induction privs as [|p r IH]; intros acc acc' H Hinv; cbn [foldM] in H.
  - injection H as <-. exact Hinv.
  - apply bind_ok in H. destruct H as (a1 & H1 & H). apply bind_ok in H1. destruct H1 as (ns & Hns & H1). injection H1 as <-.
    apply (IH _ acc' H). apply decls_inv_dset; [exact Hinv|apply (parse_predicate_wf tt p ns Hns)].
Qed.

Lemma parse_predicates_wf tt : forall l acc ps,
  parse_predicates tt l acc = Ok ps -> decls_inv tt acc -> decls_inv tt ps.
Proof.
  induction l as [|e rest IH]; intros acc ps H Hinv; cbn [parse_predicates] in H.
  - injection H as <-. exact Hinv.
  - assert (Hdefault : forall ps', (do ns <- parse_predicate tt e; parse_predicates tt rest (dset acc (fst ns) (snd ns))) = Ok ps' ->
                                   decls_inv tt ps').
    { intros ps' H'. apply bind_ok in H'. destruct H' as (ns & Hns & H').
      apply (IH _ ps' H'). apply decls_inv_dset; [exact Hinv|apply (parse_predicate_wf tt e ns Hns)]. }
    destruct e as [s|[|[n|sub] privs]]; try (apply (Hdefault ps H)).
    repeat match type of H with
           | context [match ?s with EmptyString => _ | String _ _ => _ end] =>
               is_var s; destruct s as [|[[] [] [] [] [] [] [] []] ?]; try (apply (Hdefault ps H))
           end.
    apply bind_ok in H. destruct H as (acc' & Hp & H). apply (IH acc' ps H). apply (private_fold_wf tt privs acc acc' Hp Hinv).
Qed.

Lemma functions_wf tt : forall l acc fs,
  foldM (fun acc f => do ns <- parse_function tt f; Ok (dset acc (fst ns) (snd ns))) l acc = Ok fs ->
  decls_inv tt acc -> decls_inv tt fs.
Proof.
  induction l as [|e rest IH]; intros acc fs H Hinv; cbn [foldM] in H.
  - injection H as <-. exact Hinv.
  - apply bind_ok in H. destruct H as (a1 & H1 & H). apply bind_ok in H1. destruct H1 as (ns & Hns & H1). injection H1 as <-.
    apply (IH _ fs H). apply decls_inv_dset; [exact Hinv|].
    unfold parse_function in Hns. destruct e as [s|[|[n|?] params]]; try discriminate.
    destruct (negb (Nat.eqb (Nat.modulo (List.length params) 3) 0)); [discriminate|].
    apply bind_ok in Hns. destruct Hns as (sg & Hsg & Hns). injection Hns as <-. apply (parse_signature_wf tt params sg Hsg).
Qed.

(* ---------- (:types ...) ---------- *)
Lemma dmem_in {V} (d : pydict V) k : dmem d k = true <-> In k (dkeys d).
Proof.
  unfold dmem. induction d as [|[k0 v0] r IH]; cbn [dget dkeys map fst].
  - split; [discriminate|intros []].
  - destruct (String.eqb k k0) eqn:E.
    + apply String.eqb_eq in E. subst. split; [left; reflexivity|reflexivity].
    + rewrite IH. split; [right; assumption|]. intros [H|H]; [subst; rewrite String.eqb_refl in E; discriminate|exact H].
Qed.

Lemma collect_decls_nodup : forall n toks, List.length toks <= n -> forall same d d' trailing,
  collect_decls toks same d = Ok (d', trailing) -> NoDup (dkeys d) -> NoDup (dkeys d').
Proof.
  induction n as [|n IH]; intros toks Hlen same d d' trailing H Hnd.
  - destruct toks; [|cbn in Hlen; lia]. cbn in H. injection H as <- _. exact Hnd.
  - destruct toks as [|[t|sub] rest]; cbn [collect_decls] in H.
    + injection H as <- _. exact Hnd.
    + destruct (String.eqb t "-").
      * destruct rest as [|[p|sub] rest']; try discriminate.
        apply (IH rest' ltac:(cbn in Hlen; lia) [] _ d' trailing H). apply fold_dset_nodup. exact Hnd.
      * apply (IH rest ltac:(cbn in Hlen; lia) _ d d' trailing H Hnd).
    + discriminate.
Qed.

Definition apo_step (acc : typetable) (p : string) : typetable :=
  if dmem acc p || String.eqb p "object" then acc else dset acc p "object".

Lemma apo_step_nodup acc p : NoDup (dkeys acc) -> NoDup (dkeys (apo_step acc p)).
Proof. unfold apo_step. destruct (dmem acc p || String.eqb p "object"); [auto|apply dset_nodup]. Qed.

Lemma apo_step_in acc p kv : In kv acc -> In kv (apo_step acc p).
Proof.
  unfold apo_step. destruct (dmem acc p || String.eqb p "object") eqn:E; [auto|].
  apply orb_false_iff in E. destruct E as [E _]. intros H.
  rewrite dset_fresh'; [apply in_or_app; left; exact H|]. intros Hin. apply dmem_in in Hin. congruence.
Qed.

Lemma apo_step_new acc p kv : In kv (apo_step acc p) -> In kv acc \/ kv = (p, "object").
Proof.
  unfold apo_step. destruct (dmem acc p || String.eqb p "object") eqn:E; [auto|].
  apply orb_false_iff in E. destruct E as [E _]. rewrite dset_fresh'.
  - intros H. apply in_app_or in H. destruct H as [H|[H|[]]]; [left; exact H|right; symmetry; exact H].
  - intros Hin. apply dmem_in in Hin. congruence.
Qed.

Lemma apo_step_known acc p : dmem (apo_step acc p) p = true \/ p = "object".
Proof.
  unfold apo_step. destruct (dmem acc p) eqn:E; cbn [orb]; [left; exact E|].
  destruct (String.eqb p "object") eqn:Eo; [right; apply String.eqb_eq; exact Eo|].
  left. unfold dmem. rewrite dget_dset_same. reflexivity.
Qed.

Lemma in_keys {V} (d : pydict V) k v : In (k, v) d -> In k (dkeys d).
Proof. intros H. unfold dkeys. apply in_map_iff. exists (k, v). split; [reflexivity|exact H]. Qed.

Lemma apo_fold (vals : list string) : forall acc,
  let res := fold_left apo_step vals acc in
  (NoDup (dkeys acc) -> NoDup (dkeys res)) /\
  (forall kv, In kv acc -> In kv res) /\
  (forall kv, In kv res -> In kv acc \/ snd kv = "object") /\
  (forall p, In p vals -> In p (dkeys res) \/ p = "object").
Proof.
  induction vals as [|p r IH]; intros acc; cbn [fold_left].
  - repeat split; auto. intros p [].
  - destruct (IH (apo_step acc p)) as (I1 & I2 & I3 & I4). repeat split.
    + intros H. apply I1. apply apo_step_nodup. exact H.
    + intros kv H. apply I2. apply apo_step_in. exact H.
    + intros kv H. destruct (I3 kv H) as [H'|H']; [|right; exact H'].
      destruct (apo_step_new acc p kv H') as [H''| ->]; [left; exact H''|right; reflexivity].
    + intros q [<-|Hq]; [|apply I4; exact Hq].
      destruct (apo_step_known acc p) as [Hk|Ho]; [|right; exact Ho]. left.
      apply dmem_in in Hk. unfold dkeys in Hk. apply in_map_iff in Hk. destruct Hk as ([k v] & Hk & Hin). cbn [fst] in Hk. subst k.
      apply (in_keys _ p v). apply I2. exact Hin.
Qed.

Lemma filter_nodup_keys {V} (f : string * V -> bool) (d : pydict V) : NoDup (dkeys d) -> NoDup (dkeys (filter f d)).
Proof.
  induction d as [|[k v] r IH]; cbn [filter dkeys map fst]; intros H; [constructor|].
  inversion H as [|? ? Hk Hr]; subst. destruct (f (k, v)); [|apply IH; exact Hr].
  cbn [map fst]. constructor; [|apply IH; exact Hr]. intros Hin. apply Hk.
  unfold dkeys in *. apply in_map_iff in Hin. destruct Hin as (x & Hx & Hin). apply filter_In in Hin. destruct Hin as [Hin _].
  apply in_map_iff. exists x. split; assumption.
Qed.

Theorem parse_types_wf toks tt :
  parse_types toks = Ok tt ->
  NoDup (dkeys tt) /\
  forallb (fun kp => negb (String.eqb (fst kp) "object") && type_known tt (snd kp)) tt = true /\
  forallb (fun kp => reaches_object tt (fst kp)) tt = true.
Proof.
  unfold parse_types. destruct (collect_decls toks [] []) as [[d trailing]|] eqn:Ec; [|discriminate].
  set (d1 := fold_left (fun acc c => dset acc c "object") trailing d).
  set (d2 := add_parent_only d1).
  set (d3 := filter (fun kv : string * string => negb (String.eqb (fst kv) "object")) d2).
  destruct (forallb (fun kv => reaches_object d3 (fst kv)) d3) eqn:Er; [|discriminate].
  intros H. injection H as <-.
  assert (Hd : NoDup (dkeys d)) by (apply (collect_decls_nodup _ toks (le_n _) [] [] d trailing Ec); constructor).
  assert (Hd1 : NoDup (dkeys d1)) by (apply fold_dset_nodup; exact Hd).
  destruct (apo_fold (dvalues d1) d1) as (A1 & A2 & A3 & A4). fold (add_parent_only d1) in A1, A2, A3, A4. fold d2 in A1, A2, A3, A4.
  assert (Hd2 : NoDup (dkeys d2)) by (apply A1; exact Hd1).
  split; [apply filter_nodup_keys; exact Hd2|]. split; [|exact Er].
  apply forallb_forall. intros [k p] Hin. cbn [fst snd]. unfold d3 in Hin. apply filter_In in Hin. destruct Hin as [Hin2 Hk].
  cbn [fst] in Hk. rewrite Hk. cbn [andb]. unfold type_known.
  destruct (String.eqb p "object") eqn:Ep; [reflexivity|]. cbn [orb].
  assert (Hp2 : In p (dkeys d2)).
  { destruct (A3 (k, p) Hin2) as [H1|H1].
    - assert (Hv : In p (dvalues d1)) by (unfold dvalues; apply in_map_iff; exists (k, p); split; [reflexivity|exact H1]).
      destruct (A4 p Hv) as [H2|H2]; [exact H2|]. subst p. discriminate.
    - cbn [snd] in H1. subst p. discriminate. }
  apply dmem_in. unfold dkeys in *. apply in_map_iff in Hp2. destruct Hp2 as ([k' v'] & Hk' & Hin'). cbn [fst] in Hk'. subst k'.
  apply in_map_iff. exists (p, v'). split; [reflexivity|]. apply filter_In. split; [exact Hin'|]. cbn [fst]. rewrite Ep. reflexivity.
Qed.

(* ---------- a domain in PDDL's section order ---------- *)
Definition is_atom_named (s : string) (e : sexp) : bool :=
  match e with Atom t => String.eqb t s | SList _ => false end.

Definition action_shape (e : sexp) : bool :=
  match e with
  | SList [h; Atom _; k1; SList _; k2; _; k3; _] =>
      is_atom_named ":action" h && is_atom_named ":parameters" k1 &&
      is_atom_named ":precondition" k2 && is_atom_named ":effect" k3
  | _ => false
  end.

Definition head_stage (h : string) : option nat :=
  if String.eqb h "domain" then Some 0 else if String.eqb h ":requirements" then Some 1
  else if String.eqb h ":types" then Some 2 else if String.eqb h ":constants" then Some 3
  else if String.eqb h ":predicates" then Some 4 else if String.eqb h ":functions" then Some 5 else None.

(* (domain ..) [(:requirements ..)] [(:types ..)] [(:constants ..)] [(:predicates ..)] [(:functions ..)] (:action ..)* *)
Fixpoint canonical_from (st : nat) (l : list sexp) : bool :=
  match l with
  | [] => true
  | e :: r =>
      if action_shape e then forallb action_shape r
      else match e with
           | SList (Atom h :: _) =>
               match head_stage h with
               | Some k => Nat.leb st k && canonical_from (S k) r
               | None => false
               end
           | _ => false
           end
  end.

Definition canonical (e : sexp) : bool :=
  match e with
  | SList (Atom d :: sections) => String.eqb d "define" && canonical_from 0 sections
  | _ => false
  end.

Lemma action_shape_inv e : action_shape e = true ->
  exists n ps pre eff, e = SList [Atom ":action"; Atom n; Atom ":parameters"; SList ps; Atom ":precondition"; pre; Atom ":effect"; eff].
Proof.
  unfold action_shape.
  destruct e as [s|[|h [|[n|?] [|k1 [|[?|ps] [|k2 [|pre [|k3 [|eff [|? ?]]]]]]]]]]; try discriminate.
  intros H. repeat (apply andb_true_iff in H; destruct H as [H ?]).
  destruct h as [h|?], k1 as [k1|?], k2 as [k2|?], k3 as [k3|?]; try discriminate. cbn [is_atom_named] in *.
  repeat match goal with Hx : String.eqb _ _ = true |- _ => apply String.eqb_eq in Hx; subst end.
  exists n, ps, pre, eff. reflexivity.
Qed.

Section RangeDomain.
  Variable num : numparser.
  Variable dpre deff : nat.
  Hypothesis Hnum : forall d, d = dpre \/ d = deff -> forall s x, num s = Some x -> num_ok num d x = true.
  Hypothesis Hnum_cmp : forall c r x, num (String c r) = Some x -> str_in (String c EmptyString) comparison_ops = false.

  Definition types_struct (tt : typetable) : Prop :=
    NoDup (dkeys tt) /\
    forallb (fun kp => negb (String.eqb (fst kp) "object") && type_known tt (snd kp)) tt = true /\
    forallb (fun kp => reaches_object tt (fst kp)) tt = true.

  Definition header_inv (st : nat) (d : mdomain) : Prop :=
    types_struct (d_types d) /\ wf_consts (d_types d) (d_consts d) = true /\
    decls_inv (d_types d) (d_preds d) /\ decls_inv (d_types d) (d_funcs d) /\ d_actions d = [] /\
    (st <= 2 -> d_types d = []) /\ (st <= 3 -> d_consts d = []) /\ (st <= 4 -> d_preds d = []) /\ (st <= 5 -> d_funcs d = []).

  Lemma decls_inv_nil tt : decls_inv tt [].
  Proof. split; [constructor|reflexivity]. Qed.

  Lemma header_step st d h body d' k :
    header_inv st d -> parse_domain_section num d (SList (Atom h :: body)) = Ok d' ->
    head_stage h = Some k -> st <= k -> header_inv (S k) d'.
  Proof.
    intros (It & Ic & Ip & If & Ia & E2 & E3 & E4 & E5) H Hk Hle. unfold head_stage in Hk. unfold header_inv.
    destruct (String.eqb h "domain") eqn:E0.
    { apply String.eqb_eq in E0. subst h. injection Hk as <-. cbn [parse_domain_section String.eqb Ascii.eqb Bool.eqb andb] in H.
      destruct body as [|[n|?] ?]; try discriminate. injection H as <-.
      cbn [d_types d_consts d_preds d_funcs d_actions].
      refine (conj It (conj Ic (conj Ip (conj If (conj Ia (conj _ (conj _ (conj _ _)))))))); intros; [apply E2|apply E3|apply E4|apply E5]; lia. }
    destruct (String.eqb h ":requirements") eqn:E1.
    { apply String.eqb_eq in E1. subst h. injection Hk as <-. cbn [parse_domain_section String.eqb Ascii.eqb Bool.eqb andb] in H.
      apply bind_ok in H. destruct H as (rs & _ & H). injection H as <-.
      cbn [d_types d_consts d_preds d_funcs d_actions].
      refine (conj It (conj Ic (conj Ip (conj If (conj Ia (conj _ (conj _ (conj _ _)))))))); intros; [apply E2|apply E3|apply E4|apply E5]; lia. }
    destruct (String.eqb h ":types") eqn:Et.
    { apply String.eqb_eq in Et. subst h. injection Hk as <-. cbn [parse_domain_section String.eqb Ascii.eqb Bool.eqb andb] in H.
      apply bind_ok in H. destruct H as (tyt & Hty & H). injection H as <-.
      cbn [d_types d_consts d_preds d_funcs d_actions].
      rewrite (E3 ltac:(lia)), (E4 ltac:(lia)), (E5 ltac:(lia)).
      refine (conj (parse_types_wf body tyt Hty) (conj eq_refl (conj (decls_inv_nil _) (conj (decls_inv_nil _) (conj Ia (conj _ (conj _ (conj _ _)))))))); intros; try reflexivity; lia. }
    destruct (String.eqb h ":constants") eqn:Ecs.
    { apply String.eqb_eq in Ecs. subst h. injection Hk as <-. cbn [parse_domain_section String.eqb Ascii.eqb Bool.eqb andb] in H.
      apply bind_ok in H. destruct H as (cs & Hcs & H). injection H as <-.
      cbn [d_types d_consts d_preds d_funcs d_actions].
      refine (conj It (conj (parse_constants_wf _ body cs Hcs) (conj Ip (conj If (conj Ia (conj _ (conj _ (conj _ _)))))))); intros; try lia; [apply E4|apply E5]; lia. }
    destruct (String.eqb h ":predicates") eqn:Eps.
    { apply String.eqb_eq in Eps. subst h. injection Hk as <-. cbn [parse_domain_section String.eqb Ascii.eqb Bool.eqb andb] in H.
      apply bind_ok in H. destruct H as (ps & Hps & H). injection H as <-.
      cbn [d_types d_consts d_preds d_funcs d_actions].
      refine (conj It (conj Ic (conj (parse_predicates_wf (d_types d) body [] ps Hps (decls_inv_nil _)) (conj If (conj Ia (conj _ (conj _ (conj _ _)))))))); intros; try lia. apply E5; lia. }
    destruct (String.eqb h ":functions") eqn:Efs; [|discriminate].
    apply String.eqb_eq in Efs. subst h. injection Hk as <-. cbn [parse_domain_section String.eqb Ascii.eqb Bool.eqb andb] in H.
    apply bind_ok in H. destruct H as (fs & Hfs & H). injection H as <-.
    cbn [d_types d_consts d_preds d_funcs d_actions].
    refine (conj It (conj Ic (conj Ip (conj (functions_wf (d_types d) body [] fs Hfs (decls_inv_nil _)) (conj Ia (conj _ (conj _ (conj _ _)))))))); intros; lia.
  Qed.

  (* the actions, against fixed tables *)
  Definition actions_inv (d : mdomain) : Prop :=
    NoDup (dkeys (d_actions d)) /\
    forallb (fun na => String.eqb (fst na) (ma_name (snd na)) &&
                       wf_action num (type_known (d_types d)) (dmem (d_consts d)) (d_preds d) (d_funcs d) dpre deff (snd na))
            (d_actions d) = true.

  Definition same_tables (d d' : mdomain) : Prop :=
    d_types d' = d_types d /\ d_consts d' = d_consts d /\ d_preds d' = d_preds d /\ d_funcs d' = d_funcs d.

  Lemma actions_phase : forall acts d m,
    forallb action_shape acts = true -> forallb no_vac acts = true ->
    (forall k, str_in k ("=" :: comparison_ops ++ assignment_ops) = true -> dget (d_funcs d) k = None) ->
    foldM (parse_domain_section num) acts d = Ok m -> actions_inv d -> same_tables d m /\ actions_inv m.
  Proof.
    induction acts as [|e r IH]; intros d m Hshape Hnv Hfres H Hinv; cbn [foldM] in H.
    - injection H as <-. split; [repeat split|exact Hinv].
    - cbn [forallb] in Hshape, Hnv. apply andb_true_iff in Hshape. destruct Hshape as [Hs Hsr].
      apply andb_true_iff in Hnv. destruct Hnv as [Hn Hnr].
      destruct (action_shape_inv e Hs) as (n & ps & pre & eff & ->).
      apply bind_ok in H. destruct H as (d1 & H1 & H).
      cbn [parse_domain_section String.eqb Ascii.eqb Bool.eqb andb] in H1.
      apply bind_ok in H1. destruct H1 as (a & Ha & H1). injection H1 as <-.
      rewrite no_vac_slist in Hn. apply andb_true_iff in Hn. destruct Hn as [_ Hn]. cbn [forallb] in Hn.
      repeat (apply andb_true_iff in Hn; destruct Hn as [? Hn]).
      assert (Wa : wf_action num (type_known (d_types d)) (dmem (d_consts d)) (d_preds d) (d_funcs d) dpre deff a = true).
      { apply (parse_action_wf num (d_types d) (d_consts d) (d_preds d) (d_funcs d) dpre deff Hnum Hfres Hnum_cmp n ps pre eff a Ha); assumption. }
      destruct Hinv as [Hnd Hall].
      match type of H with foldM _ _ ?dd = _ => set (d1 := dd) in * end.
      assert (Hfres1 : forall k, str_in k ("=" :: comparison_ops ++ assignment_ops) = true -> dget (d_funcs d1) k = None) by exact Hfres.
      destruct (IH d1 m Hsr Hnr Hfres1 H) as [(T1 & T2 & T3 & T4) Hm].
      { unfold d1. split; cbn [d_types d_consts d_preds d_funcs d_actions]; [apply dset_nodup; exact Hnd|].
        apply (dset_forall (fun na : string * maction => String.eqb (fst na) (ma_name (snd na)) &&
                 wf_action num (type_known (d_types d)) (dmem (d_consts d)) (d_preds d) (d_funcs d) dpre deff (snd na))); [exact Hall|].
        cbn [fst snd]. rewrite String.eqb_refl, Wa. reflexivity. }
      unfold d1 in T1, T2, T3, T4. cbn [d_types d_consts d_preds d_funcs d_actions] in T1, T2, T3, T4.
      split; [repeat split; assumption|exact Hm].
  Qed.

  Lemma header_inv_done st d : header_inv st d -> header_inv 6 d.
  Proof.
    intros (I1 & I2 & I3 & I4 & I5 & _).
    refine (conj I1 (conj I2 (conj I3 (conj I4 (conj I5 (conj _ (conj _ (conj _ _)))))))); intros; lia.
  Qed.

  Lemma header_phase : forall sections st d m,
    canonical_from st sections = true -> forallb no_vac sections = true -> header_inv st d ->
    foldM (parse_domain_section num) sections d = Ok m ->
    exists d0 acts, header_inv 6 d0 /\ forallb action_shape acts = true /\ forallb no_vac acts = true /\
                    foldM (parse_domain_section num) acts d0 = Ok m.
  Proof.
    induction sections as [|e r IH]; intros st d m Hc Hnv Hinv H.
    - cbn [foldM] in H. injection H as <-. exists d, [].
      refine (conj (header_inv_done st d Hinv) (conj eq_refl (conj eq_refl eq_refl))).
    - cbn [canonical_from] in Hc. destruct (action_shape e) eqn:Es.
      + exists d, (e :: r). refine (conj (header_inv_done st d Hinv) (conj _ (conj Hnv H))).
        cbn [forallb]. rewrite Es, Hc. reflexivity.
      + destruct e as [s|[|[h|?] body]]; try discriminate.
        destruct (head_stage h) as [k|] eqn:Ek; [|discriminate].
        apply andb_true_iff in Hc. destruct Hc as [Hle Hc]. apply Nat.leb_le in Hle.
        cbn [foldM] in H. apply bind_ok in H. destruct H as (d1 & H1 & H).
        cbn [forallb] in Hnv. apply andb_true_iff in Hnv. destruct Hnv as [_ Hnr].
        apply (IH (S k) d1 m Hc Hnr (header_step st d h body d1 k Hinv H1 Ek Hle) H).
  Qed.

  (* the whole domain *)
  Theorem parse_domain_wf e m :
    canonical e = true -> no_vac e = true -> parse_domain num e = Ok m ->
    (* name hygiene of the result *)
    forallb (fun kp => not_dash (fst kp)) (d_types m) = true ->
    forallb (fun ns => negb (str_in (fst ns) reserved_names)) (d_preds m) = true ->
    (forall k, str_in k ("=" :: comparison_ops ++ assignment_ops) = true -> dget (d_funcs m) k = None) ->
    wf_mdomain num dpre deff m = true.
  Proof.
    intros Hcan Hnv H Hdash Hres Hfres. unfold canonical in Hcan.
    destruct e as [s|[|[dd|?] sections]]; try discriminate.
    apply andb_true_iff in Hcan. destruct Hcan as [Hd Hcan]. apply String.eqb_eq in Hd. subst dd.
    cbn [parse_domain] in H.
    rewrite no_vac_slist in Hnv. apply andb_true_iff in Hnv. destruct Hnv as [_ Hnv]. cbn [forallb] in Hnv.
    apply andb_true_iff in Hnv. destruct Hnv as [_ Hnv].
    assert (Hinit : header_inv 0 empty_domain).
    { unfold header_inv, empty_domain. cbn [d_types d_consts d_preds d_funcs d_actions].
      refine (conj (conj (NoDup_nil _) (conj eq_refl eq_refl)) (conj eq_refl (conj (decls_inv_nil _) (conj (decls_inv_nil _)
                (conj eq_refl (conj _ (conj _ (conj _ _)))))))); intros; reflexivity. }
    destruct (header_phase sections 0 empty_domain m Hcan Hnv Hinit H) as (d0 & acts & Hd0 & Hshape & Hnva & Hfold).
    destruct Hd0 as (It & Ic & Ip & If & Ia & _).
    assert (Hainv0 : actions_inv d0). { unfold actions_inv. rewrite Ia. split; [constructor|reflexivity]. }
    assert (Hsame0 : forall acts' d m', forallb action_shape acts' = true -> foldM (parse_domain_section num) acts' d = Ok m' ->
                       d_funcs m' = d_funcs d).
    { clear. induction acts' as [|e r IH]; intros d m' Hs Hf; cbn [foldM] in Hf; [injection Hf as <-; reflexivity|].
      cbn [forallb] in Hs. apply andb_true_iff in Hs. destruct Hs as [Hs Hr].
      destruct (action_shape_inv e Hs) as (n & ps & pre & eff & ->).
      apply bind_ok in Hf. destruct Hf as (d1 & H1 & Hf).
      cbn [parse_domain_section String.eqb Ascii.eqb Bool.eqb andb] in H1.
      apply bind_ok in H1. destruct H1 as (a & Ha & H1). injection H1 as <-.
      rewrite (IH _ m' Hr Hf). reflexivity. }
    assert (Hfres0 : forall k, str_in k ("=" :: comparison_ops ++ assignment_ops) = true -> dget (d_funcs d0) k = None).
    { intros k Hk. rewrite <- (Hsame0 acts d0 m Hshape Hfold). apply Hfres. exact Hk. }
    destruct (actions_phase acts d0 m Hshape Hnva Hfres0 Hfold Hainv0) as [(T1 & T2 & T3 & T4) [Hnd Hall]].
    rewrite <- T1 in It. rewrite <- T1, <- T2 in Ic. rewrite <- T1, <- T3 in Ip. rewrite <- T1, <- T4 in If.
    destruct It as (N1 & N2 & N3). destruct Ip as [P1 P2]. destruct If as [F1 F2].
    unfold wf_mdomain, wf_mdomain_gen.
    assert (Wt : wf_types (d_types m) = true).
    { unfold wf_types. rewrite (nodup_has_dup _ N1), N3. cbn [negb andb]. rewrite andb_true_r.
      apply forallb_forall. intros kp Hin.
      pose proof (forallb_In _ _ _ N2 Hin) as H2. pose proof (forallb_In _ _ _ Hdash Hin) as H3.
      apply andb_true_iff in H2. destruct H2 as [H21 H22]. rewrite H21, H22, H3. reflexivity. }
    assert (Wp : wf_preds (d_types m) (d_preds m) = true).
    { unfold wf_preds. rewrite (nodup_has_dup _ P1). cbn [negb andb].
      apply forallb_forall. intros ns Hin.
      rewrite (forallb_In _ _ _ Hres Hin), (forallb_In _ _ _ P2 Hin). reflexivity. }
    assert (Wf : wf_funcs (d_types m) (d_funcs m) = true).
    { unfold wf_funcs. rewrite (nodup_has_dup _ F1), F2. reflexivity. }
    rewrite Wt, Ic, Wp, Wf, (nodup_has_dup _ Hnd), Hall. reflexivity.
  Qed.
End RangeDomain.
