(* C04: proofs about the model of the trajectory exporter (Model/Plan.v). *)
From Coq Require Import List Ascii String Bool Arith Lia PrimFloat.
From Verif Require Import Base.Result Base.Str Base.Sexp Base.PyDict Model.Tokenizer Model.Types Model.Domain Model.Exec
  Model.Plan Spec.Pddl Spec.Plan Proofs.C04_Thread.
Import ListNotations.
Open Scope string_scope.
Open Scope list_scope.

(* ---------- Operator.apply = guard ; effects ---------- *)
(* what apply() does once the guard has let the call through (skip_validation = False) *)
Definition run_effects (d : mdomain) (eps : float) (ga : gaction) (objs : option objects) (order uorder : list nat)
           (prev : state) : result state :=
  do cur <- foldM (fun cur g => do h <- antecedents_hold d eps objs g prev;
                                if h then apply_group_m prev cur g else Ok cur)
                  (reorder (ga_groups ga) order) prev;
  apply_universal d eps ga objs uorder prev cur.

Lemma apply_op_guard d eps ga objs allow o u s b :
  is_applicable d eps objs ga s = Ok b ->
  apply_op d eps ga objs allow false o u s =
  if negb b && negb allow then Err EValue else run_effects d eps ga objs o u s.
Proof.
  intros H. unfold apply_op, run_effects. rewrite H. simpl.
  destruct (negb b && negb allow); reflexivity.
Qed.

Lemma apply_op_guard_error d eps ga objs allow o u s k :
  is_applicable d eps objs ga s = Err k -> apply_op d eps ga objs allow false o u s = Err k.
Proof. intros H. unfold apply_op. rewrite H. reflexivity. Qed.

Lemma apply_op_refuses d eps ga objs o u s :
  is_applicable d eps objs ga s = Ok false ->
  apply_op d eps ga objs false false o u s = Err EValue.
Proof. intros H. rewrite (apply_op_guard _ _ _ _ _ _ _ _ _ H). reflexivity. Qed.

Lemma apply_op_allow_irrelevant d eps ga objs o u s allow :
  is_applicable d eps objs ga s = Ok true ->
  apply_op d eps ga objs allow false o u s = apply_op d eps ga objs true false o u s.
Proof. intros H. rewrite !(apply_op_guard _ _ _ _ _ _ _ _ _ H). reflexivity. Qed.

Section Plan.
  Variable d : mdomain.
  Variable eps : float.
  Variable allow : bool.
  Variable objs : objects.
  Variable sch : schedule.

  Notation cst := (create_single_triplet d eps allow objs).

  (* the three ways a call ends, by the library's own applicability test *)
  Lemma apply_action_cases a args ga o s b :
    ground_action d a args = Ok ga ->
    is_applicable d eps (Some objs) ga s = Ok b ->
    apply_action d eps (Some objs) allow o a args s =
    if negb b && negb allow then Err EValue else run_effects d eps ga (Some objs) (fst o) (snd o) s.
  Proof. intros Hg Hb. unfold apply_action. rewrite Hg. simpl. apply apply_op_guard. exact Hb. Qed.

  (* ---------- one triplet ---------- *)
  Definition step_post (a : maction) (args : list string) (o : orders) (pre : state) : result state :=
    match apply_action d eps (Some objs) allow o a args pre with
    | Ok s => Ok s
    | Err EValue => Ok pre                                      (* refused: the state remains unchanged *)
    | Err k => Err k
    end.

  Lemma cst_spec ord prev line t :
    cst ord prev line = Ok t <->
    exists c a post,
      parse_action_call line = Ok c /\ dget (d_actions d) (ac_name c) = Some a /\
      step_post a (ac_args c) (ord a) (ms_st prev) = Ok post /\
      t = {| t_prev := prev; t_op := op_text (ma_name a) (ac_args c); t_next := {| ms_init := false; ms_st := post |} |}.
  Proof.
    unfold create_single_triplet, step_post. split.
    - intros H. destruct (parse_action_call line) as [c|k] eqn:Ec; simpl in H; [|discriminate].
      destruct (dget (d_actions d) (ac_name c)) as [a|] eqn:Ea; [|discriminate].
      exists c, a.
      destruct (apply_action d eps (Some objs) allow (ord a) a (ac_args c) (ms_st prev)) as [s|k] eqn:E.
      + exists s. inversion H; subst. repeat split; first [reflexivity | assumption].
      + destruct k; try discriminate. exists (ms_st prev). inversion H; subst. repeat split; first [reflexivity | assumption].
    - intros [c [a [post [Hc [Ha [Hp Ht]]]]]]. rewrite Hc. simpl. rewrite Ha.
      destruct (apply_action d eps (Some objs) allow (ord a) a (ac_args c) (ms_st prev)) as [s|k] eqn:E.
      + inversion Hp; subst. reflexivity.
      + destruct k; try discriminate. inversion Hp; subst. reflexivity.
  Qed.

  Lemma cst_prev ord prev line t : cst ord prev line = Ok t -> t_prev t = prev.
  Proof. intros H. apply cst_spec in H. destruct H as [c [a [post [_ [_ [_ Ht]]]]]]. subst t. reflexivity. Qed.

  (* ---------- malformed lines: what the code does ---------- *)
  Lemma cst_unknown_action ord prev line c :
    parse_action_call line = Ok c -> dget (d_actions d) (ac_name c) = None -> cst ord prev line = Err EKey.
  Proof. intros Hc Ha. unfold create_single_triplet. rewrite Hc. simpl. rewrite Ha. reflexivity. Qed.

  Lemma cst_no_call ord prev line :
    (List.length (action_tokens line) <= 2)%nat -> cst ord prev line = Err EIndex.
  Proof.
    intros H. unfold create_single_triplet, parse_action_call, slice_1_m1.
    destruct (action_tokens line) as [|x [|y [|z r]]]; simpl in *; try reflexivity. lia.
  Qed.

  (* surplus arguments are silently ignored by grounding (zip truncates): the step is the one of the call without
     them; only the printed operator keeps them *)
  Lemma combine_surplus {A B} (ks : list A) (args extra : list B) :
    (List.length ks <= List.length args)%nat -> combine ks (args ++ extra) = combine ks args.
  Proof.
    revert args. induction ks as [|k r IH]; intros args H; simpl; [reflexivity|].
    destruct args as [|x xs]; simpl in *; [lia|]. rewrite IH; [reflexivity | lia].
  Qed.

  Lemma ground_action_surplus a args extra :
    (List.length (ma_sig a) <= List.length args)%nat ->
    ground_action d a (args ++ extra) = ground_action d a args.
  Proof.
    intros H. unfold ground_action. rewrite combine_surplus; [reflexivity|]. unfold dkeys. rewrite map_length. exact H.
  Qed.

  Lemma apply_action_surplus o_allow a args extra o s :
    (List.length (ma_sig a) <= List.length args)%nat ->
    apply_action d eps (Some objs) o_allow o a (args ++ extra) s = apply_action d eps (Some objs) o_allow o a args s.
  Proof. intros H. unfold apply_action. rewrite ground_action_surplus by exact H. reflexivity. Qed.

  (* ---------- the whole plan ---------- *)
  Definition mk_triplet (i : nat) (prev : mstate) (line : string) : result triplet := cst (sch i) prev line.

  Lemma parse_plan_thread init lines :
    parse_plan d eps allow objs sch init lines =
    thread _ _ _ mk_triplet t_next 0 {| ms_init := true; ms_st := init |} lines.
  Proof.
    unfold parse_plan.
    change (plan_step d eps allow objs sch) with (tstep _ _ _ mk_triplet t_next).
    apply foldM_thread0.
  Qed.

  Lemma mk_triplet_prv i s l t : mk_triplet i s l = Ok t -> t_prev t = s.
  Proof. apply cst_prev. Qed.

  Theorem parse_plan_trajectory init lines ts :
    parse_plan d eps allow objs sch init lines = Ok ts ->
    List.length ts = List.length lines /\
    (forall t, hd_error ts = Some t -> t_prev t = {| ms_init := true; ms_st := init |}) /\
    (forall k t u, nth_error ts k = Some t -> nth_error ts (S k) = Some u -> t_prev u = t_next t) /\
    (forall k t, nth_error ts k = Some t ->
       exists line c a,
         nth_error lines k = Some line /\ parse_action_call line = Ok c /\
         dget (d_actions d) (ac_name c) = Some a /\
         t_op t = op_text (ma_name a) (ac_args c) /\ ms_init (t_next t) = false /\
         match apply_action d eps (Some objs) allow (sch k a) a (ac_args c) (ms_st (t_prev t)) with
         | Ok s' => ms_st (t_next t) = s'
         | Err EValue => ms_st (t_next t) = ms_st (t_prev t)
         | Err _ => False
         end).
  Proof.
    rewrite parse_plan_thread. intros H. apply thread_threaded in H.
    repeat split.
    - eapply threaded_length; eassumption.
    - intros t Ht. eapply (threaded_first _ _ _ mk_triplet t_next t_prev mk_triplet_prv); eassumption.
    - intros k t u Ht Hu. eapply (threaded_chain _ _ _ mk_triplet t_next t_prev mk_triplet_prv); eassumption.
    - intros k t Ht.
      destruct (threaded_step _ _ _ mk_triplet t_next t_prev mk_triplet_prv _ _ _ _ H k t Ht) as [line [Hl Hm]].
      simpl in Hm. unfold mk_triplet in Hm. apply cst_spec in Hm.
      destruct Hm as [c [a [post [Hc [Ha [Hp Ht']]]]]].
      exists line, c, a. rewrite Ht' at 1 2 3. simpl.
      repeat split; try assumption.
      unfold step_post in Hp. rewrite Ht'. simpl.
      destruct (apply_action d eps (Some objs) allow (sch k a) a (ac_args c) (ms_st (t_prev t))) as [s|e] eqn:E.
      + inversion Hp. reflexivity.
      + destruct e; try discriminate. inversion Hp. reflexivity.
  Qed.

  (* a line that fails (unknown action, blank line, KeyError inside grounding, ...) makes the whole plan fail with that
     error, whatever follows; the lines before it must have succeeded *)
  Theorem parse_plan_fails_at init l1 line l2 ts1 k :
    parse_plan d eps allow objs sch init l1 = Ok ts1 ->
    cst (sch (List.length l1)) (end_state _ _ t_next {| ms_init := true; ms_st := init |} ts1) line = Err k ->
    parse_plan d eps allow objs sch init (l1 ++ line :: l2) = Err k.
  Proof.
    rewrite !parse_plan_thread. intros H1 H2.
    apply (thread_fails_at _ _ _ mk_triplet t_next l1 line l2 0 _ ts1 k H1). exact H2.
  Qed.
End Plan.

(* ---------- export: one operator line and one state per triplet after the first state ---------- *)
Lemma interleave_shape {T X} (f g : T -> X) (l : list T) :
  List.length (flat_map (fun t => [f t; g t]) l) = 2 * List.length l /\
  forall k t, nth_error l k = Some t ->
    nth_error (flat_map (fun t => [f t; g t]) l) (2 * k) = Some (f t) /\
    nth_error (flat_map (fun t => [f t; g t]) l) (S (2 * k)) = Some (g t).
Proof.
  induction l as [|x xs [IH1 IH2]].
  - split; [reflexivity|]. intros k t Hk. destruct k; discriminate.
  - split.
    + change (flat_map (fun t => [f t; g t]) (x :: xs)) with (f x :: g x :: flat_map (fun t => [f t; g t]) xs).
      cbn [List.length]. rewrite IH1. lia.
    + intros k t Hk.
      change (flat_map (fun t => [f t; g t]) (x :: xs)) with (f x :: g x :: flat_map (fun t => [f t; g t]) xs).
      destruct k as [|k].
      * cbn [nth_error] in Hk. inversion Hk; subst. split; reflexivity.
      * cbn [nth_error] in Hk. destruct (IH2 k t Hk) as [A B].
        replace (2 * S k) with (S (S (2 * k))) by lia. cbn [nth_error]. split; [exact A | exact B].
Qed.

Lemma export_shape ts items :
  export ts = Ok items ->
  List.length items = S (2 * List.length ts) /\
  (forall t, hd_error ts = Some t -> hd_error items = Some (XState (t_prev t))) /\
  (forall k t, nth_error ts k = Some t ->
     nth_error items (S (2 * k)) = Some (XOp [t_op t]) /\ nth_error items (S (S (2 * k))) = Some (XState (t_next t))).
Proof.
  unfold export. destruct ts as [|t0 r]; [discriminate|]. intros H. inversion H; subst. clear H.
  destruct (interleave_shape (fun t => XOp [t_op t]) (fun t => XState (t_next t)) (t0 :: r)) as [L1 L2].
  repeat split.
  - cbn [List.length]. f_equal. exact L1.
  - intros t Ht. cbn [hd_error] in *. inversion Ht; subst. reflexivity.
  - destruct (L2 k t H) as [A _]. cbn [nth_error]. exact A.
  - destruct (L2 k t H) as [_ B]. cbn [nth_error]. exact B.
Qed.
