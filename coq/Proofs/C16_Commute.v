(* C16, spec level: non-interfering ground actions commute, hence every permutation of pairwise non-interfering members
   gives the same state (facts as a set, fluents as a finite map).
     1. what an action does depends only on what it reads          (all_groups_agree, applicable_agree)
     2. it changes only what it may write                           (groups_within_adds..sets, succ_frame_atom, succ_frame_fluent)
     3. two lists of firing groups with compatible writes commute   (succ_commute)
     4. => two non-interfering members commute                      (step_commute)
     5. => induction on the permutation                             (seq_apply_perm)                               *)
From Coq Require Import List String Bool PrimFloat Permutation Arith Lia.
From Verif Require Import Base.Str Spec.Pddl Spec.Joint Proofs.C16_Sets.
Import ListNotations.
Open Scope string_scope.
Open Scope list_scope.

(* ---------- small list facts ---------- *)
Lemma forallb_ext_in {A} (f g : A -> bool) l : (forall x, In x l -> f x = g x) -> forallb f l = forallb g l.
Proof.
  induction l as [|x xs IH]; intros H; simpl; [reflexivity|].
  rewrite (H x (or_introl eq_refl)), IH; [reflexivity|]. intros y Hy. apply H. right. exact Hy.
Qed.

Lemma existsb_ext_in {A} (f g : A -> bool) l : (forall x, In x l -> f x = g x) -> existsb f l = existsb g l.
Proof.
  induction l as [|x xs IH]; intros H; simpl; [reflexivity|].
  rewrite (H x (or_introl eq_refl)), IH; [reflexivity|]. intros y Hy. apply H. right. exact Hy.
Qed.

Lemma flat_map_ext_in {A B} (f g : A -> list B) l : (forall x, In x l -> f x = g x) -> flat_map f l = flat_map g l.
Proof.
  induction l as [|x xs IH]; intros H; simpl; [reflexivity|].
  rewrite (H x (or_introl eq_refl)), IH; [reflexivity|]. intros y Hy. apply H. right. exact Hy.
Qed.

Lemma map_ext_in' {A B} (f g : A -> B) l : (forall x, In x l -> f x = g x) -> map f l = map g l.
Proof.
  induction l as [|x xs IH]; intros H; simpl; [reflexivity|].
  rewrite (H x (or_introl eq_refl)), IH; [reflexivity|]. intros y Hy. apply H. right. exact Hy.
Qed.

Lemma disjoint_spec a b : disjoint a b = true <-> (forall x, In x a -> ~ In x b).
Proof.
  unfold disjoint. rewrite forallb_forall. split; intros H x Hx.
  - apply H in Hx. apply negb_true_iff in Hx. apply atom_in_false in Hx. exact Hx.
  - apply negb_true_iff. apply atom_in_false. apply H. exact Hx.
Qed.

Section Commute.
  Variable tt : tytree.
  Variable objs : objects.
  Variable eps : float.

  (* ================= 1. reading ================= *)
  Lemma neval_agree e s t n :
    (forall k, In k (nexp_fluents e n) -> fluent_get k (fluents s) = fluent_get k (fluents t)) ->
    neval e s n = neval e t n.
  Proof.
    induction n as [x|f args|o a IHa b IHb]; intros H; simpl.
    - reflexivity.
    - rewrite (H (f, map (subst e) args)); [reflexivity | left; reflexivity].
    - rewrite IHa, IHb; [reflexivity | |]; intros k Hk; apply H; simpl; apply in_or_app; auto.
  Qed.

  Lemma holds_agree s t f : forall e,
    (forall a, In a (form_atoms tt objs e f) -> atom_in a (facts s) = atom_in a (facts t)) ->
    (forall k, In k (form_fluents tt objs e f) -> fluent_get k (fluents s) = fluent_get k (fluents t)) ->
    holds eps tt objs e s f = holds eps tt objs e t f.
  Proof.
    induction f as [p a|p a|a b|a b|c l r|l IH|l IH|v ty b IH] using form_ind'; intros e Ha Hf; simpl.
    - apply Ha. left. reflexivity.
    - f_equal. apply Ha. left. reflexivity.
    - reflexivity.
    - reflexivity.
    - rewrite (neval_agree e s t l), (neval_agree e s t r); [reflexivity | |];
        intros k Hk; apply Hf; simpl; apply in_or_app; auto.
    - apply forallb_ext_in. intros x Hx. rewrite Forall_forall in IH. apply (IH x Hx).
      + intros a Hin. apply Ha. simpl. apply in_flat_map. exists x. split; assumption.
      + intros k Hin. apply Hf. simpl. apply in_flat_map. exists x. split; assumption.
    - apply existsb_ext_in. intros x Hx. rewrite Forall_forall in IH. apply (IH x Hx).
      + intros a Hin. apply Ha. simpl. apply in_flat_map. exists x. split; assumption.
      + intros k Hin. apply Hf. simpl. apply in_flat_map. exists x. split; assumption.
    - apply forallb_ext_in. intros o Ho. apply IH.
      + intros a Hin. apply Ha. simpl. apply in_flat_map. exists o. split; assumption.
      + intros k Hin. apply Hf. simpl. apply in_flat_map. exists o. split; assumption.
  Qed.

  Lemma ground_prim_agree e s t p :
    (forall k, In k (prim_rfluents e p) -> fluent_get k (fluents s) = fluent_get k (fluents t)) ->
    ground_prim e s p = ground_prim e t p.
  Proof.
    destruct p as [q args|q args|k f args rhs]; intros H; simpl; try reflexivity.
    destruct k; simpl in H.
    - rewrite (neval_agree e s t rhs); [reflexivity|]. intros k Hk. apply H. exact Hk.
    - rewrite (H (f, map (subst e) args)) by (left; reflexivity).
      rewrite (neval_agree e s t rhs); [reflexivity|]. intros k Hk. apply H. right. exact Hk.
    - rewrite (H (f, map (subst e) args)) by (left; reflexivity).
      rewrite (neval_agree e s t rhs); [reflexivity|]. intros k Hk. apply H. right. exact Hk.
  Qed.

  Definition agree_on (ra rf : list atom) (s t : state) : Prop :=
    (forall a, In a ra -> atom_in a (facts s) = atom_in a (facts t)) /\
    (forall k, In k rf -> fluent_get k (fluents s) = fluent_get k (fluents t)).

  (* agreement on what one instance (environment, condition, primitive effects) reads *)
  Definition inst_agree (s t : state) (i : env * option form * list prim) : Prop :=
    agree_on (inst_cond_atoms tt objs i) (inst_cond_fluents tt objs i ++ inst_over prim_rfluents i) s t.

  Lemma prims_agree e s t es :
    (forall k, In k (flat_map (prim_rfluents e) es) -> fluent_get k (fluents s) = fluent_get k (fluents t)) ->
    map (ground_prim e s) es = map (ground_prim e t) es.
  Proof.
    intros H. apply map_ext_in'. intros p Hp. apply ground_prim_agree. intros k Hk. apply H.
    apply in_flat_map. exists p. split; assumption.
  Qed.

  Lemma fires_agree e s t ef :
    (forall i, In i (eff_instances tt objs e ef) -> inst_agree s t i) ->
    fires eps tt objs e s ef = fires eps tt objs e t ef.
  Proof.
    destruct ef as [es|c es|v ty c es]; intros H; simpl.
    - destruct (H (e, None, es)) as [_ Hf]; [left; reflexivity|].
      rewrite (prims_agree e s t es); [reflexivity|]. intros k Hk. apply Hf. simpl. exact Hk.
    - destruct (H (e, Some c, es)) as [Ha Hf]; [left; reflexivity|]. simpl in Ha, Hf.
      rewrite (holds_agree s t c e Ha) by (intros k Hk; apply Hf; apply in_or_app; left; exact Hk).
      rewrite (prims_agree e s t es); [reflexivity|]. intros k Hk. apply Hf. apply in_or_app. right. exact Hk.
    - apply flat_map_ext_in. intros o Ho.
      destruct (H ((v, o) :: e, Some c, es)) as [Ha Hf].
      { simpl. apply in_map_iff. exists o. split; [reflexivity | exact Ho]. }
      simpl in Ha, Hf.
      rewrite (holds_agree s t c ((v, o) :: e) Ha) by (intros k Hk; apply Hf; apply in_or_app; left; exact Hk).
      rewrite (prims_agree ((v, o) :: e) s t es); [reflexivity|].
      intros k Hk. apply Hf. apply in_or_app. right. exact Hk.
  Qed.

  Definition reads_agree (m : member) (s t : state) : Prop :=
    agree_on (read_atoms tt objs m) (read_fluents tt objs m) s t.

  Lemma reads_agree_inst m s t i :
    reads_agree m s t -> In i (m_instances tt objs m) -> inst_agree s t i.
  Proof.
    intros [Ha Hf] Hi. split.
    - intros a Hin. apply Ha. unfold read_atoms. apply in_or_app. right. apply in_flat_map. exists i. split; assumption.
    - intros k Hin. apply Hf. unfold read_fluents. apply in_or_app. right. apply in_app_or in Hin.
      apply in_or_app. destruct Hin as [Hin|Hin]; [left|right]; apply in_flat_map; exists i; split; assumption.
  Qed.

  Lemma all_groups_agree m s t :
    reads_agree m s t ->
    all_groups eps tt objs (fst m) (snd m) s = all_groups eps tt objs (fst m) (snd m) t.
  Proof.
    intros H. unfold all_groups. apply flat_map_ext_in. intros ef Hef. apply fires_agree.
    intros i Hi. apply (reads_agree_inst m s t i H). unfold m_instances, m_env.
    apply in_flat_map. exists ef. split; assumption.
  Qed.

  Lemma applicable_agree m s t :
    reads_agree m s t -> m_applicable tt objs eps s m = m_applicable tt objs eps t m.
  Proof.
    intros [Ha Hf]. unfold m_applicable, applicable. apply holds_agree.
    - intros a Hin. apply Ha. unfold read_atoms, m_env. apply in_or_app. left. exact Hin.
    - intros k Hin. apply Hf. unfold read_fluents, m_env. apply in_or_app. left. exact Hin.
  Qed.

  Lemma st_equiv_reads_agree m s t : st_equiv s t -> reads_agree m s t.
  Proof. intros [H1 H2]. split; intros x _; [apply H1 | apply H2]. Qed.

  (* ================= 2. writing ================= *)
  Lemma adds_of_ground e s es : adds_of (map (ground_prim e s) es) = flat_map (prim_adds e) es.
  Proof.
    induction es as [|p r IH]; simpl; [reflexivity|]. unfold adds_of in *. simpl. rewrite IH.
    destruct p as [q a|q a|k f a rhs]; reflexivity.
  Qed.
  Lemma dels_of_ground e s es : dels_of (map (ground_prim e s) es) = flat_map (prim_dels e) es.
  Proof.
    induction es as [|p r IH]; simpl; [reflexivity|]. unfold dels_of in *. simpl. rewrite IH.
    destruct p as [q a|q a|k f a rhs]; reflexivity.
  Qed.
  Lemma sets_of_ground e s es : sets_of (map (ground_prim e s) es) = flat_map (prim_sets e) es.
  Proof.
    induction es as [|p r IH]; simpl; [reflexivity|]. unfold sets_of in *. simpl. rewrite IH.
    destruct p as [q a|q a|k f a rhs]; reflexivity.
  Qed.

  (* [proj] = adds_of / dels_of / sets_of, [pw] = the corresponding syntactic footprint of a primitive effect *)
  Lemma fires_within (proj : list gprim -> list atom) (pw : env -> prim -> list atom) :
    (forall e s es, proj (map (ground_prim e s) es) = flat_map (pw e) es) ->
    forall e s ef x, In x (flat_map proj (fires eps tt objs e s ef)) ->
                     In x (flat_map (inst_over (pw)) (eff_instances tt objs e ef)).
  Proof.
    intros Hproj e s ef x. destruct ef as [es|c es|v ty c es]; simpl.
    - rewrite app_nil_r, Hproj, app_nil_r. auto.
    - destruct (holds eps tt objs e s c); simpl; [|intros []]. rewrite app_nil_r, Hproj, app_nil_r. auto.
    - intros H. apply in_flat_map in H. destruct H as [g [Hg Hx]]. apply in_flat_map in Hg. destruct Hg as [o [Ho Hg]].
      destruct (holds eps tt objs ((v, o) :: e) s c); simpl in Hg; [|contradiction]. destruct Hg as [E|[]]. subst g.
      rewrite Hproj in Hx. apply in_flat_map. exists ((v, o) :: e, Some c, es). split; [|exact Hx].
      apply in_map_iff. exists o. split; [reflexivity | exact Ho].
  Qed.

  Lemma groups_within (proj : list gprim -> list atom) (pw : env -> prim -> list atom) :
    (forall e s es, proj (map (ground_prim e s) es) = flat_map (pw e) es) ->
    forall m s x, In x (flat_map proj (all_groups eps tt objs (fst m) (snd m) s)) ->
                  In x (flat_map (inst_over pw) (m_instances tt objs m)).
  Proof.
    intros Hproj m s x H. unfold all_groups in H.
    apply in_flat_map in H. destruct H as [g [Hg Hx]].
    apply in_flat_map in Hg. destruct Hg as [ef [Hef Hg]].
    assert (Hx' : In x (flat_map proj (fires eps tt objs (bind_args (fst m) (snd m)) s ef))).
    { apply in_flat_map. exists g. split; assumption. }
    apply (fires_within proj pw Hproj) in Hx'.
    apply in_flat_map in Hx'. destruct Hx' as [i [Hi Hxi]].
    apply in_flat_map. exists i. split; [|exact Hxi].
    unfold m_instances, m_env. apply in_flat_map. exists ef. split; assumption.
  Qed.

  Lemma groups_within_adds m s x :
    In x (flat_map adds_of (all_groups eps tt objs (fst m) (snd m) s)) -> In x (add_atoms tt objs m).
  Proof. apply (groups_within adds_of prim_adds adds_of_ground). Qed.
  Lemma groups_within_dels m s x :
    In x (flat_map dels_of (all_groups eps tt objs (fst m) (snd m) s)) -> In x (del_atoms tt objs m).
  Proof. apply (groups_within dels_of prim_dels dels_of_ground). Qed.
  Lemma groups_within_sets m s x :
    In x (flat_map sets_of (all_groups eps tt objs (fst m) (snd m) s)) -> In x (set_fluents tt objs m).
  Proof. apply (groups_within sets_of prim_sets sets_of_ground). Qed.

  (* ================= 3. the successor, pointwise ================= *)
  Definition atom_after (a : atom) (gs : list (list gprim)) (b : bool) : bool :=
    fold_left (fun b g => atom_in a (adds_of g) || (b && negb (atom_in a (dels_of g)))) gs b.
  Definition fluent_after (k : atom) (gs : list (list gprim)) (v : option float) : option float :=
    fold_left (fun v g => or_else (last_set k g) v) gs v.

  Lemma succ_atom a gs : forall s, atom_in a (facts (succ s gs)) = atom_after a gs (atom_in a (facts s)).
  Proof.
    unfold succ, atom_after. induction gs as [|g r IH]; intros s; simpl; [reflexivity|].
    rewrite IH, group_facts. reflexivity.
  Qed.
  Lemma succ_fluent k gs : forall s,
    fluent_get k (fluents (succ s gs)) = fluent_after k gs (fluent_get k (fluents s)).
  Proof.
    unfold succ, fluent_after. induction gs as [|g r IH]; intros s; simpl; [reflexivity|].
    rewrite IH, group_fluents. reflexivity.
  Qed.

  Lemma atom_after_untouched a gs : forall b,
    ~ In a (flat_map adds_of gs) -> ~ In a (flat_map dels_of gs) -> atom_after a gs b = b.
  Proof.
    unfold atom_after. induction gs as [|g r IH]; intros b Ha Hd; simpl; [reflexivity|].
    simpl in Ha, Hd. rewrite in_app_iff in Ha, Hd.
    assert (E1 : atom_in a (adds_of g) = false) by (apply atom_in_false; tauto).
    assert (E2 : atom_in a (dels_of g) = false) by (apply atom_in_false; tauto).
    rewrite E1, E2. simpl. rewrite andb_true_r. apply IH; tauto.
  Qed.

  Lemma atom_after_kept a gs : ~ In a (flat_map dels_of gs) -> atom_after a gs true = true.
  Proof.
    unfold atom_after. induction gs as [|g r IH]; intros Hd; simpl; [reflexivity|].
    simpl in Hd. rewrite in_app_iff in Hd.
    assert (E2 : atom_in a (dels_of g) = false) by (apply atom_in_false; tauto).
    rewrite E2. simpl. rewrite orb_true_r. apply IH. tauto.
  Qed.

  Lemma atom_after_added a gs : forall b,
    In a (flat_map adds_of gs) -> ~ In a (flat_map dels_of gs) -> atom_after a gs b = true.
  Proof.
    induction gs as [|g r IH]; intros b Ha Hd; simpl in *; [contradiction|].
    rewrite in_app_iff in Ha, Hd. unfold atom_after. simpl.
    destruct (atom_in a (adds_of g)) eqn:E1.
    - simpl. apply atom_after_kept. tauto.
    - apply atom_in_false in E1. apply IH; tauto.
  Qed.

  Lemma atom_after_absent a gs : ~ In a (flat_map adds_of gs) -> atom_after a gs false = false.
  Proof.
    unfold atom_after. induction gs as [|g r IH]; intros Ha; simpl; [reflexivity|].
    simpl in Ha. rewrite in_app_iff in Ha.
    assert (E1 : atom_in a (adds_of g) = false) by (apply atom_in_false; tauto).
    rewrite E1. simpl. apply IH. tauto.
  Qed.

  Lemma atom_after_deleted a gs : forall b,
    ~ In a (flat_map adds_of gs) -> In a (flat_map dels_of gs) -> atom_after a gs b = false.
  Proof.
    induction gs as [|g r IH]; intros b Ha Hd; simpl in *; [contradiction|].
    rewrite in_app_iff in Ha, Hd. unfold atom_after. simpl.
    assert (E1 : atom_in a (adds_of g) = false) by (apply atom_in_false; tauto).
    rewrite E1. simpl.
    destruct (atom_in a (dels_of g)) eqn:E2.
    - simpl. rewrite andb_false_r. apply atom_after_absent. tauto.
    - apply atom_in_false in E2. apply IH; tauto.
  Qed.

  Lemma fluent_after_untouched k gs : forall v, ~ In k (flat_map sets_of gs) -> fluent_after k gs v = v.
  Proof.
    unfold fluent_after. induction gs as [|g r IH]; intros v H; simpl; [reflexivity|].
    simpl in H. rewrite in_app_iff in H.
    assert (E : last_set k g = None) by (apply last_set_None; tauto).
    rewrite E. simpl. apply IH. tauto.
  Qed.

  Lemma succ_frame_atom a gs s :
    ~ In a (flat_map adds_of gs) -> ~ In a (flat_map dels_of gs) -> atom_in a (facts (succ s gs)) = atom_in a (facts s).
  Proof. intros H1 H2. rewrite succ_atom. apply atom_after_untouched; assumption. Qed.
  Lemma succ_frame_fluent k gs s :
    ~ In k (flat_map sets_of gs) -> fluent_get k (fluents (succ s gs)) = fluent_get k (fluents s).
  Proof. intros H. rewrite succ_fluent. apply fluent_after_untouched. exact H. Qed.

  Lemma succ_congr gs s t : st_equiv s t -> st_equiv (succ s gs) (succ t gs).
  Proof.
    intros [H1 H2]. split; intros x.
    - rewrite !succ_atom, H1. reflexivity.
    - rewrite !succ_fluent, H2. reflexivity.
  Qed.

  Lemma in_dec_atom (a : atom) l : In a l \/ ~ In a l.
  Proof. destruct (atom_in a l) eqn:E; [left; apply atom_in_In | right; apply atom_in_false]; exact E. Qed.

  (* two lists of firing groups whose writes are compatible commute *)
  Lemma succ_commute g1 g2 s :
    (forall a, In a (flat_map adds_of g1) -> ~ In a (flat_map dels_of g2)) ->
    (forall a, In a (flat_map adds_of g2) -> ~ In a (flat_map dels_of g1)) ->
    (forall k, In k (flat_map sets_of g1) -> ~ In k (flat_map sets_of g2)) ->
    st_equiv (succ (succ s g1) g2) (succ (succ s g2) g1).
  Proof.
    intros C1 C2 C3. split; intros x.
    - rewrite !succ_atom.
      destruct (in_dec_atom x (flat_map adds_of g1)) as [A1|A1].
      + pose proof (C1 x A1) as D2.
        destruct (in_dec_atom x (flat_map adds_of g2)) as [A2|A2].
        * pose proof (C2 x A2) as D1.
          rewrite (atom_after_added x g2 _ A2 D2), (atom_after_added x g1 _ A1 D1). reflexivity.
        * rewrite (atom_after_untouched x g2 _ A2 D2). rewrite (atom_after_untouched x g2 _ A2 D2). reflexivity.
      + destruct (in_dec_atom x (flat_map dels_of g1)) as [D1|D1].
        * assert (A2 : ~ In x (flat_map adds_of g2)) by (intros A2; exact (C2 x A2 D1)).
          destruct (in_dec_atom x (flat_map dels_of g2)) as [D2|D2].
          -- rewrite (atom_after_deleted x g2 _ A2 D2), (atom_after_deleted x g1 _ A1 D1). reflexivity.
          -- rewrite (atom_after_untouched x g2 _ A2 D2). rewrite (atom_after_untouched x g2 _ A2 D2). reflexivity.
        * rewrite (atom_after_untouched x g1 _ A1 D1). rewrite (atom_after_untouched x g1 _ A1 D1). reflexivity.
    - rewrite !succ_fluent.
      destruct (in_dec_atom x (flat_map sets_of g1)) as [S1|S1].
      + pose proof (C3 x S1) as S2.
        rewrite (fluent_after_untouched x g2 _ S2). rewrite (fluent_after_untouched x g2 _ S2). reflexivity.
      + rewrite (fluent_after_untouched x g1 _ S1). rewrite (fluent_after_untouched x g1 _ S1). reflexivity.
  Qed.

  (* ================= 4. two members ================= *)
  Notation step := (m_step tt objs eps).

  Lemma undisturbed_spec a b :
    undisturbed_by tt objs a b = true ->
    (forall x, In x (add_atoms tt objs a) \/ In x (del_atoms tt objs a) -> ~ In x (read_atoms tt objs b)) /\
    (forall x, In x (add_atoms tt objs a) -> ~ In x (del_atoms tt objs b)) /\
    (forall k, In k (set_fluents tt objs a) -> ~ In k (read_fluents tt objs b) /\ ~ In k (set_fluents tt objs b)).
  Proof.
    unfold undisturbed_by. rewrite !andb_true_iff, !disjoint_spec. intros [[H1 H2] H3]. repeat split.
    - intros x Hx. apply H1. apply in_or_app. exact Hx.
    - exact H2.
    - intros Hk. apply (H3 k H). apply in_or_app. left. exact Hk.
    - intros Hk. apply (H3 k H). apply in_or_app. right. exact Hk.
  Qed.

  (* after [a], [b] reads what it read before *)
  Lemma step_reads_agree a b s :
    undisturbed_by tt objs a b = true -> reads_agree b (step s a) s.
  Proof.
    intros H. apply undisturbed_spec in H. destruct H as [H1 [_ H3]]. unfold m_step, successor. split.
    - intros x Hx. apply succ_frame_atom; intros Hin.
      + apply groups_within_adds in Hin. apply (H1 x (or_introl Hin) Hx).
      + apply groups_within_dels in Hin. apply (H1 x (or_intror Hin) Hx).
    - intros k Hk. apply succ_frame_fluent. intros Hin. apply groups_within_sets in Hin.
      destruct (H3 k Hin) as [Hr _]. exact (Hr Hk).
  Qed.

  Lemma step_congr m s t : st_equiv s t -> st_equiv (step s m) (step t m).
  Proof.
    intros H. unfold m_step, successor. rewrite (all_groups_agree m s t (st_equiv_reads_agree m s t H)).
    apply succ_congr. exact H.
  Qed.

  Lemma applicable_congr m s t : st_equiv s t -> m_applicable tt objs eps s m = m_applicable tt objs eps t m.
  Proof. intros H. apply applicable_agree. apply st_equiv_reads_agree. exact H. Qed.

  Lemma non_interfering_sym a b : non_interfering tt objs a b = non_interfering tt objs b a.
  Proof. unfold non_interfering. apply andb_comm. Qed.

  Theorem step_commute a b s :
    non_interfering tt objs a b = true -> st_equiv (step (step s a) b) (step (step s b) a).
  Proof.
    unfold non_interfering. rewrite andb_true_iff. intros [Hab Hba].
    pose proof (step_reads_agree a b s Hab) as Rb. pose proof (step_reads_agree b a s Hba) as Ra.
    unfold m_step, successor in *.
    rewrite (all_groups_agree b _ _ Rb), (all_groups_agree a _ _ Ra).
    apply undisturbed_spec in Hab. apply undisturbed_spec in Hba.
    destruct Hab as [_ [Hab2 Hab3]]. destruct Hba as [_ [Hba2 Hba3]].
    apply succ_commute.
    - intros x Hx Hd. apply groups_within_adds in Hx. apply groups_within_dels in Hd. exact (Hab2 x Hx Hd).
    - intros x Hx Hd. apply groups_within_adds in Hx. apply groups_within_dels in Hd. exact (Hba2 x Hx Hd).
    - intros k Hk Hk'. apply groups_within_sets in Hk. apply groups_within_sets in Hk'.
      destruct (Hab3 k Hk) as [_ Hn]. exact (Hn Hk').
  Qed.

  (* a member stays applicable (or inapplicable) whatever non-interfering member is applied before it *)
  Lemma applicable_after a b s :
    undisturbed_by tt objs a b = true -> m_applicable tt objs eps (step s a) b = m_applicable tt objs eps s b.
  Proof. intros H. apply applicable_agree. apply step_reads_agree. exact H. Qed.

  (* ================= 5. permutations ================= *)
  Notation seq := (seq_apply tt objs eps).
  Definition NI (a b : member) : Prop := non_interfering tt objs a b = true.

  Lemma pairwise_FOP ms : pairwise_non_interfering tt objs ms = true <-> ForallOrdPairs NI ms.
  Proof.
    induction ms as [|m r IH]; simpl.
    - split; intros _; [constructor | reflexivity].
    - rewrite andb_true_iff, forallb_forall. split.
      + intros [H1 H2]. constructor; [apply Forall_forall; exact H1 | apply IH; exact H2].
      + intros H. inversion H as [|x l HF HP]; subst. split; [rewrite Forall_forall in HF; exact HF | apply IH; exact HP].
  Qed.

  Lemma NI_sym a b : NI a b -> NI b a.
  Proof. unfold NI. rewrite non_interfering_sym. auto. Qed.

  Lemma seq_congr ms : forall s t, st_equiv s t -> st_equiv (seq s ms) (seq t ms).
  Proof.
    unfold seq_apply. induction ms as [|m r IH]; intros s t H; simpl; [exact H|].
    apply IH. apply step_congr. exact H.
  Qed.

  Theorem seq_apply_perm_gen ms ms' :
    Permutation ms ms' -> ForallOrdPairs NI ms ->
    forall s t, st_equiv s t -> st_equiv (seq s ms) (seq t ms').
  Proof.
    intros HP. induction HP as [|x l l' HP IH|x y l|l l' l'' HP1 IH1 HP2 IH2]; intros HF s t Hst.
    - exact Hst.
    - inversion HF as [|a b _ HO]; subst. unfold seq_apply. simpl. apply (IH HO). apply step_congr. exact Hst.
    - inversion HF as [|a b Hy HO]; subst. inversion Hy as [|a' b' Hyx _]; subst.
      unfold seq_apply. simpl. apply seq_congr.
      eapply st_equiv_trans; [apply step_commute; exact Hyx|].
      apply step_congr. apply step_congr. exact Hst.
    - eapply st_equiv_trans; [apply (IH1 HF s s (st_equiv_refl s))|].
      apply IH2; [|exact Hst]. apply (FOP_perm _ NI NI_sym l l' HP1 HF).
  Qed.

  Theorem seq_apply_perm ms ms' s :
    pairwise_non_interfering tt objs ms = true -> Permutation ms ms' -> st_equiv (seq s ms) (seq s ms').
  Proof.
    intros H HP. apply (seq_apply_perm_gen ms ms' HP); [apply pairwise_FOP; exact H | apply st_equiv_refl].
  Qed.

  (* every member that was applicable in [s] is still applicable when its turn comes, in any order *)
  Lemma applicable_through ms : forall s m,
    Forall (fun a => undisturbed_by tt objs a m = true) ms ->
    m_applicable tt objs eps (seq s ms) m = m_applicable tt objs eps s m.
  Proof.
    unfold seq_apply. induction ms as [|a r IH]; intros s m HF; simpl; [reflexivity|].
    inversion HF as [|x l Ha Hr]; subst. rewrite (IH _ _ Hr). apply applicable_after. exact Ha.
  Qed.
End Commute.
