(* C20: the two models of Operator.ground() agree.  Model/GroundTyped.v (what the operator reports, typed) refines
   Model/Exec.v (the grounded action C02/C03 evaluate): whenever the report exists the grounding exists, and the
   grounded literals of the report, with their types dropped, are exactly the literals of Exec's grounded condition,
   in the same order; the literals a quantified condition contributes are all lifted ones. *)
From Coq Require Import List Ascii String Bool Arith PrimFloat.
From Verif Require Import Base.Result Base.Str Base.PyDict Model.Types Model.Domain Model.Exec Model.GroundTyped
  Spec.Pddl Proofs.C20_Defs Proofs.C20_Subst Proofs.C20_Flat Proofs.C20_Report.
Import ListNotations.
Open Scope string_scope.
Open Scope list_scope.

Definition rlit_untyped (l : rlit) : bool * atom := (rl_pos l, (rl_name l, rl_args l)).
Definition grounded_lits (items : list ritem) : list rlit := filter rl_grounded (items_lits items).

Lemma grounded_lits_app a b : grounded_lits (a ++ b) = grounded_lits a ++ grounded_lits b.
Proof. unfold grounded_lits. rewrite items_lits_app. apply filter_app. Qed.

Section Consistent.
  Variable dom : mdomain.

  Lemma report_tree_ground (pm : pmap) (t : mtree) g : report_tree dom pm t = Ok g -> exists g', ground_tree dom pm t = Ok g'.
  Proof.
    revert g. induction t as [x|f args|op l IHl r IHr]; intros g H; simpl in H |- *.
    - eauto.
    - apply bind_ok_inv in H. destruct H as [os [Hos _]]. rewrite Hos. simpl. eauto.
    - apply bind_ok_inv in H. destruct H as [gl [Hgl H]]. apply bind_ok_inv in H. destruct H as [gr [Hgr _]].
      destruct (IHl _ Hgl) as [gl' ->]. destruct (IHr _ Hgr) as [gr' ->]. simpl. eauto.
  Qed.

  Definition PGc (p : mpre) : Prop :=
    forall sg pm items eqs, report_pre dom sg pm p = Ok (items, eqs) ->
      exists g, ground_pre dom pm p = Ok g /\ map rlit_untyped (grounded_lits items) = gpre_lits g.
  Definition QGc (c : mcond) : Prop :=
    forall sg pm items eqs, report_cond dom sg pm c = Ok (items, eqs) ->
      exists g, ground_cond dom pm c = Ok g /\ map rlit_untyped (grounded_lits items) = gcond_lits g.
  Definition PLc (p : mpre) : Prop :=
    forall sg items, lifted_items dom sg p = Ok items -> grounded_lits items = [].
  Definition QLc (c : mcond) : Prop :=
    forall sg items, lifted_cond_items dom sg c = Ok items -> grounded_lits items = [].

  Lemma Qc_lit pos p args : QGc (MLit pos p args) /\ QLc (MLit pos p args).
  Proof.
    split.
    - intros sg pm items eqs H.
      change (report_cond dom sg pm (MLit pos p args)) with
        (do l <- report_lit dom sg pm pos p args; Ok ([RL l], @nil eqpair)) in H.
      apply bind_ok_inv in H. destruct H as [l [Hl H]]. injection H as <- <-.
      unfold report_lit in Hl. apply bind_ok_inv in Hl. destruct Hl as [a [Ha Hl]].
      apply bind_ok_inv in Hl. destruct Hl as [tys [_ Hl]]. injection Hl as <-.
      rewrite ground_cond_lit, Ha. simpl. exists (GLit pos a). split; [reflexivity|].
      unfold grounded_lits, rlit_untyped. simpl. rewrite (ground_lit_ok dom pm p args a Ha). reflexivity.
    - intros sg items H.
      change (lifted_cond_items dom sg (MLit pos p args)) with (do l <- lifted_lit dom sg pos p args; Ok [RL l]) in H.
      apply bind_ok_inv in H. destruct H as [l [Hl H]]. injection H as <-.
      unfold lifted_lit in Hl. apply bind_ok_inv in Hl. destruct Hl as [tys [_ Hl]]. injection Hl as <-. reflexivity.
  Qed.

  Lemma Qc_num t : QGc (MNum t) /\ QLc (MNum t).
  Proof.
    split.
    - intros sg pm items eqs H.
      change (report_cond dom sg pm (MNum t)) with (do g <- report_tree dom pm t; Ok ([RN g], @nil eqpair)) in H.
      apply bind_ok_inv in H. destruct H as [g [Hg H]]. injection H as <- <-.
      destruct (report_tree_ground pm t g Hg) as [g' Hg']. rewrite ground_cond_num, Hg'. simpl.
      exists (GNum g'). split; reflexivity.
    - intros sg items H. change (lifted_cond_items dom sg (MNum t)) with (Ok [RN (lifted_tree t)]) in H.
      injection H as <-. reflexivity.
  Qed.

  Lemma Qc_nested q : PGc q /\ PLc q -> QGc (MNested q) /\ QLc (MNested q).
  Proof.
    intros [IHg IHl]. split.
    - intros sg pm items eqs H. change (report_cond dom sg pm (MNested q)) with (report_pre dom sg pm q) in H.
      destruct (IHg sg pm items eqs H) as [g [Hg Hl]]. rewrite ground_cond_nested, Hg. simpl.
      exists (GNested g). split; [reflexivity|exact Hl].
    - intros sg items H. change (lifted_cond_items dom sg (MNested q)) with (lifted_items dom sg q) in H.
      exact (IHl sg items H).
  Qed.

  Lemma Qc_univ v ty body : PGc body /\ PLc body -> QGc (MUniv v ty body) /\ QLc (MUniv v ty body).
  Proof.
    intros [_ IHl]. split.
    - intros sg pm items eqs H.
      change (report_cond dom sg pm (MUniv v ty body)) with
        (do its <- lifted_items dom (dset sg v ty) body; Ok (its, @nil eqpair)) in H.
      apply bind_ok_inv in H. destruct H as [its [Hits H]]. injection H as <- <-.
      rewrite ground_cond_univ. exists (GUniv v ty body pm). split; [reflexivity|].
      rewrite (IHl _ _ Hits). reflexivity.
    - intros sg items H.
      change (lifted_cond_items dom sg (MUniv v ty body)) with (lifted_items dom (dset sg v ty) body) in H.
      exact (IHl _ _ H).
  Qed.

  Lemma Pc_pre op os eqs neqs :
    Forall (fun c => QGc c /\ QLc c) os -> PGc (MPre op os eqs neqs) /\ PLc (MPre op os eqs neqs).
  Proof.
    intros Hos. split.
    - intros sg pm items es H. rewrite report_pre_eq in H.
      apply bind_ok_inv in H. destruct H as [geqs [Hge H]].
      apply bind_ok_inv in H. destruct H as [gneqs [Hgn H]].
      apply bind_ok_inv in H. destruct H as [rest [Hrest H]]. injection H as <- _.
      rewrite ground_pre_eq, Hge, Hgn. simpl.
      assert (Hall : exists gos, ground_conds dom pm os = Ok gos /\
                                 map rlit_untyped (grounded_lits (fst rest)) = gconds_lits gos).
      { clear Hge Hgn. revert rest Hrest. induction Hos as [|c r [Hq _] Hr IH]; intros rest Hrest.
        - injection Hrest as <-. exists []. split; reflexivity.
        - rewrite report_conds_cons in Hrest.
          apply bind_ok_inv in Hrest. destruct Hrest as [[xi xe] [Hx Hrest]].
          apply bind_ok_inv in Hrest. destruct Hrest as [[yi ye] [Hy Hrest]]. injection Hrest as <-.
          destruct (Hq sg pm xi xe Hx) as [gc [Hgc Hlc]].
          destruct (IH (yi, ye) Hy) as [gr [Hgr Hlr]]. simpl in Hlr.
          exists (gc :: gr). rewrite ground_conds_cons, Hgc, Hgr. simpl. split; [reflexivity|].
          rewrite grounded_lits_app, map_app, Hlc, Hlr. reflexivity. }
      destruct Hall as [gos [Hgos Hl]]. rewrite Hgos. simpl.
      exists (GPre op gos geqs gneqs). split; [reflexivity|]. rewrite gpre_lits_eq. exact Hl.
    - intros sg items H. rewrite lifted_items_eq in H.
      revert items H. induction Hos as [|c r [_ Hq] Hr IH]; intros items H.
      + injection H as <-. reflexivity.
      + rewrite lifted_conds_cons in H.
        apply bind_ok_inv in H. destruct H as [xi [Hx H]].
        apply bind_ok_inv in H. destruct H as [yi [Hy H]]. injection H as <-.
        rewrite grounded_lits_app, (Hq sg xi Hx), (IH yi Hy). reflexivity.
  Qed.

  Theorem report_refines_ground (p : mpre) : PGc p.
  Proof.
    exact (proj1 (mpre_ind' (fun p => PGc p /\ PLc p) (fun c => QGc c /\ QLc c) Pc_pre Qc_lit Qc_num Qc_nested Qc_univ p)).
  Qed.
End Consistent.
