(* C05: one item of :init / of the goal conjunction.  The model's parse_state_component / parse_goal_item
   (repaired configuration) accept an item exactly when the spec's checks pass, and then store exactly what the
   step functions below say. *)
From Coq Require Import List Ascii String Bool Arith Lia PrimFloat.
From Verif Require Import Base.Result Base.Str Base.Sexp Base.PyDict
  Model.Types Model.Domain Model.NumExpr Model.Problem Model.ProblemObs
  Spec.Pddl Spec.Grammar Spec.Problem Proofs.C05_Lemmas.
Import ListNotations.
Open Scope string_scope.
Open Scope list_scope.

(* invariants of a parsed domain (dict keys are distinct; no function is named like an operator or keyword) *)
Definition dom_ok (dom : mdomain) : Prop :=
  NoDup (dkeys (d_consts dom)) /\ (forall f, In f (dkeys (d_funcs dom)) -> str_in f keywords = false).

(* float() takes no operator for a numeral *)
Definition num_ok (num : string -> option float) : Prop :=
  forall s, str_in s LEGAL_NUMERICAL_EXPRESSIONS = true -> num s = None.

Lemma forall2b_true {A B} (f : A -> B -> bool) a : forall b, (forall x y, f x y = true) -> forall2b f a b = true.
Proof. induction a as [|x xs IH]; intros [|y ys] H; simpl; try reflexivity. rewrite H, IH by exact H. reflexivity. Qed.

Lemma dvalues_combine (ks : list string) : forall (vs : list string), List.length vs = List.length ks ->
  dvalues (combine ks vs) = vs.
Proof.
  unfold dvalues. induction ks as [|k ks IH]; intros [|v vs] H; simpl in *; try discriminate; [reflexivity|].
  f_equal. apply IH. lia.
Qed.

Ltac raises k := cbn; unfold res_rel; exists k; reflexivity.

Section Items.
  Variable num : string -> option float.
  Variable dom : mdomain.
  Hypothesis Hdom : dom_ok dom.
  Hypothesis Hnum : num_ok num.

  Local Notation v := (vocab_of dom).

  Definition ty_of (objs : pydict string) (a : string) : string :=
    match dget (possible dom objs) a with Some t => t | None => "object" end.

  Lemma dget_possible objs a : dget (possible dom objs) a = type_of v objs a.
  Proof.
    unfold possible, type_of. destruct Hdom as [Hc _]. rewrite dget_dupdate by exact Hc.
    simpl. rewrite dget_lookup. reflexivity.
  Qed.

  (* the spec's check of an argument list = the model's three checks (arity, declared, types) *)
  Lemma args_ok_model objs : forall args (sg : list (string * string)),
    List.length args = List.length sg ->
    args_ok v objs args sg =
    forallb (dmem (possible dom objs)) args &&
    forall2b (fun a lt => is_sub_type (ptt dom) (ty_of objs a) lt) args (dvalues sg).
  Proof.
    induction args as [|a ar IH]; intros [|p pr] Hlen; simpl in *; try discriminate; [reflexivity|].
    unfold dmem at 1, ty_of at 1. rewrite dget_possible.
    destruct (type_of v objs a) as [t|]; [|reflexivity].
    rewrite IH by lia. rewrite is_sub_type_subtypeb. unfold ptt. simpl.
    rewrite !andb_assoc. f_equal. apply andb_comm.
  Qed.

  Lemma args_ok_length objs : forall args (sg : list (string * string)),
    args_ok v objs args sg = true -> List.length args = List.length sg.
  Proof.
    induction args as [|a ar IH]; intros [|p pr]; simpl; try discriminate; [reflexivity|].
    destruct (type_of v objs a); [|discriminate]. rewrite andb_true_iff. intros [_ H]. f_equal. apply IH. exact H.
  Qed.

  (* ---------- parse_grounded_predicate ---------- *)
  Lemma parse_gpred_spec objs args (sg : signature) :
    res_rel (parse_gpred dom objs (map Atom args) sg) (if args_ok v objs args sg then Some args else None).
  Proof.
    unfold parse_gpred. rewrite map_length.
    destruct (Nat.eqb (List.length args) (List.length sg)) eqn:El; cbn [negb].
    - apply Nat.eqb_eq in El. rewrite atoms_of_map. cbn [bind].
      rewrite (args_ok_model objs args sg El).
      destruct (forallb (dmem (possible dom objs)) args); cbn [negb andb]; [|raises EKey].
      fold (ty_of objs).
      destruct (forall2b (fun a lt => is_sub_type (ptt dom) (ty_of objs a) lt) args (dvalues sg)) eqn:E2.
      + unfold ty_of in E2. rewrite E2. cbn [negb]. unfold res_rel. f_equal. apply dvalues_combine.
        unfold dkeys. rewrite map_length. exact El.
      + unfold ty_of in E2. rewrite E2. exists EAssert. reflexivity.
    - destruct (args_ok v objs args sg) eqn:Eo.
      + apply args_ok_length in Eo. apply Nat.eqb_neq in El. contradiction.
      + exists EValue. reflexivity.
  Qed.

  (* ---------- parse_grounded_numeric_fluent ---------- *)
  Definition mk_fluent (objs : pydict string) (f : string) (args : list string) (x : float) : mfluent :=
    {| fl_name := f;
       fl_sig := fold_left (fun acc a => dset acc a (ty_of objs a)) args [];
       fl_rep := repeating args;
       fl_val := x |}.

  Definition with_val (fl : mfluent) (x : float) : mfluent :=
    {| fl_name := fl_name fl; fl_sig := fl_sig fl; fl_rep := fl_rep fl; fl_val := x |}.

  Lemma parse_gfluent_spec objs f args :
    res_rel (parse_gfluent cfg_fixed dom objs (SList (Atom f :: map Atom args)))
            (if atom_ok v (v_funcs v) objs (f, args) then Some (mk_fluent objs f args 0%float) else None).
  Proof.
    unfold parse_gfluent, atom_ok. cbn [head_args bind fst snd]. simpl v_funcs. rewrite <- dget_lookup.
    unfold signature, pydict, name in *.
    match goal with |- context [@dget ?V ?d f] => destruct (@dget V d f) as [sg|] end; [|raises EAssert].
    rewrite atoms_of_map. cbn [bind].
    destruct (Nat.eqb (List.length args) (List.length sg)) eqn:El; cbn [negb].
    - apply Nat.eqb_eq in El. rewrite (args_ok_model objs args sg El).
      destruct (forallb (dmem (possible dom objs)) args); cbn [negb andb]; [|raises EKey].
      cbn [fix_positional cfg_fixed]. fold (ty_of objs).
      destruct (forall2b (fun a lt => is_sub_type (ptt dom) (ty_of objs a) lt) args (dvalues sg)) eqn:E2.
      + unfold ty_of in E2. rewrite E2. reflexivity.
      + unfold ty_of in E2. rewrite E2. exists EAssert. reflexivity.
    - destruct (args_ok v objs args sg) eqn:Eo.
      + apply args_ok_length in Eo. apply Nat.eqb_neq in El. contradiction.
      + exists EValue. reflexivity.
  Qed.

  (* ---------- parse_state_component ---------- *)
  Definition step_init (pb : mproblem) (it : atom + (atom * string)) : option mproblem :=
    match it with
    | inl (p, args) =>
        if atom_ok v (v_preds v) (pb_objects pb) (p, args)
        then Some (with_facts pb (add_fact (pb_facts pb) p args)) else None
    | inr ((f, args), tok) =>
        match num tok with
        | Some x =>
            if atom_ok v (v_funcs v) (pb_objects pb) (f, args)
            then let fl := mk_fluent (pb_objects pb) f args x in
                 Some (with_fluents pb (kset (pb_fluents pb) (f, dkeys (fl_sig fl)) fl))
            else None
        | None => None
        end
    end.

  Lemma parse_state_component_spec pb e it :
    read_init_item e = Some it ->
    res_rel (parse_state_component cfg_fixed num dom pb e) (step_init pb it).
  Proof.
    unfold read_init_item. destruct e as [s|[|[h|] rest]]; try discriminate.
    destruct (String.eqb h "=") eqn:Eh.
    - (* a fluent *)
      destruct rest as [|[|[|[f|] fargs]] [|[tok|] [|]]]; try discriminate.
      destruct (atom_names fargs) as [args|] eqn:Ea; [|discriminate].
      intros H. injection H as <-. apply atom_names_map in Ea. subst fargs.
      unfold parse_state_component. cbn [head_args bind]. rewrite Eh. cbn [sx_len List.length Nat.eqb negb].
      cbn [step_init]. destruct (num tok) as [x|]; [|raises EValue].
      pose proof (parse_gfluent_spec (pb_objects pb) f args) as Hf.
      unfold name in *.
      match goal with |- res_rel _ (if ?c then _ else _) => destruct c eqn:Eok end; try rewrite Eok in Hf.
      + simpl in Hf. rewrite Hf. unfold res_rel. reflexivity.
      + destruct Hf as [k Hf]. rewrite Hf. exists k. reflexivity.
    - (* a fact *)
      destruct (atom_names rest) as [args|] eqn:Ea; [|discriminate].
      intros H. injection H as <-. apply atom_names_map in Ea. subst rest.
      unfold parse_state_component. cbn [head_args bind]. rewrite Eh.
      cbn [step_init]. unfold atom_ok. cbn [fst snd]. simpl v_preds. rewrite <- dget_lookup.
      unfold signature, pydict, name in *.
      match goal with |- context [@dget ?V ?d h] => destruct (@dget V d h) as [sg|] end; [|raises EValue].
      pose proof (parse_gpred_spec (pb_objects pb) args sg) as Hp.
      unfold name in *.
      match goal with |- res_rel _ (if ?c then _ else _) => destruct c eqn:Eok end; try rewrite Eok in Hp.
      + simpl in Hp. rewrite Hp. unfold res_rel. reflexivity.
      + destruct Hp as [k Hp]. rewrite Hp. exists k. reflexivity.
  Qed.
End Items.
