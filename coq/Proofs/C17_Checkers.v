(* C17: the boolean checkers evaluated by the correspondence run imply the Prop-level spec. *)
From Coq Require Import List String Bool.
From Verif Require Import Base.Result Base.Str Model.Combine Spec.Combine Proofs.C17_Dict Proofs.C17_Problems.
Import ListNotations.
Open Scope string_scope.
Open Scope list_scope.

Lemma pair_eqb_eq (a b : string * string) : pair_eqb a b = true <-> a = b.
Proof.
  unfold pair_eqb. destruct a as [a1 a2], b as [b1 b2]. simpl.
  rewrite andb_true_iff, !String.eqb_eq. split; [intros [H1 H2]; congruence|intros H; inversion H; auto].
Qed.

Lemma mem_pair_In kv d : mem_pair kv d = true <-> In kv d.
Proof.
  unfold mem_pair. rewrite existsb_exists. split.
  - intros [x [H1 H2]]. apply pair_eqb_eq in H2. now subst.
  - intros H. exists kv. split; [assumption|now apply pair_eqb_eq].
Qed.

Lemma union_of_b_sound : forall (ds : list alist) (c : alist),
  union_of_b ds c = true -> union_of ds c.
Proof.
  intros ds c H. unfold union_of_b in H. rewrite !andb_true_iff in H. destruct H as [[H1 H2] H3].
  rewrite forallb_forall in H2, H3. split; [now apply nodup_of_b|]. intros k v. split.
  - intros Hin. specialize (H2 _ Hin). apply existsb_exists in H2. destruct H2 as [d [Hd Hm]].
    exists d. split; [assumption|now apply mem_pair_In].
  - intros [d [Hd Hin]]. specialize (H3 _ Hd). rewrite forallb_forall in H3.
    apply mem_pair_In. now apply H3.
Qed.

Lemma weak_union_of_b_sound : forall (ds : list alist) (c : alist),
  weak_union_of_b ds c = true -> weak_union_of ds c.
Proof.
  intros ds c H. unfold weak_union_of_b in H. rewrite !andb_true_iff in H. destruct H as [[H1 H2] H3].
  rewrite forallb_forall in H2, H3. split; [now apply nodup_of_b|split].
  - intros k v Hin. specialize (H2 _ Hin). apply existsb_exists in H2. destruct H2 as [d [Hd Hm]].
    exists d. split; [assumption|now apply mem_pair_In].
  - intros d k v Hd Hin. specialize (H3 _ Hd). rewrite forallb_forall in H3.
    specialize (H3 _ Hin). simpl in H3. now apply str_in_In.
Qed.

Lemma set_union_of_b_sound : forall (ls : list (list string)) (c : list string),
  set_union_of_b ls c = true -> set_union_of ls c.
Proof.
  intros ls c H. unfold set_union_of_b in H. rewrite !andb_true_iff in H. destruct H as [[H1 H2] H3].
  rewrite forallb_forall in H2, H3. split; [now apply nodup_of_b|]. intros x. split.
  - intros Hin. specialize (H2 _ Hin). apply existsb_exists in H2. destruct H2 as [l [Hl Hm]].
    exists l. split; [assumption|now apply str_in_In].
  - intros [l [Hl Hin]]. specialize (H3 _ Hl). rewrite forallb_forall in H3.
    apply str_in_In. now apply H3.
Qed.
