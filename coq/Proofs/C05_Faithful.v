(* C05: what the model builds is what the text says ([dump_problem (built sp)] is equivalent to [spec_dump sp]),
   as long as no fluent has a repeated argument (finding D07). *)
From Coq Require Import List Ascii String Bool Arith Lia PrimFloat.
From Verif Require Import Base.Result Base.Str Base.Sexp Base.PyDict Base.Float
  Model.Types Model.Domain Model.NumExpr Model.Problem Model.ProblemObs
  Spec.Pddl Spec.Grammar Spec.Problem
  Proofs.C05_Lemmas Proofs.C05_Objects Proofs.C05_Items Proofs.C05_Goal Proofs.C05_Parse.
Import ListNotations.
Open Scope string_scope.
Open Scope list_scope.

(* ---------- sets of facts ---------- *)
Definition mem_fact (facts : pydict (list (list string))) (q : string) (xs : list string) : bool :=
  match dget facts q with Some l => existsb (strs_eqb xs) l | None => false end.

Lemma atom_in_app a l m : atom_in a (l ++ m) = atom_in a l || atom_in a m.
Proof. unfold atom_in. apply existsb_app. Qed.

Lemma atom_in_bucket q xs k (l : list (list string)) :
  atom_in (q, xs) (map (fun a => (k, a)) l) = String.eqb q k && existsb (strs_eqb xs) l.
Proof.
  unfold atom_in. induction l as [|y ys IH]; simpl; [rewrite andb_false_r; reflexivity|].
  rewrite IH. unfold atom_eqb. simpl. rewrite <- strs_eqb_list_eqb.
  destruct (String.eqb q k); reflexivity.
Qed.

Lemma atom_in_dump_notin q xs facts : ~ In q (dkeys facts) -> atom_in (q, xs) (dump_facts facts) = false.
Proof.
  unfold dump_facts. induction facts as [|[k l] r IH]; intros Hn; simpl; [reflexivity|].
  rewrite atom_in_app, atom_in_bucket. simpl in Hn.
  rewrite eqb_neq_false by (intros ->; apply Hn; left; reflexivity). simpl.
  apply IH. intros H. apply Hn. right. exact H.
Qed.

Lemma atom_in_dump facts q xs : NoDup (dkeys facts) -> atom_in (q, xs) (dump_facts facts) = mem_fact facts q xs.
Proof.
  unfold mem_fact. induction facts as [|[k l] r IH]; intros Hnd; [reflexivity|].
  simpl in Hnd. inversion Hnd as [|? ? Hk Hnd']; subst.
  unfold dump_facts. simpl. fold (dump_facts r). rewrite atom_in_app, atom_in_bucket.
  destruct (String.eqb q k) eqn:E.
  - apply String.eqb_eq in E. subst. rewrite atom_in_dump_notin by exact Hk. simpl. apply orb_false_r.
  - simpl. apply IH. exact Hnd'.
Qed.

Lemma existsb_strs_eqb_congr xs args l : strs_eqb xs args = true -> existsb (strs_eqb xs) l = existsb (strs_eqb args) l.
Proof. intros H. apply strs_eqb_eq in H. subst. reflexivity. Qed.

Lemma mem_fact_add facts p args q xs :
  mem_fact (add_fact facts p args) q xs = (String.eqb q p && strs_eqb xs args) || mem_fact facts q xs.
Proof.
  unfold add_fact, mem_fact. destruct (String.eqb q p) eqn:E.
  - apply String.eqb_eq in E. subst q. simpl. destruct (dget facts p) as [l|] eqn:Ed.
    + destruct (existsb (strs_eqb args) l) eqn:Ex.
      * rewrite Ed. destruct (strs_eqb xs args) eqn:Es; [|reflexivity].
        rewrite (existsb_strs_eqb_congr _ _ _ Es), Ex. reflexivity.
      * rewrite dget_dset_same, existsb_app. simpl. rewrite orb_false_r. apply orb_comm.
    + rewrite dget_dset_same. simpl. rewrite orb_false_r. reflexivity.
  - simpl. assert (Hne : q <> p) by (intros ->; rewrite String.eqb_refl in E; discriminate).
    destruct (dget facts p) as [l|]; [destruct (existsb (strs_eqb args) l); [reflexivity|]|];
      rewrite dget_dset_other by exact Hne; reflexivity.
Qed.

Lemma add_fact_NoDup facts p args : NoDup (dkeys facts) -> NoDup (dkeys (add_fact facts p args)).
Proof.
  intros H. unfold add_fact. destruct (dget facts p) as [l|]; [destruct (existsb (strs_eqb args) l); [exact H|]|];
    apply dkeys_dset_NoDup; exact H.
Qed.

Lemma fold_add_fact (l : list atom) : forall acc q xs, NoDup (dkeys acc) ->
  NoDup (dkeys (fold_left (fun fs a => add_fact fs (fst a) (snd a)) l acc)) /\
  mem_fact (fold_left (fun fs a => add_fact fs (fst a) (snd a)) l acc) q xs = atom_in (q, xs) l || mem_fact acc q xs.
Proof.
  induction l as [|[p args] r IH]; intros acc q xs Hnd; simpl; [split; [exact Hnd | reflexivity]|].
  destruct (IH (add_fact acc p args) q xs (add_fact_NoDup _ _ _ Hnd)) as [H1 H2]. split; [exact H1|].
  rewrite H2, mem_fact_add. unfold atom_eqb. simpl. rewrite <- strs_eqb_list_eqb.
  rewrite orb_assoc. f_equal. apply orb_comm.
Qed.

Lemma In_atom_in a l : In a l -> atom_in a l = true.
Proof.
  unfold atom_in. intros H. apply existsb_exists. exists a. split; [exact H | apply atom_eqb_refl].
Qed.

Lemma facts_equiv_pointwise a b : (forall x, atom_in x a = atom_in x b) -> facts_equiv a b = true.
Proof.
  intros H. unfold facts_equiv, facts_subset. apply andb_true_iff. split; apply forallb_forall; intros x Hx.
  - rewrite <- H. apply In_atom_in. exact Hx.
  - rewrite H. apply In_atom_in. exact Hx.
Qed.

Lemma facts_faithful (l : list atom) :
  facts_equiv (dump_facts (fold_left (fun fs a => add_fact fs (fst a) (snd a)) l [])) l = true.
Proof.
  apply facts_equiv_pointwise. intros [q xs].
  destruct (fold_add_fact l [] q xs (NoDup_nil _)) as [Hnd Hm].
  rewrite atom_in_dump by exact Hnd. rewrite Hm. unfold mem_fact. simpl. apply orb_false_r.
Qed.

(* ---------- a fluent without repeated arguments is stored as it is written ---------- *)
Lemma fold_dset_fresh (g : string -> string) (args : list string) : forall acc,
  NoDup args -> (forall a, In a args -> ~ In a (dkeys acc)) ->
  fold_left (fun acc a => dset acc a (g a)) args acc = acc ++ map (fun a => (a, g a)) args.
Proof.
  induction args as [|a ar IH]; intros acc Hnd Hfresh; simpl; [rewrite app_nil_r; reflexivity|].
  inversion Hnd as [|? ? Ha Hnd']; subst.
  rewrite dset_fresh by (apply dget_None_notin, Hfresh; left; reflexivity).
  rewrite IH; [rewrite <- app_assoc; reflexivity | exact Hnd' |].
  intros m Hm. rewrite dkeys_app. simpl. intros Hin. apply in_app_or in Hin. destruct Hin as [Hin|[Hin|[]]].
  - apply (Hfresh m); [right; exact Hm | exact Hin].
  - subst. contradiction.
Qed.

Lemma count_str_notin x l : ~ In x l -> count_str x l = 0.
Proof.
  induction l as [|y ys IH]; intros H; simpl; [reflexivity|].
  rewrite eqb_neq_false by (intros ->; apply H; left; reflexivity). simpl. apply IH. intros Hin. apply H. right. exact Hin.
Qed.

Lemma count_str_nodup x l : NoDup l -> In x l -> count_str x l = 1.
Proof.
  induction l as [|y ys IH]; intros Hnd Hin; [destruct Hin|]. inversion Hnd as [|? ? Hy Hnd']; subst. simpl.
  destruct (String.eqb x y) eqn:E.
  - apply String.eqb_eq in E. subst. rewrite count_str_notin by exact Hy. reflexivity.
  - destruct Hin as [->|Hin]; [rewrite String.eqb_refl in E; discriminate|]. simpl. apply IH; assumption.
Qed.

Lemma repeating_nodup l : NoDup l -> repeating l = [].
Proof.
  intros Hnd. unfold repeating. rewrite distinct_nodup by exact Hnd.
  assert (H : forall m, (forall x, In x m -> In x l) ->
              filter (fun kv : string * nat => Nat.ltb 1 (snd kv)) (map (fun x => (x, count_str x l)) m) = []).
  { induction m as [|x xs IH]; intros Hsub; simpl; [reflexivity|].
    rewrite (count_str_nodup x l Hnd (Hsub x (or_introl eq_refl))). simpl. apply IH. intros y Hy. apply Hsub. right. exact Hy. }
  apply H. trivial.
Qed.

Lemma filter_all {A} (f : A -> bool) l : (forall x, f x = true) -> filter f l = l.
Proof. intros H. induction l as [|x xs IH]; simpl; [reflexivity|]. rewrite H, IH. reflexivity. Qed.

Section Faithful.
  Variable num : string -> option float.
  Variable dom : mdomain.

  Lemma mk_fluent_nodup objs f args x : NoDup args ->
    dkeys (fl_sig (mk_fluent dom objs f args x)) = args /\
    dump_fluent (mk_fluent dom objs f args x) = ((f, args), x).
  Proof.
    intros Hnd. unfold mk_fluent, dump_fluent. cbn [fl_sig fl_name fl_rep fl_val].
    rewrite fold_dset_fresh; [| exact Hnd | intros ? _ []]. cbn [app].
    assert (Hk : dkeys (map (fun a => (a, ty_of dom objs a)) args) = args).
    { unfold dkeys. rewrite map_map. simpl. apply map_id. }
    split; [exact Hk|].
    rewrite repeating_nodup by exact Hnd. unfold expand_args. cbn [flat_map app].
    rewrite Hk. rewrite filter_all by reflexivity. reflexivity.
  Qed.

  (* ---------- the fluent table as a finite map ---------- *)
  Definition dump_fluents (fls : list (fkey * mfluent)) : list (atom * float) := map (fun kf => dump_fluent (snd kf)) fls.

  Definition keyed (fls : list (fkey * mfluent)) : Prop :=
    Forall (fun kf => fst (dump_fluent (snd kf)) = fst kf) fls.

  Lemma fluent_get_kset fls k' m k : keyed fls -> fst (dump_fluent m) = k' ->
    keyed (kset fls k' m) /\
    fluent_get k (dump_fluents (kset fls k' m)) =
    if atom_eqb k k' then Some (snd (dump_fluent m)) else fluent_get k (dump_fluents fls).
  Proof.
    intros Hk Hm. unfold dump_fluents. induction fls as [|[kk old] r IH]; cbn [kset map snd].
    - split; [constructor; [exact Hm | constructor]|].
      destruct (dump_fluent m) as [a x] eqn:Ed. cbn [fst snd] in *. subst a. reflexivity.
    - pose proof (Forall_inv Hk) as Hold. pose proof (Forall_inv_tail Hk) as Hr. cbn [fst snd] in Hold. rewrite fkey_eqb_atom_eqb.
      destruct (atom_eqb k' kk) eqn:E.
      + apply atom_eqb_eq in E. rewrite <- E in *. clear E. split; [constructor; [exact Hm | exact Hr]|].
        cbn [map snd]. destruct (dump_fluent m) as [a x] eqn:Ed. cbn [fst snd] in *. subst a.
        destruct (dump_fluent old) as [a' x'] eqn:Ed'. cbn [fst snd] in *. subst a'. cbn [fluent_get].
        destruct (atom_eqb k k'); reflexivity.
      + destruct (IH Hr) as [IH1 IH2]. split; [constructor; [exact Hold | exact IH1]|].
        cbn [map snd]. destruct (dump_fluent old) as [a' x'] eqn:Ed'. cbn [fst snd] in *. subst a'. cbn [fluent_get].
        destruct (atom_eqb k kk) eqn:E2.
        * apply atom_eqb_eq in E2. rewrite <- E2 in *. rewrite atom_eqb_sym, E. reflexivity.
        * exact IH2.
  Qed.

  Lemma fluent_get_app k a b :
    fluent_get k (a ++ b) = match fluent_get k a with Some x => Some x | None => fluent_get k b end.
  Proof. induction a as [|[kk x] r IH]; simpl; [reflexivity|]. destruct (atom_eqb k kk); [reflexivity | exact IH]. Qed.

  Definition pairs (l : list (atom * string)) : list (atom * float) := map (fun fl => (fst fl, value_of num (snd fl))) l.

  Lemma fold_add_fluent objs (l : list (atom * string)) : forall acc k,
    Forall (fun fl => NoDup (snd (fst fl))) l -> keyed acc ->
    fluent_get k (dump_fluents (fold_left (add_fluent num dom objs) l acc)) =
    match fluent_get k (rev (pairs l)) with Some x => Some x | None => fluent_get k (dump_fluents acc) end.
  Proof.
    induction l as [|[[f args] tok] r IH]; intros acc k Hnd Hk; [reflexivity|].
    inversion Hnd as [|? ? Ha Hr]; subst. simpl in Ha.
    cbn [fold_left]. unfold add_fluent at 2. cbn [fst snd].
    destruct (mk_fluent_nodup objs f args (value_of num tok) Ha) as [Hkeys Hdump].
    rewrite Hkeys.
    assert (Hm : fst (dump_fluent (mk_fluent dom objs f args (value_of num tok))) = (f, args)) by (rewrite Hdump; reflexivity).
    destruct (fluent_get_kset acc (f, args) _ k Hk Hm) as [Hk' Hget].
    etransitivity; [apply (IH _ k Hr Hk')|]. rewrite Hget, Hdump. cbn [snd].
    unfold pairs. cbn [map rev fst snd]. fold (pairs r). rewrite fluent_get_app. cbn [fluent_get].
    destruct (fluent_get k (rev (pairs r))); [reflexivity|]. destruct (atom_eqb k (f, args)); reflexivity.
  Qed.

  Lemma fluents_equiv_pointwise a b : (forall k, fluent_get k a = fluent_get k b) -> fluents_equiv a b = true.
  Proof.
    intros H. unfold fluents_equiv. apply andb_true_iff. split; apply forallb_forall; intros k _; rewrite H;
      destruct (fluent_get k b); [apply float_beq_refl | reflexivity | apply float_beq_refl | reflexivity].
  Qed.

  Lemma spec_fluents_pairs (l : list (atom * string)) :
    forallb (fun fl => match num (snd fl) with Some _ => true | None => false end) l = true ->
    flat_map (fun fl => match num (snd fl) with Some x => [(fst fl, x)] | None => [] end) l = pairs l.
  Proof.
    induction l as [|[a tok] r IH]; simpl; [reflexivity|]. unfold value_of. simpl.
    destruct (num tok); [|discriminate]. simpl. intros H. rewrite IH by exact H. reflexivity.
  Qed.

  (* ---------- numeric goals ---------- *)
  Lemma dump_tree_of_nexp n : dump_tree (tree_of_nexp n) = gtree_of_nexp n.
  Proof. induction n as [x|f args|o a IHa b IHb]; simpl; [reflexivity | reflexivity | rewrite IHa, IHb; reflexivity]. Qed.

  Lemma gtree_eqb_refl t : gtree_eqb t t = true.
  Proof.
    induction t as [x|f args|o l IHl r IHr]; simpl.
    - apply float_beq_refl.
    - apply atom_eqb_refl.
    - rewrite String.eqb_refl, IHl, IHr. reflexivity.
  Qed.

  Lemma multiset_eqb_refl l : multiset_eqb l l = true.
  Proof. induction l as [|x xs IH]; simpl; [reflexivity|]. rewrite gtree_eqb_refl. exact IH. Qed.

  Lemma list_eqb_refl {A} (eqb : A -> A -> bool) (l : list A) : (forall x, eqb x x = true) -> list_eqb eqb l l = true.
  Proof. intros H. induction l as [|x xs IH]; simpl; [reflexivity|]. rewrite H, IH. reflexivity. Qed.

  (* ---------- D07-free initial states: no fluent assignment has a repeated argument ---------- *)
  Definition no_repeats (sp : sproblem) : bool :=
    forallb (fun fl : atom * string => negb (has_dup_name (snd (fst fl)))) (sp_fluents sp).

  Theorem built_faithful sp :
    wf_code num dom sp = true -> no_repeats sp = true ->
    pdump_equiv (dump_problem (built num dom sp)) (spec_dump num sp) = true.
  Proof.
    intros Hwf Hnr. unfold pdump_equiv, dump_problem, built, spec_dump.
    cbn [pd_name pd_objects pd_facts pd_fluents pd_goal pd_goal_num pb_name pb_objects pb_facts pb_fluents pb_goal pb_goal_num].
    unfold no_repeats in Hnr. pose proof Hnr as Hfl.
    unfold wf_code in Hwf.
    apply andb_true_iff in Hwf; destruct Hwf as [Hwf _]. apply andb_true_iff in Hwf; destruct Hwf as [Hwf _].
    apply andb_true_iff in Hwf; destruct Hwf as [_ Hfluents].
    rewrite String.eqb_refl. rewrite list_eqb_refl.
    2:{ intros [a b]. unfold pair_eqb. simpl. rewrite !String.eqb_refl. reflexivity. }
    rewrite facts_faithful. rewrite (list_eqb_refl atom_eqb) by apply atom_eqb_refl. cbn [andb].
    apply andb_true_iff. split.
    - rewrite andb_true_r. apply fluents_equiv_pointwise. intros k.
      change (map (fun kf => dump_fluent (snd kf)) ?l) with (dump_fluents l).
      rewrite fold_add_fluent; [| | constructor].
      + rewrite spec_fluents_pairs; [destruct (fluent_get k (rev (pairs (sp_fluents sp)))); reflexivity|].
        apply forallb_forall. intros fl Hin.
        rewrite forallb_forall in Hfluents. specialize (Hfluents fl Hin).
        unfold fluent_ok in Hfluents. apply andb_true_iff in Hfluents. destruct Hfluents as [_ H2]. exact H2.
      + apply Forall_forall. intros fl Hin. rewrite forallb_forall in Hfl. specialize (Hfl fl Hin).
        apply negb_true_iff, has_dup_name_NoDup in Hfl. exact Hfl.
    - rewrite map_map.
      assert (Heq : map (fun g => dump_tree (goal_tree g)) (sp_goal_num sp) = map gtree_of_goal (sp_goal_num sp)).
      { apply map_ext. intros [[c l] r]. simpl. rewrite !dump_tree_of_nexp. reflexivity. }
      rewrite Heq. apply multiset_eqb_refl.
  Qed.
End Faithful.
