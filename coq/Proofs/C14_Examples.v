(* C14: the hypotheses of the theorems are satisfiable by non-trivial values; witnesses for the stated differences. *)
From Coq Require Import List Ascii String Bool Arith Lia PrimFloat Permutation.
From Verif Require Import Base.Result Base.Str Base.Sexp Base.PyDict Base.Float Model.Tokenizer Model.State
  Spec.Pddl Spec.State Proofs.C14_Text Proofs.C14_Spec Proofs.C14_Eq Proofs.C14_Main Proofs.C14_Serialize.
Import ListNotations.
Open Scope string_scope.
Open Scope list_scope.

(* a finite picture of repr(float) / float(str) *)
Definition ex_table : list (float * string) :=
  [(2.5%float, "2.5"); ((-0)%float, "-0.0"); (0%float, "0.0"); (1%float, "1.0"); (nan, "nan"); ((-1.5)%float, "-1.5")].
Definition ex_num_text (x : float) : string :=
  match find (fun kv => float_beq x (fst kv)) ex_table with Some kv => snd kv | None => "?" end.
Definition ex_parse_num (s : string) : option float :=
  match find (fun kv => String.eqb s (snd kv)) ex_table with Some kv => Some (fst kv) | None => None end.

Definition ex_gp (name : string) (sg : pydict string) (objs : list string) : gpred :=
  {| gp_name := name; gp_sig := sg; gp_map := combine (dkeys sg) objs; gp_pos := true |}.
Definition ex_pf (name : string) (sg : pydict string) (v : float) (rep : pydict nat) : pfun :=
  {| pf_name := name; pf_sig := sg; pf_val := v; pf_rep := rep; pf_int := false |}.

(* (p a) (p b) (q a a) (z), (f a) = 2.5, (g a a) = -0.0 [as the problem parser stores it], (h) = nan *)
Definition ex_s : mstate :=
  {| st_init := true;
     st_preds := [("(p ?x)", [ex_gp "p" [("?x", "t")] ["a"]; ex_gp "p" [("?x", "t")] ["b"]]);
                  ("(q ?x ?y)", [ex_gp "q" [("?x", "t"); ("?y", "t")] ["a"; "a"]]);
                  ("(z )", [ex_gp "z" [] []])];
     st_fluents := [("(f a)", ex_pf "f" [("a", "t")] 2.5 []);
                    ("(g a)", ex_pf "g" [("a", "t")] (-0) [("a", 2)]);
                    ("(h )", ex_pf "h" [] nan [])] |}.

(* the same content: other insertion order, other keys, other types, other flag *)
Definition ex_t : mstate :=
  {| st_init := false;
     st_preds := [("k1", [ex_gp "z" [] []; ex_gp "q" [("?u", "object"); ("?v", "object")] ["a"; "a"]]);
                  ("k2", [ex_gp "p" [("?x", "s")] ["b"]; ex_gp "p" [("?x", "t")] ["a"]])];
     st_fluents := [("x", ex_pf "h" [] nan []);
                    ("y", ex_pf "g" [("a", "t")] (-0) [("a", 2)]);
                    ("w", ex_pf "f" [("a", "s")] 2.5 [])] |}.

(* one value differs only by the sign of zero *)
Definition ex_u : mstate :=
  {| st_init := true; st_preds := st_preds ex_s;
     st_fluents := [("(f a)", ex_pf "f" [("a", "t")] 2.5 []);
                    ("(g a)", ex_pf "g" [("a", "t")] 0 [("a", 2)]);
                    ("(h )", ex_pf "h" [] nan [])] |}.

Ltac in_cases := repeat match goal with
  | H : _ \/ _ |- _ => destruct H as [H|H]; [subst|]
  | H : False |- _ => destruct H
  end.

Lemma ex_nums_ok : nums_ok ex_num_text ex_parse_num (values ex_s ++ values ex_t).
Proof.
  split.
  - intros x H. vm_compute in H. in_cases; (eexists; split; [vm_compute; reflexivity|vm_compute; reflexivity]).
  - intros x y Hx Hy. vm_compute in Hx, Hy. unfold num_stable. in_cases; vm_compute; intros E; try reflexivity; discriminate E.
Qed.

Lemma ex_nums_ok_u : nums_ok ex_num_text ex_parse_num (values ex_s ++ values ex_u).
Proof.
  split.
  - intros x H. vm_compute in H. in_cases; (eexists; split; [vm_compute; reflexivity|vm_compute; reflexivity]).
  - intros x y Hx Hy. vm_compute in Hx, Hy. unfold num_stable. in_cases; vm_compute; intros E; try reflexivity; discriminate E.
Qed.

Lemma ex_clean s : s = ex_s \/ s = ex_t \/ s = ex_u -> nums_clean ex_num_text s.
Proof. intros [-> | [-> | ->]] x H; vm_compute in H; in_cases; vm_compute; reflexivity. Qed.

Example ex_hypotheses :
  state_ok ex_s = true /\ state_ok ex_t = true /\ nums_ok ex_num_text ex_parse_num (values ex_s ++ values ex_t) /\
  nums_clean ex_num_text ex_s /\ nums_clean ex_num_text ex_t /\
  state_eq ex_num_text ex_s ex_t = true /\ state_eq ex_num_text ex_s ex_u = false.
Proof.
  split; [vm_compute; reflexivity|]. split; [vm_compute; reflexivity|]. split; [exact ex_nums_ok|].
  split; [apply ex_clean; auto|]. split; [apply ex_clean; auto|]. split; vm_compute; reflexivity.
Qed.

(* IEEE comparison of the values would call ex_s and ex_u equal (0 = -0) and ex_s different from itself (nan <> nan) *)
Definition ieee_fluents_equal (a b : list (atom * float)) : bool :=
  forallb (fun kv => existsb (fun kv' => atom_eqb (fst kv) (fst kv') && (snd kv =? snd kv')%float) b) a &&
  forallb (fun kv => existsb (fun kv' => atom_eqb (fst kv) (fst kv') && (snd kv =? snd kv')%float) a) b.

Lemma ex_ieee_differs :
  state_eq ex_num_text ex_s ex_s = true /\ ieee_fluents_equal (den_fluents ex_s) (den_fluents ex_s) = false /\
  state_eq ex_num_text ex_s ex_u = false /\
  ieee_fluents_equal (filter (fun kv => negb (String.eqb (fst (fst kv)) "h")) (den_fluents ex_s))
                     (filter (fun kv => negb (String.eqb (fst (fst kv)) "h")) (den_fluents ex_u)) = true.
Proof. repeat split; vm_compute; reflexivity. Qed.

(* build order *)
Definition ex_components : list component :=
  [CFact (ex_gp "q" [("?x", "t"); ("?y", "t")] ["a"; "a"]); CFluent (ex_pf "f" [("a", "t")] 2.5 []); CFact (ex_gp "p" [("?x", "t")] ["a"]);
   CFact (ex_gp "p" [("?x", "t")] ["b"]); CFluent (ex_pf "h" [] nan []); CFact (ex_gp "p" [("?x", "t")] ["a"])].

Example ex_build_hypotheses :
  Forall gp_wf (comp_facts ex_components) /\ NoDup (map pf_untyped (comp_fluents ex_components)) /\
  Permutation ex_components (rev ex_components) /\
  st_preds (build_state true ex_components) <> st_preds (build_state true (rev ex_components)).
Proof.
  split; [|split; [|split]].
  - repeat constructor; vm_compute; intuition discriminate.
  - vm_compute. repeat constructor; vm_compute; intuition discriminate.
  - apply Permutation_rev.
  - vm_compute. intros E. discriminate E.
Qed.

(* ---------- int values (findings D90 / D91) ---------- *)
(* PDDLFunction stores the object it is given.  (h) = 1 stored as the Python int 1 (set_value(1)) against (h) = 1.0;
   a never-set fluent (the default stored_value is the int 0) against (h) = 0.0: the same values, other texts. *)
Definition ex_pf_int (name : string) (sg : pydict string) (v : float) : pfun :=
  {| pf_name := name; pf_sig := sg; pf_val := v; pf_rep := []; pf_int := true |}.
Definition ex_one_int : mstate := {| st_init := false; st_preds := []; st_fluents := [("(h )", ex_pf_int "h" [] 1)] |}.
Definition ex_one_float : mstate := {| st_init := false; st_preds := []; st_fluents := [("(h )", ex_pf "h" [] 1 [])] |}.
Definition ex_unset : mstate := {| st_init := false; st_preds := []; st_fluents := [("(h )", ex_pf_int "h" [] 0)] |}.
Definition ex_zero_float : mstate := {| st_init := false; st_preds := []; st_fluents := [("(h )", ex_pf "h" [] 0 [])] |}.

Lemma ex_int_pair s t :
  (s = ex_one_int /\ t = ex_one_float) \/ (s = ex_unset /\ t = ex_zero_float) ->
  state_names_ok s = true /\ state_names_ok t = true /\ nums_ok ex_num_text ex_parse_num (values s ++ values t) /\
  State_same (den s) (den t) /\ state_eq ex_num_text s t = false /\
  serialize ex_num_text s <> serialize ex_num_text t.
Proof.
  intros [[-> ->]|[-> ->]].
  - split; [vm_compute; reflexivity|]. split; [vm_compute; reflexivity|]. split.
    { split.
      - intros x H. vm_compute in H. in_cases; (eexists; split; [vm_compute; reflexivity|vm_compute; reflexivity]).
      - intros x y Hx Hy. vm_compute in Hx, Hy. unfold num_stable. in_cases; vm_compute; intros E; try reflexivity; discriminate E. }
    split; [apply state_same_iff; vm_compute; reflexivity|]. split; [vm_compute; reflexivity|].
    vm_compute. intros E. discriminate E.
  - split; [vm_compute; reflexivity|]. split; [vm_compute; reflexivity|]. split.
    { split.
      - intros x H. vm_compute in H. in_cases; (eexists; split; [vm_compute; reflexivity|vm_compute; reflexivity]).
      - intros x y Hx Hy. vm_compute in Hx, Hy. unfold num_stable. in_cases; vm_compute; intros E; try reflexivity; discriminate E. }
    split; [apply state_same_iff; vm_compute; reflexivity|]. split; [vm_compute; reflexivity|].
    vm_compute. intros E. discriminate E.
Qed.

(* the texts: "(:state (= (h ) 1))" against "(:state (= (h ) 1.0))" *)
Example ex_int_texts :
  serialize ex_num_text ex_one_int = "(:state (= (h ) 1))" +++ LFs /\
  serialize ex_num_text ex_one_float = "(:state (= (h ) 1.0))" +++ LFs /\
  serialize ex_num_text ex_unset = "(:state (= (h ) 0))" +++ LFs.
Proof. repeat split; vm_compute; reflexivity. Qed.
