(* C18, part 11 (spec level): renamings that DO land on a quantified variable.
   A formula F' "simulates" F under a substitution rho of the free names (simf rho F F') when F' holds in an environment
   e' exactly when F holds in e, for all e, e' that agree through rho on the free names of F.  Spec.Rename.ren_form rho F
   simulates F when no quantifier captures (Proofs.C18_Alpha.holds_ren); here the relation is closed under
     - and / or, member by member,
     - a quantifier that keeps its variable (no renamed free name equals it),
     - a quantifier whose variable moves out of the way first: (forall v. B) is simulated by (forall c. B') when c is
       fresh for B, B' simulates B[v:=c] under a substitution that fixes c, agrees with rho elsewhere and never yields c.
   Nothing here mentions the library's data structures. *)
From Coq Require Import List String Bool PrimFloat.
From Verif Require Import Base.Str Spec.Pddl Spec.Rename Proofs.C18_Alpha.
Import ListNotations.
Open Scope string_scope.
Open Scope list_scope.

Definition simf (rho : ren) (F F' : form) : Prop :=
  forall eps tt objs s e e', agree_on rho e e' (free_form F) ->
    holds eps tt objs e' s F' = holds eps tt objs e s F.

Definition sime (rho : ren) (E E' : eff) : Prop :=
  forall eps tt objs s e e', agree_on rho e e' (free_eff E) ->
    fires eps tt objs e' s E' = fires eps tt objs e s E.

Lemma agree_on_ext rho rho' e e' l : (forall n, rho n = rho' n) -> agree_on rho e e' l -> agree_on rho' e e' l.
Proof. intros H Hag n Hn. rewrite <- H. apply Hag. exact Hn. Qed.

Lemma simf_ext rho rho' F F' : (forall n, rho n = rho' n) -> simf rho F F' -> simf rho' F F'.
Proof.
  intros H Hs eps tt objs s e e' Hag. apply Hs. apply (agree_on_ext rho' rho); [|exact Hag]. intros n. symmetry. apply H.
Qed.

(* the plain substitution, when nothing is captured *)
Lemma simf_ren rho F : nocap_form rho F -> simf rho F (ren_form rho F).
Proof. intros Hc eps tt objs s e e' Hag. apply holds_ren; assumption. Qed.

(* ---------- and / or ---------- *)
Definition mk (op : string) (fs : list form) : form := if String.eqb op "or" then FOr fs else FAnd fs.

Lemma free_mk op fs : free_form (mk op fs) = flat_map free_form fs.
Proof. unfold mk. destruct (String.eqb op "or"); reflexivity. Qed.

Lemma forallb_Forall2 {A} (f g : A -> bool) l l' :
  Forall2 (fun x y => g y = f x) l l' -> forallb g l' = forallb f l.
Proof. induction 1 as [|x y l l' H _ IH]; simpl; [reflexivity|]. rewrite H, IH. reflexivity. Qed.

Lemma existsb_Forall2 {A} (f g : A -> bool) l l' :
  Forall2 (fun x y => g y = f x) l l' -> existsb g l' = existsb f l.
Proof. induction 1 as [|x y l l' H _ IH]; simpl; [reflexivity|]. rewrite H, IH. reflexivity. Qed.

Lemma Forall2_impl_in {A B} (R S : A -> B -> Prop) l l' :
  (forall x y, In x l -> R x y -> S x y) -> Forall2 R l l' -> Forall2 S l l'.
Proof.
  intros H F2. induction F2 as [|x y l l' Hxy _ IH]; constructor.
  - apply H; [left; reflexivity|exact Hxy].
  - apply IH. intros a b Ha. apply H. right. exact Ha.
Qed.

Lemma simf_mk rho op fs fs' : Forall2 (simf rho) fs fs' -> simf rho (mk op fs) (mk op fs').
Proof.
  intros F2 eps tt objs s e e' Hag. rewrite free_mk in Hag.
  assert (H : Forall2 (fun x y => holds eps tt objs e' s y = holds eps tt objs e s x) fs fs').
  { apply (Forall2_impl_in (simf rho)); [|exact F2]. intros x y Hx Hs. apply Hs.
    eapply agree_on_incl; [exact Hag|]. intros n Hn. apply in_flat_map. exists x. split; assumption. }
  unfold mk. destruct (String.eqb op "or"); simpl.
  - apply existsb_Forall2. exact H.
  - apply forallb_Forall2. exact H.
Qed.

(* ---------- a quantifier that keeps its variable ---------- *)
Lemma simf_forall_keep rho v ty B B' :
  (forall n, In n (free_form B) -> n <> v -> rho n <> v) ->
  simf (upd rho v) B B' -> simf rho (FForall v ty B) (FForall v ty B').
Proof.
  intros Hcap Hs eps tt objs s e e' Hag. simpl. apply forallb_ext_in'. intros o _.
  apply Hs. apply agree_on_under; [exact Hag|exact Hcap].
Qed.

(* ---------- a quantifier whose variable moves to c first ---------- *)
Definition single (v c : name) : ren := fun n => if String.eqb n v then c else n.

Lemma in_free_ren : forall F rho x, In x (free_form (ren_form rho F)) -> exists n, In n (free_form F) /\ x = rho n.
Proof.
  assert (Hn : forall a rho x, In x (free_nexp (ren_nexp rho a)) -> exists n, In n (free_nexp a) /\ x = rho n).
  { induction a as [y|f args|o a IHa b IHb]; simpl; intros rho x Hx.
    - contradiction.
    - apply in_map_iff in Hx. destruct Hx as [n [Hn Hin]]. exists n. split; [exact Hin|symmetry; exact Hn].
    - apply in_app_or in Hx. destruct Hx as [Hx|Hx].
      + destruct (IHa rho x Hx) as [n [H1 H2]]. exists n. split; [apply in_or_app; left; exact H1|exact H2].
      + destruct (IHb rho x Hx) as [n [H1 H2]]. exists n. split; [apply in_or_app; right; exact H1|exact H2]. }
  induction F as [p a|p a|a b|a b|c l r|l IH|l IH|v ty b IH] using form_ind'; intros rho x Hx; simpl in Hx.
  - apply in_map_iff in Hx. destruct Hx as [n [E Hin]]. exists n. split; [exact Hin|symmetry; exact E].
  - apply in_map_iff in Hx. destruct Hx as [n [E Hin]]. exists n. split; [exact Hin|symmetry; exact E].
  - destruct Hx as [<-|[<-|[]]]; [exists a|exists b]; simpl; auto.
  - destruct Hx as [<-|[<-|[]]]; [exists a|exists b]; simpl; auto.
  - apply in_app_or in Hx. destruct Hx as [Hx|Hx]; destruct (Hn _ rho x Hx) as [n [H1 H2]]; exists n; simpl;
      (split; [apply in_or_app; auto|exact H2]).
  - apply in_flat_map in Hx. destruct Hx as [g [Hg Hx]]. apply in_map_iff in Hg. destruct Hg as [f [<- Hf]].
    rewrite Forall_forall in IH. destruct (IH f Hf rho x Hx) as [n [H1 H2]]. exists n. split; [|exact H2].
    simpl. apply in_flat_map. exists f. split; assumption.
  - apply in_flat_map in Hx. destruct Hx as [g [Hg Hx]]. apply in_map_iff in Hg. destruct Hg as [f [<- Hf]].
    rewrite Forall_forall in IH. destruct (IH f Hf rho x Hx) as [n [H1 H2]]. exists n. split; [|exact H2].
    simpl. apply in_flat_map. exists f. split; assumption.
  - apply filter_In in Hx. destruct Hx as [Hx Hne]. destruct (IH (upd rho v) x Hx) as [n [H1 H2]].
    unfold upd in H2. destruct (String.eqb n v) eqn:E.
    + subst x. rewrite E in Hne. discriminate.
    + exists n. split; [|exact H2]. simpl. apply filter_In. split; [exact H1|]. rewrite E. reflexivity.
Qed.

Lemma in_free_prim_ren rho p x : In x (free_prim (ren_prim rho p)) -> exists n, In n (free_prim p) /\ x = rho n.
Proof.
  assert (Hn : forall a x, In x (free_nexp (ren_nexp rho a)) -> exists n, In n (free_nexp a) /\ x = rho n).
  { induction a as [y|f args|o a IHa b IHb]; simpl; intros y0 Hx.
    - contradiction.
    - apply in_map_iff in Hx. destruct Hx as [n [Hn Hin]]. exists n. split; [exact Hin|symmetry; exact Hn].
    - apply in_app_or in Hx. destruct Hx as [Hx|Hx].
      + destruct (IHa y0 Hx) as [n [H1 H2]]. exists n. split; [apply in_or_app; left; exact H1|exact H2].
      + destruct (IHb y0 Hx) as [n [H1 H2]]. exists n. split; [apply in_or_app; right; exact H1|exact H2]. }
  destruct p as [q args|q args|k f args rhs]; simpl; intros Hx.
  - apply in_map_iff in Hx. destruct Hx as [n [E Hin]]. exists n. split; [exact Hin|symmetry; exact E].
  - apply in_map_iff in Hx. destruct Hx as [n [E Hin]]. exists n. split; [exact Hin|symmetry; exact E].
  - apply in_app_or in Hx. destruct Hx as [Hx|Hx].
    + apply in_map_iff in Hx. destruct Hx as [n [E Hin]]. exists n. split; [apply in_or_app; left; exact Hin|symmetry; exact E].
    + destruct (Hn rhs x Hx) as [n [H1 H2]]. exists n. split; [apply in_or_app; right; exact H1|exact H2].
Qed.

(* the two environments below the moved quantifier *)
Lemma agree_single v c o e (l : list name) :
  ~ In c l -> agree_on (single v c) ((v, o) :: e) ((c, o) :: e) l.
Proof.
  intros Hc n Hn. unfold single. rewrite !subst_cons. destruct (String.eqb n v) eqn:E.
  - rewrite String.eqb_refl. reflexivity.
  - destruct (String.eqb n c) eqn:E2; [|reflexivity].
    apply String.eqb_eq in E2. subst n. contradiction.
Qed.

Lemma agree_moved rho rho' v c o e e' (l : list name) :
  ~ In c l ->
  rho' c = c ->
  (forall n, In n l -> n <> v -> rho' n = rho n /\ rho n <> c) ->
  agree_on rho e e' (filter (fun n => negb (String.eqb n v)) l) ->
  forall x, (exists n, In n l /\ x = single v c n) -> subst ((c, o) :: e') (rho' x) = subst ((c, o) :: e) x.
Proof.
  intros Hc Hfix Hrest Hag x [n [Hn ->]]. unfold single. destruct (String.eqb n v) eqn:E.
  - rewrite Hfix. rewrite !subst_cons, String.eqb_refl. reflexivity.
  - assert (Hne : n <> v) by (intros ->; rewrite String.eqb_refl in E; discriminate).
    destruct (Hrest n Hn Hne) as [H1 H2]. rewrite H1, !subst_cons.
    destruct (String.eqb (rho n) c) eqn:E2; [apply String.eqb_eq in E2; contradiction|].
    destruct (String.eqb n c) eqn:E3; [apply String.eqb_eq in E3; subst n; contradiction|].
    apply Hag. apply filter_In. split; [exact Hn|]. rewrite E. reflexivity.
Qed.

Lemma simf_forall_move rho rho' v c ty B B' :
  ~ In c (free_form B) ->
  nocap_form (single v c) B ->
  rho' c = c ->
  (forall n, In n (free_form B) -> n <> v -> rho' n = rho n /\ rho n <> c) ->
  simf rho' (ren_form (single v c) B) B' ->
  simf rho (FForall v ty B) (FForall c ty B').
Proof.
  intros Hc Hnc Hfix Hrest Hs eps tt objs s e e' Hag. simpl. apply forallb_ext_in'. intros o _.
  rewrite (Hs eps tt objs s ((c, o) :: e) ((c, o) :: e')).
  - apply holds_ren; [|exact Hnc]. apply agree_single. exact Hc.
  - intros x Hx. apply (agree_moved rho rho' v c o e e' (free_form B) Hc Hfix Hrest Hag).
    apply in_free_ren. exact Hx.
Qed.

(* ---------- "c is fresh for F": it is not the variable of a quantifier whose body reads a name ---------- *)
Fixpoint qbound (f : form) : list name :=
  match f with
  | FAnd l | FOr l => flat_map qbound l
  | FForall v _ b => match free_form b with [] => qbound b | _ => v :: qbound b end
  | _ => []
  end.

Definition only_to (c : name) (rho : ren) : Prop := forall n, rho n = n \/ rho n = c.

Lemma only_to_upd c rho v : only_to c rho -> only_to c (upd rho v).
Proof. intros H n. unfold upd. destruct (String.eqb n v); [left; reflexivity|apply H]. Qed.

Lemma only_to_single v c : only_to c (single v c).
Proof. intros n. unfold single. destruct (String.eqb n v); auto. Qed.

Lemma nocap_only_to c : forall F rho, only_to c rho -> ~ In c (qbound F) -> nocap_form rho F.
Proof.
  induction F as [p a|p a|a b|a b|cm l r|l IH|l IH|v ty b IH] using form_ind'; intros rho Ho Hq; simpl; auto.
  - induction l as [|x r IHr]; [exact I|]. inversion IH as [|? ? Hx Hr]; subst. split.
    + apply (Hx rho Ho). intros Hin. apply Hq. simpl. apply in_or_app. left. exact Hin.
    + apply IHr; [exact Hr|]. intros Hin. apply Hq. simpl. apply in_or_app. right. exact Hin.
  - induction l as [|x r IHr]; [exact I|]. inversion IH as [|? ? Hx Hr]; subst. split.
    + apply (Hx rho Ho). intros Hin. apply Hq. simpl. apply in_or_app. left. exact Hin.
    + apply IHr; [exact Hr|]. intros Hin. apply Hq. simpl. apply in_or_app. right. exact Hin.
  - simpl in Hq. split.
    + intros n Hn Hne Heq. destruct (Ho n) as [E|E]; [congruence|].
      destruct (free_form b) as [|y ys]; [contradiction|]. apply Hq. left. congruence.
    + apply IH; [apply only_to_upd; exact Ho|]. intros Hin. apply Hq.
      destruct (free_form b); [exact Hin|right; exact Hin].
Qed.

(* ---------- effects ---------- *)
Lemma sime_ren rho E : nocap_eff rho E -> sime rho E (ren_eff rho E).
Proof. intros Hc eps tt objs s e e' Hag. apply fires_ren; assumption. Qed.

Lemma sime_when rho c c' es :
  simf rho c c' -> sime rho (EWhen c es) (EWhen c' (map (ren_prim rho) es)).
Proof.
  intros Hs eps tt objs s e e' Hag. simpl in *.
  rewrite (Hs eps tt objs s e e'), (ground_prims_ren s rho e e' es); [reflexivity| |].
  - eapply agree_on_incl; [exact Hag|]. apply incl_appr. apply incl_refl.
  - eapply agree_on_incl; [exact Hag|]. apply incl_appl. apply incl_refl.
Qed.

Lemma sime_forall_keep rho v ty c c' es :
  (forall n, In n (free_form c ++ flat_map free_prim es) -> n <> v -> rho n <> v) ->
  simf (upd rho v) c c' ->
  sime rho (EForall v ty c es) (EForall v ty c' (map (ren_prim (upd rho v)) es)).
Proof.
  intros Hcap Hs eps tt objs s e e' Hag. simpl in *. apply flat_map_ext. intros o.
  assert (Hu : agree_on (upd rho v) ((v, o) :: e) ((v, o) :: e') (free_form c ++ flat_map free_prim es))
    by (apply agree_on_under; [exact Hag|exact Hcap]).
  rewrite (Hs eps tt objs s ((v, o) :: e) ((v, o) :: e')),
          (ground_prims_ren s (upd rho v) ((v, o) :: e) ((v, o) :: e') es); [reflexivity| |].
  - eapply agree_on_incl; [exact Hu|]. apply incl_appr. apply incl_refl.
  - eapply agree_on_incl; [exact Hu|]. apply incl_appl. apply incl_refl.
Qed.

Lemma sime_forall_move rho rho' v c ty cnd cnd' es :
  ~ In c (free_form cnd ++ flat_map free_prim es) ->
  nocap_form (single v c) cnd ->
  rho' c = c ->
  (forall n, In n (free_form cnd ++ flat_map free_prim es) -> n <> v -> rho' n = rho n /\ rho n <> c) ->
  simf rho' (ren_form (single v c) cnd) cnd' ->
  sime rho (EForall v ty cnd es) (EForall c ty cnd' (map (ren_prim rho') (map (ren_prim (single v c)) es))).
Proof.
  intros Hc Hnc Hfix Hrest Hs eps tt objs s e e' Hag. simpl in *. apply flat_map_ext. intros o.
  set (L := free_form cnd ++ flat_map free_prim es) in *.
  assert (H1 : agree_on (single v c) ((v, o) :: e) ((c, o) :: e) L) by (apply agree_single; exact Hc).
  assert (H2 : forall x, (exists n, In n L /\ x = single v c n) -> subst ((c, o) :: e') (rho' x) = subst ((c, o) :: e) x)
    by (apply (agree_moved rho rho' v c o e e' L Hc Hfix Hrest Hag)).
  rewrite (Hs eps tt objs s ((c, o) :: e) ((c, o) :: e')).
  2:{ intros x Hx. apply H2. destruct (in_free_ren cnd (single v c) x Hx) as [n [Hn E]]. exists n. split; [|exact E].
      unfold L. apply in_or_app. left. exact Hn. }
  rewrite (holds_ren eps tt objs s cnd (single v c) ((v, o) :: e) ((c, o) :: e)); [|
    eapply agree_on_incl; [exact H1|]; apply incl_appl; apply incl_refl | exact Hnc].
  rewrite (ground_prims_ren s rho' ((c, o) :: e) ((c, o) :: e') (map (ren_prim (single v c)) es)).
  2:{ intros x Hx. apply H2. apply in_flat_map in Hx. destruct Hx as [p' [Hp' Hx]].
      apply in_map_iff in Hp'. destruct Hp' as [p [<- Hp]].
      destruct (in_free_prim_ren (single v c) p x Hx) as [n [Hn E]]. exists n. split; [|exact E].
      unfold L. apply in_or_app. right. apply in_flat_map. exists p. split; assumption. }
  rewrite (ground_prims_ren s (single v c) ((v, o) :: e) ((c, o) :: e) es); [reflexivity|].
  eapply agree_on_incl; [exact H1|]. apply incl_appr. apply incl_refl.
Qed.
