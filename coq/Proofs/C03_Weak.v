(* C03, calls whose firing effect groups are INCONSISTENT (a fluent set twice, an atom added by one group and deleted by
   another).  PDDL does not define the successor there and the property does not speak about such calls; the
   correspondence check still judges what the library returns by the oracle [weak_succ_ok] below (frame + membership).
   This file defines the oracle and proves that it never raises a false alarm: the outcome of applying the firing groups
   one after another IN ANY ORDER (each group: deletes, then adds and numeric updates - Spec.Pddl.succ) passes it. *)
From Coq Require Import List String Bool PrimFloat Permutation ZArith PArith SpecFloat.
From Verif Require Import Base.Str Base.Float Spec.Pddl Spec.Joint Proofs.C16_Sets Proofs.C16_Commute.
Import ListNotations.
Open Scope string_scope.
Open Scope list_scope.

(* atoms deleted by a group that does not add them back (inside one group the delete comes first) *)
Definition pure_dels (groups : list (list gprim)) : list atom :=
  flat_map (fun g => filter (fun a => negb (atom_in a (adds_of g))) (dels_of g)) groups.

Definition group_values (k : atom) (g : list gprim) : list float :=
  flat_map (fun x => match x with GSet a v => if atom_eqb a k then [v] else [] | _ => [] end) g.
Definition set_values (k : atom) (groups : list (list gprim)) : list float := flat_map (group_values k) groups.

Definition weak_fact_ok (s s' : state) (adds pdels : list atom) (a : atom) : bool :=
  let inA := atom_in a adds in
  let inD := atom_in a pdels in
  if inA && negb inD then atom_in a (facts s')
  else if inD && negb inA then negb (atom_in a (facts s'))
  else if inA then true
  else Bool.eqb (atom_in a (facts s')) (atom_in a (facts s)).

Definition weak_fluent_ok (s s' : state) (groups : list (list gprim)) (k : atom) : bool :=
  match set_values k groups with
  | [] => match fluent_get k (fluents s'), fluent_get k (fluents s) with
          | Some x, Some y => float_beq x y
          | None, None => true
          | _, _ => false
          end
  | vs => match fluent_get k (fluents s') with
          | Some x => existsb (float_beq x) vs
          | None => false
          end
  end.

Definition weak_succ_ok (s : state) (groups : list (list gprim)) (s' : state) : bool :=
  let adds := flat_map adds_of groups in
  let pdels := pure_dels groups in
  forallb (weak_fact_ok s s' adds pdels) (facts s ++ facts s' ++ adds ++ flat_map dels_of groups) &&
  forallb (weak_fluent_ok s s' groups) (map fst (fluents s) ++ map fst (fluents s') ++ flat_map sets_of groups).

(* no group sets one fluent twice: then the model, run in the observed visiting order, predicts the state exactly *)
Definition inner_determined (groups : list (list gprim)) : bool :=
  forallb (fun g => no_dup_atoms (sets_of g)) groups.

(* ---------- soundness of the oracle: no false alarm on any sequential outcome ---------- *)
Lemma sf_eqb_refl' : forall a, sf_eqb a a = true.
Proof.
  destruct a as [s| s | | s m e]; simpl; try reflexivity; try apply eqb_reflx.
  rewrite eqb_reflx, Pos.eqb_refl, Z.eqb_refl. reflexivity.
Qed.
Lemma float_beq_refl' : forall x, float_beq x x = true.
Proof. intros x. apply sf_eqb_refl'. Qed.

Lemma in_pure_dels : forall a gs, In a (pure_dels gs) <-> exists g, In g gs /\ In a (dels_of g) /\ ~ In a (adds_of g).
Proof.
  intros a gs. unfold pure_dels. rewrite in_flat_map. split.
  - intros [g [Hg Hf]]. apply filter_In in Hf. destruct Hf as [Hd Hn].
    exists g. split; [exact Hg|]. split; [exact Hd|]. apply negb_true_iff in Hn. apply atom_in_false in Hn. exact Hn.
  - intros [g [Hg [Hd Hn]]]. exists g. split; [exact Hg|]. apply filter_In. split; [exact Hd|].
    apply negb_true_iff. apply atom_in_false. exact Hn.
Qed.

(* an atom that some group adds and that no group deletes without adding it back is there at the end *)
Lemma atom_after_added_back : forall a gs b,
  In a (flat_map adds_of gs) -> ~ In a (pure_dels gs) -> atom_after a gs b = true.
Proof.
  intros a gs. induction gs as [|g r IH]; intros b Ha Hp; simpl in Ha; [contradiction|].
  unfold atom_after. simpl. fold (atom_after a r).
  assert (Hp' : ~ In a (pure_dels r)).
  { intros H. apply Hp. apply in_pure_dels in H. destruct H as [h [Hh Hrest]]. apply in_pure_dels. exists h. split; [right; exact Hh | exact Hrest]. }
  destruct (atom_in a (flat_map adds_of r)) eqn:Er.
  - apply IH; [apply atom_in_In; exact Er | exact Hp'].
  - apply atom_in_false in Er. apply in_app_iff in Ha. destruct Ha as [Ha|Ha]; [|contradiction].
    apply atom_in_In in Ha. rewrite Ha. simpl.
    apply atom_after_kept. intros Hd. apply in_flat_map in Hd. destruct Hd as [h [Hh Hd]].
    apply Hp'. apply in_pure_dels. exists h. split; [exact Hh|]. split; [exact Hd|].
    intros Hadd. apply Er. apply in_flat_map. exists h. split; assumption.
Qed.

Lemma dels_without_adds_pure : forall a gs,
  ~ In a (flat_map adds_of gs) -> In a (flat_map dels_of gs) -> In a (pure_dels gs).
Proof.
  intros a gs Ha Hd. apply in_flat_map in Hd. destruct Hd as [g [Hg Hd]]. apply in_pure_dels.
  exists g. split; [exact Hg|]. split; [exact Hd|]. intros H. apply Ha. apply in_flat_map. exists g. split; assumption.
Qed.

Lemma pure_dels_in_dels : forall a gs, In a (pure_dels gs) -> In a (flat_map dels_of gs).
Proof.
  intros a gs H. apply in_pure_dels in H. destruct H as [g [Hg [Hd _]]]. apply in_flat_map. exists g. split; assumption.
Qed.

(* membership in the firing sets does not depend on the order of the groups *)
Lemma in_flat_map_perm : forall (A B : Type) (f : A -> list B) l l' x,
  Permutation l l' -> In x (flat_map f l) -> In x (flat_map f l').
Proof.
  intros A B f l l' x HP H. apply in_flat_map in H. destruct H as [g [Hg Hx]].
  apply in_flat_map. exists g. split; [eapply Permutation_in; eassumption | exact Hx].
Qed.

Lemma weak_fact_sound : forall s gs gs' a,
  Permutation gs gs' -> weak_fact_ok s (succ s gs') (flat_map adds_of gs) (pure_dels gs) a = true.
Proof.
  intros s gs gs' a HP. unfold weak_fact_ok. rewrite succ_atom.
  assert (HPs : Permutation gs' gs) by (apply Permutation_sym; exact HP).
  destruct (atom_in a (flat_map adds_of gs)) eqn:EA; destruct (atom_in a (pure_dels gs)) eqn:ED; simpl.
  - reflexivity.
  - apply atom_in_In in EA. apply atom_in_false in ED.
    apply atom_after_added_back.
    + eapply in_flat_map_perm; eassumption.
    + intros H. apply ED. unfold pure_dels in *. eapply in_flat_map_perm; eassumption.
  - apply atom_in_false in EA. apply atom_in_In in ED. apply negb_true_iff.
    apply atom_after_deleted.
    + intros H. apply EA. eapply in_flat_map_perm; eassumption.
    + apply pure_dels_in_dels. unfold pure_dels in *. eapply in_flat_map_perm; eassumption.
  - apply atom_in_false in EA. apply atom_in_false in ED.
    rewrite atom_after_untouched; [apply eqb_reflx | |].
    + intros H. apply EA. eapply in_flat_map_perm; eassumption.
    + intros H. apply ED. apply dels_without_adds_pure.
      * exact EA.
      * eapply in_flat_map_perm; eassumption.
Qed.

(* the value a group leaves in a fluent is one of the values its effects computed *)
Lemma last_set_in_values : forall k g v, last_set k g = Some v -> In v (group_values k g).
Proof.
  intros k g v H. apply last_set_Some_In in H. unfold group_values. apply in_flat_map.
  exists (GSet k v). split; [exact H|]. rewrite atom_eqb_refl. left. reflexivity.
Qed.

Lemma group_values_nil : forall k g, ~ In k (sets_of g) -> group_values k g = [].
Proof.
  intros k g. unfold group_values, sets_of. induction g as [|x r IH]; intros H; simpl; [reflexivity|].
  simpl in H. destruct x as [a|a|a v]; simpl in *; try (apply IH; exact H).
  destruct (atom_eqb a k) eqn:E.
  - exfalso. apply H. left. apply atom_eqb_eq. exact E.
  - simpl. apply IH. intros Hin. apply H. right. exact Hin.
Qed.

Lemma fluent_after_cases : forall k gs v,
  (fluent_after k gs v = v /\ ~ In k (flat_map sets_of gs)) \/
  (exists x, fluent_after k gs v = Some x /\ In x (set_values k gs)).
Proof.
  intros k gs. unfold fluent_after, set_values. induction gs as [|g r IH]; intros v; simpl.
  - left. split; [reflexivity | intros []].
  - destruct (last_set k g) eqn:E; simpl.
    + (* the group sets k to f: afterwards either a later group's value or f *)
      destruct (IH (Some f)) as [[H1 H2]|[x [H1 H2]]].
      * right. exists f. split; [exact H1|]. apply in_or_app. left. apply last_set_in_values. exact E.
      * right. exists x. split; [exact H1|]. apply in_or_app. right. exact H2.
    + destruct (IH v) as [[H1 H2]|[x [H1 H2]]].
      * left. split; [exact H1|]. intros Hin. apply in_app_iff in Hin. destruct Hin as [Hin|Hin]; [|contradiction].
        apply last_set_None in E. contradiction.
      * right. exists x. split; [exact H1|]. apply in_or_app. right. exact H2.
Qed.

Lemma set_values_nil : forall k gs, ~ In k (flat_map sets_of gs) -> set_values k gs = [].
Proof.
  intros k gs. unfold set_values. induction gs as [|g r IH]; intros H; simpl; [reflexivity|].
  simpl in H. rewrite group_values_nil; [simpl; apply IH|]; intros Hin; apply H; apply in_or_app; tauto.
Qed.

Lemma set_values_not_nil : forall k gs x, In x (set_values k gs) -> In k (flat_map sets_of gs).
Proof.
  intros k gs x H. destruct (atom_in k (flat_map sets_of gs)) eqn:E; [apply atom_in_In; exact E|].
  apply atom_in_false in E. rewrite (set_values_nil _ _ E) in H. contradiction.
Qed.

Lemma existsb_beq_in : forall x vs, In x vs -> existsb (float_beq x) vs = true.
Proof. intros x vs H. apply existsb_exists. exists x. split; [exact H | apply float_beq_refl']. Qed.

Lemma weak_fluent_sound : forall s gs gs' k,
  Permutation gs gs' -> weak_fluent_ok s (succ s gs') gs k = true.
Proof.
  intros s gs gs' k HP. unfold weak_fluent_ok. rewrite succ_fluent.
  assert (HPs : Permutation gs' gs) by (apply Permutation_sym; exact HP).
  destruct (fluent_after_cases k gs' (fluent_get k (fluents s))) as [[H1 H2]|[x [H1 H2]]].
  - rewrite H1. rewrite set_values_nil.
    + destruct (fluent_get k (fluents s)); [apply float_beq_refl' | reflexivity].
    + intros H. apply H2. eapply in_flat_map_perm; eassumption.
  - rewrite H1. assert (Hin : In x (set_values k gs)) by (unfold set_values in *; eapply in_flat_map_perm; eassumption).
    destruct (set_values k gs) eqn:E; [contradiction|]. apply existsb_beq_in. exact Hin.
Qed.

(* whatever order the firing groups are taken in, the outcome passes the oracle *)
Theorem weak_succ_sound : forall s gs gs', Permutation gs gs' -> weak_succ_ok s gs (succ s gs') = true.
Proof.
  intros s gs gs' HP. unfold weak_succ_ok. apply andb_true_iff. split; apply forallb_forall; intros x _.
  - apply weak_fact_sound. exact HP.
  - apply weak_fluent_sound. exact HP.
Qed.
