(* C04: how a plan line is read.  parse_action_call = lower(), pad the parentheses, split() - on a line without ';' this
   is exactly the token stream of the PDDL tokenizer model (Model/Tokenizer.v), so C11's layout theorem applies:
   a call written "( name arg ... arg )" with any blanks and any letter case, followed by blanks or a newline, is read
   as the lower-cased call.  Every line, every layout (induction on the text), no bound. *)
From Coq Require Import List Ascii String Bool Arith Lia.
From Verif Require Import Base.Result Base.Str Base.Sexp Model.Tokenizer Model.Plan Spec.Layout Proofs.C11_Tokenizer.
Import ListNotations.
Open Scope list_scope.

Lemma lower_keeps_ws c : is_ws (lower_ascii c) = is_ws c.
Proof.
  by_ascii (fun c => Bool.eqb (is_ws (lower_ascii c)) (is_ws c)) c F. apply eqb_prop in F. exact F.
Qed.

Lemma lower_keeps_paren c : is_paren (lower_ascii c) = is_paren c.
Proof.
  by_ascii (fun c => Bool.eqb (is_paren (lower_ascii c)) (is_paren c)) c F. apply eqb_prop in F. exact F.
Qed.

Lemma sp_is_ws : is_ws SP = true. Proof. reflexivity. Qed.

(* the literal pipeline and the one-pass tokenizer agree on comment-free text *)
Lemma split_eq_tk m cs :
  Forall (fun c => Ascii.eqb c SEMI = false) cs ->
  forall cur, split_aux (pad_parens (lower_text cs)) cur = tk m cs cur.
Proof.
  induction 1 as [|c r Hc _ IH]; intros cur; [reflexivity|].
  cbn [lower_text map pad_parens flat_map tk]. rewrite Hc.
  fold (lower_text r). fold (pad_parens (lower_text r)).
  rewrite lower_keeps_paren.
  destruct (is_paren c) eqn:Ep.
  - rewrite (lower_paren c Ep).
    cbn [app split_aux]. rewrite sp_is_ws.
    assert (Hnw : is_ws c = false).
    { destruct (is_ws c) eqn:E; [|reflexivity]. apply ws_not_paren in E. congruence. }
    rewrite Hnw. cbn [flush]. rewrite IH. reflexivity.
  - cbn [app split_aux]. rewrite lower_keeps_ws.
    destruct (is_ws c) eqn:Ew; rewrite IH; reflexivity.
Qed.

Definition no_comment (t : text) : Prop := Forall (fun c => Ascii.eqb c SEMI = false) t.

Theorem action_tokens_tokenize m (line : string) :
  no_comment (s2t line) -> action_tokens line = tokenize m (s2t line).
Proof. intros H. unfold action_tokens, py_split, tokenize. apply split_eq_tk. exact H. Qed.

(* ---------- a call in any layout ---------- *)
Definition is_blank (s : text) : Prop := Forall (fun c => is_ws c = true) s.

Lemma blank_is_sep m s : is_blank s -> is_sep m s.
Proof. induction 1 as [|c r Hc _ IH]; [constructor | apply sep_ws; assumption]. Qed.

Lemma blank_no_comment s : is_blank s -> no_comment s.
Proof. unfold is_blank, no_comment. intros H. eapply Forall_impl; [|exact H]. intros c. apply ws_not_semi. Qed.

Lemma atom_no_comment t : is_atom_text t -> no_comment t.
Proof.
  intros [_ H]. unfold no_comment. eapply Forall_impl; [|exact H]. intros c Hc. apply atom_char_facts in Hc. tauto.
Qed.

(* the tokens of a call: "(" name args ")" *)
Definition call_tokens (name : text) (args : list text) : list text := [LP] :: name :: args ++ [[RP]].

Lemma render_no_comment items trailer :
  Forall (fun st => no_comment (fst st) /\ no_comment (snd st)) items -> no_comment trailer ->
  no_comment (render items trailer).
Proof.
  intros H Ht. unfold render, no_comment. apply Forall_app. split; [|exact Ht].
  induction H as [|[s t] r [Hs Htk] _ IH]; [constructor|]. cbn [flat_map fst snd].
  apply Forall_app. split; [apply Forall_app; split; assumption | exact IH].
Qed.

Lemma slice_call {A} (x : A) (n : A) (args : list A) (y : A) : slice_1_m1 (x :: n :: args ++ [y]) = n :: args.
Proof.
  unfold slice_1_m1. cbn [tl]. change (n :: args ++ [y]) with ((n :: args) ++ [y]). apply removelast_last.
Qed.

Lemma map_tokstr_combine (seps toks : list text) :
  List.length seps = List.length toks ->
  map tokstr (combine seps toks) = map (fun t => t2s (lower_text t)) toks.
Proof.
  revert seps. induction toks as [|t r IH]; intros seps Hlen; destruct seps as [|s ss]; simpl in *; try discriminate; [reflexivity|].
  unfold tokstr at 1. simpl. f_equal. apply IH. lia.
Qed.

(* THE READING OF A PLAN LINE: separators [seps] (one before each token: before "(", the name, every argument and ")")
   are blanks - non-empty between two names -, the trailer is blank (e.g. the newline): the call read is the lower-cased
   name with the lower-cased arguments, in order *)
Theorem parse_action_call_layout (name : text) (args seps : list text) (trailer : text) :
  is_atom_text name -> Forall is_atom_text args ->
  List.length seps = List.length (call_tokens name args) ->
  Forall is_blank seps -> is_blank trailer ->
  valid_from MStr false (combine seps (call_tokens name args)) ->
  parse_action_call (t2s (render (combine seps (call_tokens name args)) trailer)) =
  Ok {| ac_name := t2s (lower_text name); ac_args := map (fun a => t2s (lower_text a)) args |}.
Proof.
  intros Hn Ha Hlen Hb Htr Hv.
  unfold parse_action_call.
  rewrite (action_tokens_tokenize MStr).
  - rewrite s2t_t2s. rewrite tokenize_render; [|exact Hv | apply tr_sep; apply blank_is_sep; exact Htr].
    unfold call_tokens in *.
    rewrite (map_tokstr_combine seps _ Hlen). cbn [map]. rewrite map_app. cbn [map].
    rewrite slice_call. reflexivity.
  - rewrite s2t_t2s. apply render_no_comment; [|apply blank_no_comment; exact Htr].
    unfold call_tokens in *.
    assert (Htoks : Forall no_comment ([LP] :: name :: args ++ [[RP]])).
    { constructor; [repeat constructor|]. constructor; [apply atom_no_comment; exact Hn|].
      apply Forall_app. split; [eapply Forall_impl; [|exact Ha]; intros a; apply atom_no_comment | repeat constructor]. }
    clear Hv. revert seps Hlen Hb. revert Htoks. generalize ([LP] :: name :: args ++ [[RP]]) as toks.
    intros toks Htoks. induction Htoks as [|t r Ht _ IH]; intros seps Hlen Hb; destruct seps as [|s ss]; simpl in *; try discriminate; [constructor|].
    inversion Hb; subst. constructor; [split; [apply blank_no_comment; assumption | exact Ht] | apply IH; [lia | assumption]].
Qed.

(* the hypotheses are satisfiable: "  ( MOVE<TAB>L1  l2 )<LF>" *)
Definition lx_name : text := s2t "MOVE".
Definition lx_args : list text := [s2t "L1"; s2t "l2"].
Definition lx_seps : list text := [[SP; SP]; [SP]; [TAB]; [SP; SP]; [SP]].
Definition lx_trailer : text := [LF].

Lemma lx_hypotheses :
  is_atom_text lx_name /\ Forall is_atom_text lx_args /\
  List.length lx_seps = List.length (call_tokens lx_name lx_args) /\
  Forall is_blank lx_seps /\ is_blank lx_trailer /\
  valid_from MStr false (combine lx_seps (call_tokens lx_name lx_args)).
Proof.
  assert (Hat : forall t, t <> [] -> forallb atom_char t = true -> is_atom_text t).
  { intros t Hne Hb. split; [exact Hne|]. apply Forall_forall. intros c Hc. rewrite forallb_forall in Hb. auto. }
  assert (Hbl : forall t, forallb is_ws t = true -> is_blank t).
  { intros t Hb. apply Forall_forall. intros c Hc. rewrite forallb_forall in Hb. auto. }
  assert (Hname : is_atom_text lx_name) by (apply Hat; [discriminate | reflexivity]).
  assert (Ha1 : is_atom_text (s2t "L1")) by (apply Hat; [discriminate | reflexivity]).
  assert (Ha2 : is_atom_text (s2t "l2")) by (apply Hat; [discriminate | reflexivity]).
  split; [exact Hname|]. split; [apply Forall_cons; [exact Ha1 | apply Forall_cons; [exact Ha2 | apply Forall_nil]]|].
  split; [reflexivity|].
  split; [unfold lx_seps; repeat (apply Forall_cons; [apply Hbl; reflexivity|]); apply Forall_nil|].
  split; [apply Hbl; reflexivity|].
  simpl. repeat split; try (apply blank_is_sep; apply Hbl; reflexivity); try discriminate;
    try (left; reflexivity); try (right; left; reflexivity); try (right; right; assumption).
Qed.

Lemma lx_reading :
  parse_action_call (t2s (render (combine lx_seps (call_tokens lx_name lx_args)) lx_trailer)) =
  Ok {| ac_name := "move"; ac_args := ["l1"; "l2"]%string |}.
Proof.
  destruct lx_hypotheses as [H1 [H2 [H3 [H4 [H5 H6]]]]].
  rewrite (parse_action_call_layout lx_name lx_args lx_seps lx_trailer H1 H2 H3 H4 H5 H6). reflexivity.
Qed.
