(* C20: what Operator.ground() REPORTS (Model/GroundTyped.v) is the spec's substituted schema (Spec/Subst.v) --
   literals with polarity, arguments replaced position by position and the types of the typed form; numeric
   expressions; (in)equality pairs -- on every call outside the two recorded finding classes
   (D38: a quantified body that mentions something the call replaces; D07: a fluent application whose grounded
   arguments repeat a name), and refutations inside them. *)
From Coq Require Import List Ascii String Bool Arith PrimFloat Lia.
From Verif Require Import Base.Result Base.Str Base.PyDict Model.Types Model.Domain Model.Exec Model.GroundTyped
  Spec.Pddl Spec.Subst Proofs.C02_Sub Proofs.C20_Defs Proofs.C20_Subst Proofs.C02_Eval.
Import ListNotations.
Open Scope string_scope.
Open Scope list_scope.

(* ---------- how a spec item looks as a reported item ---------- *)
Definition binop_str (o : binop) : string := match o with OAdd => "+" | OSub => "-" | OMul => "*" | ODiv => "/" end.
Definition cmpop_str (c : cmpop) : string :=
  match c with CEq => "=" | CLe => "<=" | CGe => ">=" | CLt => "<" | CGt => ">" end.
Definition assignop_str (k : assignop) : string :=
  match k with AAssign => "assign" | AIncrease => "increase" | ADecrease => "decrease" end.

Fixpoint nexp_gtree (n : nexp) : gtree :=
  match n with
  | NNum x => GTNum x
  | NFl f args => GTFn (f, args)
  | NBin o a b => GTNode (binop_str o) (nexp_gtree a) (nexp_gtree b)
  end.

Definition cmp_gtree_of (x : cmpop * nexp * nexp) : gtree :=
  GTNode (cmpop_str (fst (fst x))) (nexp_gtree (snd (fst x))) (nexp_gtree (snd x)).

Definition rlit_struct (l : rlit) : tlit :=
  {| tl_pos := rl_pos l; tl_atom := (rl_name l, rl_args l); tl_types := rl_types l |}.

(* ---------- operator names ---------- *)
Lemma binop_of_str op o : binop_of op = Some o -> op = binop_str o.
Proof.
  unfold binop_of.
  destruct (String.eqb op "+") eqn:E1; [apply String.eqb_eq in E1; intros H; injection H as <-; exact E1|].
  destruct (String.eqb op "-") eqn:E2; [apply String.eqb_eq in E2; intros H; injection H as <-; exact E2|].
  destruct (String.eqb op "*") eqn:E3; [apply String.eqb_eq in E3; intros H; injection H as <-; exact E3|].
  destruct (String.eqb op "/") eqn:E4; [apply String.eqb_eq in E4; intros H; injection H as <-; exact E4|].
  discriminate.
Qed.

Lemma cmpop_of_str op c : cmpop_of op = Some c -> op = cmpop_str c.
Proof.
  unfold cmpop_of.
  destruct (String.eqb op "=") eqn:E1; [apply String.eqb_eq in E1; intros H; injection H as <-; exact E1|].
  destruct (String.eqb op "<=") eqn:E2; [apply String.eqb_eq in E2; intros H; injection H as <-; exact E2|].
  destruct (String.eqb op ">=") eqn:E3; [apply String.eqb_eq in E3; intros H; injection H as <-; exact E3|].
  destruct (String.eqb op "<") eqn:E4; [apply String.eqb_eq in E4; intros H; injection H as <-; exact E4|].
  destruct (String.eqb op ">") eqn:E5; [apply String.eqb_eq in E5; intros H; injection H as <-; exact E5|].
  discriminate.
Qed.

(* ---------- name-keyed dicts: no repeated name, no collapse ---------- *)
Lemma dset_fresh {V} (d : pydict V) k (v : V) : dmem d k = false -> dset d k v = d ++ [(k, v)].
Proof.
  unfold dmem. induction d as [|[k' v'] r IH]; simpl; intros H; [reflexivity|].
  destruct (String.eqb k k'); [discriminate|]. rewrite (IH H). reflexivity.
Qed.

Lemma dmem_app_single {V} (d : pydict V) k (v : V) x : dmem (d ++ [(k, v)]) x = dmem d x || String.eqb x k.
Proof.
  unfold dmem. induction d as [|[k' v'] r IH]; simpl.
  - destruct (String.eqb x k); reflexivity.
  - destruct (String.eqb x k'); [reflexivity|exact IH].
Qed.

Lemma fold_dset_keys (l : list string) : forall (d : pydict unit),
  (forall x, In x l -> dmem d x = false) -> repeats l = false ->
  dkeys (fold_left (fun d x => dset d x tt) l d) = dkeys d ++ l.
Proof.
  induction l as [|x r IH]; intros d Hd Hr; simpl.
  - rewrite app_nil_r. reflexivity.
  - simpl in Hr. apply orb_false_iff in Hr. destruct Hr as [Hx Hr].
    rewrite (dset_fresh d x tt (Hd x (or_introl eq_refl))).
    rewrite IH; [|intros y Hy|exact Hr].
    + unfold dkeys. rewrite map_app. simpl. rewrite <- app_assoc. reflexivity.
    + rewrite dmem_app_single, (Hd y (or_intror Hy)). simpl.
      destruct (String.eqb y x) eqn:E; [|reflexivity].
      apply String.eqb_eq in E. subst y. apply str_in_In in Hy. rewrite Hy in Hx. discriminate.
Qed.

Lemma key_collapse_norepeat (l : list string) : repeats l = false -> key_collapse l = l.
Proof. intros H. unfold key_collapse. rewrite fold_dset_keys; [reflexivity|reflexivity|exact H]. Qed.

(* ---------- untouched names ---------- *)
Lemma touches_false sg names : touches sg names = false -> map (subst sg) names = names.
Proof.
  unfold touches. induction names as [|t r IH]; simpl; intros H; [reflexivity|].
  apply orb_false_iff in H. destruct H as [Ht Hr]. rewrite (IH Hr).
  destruct (String.eqb (subst sg t) t) eqn:E; [|discriminate]. apply String.eqb_eq in E. rewrite E. reflexivity.
Qed.

Lemma touches_app sg a b : touches sg (a ++ b) = touches sg a || touches sg b.
Proof. unfold touches. apply existsb_app. Qed.

Definition sig_agree (sg : signature) (scope : list (name * name)) : Prop := forall t, dget sg t = lookup t scope.

Lemma sig_agree_dset sg scope v ty : sig_agree sg scope -> sig_agree (dset sg v ty) ((v, ty) :: scope).
Proof.
  intros H k. simpl. destruct (String.eqb k v) eqn:E.
  - apply String.eqb_eq in E. subst k. apply dget_dset_same.
  - rewrite dget_dset_other; [apply H|]. intros ->. rewrite String.eqb_refl in E. discriminate.
Qed.

Lemma sig_agree_refl (sg : signature) : sig_agree sg sg.
Proof. intros t. apply dget_lookup. Qed.

Section Report.
  Variable dom : mdomain.
  Let consts := d_consts dom.

  (* ---------- types of the typed form ---------- *)
  Lemma name_type_spec sg scope t ty :
    sig_agree sg scope -> nsh consts sg -> name_type dom sg t = Ok ty -> ty = type_of scope consts t.
  Proof.
    intros Hs Hn. unfold name_type, type_of. fold consts. rewrite <- (Hs t).
    pose proof (dget_lookup consts t) as E. unfold name in *.
    destruct (dget consts t) as [tc|] eqn:Ec.
    - intros H. injection H as <-.
      assert (Hm : dmem consts t = true) by (unfold dmem; rewrite Ec; reflexivity).
      rewrite (Hn t Hm). rewrite <- E. reflexivity.
    - destruct (dget sg t) as [ts|]; [|discriminate]. intros H. injection H as <-. reflexivity.
  Qed.

  Lemma name_types_spec sg scope args tys :
    sig_agree sg scope -> nsh consts sg -> mapM (name_type dom sg) args = Ok tys ->
    tys = map (type_of scope consts) args.
  Proof.
    intros Hs Hn H. apply mapM_ok_inv in H. induction H as [|t ty args0 tys0 Hx Hr IH]; simpl; [reflexivity|].
    rewrite (name_type_spec sg scope t ty Hs Hn Hx), IH. reflexivity.
  Qed.

  Lemma names_spec pm sg args : env_agree pm sg -> nsh consts pm -> map (gname consts pm) args = map (subst sg) args.
  Proof.
    intros He Hn. apply map_ext. intros a. rewrite (gname_nsh _ _ _ Hn). apply env_agree_subst. exact He.
  Qed.

  Lemma report_lit_spec sg scope pm sigma pos p args l :
    sig_agree sg scope -> env_agree pm sigma -> nsh consts pm -> nsh consts sg ->
    report_lit dom sg pm pos p args = Ok l -> rlit_struct l = mk_lit consts scope sigma pos p args.
  Proof.
    intros Hs He Hn1 Hn2 H. unfold report_lit in H.
    apply bind_ok_inv in H. destruct H as [a [Ha H]].
    apply bind_ok_inv in H. destruct H as [tys [Ht H]]. injection H as <-.
    unfold rlit_struct, mk_lit. simpl.
    rewrite (ground_lit_ok dom pm p args a Ha). simpl. fold consts.
    rewrite (names_spec pm sigma args He Hn1), (name_types_spec sg scope args tys Hs Hn2 Ht). reflexivity.
  Qed.

  Lemma lifted_lit_spec sg scope sigma pos p args l :
    sig_agree sg scope -> nsh consts sg -> touches sigma args = false ->
    lifted_lit dom sg pos p args = Ok l -> rlit_struct l = mk_lit consts scope sigma pos p args.
  Proof.
    intros Hs Hn Ht H. unfold lifted_lit in H.
    apply bind_ok_inv in H. destruct H as [tys [Hty H]]. injection H as <-.
    unfold rlit_struct, mk_lit. simpl.
    rewrite (touches_false _ _ Ht), (name_types_spec sg scope args tys Hs Hn Hty). reflexivity.
  Qed.

  (* ---------- expressions ---------- *)
  Lemma report_tree_spec pm sigma (t : mtree) : forall n g,
    denote_tree t = Some n -> env_agree pm sigma -> nsh consts pm -> nexp_repeats sigma n = false ->
    report_tree dom pm t = Ok g -> g = nexp_gtree (subst_nexp sigma n).
  Proof.
    induction t as [x|f args|op l IHl r IHr]; intros n g Hd He Hn Hr Hg; simpl in Hd.
    - injection Hd as <-. simpl in Hg. injection Hg as <-. reflexivity.
    - injection Hd as <-. simpl in Hg. apply bind_ok_inv in Hg. destruct Hg as [os [Hos Hg]]. injection Hg as <-.
      rewrite (ground_names_ok dom pm args os Hos). fold consts. rewrite (names_spec pm sigma args He Hn).
      simpl in Hr. rewrite (key_collapse_norepeat _ Hr). reflexivity.
    - destruct (binop_of op) as [o|] eqn:Eo; [|discriminate].
      destruct (denote_tree l) as [a|] eqn:El; [|discriminate].
      destruct (denote_tree r) as [b|] eqn:Er; [|discriminate]. injection Hd as <-.
      simpl in Hr. apply orb_false_iff in Hr. destruct Hr as [Hra Hrb].
      simpl in Hg. apply bind_ok_inv in Hg. destruct Hg as [gl [Hgl Hg]].
      apply bind_ok_inv in Hg. destruct Hg as [gr [Hgr Hg]]. injection Hg as <-.
      simpl. rewrite (IHl _ _ eq_refl He Hn Hra Hgl), (IHr _ _ eq_refl He Hn Hrb Hgr), (binop_of_str _ _ Eo). reflexivity.
  Qed.

  Lemma lifted_tree_spec sigma (t : mtree) : forall n,
    denote_tree t = Some n -> touches sigma (nexp_names n) = false ->
    lifted_tree t = nexp_gtree (subst_nexp sigma n).
  Proof.
    induction t as [x|f args|op l IHl r IHr]; intros n Hd Ht; simpl in Hd.
    - injection Hd as <-. reflexivity.
    - injection Hd as <-. simpl in *. rewrite (touches_false _ _ Ht). reflexivity.
    - destruct (binop_of op) as [o|] eqn:Eo; [|discriminate].
      destruct (denote_tree l) as [a|] eqn:El; [|discriminate].
      destruct (denote_tree r) as [b|] eqn:Er; [|discriminate]. injection Hd as <-.
      simpl in Ht. rewrite touches_app in Ht. apply orb_false_iff in Ht. destruct Ht as [Hta Htb].
      simpl. rewrite (IHl _ eq_refl Hta), (IHr _ eq_refl Htb), (binop_of_str _ _ Eo). reflexivity.
  Qed.

  (* a numeric condition: the comparison operator at the root *)
  Lemma report_cmp_spec pm sigma (t : mtree) c a b g :
    denote_cmp t = Some (FCmp c a b) -> env_agree pm sigma -> nsh consts pm ->
    nexp_repeats sigma a || nexp_repeats sigma b = false ->
    report_tree dom pm t = Ok g -> g = cmp_gtree_of (c, subst_nexp sigma a, subst_nexp sigma b).
  Proof.
    intros Hd He Hn Hr Hg. destruct t as [x|f args|op l r]; simpl in Hd; try discriminate.
    destruct (cmpop_of op) as [c'|] eqn:Ec; [|discriminate].
    destruct (denote_tree l) as [a'|] eqn:El; [|discriminate].
    destruct (denote_tree r) as [b'|] eqn:Er; [|discriminate]. injection Hd as <- <- <-.
    apply orb_false_iff in Hr. destruct Hr as [Hra Hrb].
    simpl in Hg. apply bind_ok_inv in Hg. destruct Hg as [gl [Hgl Hg]].
    apply bind_ok_inv in Hg. destruct Hg as [gr [Hgr Hg]]. injection Hg as <-.
    unfold cmp_gtree_of. simpl.
    rewrite (report_tree_spec pm sigma l _ _ El He Hn Hra Hgl), (report_tree_spec pm sigma r _ _ Er He Hn Hrb Hgr),
      (cmpop_of_str _ _ Ec). reflexivity.
  Qed.

  Lemma lifted_cmp_spec sigma (t : mtree) c a b :
    denote_cmp t = Some (FCmp c a b) -> touches sigma (nexp_names a ++ nexp_names b) = false ->
    lifted_tree t = cmp_gtree_of (c, subst_nexp sigma a, subst_nexp sigma b).
  Proof.
    intros Hd Ht. destruct t as [x|f args|op l r]; simpl in Hd; try discriminate.
    destruct (cmpop_of op) as [c'|] eqn:Ec; [|discriminate].
    destruct (denote_tree l) as [a'|] eqn:El; [|discriminate].
    destruct (denote_tree r) as [b'|] eqn:Er; [|discriminate]. injection Hd as <- <- <-.
    rewrite touches_app in Ht. apply orb_false_iff in Ht. destruct Ht as [Hta Htb].
    unfold cmp_gtree_of. simpl.
    rewrite (lifted_tree_spec sigma l _ El Hta), (lifted_tree_spec sigma r _ Er Htb), (cmpop_of_str _ _ Ec). reflexivity.
  Qed.

  Lemma denote_cmp_shape t phi : denote_cmp t = Some phi -> exists c a b, phi = FCmp c a b.
  Proof.
    destruct t as [x|f args|op l r]; simpl; try discriminate.
    destruct (cmpop_of op); [|discriminate]. destruct (denote_tree l); [|discriminate].
    destruct (denote_tree r); [|discriminate]. intros H. injection H as <-. eauto.
  Qed.

  (* ---------- equation lemmas for the report functions ---------- *)
  Definition report_conds (sg : signature) (pm : pmap) : list mcond -> result (list ritem * list eqpair) :=
    fix go (l : list mcond) : result (list ritem * list eqpair) :=
      match l with
      | [] => Ok ([], [])
      | c :: r => do x <- report_cond dom sg pm c; do y <- go r; Ok (fst x ++ fst y, snd x ++ snd y)
      end.
  Lemma report_conds_cons sg pm c r :
    report_conds sg pm (c :: r) =
    (do x <- report_cond dom sg pm c; do y <- report_conds sg pm r; Ok (fst x ++ fst y, snd x ++ snd y)).
  Proof. reflexivity. Qed.

  Lemma report_pre_eq sg pm op os eqs neqs :
    report_pre dom sg pm (MPre op os eqs neqs) =
    (do geqs <- ground_pairs pm eqs; do gneqs <- ground_pairs pm neqs;
     do rest <- report_conds sg pm os;
     Ok (fst rest, tag_pairs true geqs ++ tag_pairs false gneqs ++ snd rest)).
  Proof. reflexivity. Qed.

  Definition lifted_conds (sg : signature) : list mcond -> result (list ritem) :=
    fix go (l : list mcond) : result (list ritem) :=
      match l with
      | [] => Ok []
      | c :: r => do x <- lifted_cond_items dom sg c; do y <- go r; Ok (x ++ y)
      end.
  Lemma lifted_conds_cons sg c r :
    lifted_conds sg (c :: r) = (do x <- lifted_cond_items dom sg c; do y <- lifted_conds sg r; Ok (x ++ y)).
  Proof. reflexivity. Qed.
  Lemma lifted_items_eq sg op os eqs neqs : lifted_items dom sg (MPre op os eqs neqs) = lifted_conds sg os.
  Proof. reflexivity. Qed.

  Lemma items_lits_app a b : items_lits (a ++ b) = items_lits a ++ items_lits b.
  Proof. unfold items_lits. apply flat_map_app. Qed.
  Lemma items_nums_app a b : items_nums (a ++ b) = items_nums a ++ items_nums b.
  Proof. unfold items_nums. apply flat_map_app. Qed.

  (* ---------- the spec's items of a connective ---------- *)
  Definition conn_form (op : string) (fs : list form) : form := if String.eqb op "or" then FOr fs else FAnd fs.

  Lemma form_lits_conn scope sg op fs : form_lits consts scope sg (conn_form op fs) = flat_map (form_lits consts scope sg) fs.
  Proof. unfold conn_form. destruct (String.eqb op "or"); reflexivity. Qed.
  Lemma form_cmps_conn sg op fs : form_cmps sg (conn_form op fs) = flat_map (form_cmps sg) fs.
  Proof. unfold conn_form. destruct (String.eqb op "or"); reflexivity. Qed.
  Lemma form_eqs_conn sg op fs : form_eqs sg (conn_form op fs) = flat_map (form_eqs sg) fs.
  Proof. unfold conn_form. destruct (String.eqb op "or"); reflexivity. Qed.
  Lemma uft_conn sg under op fs :
    under_forall_touches sg under (conn_form op fs) = existsb (under_forall_touches sg under) fs.
  Proof. unfold conn_form. destruct (String.eqb op "or"); reflexivity. Qed.
  Lemma form_repeats_conn sg op fs : form_repeats sg (conn_form op fs) = existsb (form_repeats sg) fs.
  Proof. unfold conn_form. destruct (String.eqb op "or"); reflexivity. Qed.

  Lemma eq_forms_shape eqs neqs x :
    In x (eq_forms eqs neqs) -> (exists a b, x = FEq a b) \/ (exists a b, x = FNeq a b).
  Proof.
    unfold eq_forms. intros H. apply in_app_or in H. destruct H as [H|H]; apply in_map_iff in H;
      destruct H as [[a b] [<- _]]; [left|right]; eauto.
  Qed.

  Lemma flat_map_nil_all {A B} (f : A -> list B) (l : list A) : (forall x, In x l -> f x = []) -> flat_map f l = [].
  Proof.
    induction l as [|x r IH]; intros H; simpl; [reflexivity|].
    rewrite (H x (or_introl eq_refl)), IH; [reflexivity|]. intros y Hy. apply H. right. exact Hy.
  Qed.

  Lemma existsb_false_all {A} (f : A -> bool) (l : list A) : (forall x, In x l -> f x = false) -> existsb f l = false.
  Proof.
    induction l as [|x r IH]; intros H; simpl; [reflexivity|].
    rewrite (H x (or_introl eq_refl)), IH; [reflexivity|]. intros y Hy. apply H. right. exact Hy.
  Qed.

  Lemma eq_forms_lits scope sg eqs neqs : flat_map (form_lits consts scope sg) (eq_forms eqs neqs) = [].
  Proof.
    apply flat_map_nil_all. intros x Hx. destruct (eq_forms_shape _ _ _ Hx) as [[a [b ->]]|[a [b ->]]]; reflexivity.
  Qed.

  Lemma eq_forms_cmps sg eqs neqs : flat_map (form_cmps sg) (eq_forms eqs neqs) = [].
  Proof.
    apply flat_map_nil_all. intros x Hx. destruct (eq_forms_shape _ _ _ Hx) as [[a [b ->]]|[a [b ->]]]; reflexivity.
  Qed.

  Lemma eq_forms_eqs pm sg eqs neqs :
    env_agree pm sg ->
    flat_map (form_eqs sg) (eq_forms eqs neqs) =
    tag_pairs true (subst_pairs pm eqs) ++ tag_pairs false (subst_pairs pm neqs).
  Proof.
    intros He. unfold eq_forms. rewrite flat_map_app. f_equal.
    - induction eqs as [|[a b] r IH]; simpl; [reflexivity|].
      rewrite IH, !(env_agree_subst pm sg _ He). reflexivity.
    - induction neqs as [|[a b] r IH]; simpl; [reflexivity|].
      rewrite IH, !(env_agree_subst pm sg _ He). reflexivity.
  Qed.

  Lemma eq_forms_repeats sg eqs neqs : existsb (form_repeats sg) (eq_forms eqs neqs) = false.
  Proof.
    apply existsb_false_all. intros x Hx. destruct (eq_forms_shape _ _ _ Hx) as [[a [b ->]]|[a [b ->]]]; reflexivity.
  Qed.

  Lemma eq_forms_uft_false sg eqs neqs : existsb (under_forall_touches sg false) (eq_forms eqs neqs) = false.
  Proof.
    apply existsb_false_all. intros x Hx. destruct (eq_forms_shape _ _ _ Hx) as [[a [b ->]]|[a [b ->]]]; reflexivity.
  Qed.

  (* under a quantifier an (in)equality is already a difference: the hypothesis forces there to be none *)
  Lemma eq_forms_uft_true sg eqs neqs :
    existsb (under_forall_touches sg true) (eq_forms eqs neqs) = false -> eqs = [] /\ neqs = [].
  Proof.
    unfold eq_forms. rewrite existsb_app. intros H. apply orb_false_iff in H. destruct H as [H1 H2].
    destruct eqs as [|x r]; [|simpl in H1; discriminate].
    destruct neqs as [|y r']; [|simpl in H2; discriminate]. split; reflexivity.
  Qed.

  Lemma denote_pre_conn op os eqs neqs phi :
    denote_pre (MPre op os eqs neqs) = Some phi ->
    exists fs, Forall2 (fun c f => denote_cond c = Some f) os fs /\ phi = conn_form op (eq_forms eqs neqs ++ fs).
  Proof.
    intros H. destruct (denote_pre_inv _ _ _ _ _ H) as [fs [HF ->]]. exists fs. split; [exact HF|].
    unfold conn_form. destruct (String.eqb op "or"); reflexivity.
  Qed.

  (* ---------- the two inductions, run together ---------- *)
  Definition expected (scope : list (name * name)) (sigma : env) (phi : form) (items : list ritem) : Prop :=
    map rlit_struct (items_lits items) = form_lits consts scope sigma phi /\
    items_nums items = map cmp_gtree_of (form_cmps sigma phi).

  Definition PG (p : mpre) : Prop :=
    forall phi sg scope pm sigma items eqs,
      denote_pre p = Some phi -> sig_agree sg scope -> env_agree pm sigma -> nsh consts pm -> nsh consts sg ->
      no_shadow consts (pre_bvars p) = true ->
      under_forall_touches sigma false phi = false -> form_repeats sigma phi = false ->
      report_pre dom sg pm p = Ok (items, eqs) ->
      expected scope sigma phi items /\ eqs = form_eqs sigma phi.
  Definition QG (c : mcond) : Prop :=
    forall phi sg scope pm sigma items eqs,
      denote_cond c = Some phi -> sig_agree sg scope -> env_agree pm sigma -> nsh consts pm -> nsh consts sg ->
      no_shadow consts (cond_bvars c) = true ->
      under_forall_touches sigma false phi = false -> form_repeats sigma phi = false ->
      report_cond dom sg pm c = Ok (items, eqs) ->
      expected scope sigma phi items /\ eqs = form_eqs sigma phi.
  Definition PL (p : mpre) : Prop :=
    forall phi sg scope sigma items,
      denote_pre p = Some phi -> sig_agree sg scope -> nsh consts sg ->
      no_shadow consts (pre_bvars p) = true ->
      under_forall_touches sigma true phi = false ->
      lifted_items dom sg p = Ok items ->
      expected scope sigma phi items /\ form_eqs sigma phi = [].
  Definition QL (c : mcond) : Prop :=
    forall phi sg scope sigma items,
      denote_cond c = Some phi -> sig_agree sg scope -> nsh consts sg ->
      no_shadow consts (cond_bvars c) = true ->
      under_forall_touches sigma true phi = false ->
      lifted_cond_items dom sg c = Ok items ->
      expected scope sigma phi items /\ form_eqs sigma phi = [].

  Lemma Q_lit pos p args : QG (MLit pos p args) /\ QL (MLit pos p args).
  Proof.
    split.
    - intros phi sg scope pm sigma items eqs Hd Hs He Hn1 Hn2 _ _ _ H.
      rewrite denote_cond_lit in Hd. injection Hd as <-.
      change (report_cond dom sg pm (MLit pos p args)) with
        (do l <- report_lit dom sg pm pos p args; Ok ([RL l], @nil eqpair)) in H.
      apply bind_ok_inv in H. destruct H as [l [Hl H]]. injection H as <- <-.
      unfold expected. simpl. rewrite (report_lit_spec sg scope pm sigma pos p args l Hs He Hn1 Hn2 Hl).
      destruct pos; simpl; repeat split; reflexivity.
    - intros phi sg scope sigma items Hd Hs Hn _ Ht H.
      rewrite denote_cond_lit in Hd. injection Hd as <-.
      change (lifted_cond_items dom sg (MLit pos p args)) with (do l <- lifted_lit dom sg pos p args; Ok [RL l]) in H.
      apply bind_ok_inv in H. destruct H as [l [Hl H]]. injection H as <-.
      assert (Ht' : touches sigma args = false) by (destruct pos; exact Ht).
      unfold expected. simpl. rewrite (lifted_lit_spec sg scope sigma pos p args l Hs Hn Ht' Hl).
      destruct pos; simpl; repeat split; reflexivity.
  Qed.

  Lemma Q_num t : QG (MNum t) /\ QL (MNum t).
  Proof.
    split.
    - intros phi sg scope pm sigma items eqs Hd Hs He Hn1 Hn2 _ _ Hr H.
      rewrite denote_cond_num in Hd. destruct (denote_cmp_shape t phi Hd) as [c [a [b ->]]].
      change (report_cond dom sg pm (MNum t)) with (do g <- report_tree dom pm t; Ok ([RN g], @nil eqpair)) in H.
      apply bind_ok_inv in H. destruct H as [g [Hg H]]. injection H as <- <-.
      unfold expected. simpl. simpl in Hr.
      rewrite (report_cmp_spec pm sigma t c a b g Hd He Hn1 Hr Hg). repeat split; reflexivity.
    - intros phi sg scope sigma items Hd Hs Hn _ Ht H.
      rewrite denote_cond_num in Hd. destruct (denote_cmp_shape t phi Hd) as [c [a [b ->]]].
      change (lifted_cond_items dom sg (MNum t)) with (Ok [RN (lifted_tree t)]) in H. injection H as <-.
      unfold expected. simpl. simpl in Ht.
      rewrite (lifted_cmp_spec sigma t c a b Hd Ht). repeat split; reflexivity.
  Qed.

  Lemma Q_nested q : PG q /\ PL q -> QG (MNested q) /\ QL (MNested q).
  Proof.
    intros [IHg IHl]. split.
    - intros phi sg scope pm sigma items eqs Hd. rewrite denote_cond_nested in Hd.
      change (report_cond dom sg pm (MNested q)) with (report_pre dom sg pm q).
      change (cond_bvars (MNested q)) with (pre_bvars q). apply IHg. exact Hd.
    - intros phi sg scope sigma items Hd. rewrite denote_cond_nested in Hd.
      change (lifted_cond_items dom sg (MNested q)) with (lifted_items dom sg q).
      change (cond_bvars (MNested q)) with (pre_bvars q). apply IHl. exact Hd.
  Qed.

  Lemma Q_univ v ty body : PG body /\ PL body -> QG (MUniv v ty body) /\ QL (MUniv v ty body).
  Proof.
    intros [_ IHl]. split.
    - intros phi sg scope pm sigma items eqs Hd Hs He Hn1 Hn2 Hb Ht _ H.
      rewrite denote_cond_univ in Hd. destruct (denote_pre body) as [f|] eqn:Ef; [|discriminate]. injection Hd as <-.
      change (report_cond dom sg pm (MUniv v ty body)) with
        (do its <- lifted_items dom (dset sg v ty) body; Ok (its, @nil eqpair)) in H.
      apply bind_ok_inv in H. destruct H as [its [Hits H]]. injection H as <- <-.
      change (cond_bvars (MUniv v ty body)) with (v :: pre_bvars body) in Hb. simpl in Hb.
      apply andb_true_iff in Hb. destruct Hb as [Hv Hb].
      assert (Hv' : dmem consts v = false) by (destruct (dmem consts v); [discriminate|reflexivity]).
      simpl in Ht.
      destruct (IHl f (dset sg v ty) ((v, ty) :: scope) (unbind v sigma) its Ef (sig_agree_dset _ _ _ _ Hs)
                    (nsh_dset _ _ _ _ Hn2 Hv') Hb Ht Hits) as [Hexp Heq].
      split; [exact Hexp|]. simpl. symmetry. exact Heq.
    - intros phi sg scope sigma items Hd Hs Hn Hb Ht H.
      rewrite denote_cond_univ in Hd. destruct (denote_pre body) as [f|] eqn:Ef; [|discriminate]. injection Hd as <-.
      change (lifted_cond_items dom sg (MUniv v ty body)) with (lifted_items dom (dset sg v ty) body) in H.
      change (cond_bvars (MUniv v ty body)) with (v :: pre_bvars body) in Hb. simpl in Hb.
      apply andb_true_iff in Hb. destruct Hb as [Hv Hb].
      assert (Hv' : dmem consts v = false) by (destruct (dmem consts v); [discriminate|reflexivity]).
      simpl in Ht.
      exact (IHl f (dset sg v ty) ((v, ty) :: scope) (unbind v sigma) items Ef (sig_agree_dset _ _ _ _ Hs)
                 (nsh_dset _ _ _ _ Hn Hv') Hb Ht H).
  Qed.

  Lemma expected_app scope sigma f fs a b :
    expected scope sigma f a ->
    (map rlit_struct (items_lits b) = flat_map (form_lits consts scope sigma) fs /\
     items_nums b = map cmp_gtree_of (flat_map (form_cmps sigma) fs)) ->
    map rlit_struct (items_lits (a ++ b)) = flat_map (form_lits consts scope sigma) (f :: fs) /\
    items_nums (a ++ b) = map cmp_gtree_of (flat_map (form_cmps sigma) (f :: fs)).
  Proof.
    intros [H1 H2] [H3 H4]. simpl. rewrite items_lits_app, items_nums_app, !map_app, H1, H2, H3, H4. split; reflexivity.
  Qed.

  Lemma P_pre op os eqs neqs : Forall (fun c => QG c /\ QL c) os -> PG (MPre op os eqs neqs) /\ PL (MPre op os eqs neqs).
  Proof.
    intros Hos. split.
    - intros phi sg scope pm sigma items es Hd Hs He Hn1 Hn2 Hb Ht Hr H.
      destruct (denote_pre_conn _ _ _ _ _ Hd) as [fs [HF ->]].
      rewrite report_pre_eq in H.
      apply bind_ok_inv in H. destruct H as [geqs [Hge H]].
      apply bind_ok_inv in H. destruct H as [gneqs [Hgn H]].
      apply bind_ok_inv in H. destruct H as [rest [Hrest H]]. injection H as <- <-.
      rewrite (ground_pairs_ok _ _ _ Hge), (ground_pairs_ok _ _ _ Hgn).
      rewrite pre_bvars_eq in Hb.
      rewrite uft_conn, existsb_app, eq_forms_uft_false in Ht. simpl in Ht.
      rewrite form_repeats_conn, existsb_app, eq_forms_repeats in Hr. simpl in Hr.
      unfold expected. rewrite form_lits_conn, form_cmps_conn, form_eqs_conn, !flat_map_app,
        eq_forms_lits, eq_forms_cmps, (eq_forms_eqs pm sigma eqs neqs He). simpl.
      assert (Hall : map rlit_struct (items_lits (fst rest)) = flat_map (form_lits consts scope sigma) fs /\
                     items_nums (fst rest) = map cmp_gtree_of (flat_map (form_cmps sigma) fs) /\
                     snd rest = flat_map (form_eqs sigma) fs).
      { clear Hd Hge Hgn. revert fs HF rest Hrest Hb Ht Hr.
        induction Hos as [|c r [Hq _] Hr' IH]; intros fs HF rest Hrest Hb Ht Hr.
        - inversion HF; subst. injection Hrest as <-. simpl. repeat split; reflexivity.
        - inversion HF as [|? f ? fs' Hcf Hrf]; subst.
          rewrite report_conds_cons in Hrest.
          apply bind_ok_inv in Hrest. destruct Hrest as [[xi xe] [Hx Hrest]].
          apply bind_ok_inv in Hrest. destruct Hrest as [[yi ye] [Hy Hrest]]. injection Hrest as <-.
          rewrite conds_bvars_cons, no_shadow_app in Hb. apply andb_true_iff in Hb. destruct Hb as [Hb1 Hb2].
          simpl in Ht. apply orb_false_iff in Ht. destruct Ht as [Ht1 Ht2].
          simpl in Hr. apply orb_false_iff in Hr. destruct Hr as [Hr1 Hr2].
          destruct (Hq f sg scope pm sigma xi xe Hcf Hs He Hn1 Hn2 Hb1 Ht1 Hr1 Hx) as [Hexp Hxe].
          destruct (IH fs' Hrf (yi, ye) Hy Hb2 Ht2 Hr2) as [Hl [Hn Hye]]. simpl in Hl, Hn, Hye.
          destruct (expected_app scope sigma f fs' xi yi Hexp (conj Hl Hn)) as [E1 E2].
          simpl fst. simpl snd. split; [exact E1|]. split; [exact E2|].
          simpl. rewrite Hxe, Hye. reflexivity. }
      destruct Hall as [Hl [Hn Hre]]. rewrite Hl, Hn, Hre, <- app_assoc. repeat split; reflexivity.
    - intros phi sg scope sigma items Hd Hs Hn Hb Ht H.
      destruct (denote_pre_conn _ _ _ _ _ Hd) as [fs [HF ->]].
      rewrite lifted_items_eq in H. rewrite pre_bvars_eq in Hb.
      rewrite uft_conn, existsb_app in Ht. apply orb_false_iff in Ht. destruct Ht as [Hte Ht].
      destruct (eq_forms_uft_true _ _ _ Hte) as [-> ->].
      unfold expected. rewrite form_lits_conn, form_cmps_conn, form_eqs_conn. unfold eq_forms. simpl.
      assert (Hall : map rlit_struct (items_lits items) = flat_map (form_lits consts scope sigma) fs /\
                     items_nums items = map cmp_gtree_of (flat_map (form_cmps sigma) fs) /\
                     flat_map (form_eqs sigma) fs = []).
      { clear Hd Hte. revert fs HF items H Hb Ht.
        induction Hos as [|c r [_ Hq] Hr' IH]; intros fs HF items H Hb Ht.
        - inversion HF; subst. injection H as <-. simpl. repeat split; reflexivity.
        - inversion HF as [|? f ? fs' Hcf Hrf]; subst.
          rewrite lifted_conds_cons in H.
          apply bind_ok_inv in H. destruct H as [xi [Hx H]].
          apply bind_ok_inv in H. destruct H as [yi [Hy H]]. injection H as <-.
          rewrite conds_bvars_cons, no_shadow_app in Hb. apply andb_true_iff in Hb. destruct Hb as [Hb1 Hb2].
          simpl in Ht. apply orb_false_iff in Ht. destruct Ht as [Ht1 Ht2].
          destruct (Hq f sg scope sigma xi Hcf Hs Hn Hb1 Ht1 Hx) as [Hexp Hxe].
          destruct (IH fs' Hrf yi Hy Hb2 Ht2) as [Hl [Hnn Hye]].
          destruct (expected_app scope sigma f fs' xi yi Hexp (conj Hl Hnn)) as [E1 E2].
          split; [exact E1|]. split; [exact E2|]. simpl. rewrite Hxe, Hye. reflexivity. }
      destruct Hall as [Hl [Hnn Hre]]. rewrite Hl, Hnn, Hre. repeat split; reflexivity.
  Qed.

  Lemma report_both (p : mpre) : PG p /\ PL p.
  Proof.
    exact (mpre_ind' (fun p => PG p /\ PL p) (fun c => QG c /\ QL c) P_pre Q_lit Q_num Q_nested Q_univ p).
  Qed.
End Report.
