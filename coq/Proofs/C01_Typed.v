(* C01, typed lists: the model's readers of "(?x ?y - t ?z)" lists (parse_signature, parse_types' first pass,
   parse_constants) against the independent reading Spec.Grammar.read_typed_list. *)
From Coq Require Import List Ascii String Bool Arith Lia.
From Verif Require Import Base.Result Base.Str Base.Sexp Base.PyDict Model.Types Model.Domain
  Spec.Pddl Spec.Grammar Spec.Faithful.
Import ListNotations.
Open Scope string_scope.
Open Scope list_scope.

(* ---------- tables ---------- *)
Lemma dupdate_app {V} (d : pydict V) a b : dupdate d (a ++ b) = dupdate (dupdate d a) b.
Proof. unfold dupdate. apply fold_left_app. Qed.

Lemma dupdate_nil {V} (d : pydict V) : dupdate d [] = d.
Proof. reflexivity. Qed.

Lemma dupdate_cons {V} (d : pydict V) kv l : dupdate d (kv :: l) = dupdate (dset d (fst kv) (snd kv)) l.
Proof. reflexivity. Qed.

Lemma fold_dset_const {V} (l : list string) (v : V) d :
  fold_left (fun acc p => dset acc p v) l d = dupdate d (map (fun p => (p, v)) l).
Proof. revert d. induction l as [|x xs IH]; intros d; simpl; [reflexivity|]. rewrite IH. reflexivity. Qed.

Lemma dmem_false_dget {V} (d : pydict V) k : dmem d k = false <-> dget d k = None.
Proof. unfold dmem. destruct (dget d k); split; congruence. Qed.

Lemma dget_none_notin {V} (d : pydict V) k : dget d k = None <-> ~ In k (dkeys d).
Proof.
  induction d as [|[k' v] r IH]; simpl; [intuition|].
  destruct (String.eqb k k') eqn:E.
  - apply String.eqb_eq in E. subst. split; [discriminate|]. intros H. exfalso. apply H. left. reflexivity.
  - apply String.eqb_neq in E. rewrite IH. split; intros H.
    + intros [H1|H1]; [congruence|auto].
    + intros H1. apply H. right. exact H1.
Qed.

Lemma dset_fresh {V} (d : pydict V) k v : dget d k = None -> dset d k v = d ++ [(k, v)].
Proof.
  induction d as [|[k' v'] r IH]; simpl; [reflexivity|].
  destruct (String.eqb k k') eqn:E; [discriminate|]. intros H. rewrite IH by exact H. reflexivity.
Qed.

Lemma dkeys_dset_present {V} (d : pydict V) k v : dget d k <> None -> dkeys (dset d k v) = dkeys d.
Proof.
  induction d as [|[k' v'] r IH]; simpl; [congruence|].
  destruct (String.eqb k k') eqn:E; simpl; [reflexivity|]. intros H. rewrite IH by exact H. reflexivity.
Qed.

Lemma dkeys_app {V} (a b : pydict V) : dkeys (a ++ b) = dkeys a ++ dkeys b.
Proof. unfold dkeys. apply map_app. Qed.

(* declarations with pairwise distinct names are their own table *)
Lemma dupdate_nodup {V} (l : list (string * V)) : forall d,
  NoDup (dkeys d ++ map fst l) -> dupdate d l = d ++ l.
Proof.
  induction l as [|[k v] r IH]; intros d H.
  - rewrite dupdate_nil, app_nil_r. reflexivity.
  - rewrite dupdate_cons. simpl fst. simpl snd.
    assert (Hk : dget d k = None).
    { apply dget_none_notin. intros Hin. simpl in H. apply NoDup_remove_2 in H. apply H.
      apply in_or_app. left. exact Hin. }
    rewrite dset_fresh by exact Hk. rewrite IH.
    + rewrite <- app_assoc. reflexivity.
    + rewrite dkeys_app. simpl. rewrite <- app_assoc. simpl. simpl in H. exact H.
Qed.

Lemma dict_of_nodup {V} (l : list (string * V)) : NoDup (map fst l) -> dict_of l = l.
Proof. intros H. unfold dict_of. rewrite dupdate_nodup; [reflexivity|exact H]. Qed.

(* ---------- token lists ---------- *)
Lemma atom_names_nil : atom_names [] = Some [].
Proof. reflexivity. Qed.

Lemma atom_names_cons_atom t rest :
  atom_names (Atom t :: rest) = match atom_names rest with Some xs => Some (t :: xs) | None => None end.
Proof. reflexivity. Qed.

Lemma atom_names_cons_list l rest : atom_names (SList l :: rest) = None.
Proof. reflexivity. Qed.

Lemma atoms_of_atom_names l names : atoms_of l = Ok names -> atom_names l = Some names.
Proof.
  revert names. induction l as [|[t|sub] r IH]; intros names H; simpl in H.
  - injection H as <-. reflexivity.
  - destruct (atoms_of r) as [rs|k] eqn:E; simpl in H; [|discriminate]. injection H as <-.
    rewrite atom_names_cons_atom, (IH rs eq_refl). reflexivity.
  - discriminate.
Qed.

Lemma atom_names_atoms_of l names : atom_names l = Some names -> atoms_of l = Ok names.
Proof.
  revert names. induction l as [|[t|sub] r IH]; intros names H.
  - injection H as <-. reflexivity.
  - rewrite atom_names_cons_atom in H. destruct (atom_names r) as [xs|] eqn:E; [|discriminate].
    injection H as <-. simpl. rewrite (IH xs eq_refl). reflexivity.
  - discriminate.
Qed.

(* ---------- parse_signature ---------- *)
Lemma parse_signature_aux_spec tt : forall n toks grouped sg sg',
  List.length toks <= n ->
  parse_signature_aux tt toks grouped sg = Ok sg' ->
  exists names rows, atom_names toks = Some names /\ read_typed_list names grouped = Some rows /\
                     sg' = dupdate sg rows.
Proof.
  induction n as [|n IH]; intros toks grouped sg sg' Hlen H.
  - destruct toks; [|simpl in Hlen; lia]. simpl in H. injection H as <-.
    exists [], (map (fun p => (p, "object")) grouped). repeat split. apply fold_dset_const.
  - destruct toks as [|[t|sub] rest]; simpl in H.
    + injection H as <-. exists [], (map (fun p => (p, "object")) grouped). repeat split. apply fold_dset_const.
    + destruct (String.eqb t "-") eqn:Edash.
      * destruct rest as [|[ty|sub] rest']; try discriminate.
        destruct (negb (forallb starts_with_q grouped)); [discriminate|].
        assert (Hl : List.length rest' <= n) by (simpl in Hlen; lia).
        destruct (negb (type_known tt ty)) eqn:Eknown.
        -- destruct grouped as [|g gs]; [|discriminate].
           destruct (IH rest' [] sg sg' Hl H) as (names & rows & Hn & Hr & ->).
           exists (t :: ty :: names), rows. rewrite !atom_names_cons_atom, Hn. split; [reflexivity|].
           simpl. rewrite Edash, Hr. split; reflexivity.
        -- destruct (IH rest' [] _ sg' Hl H) as (names & rows & Hn & Hr & ->).
           exists (t :: ty :: names), (map (fun p => (p, ty)) grouped ++ rows).
           rewrite !atom_names_cons_atom, Hn. split; [reflexivity|].
           simpl. rewrite Edash, Hr. split; [reflexivity|].
           rewrite fold_dset_const, dupdate_app. reflexivity.
      * destruct (negb (starts_with_q t)); [discriminate|].
        assert (Hl : List.length rest <= n) by (simpl in Hlen; lia).
        destruct (IH rest (grouped ++ [t]) sg sg' Hl H) as (names & rows & Hn & Hr & ->).
        exists (t :: names), rows. rewrite atom_names_cons_atom, Hn. split; [reflexivity|].
        simpl. rewrite Edash. split; [exact Hr|reflexivity].
    + discriminate.
Qed.

(* every parsed signature is the table of the independently read typed list *)
Lemma parse_signature_spec tt toks sg :
  parse_signature tt toks = Ok sg ->
  exists rows, read_typed toks = Some rows /\ sg = dict_of rows.
Proof.
  intros H. destruct (parse_signature_aux_spec tt _ toks [] [] sg (le_n _) H) as (names & rows & Hn & Hr & ->).
  exists rows. unfold read_typed. rewrite Hn. split; [exact Hr|reflexivity].
Qed.

(* parameters start with '?' *)
Lemma parse_signature_aux_keys tt : forall n toks grouped sg sg',
  List.length toks <= n ->
  parse_signature_aux tt toks grouped sg = Ok sg' ->
  forallb starts_with_q grouped = true ->
  forallb starts_with_q (dkeys sg) = true ->
  forallb starts_with_q (dkeys sg') = true.
Proof.
  assert (Hset : forall (g : list string) (ty : string) (sg : signature),
             forallb starts_with_q g = true -> forallb starts_with_q (dkeys sg) = true ->
             forallb starts_with_q (dkeys (fold_left (fun acc p => dset acc p ty) g sg)) = true).
  { induction g as [|x xs IHg]; intros ty sg Hg Hs; simpl; [exact Hs|].
    simpl in Hg. apply andb_true_iff in Hg as [Hx Hxs]. apply IHg; [exact Hxs|].
    clear IHg Hxs. induction sg as [|[k v] r IHr]; simpl.
    - rewrite Hx. reflexivity.
    - simpl in Hs. apply andb_true_iff in Hs as [Hk Hr].
      destruct (String.eqb x k); simpl; rewrite Hk; simpl; [exact Hr|apply IHr; exact Hr]. }
  induction n as [|n IH]; intros toks grouped sg sg' Hlen H Hg Hs.
  - destruct toks; [|simpl in Hlen; lia]. simpl in H. injection H as <-. apply Hset; assumption.
  - destruct toks as [|[t|sub] rest]; simpl in H.
    + injection H as <-. apply Hset; assumption.
    + destruct (String.eqb t "-") eqn:Edash.
      * destruct rest as [|[ty|sub] rest']; try discriminate.
        destruct (negb (forallb starts_with_q grouped)); [discriminate|].
        assert (Hl : List.length rest' <= n) by (simpl in Hlen; lia).
        destruct (negb (type_known tt ty)).
        -- destruct grouped; [|discriminate]. apply (IH rest' [] sg sg' Hl H); [reflexivity|exact Hs].
        -- apply (IH rest' [] _ sg' Hl H); [reflexivity|]. apply Hset; assumption.
      * destruct (negb (starts_with_q t)) eqn:Eq; [discriminate|]. apply negb_false_iff in Eq.
        assert (Hl : List.length rest <= n) by (simpl in Hlen; lia).
        apply (IH rest (grouped ++ [t]) sg sg' Hl H); [|exact Hs].
        rewrite forallb_app, Hg. simpl. rewrite Eq. reflexivity.
    + discriminate.
Qed.

Lemma parse_signature_keys tt toks sg :
  parse_signature tt toks = Ok sg -> forallb starts_with_q (dkeys sg) = true.
Proof. intros H. apply (parse_signature_aux_keys tt _ toks [] [] sg (le_n _) H); reflexivity. Qed.

(* ---------- parse_types, first pass ---------- *)
Lemma collect_decls_spec : forall n toks same d d' trailing,
  List.length toks <= n ->
  collect_decls toks same d = Ok (d', trailing) ->
  exists names rows, atom_names toks = Some names /\ read_typed_list names same = Some rows /\
                     fold_left (fun acc c => dset acc c "object") trailing d' = dupdate d rows.
Proof.
  induction n as [|n IH]; intros toks same d d' trailing Hlen H.
  - destruct toks; [|simpl in Hlen; lia]. simpl in H. injection H as <- <-.
    exists [], (map (fun p => (p, "object")) same). repeat split. apply fold_dset_const.
  - destruct toks as [|[t|sub] rest]; simpl in H.
    + injection H as <- <-. exists [], (map (fun p => (p, "object")) same). repeat split. apply fold_dset_const.
    + destruct (String.eqb t "-") eqn:Edash.
      * destruct rest as [|[p|sub] rest']; try discriminate.
        assert (Hl : List.length rest' <= n) by (simpl in Hlen; lia).
        destruct (IH rest' [] _ d' trailing Hl H) as (names & rows & Hn & Hr & Hfin).
        exists (t :: p :: names), (map (fun c => (c, p)) same ++ rows).
        rewrite !atom_names_cons_atom, Hn. split; [reflexivity|].
        simpl. rewrite Edash, Hr. split; [reflexivity|].
        rewrite Hfin, fold_dset_const, dupdate_app. reflexivity.
      * assert (Hl : List.length rest <= n) by (simpl in Hlen; lia).
        destruct (IH rest (same ++ [t]) d d' trailing Hl H) as (names & rows & Hn & Hr & Hfin).
        exists (t :: names), rows. rewrite atom_names_cons_atom, Hn. split; [reflexivity|].
        simpl. rewrite Edash. split; [exact Hr|exact Hfin].
    + discriminate.
Qed.

(* ---------- parse_constants: names without a type are of type object ---------- *)
Lemma parse_constants_aux_spec tt : forall n toks same acc r,
  List.length toks <= n ->
  parse_constants_aux tt toks same false acc = Ok r ->
  forall names rows, atom_names toks = Some names -> read_typed_list names same = Some rows ->
  r = dupdate acc rows.
Proof.
  induction n as [|n IH]; intros toks same acc r Hlen H names rows Hn Hr.
  - destruct toks; [|simpl in Hlen; lia]. simpl in H. injection H as <-.
    injection Hn as <-. simpl in Hr. injection Hr as <-. apply fold_dset_const.
  - destruct toks as [|[t|sub] rest]; simpl in H.
    + injection H as <-. injection Hn as <-. simpl in Hr. injection Hr as <-. apply fold_dset_const.
    + rewrite atom_names_cons_atom in Hn. destruct (atom_names rest) as [xs|] eqn:Exs; [|discriminate].
      injection Hn as <-. simpl in Hr.
      destruct (String.eqb t "-") eqn:Edash.
      * destruct rest as [|[ty|sub] rest']; simpl in H.
        -- injection Exs as <-. discriminate.
        -- rewrite atom_names_cons_atom in Exs. destruct (atom_names rest') as [ys|] eqn:Eys; [|discriminate].
           injection Exs as <-.
           destruct (negb (type_known tt ty)); [discriminate|].
           destruct (read_typed_list ys []) as [r2|] eqn:Er2; [|discriminate]. injection Hr as <-.
           assert (Hl : List.length rest' <= n) by (simpl in Hlen; lia).
           rewrite (IH rest' [] _ r Hl H ys r2 Eys Er2).
           rewrite fold_dset_const, dupdate_app. reflexivity.
        -- discriminate.
      * assert (Hl : List.length rest <= n) by (simpl in Hlen; lia).
        apply (IH rest (same ++ [t]) acc r Hl H xs rows Exs Hr).
    + discriminate.
Qed.

Lemma parse_constants_spec tt toks r names rows :
  parse_constants tt toks = Ok r ->
  atom_names toks = Some names -> read_typed_list names [] = Some rows ->
  r = dict_of rows.
Proof. intros H. apply (parse_constants_aux_spec tt _ toks [] [] r (le_n _) H). Qed.

Lemma parse_constants_aux_atoms tt : forall toks same marker acc r,
  parse_constants_aux tt toks same marker acc = Ok r -> exists names, atom_names toks = Some names.
Proof.
  induction toks as [|[t|sub] rest IH]; intros same marker acc r H; simpl in H.
  - exists []. reflexivity.
  - assert (Hex : exists names, atom_names rest = Some names).
    { destruct marker.
      - destruct (negb (type_known tt t)); [discriminate|]. eapply IH; exact H.
      - destruct (String.eqb t "-"); eapply IH; exact H. }
    destruct Hex as [xs Hxs]. exists (t :: xs). rewrite atom_names_cons_atom, Hxs. reflexivity.
  - discriminate.
Qed.
