(* C10: the exported trajectory text is read back by the library's reader as the token tree of the trajectory, and
   TrajectoryParser.parse_trajectory on that tree returns one component per triplet with the same calls and states
   that denote the same facts and fluents; the components form a chain. *)
From Coq Require Import List Ascii String Bool Arith Lia PrimFloat Permutation.
From Verif Require Import Base.Result Base.Str Base.Sexp Base.PyDict Base.Float Model.Tokenizer Model.Types Model.Domain
  Model.State Model.Trajectory Spec.Pddl Spec.State Spec.Layout Proofs.C11_Tokenizer Proofs.C11_Reader
  Proofs.C14_Text Proofs.C14_Spec Proofs.C14_Eq Proofs.C14_Main Proofs.C14_Serialize Proofs.C14_Examples Proofs.C10_State.
Import ListNotations.
Open Scope string_scope.
Open Scope list_scope.

(* ---------- the token tree of a trajectory ---------- *)
Definition tact_calls (a : tact) : list call := match a with ASingle c => [c] | AJoint l => l end.
Definition ocall_calls (o : ocall) : list call := match o with OSingle c => [c] | OJoint l => l end.

Definition action_sexp (a : tact) : sexp :=
  match a with
  | ASingle c => SList [Atom "operator:"; atom_sexp c]
  | AJoint l => SList (Atom "operators:" :: map atom_sexp l)
  end.

Definition calls_ok (a : tact) : bool := forallb atom_ok (tact_calls a).

Lemma call_text_atom_text c : call_text c = atom_text c.
Proof. reflexivity. Qed.

Lemma yields_action_line m a : calls_ok a = true ->
  yields m (s2t (action_line a)) (flatten (action_sexp a)).
Proof.
  intros H rest. destruct a as [c|l]; unfold action_line, calls_ok, tact_calls in *.
  - cbn [forallb] in H. rewrite andb_true_r in H.
    rewrite !s2t_app, <- !app_assoc. change (s2t "(operator: ") with (LP :: s2t "operator:" ++ [SP]).
    cbn [app]. rewrite tk_lp. rewrite <- app_assoc. cbn [app]. rewrite tk_tok_ws by reflexivity.
    rewrite call_text_atom_text, (yields_atom_text m c H).
    change (s2t ")") with [RP]. change (s2t LFs) with [LF]. cbn [app]. rewrite tk_rp, tk_lf.
    cbn [action_sexp flatten flat_map]. rewrite app_nil_r. cbn [app]. rewrite <- !app_assoc. reflexivity.
  - rewrite !s2t_app, <- !app_assoc. change (s2t "(operators: ") with (LP :: s2t "operators:" ++ [SP]).
    cbn [app]. rewrite tk_lp. rewrite <- app_assoc. cbn [app]. rewrite tk_tok_ws by reflexivity.
    rewrite s2t_join.
    assert (Y : yields m (tjoin (map s2t (map call_text l))) (flat_map flatten (map atom_sexp l))).
    { rewrite flat_map_concat_map. apply yields_tjoin. rewrite forallb_forall in H.
      clear - H. induction l as [|c l IH]; [constructor|]. cbn [map]. constructor.
      - apply yields_atom_text. apply H. left. reflexivity.
      - apply IH. intros x Hx. apply H. right. exact Hx. }
    rewrite Y. change (s2t ")") with [RP]. change (s2t LFs) with [LF]. cbn [app]. rewrite tk_rp, tk_lf.
    cbn [action_sexp flatten flat_map]. cbn [app]. rewrite <- ?app_assoc. reflexivity.
Qed.

Lemma wf_action_sexp a : calls_ok a = true -> wf (action_sexp a) = true.
Proof.
  intros H. destruct a as [c|l]; unfold calls_ok, tact_calls in H; cbn [action_sexp wf forallb].
  - cbn [forallb] in H. rewrite andb_true_r in H. rewrite (wf_atom_sexp c H). reflexivity.
  - simpl. rewrite forallb_forall in *. intros e He. apply in_map_iff in He as (c & <- & Hc).
    apply wf_atom_sexp. apply H. exact Hc.
Qed.

Section Text.
  Variable num_text : float -> string.

  Definition step_sexps (t : triplet) : list sexp := [action_sexp (t_act t); state_sexp num_text (t_post t)].
  Definition traj_sexp (t0 : triplet) (ts : list triplet) : sexp :=
    SList (state_sexp num_text (t_pre t0) :: flat_map step_sexps (t0 :: ts)).

  Definition step_text_ok (t : triplet) : Prop :=
    calls_ok (t_act t) = true /\ state_ok (t_post t) = true /\ nums_clean num_text (t_post t).

  (* wrapping the first and the last line *)
  Lemma concat_wrapped (x : string) (l : list string) :
    fold_right String.append "" (map_last (fun s => s +++ ")") (map_first (fun s => "(" +++ s) (x :: l))) =
    "(" +++ fold_right String.append "" (x :: l) +++ ")".
  Proof.
    assert (ML : forall l y, fold_right String.append "" (map_last (fun s => s +++ ")") (y :: l)) =
                        fold_right String.append "" (y :: l) +++ ")").
    { clear. induction l as [|z l IH]; intros y.
      - simpl. apply s2t_inj. rewrite !s2t_app. simpl. rewrite !app_nil_r. reflexivity.
      - change (map_last (fun s => s +++ ")") (y :: z :: l)) with (y :: map_last (fun s => s +++ ")") (z :: l)).
        cbn [fold_right]. rewrite IH. apply s2t_inj. rewrite !s2t_app. cbn [fold_right]. rewrite !s2t_app, <- !app_assoc. reflexivity. }
    cbn [map_first]. rewrite ML. cbn [fold_right]. apply s2t_inj. rewrite !s2t_app, <- !app_assoc. reflexivity.
  Qed.

  Lemma s2t_concat_steps ts :
    s2t (fold_right String.append "" (flat_map (fun t => [action_line (t_act t); serialize_in_order num_text (t_post t)]) ts)) =
    flat_map (fun t => s2t (action_line (t_act t)) ++ s2t (serialize_in_order num_text (t_post t))) ts.
  Proof.
    induction ts as [|t ts IH]; [reflexivity|]. cbn [flat_map app fold_right]. rewrite !s2t_app, IH, <- app_assoc. reflexivity.
  Qed.

  Lemma yields_steps m ts : Forall step_text_ok ts ->
    yields m (flat_map (fun t => s2t (action_line (t_act t)) ++ s2t (serialize_in_order num_text (t_post t))) ts)
             (flat_map flatten (flat_map step_sexps ts)).
  Proof.
    induction 1 as [|t ts (Hc & Hs & Hn) _ IH]; intros rest; [reflexivity|].
    cbn [flat_map]. rewrite <- !app_assoc. rewrite (yields_action_line m _ Hc).
    rewrite (yields_serialize num_text m _ Hs Hn). rewrite IH.
    rewrite flat_map_app. unfold step_sexps at 2. cbn [flat_map]. rewrite app_nil_r, <- !app_assoc. reflexivity.
  Qed.

  (* the exported text parses to the trajectory's token tree *)
  Theorem parse_export m t0 ts :
    state_ok (t_pre t0) = true -> nums_clean num_text (t_pre t0) -> Forall step_text_ok (t0 :: ts) ->
    exists text, export_text_with (serialize_in_order num_text) (t0 :: ts) = Ok text /\ parse m (s2t text) = Ok (traj_sexp t0 ts).
  Proof.
    intros Hs Hn Hst. unfold export_text_with, export_with. cbn [bind].
    eexists. split; [reflexivity|].
    rewrite concat_wrapped. rewrite !s2t_app. cbn [fold_right]. rewrite s2t_app, s2t_concat_steps.
    change (s2t "(") with [LP]. change (s2t ")") with [RP].
    unfold parse, tokenize. cbn [app]. rewrite tk_lp. rewrite <- app_assoc.
    rewrite (yields_serialize num_text m _ Hs Hn). rewrite (yields_steps m _ Hst). rewrite tk_rp.
    apply parse_tokens_iff. exists []. split.
    - unfold traj_sexp. cbn [flatten flat_map]. rewrite app_nil_r, <- !app_assoc. reflexivity.
    - unfold traj_sexp. cbn [wf forallb]. rewrite (wf_state_sexp num_text _ Hs Hn). cbn [andb].
      rewrite forallb_forall. intros e He. apply in_flat_map in He as (t & Ht & He).
      rewrite Forall_forall in Hst. destruct (Hst t Ht) as (Hc & Hs' & Hn').
      destruct He as [<-|[<-|[]]]; [apply wf_action_sexp; exact Hc|apply wf_state_sexp; assumption].
  Qed.
End Text.

Lemma Forall2_len {A B} (R : A -> B -> Prop) l l' : Forall2 R l l' -> List.length l = List.length l'.
Proof. induction 1; simpl; [reflexivity|f_equal; assumption]. Qed.

(* ---------- the parser on that tree ---------- *)
Section Parse.
  Variable dom : mdomain.
  Variable num_text : float -> string.
  Variable parse_num : string -> option float.
  Variable problem : option (pydict string).
  Variable agents : option (list string).

  Definition den_ok (s : mstate) : Prop :=
    state_ok s = true /\ (forall x, In x (values s) -> num_ok num_text parse_num x) /\ parseable dom problem s.

  (* a call named nop carries no arguments (the parser returns the bare nop for it) *)
  Definition nop_ok (c : call) : bool := if String.eqb (fst c) "nop" then match snd c with [] => true | _ => false end else true.

  Definition action_ok (a : tact) : Prop :=
    match a with
    | ASingle _ => True
    | AJoint l => forallb nop_ok l = true /\ exists ag, agents = Some ag /\ List.length l <= List.length ag
    end.

  Definition step_ok (t : triplet) : Prop :=
    action_ok (t_act t) /\ st_init (t_post t) = false /\ den_ok (t_post t).

  Lemma parse_call_atom c : parse_call (atom_sexp c) = Ok c.
  Proof. destruct c as [n args]. unfold parse_call, atom_sexp. cbn [fst snd]. rewrite atoms_of_atoms. reflexivity. Qed.

  Lemma parse_joint_ok l : forall ag, forallb nop_ok l = true -> List.length l <= List.length ag ->
    parse_joint ag (map atom_sexp l) = Ok l.
  Proof.
    induction l as [|c l IH]; intros ag Hn Hl.
    - destruct ag; reflexivity.
    - destruct ag as [|a ag]; [simpl in Hl; lia|]. cbn [forallb] in Hn. apply andb_true_iff in Hn as [Hc Hn].
      cbn [map parse_joint]. rewrite (IH ag Hn) by (simpl in Hl; lia).
      destruct c as [n args]. unfold atom_sexp at 1. cbn [fst snd]. unfold nop_ok in Hc. cbn [fst snd] in Hc.
      destruct (String.eqb n "nop") eqn:E.
      + apply String.eqb_eq in E. subst n. destruct args; [reflexivity|discriminate].
      + fold (atom_sexp (n, args)). rewrite parse_call_atom. reflexivity.
  Qed.

  Lemma parse_action_ok a : action_ok a ->
    exists o, parse_action agents (action_sexp a) = Ok o /\ ocall_calls o = tact_calls a.
  Proof.
    destruct a as [c|l]; intros H; unfold parse_action, action_sexp.
    - cbn -[parse_call atom_sexp]. rewrite parse_call_atom. eexists. split; reflexivity.
    - destruct H as (Hn & ag & -> & Hl). cbn -[parse_joint atom_sexp]. rewrite (parse_joint_ok l ag Hn Hl). eexists. split; reflexivity.
  Qed.

  (* the components produced while walking the steps *)
  Fixpoint linked (prev : mstate) (cs : list ocomp) : Prop :=
    match cs with
    | [] => True
    | c :: r => oc_prev c = prev /\ linked (state_copy (oc_next c)) r
    end.

  Definition step_rel (t : triplet) (c : ocomp) : Prop :=
    ocall_calls (oc_call c) = tact_calls (t_act t) /\ State_same (den (oc_next c)) (den (t_post t)).

  Lemma parse_steps_ok ts : forall prev,
    Forall step_ok ts ->
    exists cs, parse_steps dom parse_num problem agents (flat_map (step_sexps num_text) ts) prev = Ok cs /\
               Forall2 step_rel ts cs /\ linked prev cs.
  Proof.
    induction ts as [|t ts IH]; intros prev F; [exists []; repeat split; constructor|].
    inversion F as [|? ? (Ha & Hi & Hs & Hn & Hp) F']; subst.
    destruct (parse_action_ok _ Ha) as (o & Po & Eo).
    destruct (parse_state_items dom num_text parse_num problem (t_post t) Hs Hn Hp) as (nx & Pn & In' & Sn).
    cbn [flat_map step_sexps app parse_steps]. rewrite Po. cbn [bind].
    unfold state_sexp at 1. unfold state_items, head_tok. rewrite Hi.
    change (String.eqb ":state" ":state") with true. cbn [bind]. rewrite Pn. cbn [bind].
    destruct (IH (state_copy nx) F') as (cs & Pc & R & L).
    rewrite Pc. cbn [bind]. eexists. split; [reflexivity|]. split.
    - constructor; [split; [exact Eo|exact Sn]|exact R].
    - split; [reflexivity|exact L].
  Qed.

  (* deduce_problem_objects never fails on the first state of an exported trajectory *)
  Lemma deduce_total s : state_ok s = true -> parseable dom problem s ->
    exists objs, deduce_objects dom (fluent_sexps num_text s ++ fact_sexps s) = Ok objs.
  Proof.
    intros Hs (Pf & Pl & _). unfold deduce_objects. rewrite foldM_app.
    assert (A : forall l acc, Forall (fluent_ok dom problem) (map fst l) ->
              exists acc', foldM (deduce_component dom) (map (fun kv => valued_sexp (fst kv) (num_text (snd kv))) l) acc = Ok acc').
    { induction l as [|[a v] l IH]; intros acc F; [exists acc; reflexivity|].
      inversion F as [|? ? (lifted & Hd & _) F']; subst. cbn [map foldM fst snd].
      destruct a as [fname args]. unfold deduce_component at 1, valued_sexp, atom_sexp. cbn [fst snd] in *.
      rewrite String.eqb_refl, Hd, atoms_of_atoms. cbn [bind]. apply IH. exact F'. }
    assert (B : forall l acc, Forall (fact_ok dom problem) l -> Forall (fun a => String.eqb (fst a) "=" = false) l ->
              exists acc', foldM (deduce_component dom) (map atom_sexp l) acc = Ok acc').
    { induction l as [|a l IH]; intros acc F N; [exists acc; reflexivity|].
      inversion F as [|? ? (lifted & Hd & _) F']; subst. inversion N as [|? ? Na N']; subst.
      destruct a as [p args]. cbn [map foldM]. unfold deduce_component at 1, atom_sexp. cbn [fst snd] in *.
      rewrite Na, Hd, atoms_of_atoms. cbn [bind]. apply IH; assumption. }
    destruct (A (den_fluents s) [] Pl) as (acc1 & E1). unfold fluent_sexps. rewrite E1. cbn [bind].
    apply B; [exact Pf|].
    unfold state_ok in Hs. apply andb_true_iff in Hs as [Hs1 _]. rewrite forallb_forall in Hs1.
    apply Forall_forall. intros a Ha. apply in_map_iff in Ha as (g & <- & Hg).
    specialize (Hs1 g Hg). unfold gp_ok in Hs1. apply andb_true_iff in Hs1 as [_ H]. apply negb_true_iff in H. exact H.
  Qed.

  Definition calls_of (o : observation) : list (list call) := map (fun c => ocall_calls (oc_call c)) (ob_components o).

  Fixpoint obs_chain (cs : list ocomp) : Prop :=
    match cs with
    | c :: (c' :: _) as r => state_eq num_text (oc_prev c') (oc_next c) = true /\ obs_chain r
    | _ => True
    end.

  Lemma linked_chain cs : forall prev, linked prev cs -> obs_chain cs.
  Proof.
    induction cs as [|c [|c' r] IH]; intros prev L; try exact I.
    destruct L as (_ & L). split; [|exact (IH _ L)].
    destruct L as (E & _). rewrite E, state_copy_id. apply state_eq_refl.
  Qed.

  (* the pre-states: the first is the parsed first state, each later one is (a copy of) the preceding post-state *)
  Fixpoint chain_from (p : mstate) (ts : list triplet) : Prop :=
    match ts with
    | [] => True
    | t :: r => State_same (den (t_pre t)) (den p) /\ chain_from (t_post t) r
    end.

  Lemma prev_states ts : forall cs prev p,
    Forall2 step_rel ts cs -> linked prev cs -> State_same (den prev) (den p) -> chain_from p ts ->
    Forall2 (fun t c => State_same (den (oc_prev c)) (den (t_pre t))) ts cs.
  Proof.
    induction ts as [|t ts IH]; intros cs prev p R L S C; inversion R as [|? c ? cs' (_ & Sn) R']; subst; [constructor|].
    destruct L as (E & L). destruct C as (Cp & C). constructor.
    - rewrite E. eapply State_same_trans; [exact S|apply State_same_sym; exact Cp].
    - apply (IH cs' (state_copy (oc_next c)) (t_post t)); try assumption. rewrite state_copy_id. exact Sn.
  Qed.

  (* ---------- C10_roundtrip ---------- *)
  Theorem roundtrip m t0 ts strict :
    (strict = true -> st_init (t_pre t0) = true) ->
    den_ok (t_pre t0) -> nums_clean num_text (t_pre t0) ->
    Forall (step_text_ok num_text) (t0 :: ts) -> Forall step_ok (t0 :: ts) -> chain_from (t_post t0) ts ->
    exists text tree O,
      export_text_with (serialize_in_order num_text) (t0 :: ts) = Ok text /\ parse m (s2t text) = Ok tree /\
      parse_trajectory dom parse_num problem agents strict tree = Ok O /\
      List.length (ob_components O) = List.length (t0 :: ts) /\
      Forall2 (fun t c => ocall_calls (oc_call c) = tact_calls (t_act t) /\
                          State_same (den (oc_prev c)) (den (t_pre t)) /\
                          State_same (den (oc_next c)) (den (t_post t))) (t0 :: ts) (ob_components O) /\
      obs_chain (ob_components O) /\
      (forall objs, problem = Some objs -> ob_objects O = objs).
  Proof.
    intros Hstrict (Hs & Hn & Hp) Hc Htxt Hst Hch.
    destruct (parse_export num_text m t0 ts Hs Hc Htxt) as (text & Et & Pt).
    exists text, (traj_sexp num_text t0 ts).
    destruct (parse_state_items dom num_text parse_num problem (t_pre t0) Hs Hn Hp) as (s0 & P0 & _ & S0).
    destruct (parse_steps_ok (t0 :: ts) s0 Hst) as (cs & Pc & R & L).
    destruct (deduce_total (t_pre t0) Hs Hp) as (dobjs & Ed).
    assert (Hobj : exists objs, (match problem with Some o => Ok o | None => deduce_objects dom (fluent_sexps num_text (t_pre t0) ++ fact_sexps (t_pre t0)) end) = Ok objs
                                /\ (forall o, problem = Some o -> objs = o)).
    { clear - Ed. destruct problem as [o|].
      - exists o. split; [reflexivity|]. intros o' E. congruence.
      - exists dobjs. split; [exact Ed|]. intros o' E'. discriminate. }
    destruct Hobj as (objs & Eo & Ho).
    exists {| ob_objects := objs; ob_components := cs |}.
    split; [exact Et|]. split; [exact Pt|]. split.
    - unfold parse_trajectory, traj_sexp. unfold state_sexp at 1.
      assert (Hh : (negb (String.eqb (head_tok (t_pre t0)) ":init") && strict) = false).
      { destruct strict; [|apply andb_false_r]. unfold head_tok. rewrite (Hstrict eq_refl). reflexivity. }
      rewrite Hh, Eo. cbn [bind]. rewrite P0. cbn [bind]. rewrite Pc. reflexivity.
    - cbn [ob_components ob_objects]. split; [symmetry; exact (Forall2_len _ _ _ R)|]. split.
      + assert (Pv := prev_states (t0 :: ts) cs s0 (t_pre t0) R L S0 (conj (State_same_refl _) Hch)).
        clear - R Pv. revert Pv. induction R as [|t c l l' (E & S) R IH]; intros Pv; [constructor|].
        inversion Pv; subst. constructor; [auto|apply IH; assumption].
      + split; [exact (linked_chain cs s0 L)|exact Ho].
  Qed.
End Parse.

(* the hypotheses hold of a non-trivial trajectory: two steps, a fluent of arity 2, a 0-ary fact, an empty state,
   a negative and a fractional value; single-agent form *)
Definition ex_dom : mdomain :=
  {| d_name := "d"; d_reqs := []; d_types := [("t", "object")]; d_consts := [];
     d_preds := [("p", [("?x", "t")]); ("z", [])]; d_funcs := [("g", [("?x", "t"); ("?y", "t")]); ("h", [])]; d_actions := [] |}.
Definition ex_pre : mstate :=
  {| st_init := true;
     st_preds := [("(p ?x)", [ex_gp "p" [("?x", "t")] ["a"]]); ("(z )", [ex_gp "z" [] []])];
     st_fluents := [("(g a b)", ex_pf "g" [("a", "t"); ("b", "t")] (-1.5) []); ("(h )", ex_pf "h" [] 2.5 [])] |}.
Definition ex_mid : mstate :=
  {| st_init := false;
     st_preds := [("(p ?x)", [ex_gp "p" [("?x", "t")] ["b"]])];
     st_fluents := [("(g a b)", ex_pf "g" [("a", "t"); ("b", "t")] 1 []); ("(h )", ex_pf "h" [] 2.5 [])] |}.
Definition ex_end : mstate := {| st_init := false; st_preds := [("(p ?x)", [])]; st_fluents := [] |}.
Definition ex_traj : list triplet :=
  [ {| t_pre := ex_pre; t_act := ASingle ("mv", ["a"; "b"]); t_post := ex_mid |};
    {| t_pre := ex_mid; t_act := ASingle ("clear", []); t_post := ex_end |} ].
Definition ex_jtraj : list triplet :=
  [ {| t_pre := ex_pre; t_act := AJoint [("mv", ["a"; "b"]); nop_call]; t_post := ex_mid |};
    {| t_pre := ex_mid; t_act := AJoint [nop_call; nop_call]; t_post := ex_end |} ].
