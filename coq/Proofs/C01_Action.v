(* C01, actions: DomainParser.parse_action of the model against read_action.  An action block that both readers
   accept is exactly three (key, list) pairs in some order; then every part is the faithful one. *)
From Coq Require Import List Ascii String Bool Arith Lia PrimFloat Permutation.
From Verif Require Import Base.Result Base.Str Base.Sexp Base.PyDict Model.Types Model.Domain Model.Exec
  Spec.Pddl Spec.Grammar Spec.Faithful Proofs.C01_Defs Proofs.C01_Typed Proofs.C01_Vocab Proofs.C01_Pre
  Proofs.C01_Eff.
Import ListNotations.
Open Scope string_scope.
Open Scope list_scope.

(* ---------- (key, list) pairs ---------- *)
Fixpoint kv_pairs (ks : list string) (vs : list (list sexp)) : list sexp :=
  match ks, vs with
  | k :: ks', l :: vs' => Atom k :: SList l :: kv_pairs ks' vs'
  | _, _ => []
  end.

Lemma find_section_skip_atom key k rest :
  k <> key -> find_section key (Atom k :: rest) = find_section key rest.
Proof.
  intros Hne. simpl. destruct rest as [|v r]; [reflexivity|].
  destruct (String.eqb k key) eqn:E; [apply String.eqb_eq in E; contradiction|reflexivity].
Qed.

Lemma find_section_skip_list key l rest : find_section key (SList l :: rest) = find_section key rest.
Proof. reflexivity. Qed.

Lemma find_section_nil key : find_section key [] = None.
Proof. reflexivity. Qed.

(* every key of K is found with a list as its value: the block has at least two elements per key *)
Lemma sections_count : forall n items K,
  List.length items <= n -> NoDup K ->
  (forall k, In k K -> exists l, find_section k items = Some (SList l)) ->
  2 * List.length K <= List.length items.
Proof.
  induction n as [|n IH]; intros items K Hlen Hnd Hall.
  - destruct items; [|simpl in Hlen; lia]. destruct K as [|k K']; [simpl; lia|].
    destruct (Hall k (or_introl eq_refl)) as [l Hl]. discriminate.
  - destruct items as [|i1 rest].
    + destruct K as [|k K']; [simpl; lia|]. destruct (Hall k (or_introl eq_refl)) as [l Hl]. discriminate.
    + assert (Hcase : (exists k, i1 = Atom k /\ In k K) \/ (forall k, In k K -> find_section k (i1 :: rest) = find_section k rest)).
      { destruct i1 as [k|l0]; [|right; intros; reflexivity].
        destruct (in_dec string_dec k K) as [Hin|Hnin]; [left; eauto|].
        right. intros k' Hk'. apply find_section_skip_atom. intros ->. contradiction. }
      destruct Hcase as [(k & -> & Hin)|Hskip].
      * destruct (Hall k Hin) as [l Hl].
        destruct rest as [|i2 rest']; [discriminate|].
        simpl in Hl. rewrite String.eqb_refl in Hl. injection Hl as ->.
        destruct (in_split _ _ Hin) as (K1 & K2 & ->).
        assert (Hnd' : NoDup (K1 ++ K2)) by (eapply NoDup_remove_1; exact Hnd).
        assert (Hnotin : ~ In k (K1 ++ K2)) by (eapply NoDup_remove_2; exact Hnd).
        assert (Hall' : forall k', In k' (K1 ++ K2) -> exists l', find_section k' rest' = Some (SList l')).
        { intros k' Hk'. assert (Hne : k <> k') by (intros ->; contradiction).
          destruct (Hall k') as [l' Hl'].
          - apply in_app_or in Hk'. apply in_or_app. destruct Hk'; [left; assumption|right; right; assumption].
          - rewrite find_section_skip_atom, find_section_skip_list in Hl' by exact Hne. eauto. }
        assert (Hl2 : List.length rest' <= n) by (simpl in Hlen; lia).
        pose proof (IH rest' (K1 ++ K2) Hl2 Hnd' Hall') as Hc.
        rewrite app_length in *. simpl. lia.
      * assert (Hall' : forall k, In k K -> exists l, find_section k rest = Some (SList l)).
        { intros k Hk. destruct (Hall k Hk) as [l Hl]. rewrite Hskip in Hl by exact Hk. eauto. }
        assert (Hl2 : List.length rest <= n) by (simpl in Hlen; lia).
        pose proof (IH rest K Hl2 Hnd Hall') as Hc. simpl. lia.
Qed.

(* ... and with exactly two elements per key it is the keys, each followed by its list *)
Lemma sections_aligned : forall n K items,
  List.length K = n -> NoDup K ->
  (forall k, In k K -> exists l, find_section k items = Some (SList l)) ->
  List.length items = 2 * n ->
  exists ks vs, items = kv_pairs ks vs /\ List.length ks = n /\ List.length vs = n /\
                (forall k, In k ks -> In k K) /\ NoDup ks.
Proof.
  induction n as [|n IH]; intros K items HK Hnd Hall Hlen.
  - destruct items; [|discriminate]. exists [], []. repeat split; [intros k []|constructor].
  - destruct items as [|i1 rest]; [discriminate|].
    assert (Hcase : (exists k, i1 = Atom k /\ In k K) \/ (forall k, In k K -> find_section k (i1 :: rest) = find_section k rest)).
    { destruct i1 as [k|l0]; [|right; intros; reflexivity].
      destruct (in_dec string_dec k K) as [Hin|Hnin]; [left; eauto|].
      right. intros k' Hk'. apply find_section_skip_atom. intros ->. contradiction. }
    destruct Hcase as [(k & -> & Hin)|Hskip].
    + destruct (Hall k Hin) as [l Hl].
      destruct rest as [|i2 rest']; [discriminate|].
      simpl in Hl. rewrite String.eqb_refl in Hl. injection Hl as ->.
      destruct (in_split _ _ Hin) as (K1 & K2 & ->).
      assert (Hnd' : NoDup (K1 ++ K2)) by (eapply NoDup_remove_1; exact Hnd).
      assert (Hnotin : ~ In k (K1 ++ K2)) by (eapply NoDup_remove_2; exact Hnd).
      assert (Hall' : forall k', In k' (K1 ++ K2) -> exists l', find_section k' rest' = Some (SList l')).
      { intros k' Hk'. assert (Hne : k <> k') by (intros ->; contradiction).
        destruct (Hall k') as [l' Hl'].
        - apply in_app_or in Hk'. apply in_or_app. destruct Hk'; [left; assumption|right; right; assumption].
        - rewrite find_section_skip_atom, find_section_skip_list in Hl' by exact Hne. eauto. }
      assert (HK' : List.length (K1 ++ K2) = n) by (rewrite app_length in *; simpl in HK; lia).
      assert (Hlen' : List.length rest' = 2 * n) by (simpl in Hlen; lia).
      destruct (IH (K1 ++ K2) rest' HK' Hnd' Hall' Hlen') as (ks & vs & -> & Hks & Hvs & Hsub & Hndk).
      exists (k :: ks), (l :: vs). simpl. repeat split; try lia.
      * intros k' [<-|Hk']; [exact Hin|]. apply Hsub in Hk'. apply in_app_or in Hk'. apply in_or_app.
        destruct Hk'; [left; assumption|right; right; assumption].
      * constructor; [|exact Hndk]. intros Hk. apply Hnotin. apply Hsub. exact Hk.
    + exfalso.
      assert (Hall' : forall k, In k K -> exists l, find_section k rest = Some (SList l)).
      { intros k Hk. destruct (Hall k Hk) as [l Hl]. rewrite Hskip in Hl by exact Hk. eauto. }
      pose proof (sections_count _ rest K (le_n _) Hnd Hall') as Hc. simpl in Hlen. lia.
Qed.

(* ---------- one action ---------- *)

Section ParseAction.
  Variable num : numparser.
  Variable tt : typetable.
  Variable consts : pydict string.
  Variable preds : pydict signature.
  Variable funcs : pydict signature.
  Hypothesis Hfkey : forall f sg, dget funcs f = Some sg -> str_in f keywords = false.
  Hypothesis Hpkey : forall p, dmem preds p = true -> str_in p keywords = false.

  Lemma action_parts_faithful n sg sg1 sg2 p ef lps lpre leff params f es :
    parse_signature tt lps = Ok sg ->
    parse_preconditions num tt consts preds funcs sg1 (SList lpre) = Ok p ->
    parse_effects num tt consts preds funcs sg2 (SList leff) = Ok ef ->
    read_typed lps = Some params ->
    read_precondition num (SList lpre) = Some f ->
    read_effects num (SList leff) = Some es ->
    form_ok f = true -> forallb (eff_ok) es = true ->
    action_faithful
      {| ma_name := lower_string n; ma_sig := sg; ma_pre := p; ma_disc := ea_disc ef; ma_num := ea_num ef;
         ma_cond := ea_cond ef; ma_univ := ea_univ ef |}
      {| a_name := n; a_params := params; a_pre := f; a_effs := es |}.
  Proof.
    intros Hs Hp He Hrs Hrp Hre Hokf Hoke. unfold action_faithful. cbn [ma_name ma_sig ma_pre a_name a_params a_pre a_effs].
    split; [reflexivity|]. split.
    - destruct (parse_signature_spec tt lps sg Hs) as (rows & Hr & ->). rewrite Hrs in Hr. injection Hr as <-. reflexivity.
    - split.
      + exact (parse_preconditions_faithful num tt consts preds funcs Hfkey Hpkey sg1 _ p f Hp Hrp Hokf).
      + exact (parse_effects_faithful num tt consts preds funcs Hfkey Hpkey sg2 _ ef es He Hre Hoke).
  Qed.

  Ltac binds H :=
    repeat (cbn [parse_sections bind ma_name ma_sig ma_pre ma_disc ma_num ma_cond ma_univ] in H;
            match type of H with
            | bind ?A _ = Ok _ => let E := fresh "Ebind" in destruct A eqn:E; [|discriminate H]
            end).

  (* the parts of an action block that both readers accept *)
  Definition action_parts (body : list sexp) (ma : maction) (sa : action) : Prop :=
    exists n sg sg1 sg2 p ef lps lpre leff params f es,
      parse_signature tt lps = Ok sg /\
      parse_preconditions num tt consts preds funcs sg1 (SList lpre) = Ok p /\
      parse_effects num tt consts preds funcs sg2 (SList leff) = Ok ef /\
      read_typed lps = Some params /\
      read_precondition num (SList lpre) = Some f /\
      read_effects num (SList leff) = Some es /\
      ma = {| ma_name := lower_string n; ma_sig := sg; ma_pre := p; ma_disc := ea_disc ef; ma_num := ea_num ef;
              ma_cond := ea_cond ef; ma_univ := ea_univ ef |} /\
      sa = {| a_name := n; a_params := params; a_pre := f; a_effs := es |}.

  Lemma parse_action_parts body ma sa :
    parse_action num tt consts preds funcs body = Ok ma ->
    read_action num body = Some sa ->
    action_parts body ma sa.
  Proof.
    intros Hp Hr. destruct body as [|[n|sub] items]; try discriminate Hr.
    cbn [parse_action] in Hp. destruct (negb (Nat.eqb (List.length items) 6)) eqn:Elen; [discriminate|].
    apply negb_false_iff, Nat.eqb_eq in Elen.
    cbn [read_action] in Hr.
    destruct (find_section ":parameters" items) as [[s|lps]|] eqn:Fp; try discriminate Hr.
    destruct (find_section ":precondition" items) as [pre|] eqn:Fq; [|discriminate Hr].
    destruct (find_section ":effect" items) as [eff|] eqn:Fe; [|discriminate Hr].
    destruct (read_typed lps) as [params|] eqn:Rp; [|discriminate Hr].
    destruct (read_precondition num pre) as [f|] eqn:Rq; [|discriminate Hr].
    destruct (read_effects num eff) as [es|] eqn:Re; [|discriminate Hr]. injection Hr as <-.
    destruct pre as [s|lpre]; [discriminate Rq|]. destruct eff as [s|leff]; [discriminate Re|].
    assert (Hall : forall k, In k [":parameters"; ":precondition"; ":effect"] ->
                             exists l, find_section k items = Some (SList l)).
    { intros k [<-|[<-|[<-|[]]]]; eauto. }
    assert (Hnd : NoDup [":parameters"; ":precondition"; ":effect"]).
    { repeat constructor; simpl; intuition discriminate. }
    destruct (sections_aligned 3 [":parameters"; ":precondition"; ":effect"] items eq_refl Hnd Hall Elen)
      as (ks & vs & -> & Hks & Hvs & Hsub & Hndk).
    destruct ks as [|k1 [|k2 [|k3 [|k4 ks]]]]; try discriminate Hks.
    destruct vs as [|l1 [|l2 [|l3 [|l4 vs]]]]; try discriminate Hvs.
    assert (H1 := Hsub k1 (or_introl eq_refl)). assert (H2 := Hsub k2 (or_intror (or_introl eq_refl))).
    assert (H3 := Hsub k3 (or_intror (or_intror (or_introl eq_refl)))).
    apply NoDup_cons_iff in Hndk as [Hn1 Hndk]. apply NoDup_cons_iff in Hndk as [Hn2 _].
    unfold action_parts.
    destruct H1 as [<-|[<-|[<-|[]]]]; destruct H2 as [<-|[<-|[<-|[]]]]; destruct H3 as [<-|[<-|[<-|[]]]];
      try (exfalso; apply Hn1; simpl; tauto); try (exfalso; apply Hn2; simpl; tauto);
      cbn [kv_pairs] in *; simpl in Fp, Fq, Fe; injection Fp as <-; injection Fq as <-; injection Fe as <-;
      binds Hp; injection Hp as <-;
      do 12 eexists; repeat (split; [eassumption|]); split; reflexivity.
  Qed.

  Theorem parse_action_faithful body ma sa :
    parse_action num tt consts preds funcs body = Ok ma ->
    read_action num body = Some sa ->
    action_ok sa = true ->
    action_faithful ma sa.
  Proof.
    intros Hp Hr Hok.
    destruct (parse_action_parts body ma sa Hp Hr)
      as (n & sg & sg1 & sg2 & p & ef & lps & lpre & leff & params & f & es & H1 & H2 & H3 & H4 & H5 & H6 & -> & ->).
    unfold action_ok in Hok. cbn [a_pre a_effs] in Hok. apply andb_true_iff in Hok as [Hokf Hoke].
    eapply action_parts_faithful; eassumption.
  Qed.
End ParseAction.

(* name and parameters need no side condition *)
Lemma parse_action_signature num tt consts preds funcs body ma sa :
  parse_action num tt consts preds funcs body = Ok ma ->
  read_action num body = Some sa ->
  ma_name ma = lower_string (a_name sa) /\ ma_sig ma = dict_of (a_params sa).
Proof.
  intros Hp Hr.
  destruct (parse_action_parts num tt consts preds funcs body ma sa Hp Hr)
    as (n & sg & sg1 & sg2 & p & ef & lps & lpre & leff & params & f & es & H1 & H2 & H3 & H4 & H5 & H6 & -> & ->).
  split; [reflexivity|]. cbn [ma_sig a_params].
  destruct (parse_signature_spec tt lps sg H1) as (rows & Hr' & ->). rewrite H4 in Hr'. injection Hr' as <-. reflexivity.
Qed.
