(* C15 / C16: the two specs of non-interference coincide.  Spec/JointPlan.v (this property) computes a footprint record
   per action; Spec/Joint.v (C16) computes the read / add / delete / set lists of a member.  For every pair of ground
   actions the two decision procedures return the same answer.  (The readers of formulas of the two files are
   convertible; C16 also counts the target of an increase / decrease as read, which adds nothing because two members
   may not write the same fluent anyway.) *)
From Coq Require Import List String Bool Arith PrimFloat.
From Verif Require Import Base.Str Spec.Pddl Spec.JointPlan Spec.Joint Proofs.C15_Views.
Import ListNotations.
Open Scope list_scope.

Module J := Verif.Spec.Joint.
Module P := Verif.Spec.JointPlan.

Lemma disjoint_iff (x y : list atom) : P.disjoint x y = true <-> (forall a, In a x -> In a y -> False).
Proof.
  unfold P.disjoint. rewrite forallb_forall. split.
  - intros H a Hx Hy. specialize (H a Hx). apply negb_true_iff in H. apply atom_in_In in Hy. congruence.
  - intros H a Hx. apply negb_true_iff. destruct (atom_in a y) eqn:E; [|reflexivity].
    apply atom_in_In in E. exfalso. exact (H a Hx E).
Qed.

(* projections of a folded union *)
Section Proj.
  Context {A : Type} (f : A -> P.footprint).
  Let U (l : list A) := fold_right (fun x acc => fp_union (f x) acc) fp_empty l.
  Lemma proj_adds l : fp_adds (U l) = flat_map (fun x => fp_adds (f x)) l.
  Proof. induction l as [|x l IH]; [reflexivity|]. unfold U in *. cbn. rewrite IH. reflexivity. Qed.
  Lemma proj_dels l : fp_dels (U l) = flat_map (fun x => fp_dels (f x)) l.
  Proof. induction l as [|x l IH]; [reflexivity|]. unfold U in *. cbn. rewrite IH. reflexivity. Qed.
  Lemma proj_writes l : fp_writes (U l) = flat_map (fun x => fp_writes (f x)) l.
  Proof. induction l as [|x l IH]; [reflexivity|]. unfold U in *. cbn. rewrite IH. reflexivity. Qed.
  Lemma proj_pa l : fp_pre_atoms (U l) = flat_map (fun x => fp_pre_atoms (f x)) l.
  Proof. induction l as [|x l IH]; [reflexivity|]. unfold U in *. cbn. rewrite IH. reflexivity. Qed.
  Lemma proj_pf l : fp_pre_fluents (U l) = flat_map (fun x => fp_pre_fluents (f x)) l.
  Proof. induction l as [|x l IH]; [reflexivity|]. unfold U in *. cbn. rewrite IH. reflexivity. Qed.
  Lemma proj_ea l : fp_eff_atoms (U l) = flat_map (fun x => fp_eff_atoms (f x)) l.
  Proof. induction l as [|x l IH]; [reflexivity|]. unfold U in *. cbn. rewrite IH. reflexivity. Qed.
  Lemma proj_ef l : fp_eff_fluents (U l) = flat_map (fun x => fp_eff_fluents (f x)) l.
  Proof. induction l as [|x l IH]; [reflexivity|]. unfold U in *. cbn. rewrite IH. reflexivity. Qed.
End Proj.

Lemma flat_map_nil {A B} (l : list A) : flat_map (fun _ : A => @nil B) l = [].
Proof. induction l; [reflexivity|]. cbn. assumption. Qed.

Lemma flat_map_flat_map {A B C} (f : A -> list B) (g : B -> list C) l :
  flat_map g (flat_map f l) = flat_map (fun x => flat_map g (f x)) l.
Proof. induction l as [|x l IH]; [reflexivity|]. cbn. rewrite flat_map_app, IH. reflexivity. Qed.

Section Reconcile.
  Variable tt : tytree.
  Variable objs : objects.

  (* ---------- primitive effects ---------- *)
  Lemma prims_adds e ps : fp_adds (prims_fp e ps) = flat_map (J.prim_adds e) ps.
  Proof. unfold prims_fp. rewrite (proj_adds (prim_fp e)). apply flat_map_ext. intros [q a|q a|k f a r]; reflexivity. Qed.
  Lemma prims_dels e ps : fp_dels (prims_fp e ps) = flat_map (J.prim_dels e) ps.
  Proof. unfold prims_fp. rewrite (proj_dels (prim_fp e)). apply flat_map_ext. intros [q a|q a|k f a r]; reflexivity. Qed.
  Lemma prims_writes e ps : fp_writes (prims_fp e ps) = flat_map (J.prim_sets e) ps.
  Proof. unfold prims_fp. rewrite (proj_writes (prim_fp e)). apply flat_map_ext. intros [q a|q a|k f a r]; reflexivity. Qed.
  Lemma prims_pa e ps : fp_pre_atoms (prims_fp e ps) = [].
  Proof. unfold prims_fp. rewrite (proj_pa (prim_fp e)). rewrite <- (flat_map_nil ps). apply flat_map_ext. intros [q a|q a|k f a r]; reflexivity. Qed.
  Lemma prims_pf e ps : fp_pre_fluents (prims_fp e ps) = [].
  Proof. unfold prims_fp. rewrite (proj_pf (prim_fp e)). rewrite <- (flat_map_nil ps). apply flat_map_ext. intros [q a|q a|k f a r]; reflexivity. Qed.
  Lemma prims_ea e ps : fp_eff_atoms (prims_fp e ps) = [].
  Proof. unfold prims_fp. rewrite (proj_ea (prim_fp e)). rewrite <- (flat_map_nil ps). apply flat_map_ext. intros [q a|q a|k f a r]; reflexivity. Qed.

  (* right-hand sides: C16's reads of a primitive are C15's plus, for increase / decrease, the assigned fluent *)
  Lemma prims_ef_in e ps x : In x (fp_eff_fluents (prims_fp e ps)) -> In x (flat_map (J.prim_rfluents e) ps).
  Proof.
    unfold prims_fp. rewrite (proj_ef (prim_fp e)). rewrite !in_flat_map. intros (p & Hp & Hx). exists p. split; [exact Hp|].
    destruct p as [q a|q a|k f a r]; cbn in *; try contradiction. destruct k; cbn; auto.
  Qed.
  Lemma prims_rf_in e ps x :
    In x (flat_map (J.prim_rfluents e) ps) -> In x (fp_eff_fluents (prims_fp e ps)) \/ In x (flat_map (J.prim_sets e) ps).
  Proof.
    unfold prims_fp. rewrite (proj_ef (prim_fp e)). rewrite !in_flat_map. intros (p & Hp & Hx).
    destruct p as [q a|q a|k f a r]; cbn in Hx; try contradiction.
    destruct k; cbn in Hx.
    - left. exists (PNum AAssign f a r). split; [exact Hp|exact Hx].
    - destruct Hx as [<-|Hx]; [right; exists (PNum AIncrease f a r); split; [exact Hp|left; reflexivity]|left; exists (PNum AIncrease f a r); split; [exact Hp|exact Hx]].
    - destruct Hx as [<-|Hx]; [right; exists (PNum ADecrease f a r); split; [exact Hp|left; reflexivity]|left; exists (PNum ADecrease f a r); split; [exact Hp|exact Hx]].
  Qed.

  (* ---------- one instance of an effect (environment, condition, primitives) ---------- *)
  Definition inst_fp (i : env * option form * list prim) : P.footprint :=
    match i with
    | (e, Some c, es) => fp_union (cond_fp tt objs e c) (prims_fp e es)
    | (e, None, es) => prims_fp e es
    end.

  Lemma inst_adds i : fp_adds (inst_fp i) = J.inst_over J.prim_adds i.
  Proof. destruct i as [[e [c|]] es]; cbn; apply prims_adds. Qed.
  Lemma inst_dels i : fp_dels (inst_fp i) = J.inst_over J.prim_dels i.
  Proof. destruct i as [[e [c|]] es]; cbn; apply prims_dels. Qed.
  Lemma inst_writes i : fp_writes (inst_fp i) = J.inst_over J.prim_sets i.
  Proof. destruct i as [[e [c|]] es]; cbn; apply prims_writes. Qed.
  Lemma inst_pa i : fp_pre_atoms (inst_fp i) = [].
  Proof. destruct i as [[e [c|]] es]; cbn; apply prims_pa. Qed.
  Lemma inst_pf i : fp_pre_fluents (inst_fp i) = [].
  Proof. destruct i as [[e [c|]] es]; cbn; apply prims_pf. Qed.
  Lemma inst_ea i : fp_eff_atoms (inst_fp i) = J.inst_cond_atoms tt objs i.
  Proof. destruct i as [[e [c|]] es]; cbn; rewrite prims_ea; [apply app_nil_r|reflexivity]. Qed.
  Lemma inst_ef_in i x : In x (fp_eff_fluents (inst_fp i)) -> In x (J.inst_cond_fluents tt objs i) \/ In x (J.inst_over J.prim_rfluents i).
  Proof.
    destruct i as [[e [c|]] es]; cbn.
    - rewrite in_app_iff. intros [H|H]; [left; exact H|right; apply prims_ef_in; exact H].
    - intros H. right. apply prims_ef_in. exact H.
  Qed.
  Lemma inst_rf_in i x :
    In x (J.inst_cond_fluents tt objs i) \/ In x (J.inst_over J.prim_rfluents i) ->
    In x (fp_eff_fluents (inst_fp i)) \/ In x (J.inst_over J.prim_sets i).
  Proof.
    destruct i as [[e [c|]] es]; cbn.
    - rewrite in_app_iff. intros [H|H]; [left; left; exact H|]. destruct (prims_rf_in e es x H); [left; right; assumption|right; assumption].
    - intros [[]|H]. apply (prims_rf_in e es x H).
  Qed.

  (* an effect is the union of its instances *)
  Lemma eff_as_instances e ef :
    forall proj : P.footprint -> list atom,
      (forall a b, proj (fp_union a b) = proj a ++ proj b) -> proj fp_empty = [] ->
      proj (eff_fp tt objs e ef) = flat_map (fun i => proj (inst_fp i)) (J.eff_instances tt objs e ef).
  Proof.
    intros proj Hu He. destruct ef as [es|c es|v ty c es]; cbn [eff_fp J.eff_instances flat_map inst_fp].
    - rewrite app_nil_r. reflexivity.
    - rewrite app_nil_r. reflexivity.
    - induction (objects_of_type tt objs ty) as [|o os IH]; cbn [fold_right map flat_map]; [exact He|].
      rewrite Hu, IH. reflexivity.
  Qed.

  Definition m_inst (m : J.member) := J.m_instances tt objs m.

  Lemma action_proj (a : action) (args : list name) (proj : P.footprint -> list atom) :
    (forall x y, proj (fp_union x y) = proj x ++ proj y) -> proj fp_empty = [] ->
    proj (action_fp tt objs a args) =
    proj (pre_fp tt objs (bind_args a args) (a_pre a)) ++ flat_map (fun i => proj (inst_fp i)) (m_inst (a, args)).
  Proof.
    intros Hu He. unfold action_fp, m_inst, J.m_instances, J.m_env. cbn [fst snd]. rewrite Hu. f_equal.
    induction (a_effs a) as [|ef effs IH]; cbn [fold_right flat_map]; [exact He|].
    rewrite Hu, IH, flat_map_app. f_equal. apply eff_as_instances; assumption.
  Qed.

  Lemma u_adds x y : fp_adds (fp_union x y) = fp_adds x ++ fp_adds y. Proof. reflexivity. Qed.
  Lemma u_dels x y : fp_dels (fp_union x y) = fp_dels x ++ fp_dels y. Proof. reflexivity. Qed.
  Lemma u_writes x y : fp_writes (fp_union x y) = fp_writes x ++ fp_writes y. Proof. reflexivity. Qed.
  Lemma u_pa x y : fp_pre_atoms (fp_union x y) = fp_pre_atoms x ++ fp_pre_atoms y. Proof. reflexivity. Qed.
  Lemma u_pf x y : fp_pre_fluents (fp_union x y) = fp_pre_fluents x ++ fp_pre_fluents y. Proof. reflexivity. Qed.
  Lemma u_ea x y : fp_eff_atoms (fp_union x y) = fp_eff_atoms x ++ fp_eff_atoms y. Proof. reflexivity. Qed.
  Lemma u_ef x y : fp_eff_fluents (fp_union x y) = fp_eff_fluents x ++ fp_eff_fluents y. Proof. reflexivity. Qed.

  (* ---------- the seven sets of an action, against C16's lists ---------- *)
  Section Action.
    Variable a : action.
    Variable args : list name.
    Let m : J.member := (a, args).
    Let fp := action_fp tt objs a args.

    Lemma a_adds : fp_adds fp = J.add_atoms tt objs m.
    Proof.
      unfold fp. rewrite (action_proj a args fp_adds u_adds eq_refl). cbn [pre_fp fp_adds app].
      unfold J.add_atoms. apply flat_map_ext. intros i. apply inst_adds.
    Qed.
    Lemma a_dels : fp_dels fp = J.del_atoms tt objs m.
    Proof.
      unfold fp. rewrite (action_proj a args fp_dels u_dels eq_refl). cbn [pre_fp fp_dels app].
      unfold J.del_atoms. apply flat_map_ext. intros i. apply inst_dels.
    Qed.
    Lemma a_writes : fp_writes fp = J.set_fluents tt objs m.
    Proof.
      unfold fp. rewrite (action_proj a args fp_writes u_writes eq_refl). cbn [pre_fp fp_writes app].
      unfold J.set_fluents. apply flat_map_ext. intros i. apply inst_writes.
    Qed.
    Lemma a_pa : fp_pre_atoms fp = J.form_atoms tt objs (J.m_env m) (a_pre a).
    Proof.
      unfold fp. rewrite (action_proj a args fp_pre_atoms u_pa eq_refl). cbn [pre_fp fp_pre_atoms].
      rewrite (flat_map_ext _ (fun _ => []) inst_pa), flat_map_nil, app_nil_r. reflexivity.
    Qed.
    Lemma a_pf : fp_pre_fluents fp = J.form_fluents tt objs (J.m_env m) (a_pre a).
    Proof.
      unfold fp. rewrite (action_proj a args fp_pre_fluents u_pf eq_refl). cbn [pre_fp fp_pre_fluents].
      rewrite (flat_map_ext _ (fun _ => []) inst_pf), flat_map_nil, app_nil_r. reflexivity.
    Qed.
    Lemma a_ea : fp_eff_atoms fp = flat_map (J.inst_cond_atoms tt objs) (m_inst m).
    Proof.
      unfold fp. rewrite (action_proj a args fp_eff_atoms u_ea eq_refl). cbn [pre_fp fp_eff_atoms app].
      apply flat_map_ext. intros i. apply inst_ea.
    Qed.

    Lemma a_read_atoms x : In x (fp_pre_atoms fp ++ fp_eff_atoms fp) <-> In x (J.read_atoms tt objs m).
    Proof. rewrite a_pa, a_ea. unfold J.read_atoms, m_inst. reflexivity. Qed.

    Lemma a_read_fluents_1 x : In x (fp_pre_fluents fp ++ fp_eff_fluents fp) -> In x (J.read_fluents tt objs m).
    Proof.
      rewrite a_pf. unfold J.read_fluents. rewrite !in_app_iff. intros [H|H]; [left; exact H|right].
      unfold fp in H. rewrite (action_proj a args fp_eff_fluents u_ef eq_refl) in H. cbn [pre_fp fp_eff_fluents app] in H.
      apply in_flat_map in H. destruct H as (i & Hi & Hx). destruct (inst_ef_in i x Hx) as [H|H].
      - left. apply in_flat_map. exists i. split; assumption.
      - right. apply in_flat_map. exists i. split; assumption.
    Qed.

    Lemma a_read_fluents_2 x :
      In x (J.read_fluents tt objs m) -> In x (fp_pre_fluents fp ++ fp_eff_fluents fp) \/ In x (J.set_fluents tt objs m).
    Proof.
      rewrite a_pf. unfold J.read_fluents, J.set_fluents. rewrite !in_app_iff.
      assert (G : forall i, In i (m_inst m) -> In x (J.inst_cond_fluents tt objs i) \/ In x (J.inst_over J.prim_rfluents i) ->
                  In x (fp_eff_fluents fp) \/ In x (flat_map (J.inst_over J.prim_sets) (J.m_instances tt objs m))).
      { intros i Hi H. destruct (inst_rf_in i x H) as [H'|H'].
        - left. unfold fp. rewrite (action_proj a args fp_eff_fluents u_ef eq_refl). cbn [pre_fp fp_eff_fluents app].
          apply in_flat_map. exists i. split; assumption.
        - right. apply in_flat_map. exists i. split; assumption. }
      intros [H|[H|H]].
      - left. left. exact H.
      - apply in_flat_map in H. destruct H as (i & Hi & Hx). destruct (G i Hi (or_introl Hx)); [left; right; assumption|right; assumption].
      - apply in_flat_map in H. destruct H as (i & Hi & Hx). destruct (G i Hi (or_intror Hx)); [left; right; assumption|right; assumption].
    Qed.
  End Action.

  (* ---------- the two decision procedures agree ---------- *)
  Lemma bool_iff (b c : bool) : (b = true <-> c = true) -> b = c.
  Proof. destruct b, c; intros [H1 H2]; try reflexivity; [symmetry; apply H1; reflexivity|apply H2; reflexivity]. Qed.

  Theorem non_interfering_agree (a b : action) (argsa argsb : list name) :
    fp_non_interfering (action_fp tt objs a argsa) (action_fp tt objs b argsb) =
    J.non_interfering tt objs (a, argsa) (b, argsb).
  Proof.
    apply bool_iff.
    unfold fp_non_interfering, fp_effects_compatible, fp_preconditions_untouched, fp_changed,
           J.non_interfering, J.undisturbed_by.
    change J.disjoint with P.disjoint.
    rewrite !andb_true_iff, !disjoint_iff.
    set (X := action_fp tt objs a argsa). set (Y := action_fp tt objs b argsb).
    set (A := (a, argsa) : J.member). set (B := (b, argsb) : J.member).
    pose proof (a_adds a argsa) as Eaa. pose proof (a_dels a argsa) as Eda. pose proof (a_writes a argsa) as Ewa.
    pose proof (a_adds b argsb) as Eab. pose proof (a_dels b argsb) as Edb. pose proof (a_writes b argsb) as Ewb.
    fold X in Eaa, Eda, Ewa. fold Y in Eab, Edb, Ewb. fold A in Eaa, Eda, Ewa. fold B in Eab, Edb, Ewb.
    rewrite <- Eaa, <- Eda, <- Ewa, <- Eab, <- Edb, <- Ewb.
    pose proof (a_read_atoms a argsa) as Ra. pose proof (a_read_atoms b argsb) as Rb.
    pose proof (a_read_fluents_1 a argsa) as Fa1. pose proof (a_read_fluents_1 b argsb) as Fb1.
    pose proof (a_read_fluents_2 a argsa) as Fa2. pose proof (a_read_fluents_2 b argsb) as Fb2.
    fold X in Ra, Fa1, Fa2. fold Y in Rb, Fb1, Fb2. fold A in Ra, Fa1, Fa2. fold B in Rb, Fb1, Fb2.
    rewrite <- Ewa in Fa2. rewrite <- Ewb in Fb2.
    split.
    - intros [[[[[[[p1 p2] p3] p4] p5] p6] p7] [[[p8 p9] p10] p11]].
      repeat split.
      + intros x Hx Hy. apply Rb in Hy. apply in_app_iff in Hy. destruct Hy as [Hy|Hy]; [exact (p9 x Hy Hx)|exact (p4 x Hy Hx)].
      + exact p1.
      + intros x Hx Hy. apply in_app_iff in Hy. destruct Hy as [Hy|Hy]; [|exact (p5 x Hx Hy)].
        destruct (Fb2 x Hy) as [Hz|Hz]; [|exact (p5 x Hx Hz)].
        apply in_app_iff in Hz. destruct Hz as [Hz|Hz]; [exact (p11 x Hz Hx)|exact (p7 x Hz Hx)].
      + intros x Hx Hy. apply Ra in Hy. apply in_app_iff in Hy. destruct Hy as [Hy|Hy]; [exact (p8 x Hy Hx)|exact (p3 x Hy Hx)].
      + intros x Hx Hy. exact (p2 x Hy Hx).
      + intros x Hx Hy. apply in_app_iff in Hy. destruct Hy as [Hy|Hy]; [|exact (p5 x Hy Hx)].
        destruct (Fa2 x Hy) as [Hz|Hz]; [|exact (p5 x Hz Hx)].
        apply in_app_iff in Hz. destruct Hz as [Hz|Hz]; [exact (p10 x Hz Hx)|exact (p6 x Hz Hx)].
    - intros [[[u1 u2] u3] [[v1 v2] v3]].
      assert (RA : forall x, In x (fp_pre_atoms X) \/ In x (fp_eff_atoms X) -> In x (J.read_atoms tt objs A)).
      { intros x H. apply Ra. apply in_app_iff. exact H. }
      assert (RB : forall x, In x (fp_pre_atoms Y) \/ In x (fp_eff_atoms Y) -> In x (J.read_atoms tt objs B)).
      { intros x H. apply Rb. apply in_app_iff. exact H. }
      assert (FA : forall x, In x (fp_pre_fluents X) \/ In x (fp_eff_fluents X) -> In x (J.read_fluents tt objs A)).
      { intros x H. apply Fa1. apply in_app_iff. exact H. }
      assert (FB : forall x, In x (fp_pre_fluents Y) \/ In x (fp_eff_fluents Y) -> In x (J.read_fluents tt objs B)).
      { intros x H. apply Fb1. apply in_app_iff. exact H. }
      repeat split.
      + exact u2.
      + intros x Hx Hy. exact (v2 x Hy Hx).
      + intros x Hx Hy. exact (v1 x Hy (RA x (or_intror Hx))).
      + intros x Hx Hy. exact (u1 x Hy (RB x (or_intror Hx))).
      + intros x Hx Hy. apply (u3 x Hx). apply in_app_iff. right. exact Hy.
      + intros x Hx Hy. apply (v3 x Hy). apply in_app_iff. left. exact (FA x (or_intror Hx)).
      + intros x Hx Hy. apply (u3 x Hy). apply in_app_iff. left. exact (FB x (or_intror Hx)).
      + intros x Hx Hy. exact (v1 x Hy (RA x (or_introl Hx))).
      + intros x Hx Hy. exact (u1 x Hy (RB x (or_introl Hx))).
      + intros x Hx Hy. apply (v3 x Hy). apply in_app_iff. left. exact (FA x (or_introl Hx)).
      + intros x Hx Hy. apply (u3 x Hy). apply in_app_iff. left. exact (FB x (or_introl Hx)).
  Qed.
End Reconcile.
