(* C07: repeatability, interleavings of event sequences with private write footprints, and the refutations
   (witness histories) for the unrepaired configurations. *)
From Coq Require Import List Bool Arith PeanoNat Lia.
From Verif Require Import Model.Store Proofs.C07_Frame.
Import ListNotations.
Open Scope list_scope.

(* ------------------------------------------------------------------ repeat *)
Lemma repeat_lemma : forall c h1 h2 vs, writes_fixed c = true ->
  let r1 := run c h1 start in
  let r2 := run c h2 r1 in
  Forall (fun v => In v (values (fst r1))) vs ->
  flat_map (reach (fst r2)) vs = flat_map (reach (fst r1)) vs /\
  map (snd r2) (flat_map (reach (fst r1)) vs) = map (snd r1) (flat_map (reach (fst r1)) vs).
Proof.
  intros c h1 h2 vs F r1 r2 Hvs.
  assert (I1 : Inv (fst r1)).
  { unfold r1, start. apply run_inv; auto. apply Inv_init. }
  induction vs as [|v vs IH]; simpl; auto.
  inversion Hvs as [|? ? Hv Hrest]; subst. destruct (IH Hrest) as [IH1 IH2].
  pose proof (frame_history c h2 (fst r1) (snd r1) v F I1 Hv) as G. simpl in G.
  replace (fst r1, snd r1) with r1 in G by (destruct r1; auto). fold r2 in G.
  destruct G as (_ & G2 & G3). split.
  - rewrite G2, IH1; auto.
  - rewrite !map_app. rewrite IH2. f_equal. apply map_ext_in. intros l Hl. apply G3; auto.
Qed.

(* ------------------------------------------------------------------ interleavings *)
(* A schedule is a list of (thread, event).  priv i l: cell l is private to thread i (it will be allocated by i). *)
Section Interleave.
  Variable priv : nat -> loc -> Prop.

  (* thread-local discipline: a thread writes only its private cells and never reads another thread's *)
  Definition ev_ok (i : nat) (e : event) : Prop :=
    match e with
    | Write l => priv i l
    | Read l => forall j, priv j l -> j = i
    | _ => True
    end.
  Definition sched_ok (s : list (nat * event)) : Prop := Forall (fun te => ev_ok (fst te) (snd te)) s.

  (* what thread i observes: the contents returned by its reads, in order *)
  Fixpoint observe (i : nat) (s : list (nat * event)) (st : store) : list nat :=
    match s with
    | [] => []
    | (j, e) :: r =>
        let here := if Nat.eqb i j then match e with Read l => [st l] | _ => [] end else [] in
        here ++ observe i r (exec st e)
    end.
  Definition mine (i : nat) (s : list (nat * event)) : list (nat * event) :=
    filter (fun te => Nat.eqb i (fst te)) s.

  (* stores that agree on everything thread i may look at *)
  Definition agree (i : nat) (a b : store) : Prop := forall l, (forall j, priv j l -> j = i) -> a l = b l.

  Lemma agree_exec_own : forall i e a b, agree i a b -> agree i (exec a e) (exec b e).
  Proof.
    intros i e a b H l Hl. destruct e; simpl; auto. unfold upd.
    destruct (loc_eqb l0 l) eqn:E; auto. apply loc_eqb_eq in E; subst. rewrite H; auto.
  Qed.

  Lemma agree_exec_other : forall i j e a b, j <> i -> ev_ok j e -> agree i a b -> agree i (exec a e) b.
  Proof.
    intros i j e a b Hij Hok H l Hl. destruct e; simpl; auto. unfold upd.
    destruct (loc_eqb l0 l) eqn:E; auto. apply loc_eqb_eq in E; subst. simpl in Hok.
    exfalso. apply Hij. apply Hl; auto.
  Qed.

  Lemma interleave_lemma : forall s i a b, sched_ok s -> agree i a b ->
    observe i s a = observe i (mine i s) b.
  Proof.
    induction s as [|[j e] r IH]; intros i a b Hs H; simpl; auto.
    inversion Hs as [|? ? Hje Hr]; subst. simpl in Hje.
    destruct (Nat.eqb i j) eqn:E.
    - apply Nat.eqb_eq in E; subst. simpl. rewrite Nat.eqb_refl. f_equal.
      + destruct e; auto. rewrite H; auto.
      + apply IH; auto. apply agree_exec_own; auto.
    - apply Nat.eqb_neq in E. simpl. apply IH; auto. eapply agree_exec_other; eauto.
  Qed.
End Interleave.

(* the hypotheses are satisfiable by a non-trivial schedule: two threads, each allocating, writing and reading its
   own cell and reading a shared one, interleaved *)
Definition ex_priv (i : nat) (l : loc) : Prop := l = (OSt i, 0).
Definition ex_sched : list (nat * event) :=
  [(0, Alloc (OSt 0, 0)); (1, Alloc (OSt 1, 0)); (0, Read (ODom 0, 1)); (1, Write (OSt 1, 0));
   (0, Write (OSt 0, 0)); (1, Read (OSt 1, 0)); (1, Read (ODom 0, 1)); (0, Read (OSt 0, 0))].
Lemma ex_sched_ok : sched_ok ex_priv ex_sched.
Proof.
  unfold sched_ok, ex_sched, ex_priv. repeat constructor; simpl; auto;
    intros j H; try discriminate; inversion H; auto.
Qed.

(* a log of events on cells that are private to nobody (the containers of a shared domain) satisfies the discipline
   exactly when nobody writes: this is what the correspondence run decides for the logs of the deterministic
   scheduler (Corr/C07.v, threads_clean) *)
Definition nobody (i : nat) (l : loc) : Prop := False.
Lemma no_writes_sched_ok : forall s, no_writes s = true <-> sched_ok nobody s.
Proof.
  intros s. unfold no_writes, sched_ok. rewrite forallb_forall, Forall_forall. split.
  - intros H te Hte. specialize (H te Hte). destruct te as [i e]; simpl in *. destruct e; simpl; auto.
    + intros j [].
    + discriminate.
  - intros H te Hte. specialize (H te Hte). destruct te as [i e]; simpl in *. destruct e; simpl; auto.
Qed.

(* ------------------------------------------------------------------ refutations *)
Definition sh1 : ashape := {| a_pre := 1; a_effs := [(0, 1)]; a_forall := 1 |}.
Definition only (f15 f16 f17 f18 : bool) : cfg := {| fix15 := f15; fix16 := f16; fix17 := f17; fix18 := f18 |}.

(* the full frame statement, as a predicate of the configuration *)
Definition frame_statement (c : cfg) : Prop :=
  forall h1 h2 v l, let r1 := run c h1 start in let r2 := run c h2 r1 in
    In v (values (fst r1)) -> In l (reach (fst r1) v) -> snd r2 l = snd r1 l.

Lemma frame_holds : forall c, writes_fixed c = true -> frame_statement c.
Proof.
  intros c F h1 h2 v l r1 r2 Hv Hl.
  assert (I1 : Inv (fst r1)) by (unfold r1, start; apply run_inv; auto; apply Inv_init).
  pose proof (frame_history c h2 (fst r1) (snd r1) v F I1 Hv) as G. simpl in G.
  replace (fst r1, snd r1) with r1 in G by (destruct r1; auto). fold r2 in G.
  destruct G as (_ & _ & G3). apply G3; auto.
Qed.

Ltac refute h1 h2 v l :=
  intros H; specialize (H h1 h2 v l); vm_compute in H;
  match type of H with ?A -> ?B -> ?C => assert (X : C) by (apply H; tauto); discriminate X end.

(* D15: apply of an action with a forall effect writes the schema's signature dict *)
Lemma refuted_D15 : ~ frame_statement (only false true true true).
Proof.
  refute [OParseDomain true 1; OParseProblem 0 [0]; OMkOp 0 0 (Some 0) sh1] [OApply 0 0 false false]
         (ODom 0) ((ODom 0, 2) : loc).
Qed.

(* D16: re-applying the operator rewrites a fluent cell of the state it returned before *)
Lemma refuted_D16 : ~ frame_statement (only true false true true).
Proof.
  refute [OParseDomain true 1; OParseProblem 0 [0]; OMkOp 0 0 (Some 0) sh1; OApply 0 0 false false]
         [OApply 0 1 false false] (OSt 1) ((OOp 0, 2) : loc).
Qed.

(* D18: combining agent domains writes the module-level DEFAULT_TYPES, reachable from every earlier Domain() *)
Lemma refuted_D18 : ~ frame_statement (only true true true false).
Proof.
  refute [ONewDomain] [OCombine 1] (ODom 0) ((OMod, 0) : loc).
Qed.

(* separation (no value reaches a cell outside its own region) *)
Definition separation_statement (c : cfg) : Prop := forall h, separated (fst (run c h start)) = true.

(* D17: a refused trajectory step returns a state made of the previous state's dicts *)
Lemma refuted_D17 : ~ separation_statement (only true true false true).
Proof.
  intros H. specialize (H [OParseDomain true 1; OParseProblem 0 [0]; OTriplet 0 0 0 0 sh1 true]).
  vm_compute in H. discriminate H.
Qed.

(* the same histories are clean in the repaired configuration *)
Example repaired_D17_history :
  separated (fst (run all_fixed [OParseDomain true 1; OParseProblem 0 [0]; OTriplet 0 0 0 0 sh1 true] start)) = true.
Proof. vm_compute. reflexivity. Qed.
