(* C08: the declaration sections - types and constants come back grouped by parent; predicates and functions come
   back as they were. *)
From Coq Require Import List Ascii String Bool Arith Lia Permutation PrimFloat.
From Verif Require Import Base.Result Base.Str Base.Sexp Base.PyDict Base.Float
  Model.Types Model.NumExpr Model.Domain Model.DomainExporter Proofs.C08_Defs Proofs.C08_Trees.
Import ListNotations.
Open Scope string_scope.
Open Scope list_scope.

(* ---------- dicts with distinct keys ---------- *)
Lemma dget_in {V} (d : pydict V) k v : NoDup (dkeys d) -> (dget d k = Some v <-> In (k, v) d).
Proof.
  induction d as [|[k' v'] r IH]; simpl; intros Hnd.
  - split; [discriminate|intros []].
  - inversion Hnd as [|? ? Hnk Hnd']; subst. destruct (String.eqb k k') eqn:E.
    + apply String.eqb_eq in E. subst k'. split.
      * intros H. injection H as ->. left. reflexivity.
      * intros [H|H]; [injection H as ->; reflexivity|].
        exfalso. apply Hnk. unfold dkeys. apply in_map_iff. exists (k, v). split; [reflexivity|exact H].
    + rewrite (IH Hnd'). split; [intros H; right; exact H|].
      intros [H|H]; [|exact H]. injection H as -> ->. rewrite String.eqb_refl in E. discriminate.
Qed.

Lemma dget_perm {V} (d1 d2 : pydict V) k : NoDup (dkeys d1) -> Permutation d1 d2 -> dget d1 k = dget d2 k.
Proof.
  intros Hnd Hp.
  assert (Hnd2 : NoDup (dkeys d2)).
  { unfold dkeys in *. eapply Permutation_NoDup; [apply Permutation_map; exact Hp|exact Hnd]. }
  destruct (dget d1 k) as [v|] eqn:E1.
  - symmetry. apply (dget_in d2 k v Hnd2). eapply Permutation_in; [exact Hp|]. apply (dget_in d1 k v Hnd). exact E1.
  - destruct (dget d2 k) as [v|] eqn:E2; [|reflexivity].
    apply (dget_in d2 k v Hnd2) in E2. apply Permutation_sym in Hp.
    pose proof (Permutation_in _ Hp E2) as Hin. apply (dget_in d1 k v Hnd) in Hin. congruence.
Qed.

Lemma dmem_perm {V} (d1 d2 : pydict V) k : NoDup (dkeys d1) -> Permutation d1 d2 -> dmem d1 k = dmem d2 k.
Proof. intros H1 H2. unfold dmem. rewrite (dget_perm d1 d2 k H1 H2). reflexivity. Qed.

Lemma nodup_app_r {A} (a b : list A) : NoDup (a ++ b) -> NoDup b.
Proof. induction a as [|x xs IH]; simpl; intros H; [exact H|]. inversion H; subst. apply IH. assumption. Qed.

Lemma forallb_ext8 {A} (f g : A -> bool) l : (forall x, f x = g x) -> forallb f l = forallb g l.
Proof. intros H. induction l as [|x xs IH]; simpl; [reflexivity|]. rewrite H, IH. reflexivity. Qed.

(* ---------- grouping ---------- *)
Lemma ungroup_group_add g key member :
  Permutation (ungroup (group_add g key member)) (ungroup g ++ [(member, key)]).
Proof.
  induction g as [|[k ms] r IH]; cbn [group_add].
  - reflexivity.
  - destruct (String.eqb key k) eqn:E.
    + apply String.eqb_eq in E. subst k. unfold ungroup. cbn [flat_map fst snd]. rewrite map_app. cbn [map].
      rewrite <- !app_assoc. apply Permutation_app_head. apply Permutation_app_comm.
    + unfold ungroup in *. cbn [flat_map fst snd]. rewrite <- app_assoc. apply Permutation_app_head. exact IH.
Qed.

Lemma regroup_perm_aux (d : pydict string) : forall g,
  Permutation (ungroup (fold_left (fun g kv => group_add g (snd kv) (fst kv)) d g)) (ungroup g ++ d).
Proof.
  induction d as [|[k v] r IH]; intros g; cbn [fold_left fst snd].
  - rewrite app_nil_r. reflexivity.
  - rewrite IH. rewrite (ungroup_group_add g v k). rewrite <- app_assoc. reflexivity.
Qed.

Lemma regroup_perm d : Permutation (regroup d) d.
Proof. unfold regroup, group_by_value. rewrite regroup_perm_aux. reflexivity. Qed.

Lemma regroup_nodup d : NoDup (dkeys d) -> NoDup (dkeys (regroup d)).
Proof.
  intros H. unfold dkeys in *. eapply Permutation_NoDup; [|exact H].
  apply Permutation_map. apply Permutation_sym. apply regroup_perm.
Qed.

Lemma regroup_dget d k : NoDup (dkeys d) -> dget (regroup d) k = dget d k.
Proof. intros H. apply dget_perm; [apply regroup_nodup; exact H|apply regroup_perm]. Qed.

Lemma regroup_dmem d k : NoDup (dkeys d) -> dmem (regroup d) k = dmem d k.
Proof. intros H. unfold dmem. rewrite regroup_dget by exact H. reflexivity. Qed.

Lemma regroup_length d : List.length (regroup d) = List.length d.
Proof. apply Permutation_length. apply regroup_perm. Qed.

Lemma regroup_forallb (f : string * string -> bool) d : forallb f (regroup d) = forallb f d.
Proof.
  pose proof (regroup_perm d) as Hp. revert Hp. generalize (regroup d). intros l Hp.
  induction Hp as [|x l1 l2 _ IH|x y l|l1 l2 l3 _ IH1 _ IH2]; simpl.
  - reflexivity.
  - rewrite IH. reflexivity.
  - destruct (f x), (f y); reflexivity.
  - congruence.
Qed.

Lemma type_known_regroup tt t : NoDup (dkeys tt) -> type_known (regroup tt) t = type_known tt t.
Proof. intros H. unfold type_known. rewrite regroup_dmem by exact H. reflexivity. Qed.

(* ---------- reading grouped declarations: "c1 c2 - parent ..." ---------- *)
Definition group_ok (g : list (string * list string)) : Prop :=
  forall k ms, In (k, ms) g -> Forall (fun c => String.eqb c "-" = false) ms.

Lemma collect_members ms : forall rest same d,
  Forall (fun c => String.eqb c "-" = false) ms ->
  collect_decls (map Atom ms ++ rest) same d = collect_decls rest (same ++ ms) d.
Proof.
  induction ms as [|c r IH]; intros rest same d H; cbn [map app].
  - rewrite app_nil_r. reflexivity.
  - inversion H as [|? ? Hc Hr]; subst. cbn [collect_decls]. rewrite Hc. rewrite IH by exact Hr.
    rewrite <- app_assoc. reflexivity.
Qed.

Lemma fold_dset_const_fresh (ms : list string) (k : string) : forall (d : pydict string),
  NoDup ms -> (forall c, In c ms -> ~ In c (dkeys d)) ->
  fold_left (fun acc c => dset acc c k) ms d = d ++ map (fun c => (c, k)) ms.
Proof.
  induction ms as [|c r IH]; intros d Hnd Hf; cbn [fold_left map].
  - rewrite app_nil_r. reflexivity.
  - inversion Hnd as [|? ? Hc Hr]; subst.
    rewrite dset_fresh' by (apply Hf; left; reflexivity). rewrite IH.
    + rewrite <- app_assoc. reflexivity.
    + exact Hr.
    + intros c' Hc'. rewrite dkeys_app'. cbn [dkeys map fst app]. intros Hin. apply in_app_or in Hin.
      destruct Hin as [Hin|[Heq|[]]]; [apply (Hf c'); [right; exact Hc'|exact Hin]|subst; contradiction].
Qed.

Lemma dkeys_ungroup_cons k ms g :
  dkeys (ungroup ((k, ms) :: g)) = ms ++ dkeys (ungroup g).
Proof.
  unfold ungroup. cbn [flat_map fst snd]. rewrite dkeys_app'. f_equal.
  unfold dkeys. rewrite map_map. cbn [fst]. apply map_id.
Qed.

Lemma collect_groups g : forall d,
  group_ok g -> NoDup (dkeys (ungroup g)) -> (forall c, In c (dkeys (ungroup g)) -> ~ In c (dkeys d)) ->
  collect_decls (group_tokens g) [] d = Ok (d ++ ungroup g, []).
Proof.
  induction g as [|[k ms] r IH]; intros d Hok Hnd Hf.
  - cbn. rewrite app_nil_r. reflexivity.
  - unfold group_tokens. cbn [flat_map fst snd]. rewrite <- app_assoc.
    rewrite collect_members by (apply (Hok k ms); left; reflexivity).
    cbn [app collect_decls]. cbn [String.eqb Ascii.eqb Bool.eqb andb].
    rewrite dkeys_ungroup_cons in Hnd, Hf.
    rewrite fold_dset_const_fresh.
    + change (flat_map (fun km : string * list string => map Atom (snd km) ++ [Atom "-"; Atom (fst km)]) r)
        with (group_tokens r).
      rewrite IH.
      * unfold ungroup. cbn [flat_map fst snd]. rewrite <- app_assoc. reflexivity.
      * intros k' ms' Hin. apply (Hok k' ms'). right. exact Hin.
      * apply nodup_app_r in Hnd. exact Hnd.
      * intros c Hc. rewrite dkeys_app'. intros Hin. apply in_app_or in Hin. destruct Hin as [Hin|Hin].
        -- apply (Hf c); [apply in_or_app; right; exact Hc|exact Hin].
        -- unfold dkeys in Hin. rewrite map_map in Hin. cbn [fst] in Hin. rewrite map_id in Hin.
           revert Hnd Hin Hc. clear. intros Hnd Hin Hc.
           induction ms as [|m mr IHm]; [destruct Hin|].
           cbn [app] in Hnd. inversion Hnd as [|? ? Hnm Hnd']; subst. destruct Hin as [->|Hin].
           ++ apply Hnm. apply in_or_app. right. exact Hc.
           ++ apply IHm; assumption.
    + revert Hnd. clear. induction ms as [|m mr IHm]; intros Hnd; [constructor|].
      cbn [app] in Hnd. inversion Hnd as [|? ? Hnm Hnd']; subst. constructor.
      * intros Hin. apply Hnm. apply in_or_app. left. exact Hin.
      * apply IHm. exact Hnd'.
    + intros c Hc. apply Hf. apply in_or_app. left. exact Hc.
Qed.

(* every member of a group of a table is a key of the table *)
Lemma group_members_in d k ms c :
  In (k, ms) (group_by_value d) -> In c ms -> In (c, k) (regroup d).
Proof.
  intros Hg Hc. unfold regroup, ungroup. apply in_flat_map. exists (k, ms). split; [exact Hg|].
  cbn [fst snd]. apply in_map_iff. exists c. split; [reflexivity|exact Hc].
Qed.

Lemma group_ok_regroup d :
  forallb (fun kp => not_dash (fst kp)) d = true -> group_ok (group_by_value d).
Proof.
  intros H k ms Hin. apply Forall_forall. intros c Hc.
  pose proof (group_members_in d k ms c Hin Hc) as Hr.
  pose proof (Permutation_in _ (regroup_perm d) Hr) as Hd.
  rewrite forallb_forall in H. specialize (H (c, k) Hd). unfold not_dash in H. cbn [fst] in H.
  apply negb_true_iff in H. exact H.
Qed.

(* ---------- (:types ...) ---------- *)
Lemma walk_ext (d1 d2 : typetable) : (forall k, dget d1 k = dget d2 k) ->
  forall fuel t target, walk fuel d1 t target = walk fuel d2 t target.
Proof.
  intros H fuel. induction fuel as [|f IH]; intros t target; cbn [walk]; [reflexivity|].
  destruct (String.eqb t target); [reflexivity|]. destruct (String.eqb t "object"); [reflexivity|].
  rewrite H. destruct (dget d2 t); apply IH.
Qed.

Lemma add_parent_only_id_aux (vals : list string) : forall d : typetable,
  (forall p, In p vals -> (dmem d p || String.eqb p "object") = true) ->
  fold_left (fun acc p => if dmem acc p || String.eqb p "object" then acc else dset acc p "object") vals d = d.
Proof.
  induction vals as [|p r IH]; intros d H; cbn [fold_left]; [reflexivity|].
  rewrite (H p (or_introl eq_refl)). apply IH. intros q Hq. apply H. right. exact Hq.
Qed.

Lemma filter_all {A} (f : A -> bool) l : forallb f l = true -> filter f l = l.
Proof.
  induction l as [|x xs IH]; simpl; intros H; [reflexivity|].
  apply andb_true_iff in H. destruct H as [Hx Hxs]. rewrite Hx, IH by exact Hxs. reflexivity.
Qed.

Lemma andb3_forallb {A} (f g h : A -> bool) l :
  forallb (fun x => f x && g x && h x) l = true ->
  forallb f l = true /\ forallb g l = true /\ forallb h l = true.
Proof.
  induction l as [|x xs IH]; simpl; intros H; [auto|].
  apply andb_true_iff in H. destruct H as [Hx Hxs]. apply andb_true_iff in Hx. destruct Hx as [Hx H3].
  apply andb_true_iff in Hx. destruct Hx as [H1 H2]. destruct (IH Hxs) as (I1 & I2 & I3).
  rewrite H1, H2, H3, I1, I2, I3. auto.
Qed.

Theorem types_roundtrip tt :
  wf_types tt = true -> parse_types (group_tokens (group_by_value tt)) = Ok (regroup tt).
Proof.
  unfold wf_types. intros H. apply andb_true_iff in H. destruct H as [H Hreach].
  apply andb_true_iff in H. destruct H as [Hdup Hall]. apply negb_true_iff in Hdup.
  apply has_dup_false_nodup in Hdup.
  destruct (andb3_forallb _ _ _ _ Hall) as (Hobj & Hdash & Hpar).
  unfold parse_types.
  rewrite (collect_groups (group_by_value tt) []).
  - cbn [app fold_left]. fold (regroup tt).
    unfold add_parent_only. rewrite add_parent_only_id_aux.
    + rewrite filter_all by (rewrite regroup_forallb; exact Hobj).
      assert (Hr : forallb (fun kv => reaches_object (regroup tt) (fst kv)) (regroup tt) = true).
      { rewrite regroup_forallb. rewrite <- Hreach. apply forallb_ext8. intros [k p]. cbn [fst].
        unfold reaches_object. rewrite regroup_length.
        rewrite (walk_ext (regroup tt) tt (fun k' => regroup_dget tt k' Hdup)). reflexivity. }
      rewrite Hr. reflexivity.
    + intros p Hp. unfold dvalues in Hp. apply in_map_iff in Hp. destruct Hp as ([k p'] & Hp' & Hin). cbn [snd] in Hp'. subst p'.
      pose proof (Permutation_in _ (regroup_perm tt) Hin) as Hin'.
      pose proof (forallb_In _ _ _ Hpar Hin') as Hk. cbn [snd] in Hk. unfold type_known in Hk.
      rewrite regroup_dmem by exact Hdup. rewrite orb_comm. exact Hk.
  - apply group_ok_regroup. exact Hdash.
  - apply (regroup_nodup tt Hdup).
  - intros c _ [].
Qed.

(* ---------- (:constants ...) ---------- *)
Lemma constants_members ms : forall tt rest same acc,
  Forall (fun c => String.eqb c "-" = false) ms ->
  parse_constants_aux tt (map Atom ms ++ rest) same false acc = parse_constants_aux tt rest (same ++ ms) false acc.
Proof.
  induction ms as [|c r IH]; intros tt rest same acc H; cbn [map app].
  - rewrite app_nil_r. reflexivity.
  - inversion H as [|? ? Hc Hr]; subst. cbn [parse_constants_aux]. rewrite Hc. rewrite IH by exact Hr.
    rewrite <- app_assoc. reflexivity.
Qed.

Lemma constants_groups tt g : forall acc,
  group_ok g -> NoDup (dkeys (ungroup g)) -> (forall c, In c (dkeys (ungroup g)) -> ~ In c (dkeys acc)) ->
  (forall k ms, In (k, ms) g -> type_known tt k = true) ->
  parse_constants_aux tt (group_tokens g) [] false acc = Ok (acc ++ ungroup g).
Proof.
  induction g as [|[k ms] r IH]; intros acc Hok Hnd Hf Hty.
  - cbn. rewrite app_nil_r. reflexivity.
  - unfold group_tokens. cbn [flat_map fst snd]. rewrite <- app_assoc.
    rewrite constants_members by (apply (Hok k ms); left; reflexivity).
    cbn [app parse_constants_aux]. cbn [String.eqb Ascii.eqb Bool.eqb andb].
    rewrite (Hty k ms (or_introl eq_refl)). cbn [negb].
    rewrite dkeys_ungroup_cons in Hnd, Hf.
    rewrite fold_dset_const_fresh.
    + change (flat_map (fun km : string * list string => map Atom (snd km) ++ [Atom "-"; Atom (fst km)]) r)
        with (group_tokens r).
      rewrite IH.
      * unfold ungroup. cbn [flat_map fst snd]. rewrite <- app_assoc. reflexivity.
      * intros k' ms' Hin. apply (Hok k' ms'). right. exact Hin.
      * apply nodup_app_r in Hnd. exact Hnd.
      * intros c Hc. rewrite dkeys_app'. intros Hin. apply in_app_or in Hin. destruct Hin as [Hin|Hin].
        -- apply (Hf c); [apply in_or_app; right; exact Hc|exact Hin].
        -- unfold dkeys in Hin. rewrite map_map in Hin. cbn [fst] in Hin. rewrite map_id in Hin.
           revert Hnd Hin Hc. clear. intros Hnd Hin Hc.
           induction ms as [|m mr IHm]; [destruct Hin|].
           cbn [app] in Hnd. inversion Hnd as [|? ? Hnm Hnd']; subst. destruct Hin as [->|Hin].
           ++ apply Hnm. apply in_or_app. right. exact Hc.
           ++ apply IHm; assumption.
      * intros k' ms' Hin. apply (Hty k' ms'). right. exact Hin.
    + revert Hnd. clear. induction ms as [|m mr IHm]; intros Hnd; [constructor|].
      cbn [app] in Hnd. inversion Hnd as [|? ? Hnm Hnd']; subst. constructor.
      * intros Hin. apply Hnm. apply in_or_app. left. exact Hin.
      * apply IHm. exact Hnd'.
    + intros c Hc. apply Hf. apply in_or_app. left. exact Hc.
Qed.

Lemma group_add_nonempty v c : forall g,
  (forall k ms, In (k, ms) g -> ms <> []) ->
  forall k ms, In (k, ms) (group_add g v c) -> ms <> [].
Proof.
  induction g as [|[k' ms'] gr IHg]; intros Hg k ms Hin; cbn [group_add] in Hin.
  - destruct Hin as [H|[]]. injection H as <- <-. discriminate.
  - destruct (String.eqb v k').
    + destruct Hin as [H|H]; [injection H as <- <-; destruct ms'; discriminate|apply (Hg k ms); right; exact H].
    + destruct Hin as [H|H]; [apply (Hg k ms); left; exact H|].
      apply (IHg (fun k2 ms2 H2 => Hg k2 ms2 (or_intror H2)) k ms H).
Qed.

Lemma group_nonempty_aux (d : pydict string) : forall g,
  (forall k ms, In (k, ms) g -> ms <> []) ->
  forall k ms, In (k, ms) (fold_left (fun g kv => group_add g (snd kv) (fst kv)) d g) -> ms <> [].
Proof.
  induction d as [|[c v] r IH]; intros g Hg k ms Hin; cbn [fold_left fst snd] in Hin.
  - apply (Hg k ms Hin).
  - apply (IH (group_add g v c) (group_add_nonempty v c g Hg) k ms Hin).
Qed.

Theorem constants_roundtrip tt' tt cs :
  (forall t, type_known tt' t = type_known tt t) ->
  wf_consts tt cs = true -> parse_constants tt' (group_tokens (group_by_value cs)) = Ok (regroup cs).
Proof.
  unfold wf_consts. intros Htt H. apply andb_true_iff in H. destruct H as [Hdup Hall].
  apply negb_true_iff in Hdup. apply has_dup_false_nodup in Hdup.
  unfold parse_constants. rewrite constants_groups.
  - reflexivity.
  - apply group_ok_regroup. rewrite forallb_forall in Hall |- *. intros x Hx. specialize (Hall x Hx).
    apply andb_true_iff in Hall. apply Hall.
  - apply (regroup_nodup cs Hdup).
  - intros c _ [].
  - intros k ms Hin. rewrite Htt.
    assert (Hne : ms <> []).
    { apply (group_nonempty_aux cs [] (fun _ _ H => match H with end) k ms Hin). }
    destruct ms as [|c r]; [congruence|].
    pose proof (group_members_in cs k (c :: r) c Hin (or_introl eq_refl)) as Hr.
    pose proof (Permutation_in _ (regroup_perm cs) Hr) as Hd.
    pose proof (forallb_In _ _ _ Hall Hd) as Hk. cbn [fst snd] in Hk. apply andb_true_iff in Hk. apply Hk.
Qed.
