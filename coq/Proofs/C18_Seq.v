(* C18, part 7: renamings applied one after another, and the round trip.
     - a SEQUENCE of mappings  change_signature m_k (... (change_signature m_1 a))  - the same mapping twice, two
       different ones, a mapping followed by its inverse - keeps the behaviour as soon as every step passes the side
       condition on the action it is applied to (same_behaviour is an equivalence relation);
     - the ROUND TRIP is exact: a mapping that passes the side condition, followed by any mapping that sends every
       new name back to the old one, gives back the action itself (literally: the same object model). *)
From Coq Require Import List String Bool PrimFloat.
From Verif Require Import Base.Result Base.Str Base.PyDict Model.Types Model.Domain Model.Exec Model.ChangeSignature
  Spec.Pddl Spec.Rename Proofs.C18_Dict Proofs.C18_Denote Proofs.C18_Exec Proofs.C18_Check Proofs.C18_Main.
Import ListNotations.
Open Scope string_scope.
Open Scope list_scope.

(* ---------- sequences ---------- *)
Definition cs_seq (ms : list renaming) (a : maction) : maction :=
  fold_left (fun a m => change_signature m a) ms a.

(* every step passes the side condition on the action it is applied to *)
Fixpoint ok_seq (dom : mdomain) (a : maction) (ms : list renaming) : bool :=
  match ms with
  | [] => true
  | m :: r => renaming_ok dom a m && ok_seq dom (change_signature m a) r
  end.

Definition ren_seq (ms : list renaming) (A : action) : action :=
  fold_left (fun A m => ren_action (rn m) A) ms A.

Lemma same_behaviour_refl dom a : same_behaviour dom a a.
Proof.
  intros args. destruct (ground_action dom a args); [|reflexivity].
  split; intros; reflexivity.
Qed.

Lemma same_behaviour_sym dom a b : same_behaviour dom a b -> same_behaviour dom b a.
Proof.
  intros H args. specialize (H args).
  destruct (ground_action dom a args), (ground_action dom b args); try contradiction.
  - destruct H as [H1 H2]. split; intros; symmetry; [apply H1|apply H2].
  - symmetry. exact H.
Qed.

Lemma same_behaviour_trans dom a b c :
  same_behaviour dom a b -> same_behaviour dom b c -> same_behaviour dom a c.
Proof.
  intros H1 H2 args. specialize (H1 args). specialize (H2 args).
  destruct (ground_action dom a args), (ground_action dom b args), (ground_action dom c args); try contradiction.
  - destruct H1 as [A1 S1], H2 as [A2 S2]. split.
    + intros eps objs s. rewrite A2. apply A1.
    + intros eps objs allow skip order uorder s. rewrite S2. apply S1.
  - congruence.
Qed.

Theorem rename_seq_correct dom (ms : list renaming) : forall a,
  ok_seq dom a ms = true ->
  denote_action (cs_seq ms a) = option_map (ren_seq ms) (denote_action a) /\
  same_behaviour dom a (cs_seq ms a).
Proof.
  induction ms as [|m r IH]; intros a H.
  - split; [unfold cs_seq, ren_seq; simpl; destruct (denote_action a); reflexivity|apply same_behaviour_refl].
  - simpl in H. apply andb_true_iff in H. destruct H as [Hm Hr].
    destruct (rename_correct dom m a Hm) as [_ [_ [_ [Hd Hb]]]].
    destruct (IH (change_signature m a) Hr) as [Hd' Hb'].
    change (cs_seq (m :: r) a) with (cs_seq r (change_signature m a)).
    split.
    + rewrite Hd', Hd. destruct (denote_action a); reflexivity.
    + apply (same_behaviour_trans dom a (change_signature m a)); assumption.
Qed.

(* ---------- the round trip ---------- *)
Section RoundTrip.
  Variable dom : mdomain.
  Variable N : list string.
  Variable B : list string.

  (* m' sends every new name back *)
  Definition undoes (m m' : renaming) : Prop := forall n, In n N -> rn m' (rn m n) = n.

  Lemma undoes_under m m' v : good dom N B m -> In v B -> undoes m m' -> undoes (drop m v) (drop m' v).
  Proof.
    intros [_ Hmv] Hv Hu n Hn.
    destruct (string_dec n v) as [E|E].
    - subst n. rewrite !rn_drop_same. reflexivity.
    - rewrite (rn_drop_other m v n E).
      destruct (string_dec (rn m n) n) as [E2|E2].
      + rewrite E2, (rn_drop_other m' v n E). rewrite <- E2 at 1. apply Hu. exact Hn.
      + destruct (Hmv n Hn E2) as [Hb _].
        assert (Hne : rn m n <> v) by (intros Heq; rewrite Heq in Hb; contradiction).
        rewrite (rn_drop_other m' v _ Hne). apply Hu. exact Hn.
  Qed.

  Lemma map_undo m m' (l : list string) : undoes m m' -> incl l N -> map (rn m') (map (rn m) l) = l.
  Proof.
    intros Hu. induction l as [|x r IH]; simpl; intros Hi; [reflexivity|].
    rewrite (Hu x (Hi x (or_introl eq_refl))), IH; [reflexivity|].
    intros y Hy. apply Hi. right. exact Hy.
  Qed.

  Lemma NoDup_of_map {A C} (f : A -> C) (l : list A) : NoDup (map f l) -> NoDup l.
  Proof.
    induction l as [|x r IH]; simpl; intros H; [constructor|].
    inversion H as [|? ? Hx Hr]; subst. constructor; [|apply IH; exact Hr].
    intros Hin. apply Hx. apply in_map. exact Hin.
  Qed.

  Lemma args_undo m m' args : undoes m m' -> args_ok N m args -> rename_args m' (rename_args m args) = args.
  Proof.
    intros Hu [Hi Hnd]. rewrite (rename_args_map m args Hnd).
    rewrite rename_args_map; rewrite (map_undo m m' args Hu Hi); [reflexivity|].
    apply (NoDup_of_map (rn m)). exact Hnd.
  Qed.

  Lemma tree_undo m m' t : undoes m m' -> tree_ok N m t -> rename_tree m' (rename_tree m t) = t.
  Proof.
    intros Hu. induction t as [x|f args|op l IHl r IHr]; simpl; intros H.
    - reflexivity.
    - rewrite (args_undo m m' args Hu H). reflexivity.
    - destruct H as [Hl Hr]. rewrite (IHl Hl), (IHr Hr). reflexivity.
  Qed.

  Lemma numexp_undo m m' t : undoes m m' -> numexp_ok N m t -> rename_numexp m' (rename_numexp m t) = t.
  Proof.
    intros Hu [Hnode H]. destruct t as [x|f args|op l r]; try contradiction.
    simpl in H. destruct H as [Hl Hr]. simpl. rewrite (tree_undo m m' l Hu Hl), (tree_undo m m' r Hu Hr). reflexivity.
  Qed.

  Lemma pairs_undo m m' l : undoes m m' -> pairs_ok N l -> map (rename_pair m') (map (rename_pair m) l) = l.
  Proof.
    intros Hu. induction l as [|[a b] r IH]; simpl; intros H; [reflexivity|].
    destruct (H (a, b) (or_introl eq_refl)) as [Ha Hb]. simpl in Ha, Hb.
    unfold rename_pair at 1 2. simpl. rewrite (Hu a Ha), (Hu b Hb), IH; [reflexivity|].
    intros ab Hab. apply H. right. exact Hab.
  Qed.

  Lemma pre_undo : forall p m m', good dom N B m -> undoes m m' -> pre_ok N B m p -> rename_pre m' (rename_pre m p) = p.
  Proof.
    apply (mpre_ind'
             (fun p => forall m m', good dom N B m -> undoes m m' -> pre_ok N B m p -> rename_pre m' (rename_pre m p) = p)
             (fun c => forall m m', good dom N B m -> undoes m m' -> cond_ok N B m c -> rename_cond m' (rename_cond m c) = c)).
    - intros op os eqs neqs IH m m' Hg Hu H. apply pre_ok_unfold in H. destruct H as [He [Hn Hos]].
      rewrite !rename_pre_unfold. rewrite (pairs_undo m m' eqs Hu He), (pairs_undo m m' neqs Hu Hn).
      f_equal. rewrite map_map. rewrite <- (map_id os) at 2. apply map_ext_in.
      intros c Hc. rewrite Forall_forall in IH, Hos. apply (IH c Hc m m' Hg Hu (Hos c Hc)).
    - intros pos p args m m' Hg Hu H. simpl. rewrite (args_undo m m' args Hu H). reflexivity.
    - intros t m m' Hg Hu H. simpl. rewrite (numexp_undo m m' t Hu H). reflexivity.
    - intros q IH m m' Hg Hu H. simpl. rewrite (IH m m' Hg Hu H). reflexivity.
    - intros v ty b IH m m' Hg Hu [Hv H]. simpl.
      rewrite (IH (drop m v) (drop m' v) (good_under dom N B m v Hg Hv) (undoes_under m m' v Hg Hv Hu) H). reflexivity.
  Qed.

  Lemma lit_undo m m' l : undoes m m' -> lit_ok N m l -> rename_lit m' (rename_lit m l) = l.
  Proof.
    intros Hu H. destruct l as [pos p args]. unfold rename_lit. simpl. rewrite (args_undo m m' args Hu H). reflexivity.
  Qed.

  Lemma map_undo_in {A} (f g : A -> A) (P : A -> Prop) (l : list A) :
    (forall x, P x -> g (f x) = x) -> Forall P l -> map g (map f l) = l.
  Proof.
    intros H HF. rewrite map_map. rewrite <- (map_id l) at 2. apply map_ext_in.
    intros x Hx. rewrite Forall_forall in HF. apply H. apply HF. exact Hx.
  Qed.

  Lemma condeff_undo m m' ce :
    good dom N B m -> undoes m m' -> condeff_ok N B m ce -> rename_condeff m' (rename_condeff m ce) = ce.
  Proof.
    intros Hg Hu [Hp [Hd Hn]]. destruct ce as [ante disc nums]. unfold rename_condeff. simpl in *.
    rewrite (pre_undo ante m m' Hg Hu Hp).
    rewrite (map_undo_in (rename_lit m) (rename_lit m') (lit_ok N m) disc (fun l Hl => lit_undo m m' l Hu Hl) Hd).
    rewrite (map_undo_in (rename_numexp m) (rename_numexp m') (numexp_ok N m) nums (fun t Ht => numexp_undo m m' t Hu Ht) Hn).
    reflexivity.
  Qed.

  Lemma sig_undo {V} m m' (sg : pydict V) :
    undoes m m' -> incl (dkeys sg) N -> NoDup (map (rn m) (dkeys sg)) -> rebuild m' (rebuild m sg) = sg.
  Proof.
    intros Hu Hi Hnd. rewrite (rebuild_map m sg Hnd).
    assert (Hk : dkeys (map (rn_item m) sg) = map (rn m) (dkeys sg)).
    { unfold dkeys. rewrite !map_map. reflexivity. }
    rewrite rebuild_map.
    - rewrite map_map. rewrite <- (map_id sg) at 2. apply map_ext_in.
      intros [k v] Hkv. unfold rn_item. simpl. f_equal. apply Hu. apply Hi.
      unfold dkeys. apply (in_map fst sg (k, v) Hkv).
    - rewrite Hk, (map_undo m m' (dkeys sg) Hu Hi). apply (NoDup_of_map (rn m)). exact Hnd.
  Qed.

  Theorem action_undo m m' a :
    good dom N B m -> undoes m m' -> action_ok N B m a -> incl (dkeys (ma_sig a)) N ->
    change_signature m' (change_signature m a) = a.
  Proof.
    intros Hg Hu [Hs [Hp [Hd [Hn [Hc Hun]]]]] Hi. destruct a as [name sg pre disc nums conds univs].
    unfold change_signature. simpl in *.
    rewrite (sig_undo m m' sg Hu Hi Hs), (pre_undo pre m m' Hg Hu Hp).
    rewrite (map_undo_in (rename_lit m) (rename_lit m') (lit_ok N m) disc (fun l Hl => lit_undo m m' l Hu Hl) Hd).
    rewrite (map_undo_in (rename_numexp m) (rename_numexp m') (numexp_ok N m) nums (fun t Ht => numexp_undo m m' t Hu Ht) Hn).
    rewrite (map_undo_in (rename_condeff m) (rename_condeff m') (condeff_ok N B m) conds
                         (fun ce Hce => condeff_undo m m' ce Hg Hu Hce) Hc).
    rewrite (map_undo_in (rename_univeff m) (rename_univeff m')
                         (fun ue => In (ue_var ue) B /\ condeff_ok N B (drop m (ue_var ue)) (ue_ce ue)) univs); [reflexivity| |exact Hun].
    intros [v ty ce] [Hv Hce]. unfold rename_univeff. simpl in *.
    rewrite (condeff_undo (drop m v) (drop m' v) ce (good_under dom N B m v Hg Hv) (undoes_under m m' v Hg Hv Hu) Hce).
    reflexivity.
  Qed.
End RoundTrip.

(* a mapping that passes the side condition, then any mapping that sends every new name back: the action itself *)
Theorem roundtrip_exact (dom : mdomain) (a : maction) (m m' : renaming) :
  renaming_ok dom a m = true ->
  (forall n, In n (names_action a) -> rn m' (rn m n) = n) ->
  change_signature m' (change_signature m a) = a.
Proof.
  unfold renaming_ok. intros H Hu. apply andb_true_iff in H. destruct H as [Ha Hg].
  apply goodb_good in Hg. destruct (actionb_ok dom _ _ m a Hg Ha) as [Hok Hincl].
  apply (action_undo dom (names_action a) (bound_maction a) m m' a Hg Hu Hok Hincl).
Qed.

(* the list of pairs turned round is such a mapping whenever the original one moves parameters only - decided here by
   computation for the worked example (rotation, swap, chain and fresh names of Proofs.C18_Main) *)
Definition turned (m : renaming) : renaming := map (fun kv => (snd kv, fst kv)) m.

Example ex_roundtrip :
  change_signature (turned ex_rotation) (change_signature ex_rotation ex_act) = ex_act /\
  change_signature (turned ex_swap) (change_signature ex_swap ex_act) = ex_act /\
  change_signature (turned ex_chain) (change_signature ex_chain ex_act) = ex_act /\
  change_signature (turned ex_fresh) (change_signature ex_fresh ex_act) = ex_act /\
  change_signature ex_swap (change_signature ex_swap ex_act) = ex_act.
Proof. vm_compute. repeat split; reflexivity. Qed.

(* the same mapping three times (a rotation of three names is the identity then), as a sequence inside the theorem *)
Example ex_seq_ok :
  ok_seq ex_dom ex_act [ex_rotation; ex_rotation; ex_rotation] = true /\
  cs_seq [ex_rotation; ex_rotation; ex_rotation] ex_act = ex_act /\
  ok_seq ex_dom ex_act [ex_chain; turned ex_chain; ex_swap; ex_fresh] = true.
Proof. vm_compute. repeat split; reflexivity. Qed.
